import HailVerif.Proofs.BatchDBCancel
import HailVerif.Proofs.AttemptsTrigger
import Mathlib.Tactic.Ring
/-!
# Accounting invariants of the BatchDB model: billing aggregates (C02) and instance free cores (C10)

Contents (in this order):
1. counter algebra: `getP` (a `WHERE`-sum over the counter log), compaction preserves every `getP`;
2. the billing invariant `Billing P s : getP P s.ctr = expected P s`, generic in a date-blind predicate `P` on the
   billing keys (`BillPred`); it is preserved by every primitive (`updateAttempts`, `addAttempt`, `updateJobs`, …);
3. key stability (`KeySame`): in-place updates of `batches` / `job_groups` / `jobs` never change the aggregate rows an
   attempt is charged to;
4. per-transaction lemmas `billing_<op>`;
5. what the clamp trigger stores in `end_time` / `reason` (`upd_end_reason`, `upd_end_mono`), the structural invariants
   `Struct` (foreign keys, key uniqueness of attempts and instances, ancestors, `RowsOK`, `DeadFree`) and
   `struct_step`;
6. `billing_step`, `billing_run`;
7. free-core accounting: `usedOn`, `LiveExact`, `ReasonEnd`, `AttInst`, the invariant bundle `Acc`, the report
   hypotheses `OpOK`, and `acc_step`.
-/
/-! counter algebra -/
namespace HailVerif.BatchDB

/-- the sum of all entries of the log whose key satisfies `P` (`SUM(...) WHERE P(key)`) -/
def getP (P : CKey → Bool) (m : List (CKey × Int)) : Int := sumBy (fun e => if P e.1 then e.2 else 0) m

theorem get_eq_getP (m : List (CKey × Int)) (k : CKey) : get m k = getP (fun k' => decide (k' = k)) m := by
  unfold get getP
  have := sumBy_filter_ite (fun e : CKey × Int => e.2) (fun e => decide (e.1 = k)) m
  simpa [sumBy] using this

theorem getP_nil (P : CKey → Bool) : getP P [] = 0 := rfl
theorem getP_cons (P : CKey → Bool) (e : CKey × Int) (m : List (CKey × Int)) :
    getP P (e :: m) = (if P e.1 then e.2 else 0) + getP P m := by simp [getP, sumBy_cons]
theorem getP_append (P : CKey → Bool) (a b : List (CKey × Int)) : getP P (a ++ b) = getP P a + getP P b := by
  simp [getP, sumBy_append]
theorem getP_addMany (P : CKey → Bool) (ds m : List (CKey × Int)) : getP P (addMany ds m) = getP P ds + getP P m :=
  getP_append P ds m

theorem getP_flatMap {α : Type} (P : CKey → Bool) (l : List α) (f : α → List (CKey × Int)) :
    getP P (l.flatMap f) = sumBy (fun x => getP P (f x)) l := by
  induction l with
  | nil => rfl
  | cons x l ih => simp only [List.flatMap_cons, getP_append, ih, sumBy_cons]

theorem getP_zero (P : CKey → Bool) (m : List (CKey × Int)) (h : ∀ e ∈ m, P e.1 = false) : getP P m = 0 := by
  unfold getP
  apply sumBy_zero
  intro e he; simp [h e he]

/-- number of keys of a list satisfying `P` -/
def cnt (P : CKey → Bool) (l : List CKey) : Int := sumBy (fun k => if P k then 1 else 0) l

theorem getP_map_const (P : CKey → Bool) (l : List CKey) (v : Int) :
    getP P (l.map fun k => (k, v)) = cnt P l * v := by
  induction l with
  | nil => simp [getP, cnt, sumBy]
  | cons k l ih =>
    simp only [List.map_cons, getP_cons, ih, cnt, sumBy_cons]
    split_ifs <;> simp [Int.add_mul]

theorem getP_filter (P : CKey → Bool) (f : CKey × Int → Bool) (m : List (CKey × Int))
    (h : ∀ e ∈ m, P e.1 = true → f e = true) : getP P (m.filter f) = getP P m := by
  unfold getP
  rw [sumBy_filter_ite]
  apply sumBy_congr
  intro e he
  by_cases hp : P e.1 = true
  · simp [hp, h e he hp]
  · simp [hp]

theorem sumBy_add {α : Type} (f g : α → Int) (l : List α) : sumBy (fun x => f x + g x) l = sumBy f l + sumBy g l := by
  induction l with
  | nil => rfl
  | cons x l ih => simp only [sumBy_cons, ih]; omega

theorem sumBy_mul_right {α : Type} (f : α → Int) (c : Int) (l : List α) : sumBy (fun x => f x * c) l = sumBy f l * c := by
  induction l with
  | nil => simp [sumBy]
  | cons x l ih => simp only [sumBy_cons, ih, Int.add_mul]

theorem sumBy_mul_left {α : Type} (f : α → Int) (c : Int) (l : List α) : sumBy (fun x => c * f x) l = c * sumBy f l := by
  induction l with
  | nil => simp [sumBy]
  | cons x l ih => simp only [sumBy_cons, ih, Int.mul_add]

/-- in a duplicate-free list, the indicator of one element sums to its membership -/
theorem sumBy_indicator_nodup (L : List CKey) (hL : L.Nodup) (k0 : CKey) (v : Int) :
    sumBy (fun k => if k0 = k then v else 0) L = if k0 ∈ L then v else 0 := by
  induction L with
  | nil => simp [sumBy]
  | cons k L ih =>
    rw [List.nodup_cons] at hL
    simp only [sumBy_cons, ih hL.2, List.mem_cons]
    by_cases h : k0 = k
    · subst h; simp [hL.1]
    · simp [h]

/-- summing the per-key totals over a duplicate-free list of keys that covers the log gives the total -/
theorem sum_get_over_keys (P : CKey → Bool) (m : List (CKey × Int)) (L : List CKey) (hL : L.Nodup)
    (hcov : ∀ e ∈ m, e.1 ∈ L) : sumBy (fun k => if P k then get m k else 0) L = getP P m := by
  induction m with
  | nil => simp [get_nil, getP_nil]; exact sumBy_zero _ _ (by intro x _; simp)
  | cons e m ih =>
    have h1 : ∀ k ∈ L, (if P k = true then get (e :: m) k else 0) =
        (if e.1 = k then (if P e.1 then e.2 else 0) else 0) + (if P k = true then get m k else 0) := by
      intro k _
      rw [get_cons]
      by_cases hk : e.1 = k
      · subst hk; by_cases hp : P e.1 = true <;> simp [hp]
      · simp [hk]
    rw [sumBy_congr _ _ L h1, sumBy_add, ih (fun x hx => hcov x (by simp [hx])), sumBy_indicator_nodup L hL,
      getP_cons]
    simp [hcov e (by simp)]

theorem nodup_eraseDups : ∀ l : List CKey, l.eraseDups.Nodup
  | [] => by simp
  | a :: as => by
    rw [List.eraseDups_cons, List.nodup_cons]
    have : (as.filter fun b => !b == a).length < (a :: as).length :=
      Nat.lt_succ_of_le (List.length_filter_le _ _)
    exact ⟨by rw [List.mem_eraseDups]; simp, nodup_eraseDups _⟩
termination_by l => l.length

/-- compaction of the log preserves every `WHERE`-sum -/
theorem getP_compact (P : CKey → Bool) (m : List (CKey × Int)) :
    getP P (((m.map (·.1)).eraseDups).map fun k => (k, get m k)) = getP P m := by
  have h := sum_get_over_keys P m ((m.map (·.1)).eraseDups) (nodup_eraseDups _)
    (by intro e he; rw [List.mem_eraseDups]; exact List.mem_map_of_mem he)
  rw [← h]
  unfold getP sumBy
  rw [List.map_map]
  rfl

theorem compact_ctr (s : State) : (compact s).1.ctr = ((s.ctr.map (·.1)).eraseDups).map fun k => (k, get s.ctr k) := rfl

end HailVerif.BatchDB

/-! billing invariant, generic in the key predicate -/
namespace HailVerif.BatchDB
open HailVerif.Generated.AttemptsTrigger (Row attemptsBeforeUpdate)

def isBilling : CKey → Bool
  | .aJob _ _ _ | .aGroup _ _ _ | .aBpUser _ _ _ | .aByDate _ _ _ _ => true
  | _ => false

/-- a `WHERE` clause over the billing aggregate tables that does not look at the billing day -/
structure BillPred (P : CKey → Bool) : Prop where
  billing : ∀ k, P k = true → isBilling k = true
  dateBlind : ∀ d d' bp u r, P (.aByDate d bp u r) = P (.aByDate d' bp u r)

/-- the aggregate rows that receive the usage of resource `res` of an attempt of job `(b, j)` billed on day `date` -/
def billKeys (s : State) (date b j res : Nat) : List CKey :=
  [CKey.aBpUser (bpOf s b) (userOf s b) res, CKey.aJob b j res, CKey.aByDate date (bpOf s b) (userOf s b) res] ++
    (ancestorsOf s b (jobGroupOf s b j)).map fun g => CKey.aGroup b g res

theorem cnt_nil (P : CKey → Bool) : cnt P [] = 0 := rfl
theorem cnt_cons (P : CKey → Bool) (k : CKey) (l : List CKey) : cnt P (k :: l) = (if P k then 1 else 0) + cnt P l := by
  simp [cnt, sumBy_cons]
theorem cnt_append (P : CKey → Bool) (a b : List CKey) : cnt P (a ++ b) = cnt P a + cnt P b := by
  simp [cnt, sumBy_append]

theorem cnt_billKeys_date {P : CKey → Bool} (hP : BillPred P) (s : State) (d d' b j res : Nat) :
    cnt P (billKeys s d b j res) = cnt P (billKeys s d' b j res) := by
  unfold billKeys
  simp only [List.cons_append, List.nil_append, cnt_cons]
  rw [hP.dateBlind d d']

def resOf (s : State) (b j a : Nat) : List AttemptRes :=
  s.attemptRes.filter (fun r => r.batch = b ∧ r.job = j ∧ r.attempt = a)

/-- `Σ quantity` over the resource rows of attempt `(b, j, a)`, each counted once per aggregate row selected by `P` -/
def resW (P : CKey → Bool) (s : State) (b j a : Nat) : Int :=
  sumBy (fun r => cnt P (billKeys s 0 b j r.res) * r.qty) (resOf s b j a)

/-- the value the `P`-selected aggregates must have: `Σ_attempts billed · Σ_resources quantity` -/
def expected (P : CKey → Bool) (s : State) : Int :=
  sumBy (fun a => billed a.row * resW P s a.batch a.job a.id) s.attempts

def Billing (P : CKey → Bool) (s : State) : Prop := getP P s.ctr = expected P s

theorem getP_billingDeltas {P : CKey → Bool} (hP : BillPred P) (s : State) (date b j a : Nat) (diff : Int) :
    getP P (billingDeltas s date b j a diff) = diff * resW P s b j a := by
  unfold billingDeltas
  by_cases h0 : diff = 0
  · simp [h0, getP_nil]
  · rw [if_neg h0, getP_flatMap]
    unfold resW resOf
    rw [← sumBy_mul_left]
    apply sumBy_congr
    intro r _
    have e : ([(CKey.aBpUser (bpOf s b) (userOf s b) r.res, diff * r.qty), (CKey.aJob b j r.res, diff * r.qty),
        (CKey.aByDate date (bpOf s b) (userOf s b) r.res, diff * r.qty)] ++
        (ancestorsOf s b (jobGroupOf s b j)).map fun g => (CKey.aGroup b g r.res, diff * r.qty)) =
        (billKeys s date b j r.res).map fun k => (k, diff * r.qty) := by
      simp [billKeys, List.map_map, Function.comp_def]
    rw [e, getP_map_const, cnt_billKeys_date hP s date 0]
    ring

theorem billKeys_congr {s s' : State} (hb : s'.batches = s.batches) (hg : s'.groups = s.groups) (hj : s'.jobs = s.jobs)
    (d b j r : Nat) : billKeys s' d b j r = billKeys s d b j r := by
  unfold billKeys bpOf userOf ancestorsOf jobGroupOf findBatch findGroup findJob
  rw [hb, hg, hj]

theorem resW_congr (P : CKey → Bool) {s s' : State} (hr : s'.attemptRes = s.attemptRes) (b j a : Nat)
    (hk : ∀ r, billKeys s' 0 b j r = billKeys s 0 b j r) : resW P s' b j a = resW P s b j a := by
  unfold resW resOf
  rw [hr]
  apply sumBy_congr
  intro r _; rw [hk]

/-- a transaction that leaves attempts and resource rows alone, keeps the aggregate rows of every attempt and adds
nothing to the `P`-selected aggregates preserves the invariant -/
theorem billing_of_neutral {P : CKey → Bool} {s s' : State} (ha : s'.attempts = s.attempts)
    (hr : s'.attemptRes = s.attemptRes)
    (hk : ∀ a ∈ s.attempts, ∀ r, billKeys s' 0 a.batch a.job r = billKeys s 0 a.batch a.job r)
    (hc : getP P s'.ctr = getP P s.ctr) (h : Billing P s) : Billing P s' := by
  unfold Billing expected at *
  rw [hc, h, ha]
  apply sumBy_congr
  intro a hm
  rw [resW_congr P hr _ _ _ (hk a hm)]

theorem billing_updateAttempts {P : CKey → Bool} (hP : BillPred P) (s : State) (date : Nat) (p : Attempt → Bool)
    (prop : Row → Row) (h : Billing P s) : Billing P (updateAttempts s date p prop) := by
  unfold Billing expected at *
  have hres : ∀ b j a, resW P (updateAttempts s date p prop) b j a = resW P s b j a := fun b j a =>
    resW_congr P rfl b j a (fun r => billKeys_congr rfl rfl rfl _ _ _ _)
  show getP P (addMany _ s.ctr) = sumBy _ (s.attempts.map _)
  rw [getP_addMany, getP_flatMap, h, sumBy_filter_ite]
  have := sumBy_map_diff (fun a => billed a.row * resW P (updateAttempts s date p prop) a.batch a.job a.id)
    (fun a => if p a then { a with row := attemptsBeforeUpdate a.row (prop a.row) } else a) s.attempts
  rw [this]
  have e1 : sumBy (fun a => billed a.row * resW P (updateAttempts s date p prop) a.batch a.job a.id) s.attempts =
      sumBy (fun a => billed a.row * resW P s a.batch a.job a.id) s.attempts :=
    sumBy_congr _ _ _ (fun a _ => by rw [hres])
  rw [e1, Int.add_comm]
  congr 1
  apply sumBy_congr
  intro a _
  by_cases hp : p a = true
  · simp only [hp, if_true, getP_billingDeltas hP, hres]
    rw [Int.sub_mul]
  · simp [hp]

theorem billing_addAttempt {P : CKey → Bool} (s : State) (b j : Nat) (att inst : Option Nat) (c : Int)
    (h : Billing P s) : Billing P (addAttempt s b j att inst c).1 := by
  unfold addAttempt
  split
  · exact h
  · split
    · exact h
    · unfold Billing expected at *
      simp only [sumBy_append, sumBy_cons, sumBy_nil]
      have hb : billed (Row.mk none none none none) = 0 := rfl
      rw [hb, h]
      simp only [Int.zero_mul, Int.add_zero]
      apply sumBy_congr
      intro a _
      exact congrArg _ (resW_congr P rfl _ _ _ (fun r => billKeys_congr rfl rfl rfl _ _ _ _)).symm

end HailVerif.BatchDB

/-! key stability under in-place updates, non-billing deltas -/
namespace HailVerif.BatchDB
open HailVerif.Generated.AttemptsTrigger (Row attemptsBeforeUpdate)

def BatchFrame (F : Batch → Batch) : Prop := ∀ x, (F x).id = x.id ∧ (F x).user = x.user ∧ (F x).bp = x.bp

theorem BatchFrame.ite (p : Batch → Prop) [DecidablePred p] {F : Batch → Batch} (hF : BatchFrame F) :
    BatchFrame (fun x => if p x then F x else x) := by
  intro x; by_cases h : p x <;> simp [h, hF x]

theorem find?_map_frame {α : Type} (p : α → Bool) (F : α → α) (hF : ∀ x, p (F x) = p x) (l : List α) :
    (l.map F).find? p = (l.find? p).map F := by
  rw [List.find?_map]
  have : (p ∘ F) = p := funext (fun x => hF x)
  rw [this]

theorem bpUser_map {s s' : State} {F : Batch → Batch} (hF : BatchFrame F) (e : s'.batches = s.batches.map F) (b : Nat) :
    bpOf s' b = bpOf s b ∧ userOf s' b = userOf s b := by
  unfold bpOf userOf findBatch
  rw [e, find?_map_frame _ F (by intro x; simp [(hF x).1])]
  cases s.batches.find? (fun x => decide (x.id = b)) with
  | none => simp
  | some x => simp [(hF x).2.1, (hF x).2.2]

theorem bpUser_congr {s s' : State} (e : s'.batches = s.batches) (b : Nat) :
    bpOf s' b = bpOf s b ∧ userOf s' b = userOf s b := by
  unfold bpOf userOf findBatch; rw [e]; exact ⟨rfl, rfl⟩

theorem ancestorsOf_map {s s' : State} {F : Group → Group} (hF : GroupFrame F) (e : s'.groups = s.groups.map F) (b g : Nat) :
    ancestorsOf s' b g = ancestorsOf s b g := by
  unfold ancestorsOf findGroup
  rw [e, find?_map_frame _ F (by intro x; simp [(hF x).1, (hF x).2.1])]
  cases s.groups.find? (fun x => decide (x.batch = b ∧ x.id = g)) with
  | none => simp
  | some x => simp [(hF x).2.2.1]

theorem ancestorsOf_congr {s s' : State} (e : s'.groups = s.groups) (b g : Nat) : ancestorsOf s' b g = ancestorsOf s b g := by
  unfold ancestorsOf findGroup; rw [e]

theorem jobGroupOf_map {s s' : State} {F : Job → Job} (hF : JobFrame F) (e : s'.jobs = s.jobs.map F) (b j : Nat) :
    jobGroupOf s' b j = jobGroupOf s b j := by
  unfold jobGroupOf findJob
  rw [e, find?_map_frame _ F (by intro x; simp [(hF x).1, (hF x).2.1])]
  cases s.jobs.find? (fun x => decide (x.batch = b ∧ x.id = j)) with
  | none => simp
  | some x => simp [(hF x).2.2.2.1]

theorem jobGroupOf_congr {s s' : State} (e : s'.jobs = s.jobs) (b j : Nat) : jobGroupOf s' b j = jobGroupOf s b j := by
  unfold jobGroupOf findJob; rw [e]

/-- the aggregate rows charged for any attempt are the same in both states -/
def KeySame (s s' : State) : Prop := ∀ d b j r, billKeys s' d b j r = billKeys s d b j r

theorem KeySame.refl (s : State) : KeySame s s := fun _ _ _ _ => rfl
theorem KeySame.trans {a b c : State} (h1 : KeySame a b) (h2 : KeySame b c) : KeySame a c :=
  fun d b' j r => (h2 d b' j r).trans (h1 d b' j r)

theorem keySame_of {s s' : State} (hb : ∀ b, bpOf s' b = bpOf s b ∧ userOf s' b = userOf s b)
    (hg : ∀ b g, ancestorsOf s' b g = ancestorsOf s b g) (hj : ∀ b j, jobGroupOf s' b j = jobGroupOf s b j) :
    KeySame s s' := by
  intro d b j r
  unfold billKeys
  rw [(hb b).1, (hb b).2, hj, hg]

theorem keySame_of_eq {s s' : State} (hb : s'.batches = s.batches) (hg : s'.groups = s.groups) (hj : s'.jobs = s.jobs) :
    KeySame s s' := fun d b j r => billKeys_congr hb hg hj d b j r

theorem keySame_updateJobs (s : State) (p : Job → Bool) (f : Job → Job) (hf : JobFrame f) : KeySame s (updateJobs s p f) :=
  keySame_of (bpUser_congr rfl) (ancestorsOf_congr rfl) (jobGroupOf_map (JobFrame.ite p hf) (updateJobs_jobs s p f))

theorem keySame_tallyGroups (s : State) (b g : Nat) (ns : JState) : KeySame s (tallyGroups s b g ns) :=
  keySame_of (bpUser_congr rfl) (ancestorsOf_map (GroupFrame.ite _ (groupFrame_tally ns)) rfl) (jobGroupOf_congr rfl)

theorem keySame_markGroupsComplete (s : State) (b g : Nat) : KeySame s (markGroupsComplete s b g) :=
  keySame_of (bpUser_congr rfl)
    (ancestorsOf_map (GroupFrame.ite _ (F := fun x => { x with state := .complete }) (fun _ => ⟨rfl, rfl, rfl, rfl⟩)) rfl)
    (jobGroupOf_congr rfl)

theorem keySame_completeBatchIfDone (s : State) (b : Nat) : KeySame s (completeBatchIfDone s b) :=
  keySame_of (bpUser_map (BatchFrame.ite _ (F := fun x => { x with state := .complete }) (fun _ => ⟨rfl, rfl, rfl⟩)) rfl)
    (ancestorsOf_congr rfl) (jobGroupOf_congr rfl)

/-! ### deltas that never touch the billing aggregates -/

theorem getP_nonbilling {P : CKey → Bool} (hP : BillPred P) (m : List (CKey × Int))
    (h : ∀ e ∈ m, isBilling e.1 = false) : getP P m = 0 := by
  apply getP_zero
  intro e he
  cases hp : P e.1 with
  | false => rfl
  | true => have := hP.billing _ hp; rw [h e he] at this; exact absurd this (by simp)

theorem jobDeltas_nonbilling (s : State) (o n : Job) : ∀ e ∈ jobDeltas s o n, isBilling e.1 = false := by
  intro e he
  unfold jobDeltas at he
  simp only [List.mem_append, List.mem_flatMap, List.mem_cons, List.not_mem_nil, or_false] at he
  rcases he with ⟨a, _, h⟩ | h
  · rcases h with rfl | rfl | rfl | rfl | rfl <;> rfl
  · rcases h with rfl | rfl | rfl | rfl | rfl | rfl | rfl | rfl <;> rfl

theorem getP_updateJobs {P : CKey → Bool} (hP : BillPred P) (s : State) (p : Job → Bool) (f : Job → Job) :
    getP P (updateJobs s p f).ctr = getP P s.ctr := by
  show getP P (addMany _ s.ctr) = _
  rw [getP_addMany, getP_nonbilling hP, Int.zero_add]
  intro e he
  rw [List.mem_flatMap] at he
  obtain ⟨j, _, hj⟩ := he
  exact jobDeltas_nonbilling s j (f j) e hj

theorem billing_updateJobs {P : CKey → Bool} (hP : BillPred P) (s : State) (p : Job → Bool) (f : Job → Job)
    (hf : JobFrame f) (h : Billing P s) : Billing P (updateJobs s p f) :=
  billing_of_neutral (s := s) (s' := updateJobs s p f) rfl rfl (fun _ _ r => keySame_updateJobs s p f hf 0 _ _ r)
    (getP_updateJobs hP s p f) h

theorem billing_keySame {P : CKey → Bool} {s : State} (h : Billing P s) (s' : State) (hk : KeySame s s')
    (ha : s'.attempts = s.attempts) (hr : s'.attemptRes = s.attemptRes) (hc : s'.ctr = s.ctr) : Billing P s' :=
  billing_of_neutral ha hr (fun _ _ r => hk 0 _ _ r) (by rw [hc]) h

end HailVerif.BatchDB

/-! billing: per-op preservation for ops that do not append batches / groups / jobs -/
namespace HailVerif.BatchDB
open HailVerif.Generated.AttemptsTrigger (Row attemptsBeforeUpdate)

def attKey (a : Attempt) : Nat × Nat × Nat := (a.batch, a.job, a.id)

/-- (batch_id, job_id, attempt_id) is a key of `attempts` -/
def AttUnique (s : State) : Prop := (s.attempts.map attKey).Nodup

theorem sumBy_key_unique (l : List Attempt) (h : (l.map attKey).Nodup) (b j a : Nat) (g : Attempt → Int) :
    sumBy (fun x => if x.batch = b ∧ x.job = j ∧ x.id = a then g x else 0) l =
      match l.find? (fun x => x.batch = b ∧ x.job = j ∧ x.id = a) with | some x => g x | none => 0 := by
  induction l with
  | nil => rfl
  | cons y l ih =>
    rw [List.map_cons, List.nodup_cons] at h
    rw [sumBy_cons, List.find?_cons]
    by_cases hy : y.batch = b ∧ y.job = j ∧ y.id = a
    · simp only [hy, and_self, if_true, decide_true]
      have : sumBy (fun x => if x.batch = b ∧ x.job = j ∧ x.id = a then g x else 0) l = 0 := by
        apply sumBy_zero
        intro x hx
        have hne : ¬ (x.batch = b ∧ x.job = j ∧ x.id = a) := by
          intro hxk
          apply h.1
          rw [List.mem_map]
          exact ⟨x, hx, by simp [attKey, hy.1, hy.2.1, hy.2.2, hxk.1, hxk.2.1, hxk.2.2]⟩
        simp [hne]
      rw [this]; simp
    · simp only [hy, if_false, decide_false, Int.zero_add]
      exact ih h.2

theorem billing_addRes_core {P : CKey → Bool} (hP : BillPred P) (s : State) (b j a date : Nat) (fresh : List (Nat × Int))
    (x : Attempt) (hx : findAttempt s b j a = some x) (hu : AttUnique s) (h : Billing P s) :
    Billing P { s with
      attemptRes := s.attemptRes ++ fresh.map (fun r => AttemptRes.mk b j a r.1 r.2)
      ctr := addMany (if billed x.row = 0 then [] else fresh.flatMap fun r =>
        [(CKey.aBpUser (bpOf s b) (userOf s b) r.1, r.2 * billed x.row), (CKey.aJob b j r.1, r.2 * billed x.row),
         (CKey.aByDate date (bpOf s b) (userOf s b) r.1, r.2 * billed x.row)] ++
        (ancestorsOf s b (jobGroupOf s b j)).map fun g => (CKey.aGroup b g r.1, r.2 * billed x.row)) s.ctr } := by
  -- the usage added per unit of billed time
  let W : Int := sumBy (fun r => cnt P (billKeys s 0 b j r.1) * r.2) fresh
  have hctr : getP P (if billed x.row = 0 then [] else fresh.flatMap fun r =>
        [(CKey.aBpUser (bpOf s b) (userOf s b) r.1, r.2 * billed x.row), (CKey.aJob b j r.1, r.2 * billed x.row),
         (CKey.aByDate date (bpOf s b) (userOf s b) r.1, r.2 * billed x.row)] ++
        (ancestorsOf s b (jobGroupOf s b j)).map fun g => (CKey.aGroup b g r.1, r.2 * billed x.row)) =
      billed x.row * W := by
    by_cases h0 : billed x.row = 0
    · simp [h0, getP_nil]
    · rw [if_neg h0, getP_flatMap]
      show _ = billed x.row * sumBy _ fresh
      rw [← sumBy_mul_left]
      apply sumBy_congr
      intro r _
      have e : ([(CKey.aBpUser (bpOf s b) (userOf s b) r.1, r.2 * billed x.row), (CKey.aJob b j r.1, r.2 * billed x.row),
          (CKey.aByDate date (bpOf s b) (userOf s b) r.1, r.2 * billed x.row)] ++
          (ancestorsOf s b (jobGroupOf s b j)).map fun g => (CKey.aGroup b g r.1, r.2 * billed x.row)) =
          (billKeys s date b j r.1).map fun k => (k, r.2 * billed x.row) := by
        simp [billKeys, List.map_map, Function.comp_def]
      rw [e, getP_map_const, cnt_billKeys_date hP s date 0]
      ring
  unfold Billing expected at *
  show getP P (addMany _ s.ctr) = sumBy _ s.attempts
  rw [getP_addMany, hctr, h]
  -- the weight of each attempt after the insert
  have hw : ∀ y ∈ s.attempts, billed y.row * resW P { s with
        attemptRes := s.attemptRes ++ fresh.map (fun r => AttemptRes.mk b j a r.1 r.2)
        ctr := addMany (if billed x.row = 0 then [] else fresh.flatMap fun r =>
          [(CKey.aBpUser (bpOf s b) (userOf s b) r.1, r.2 * billed x.row), (CKey.aJob b j r.1, r.2 * billed x.row),
           (CKey.aByDate date (bpOf s b) (userOf s b) r.1, r.2 * billed x.row)] ++
          (ancestorsOf s b (jobGroupOf s b j)).map fun g => (CKey.aGroup b g r.1, r.2 * billed x.row)) s.ctr }
        y.batch y.job y.id =
      (if y.batch = b ∧ y.job = j ∧ y.id = a then billed y.row * W else 0) + billed y.row * resW P s y.batch y.job y.id := by
    intro y _
    unfold resW resOf
    simp only [List.filter_append, sumBy_append]
    have hk : ∀ r, billKeys { s with
        attemptRes := s.attemptRes ++ fresh.map (fun r => AttemptRes.mk b j a r.1 r.2)
        ctr := addMany (if billed x.row = 0 then [] else fresh.flatMap fun r =>
          [(CKey.aBpUser (bpOf s b) (userOf s b) r.1, r.2 * billed x.row), (CKey.aJob b j r.1, r.2 * billed x.row),
           (CKey.aByDate date (bpOf s b) (userOf s b) r.1, r.2 * billed x.row)] ++
          (ancestorsOf s b (jobGroupOf s b j)).map fun g => (CKey.aGroup b g r.1, r.2 * billed x.row)) s.ctr }
        0 y.batch y.job r = billKeys s 0 y.batch y.job r := fun r => billKeys_congr rfl rfl rfl _ _ _ _
    simp only [hk]
    by_cases hy : y.batch = b ∧ y.job = j ∧ y.id = a
    · have hall : (fresh.map (fun r => AttemptRes.mk b j a r.1 r.2)).filter
          (fun r => decide (r.batch = y.batch ∧ r.job = y.job ∧ r.attempt = y.id)) =
          fresh.map (fun r => AttemptRes.mk b j a r.1 r.2) := by
        rw [List.filter_eq_self]; intro r hr
        rw [List.mem_map] at hr; obtain ⟨q, _, rfl⟩ := hr
        simp [hy.1, hy.2.1, hy.2.2]
      rw [hall]
      simp only [hy, and_self, if_true]
      have : sumBy (fun r => cnt P (billKeys s 0 b j r.res) * r.qty)
          (fresh.map (fun r => AttemptRes.mk b j a r.1 r.2)) = W := by
        show _ = sumBy _ fresh
        unfold sumBy; rw [List.map_map]; simp [Function.comp_def]
      rw [this]; ring
    · have hnone : (fresh.map (fun r => AttemptRes.mk b j a r.1 r.2)).filter
          (fun r => decide (r.batch = y.batch ∧ r.job = y.job ∧ r.attempt = y.id)) = [] := by
        rw [List.filter_eq_nil_iff]; intro r hr
        rw [List.mem_map] at hr; obtain ⟨q, _, rfl⟩ := hr
        simp only [decide_eq_true_eq]
        intro hh; exact hy ⟨hh.1.symm, hh.2.1.symm, hh.2.2.symm⟩
      rw [hnone]; simp [hy, sumBy_nil]
  rw [sumBy_congr _ _ _ hw, sumBy_add]
  congr 1
  have := sumBy_key_unique s.attempts hu b j a (fun y => billed y.row * W)
  unfold findAttempt at hx
  rw [this]
  simp only [hx]

theorem billing_addResources {P : CKey → Bool} (hP : BillPred P) (s : State) (b j a : Nat) (res : List (Nat × Int))
    (date : Nat) (hu : AttUnique s) (h : Billing P s) : Billing P (addResources s b j a res date).1 := by
  unfold addResources
  split_ifs with hn
  · exact h
  · cases hx : findAttempt s b j a with
    | none => simp [hx] at hn
    | some x =>
      dsimp only
      exact billing_addRes_core hP s b j a date _ x hx hu h

end HailVerif.BatchDB

/-! billing: per-op preservation for ops that do not append batches / groups / jobs -/
namespace HailVerif.BatchDB
open HailVerif.Generated.AttemptsTrigger (Row attemptsBeforeUpdate)

variable {P : CKey → Bool}

/-- closes `Billing P s'` when `s'` differs from `s` in none of the tables billing reads -/
macro "billing_same" s:ident h:ident : tactic =>
  `(tactic| first | exact $h | exact billing_keySame $h _ (keySame_of_eq rfl rfl rfl) rfl rfl rfl)

theorem billing_createUpdate (s : State) (b t nj ng u : Nat) (h : Billing P s) : Billing P (createUpdate s b t nj ng u).1 := by
  unfold createUpdate; model_split
  all_goals billing_same s h

theorem billing_newInstance (s : State) (n : Nat) (c : Int) (p : Bool) (h : Billing P s) : Billing P (newInstance s n c p).1 := by
  unfold newInstance; split_ifs
  all_goals billing_same s h

theorem billing_activate (s : State) (n : Nat) (h : Billing P s) : Billing P (activate s n).1 := by
  unfold activate; model_split
  all_goals billing_same s h

theorem billing_markDeleted (s : State) (n : Nat) (h : Billing P s) : Billing P (markDeleted s n).1 := by
  unfold markDeleted; model_split
  all_goals billing_same s h

theorem billing_freeAdd (s : State) (i : Option Nat) (d : Int) (h : Billing P s) : Billing P (freeAdd s i d) := by
  billing_same s h

theorem billing_schedule (hP : BillPred P) (s : State) (b j a i : Nat) (h : Billing P s) : Billing P (schedule s b j a i).1 := by
  unfold schedule
  split
  · exact h
  · rename_i job _
    have h1 : Billing P (schedulePrep s b j a i job) := billing_addAttempt s b j _ _ _ h
    split_ifs
    · exact billing_updateJobs hP _ _ _ (jobFrame_setStateAttempt _ _) h1
    · exact h1

theorem billing_startPrep (hP : BillPred P) (s : State) (b j a i : Nat) (ts : Int) (d : Nat) (job : Job) (h : Billing P s) :
    Billing P (startPrep s b j a i ts d job) :=
  billing_updateAttempts hP _ _ _ _ (billing_addAttempt s b j _ _ _ h)

theorem billing_startLike (hP : BillPred P) (s : State) (b j a i : Nat) (ts : Int) (d : Nat) (need : IState) (ns : JState)
    (h : Billing P s) : Billing P (startLike s b j a i ts d need ns).1 := by
  unfold startLike
  split
  · exact h
  · rename_i job _
    have h1 := billing_startPrep hP s b j a i ts d job h
    split_ifs
    · exact billing_updateJobs hP _ _ _ (jobFrame_setStateAttempt _ _) h1
    · exact h1

theorem billing_completePrep (hP : BillPred P) (s : State) (b j : Nat) (att inst : Option Nat) (st e : Option Int)
    (r : String) (d : Nat) (job : Job) (h : Billing P s) : Billing P (completePrep s b j att inst st e r d job) := by
  unfold completePrep
  dsimp only
  have h1 := billing_addAttempt s b j att inst job.cores h
  cases att with
  | none => dsimp only; split_ifs
            · exact billing_freeAdd _ _ _ h1
            · exact h1
  | some a => dsimp only; split_ifs
              · exact billing_freeAdd _ _ _ (billing_updateAttempts hP _ _ _ _ h1)
              · exact billing_updateAttempts hP _ _ _ _ h1

theorem billing_completeJob (hP : BillPred P) (s : State) (b j : Nat) (att : Option Nat) (ns : JState) (job : Job)
    (h : Billing P s) : Billing P (completeJob s b j att ns job) := by
  unfold completeJob
  have h1 := billing_updateJobs hP s (isJob b j) _ (jobFrame_setStateAttempt ns att) h
  have h2 := billing_keySame h1 _ (keySame_tallyGroups _ b job.group ns) rfl rfl rfl
  have h3 := billing_keySame h2 _ (keySame_completeBatchIfDone _ b) rfl rfl rfl
  exact billing_keySame h3 _ (keySame_markGroupsComplete _ b job.group) rfl rfl rfl

theorem billing_complete (hP : BillPred P) (s : State) (b j : Nat) (att inst : Option Nat) (ns : JState) (st e : Option Int)
    (r : String) (d : Nat) (h : Billing P s) : Billing P (complete s b j att inst ns st e r d).1 := by
  unfold complete
  split
  · exact h
  · rename_i job _
    have h1 := billing_completePrep hP s b j att inst st e r d job h
    split_ifs
    · exact h1
    · exact billing_updateJobs hP _ _ _ (jobFrame_childUpdate ns) (billing_completeJob hP _ b j att ns job h1)
    · exact h1
    · exact h1

theorem billing_unschedulePrep (hP : BillPred P) (s : State) (b j a i : Nat) (e : Int) (r : String) (d : Nat) (job : Job)
    (h : Billing P s) : Billing P (unschedulePrep s b j a i e r d job) := by
  unfold unschedulePrep
  dsimp only
  have h1 : Billing P (endAttempts s d (fun x => x.batch = b ∧ x.job = j ∧ x.id = a) e r) :=
    billing_updateAttempts hP _ _ _ _ h
  split_ifs
  · exact billing_freeAdd _ _ _ h1
  · exact h1

theorem billing_unschedule (hP : BillPred P) (s : State) (b j a i : Nat) (e : Int) (r : String) (d : Nat)
    (h : Billing P s) : Billing P (unschedule s b j a i e r d).1 := by
  unfold unschedule
  split
  · exact h
  · rename_i job _
    have h1 := billing_unschedulePrep hP s b j a i e r d job h
    split_ifs
    · exact billing_updateJobs hP _ _ _ (jobFrame_setStateAttempt _ _) h1
    · exact h1

theorem billing_deactivate (hP : BillPred P) (s : State) (n : Nat) (r : String) (ts : Int) (d : Nat) (h : Billing P s) :
    Billing P (deactivate s n r ts d).1 := by
  unfold deactivate
  split
  · exact h
  · split_ifs
    · exact h
    · unfold deactivateApply
      have h1 : Billing P (endAttempts s d (fun a => a.inst = some n) ts r) := billing_updateAttempts hP _ _ _ _ h
      have h2 : Billing P (updateJobs (endAttempts s d (fun a => a.inst = some n) ts r)
          (onInstance (endAttempts s d (fun a => a.inst = some n) ts r) n) (setStateAttempt .Ready none)) :=
        billing_updateJobs hP _ _ _ (jobFrame_setStateAttempt .Ready none) h1
      exact billing_keySame h2 _ (keySame_of_eq rfl rfl rfl) rfl rfl rfl

theorem billing_heartbeat (hP : BillPred P) (s : State) (atts : List (Nat × Nat × Nat)) (ts : Int) (d : Nat)
    (h : Billing P s) : Billing P (heartbeat s atts ts d).1 := by
  have e : (heartbeat s atts ts d).1 = updateAttempts s d (fun x => atts.contains (x.batch, x.job, x.id))
      (fun r => { r with rollup_time := some ts }) := rfl
  rw [e]
  exact billing_updateAttempts hP s d _ _ h

theorem cancelDeltas_nonbilling (s : State) (b g : Nat) : ∀ e ∈ cancelDeltas s b g, isBilling e.1 = false := by
  intro e he
  unfold cancelDeltas at he
  simp only [List.mem_append, List.mem_flatMap, List.mem_cons, List.not_mem_nil, or_false] at he
  rcases he with ⟨⟨u, ic⟩, _, h⟩ | ⟨a, _, ⟨u, ic⟩, _, h⟩
  · rcases h with rfl | rfl | rfl | rfl | rfl | rfl | rfl | rfl <;> rfl
  · rcases h with rfl | rfl | rfl | rfl | rfl <;> rfl

theorem billing_cancelApply (hP : BillPred P) (s : State) (b g : Nat) (h : Billing P s) : Billing P (cancelApply s b g) := by
  refine billing_of_neutral (s := s) rfl rfl (fun _ _ r => keySame_of_eq rfl rfl rfl 0 _ _ r) ?_ h
  show getP P (addMany _ s.ctr) = _
  rw [getP_addMany, getP_nonbilling hP _ (cancelDeltas_nonbilling s b g), Int.zero_add]

theorem billing_cancelGroup (hP : BillPred P) (s : State) (b g : Nat) (h : Billing P s) : Billing P (cancelGroup s b g).1 := by
  unfold cancelGroup
  split_ifs
  · exact h
  · exact h
  · exact billing_cancelApply hP s b g h

theorem billing_deleteBatch (hP : BillPred P) (s : State) (b : Nat) (h : Billing P s) : Billing P (deleteBatch s b).1 := by
  unfold deleteBatch
  split
  · exact h
  · split_ifs
    · exact h
    · dsimp only
      exact billing_keySame h _ (keySame_of
        (bpUser_map (BatchFrame.ite _ (F := fun x => { x with deleted := true }) (fun _ => ⟨rfl, rfl, rfl⟩)) rfl)
        (ancestorsOf_congr rfl) (jobGroupOf_congr rfl)) rfl rfl rfl
    · dsimp only
      exact billing_keySame (billing_cancelApply hP s b 0 h) _ (keySame_of
        (bpUser_map (BatchFrame.ite _ (F := fun x => { x with deleted := true }) (fun _ => ⟨rfl, rfl, rfl⟩)) rfl)
        (ancestorsOf_congr rfl) (jobGroupOf_congr rfl)) rfl rfl rfl

theorem billing_cleanupStaging (s : State) (h : Billing P s) (hP : BillPred P) : Billing P (cleanupStaging s).1 := by
  unfold cleanupStaging
  refine billing_of_neutral (s := s) rfl rfl (fun _ _ r => keySame_of_eq rfl rfl rfl 0 _ _ r) ?_ h
  apply getP_filter
  intro e _ hp
  have := hP.billing _ hp
  cases hk : e.1 <;> simp_all [isBilling]

theorem billing_cleanupCancellable (s : State) (h : Billing P s) (hP : BillPred P) : Billing P (cleanupCancellable s).1 := by
  unfold cleanupCancellable
  refine billing_of_neutral (s := s) rfl rfl (fun _ _ r => keySame_of_eq rfl rfl rfl 0 _ _ r) ?_ h
  apply getP_filter
  intro e _ hp
  have := hP.billing _ hp
  cases hk : e.1 <;> simp_all [isBilling]

theorem billing_compact (s : State) (h : Billing P s) : Billing P (compact s).1 :=
  billing_of_neutral (s := s) rfl rfl (fun _ _ r => keySame_of_eq rfl rfl rfl 0 _ _ r) (getP_compact P s.ctr) h

theorem billing_commitCore (hP : BillPred P) (s : State) (FB : Batch → Batch) (hFB : BatchFrame FB) (FG : Group → Group)
    (hFG : GroupFrame FG) (upds : List Update) (ds : List (CKey × Int)) (hds : ∀ e ∈ ds, isBilling e.1 = false)
    (h : Billing P s) :
    Billing P { s with batches := s.batches.map FB, updates := upds, groups := s.groups.map FG, ctr := addMany ds s.ctr } := by
  have hk : KeySame s
      { s with batches := s.batches.map FB, updates := upds, groups := s.groups.map FG, ctr := addMany ds s.ctr } :=
    keySame_of (bpUser_map hFB rfl) (ancestorsOf_map hFG rfl) (jobGroupOf_congr rfl)
  refine billing_of_neutral (s := s) rfl rfl (fun _ _ r => hk 0 _ _ r) ?_ h
  show getP P (addMany ds s.ctr) = _
  rw [getP_addMany, getP_nonbilling hP _ hds, Int.zero_add]

theorem billing_commitUpdate (hP : BillPred P) (s : State) (b upd : Nat) (h : Billing P s) :
    Billing P (commitUpdate s b upd).1 := by
  unfold commitUpdate
  model_split
  all_goals first | exact h | exact billing_keySame h _ (keySame_of_eq rfl rfl rfl) rfl rfl rfl | skip
  · refine billing_commitCore hP s _ ?_ _ ?_ _ _ ?_ h
    · intro x; dsimp only; split_ifs <;> exact ⟨rfl, rfl, rfl⟩
    · exact groupFrame_setStateJobs _ _ _
    · intro e he
      simp only [List.mem_flatMap, List.mem_cons, List.not_mem_nil, or_false] at he
      obtain ⟨ic, _, rfl | rfl⟩ := he <;> rfl
  · refine billing_updateJobs hP _ _ _ ?_ (billing_commitCore hP s _ ?_ _ ?_ _ _ ?_ h)
    · intro x
      refine ⟨rfl, rfl, rfl, rfl, rfl, rfl, rfl, ?_⟩
      intro hx; dsimp only; split_ifs <;> simp_all
    · intro x; dsimp only; split_ifs <;> exact ⟨rfl, rfl, rfl⟩
    · exact groupFrame_setStateJobs _ _ _
    · intro e he
      simp only [List.mem_flatMap, List.mem_cons, List.not_mem_nil, or_false] at he
      obtain ⟨ic, _, rfl | rfl⟩ := he <;> rfl

end HailVerif.BatchDB

/-! structural invariants of reachable states (foreign keys, attempt keys, instance names, ended rows) -/
namespace HailVerif.BatchDB
open HailVerif.Generated.AttemptsTrigger (Row attemptsBeforeUpdate)
open HailVerif.AttemptsTriggerSpec

/-! ### what the clamp trigger stores in `end_time` / `reason` -/

/-- the trigger keeps the stored end and reason: a reason is stored and the report does not carry a strictly earlier end -/
def keepsOld (old new : Row) : Bool :=
  match old.reason with
  | none => false
  | some _ =>
    match old.end_time, new.end_time with
    | some oe, some ne => decide (ne ≥ oe)
    | _, _ => true

theorem upd_end_reason (old new : Row) :
    (attemptsBeforeUpdate old new).end_time = (if keepsOld old new then old.end_time else new.end_time) ∧
    (attemptsBeforeUpdate old new).reason = (if keepsOld old new then old.reason else new.reason) := by
  rw [upd_eq_spec]
  simp only [spec, spec6_end, spec5_end, spec4_end, spec6_reason, spec5_reason, spec4_reason]
  have he : (spec2 old (spec1 old new)).end_time = new.end_time := by simp
  have hr : (spec2 old (spec1 old new)).reason = new.reason := by simp
  unfold spec3 keepsOld
  cases hor : old.reason with
  | none => simp [he, hr]
  | some r =>
    simp only
    cases hoe : old.end_time with
    | none => simp
    | some oe =>
      rw [he]
      cases hne : new.end_time with
      | none => simp
      | some ne =>
        by_cases hge : ne ≥ oe
        · simp [hge]
        · simp [hge, he, hr, hne]

/-- a stored end time comes with a stored reason -/
def RowOK (r : Row) : Prop := r.end_time ≠ none → r.reason ≠ none

theorem rowOK_upd (old new : Row) (ho : RowOK old) (hn : RowOK new) : RowOK (attemptsBeforeUpdate old new) := by
  unfold RowOK
  rw [(upd_end_reason old new).1, (upd_end_reason old new).2]
  split_ifs
  · exact ho
  · exact hn

/-- once an end time is stored, every later stored row has one -/
theorem upd_end_mono (old new : Row) (ho : RowOK old) (he : old.end_time ≠ none) :
    (attemptsBeforeUpdate old new).end_time ≠ none := by
  rw [(upd_end_reason old new).1]
  have hr := ho he
  unfold keepsOld
  cases hor : old.reason with
  | none => exact absurd hor hr
  | some r =>
    cases hoe : old.end_time with
    | none => exact absurd hoe he
    | some oe =>
      cases hne : new.end_time with
      | none => simp
      | some ne => simp only; split_ifs <;> simp

/-- a report that proposes the stored end and reason leaves them unchanged -/
theorem upd_end_same (old new : Row) (he : new.end_time = old.end_time) (hr : new.reason = old.reason) :
    (attemptsBeforeUpdate old new).end_time = old.end_time ∧ (attemptsBeforeUpdate old new).reason = old.reason := by
  rw [(upd_end_reason old new).1, (upd_end_reason old new).2, he, hr]
  simp

/-- with no reason stored, the reported end and reason are stored -/
theorem upd_end_fresh (old new : Row) (h : old.reason = none) :
    (attemptsBeforeUpdate old new).end_time = new.end_time ∧ (attemptsBeforeUpdate old new).reason = new.reason := by
  rw [(upd_end_reason old new).1, (upd_end_reason old new).2]
  simp [keepsOld, h]

/-! ### the invariants -/

def AttHaveJob (s : State) : Prop := ∀ a ∈ s.attempts, (findJob s a.batch a.job).isSome = true
def JobsFK (s : State) : Prop :=
  ∀ x ∈ s.jobs, (findGroup s x.batch x.group).isSome = true ∧ (findBatch s x.batch).isSome = true
def RowsOK (s : State) : Prop := ∀ a ∈ s.attempts, RowOK a.row
def InstUnique (s : State) : Prop := (s.instances.map (·.name)).Nodup
def isLive (i : Instance) : Bool := decide (i.state = .pending) || decide (i.state = .active)
/-- an instance that is not live reports all its cores free -/
def DeadFree (s : State) : Prop := ∀ i ∈ s.instances, isLive i = false → i.free = i.cores
/-- reports that keep "a stored end comes with a reason" -/
def PropOK (prop : Row → Row) : Prop := ∀ r, RowOK r → RowOK (prop r)

/-- the ancestor rows of a group are distinct and none has a larger id than the group -/
def AncOK (s : State) : Prop := ∀ g ∈ s.groups, g.ancestors.Nodup ∧ ∀ a ∈ g.ancestors, a ≤ g.id

/-- structural invariants of every reachable state -/
structure Struct (s : State) : Prop where
  groupsSelf : GroupsSelf s
  anc : AncOK s
  jobsFK : JobsFK s
  attJob : AttHaveJob s
  attU : AttUnique s
  rows : RowsOK s
  instU : InstUnique s
  dead : DeadFree s

theorem struct_init : Struct init := by
  refine ⟨groupsSelf_init, ?_, ?_, ?_, ?_, ?_, ?_, ?_⟩
  · intro x hx; simp [init] at hx
  · intro x hx; simp [init] at hx
  · intro x hx; simp [init] at hx
  · simp [AttUnique, init]
  · intro x hx; simp [init] at hx
  · simp [InstUnique, init]
  · intro x hx; simp [init] at hx

/-! ### congruence lemmas -/

theorem GroupsSelf.congr {s s' : State} (e : s'.groups = s.groups) (h : GroupsSelf s) : GroupsSelf s' := by
  unfold GroupsSelf; rw [e]; exact h
theorem AncOK.congr {s s' : State} (e : s'.groups = s.groups) (h : AncOK s) : AncOK s' := by
  unfold AncOK; rw [e]; exact h
theorem findJob_eq {s s' : State} (e : s'.jobs = s.jobs) (b j : Nat) : findJob s' b j = findJob s b j := by
  unfold findJob; rw [e]
theorem findGroup_eq {s s' : State} (e : s'.groups = s.groups) (b g : Nat) : findGroup s' b g = findGroup s b g := by
  unfold findGroup; rw [e]
theorem findBatch_eq {s s' : State} (e : s'.batches = s.batches) (b : Nat) : findBatch s' b = findBatch s b := by
  unfold findBatch; rw [e]
theorem findAttempt_eq {s s' : State} (e : s'.attempts = s.attempts) (b j a : Nat) : findAttempt s' b j a = findAttempt s b j a := by
  unfold findAttempt; rw [e]
theorem findInstance_eq {s s' : State} (e : s'.instances = s.instances) (n : Nat) : findInstance s' n = findInstance s n := by
  unfold findInstance; rw [e]

theorem JobsFK.congr {s s' : State} (ej : s'.jobs = s.jobs) (eg : s'.groups = s.groups) (eb : s'.batches = s.batches)
    (h : JobsFK s) : JobsFK s' := by
  intro x hx; rw [ej] at hx; rw [findGroup_eq eg, findBatch_eq eb]; exact h x hx
theorem AttHaveJob.congr {s s' : State} (ea : s'.attempts = s.attempts) (ej : s'.jobs = s.jobs) (h : AttHaveJob s) :
    AttHaveJob s' := by
  intro a ha; rw [ea] at ha; rw [findJob_eq ej]; exact h a ha
theorem AttUnique.congr {s s' : State} (ea : s'.attempts = s.attempts) (h : AttUnique s) : AttUnique s' := by
  unfold AttUnique; rw [ea]; exact h
theorem RowsOK.congr {s s' : State} (ea : s'.attempts = s.attempts) (h : RowsOK s) : RowsOK s' := by
  unfold RowsOK; rw [ea]; exact h
theorem InstUnique.congr {s s' : State} (ei : s'.instances = s.instances) (h : InstUnique s) : InstUnique s' := by
  unfold InstUnique; rw [ei]; exact h
theorem DeadFree.congr {s s' : State} (ei : s'.instances = s.instances) (h : DeadFree s) : DeadFree s' := by
  unfold DeadFree; rw [ei]; exact h

/-- a transaction that leaves `groups, jobs, batches, attempts, instances` alone -/
theorem struct_congr {s : State} (h : Struct s) (s' : State) (eg : s'.groups = s.groups) (ej : s'.jobs = s.jobs)
    (eb : s'.batches = s.batches) (ea : s'.attempts = s.attempts) (ei : s'.instances = s.instances) : Struct s' :=
  ⟨h.groupsSelf.congr eg, h.anc.congr eg, h.jobsFK.congr ej eg eb, h.attJob.congr ea ej, h.attU.congr ea, h.rows.congr ea,
    h.instU.congr ei, h.dead.congr ei⟩

/-! ### lookups under in-place updates and appends -/

theorem findJob_isSome_map {s s' : State} {F : Job → Job} (hF : JobFrame F) (e : s'.jobs = s.jobs.map F) (b j : Nat) :
    (findJob s' b j).isSome = (findJob s b j).isSome := by
  unfold findJob
  rw [e, find?_map_frame _ F (by intro x; simp [(hF x).1, (hF x).2.1])]
  simp
theorem findGroup_isSome_map {s s' : State} {F : Group → Group} (hF : GroupFrame F) (e : s'.groups = s.groups.map F) (b g : Nat) :
    (findGroup s' b g).isSome = (findGroup s b g).isSome := by
  unfold findGroup
  rw [e, find?_map_frame _ F (by intro x; simp [(hF x).1, (hF x).2.1])]
  simp
theorem findBatch_isSome_map {s s' : State} {F : Batch → Batch} (hF : BatchFrame F) (e : s'.batches = s.batches.map F) (b : Nat) :
    (findBatch s' b).isSome = (findBatch s b).isSome := by
  unfold findBatch
  rw [e, find?_map_frame _ F (by intro x; simp [(hF x).1])]
  simp

theorem find?_append_isSome {α : Type} (p : α → Bool) (l m : List α) (h : (l.find? p).isSome = true) :
    ((l ++ m).find? p).isSome = true := by
  rw [List.find?_append]; cases hf : l.find? p with
  | none => rw [hf] at h; simp at h
  | some x => simp

theorem BatchFrame.id : BatchFrame id := fun _ => ⟨rfl, rfl, rfl⟩

/-! ### primitives -/

theorem struct_updateJobs {s : State} (h : Struct s) (p : Job → Bool) (f : Job → Job) (hf : JobFrame f) :
    Struct (updateJobs s p f) := by
  have hF := JobFrame.ite p hf
  refine ⟨h.groupsSelf.congr rfl, h.anc.congr rfl, ?_, ?_, h.attU.congr rfl, h.rows.congr rfl, h.instU.congr rfl, h.dead.congr rfl⟩
  · intro x' hx'
    rw [updateJobs_jobs, List.mem_map] at hx'
    obtain ⟨x, hx, rfl⟩ := hx'
    rw [(hF x).1, (hF x).2.2.2.1]
    exact h.jobsFK x hx
  · intro a ha
    rw [findJob_isSome_map hF (updateJobs_jobs s p f)]
    exact h.attJob a ha

/-- in-place updates of `job_groups` and `batches` rows that keep the identity columns -/
theorem struct_maps {s : State} (h : Struct s) (s' : State) (FB : Batch → Batch) (FG : Group → Group) (hFB : BatchFrame FB)
    (hFG : GroupFrame FG) (eb : s'.batches = s.batches.map FB) (eg : s'.groups = s.groups.map FG)
    (ej : s'.jobs = s.jobs) (ea : s'.attempts = s.attempts) (ei : s'.instances = s.instances) : Struct s' := by
  refine ⟨?_, ?_, ?_, h.attJob.congr ea ej, h.attU.congr ea, h.rows.congr ea, h.instU.congr ei, h.dead.congr ei⟩
  · intro g hg
    rw [eg, List.mem_map] at hg
    obtain ⟨y, hy, rfl⟩ := hg
    rw [(hFG y).2.1, (hFG y).2.2.1]; exact h.groupsSelf y hy
  · intro g hg
    rw [eg, List.mem_map] at hg
    obtain ⟨y, hy, rfl⟩ := hg
    rw [(hFG y).2.1, (hFG y).2.2.1]; exact h.anc y hy
  · intro x hx
    rw [ej] at hx
    rw [findGroup_isSome_map hFG eg, findBatch_isSome_map hFB eb]
    exact h.jobsFK x hx

theorem rowsOK_updateAttempts {s : State} (h : RowsOK s) (d : Nat) (p : Attempt → Bool) (prop : Row → Row)
    (hp : PropOK prop) : RowsOK (updateAttempts s d p prop) := by
  intro a' ha'
  change a' ∈ s.attempts.map _ at ha'
  rw [List.mem_map] at ha'
  obtain ⟨a, ha, rfl⟩ := ha'
  by_cases hpa : p a = true
  · simp only [hpa, if_true]
    exact rowOK_upd _ _ (h a ha) (hp _ (h a ha))
  · simp only [hpa]; exact h a ha

theorem attKeys_updateAttempts (s : State) (d : Nat) (p : Attempt → Bool) (prop : Row → Row) :
    (updateAttempts s d p prop).attempts.map attKey = s.attempts.map attKey := by
  change (s.attempts.map _).map attKey = _
  rw [List.map_map]
  apply List.map_congr_left
  intro a _
  by_cases hpa : p a = true <;> simp [hpa, attKey]

theorem struct_updateAttempts {s : State} (h : Struct s) (d : Nat) (p : Attempt → Bool) (prop : Row → Row)
    (hp : PropOK prop) : Struct (updateAttempts s d p prop) := by
  refine ⟨h.groupsSelf.congr rfl, h.anc.congr rfl, h.jobsFK.congr rfl rfl rfl, ?_, ?_, rowsOK_updateAttempts h.rows d p prop hp,
    h.instU.congr rfl, h.dead.congr rfl⟩
  · intro a' ha'
    change a' ∈ s.attempts.map _ at ha'
    rw [List.mem_map] at ha'
    obtain ⟨a, ha, rfl⟩ := ha'
    have := h.attJob a ha
    by_cases hpa : p a = true
    · simp only [hpa, if_true]; exact this
    · simp only [hpa]; exact this
  · unfold AttUnique; rw [attKeys_updateAttempts]; exact h.attU

end HailVerif.BatchDB

/-! structural invariants: remaining primitives and every transaction -/
namespace HailVerif.BatchDB
open HailVerif.Generated.AttemptsTrigger (Row attemptsBeforeUpdate)

theorem find?_name_unique (l : List Instance) (hu : (l.map (·.name)).Nodup) {i : Instance} (hi : i ∈ l) :
    l.find? (fun x => decide (x.name = i.name)) = some i := by
  induction l with
  | nil => simp at hi
  | cons y l ih =>
    rw [List.map_cons, List.nodup_cons] at hu
    rw [List.find?_cons]
    rcases List.mem_cons.mp hi with rfl | hm
    · simp
    · have hne : ¬ y.name = i.name := by
        intro e; apply hu.1; rw [List.mem_map]; exact ⟨i, hm, e.symm⟩
      simp only [hne, decide_false]
      exact ih hu.2 hm

theorem findInstance_of_mem {s : State} (hu : InstUnique s) {i : Instance} (hi : i ∈ s.instances) :
    findInstance s i.name = some i := find?_name_unique s.instances hu hi

theorem instUnique_mapState (s : State) (G : Instance → Instance) (hG : ∀ i, (G i).name = i.name) (h : InstUnique s) :
    (s.instances.map G |>.map (·.name)).Nodup := by
  rw [List.map_map]
  have : s.instances.map ((fun (i : Instance) => i.name) ∘ G) = s.instances.map (·.name) := by
    apply List.map_congr_left; intro i _; simp [Function.comp, hG]
  rw [this]; exact h

theorem instState_of_mem {s : State} (hu : InstUnique s) {i : Instance} (hi : i ∈ s.instances) :
    instState s (some i.name) = some i.state := by
  unfold instState; simp [findInstance_of_mem hu hi]

theorem mem_of_findInstance {s : State} {n : Nat} {i : Instance} (h : findInstance s n = some i) :
    i ∈ s.instances ∧ i.name = n := by
  unfold findInstance at h
  exact ⟨List.mem_of_find?_eq_some h, by simpa using List.find?_some h⟩

theorem findAttempt_none_key {s : State} {b j a : Nat} (h : findAttempt s b j a = none) :
    (b, j, a) ∉ s.attempts.map attKey := by
  unfold findAttempt at h
  rw [List.find?_eq_none] at h
  intro hm
  rw [List.mem_map] at hm
  obtain ⟨y, hy, hk⟩ := hm
  have := h y hy
  simp only [attKey, Prod.mk.injEq] at hk
  simp [hk.1, hk.2.1, hk.2.2] at this

theorem rowOK_fresh : RowOK (Row.mk none none none none) := by intro h; exact absurd rfl h

theorem struct_addAttempt {s : State} (h : Struct s) (b j : Nat) (att inst : Option Nat) (c : Int)
    (hj : att ≠ none → (findJob s b j).isSome = true) : Struct (addAttempt s b j att inst c).1 := by
  unfold addAttempt
  split
  · exact h
  · rename_i a
    split
    · exact h
    · rename_i hnone
      refine ⟨h.groupsSelf.congr rfl, h.anc.congr rfl, h.jobsFK.congr rfl rfl rfl, ?_, ?_, ?_, ?_, ?_⟩
      · intro x hx
        simp only [List.mem_append, List.mem_singleton] at hx
        rcases hx with hx | rfl
        · exact h.attJob x hx
        · exact hj (by simp)
      · unfold AttUnique
        simp only [List.map_append, List.map_cons, List.map_nil]
        rw [List.nodup_append]
        refine ⟨h.attU, by simp, ?_⟩
        intro k hk k' hk' e
        simp only [List.mem_singleton] at hk'
        subst hk'; subst e
        exact findAttempt_none_key hnone hk
      · intro x hx
        simp only [List.mem_append, List.mem_singleton] at hx
        rcases hx with hx | rfl
        · exact h.rows x hx
        · exact rowOK_fresh
      · exact instUnique_mapState s _ (by intro i; split_ifs <;> rfl) h.instU
      · intro i' hi' hl
        simp only [List.mem_map] at hi'
        obtain ⟨i, hi, rfl⟩ := hi'
        split_ifs at hl ⊢ with hc
        · exfalso
          obtain ⟨hlive, hn⟩ := hc
          rw [← hn] at hlive
          simp only [Option.bind_some, findInstance_of_mem h.instU hi] at hlive
          have : isLive i = false := hl
          unfold isLive at this
          rw [this] at hlive; exact absurd hlive (by simp)
        · exact h.dead i hi hl

theorem struct_freeAdd {s : State} (h : Struct s) (inst : Option Nat) (d : Int) (ha : instState s inst = some .active) :
    Struct (freeAdd s inst d) := by
  refine ⟨h.groupsSelf.congr rfl, h.anc.congr rfl, h.jobsFK.congr rfl rfl rfl, h.attJob.congr rfl rfl, h.attU.congr rfl, h.rows.congr rfl,
    ?_, ?_⟩
  · exact instUnique_mapState s _ (by intro i; split_ifs <;> rfl) h.instU
  · intro i' hi' hl
    unfold freeAdd at hi'
    simp only [List.mem_map] at hi'
    obtain ⟨i, hi, rfl⟩ := hi'
    split_ifs at hl ⊢ with hc
    · exfalso
      rw [← hc, instState_of_mem h.instU hi] at ha
      have : isLive i = false := hl
      simp only [Option.some.injEq] at ha
      simp [isLive, ha] at this
    · exact h.dead i hi hl

/-! ### appends -/

theorem struct_append {s : State} (h : Struct s) (s' : State) (newB : List Batch) (newG : List Group) (newJ : List Job)
    (eb : s'.batches = s.batches ++ newB) (eg : s'.groups = s.groups ++ newG) (ej : s'.jobs = s.jobs ++ newJ)
    (ea : s'.attempts = s.attempts) (ei : s'.instances = s.instances)
    (hG : ∀ g ∈ newG, g.id ∈ g.ancestors ∧ g.ancestors.Nodup ∧ ∀ a ∈ g.ancestors, a ≤ g.id)
    (hJ : ∀ x ∈ newJ, (findGroup s' x.batch x.group).isSome = true ∧ (findBatch s' x.batch).isSome = true) : Struct s' := by
  have hfg : ∀ b g, (findGroup s b g).isSome = true → (findGroup s' b g).isSome = true := by
    intro b g hh; unfold findGroup at *; rw [eg]; exact find?_append_isSome _ _ _ hh
  have hfb : ∀ b, (findBatch s b).isSome = true → (findBatch s' b).isSome = true := by
    intro b hh; unfold findBatch at *; rw [eb]; exact find?_append_isSome _ _ _ hh
  have hfj : ∀ b j, (findJob s b j).isSome = true → (findJob s' b j).isSome = true := by
    intro b j hh; unfold findJob at *; rw [ej]; exact find?_append_isSome _ _ _ hh
  refine ⟨?_, ?_, ?_, ?_, h.attU.congr ea, h.rows.congr ea, h.instU.congr ei, h.dead.congr ei⟩
  · intro g hg
    rw [eg] at hg
    rcases List.mem_append.mp hg with h1 | h1
    · exact h.groupsSelf g h1
    · exact (hG g h1).1
  · intro g hg
    rw [eg] at hg
    rcases List.mem_append.mp hg with h1 | h1
    · exact h.anc g h1
    · exact (hG g h1).2
  · intro x hx
    rw [ej] at hx
    rcases List.mem_append.mp hx with h1 | h1
    · exact ⟨hfg _ _ (h.jobsFK x h1).1, hfb _ (h.jobsFK x h1).2⟩
    · exact hJ x h1
  · intro a ha
    rw [ea] at ha
    exact hfj _ _ (h.attJob a ha)

theorem struct_createBatch {s : State} (h : Struct s) (u bp t : Nat) : Struct (createBatch s u bp t).1 := by
  unfold createBatch
  model_split
  · exact h
  · exact struct_append h _ [_] [_] [] rfl rfl (by simp) rfl rfl (by intro g hg; simp at hg; subst hg; simp)
      (by intro x hx; simp at hx)

theorem struct_createUpdate {s : State} (h : Struct s) (b t nj ng u : Nat) : Struct (createUpdate s b t nj ng u).1 := by
  unfold createUpdate
  model_split
  all_goals first | exact h | exact struct_congr h _ rfl rfl rfl rfl rfl

theorem ancestorsOf_le {s : State} (h : Struct s) (b p : Nat) :
    (ancestorsOf s b p).Nodup ∧ ∀ a ∈ ancestorsOf s b p, a ≤ p := by
  unfold ancestorsOf
  cases hf : findGroup s b p with
  | none => simp
  | some x =>
    unfold findGroup at hf
    have hm := List.mem_of_find?_eq_some hf
    have hp := List.find?_some hf
    simp only [decide_eq_true_eq] at hp
    have := h.anc x hm
    rw [hp.2] at this
    exact this

theorem struct_insertGroup {s s' : State} (h : Struct s) (b upd gid parent : Nat)
    (e : insertGroup s b upd gid parent = some s') : Struct s' := by
  unfold insertGroup at e
  split_ifs at e with _ _ hlt
  simp only [Option.some.injEq] at e; subst e
  have hlt' : parent < gid := by simpa using hlt
  obtain ⟨hnd, hle⟩ := ancestorsOf_le h b parent
  refine struct_append h _ [] [_] [] (by simp) rfl (by simp) rfl rfl ?_ (by intro x hx; simp at hx)
  intro g hg
  simp only [List.mem_singleton] at hg; subst hg
  refine ⟨by simp, ?_, ?_⟩
  · rw [List.nodup_cons]
    exact ⟨fun hm => by have := hle _ hm; omega, hnd⟩
  · intro a ha
    rcases List.mem_cons.mp ha with rfl | ha
    · exact Nat.le_refl _
    · have := hle a ha; show a ≤ gid; omega

theorem struct_foldGroups (b upd : Nat) (u : Update) (specs : List GroupSpec) :
    ∀ (s s' : State), Struct s → specs.foldl (groupSpecStep b upd u) (some s) = some s' → Struct s' := by
  induction specs with
  | nil => intro s s' hs h; simp at h; subst h; exact hs
  | cons sp rest ih =>
    intro s s' hs h
    simp only [List.foldl_cons] at h
    cases hmid : groupSpecStep b upd u (some s) sp with
    | none => rw [hmid, foldGroups_none] at h; exact absurd h (by simp)
    | some mid =>
      rw [hmid] at h
      exact ih mid s' (struct_insertGroup hs b upd _ _ (by simpa [groupSpecStep] using hmid)) h

theorem struct_insertGroups {s : State} (h : Struct s) (b upd user : Nat) (specs : List GroupSpec) :
    Struct (insertGroups s b upd user specs).1 := by
  unfold insertGroups
  model_split
  all_goals first | exact h | skip
  next s' hr => exact struct_foldGroups b upd _ _ s s' h hr

theorem struct_insertJobs {s : State} (h : Struct s) (b upd user : Nat) (specs : List JobSpec) :
    Struct (insertJobs s b upd user specs).1 := by
  unfold insertJobs
  split
  · exact h
  · split
    · rename_i u bt hu hbt
      split
      · exact h
      · rename_i hrej
        obtain ⟨hall, -⟩ := insertJobsReject_none hrej
        refine struct_append h _ [] [] _ (by simp [insertJobsApply]) (by simp [insertJobsApply]) rfl rfl rfl
          (by intro g hg; simp at hg) ?_
        intro x hx
        have hb : x.batch = b := by
          rw [List.mem_map] at hx; obtain ⟨sp, _, rfl⟩ := hx; rfl
        rw [hb]
        refine ⟨(hall x hx).2.1, ?_⟩
        show (findBatch s b).isSome = true
        rw [hbt]; rfl
    · exact h

/-! ### instances -/

theorem struct_newInstance {s : State} (h : Struct s) (n : Nat) (c : Int) (p : Bool) : Struct (newInstance s n c p).1 := by
  unfold newInstance
  split_ifs with hf
  · exact h
  · refine ⟨h.groupsSelf.congr rfl, h.anc.congr rfl, h.jobsFK.congr rfl rfl rfl, h.attJob.congr rfl rfl, h.attU.congr rfl, h.rows.congr rfl,
      ?_, ?_⟩
    · unfold InstUnique
      simp only [List.map_append, List.map_cons, List.map_nil]
      rw [List.nodup_append]
      refine ⟨h.instU, by simp, ?_⟩
      intro k hk k' hk' e
      simp only [List.mem_singleton] at hk'
      subst hk'; subst e
      rw [List.mem_map] at hk
      obtain ⟨i, hi, hin⟩ := hk
      apply hf
      rw [← hin, findInstance_of_mem h.instU hi]; rfl
    · intro i hi hl
      simp only [List.mem_append, List.mem_singleton] at hi
      rcases hi with hi | rfl
      · exact h.dead i hi hl
      · simp [isLive] at hl

theorem struct_activate {s : State} (h : Struct s) (n : Nat) : Struct (activate s n).1 := by
  unfold activate
  model_split
  all_goals first | exact h | skip
  refine ⟨h.groupsSelf.congr rfl, h.anc.congr rfl, h.jobsFK.congr rfl rfl rfl, h.attJob.congr rfl rfl, h.attU.congr rfl, h.rows.congr rfl,
    ?_, ?_⟩
  · exact instUnique_mapState s _ (by intro i; split_ifs <;> rfl) h.instU
  · intro i' hi' hl
    unfold setInstState at hi'
    simp only [List.mem_map] at hi'
    obtain ⟨i, hi, rfl⟩ := hi'
    split_ifs at hl ⊢
    · simp [isLive] at hl
    · exact h.dead i hi hl

theorem struct_markDeleted {s : State} (h : Struct s) (n : Nat) : Struct (markDeleted s n).1 := by
  unfold markDeleted
  model_split
  all_goals first | exact h | skip
  rename_i i0 hf hst
  refine ⟨h.groupsSelf.congr rfl, h.anc.congr rfl, h.jobsFK.congr rfl rfl rfl, h.attJob.congr rfl rfl, h.attU.congr rfl, h.rows.congr rfl,
    ?_, ?_⟩
  · exact instUnique_mapState s _ (by intro i; split_ifs <;> rfl) h.instU
  · intro i' hi' hl
    unfold setInstState at hi'
    simp only [List.mem_map] at hi'
    obtain ⟨i, hi, rfl⟩ := hi'
    split_ifs at hl ⊢ with hn
    · have := findInstance_of_mem h.instU hi
      rw [hn, hf] at this
      cases this
      exact h.dead i0 hi (by simp [isLive, hst])
    · exact h.dead i hi hl

/-! ### reports -/

theorem propOK_keep (f : Row → Row) (h : ∀ r, (f r).end_time = r.end_time ∧ (f r).reason = r.reason) : PropOK f := by
  intro r hr; unfold RowOK; rw [(h r).1, (h r).2]; exact hr

theorem propOK_reason (f : Row → Row) (h : ∀ r, (f r).reason ≠ none) : PropOK f := fun r _ _ => h r

theorem struct_endAttempts {s : State} (h : Struct s) (d : Nat) (p : Attempt → Bool) (ts : Int) (r : String) :
    Struct (endAttempts s d p ts r) :=
  struct_updateAttempts h d p _ (propOK_reason _ (by intro _; simp))

theorem struct_deactivateApply {s : State} (h : Struct s) (n : Nat) (r : String) (ts : Int) (d : Nat) :
    Struct (deactivateApply s n r ts d) := by
  unfold deactivateApply
  have h1 := struct_endAttempts h d (fun a => a.inst = some n) ts r
  have h2 : Struct (updateJobs (endAttempts s d (fun a => a.inst = some n) ts r)
      (onInstance (endAttempts s d (fun a => a.inst = some n) ts r) n) (setStateAttempt .Ready none)) :=
    struct_updateJobs h1 _ _ (jobFrame_setStateAttempt .Ready none)
  refine ⟨h2.groupsSelf.congr rfl, h2.anc.congr rfl, h2.jobsFK.congr rfl rfl rfl, h2.attJob.congr rfl rfl, h2.attU.congr rfl,
    h2.rows.congr rfl, ?_, ?_⟩
  · exact instUnique_mapState s _ (by intro i; split_ifs <;> rfl) h.instU
  · intro i' hi' hl
    simp only [List.mem_map] at hi'
    obtain ⟨i, hi, rfl⟩ := hi'
    split_ifs at hl ⊢
    · rfl
    · exact h.dead i hi hl

theorem struct_deactivate {s : State} (h : Struct s) (n : Nat) (r : String) (ts : Int) (d : Nat) :
    Struct (deactivate s n r ts d).1 := by
  unfold deactivate
  split
  · exact h
  · split_ifs
    · exact h
    · exact struct_deactivateApply h n r ts d

theorem struct_schedule {s : State} (h : Struct s) (b j a i : Nat) : Struct (schedule s b j a i).1 := by
  unfold schedule
  split
  · exact h
  · rename_i job hj
    replace hj := findJobFk_some hj
    have h1 : Struct (schedulePrep s b j a i job) := struct_addAttempt h b j _ _ _ (by intro _; rw [hj]; rfl)
    split_ifs
    · exact struct_updateJobs h1 _ _ (jobFrame_setStateAttempt _ _)
    · exact h1

theorem struct_startLike {s : State} (h : Struct s) (b j a i : Nat) (ts : Int) (d : Nat) (need : IState) (ns : JState) :
    Struct (startLike s b j a i ts d need ns).1 := by
  unfold startLike
  split
  · exact h
  · rename_i job hj
    replace hj := findJobFk_some hj
    have h1 : Struct (startPrep s b j a i ts d job) :=
      struct_updateAttempts (struct_addAttempt h b j _ _ _ (by intro _; rw [hj]; rfl)) _ _ _
        (propOK_keep _ (fun _ => ⟨rfl, rfl⟩))
    split_ifs
    · exact struct_updateJobs h1 _ _ (jobFrame_setStateAttempt _ _)
    · exact h1

theorem instState_updateAttempts (s : State) (d : Nat) (p : Attempt → Bool) (prop : Row → Row) (inst : Option Nat) :
    instState (updateAttempts s d p prop) inst = instState s inst := rfl

theorem struct_completePrep {s : State} (h : Struct s) (b j : Nat) (att inst : Option Nat) (st e : Option Int)
    (r : String) (d : Nat) (job : Job) (hj : findJob s b j = some job) :
    Struct (completePrep s b j att inst st e r d job) := by
  unfold completePrep
  dsimp only
  have h1 := struct_addAttempt h b j att inst job.cores (by intro _; rw [hj]; rfl)
  cases att with
  | none => dsimp only; split_ifs with hc
            · exact struct_freeAdd h1 _ _ hc.1
            · exact h1
  | some a =>
    dsimp only
    have h2 := struct_updateAttempts h1 d (fun x => x.batch = b ∧ x.job = j ∧ x.id = a) (fun _ => ⟨st, e, e, some r⟩)
      (propOK_reason _ (by intro _; simp))
    split_ifs with hc
    · exact struct_freeAdd h2 _ _ hc.1
    · exact h2

theorem struct_completeJob {s : State} (h : Struct s) (b j : Nat) (att : Option Nat) (ns : JState) (job : Job) :
    Struct (completeJob s b j att ns job) := by
  unfold completeJob
  have h1 := struct_updateJobs h (isJob b j) _ (jobFrame_setStateAttempt ns att)
  have h2 : Struct (tallyGroups (updateJobs s (isJob b j) (setStateAttempt ns att)) b job.group ns) :=
    struct_maps h1 _ id _ BatchFrame.id (GroupFrame.ite _ (groupFrame_tally ns)) (List.map_id _).symm rfl rfl rfl rfl
  have h3 : Struct (completeBatchIfDone (tallyGroups (updateJobs s (isJob b j) (setStateAttempt ns att)) b job.group ns) b) :=
    struct_maps h2 _ _ id (BatchFrame.ite _ (F := fun x => { x with state := .complete }) (fun _ => ⟨rfl, rfl, rfl⟩))
      GroupFrame.id rfl (List.map_id _).symm rfl rfl rfl
  exact struct_maps h3 _ id _ BatchFrame.id
    (GroupFrame.ite _ (F := fun x => { x with state := .complete }) (fun _ => ⟨rfl, rfl, rfl, rfl⟩))
    (List.map_id _).symm rfl rfl rfl rfl

theorem struct_complete {s : State} (h : Struct s) (b j : Nat) (att inst : Option Nat) (ns : JState) (st e : Option Int)
    (r : String) (d : Nat) : Struct (complete s b j att inst ns st e r d).1 := by
  unfold complete
  split
  · exact h
  · rename_i job hj
    replace hj := findJobFk_some hj
    have h1 := struct_completePrep h b j att inst st e r d job hj
    split_ifs
    · exact h1
    · exact struct_updateJobs (struct_completeJob h1 b j att ns job) _ _ (jobFrame_childUpdate ns)
    · exact h1
    · exact h1

theorem struct_unschedulePrep {s : State} (h : Struct s) (b j a i : Nat) (e : Int) (r : String) (d : Nat) (job : Job) :
    Struct (unschedulePrep s b j a i e r d job) := by
  unfold unschedulePrep
  dsimp only
  have h1 := struct_endAttempts h d (fun x => x.batch = b ∧ x.job = j ∧ x.id = a) e r
  split_ifs with hc
  · exact struct_freeAdd h1 _ _ hc.1
  · exact h1

theorem struct_unschedule {s : State} (h : Struct s) (b j a i : Nat) (e : Int) (r : String) (d : Nat) :
    Struct (unschedule s b j a i e r d).1 := by
  unfold unschedule
  split
  · exact h
  · rename_i job _
    have h1 := struct_unschedulePrep h b j a i e r d job
    split_ifs
    · exact struct_updateJobs h1 _ _ (jobFrame_setStateAttempt _ _)
    · exact h1

theorem struct_heartbeat {s : State} (h : Struct s) (atts : List (Nat × Nat × Nat)) (ts : Int) (d : Nat) :
    Struct (heartbeat s atts ts d).1 := by
  have e : (heartbeat s atts ts d).1 = updateAttempts s d (fun x => atts.contains (x.batch, x.job, x.id))
      (fun r => { r with rollup_time := some ts }) := rfl
  rw [e]
  exact struct_updateAttempts h d _ _ (propOK_keep _ (fun _ => ⟨rfl, rfl⟩))

theorem struct_cancelGroup {s : State} (h : Struct s) (b g : Nat) : Struct (cancelGroup s b g).1 := by
  unfold cancelGroup
  split_ifs
  · exact h
  · exact h
  · exact struct_congr h _ rfl rfl rfl rfl rfl

theorem struct_deleteBatch {s : State} (h : Struct s) (b : Nat) : Struct (deleteBatch s b).1 := by
  unfold deleteBatch
  split
  · exact h
  · split_ifs
    · exact h
    · dsimp only
      exact struct_maps h _ _ id (BatchFrame.ite _ (F := fun x => { x with deleted := true }) (fun _ => ⟨rfl, rfl, rfl⟩))
        GroupFrame.id rfl (List.map_id _).symm rfl rfl rfl
    · dsimp only
      exact struct_maps (struct_congr h (cancelApply s b 0) rfl rfl rfl rfl rfl) _ _ id
        (BatchFrame.ite _ (F := fun x => { x with deleted := true }) (fun _ => ⟨rfl, rfl, rfl⟩))
        GroupFrame.id rfl (List.map_id _).symm rfl rfl rfl

theorem struct_addResources {s : State} (h : Struct s) (b j a : Nat) (res : List (Nat × Int)) (d : Nat) :
    Struct (addResources s b j a res d).1 := by
  unfold addResources
  split_ifs
  · exact h
  · exact struct_congr h _ rfl rfl rfl rfl rfl

theorem struct_commitCore {s : State} (h : Struct s) (FB : Batch → Batch) (hFB : BatchFrame FB) (FG : Group → Group)
    (hFG : GroupFrame FG) (upds : List Update) (c : List (CKey × Int)) :
    Struct { s with batches := s.batches.map FB, updates := upds, groups := s.groups.map FG, ctr := c } :=
  struct_maps h _ FB FG hFB hFG rfl rfl rfl rfl rfl

theorem struct_commitUpdate {s : State} (h : Struct s) (b upd : Nat) : Struct (commitUpdate s b upd).1 := by
  unfold commitUpdate
  model_split
  all_goals first | exact h | exact struct_congr h _ rfl rfl rfl rfl rfl | skip
  · refine struct_commitCore h _ ?_ _ (groupFrame_setStateJobs _ _ _) _ _
    intro x; dsimp only; split_ifs <;> exact ⟨rfl, rfl, rfl⟩
  · refine struct_updateJobs (struct_commitCore h _ ?_ _ (groupFrame_setStateJobs _ _ _) _ _) _ _ ?_
    · intro x; dsimp only; split_ifs <;> exact ⟨rfl, rfl, rfl⟩
    · intro x
      refine ⟨rfl, rfl, rfl, rfl, rfl, rfl, rfl, ?_⟩
      intro hx; dsimp only; split_ifs <;> simp_all

/-- every transaction preserves the structural invariants -/
theorem struct_step {s : State} (h : Struct s) (op : Op) : Struct (step s op).1 := by
  cases op with
  | createBatch u bp t => exact struct_createBatch h u bp t
  | createUpdate b t nj ng u => exact struct_createUpdate h b t nj ng u
  | insertGroups b u usr specs => exact struct_insertGroups h b u usr specs
  | insertJobs b u usr specs => exact struct_insertJobs h b u usr specs
  | commitUpdate b u => exact struct_commitUpdate h b u
  | cancelGroup b g => exact struct_cancelGroup h b g
  | deleteBatch b => exact struct_deleteBatch h b
  | newInstance n c p => exact struct_newInstance h n c p
  | activate n => exact struct_activate h n
  | deactivate n r ts d => exact struct_deactivate h n r ts d
  | markDeleted n => exact struct_markDeleted h n
  | schedule b j a i => exact struct_schedule h b j a i
  | creating b j a i ts d => exact struct_startLike h b j a i ts d _ _
  | started b j a i ts d => exact struct_startLike h b j a i ts d _ _
  | complete b j a i st st' e r d => exact struct_complete h b j a i st st' e r d
  | unschedule b j a i e r d => exact struct_unschedule h b j a i e r d
  | addResources b j a res d => exact struct_addResources h b j a res d
  | heartbeat atts ts d => exact struct_heartbeat h atts ts d
  | cleanupStaging => exact struct_congr h _ rfl rfl rfl rfl rfl
  | cleanupCancellable => exact struct_congr h _ rfl rfl rfl rfl rfl
  | compact => exact struct_congr h _ rfl rfl rfl rfl rfl

theorem struct_run (ops : List Op) : ∀ s, Struct s → Struct (ops.foldl (fun s op => (step s op).1) s) := by
  induction ops with
  | nil => intro s h; exact h
  | cons op rest ih => intro s h; exact ih _ (struct_step h op)

end HailVerif.BatchDB

/-! billing: transactions that append batches / groups / jobs, and every transaction -/
namespace HailVerif.BatchDB
open HailVerif.Generated.AttemptsTrigger (Row attemptsBeforeUpdate)

variable {P : CKey → Bool}

theorem find?_append_of_isSome {α : Type} (p : α → Bool) (l m : List α) (h : (l.find? p).isSome = true) :
    (l ++ m).find? p = l.find? p := by
  rw [List.find?_append]
  cases hf : l.find? p with
  | none => rw [hf] at h; simp at h
  | some x => simp

/-- appending rows to `batches`, `job_groups`, `jobs` does not change the aggregate rows charged for an attempt whose
job, group and batch already exist -/
theorem billKeys_append {s s' : State} (hs : Struct s) (newB : List Batch) (newG : List Group) (newJ : List Job)
    (eb : s'.batches = s.batches ++ newB) (eg : s'.groups = s.groups ++ newG) (ej : s'.jobs = s.jobs ++ newJ)
    (a : Attempt) (ha : a ∈ s.attempts) (d r : Nat) :
    billKeys s' d a.batch a.job r = billKeys s d a.batch a.job r := by
  have hj := hs.attJob a ha
  cases hx : findJob s a.batch a.job with
  | none => rw [hx] at hj; simp at hj
  | some x =>
    obtain ⟨hxm, hxb, _⟩ := mem_of_findJob hx
    obtain ⟨hg, hb⟩ := hs.jobsFK x hxm
    rw [hxb] at hg hb
    have e1 : findJob s' a.batch a.job = findJob s a.batch a.job := by
      unfold findJob at *; rw [ej]; exact find?_append_of_isSome _ _ _ hj
    have e2 : findGroup s' a.batch x.group = findGroup s a.batch x.group := by
      unfold findGroup at *; rw [eg]; exact find?_append_of_isSome _ _ _ hg
    have e3 : findBatch s' a.batch = findBatch s a.batch := by
      unfold findBatch at *; rw [eb]; exact find?_append_of_isSome _ _ _ hb
    have hjg : jobGroupOf s a.batch a.job = x.group := by unfold jobGroupOf; rw [hx]
    have hjg' : jobGroupOf s' a.batch a.job = x.group := by unfold jobGroupOf; rw [e1, hx]
    unfold billKeys
    rw [hjg, hjg']
    unfold bpOf userOf ancestorsOf
    rw [e2, e3]

theorem billing_append {s : State} (hs : Struct s) (h : Billing P s) (s' : State) (newB : List Batch) (newG : List Group)
    (newJ : List Job) (eb : s'.batches = s.batches ++ newB) (eg : s'.groups = s.groups ++ newG)
    (ej : s'.jobs = s.jobs ++ newJ) (ea : s'.attempts = s.attempts) (er : s'.attemptRes = s.attemptRes)
    (hc : getP P s'.ctr = getP P s.ctr) : Billing P s' :=
  billing_of_neutral ea er (fun a ha r => billKeys_append hs newB newG newJ eb eg ej a ha 0 r) hc h

theorem billing_createBatch {s : State} (hs : Struct s) (h : Billing P s) (u bp t : Nat) :
    Billing P (createBatch s u bp t).1 := by
  unfold createBatch
  model_split
  · exact h
  · exact billing_append hs h _ [_] [_] [] rfl rfl (by simp) rfl rfl rfl

theorem billing_insertGroup {s s' : State} (hs : Struct s) (h : Billing P s) (b upd gid parent : Nat)
    (e : insertGroup s b upd gid parent = some s') : Billing P s' := by
  unfold insertGroup at e
  split_ifs at e
  simp only [Option.some.injEq] at e; subst e
  exact billing_append hs h _ [] [_] [] (by simp) rfl (by simp) rfl rfl rfl

theorem billing_foldGroups (b upd : Nat) (u : Update) (specs : List GroupSpec) :
    ∀ (s s' : State), Struct s → Billing P s → specs.foldl (groupSpecStep b upd u) (some s) = some s' → Billing P s' := by
  induction specs with
  | nil => intro s s' _ hb h; simp at h; subst h; exact hb
  | cons sp rest ih =>
    intro s s' hs hb h
    simp only [List.foldl_cons] at h
    cases hmid : groupSpecStep b upd u (some s) sp with
    | none => rw [hmid, foldGroups_none] at h; exact absurd h (by simp)
    | some mid =>
      rw [hmid] at h
      exact ih mid s' (struct_insertGroup hs b upd _ _ (by simpa [groupSpecStep] using hmid))
        (billing_insertGroup hs hb b upd _ _ (by simpa [groupSpecStep] using hmid)) h

theorem billing_insertGroups {s : State} (hs : Struct s) (h : Billing P s) (b upd user : Nat) (specs : List GroupSpec) :
    Billing P (insertGroups s b upd user specs).1 := by
  unfold insertGroups
  model_split
  all_goals first | exact h | skip
  next s' hr => exact billing_foldGroups b upd _ _ s s' hs h hr

theorem billing_insertJobs (hP : BillPred P) {s : State} (hs : Struct s) (h : Billing P s) (b upd user : Nat)
    (specs : List JobSpec) : Billing P (insertJobs s b upd user specs).1 := by
  unfold insertJobs
  split
  · exact h
  · split
    · split
      · exact h
      · refine billing_append hs h _ [] [] _ (by simp [insertJobsApply]) (by simp [insertJobsApply]) rfl rfl rfl ?_
        show getP P (addMany _ s.ctr) = _
        rw [getP_addMany, getP_nonbilling hP, Int.zero_add]
        intro e he
        simp only [List.mem_flatMap, List.mem_cons, List.not_mem_nil, or_false] at he
        obtain ⟨j, _, a, _, rfl | rfl | rfl | rfl | rfl⟩ := he <;> rfl
    · exact h

/-- every transaction keeps every date-blind `WHERE`-sum over the billing aggregates equal to the recomputation -/
theorem billing_step (hP : BillPred P) {s : State} (hs : Struct s) (h : Billing P s) (op : Op) :
    Billing P (step s op).1 := by
  cases op with
  | createBatch u bp t => exact billing_createBatch hs h u bp t
  | createUpdate b t nj ng u => exact billing_createUpdate s b t nj ng u h
  | insertGroups b u usr specs => exact billing_insertGroups hs h b u usr specs
  | insertJobs b u usr specs => exact billing_insertJobs hP hs h b u usr specs
  | commitUpdate b u => exact billing_commitUpdate hP s b u h
  | cancelGroup b g => exact billing_cancelGroup hP s b g h
  | deleteBatch b => exact billing_deleteBatch hP s b h
  | newInstance n c p => exact billing_newInstance s n c p h
  | activate n => exact billing_activate s n h
  | deactivate n r ts d => exact billing_deactivate hP s n r ts d h
  | markDeleted n => exact billing_markDeleted s n h
  | schedule b j a i => exact billing_schedule hP s b j a i h
  | creating b j a i ts d => exact billing_startLike hP s b j a i ts d _ _ h
  | started b j a i ts d => exact billing_startLike hP s b j a i ts d _ _ h
  | complete b j a i st st' e r d => exact billing_complete hP s b j a i st st' e r d h
  | unschedule b j a i e r d => exact billing_unschedule hP s b j a i e r d h
  | addResources b j a res d => exact billing_addResources hP s b j a res d hs.attU h
  | heartbeat atts ts d => exact billing_heartbeat hP s atts ts d h
  | cleanupStaging => exact billing_cleanupStaging s h hP
  | cleanupCancellable => exact billing_cleanupCancellable s h hP
  | compact => exact billing_compact s h

theorem billing_init : Billing P init := rfl

theorem billing_run (hP : BillPred P) (ops : List Op) :
    ∀ s, Struct s → Billing P s → Struct (ops.foldl (fun s op => (step s op).1) s) ∧
      Billing P (ops.foldl (fun s op => (step s op).1) s) := by
  induction ops with
  | nil => intro s hs h; exact ⟨hs, h⟩
  | cons op rest ih => intro s hs h; exact ih _ (struct_step hs op) (billing_step hP hs h op)

end HailVerif.BatchDB

/-! free-core accounting (C10): definitions and the effect of the primitives on `usedOn` -/
namespace HailVerif.BatchDB
open HailVerif.Generated.AttemptsTrigger (Row attemptsBeforeUpdate)

/-- `jobs.cores_mcpu` of job `(b, j)` (0 when there is no such job) -/
def jobCores (s : State) (b j : Nat) : Int := match findJob s b j with | some x => x.cores | none => 0

/-- the attempt is placed on instance `n` and has not ended -/
def holdsOn (n : Nat) (a : Attempt) : Bool := decide (a.inst = some n) && decide (a.row.end_time = none)

/-- cores of the attempts placed on instance `n` that have not ended -/
def usedOn (s : State) (n : Nat) : Int :=
  sumBy (fun a => if holdsOn n a then jobCores s a.batch a.job else 0) s.attempts

/-- live (pending / active) instances: `free = cores − used` -/
def LiveExact (s : State) : Prop := ∀ i ∈ s.instances, isLive i = true → i.free = i.cores - usedOn s i.name

/-- on an attempt that names an instance, a stored reason comes with a stored end -/
def ReasonEnd (s : State) : Prop := ∀ a ∈ s.attempts, a.inst ≠ none → a.row.reason ≠ none → a.row.end_time ≠ none

/-- foreign key `attempts.instance_name → instances.name` -/
def AttInst (s : State) : Prop := ∀ a ∈ s.attempts, ∀ n, a.inst = some n → (findInstance s n).isSome = true

/-- the invariants behind exact free-core accounting -/
structure Acc (s : State) : Prop where
  struct : Struct s
  live : LiveExact s
  reasonEnd : ReasonEnd s
  attInst : AttInst s

theorem acc_init : Acc init :=
  ⟨struct_init, by intro i hi; simp [init] at hi, by intro a ha; simp [init] at ha, by intro a ha; simp [init] at ha⟩

/-! ### job cores are immutable -/

theorem jobCores_eq {s s' : State} (e : s'.jobs = s.jobs) (b j : Nat) : jobCores s' b j = jobCores s b j := by
  unfold jobCores; rw [findJob_eq e]

theorem jobCores_map {s s' : State} {F : Job → Job} (hF : JobFrame F) (e : s'.jobs = s.jobs.map F) (b j : Nat) :
    jobCores s' b j = jobCores s b j := by
  unfold jobCores findJob
  rw [e, find?_map_frame _ F (by intro x; simp [(hF x).1, (hF x).2.1])]
  cases s.jobs.find? (fun x => decide (x.batch = b ∧ x.id = j)) with
  | none => simp
  | some x => simp [(hF x).2.2.2.2.2.1]

theorem jobCores_updateJobs (s : State) (p : Job → Bool) (f : Job → Job) (hf : JobFrame f) (b j : Nat) :
    jobCores (updateJobs s p f) b j = jobCores s b j :=
  jobCores_map (JobFrame.ite p hf) (updateJobs_jobs s p f) b j

theorem jobCores_shape {s s' : State} (h : Shape s s') (b j : Nat) (hj : (findJob s b j).isSome = true) :
    jobCores s' b j = jobCores s b j := by
  cases hx : findJob s b j with
  | none => rw [hx] at hj; simp at hj
  | some x =>
    obtain ⟨x', hx', _, _, _, _, _, hc, _⟩ := findJob_shape h b j x hx
    unfold jobCores; rw [hx, hx']; exact hc

theorem jobCores_of_find {s : State} {b j : Nat} {job : Job} (h : findJob s b j = some job) : jobCores s b j = job.cores := by
  unfold jobCores; rw [h]

/-! ### frames -/

theorem usedOn_congr {s s' : State} (ha : s'.attempts = s.attempts)
    (hc : ∀ a ∈ s.attempts, jobCores s' a.batch a.job = jobCores s a.batch a.job) (n : Nat) : usedOn s' n = usedOn s n := by
  unfold usedOn; rw [ha]
  apply sumBy_congr
  intro a hm; rw [hc a hm]

theorem liveExact_frame {s s' : State} (h : LiveExact s) (ha : s'.attempts = s.attempts) (hi : s'.instances = s.instances)
    (hc : ∀ a ∈ s.attempts, jobCores s' a.batch a.job = jobCores s a.batch a.job) : LiveExact s' := by
  intro i hm hl
  rw [hi] at hm
  rw [usedOn_congr ha hc]; exact h i hm hl

theorem ReasonEnd.congr {s s' : State} (ha : s'.attempts = s.attempts) (h : ReasonEnd s) : ReasonEnd s' := by
  unfold ReasonEnd; rw [ha]; exact h

theorem AttInst.congr {s s' : State} (ha : s'.attempts = s.attempts) (hi : s'.instances = s.instances) (h : AttInst s) :
    AttInst s' := by
  intro a hm n hn; rw [ha] at hm; rw [findInstance_eq hi]; exact h a hm n hn

/-- a transaction that leaves attempts and instances alone (jobs change as `Shape` allows) -/
theorem acc_frame {s s' : State} (h : Acc s) (hs' : Struct s') (ha : s'.attempts = s.attempts)
    (hi : s'.instances = s.instances)
    (hc : ∀ a ∈ s.attempts, jobCores s' a.batch a.job = jobCores s a.batch a.job) : Acc s' :=
  ⟨hs', liveExact_frame h.live ha hi hc, h.reasonEnd.congr ha, h.attInst.congr ha hi⟩

theorem acc_shape {s s' : State} (h : Acc s) (hs' : Struct s') (sh : Shape s s') (ha : s'.attempts = s.attempts)
    (hi : s'.instances = s.instances) : Acc s' :=
  acc_frame h hs' ha hi (fun a hm => jobCores_shape sh _ _ (h.struct.attJob a hm))

/-! ### `usedOn` under `UPDATE attempts` -/

theorem sumBy_map {α β : Type} (w : β → Int) (f : α → β) (l : List α) : sumBy w (l.map f) = sumBy (fun x => w (f x)) l := by
  unfold sumBy; rw [List.map_map]; rfl

theorem usedOn_updateAttempts (s : State) (d : Nat) (p : Attempt → Bool) (prop : Row → Row) (n : Nat) :
    usedOn (updateAttempts s d p prop) n =
      sumBy (fun a => if holdsOn n (if p a then { a with row := attemptsBeforeUpdate a.row (prop a.row) } else a)
        then jobCores s a.batch a.job else 0) s.attempts := by
  unfold usedOn
  change sumBy _ (s.attempts.map _) = _
  rw [sumBy_map]
  apply sumBy_congr
  intro a _
  have : jobCores (updateAttempts s d p prop) = jobCores s := rfl
  rw [this]
  by_cases hp : p a = true <;> simp [hp]

/-- attempts on other instances are not touched -/
theorem usedOn_updateAttempts_other (s : State) (d : Nat) (p : Attempt → Bool) (prop : Row → Row) (n : Nat)
    (h : ∀ a ∈ s.attempts, p a = true → a.inst ≠ some n) : usedOn (updateAttempts s d p prop) n = usedOn s n := by
  rw [usedOn_updateAttempts]
  unfold usedOn
  apply sumBy_congr
  intro a hm
  by_cases hp : p a = true
  · have := h a hm hp
    simp [hp, holdsOn, this]
  · simp [hp]

/-- a report that proposes the stored end and reason frees nothing -/
theorem usedOn_updateAttempts_keep (s : State) (d : Nat) (p : Attempt → Bool) (prop : Row → Row) (n : Nat)
    (h : ∀ r, (prop r).end_time = r.end_time ∧ (prop r).reason = r.reason) :
    usedOn (updateAttempts s d p prop) n = usedOn s n := by
  rw [usedOn_updateAttempts]
  unfold usedOn
  apply sumBy_congr
  intro a _
  by_cases hp : p a = true
  · simp only [hp, if_true, holdsOn]
    rw [(upd_end_same a.row (prop a.row) (h a.row).1 (h a.row).2).1]
    rfl
  · simp [hp]

theorem mem_of_findAttempt {s : State} {b j a : Nat} {x : Attempt} (h : findAttempt s b j a = some x) :
    x ∈ s.attempts ∧ x.batch = b ∧ x.job = j ∧ x.id = a := by
  unfold findAttempt at h
  exact ⟨List.mem_of_find?_eq_some h, by simpa using List.find?_some h⟩

/-- with unique keys, the row selected by key is the one `findAttempt` returned -/
theorem eq_of_findAttempt {s : State} (hu : AttUnique s) {b j a : Nat} {x y : Attempt} (hx : findAttempt s b j a = some x)
    (hy : y ∈ s.attempts) (hk : y.batch = b ∧ y.job = j ∧ y.id = a) : y = x := by
  have h := sumBy_key_unique s.attempts hu b j a (fun z => if z = y then 1 else 0)
  unfold findAttempt at hx
  rw [hx] at h
  by_contra hne
  have hx0 : (if x = y then (1 : Int) else 0) = 0 := if_neg (fun e : x = y => hne e.symm)
  simp only [hx0] at h
  -- the sum counts `y` at least once
  have hpos : ∀ l : List Attempt, y ∈ l →
      1 ≤ sumBy (fun z => if z.batch = b ∧ z.job = j ∧ z.id = a then (if z = y then (1 : Int) else 0) else 0) l := by
    intro l
    have hnn : ∀ l : List Attempt,
        0 ≤ sumBy (fun z => if z.batch = b ∧ z.job = j ∧ z.id = a then (if z = y then (1 : Int) else 0) else 0) l := by
      intro l; induction l with
      | nil => simp [sumBy_nil]
      | cons z l ih => rw [sumBy_cons]; split_ifs <;> omega
    induction l with
    | nil => intro hm; simp at hm
    | cons z l ih =>
      intro hm
      rw [sumBy_cons]
      rcases List.mem_cons.mp hm with rfl | hm
      · simp only [hk, and_self, if_true]; have := hnn l; omega
      · have := ih hm; split_ifs <;> omega
  have := hpos s.attempts hy
  omega

/-- the one attempt `(b, j, a)` is updated: its cores leave `usedOn` exactly when it was holding them and is now ended -/
theorem usedOn_updateAttempts_key {s : State} (hs : Struct s) (d b j a : Nat) (prop : Row → Row) (n : Nat) (x : Attempt)
    (hx : findAttempt s b j a = some x) :
    usedOn (updateAttempts s d (fun y => y.batch = b ∧ y.job = j ∧ y.id = a) prop) n =
      usedOn s n - (if holdsOn n x = true ∧ (attemptsBeforeUpdate x.row (prop x.row)).end_time ≠ none
        then jobCores s b j else 0) := by
  obtain ⟨hxm, hxb, hxj, hxa⟩ := mem_of_findAttempt hx
  rw [usedOn_updateAttempts]
  unfold usedOn
  -- pointwise: only the row `x` can differ
  have hpt : ∀ y ∈ s.attempts,
      (if holdsOn n (if (decide (y.batch = b ∧ y.job = j ∧ y.id = a)) = true
          then { y with row := attemptsBeforeUpdate y.row (prop y.row) } else y) then jobCores s y.batch y.job else 0) =
      (if holdsOn n y then jobCores s y.batch y.job else 0) +
      (if y.batch = b ∧ y.job = j ∧ y.id = a then
        -(if holdsOn n x = true ∧ (attemptsBeforeUpdate x.row (prop x.row)).end_time ≠ none then jobCores s b j else 0)
       else 0) := by
    intro y hy
    by_cases hk : y.batch = b ∧ y.job = j ∧ y.id = a
    · have := eq_of_findAttempt hs.attU hx hy hk
      subst this
      simp only [hk, and_self, decide_true, if_true]
      by_cases hi : y.inst = some n
      · cases he : y.row.end_time with
        | none =>
          cases he' : (attemptsBeforeUpdate y.row (prop y.row)).end_time with
          | none => simp [holdsOn, hi, he, he']
          | some e' => simp [holdsOn, hi, he, he']
        | some e =>
          have := upd_end_mono y.row (prop y.row) (hs.rows y hy) (by rw [he]; simp)
          cases he' : (attemptsBeforeUpdate y.row (prop y.row)).end_time with
          | none => exact absurd he' this
          | some e' => simp [holdsOn, hi, he, he']
      · simp [holdsOn, hi]
    · simp [hk]
  rw [sumBy_congr _ _ _ hpt, sumBy_add, sumBy_key_unique s.attempts hs.attU b j a]
  unfold findAttempt at hx
  rw [hx]
  simp only []
  omega

end HailVerif.BatchDB

/-! free-core accounting (C10): the primitives and every transaction -/
namespace HailVerif.BatchDB
open HailVerif.Generated.AttemptsTrigger (Row attemptsBeforeUpdate)

/-! ### instance lookups under updates that keep names and states -/

theorem findInstance_map {s s' : State} (G : Instance → Instance) (hG : ∀ i, (G i).name = i.name)
    (e : s'.instances = s.instances.map G) (n : Nat) : findInstance s' n = (findInstance s n).map G := by
  unfold findInstance
  rw [e, find?_map_frame _ G (by intro x; simp [hG])]

theorem instState_map {s s' : State} (G : Instance → Instance) (hG : ∀ i, (G i).name = i.name ∧ (G i).state = i.state)
    (e : s'.instances = s.instances.map G) (inst : Option Nat) : instState s' inst = instState s inst := by
  unfold instState
  cases inst with
  | none => rfl
  | some n =>
    simp only [Option.bind_some]
    rw [findInstance_map G (fun i => (hG i).1) e]
    cases findInstance s n with
    | none => rfl
    | some i => simp [(hG i).2]

theorem instState_eq {s s' : State} (e : s'.instances = s.instances) (inst : Option Nat) :
    instState s' inst = instState s inst := by
  unfold instState; cases inst with
  | none => rfl
  | some n => simp only [Option.bind_some]; rw [findInstance_eq e]

theorem attInst_map {s s' : State} (h : AttInst s) (G : Instance → Instance) (hG : ∀ i, (G i).name = i.name)
    (ea : s'.attempts = s.attempts) (e : s'.instances = s.instances.map G) : AttInst s' := by
  intro a hm n hn
  rw [ea] at hm
  rw [findInstance_map G hG e]
  have := h a hm n hn
  cases hf : findInstance s n with
  | none => rw [hf] at this; simp at this
  | some i => rfl

/-! ### `add_attempt` -/

/-- a procedure that got past `add_attempt`'s foreign keys inserts an attempt only on an existing instance -/
theorem fk_of_findJobFk {s : State} {b j : Nat} {att inst : Option Nat} {job : Job}
    (h : findJobFk s b j att inst = some job) :
    ∀ a, att = some a → findAttempt s b j a = none → inst = none ∨ (inst.bind (findInstance s)).isSome = true := by
  intro a ha hn
  unfold findJobFk at h
  by_cases hf : attemptFkFails s b j att inst = true
  · simp [hf] at h
  · subst ha
    cases inst with
    | none => left; rfl
    | some n =>
      right
      simp only [attemptFkFails, hn, Option.isNone_none, Bool.true_and, Option.isNone_iff_eq_none] at hf
      simp only [Option.bind_some]
      cases hfi : findInstance s n with
      | none => exact absurd hfi hf
      | some i => rfl

/-- the two outcomes of `add_attempt` -/
theorem addAttempt_cases (s : State) (b j : Nat) (att inst : Option Nat) (c : Int) :
    (addAttempt s b j att inst c).1 = s ∨
    ∃ a, att = some a ∧ findAttempt s b j a = none ∧
      (addAttempt s b j att inst c).1 = { s with
        attempts := s.attempts ++ [Attempt.mk b j a inst (Row.mk none none none none)]
        instances := s.instances.map fun (i : Instance) =>
          if (match inst.bind (findInstance s) with
              | some i => decide (i.state = IState.pending) || decide (i.state = IState.active)
              | none => false) = true ∧ some i.name = inst then { i with free := i.free - c } else i } := by
  unfold addAttempt
  split
  · exact Or.inl rfl
  · split
    · exact Or.inl rfl
    · rename_i a _ hn
      exact Or.inr ⟨a, rfl, hn, rfl⟩

theorem instState_addAttempt (s : State) (b j : Nat) (att inst : Option Nat) (c : Int) (i : Option Nat) :
    instState (addAttempt s b j att inst c).1 i = instState s i := by
  rcases addAttempt_cases s b j att inst c with h | ⟨a, _, _, h⟩
  · rw [h]
  · rw [h]
    exact instState_map _ (by intro x; split_ifs <;> exact ⟨rfl, rfl⟩) rfl i

theorem findAttempt_addAttempt (s : State) (b j a : Nat) (inst : Option Nat) (c : Int) :
    (∃ x, findAttempt s b j a = some x ∧ (addAttempt s b j (some a) inst c).1 = s) ∨
    (findAttempt s b j a = none ∧
      findAttempt (addAttempt s b j (some a) inst c).1 b j a = some (Attempt.mk b j a inst (Row.mk none none none none))) := by
  cases hf : findAttempt s b j a with
  | some x => left; exact ⟨x, rfl, by unfold addAttempt; simp [hf]⟩
  | none =>
    right
    refine ⟨rfl, ?_⟩
    rcases addAttempt_cases s b j (some a) inst c with h | ⟨a', ha', _, h⟩
    · exfalso
      have hl := congrArg (fun t => t.attempts.length) h
      unfold addAttempt at hl
      simp [hf] at hl
    · cases ha'
      rw [h]
      unfold findAttempt at hf ⊢
      simp only [List.find?_append, hf]
      simp

theorem acc_addAttempt {s : State} (h : Acc s) (b j : Nat) (att inst : Option Nat) (job : Job)
    (hj : findJob s b j = some job)
    (hinst : ∀ a, att = some a → findAttempt s b j a = none → inst = none ∨ (inst.bind (findInstance s)).isSome = true) :
    Acc (addAttempt s b j att inst job.cores).1 := by
  have hs' := struct_addAttempt h.struct b j att inst job.cores (by intro _; rw [hj]; rfl)
  rcases addAttempt_cases s b j att inst job.cores with e | ⟨a, hatt, hnone, e⟩
  · rw [e]; exact h
  · replace hinst := hinst a hatt hnone
    rw [e] at hs' ⊢
    -- `usedOn` gains the job's cores on the named instance
    have hused : ∀ n, usedOn { s with
        attempts := s.attempts ++ [Attempt.mk b j a inst (Row.mk none none none none)]
        instances := s.instances.map fun (i : Instance) =>
          if (match inst.bind (findInstance s) with
              | some i => decide (i.state = IState.pending) || decide (i.state = IState.active)
              | none => false) = true ∧ some i.name = inst then { i with free := i.free - job.cores } else i } n =
        usedOn s n + (if inst = some n then job.cores else 0) := by
      intro n
      unfold usedOn
      simp only [sumBy_append, sumBy_cons, sumBy_nil, Int.add_zero]
      congr 1
      have : jobCores { s with
        attempts := s.attempts ++ [Attempt.mk b j a inst (Row.mk none none none none)]
        instances := s.instances.map fun (i : Instance) =>
          if (match inst.bind (findInstance s) with
              | some i => decide (i.state = IState.pending) || decide (i.state = IState.active)
              | none => false) = true ∧ some i.name = inst then { i with free := i.free - job.cores } else i } b j = job.cores :=
        jobCores_of_find hj
      rw [this]
      by_cases hi : inst = some n <;> simp [holdsOn, hi]
    refine ⟨hs', ?_, ?_, ?_⟩
    · intro i' hm hl
      simp only [List.mem_map] at hm
      obtain ⟨i, hi, rfl⟩ := hm
      rw [hused]
      split_ifs at hl ⊢ with hc hc2 hc2
      · have := h.live i hi hl
        simp only; rw [this]; omega
      · exact absurd hc.2.symm hc2
      · exfalso
        apply hc
        refine ⟨?_, hc2.symm⟩
        rw [hc2]
        simp only [Option.bind_some, findInstance_of_mem h.struct.instU hi]
        exact hl
      · have := h.live i hi hl
        rw [this]; omega
    · intro x hm
      simp only [List.mem_append, List.mem_singleton] at hm
      rcases hm with hm | rfl
      · exact h.reasonEnd x hm
      · intro _ hr; exact absurd rfl hr
    · intro x hm n hn
      rw [findInstance_map _ (by intro i; split_ifs <;> rfl) rfl]
      simp only [List.mem_append, List.mem_singleton] at hm
      have : (findInstance s n).isSome = true := by
        rcases hm with hm | rfl
        · exact h.attInst x hm n hn
        · simp only at hn
          rcases hinst with h0 | h0
          · rw [h0] at hn; exact absurd hn (by simp)
          · rw [hn] at h0; exact h0
      cases hf : findInstance s n with
      | none => rw [hf] at this; simp at this
      | some i => rfl

/-! ### `UPDATE attempts` -/

theorem attInst_updateAttempts {s : State} (h : AttInst s) (d : Nat) (p : Attempt → Bool) (prop : Row → Row) :
    AttInst (updateAttempts s d p prop) := by
  intro a' hm n hn
  change a' ∈ s.attempts.map _ at hm
  rw [List.mem_map] at hm
  obtain ⟨a, ha, rfl⟩ := hm
  have : a.inst = some n := by by_cases hp : p a = true <;> simpa [hp] using hn
  exact h a ha n this

/-- rows touched by a report either carry an end (when they name an instance) or keep end and reason -/
theorem reasonEnd_updateAttempts {s : State} (h : ReasonEnd s) (hr : RowsOK s) (d : Nat) (p : Attempt → Bool)
    (prop : Row → Row)
    (hp : ∀ a ∈ s.attempts, p a = true → a.inst ≠ none →
      (prop a.row).end_time ≠ none ∨ ((prop a.row).end_time = a.row.end_time ∧ (prop a.row).reason = a.row.reason)) :
    ReasonEnd (updateAttempts s d p prop) := by
  intro a' hm
  change a' ∈ s.attempts.map _ at hm
  rw [List.mem_map] at hm
  obtain ⟨a, ha, rfl⟩ := hm
  by_cases hpa : p a = true
  · simp only [hpa, if_true]
    intro hi hre
    rcases hp a ha hpa hi with h1 | h1
    · cases he : a.row.end_time with
      | some e => exact upd_end_mono _ _ (hr a ha) (by rw [he]; simp)
      | none =>
        have hnr : a.row.reason = none := by
          by_contra hne; exact absurd he (h a ha hi hne)
        rw [(upd_end_fresh _ _ hnr).1]; exact h1
    · have := upd_end_same a.row (prop a.row) h1.1 h1.2
      rw [this.1]; rw [this.2] at hre
      exact h a ha hi hre
  · simp only [hpa]; exact h a ha

theorem acc_updateAttempts_keep {s : State} (h : Acc s) (d : Nat) (p : Attempt → Bool) (prop : Row → Row)
    (hk : ∀ r, (prop r).end_time = r.end_time ∧ (prop r).reason = r.reason) : Acc (updateAttempts s d p prop) := by
  refine ⟨struct_updateAttempts h.struct d p prop (propOK_keep _ hk), ?_, ?_, attInst_updateAttempts h.attInst d p prop⟩
  · intro i hm hl
    rw [usedOn_updateAttempts_keep s d p prop _ hk]
    exact h.live i hm hl
  · exact reasonEnd_updateAttempts h.reasonEnd h.struct.rows d p prop (fun a _ _ _ => Or.inr (hk a.row))

theorem acc_updateJobs {s : State} (h : Acc s) (p : Job → Bool) (f : Job → Job) (hf : JobFrame f) : Acc (updateJobs s p f) :=
  acc_frame h (struct_updateJobs h.struct p f hf) rfl rfl (fun a _ => jobCores_updateJobs s p f hf _ _)

/-! ### ending an attempt and releasing its cores (`mark_job_complete`, `unschedule_job`) -/

theorem acc_endRelease {s : State} (h : Acc s) (d b j a : Nat) (inst : Option Nat) (prop : Row → Row) (c : Int) (x : Attempt)
    (hx : findAttempt s b j a = some x) (hxi : x.inst = inst) (hc : c = jobCores s b j)
    (hpr : ∀ r, (prop r).reason ≠ none) (hpe : inst ≠ none → ∀ r, (prop r).end_time ≠ none)
    (hpend : instState s inst = some .pending → x.row.end_time ≠ none) :
    Acc (if instState (updateAttempts s d (fun y => y.batch = b ∧ y.job = j ∧ y.id = a) prop) inst = some .active ∧
          x.row.end_time = none
        then freeAdd (updateAttempts s d (fun y => y.batch = b ∧ y.job = j ∧ y.id = a) prop) inst c
        else updateAttempts s d (fun y => y.batch = b ∧ y.job = j ∧ y.id = a) prop) := by
  obtain ⟨hxm, hxb, hxj, hxa⟩ := mem_of_findAttempt hx
  have hs2 := struct_updateAttempts h.struct d (fun y => y.batch = b ∧ y.job = j ∧ y.id = a) prop (propOK_reason _ hpr)
  have hre2 : ReasonEnd (updateAttempts s d (fun y => y.batch = b ∧ y.job = j ∧ y.id = a) prop) := by
    apply reasonEnd_updateAttempts h.reasonEnd h.struct.rows
    intro y hy hk hyi
    left
    have hk' : y.batch = b ∧ y.job = j ∧ y.id = a := by simpa using hk
    have := eq_of_findAttempt h.struct.attU hx hy hk'
    subst this
    exact hpe (by rw [← hxi]; exact hyi) _
  have hai2 := attInst_updateAttempts h.attInst d (fun y => y.batch = b ∧ y.job = j ∧ y.id = a) prop
  have hused := fun n => usedOn_updateAttempts_key h.struct d b j a prop n x hx
  -- the stored end after the report, when the attempt held cores on an instance
  have hended : x.inst ≠ none → x.row.end_time = none →
      (attemptsBeforeUpdate x.row (prop x.row)).end_time ≠ none := by
    intro hi he
    have hnr : x.row.reason = none := by
      by_contra hne; exact absurd he (h.reasonEnd x hxm hi hne)
    rw [(upd_end_fresh _ _ hnr).1]
    exact hpe (by rw [← hxi]; exact hi) _
  split_ifs with hg
  · -- active instance, attempt not ended before: cores released
    obtain ⟨hact, hend⟩ := hg
    have hact' : instState s inst = some .active := hact
    refine ⟨struct_freeAdd hs2 inst c hact, ?_, hre2.congr rfl,
      attInst_map hai2 _ (by intro i; split_ifs <;> rfl) rfl rfl⟩
    intro i' hm hl
    change i' ∈ s.instances.map _ at hm
    rw [List.mem_map] at hm
    obtain ⟨i, hi, rfl⟩ := hm
    have huj : ∀ n, usedOn (freeAdd (updateAttempts s d (fun y => y.batch = b ∧ y.job = j ∧ y.id = a) prop) inst c) n =
        usedOn (updateAttempts s d (fun y => y.batch = b ∧ y.job = j ∧ y.id = a) prop) n := fun n => rfl
    split_ifs at hl ⊢ with hn
    · simp only
      rw [huj, hused]
      have hh : holdsOn i.name x = true := by simp [holdsOn, hxi, ← hn, hend]
      have hne : x.inst ≠ none := by rw [hxi, ← hn]; simp
      simp only [hh, hended hne hend, ne_eq, not_false_eq_true, and_self, if_true]
      have := h.live i hi hl
      rw [this, hc]; omega
    · rw [huj, hused]
      have hh : holdsOn i.name x = false := by
        have : ¬ x.inst = some i.name := by rw [hxi]; exact fun e => hn e.symm
        simp [holdsOn, this]
      simp only [hh]
      have := h.live i hi hl
      simp [this]
  · refine ⟨hs2, ?_, hre2, hai2⟩
    intro i hi hl
    rw [hused]
    have : ¬ (holdsOn i.name x = true ∧ (attemptsBeforeUpdate x.row (prop x.row)).end_time ≠ none) := by
      rintro ⟨hh, _⟩
      simp only [holdsOn, Bool.and_eq_true, decide_eq_true_eq] at hh
      have hin : inst = some i.name := by rw [← hxi]; exact hh.1
      have hst : instState s inst = some i.state := by rw [hin]; exact instState_of_mem h.struct.instU hi
      have hlive : i.state = .pending ∨ i.state = .active := by simpa [isLive] using hl
      rcases hlive with hp | ha
      · exact hpend (by rw [hst, hp]) hh.2
      · exact hg ⟨by show instState s inst = _; rw [hst, ha], hh.2⟩
    rw [if_neg this]
    have := h.live i hi hl
    simp [this]

theorem acc_endRelease_pos {s : State} (h : Acc s) (d b j a : Nat) (inst : Option Nat) (prop : Row → Row) (c : Int) (x : Attempt)
    (hx : findAttempt s b j a = some x) (hxi : x.inst = inst) (hc : c = jobCores s b j)
    (hpr : ∀ r, (prop r).reason ≠ none) (hpe : inst ≠ none → ∀ r, (prop r).end_time ≠ none)
    (hpend : instState s inst = some .pending → x.row.end_time ≠ none)
    (hg : instState s inst = some .active ∧ x.row.end_time = none) :
    Acc (freeAdd (updateAttempts s d (fun y => y.batch = b ∧ y.job = j ∧ y.id = a) prop) inst c) := by
  have := acc_endRelease h d b j a inst prop c x hx hxi hc hpr hpe hpend
  have hg' : instState (updateAttempts s d (fun y => y.batch = b ∧ y.job = j ∧ y.id = a) prop) inst = some .active ∧
      x.row.end_time = none := hg
  rwa [if_pos hg'] at this

theorem acc_endRelease_neg {s : State} (h : Acc s) (d b j a : Nat) (inst : Option Nat) (prop : Row → Row) (c : Int) (x : Attempt)
    (hx : findAttempt s b j a = some x) (hxi : x.inst = inst) (hc : c = jobCores s b j)
    (hpr : ∀ r, (prop r).reason ≠ none) (hpe : inst ≠ none → ∀ r, (prop r).end_time ≠ none)
    (hpend : instState s inst = some .pending → x.row.end_time ≠ none)
    (hg : ¬ (instState s inst = some .active ∧ x.row.end_time = none)) :
    Acc (updateAttempts s d (fun y => y.batch = b ∧ y.job = j ∧ y.id = a) prop) := by
  have := acc_endRelease h d b j a inst prop c x hx hxi hc hpr hpe hpend
  have hg' : ¬ (instState (updateAttempts s d (fun y => y.batch = b ∧ y.job = j ∧ y.id = a) prop) inst = some .active ∧
      x.row.end_time = none) := hg
  rwa [if_neg hg'] at this

/-- the last statement of `deactivate_instance`: the instance becomes inactive with all cores free -/
theorem liveExact_deactivated (s2 : State) (n : Nat)
    (hl : ∀ i ∈ s2.instances, isLive i = true → i.name ≠ n → i.free = i.cores - usedOn s2 i.name) :
    LiveExact { s2 with instances := s2.instances.map fun (x : Instance) =>
      if x.name = n then { x with state := .inactive, free := x.cores } else x } := by
  intro i' hm hl'
  simp only [List.mem_map] at hm
  obtain ⟨i, hi, rfl⟩ := hm
  split_ifs at hl' ⊢ with hn
  · simp [isLive] at hl'
  · exact hl i hi hl' hn

end HailVerif.BatchDB

/-! free-core accounting (C10): every transaction, under the report hypotheses `OpOK` -/
namespace HailVerif.BatchDB
open HailVerif.Generated.AttemptsTrigger (Row attemptsBeforeUpdate)

/-- the attempt a report names: it sits on the named instance (h3) and, if that instance is still pending, it has
already ended (h1: the report does not end an attempt on a pending instance); if there is no such attempt, the named
instance is not in state `absent` -/
def attemptOK (s : State) (b j a : Nat) (inst : Option Nat) (absent : IState) : Prop :=
  match findAttempt s b j a with
  | some x => x.inst = inst ∧ (instState s inst = some .pending → x.row.end_time ≠ none)
  | none => instState s inst ≠ some absent

instance (s : State) (b j a : Nat) (inst : Option Nat) (absent : IState) : Decidable (attemptOK s b j a inst absent) := by
  unfold attemptOK; split <;> infer_instance

/-- hypotheses on a completion report (`mark_job_complete`) -/
def completeOK (s : State) (b j : Nat) (att inst : Option Nat) (end_ : Option Int) : Prop :=
  match att with
  | none => instState s inst ≠ some .active
  | some a => (inst ≠ none → end_ ≠ none) ∧ attemptOK s b j a inst .pending

instance (s : State) (b j : Nat) (att inst : Option Nat) (end_ : Option Int) : Decidable (completeOK s b j att inst end_) := by
  unfold completeOK; cases att <;> dsimp only <;> infer_instance

/-- hypotheses on the driver / worker reports, evaluated in the state the report arrives in:
* (h2) a completion that names an attempt and an instance carries an end time;
* (h3) completion / unschedule name an attempt that sits on the instance they name — an unknown attempt is inserted by
  `mark_job_complete` (then the instance must not be pending), but `unschedule_job` must not name an unknown attempt on
  an active instance; a completion without attempt does not name an active instance;
* (h1) no attempt is ended by completion / unschedule while its instance is pending. -/
def OpOK (s : State) : Op → Prop
  | .complete b j att inst _ _ end_ _ _ => completeOK s b j att inst end_
  | .unschedule b j a i _ _ _ => attemptOK s b j a (some i) .active
  | _ => True

instance (s : State) (op : Op) : Decidable (OpOK s op) := by
  cases op <;> simp only [OpOK] <;> infer_instance

/-! ### transactions that touch neither attempts nor instances -/

theorem createBatch_ai (s : State) (u bp t : Nat) :
    (createBatch s u bp t).1.attempts = s.attempts ∧ (createBatch s u bp t).1.instances = s.instances := by
  unfold createBatch; model_split <;> exact ⟨rfl, rfl⟩
theorem createUpdate_ai (s : State) (b t nj ng u : Nat) :
    (createUpdate s b t nj ng u).1.attempts = s.attempts ∧ (createUpdate s b t nj ng u).1.instances = s.instances := by
  unfold createUpdate; model_split <;> exact ⟨rfl, rfl⟩
theorem insertGroup_ai (s s' : State) (b upd gid parent : Nat) (h : insertGroup s b upd gid parent = some s') :
    s'.attempts = s.attempts ∧ s'.instances = s.instances := by
  unfold insertGroup at h; split_ifs at h; simp only [Option.some.injEq] at h; subst h; exact ⟨rfl, rfl⟩
theorem foldGroups_ai (b upd : Nat) (u : Update) (specs : List GroupSpec) :
    ∀ (s s' : State), specs.foldl (groupSpecStep b upd u) (some s) = some s' →
      s'.attempts = s.attempts ∧ s'.instances = s.instances := by
  induction specs with
  | nil => intro s s' h; simp at h; subst h; exact ⟨rfl, rfl⟩
  | cons sp rest ih =>
    intro s s' h
    simp only [List.foldl_cons] at h
    cases hmid : groupSpecStep b upd u (some s) sp with
    | none => rw [hmid, foldGroups_none] at h; exact absurd h (by simp)
    | some mid =>
      rw [hmid] at h
      have h1 := insertGroup_ai s mid b upd _ _ (by simpa [groupSpecStep] using hmid)
      have h2 := ih mid s' h
      exact ⟨h2.1.trans h1.1, h2.2.trans h1.2⟩
theorem insertGroups_ai (s : State) (b upd user : Nat) (specs : List GroupSpec) :
    (insertGroups s b upd user specs).1.attempts = s.attempts ∧ (insertGroups s b upd user specs).1.instances = s.instances := by
  unfold insertGroups
  model_split
  all_goals first | exact ⟨rfl, rfl⟩ | skip
  next s' hr => exact foldGroups_ai b upd _ _ s s' hr
theorem insertJobs_ai (s : State) (b upd user : Nat) (specs : List JobSpec) :
    (insertJobs s b upd user specs).1.attempts = s.attempts ∧ (insertJobs s b upd user specs).1.instances = s.instances := by
  unfold insertJobs; model_split <;> exact ⟨rfl, rfl⟩
theorem commitUpdate_ai (s : State) (b upd : Nat) :
    (commitUpdate s b upd).1.attempts = s.attempts ∧ (commitUpdate s b upd).1.instances = s.instances := by
  unfold commitUpdate; model_split <;> exact ⟨rfl, rfl⟩
theorem cancelGroup_ai (s : State) (b g : Nat) :
    (cancelGroup s b g).1.attempts = s.attempts ∧ (cancelGroup s b g).1.instances = s.instances := by
  unfold cancelGroup; split_ifs <;> exact ⟨rfl, rfl⟩
theorem deleteBatch_ai (s : State) (b : Nat) :
    (deleteBatch s b).1.attempts = s.attempts ∧ (deleteBatch s b).1.instances = s.instances := by
  unfold deleteBatch; model_split <;> exact ⟨rfl, rfl⟩
theorem addResources_ai (s : State) (b j a : Nat) (res : List (Nat × Int)) (d : Nat) :
    (addResources s b j a res d).1.attempts = s.attempts ∧ (addResources s b j a res d).1.instances = s.instances := by
  unfold addResources; split_ifs <;> exact ⟨rfl, rfl⟩

/-! ### instances -/

theorem usedOn_zero_of_no_instance {s : State} (h : AttInst s) (n : Nat) (hn : findInstance s n = none) : usedOn s n = 0 := by
  unfold usedOn
  apply sumBy_zero
  intro a ha
  have : ¬ a.inst = some n := by
    intro e; have := h a ha n e; rw [hn] at this; simp at this
  simp [holdsOn, this]

theorem acc_newInstance {s : State} (h : Acc s) (n : Nat) (c : Int) (p : Bool) : Acc (newInstance s n c p).1 := by
  have hs' := struct_newInstance h.struct n c p
  unfold newInstance at hs' ⊢
  split_ifs at hs' ⊢ with hf
  · exact h
  · have hnone : findInstance s n = none := by simpa using hf
    refine ⟨hs', ?_, h.reasonEnd.congr rfl, ?_⟩
    · intro i hi hl
      have hu : ∀ m, usedOn { s with instances := s.instances ++ [Instance.mk n .pending c c p] } m = usedOn s m := fun m => rfl
      rw [hu]
      simp only [List.mem_append, List.mem_singleton] at hi
      rcases hi with hi | rfl
      · exact h.live i hi hl
      · simp [usedOn_zero_of_no_instance h.attInst n hnone]
    · intro a ha m hm
      have := h.attInst a ha m hm
      unfold findInstance at this ⊢
      exact find?_append_isSome _ _ _ this

theorem acc_setInstState {s : State} (h : Acc s) (n : Nat) (st : IState) (hs' : Struct (setInstState s n st))
    (hst : ∀ i ∈ s.instances, i.name = n → st ≠ .deleted → isLive i = true) (hst' : st = .active ∨ st = .deleted) :
    Acc (setInstState s n st) := by
  refine ⟨hs', ?_, h.reasonEnd.congr rfl, attInst_map h.attInst _ (by intro i; split_ifs <;> rfl) rfl rfl⟩
  intro i' hm hl
  unfold setInstState at hm
  simp only [List.mem_map] at hm
  obtain ⟨i, hi, rfl⟩ := hm
  have hu : ∀ m, usedOn (setInstState s n st) m = usedOn s m := fun m => rfl
  rw [hu]
  split_ifs at hl ⊢ with hn
  · rcases hst' with rfl | rfl
    · exact h.live i hi (hst i hi hn (by simp))
    · simp [isLive] at hl
  · exact h.live i hi hl

theorem acc_activate {s : State} (h : Acc s) (n : Nat) : Acc (activate s n).1 := by
  have hs' := struct_activate h.struct n
  unfold activate at hs' ⊢
  cases hf : findInstance s n with
  | none => exact h
  | some i0 =>
    rw [hf] at hs'
    dsimp only at hs' ⊢
    split_ifs at hs' ⊢ with hp
    · refine acc_setInstState h n .active hs' ?_ (Or.inl rfl)
      intro i hi hn _
      have := findInstance_of_mem h.struct.instU hi
      rw [hn, hf] at this; cases this
      simp [isLive, hp]
    · exact h

theorem acc_markDeleted {s : State} (h : Acc s) (n : Nat) : Acc (markDeleted s n).1 := by
  have hs' := struct_markDeleted h.struct n
  unfold markDeleted at hs' ⊢
  cases hf : findInstance s n with
  | none => exact h
  | some i0 =>
    rw [hf] at hs'
    dsimp only at hs' ⊢
    split_ifs at hs' ⊢
    · exact acc_setInstState h n .deleted hs' (by intro i _ _ hne; exact absurd rfl hne) (Or.inr rfl)
    · exact h

theorem acc_deactivate {s : State} (h : Acc s) (n : Nat) (r : String) (ts : Int) (d : Nat) :
    Acc (deactivate s n r ts d).1 := by
  unfold deactivate
  split
  · exact h
  · split_ifs
    · exact h
    · have hs' := struct_deactivateApply h.struct n r ts d
      unfold deactivateApply at hs' ⊢
      have hai1 := attInst_updateAttempts h.attInst d (fun a => a.inst = some n)
        (fun r' => { r' with rollup_time := some ts, end_time := some ts, reason := some r })
      refine ⟨hs', ?_, ?_, attInst_map hai1 _ (by intro i; split_ifs <;> rfl) rfl rfl⟩
      · refine liveExact_deactivated _ n ?_
        intro i hi hl hn
        have e1 : usedOn (endAttempts s d (fun a => a.inst = some n) ts r) i.name = usedOn s i.name := by
          apply usedOn_updateAttempts_other
          intro a _ hp e
          simp only [decide_eq_true_eq] at hp
          rw [hp] at e; cases e; exact hn rfl
        have e2 : usedOn (updateJobs (endAttempts s d (fun a => a.inst = some n) ts r)
            (onInstance (endAttempts s d (fun a => a.inst = some n) ts r) n) (setStateAttempt .Ready none)) i.name =
            usedOn (endAttempts s d (fun a => a.inst = some n) ts r) i.name :=
          usedOn_congr (s := endAttempts s d (fun a => a.inst = some n) ts r)
            (s' := updateJobs (endAttempts s d (fun a => a.inst = some n) ts r)
              (onInstance (endAttempts s d (fun a => a.inst = some n) ts r) n) (setStateAttempt .Ready none)) rfl
            (fun a _ => jobCores_updateJobs _ _ _ (jobFrame_setStateAttempt _ _) _ _) _
        rw [e2, e1]
        exact h.live i hi hl
      · have hre1 : ReasonEnd (updateAttempts s d (fun a => a.inst = some n)
            (fun r' => { r' with rollup_time := some ts, end_time := some ts, reason := some r })) :=
          reasonEnd_updateAttempts h.reasonEnd h.struct.rows d _ _ (fun a _ _ _ => Or.inl (by simp))
        exact ReasonEnd.congr rfl hre1

/-! ### scheduling traffic -/

theorem acc_schedule {s : State} (h : Acc s) (b j a i : Nat) : Acc (schedule s b j a i).1 := by
  unfold schedule
  split
  · exact h
  · rename_i job hfk
    have hj := findJobFk_some hfk
    have h1 : Acc (schedulePrep s b j a i job) :=
      acc_addAttempt h b j (some a) (some i) job hj (fk_of_findJobFk hfk)
    split_ifs
    · exact acc_updateJobs h1 _ _ (jobFrame_setStateAttempt _ _)
    · exact h1

theorem acc_startLike {s : State} (h : Acc s) (b j a i : Nat) (ts : Int) (d : Nat) (need : IState) (ns : JState) :
    Acc (startLike s b j a i ts d need ns).1 := by
  unfold startLike
  split
  · exact h
  · rename_i job hfk
    have hj := findJobFk_some hfk
    have h1 : Acc (startPrep s b j a i ts d job) :=
      acc_updateAttempts_keep (acc_addAttempt h b j (some a) (some i) job hj (fk_of_findJobFk hfk)) _ _ _
        (fun _ => ⟨rfl, rfl⟩)
    split_ifs
    · exact acc_updateJobs h1 _ _ (jobFrame_setStateAttempt _ _)
    · exact h1

theorem acc_completePrep {s : State} (h : Acc s) (b j : Nat) (att inst : Option Nat) (ns : JState) (st e : Option Int)
    (r : String) (d : Nat) (job : Job) (hfk : findJobFk s b j att inst = some job)
    (hok : OpOK s (.complete b j att inst ns st e r d)) :
    Acc (completePrep s b j att inst st e r d job) := by
  have hj := findJobFk_some hfk
  have hinst := fk_of_findJobFk hfk
  change completeOK s b j att inst e at hok
  unfold completeOK at hok
  unfold completePrep
  dsimp only
  cases att with
  | none =>
    dsimp only at hok ⊢
    have e0 : (addAttempt s b j none inst job.cores).1 = s := rfl
    rw [e0, if_neg (fun hh => hok hh.1)]
    exact h
  | some a =>
    dsimp only at hok ⊢
    obtain ⟨hend, hatt⟩ := hok
    have h1 := acc_addAttempt h b j (some a) inst job hj hinst
    have hc : job.cores = jobCores (addAttempt s b j (some a) inst job.cores).1 b j := by
      rw [jobCores_eq (addAttempt_jobs s b j (some a) inst job.cores) b j, jobCores_of_find hj]
    have hfind : ∃ x, findAttempt (addAttempt s b j (some a) inst job.cores).1 b j a = some x ∧ x.inst = inst ∧
        (instState (addAttempt s b j (some a) inst job.cores).1 inst = some .pending → x.row.end_time ≠ none) := by
      rcases findAttempt_addAttempt s b j a inst job.cores with ⟨x, hx, es⟩ | ⟨hn, hx⟩
      · unfold attemptOK at hatt
        rw [hx] at hatt
        rw [es]
        exact ⟨x, hx, hatt.1, hatt.2⟩
      · unfold attemptOK at hatt
        rw [hn] at hatt
        refine ⟨_, hx, rfl, ?_⟩
        intro hp
        rw [instState_addAttempt] at hp
        exact absurd hp hatt
    obtain ⟨x, hx, hxi, hpend⟩ := hfind
    have hcur : (findAttempt (addAttempt s b j (some a) inst job.cores).1 b j a).bind (·.row.end_time) = x.row.end_time := by
      rw [hx]; rfl
    split_ifs with hg
    · exact acc_endRelease_pos h1 d b j a inst _ job.cores x hx hxi hc (by intro _; simp) (fun hi _ => hend hi) hpend
        ⟨hg.1, hcur.symm.trans hg.2⟩
    · exact acc_endRelease_neg h1 d b j a inst _ job.cores x hx hxi hc (by intro _; simp) (fun hi _ => hend hi) hpend
        (fun hh => hg ⟨hh.1, hcur.trans hh.2⟩)

theorem acc_completeJob {s : State} (h : Acc s) (b j : Nat) (att : Option Nat) (ns : JState) (job : Job) :
    Acc (completeJob s b j att ns job) :=
  acc_frame h (struct_completeJob h.struct b j att ns job) rfl rfl
    (fun a _ => (jobCores_eq (s := updateJobs s (isJob b j) (setStateAttempt ns att)) rfl _ _).trans
      (jobCores_updateJobs s _ _ (jobFrame_setStateAttempt ns att) _ _))

theorem acc_complete {s : State} (h : Acc s) (b j : Nat) (att inst : Option Nat) (ns : JState) (st e : Option Int)
    (r : String) (d : Nat) (hok : OpOK s (.complete b j att inst ns st e r d)) :
    Acc (complete s b j att inst ns st e r d).1 := by
  unfold complete
  split
  · exact h
  · rename_i job hj
    have h1 := acc_completePrep h b j att inst ns st e r d job hj hok
    split_ifs
    · exact h1
    · exact acc_updateJobs (acc_completeJob h1 b j att ns job) _ _ (jobFrame_childUpdate ns)
    · exact h1
    · exact h1

theorem updateAttempts_none (s : State) (d : Nat) (p : Attempt → Bool) (prop : Row → Row)
    (h : ∀ a ∈ s.attempts, p a = false) : (updateAttempts s d p prop).attempts = s.attempts := by
  change s.attempts.map _ = _
  conv => rhs; rw [← List.map_id s.attempts]
  apply List.map_congr_left
  intro a ha; simp [h a ha]

theorem acc_unschedulePrep {s : State} (h : Acc s) (b j a i : Nat) (e : Int) (r : String) (d : Nat) (job : Job)
    (hj : findJob s b j = some job) (hok : OpOK s (.unschedule b j a i e r d)) :
    Acc (unschedulePrep s b j a i e r d job) := by
  unfold unschedulePrep endAttempts
  dsimp only
  change attemptOK s b j a (some i) .active at hok
  unfold attemptOK at hok
  cases hx : findAttempt s b j a with
  | some x =>
    rw [hx] at hok
    have hcur : (some x : Option Attempt).bind (·.row.end_time) = x.row.end_time := rfl
    split_ifs with hg
    · exact acc_endRelease_pos h d b j a (some i) _ job.cores x hx hok.1 (jobCores_of_find hj).symm (by intro _; simp)
        (by intro _ _; simp) hok.2 ⟨hg.1, hcur.symm.trans hg.2⟩
    · exact acc_endRelease_neg h d b j a (some i) _ job.cores x hx hok.1 (jobCores_of_find hj).symm (by intro _; simp)
        (by intro _ _; simp) hok.2 (fun hh => hg ⟨hh.1, hcur.trans hh.2⟩)
  | none =>
    rw [hx] at hok
    have hg : ¬ (instState (updateAttempts s d (fun x => x.batch = b ∧ x.job = j ∧ x.id = a)
        (fun r' => { r' with rollup_time := some e, end_time := some e, reason := some r })) (some i) = some .active ∧
        (none : Option Attempt).bind (·.row.end_time) = none) := fun hh => hok hh.1
    rw [if_neg hg]
    refine acc_frame h (struct_updateAttempts h.struct d _ _ (propOK_reason _ (by intro _; simp))) ?_ rfl (fun _ _ => rfl)
    apply updateAttempts_none
    intro y hy
    unfold findAttempt at hx
    rw [List.find?_eq_none] at hx
    simpa using hx y hy

theorem acc_unschedule {s : State} (h : Acc s) (b j a i : Nat) (e : Int) (r : String) (d : Nat)
    (hok : OpOK s (.unschedule b j a i e r d)) : Acc (unschedule s b j a i e r d).1 := by
  unfold unschedule
  split
  · exact h
  · rename_i job hj
    have h1 := acc_unschedulePrep h b j a i e r d job hj hok
    split_ifs
    · exact acc_updateJobs h1 _ _ (jobFrame_setStateAttempt _ _)
    · exact h1

theorem acc_heartbeat {s : State} (h : Acc s) (atts : List (Nat × Nat × Nat)) (ts : Int) (d : Nat) :
    Acc (heartbeat s atts ts d).1 := by
  have e : (heartbeat s atts ts d).1 = updateAttempts s d (fun x => atts.contains (x.batch, x.job, x.id))
      (fun r => { r with rollup_time := some ts }) := rfl
  rw [e]
  exact acc_updateAttempts_keep h d _ _ (fun _ => ⟨rfl, rfl⟩)

/-- one transaction preserves exact accounting, provided the report is well-formed for the state it arrives in -/
theorem acc_step {s : State} (h : Acc s) (op : Op) (hok : OpOK s op) : Acc (step s op).1 := by
  have hs' := struct_step h.struct op
  have sh := shape_step s op
  cases op with
  | createBatch u bp t => exact acc_shape h hs' sh (createBatch_ai s u bp t).1 (createBatch_ai s u bp t).2
  | createUpdate b t nj ng u => exact acc_shape h hs' sh (createUpdate_ai s b t nj ng u).1 (createUpdate_ai s b t nj ng u).2
  | insertGroups b u usr specs => exact acc_shape h hs' sh (insertGroups_ai s b u usr specs).1 (insertGroups_ai s b u usr specs).2
  | insertJobs b u usr specs => exact acc_shape h hs' sh (insertJobs_ai s b u usr specs).1 (insertJobs_ai s b u usr specs).2
  | commitUpdate b u => exact acc_shape h hs' sh (commitUpdate_ai s b u).1 (commitUpdate_ai s b u).2
  | cancelGroup b g => exact acc_shape h hs' sh (cancelGroup_ai s b g).1 (cancelGroup_ai s b g).2
  | deleteBatch b => exact acc_shape h hs' sh (deleteBatch_ai s b).1 (deleteBatch_ai s b).2
  | newInstance n c p => exact acc_newInstance h n c p
  | activate n => exact acc_activate h n
  | deactivate n r ts d => exact acc_deactivate h n r ts d
  | markDeleted n => exact acc_markDeleted h n
  | schedule b j a i => exact acc_schedule h b j a i
  | creating b j a i ts d => exact acc_startLike h b j a i ts d _ _
  | started b j a i ts d => exact acc_startLike h b j a i ts d _ _
  | complete b j a i st st' e r d => exact acc_complete h b j a i st st' e r d hok
  | unschedule b j a i e r d => exact acc_unschedule h b j a i e r d hok
  | addResources b j a res d => exact acc_shape h hs' sh (addResources_ai s b j a res d).1 (addResources_ai s b j a res d).2
  | heartbeat atts ts d => exact acc_heartbeat h atts ts d
  | cleanupStaging => exact acc_shape h hs' sh rfl rfl
  | cleanupCancellable => exact acc_shape h hs' sh rfl rfl
  | compact => exact acc_shape h hs' sh rfl rfl

end HailVerif.BatchDB

/-! instances that are not live stay so, with the same name and cores -/
namespace HailVerif.BatchDB
open HailVerif.Generated.AttemptsTrigger (Row attemptsBeforeUpdate)

/-- every instance row survives with its name and cores; one that is not live stays not live -/
def InstStep (s s' : State) : Prop :=
  ∀ i ∈ s.instances, ∃ i' ∈ s'.instances, i'.name = i.name ∧ i'.cores = i.cores ∧ (isLive i = false → isLive i' = false)

theorem InstStep.refl (s : State) : InstStep s s := fun i hi => ⟨i, hi, rfl, rfl, fun h => h⟩

theorem InstStep.trans {a b c : State} (h1 : InstStep a b) (h2 : InstStep b c) : InstStep a c := by
  intro i hi
  obtain ⟨i', hi', e1, e2, e3⟩ := h1 i hi
  obtain ⟨i'', hi'', f1, f2, f3⟩ := h2 i' hi'
  exact ⟨i'', hi'', f1.trans e1, f2.trans e2, fun h => f3 (e3 h)⟩

theorem instStep_of_eq {s s' : State} (e : s'.instances = s.instances) : InstStep s s' := by
  intro i hi; exact ⟨i, by rw [e]; exact hi, rfl, rfl, fun h => h⟩

theorem instStep_map {s s' : State} (G : Instance → Instance) (e : s'.instances = s.instances.map G)
    (hG : ∀ i ∈ s.instances, (G i).name = i.name ∧ (G i).cores = i.cores ∧ (isLive i = false → isLive (G i) = false)) :
    InstStep s s' := by
  intro i hi
  exact ⟨G i, by rw [e]; exact List.mem_map_of_mem hi, (hG i hi).1, (hG i hi).2.1, (hG i hi).2.2⟩

theorem instStep_addAttempt (s : State) (b j : Nat) (att inst : Option Nat) (c : Int) :
    InstStep s (addAttempt s b j att inst c).1 := by
  rcases addAttempt_cases s b j att inst c with e | ⟨a, _, _, e⟩
  · rw [e]; exact InstStep.refl s
  · rw [e]
    exact instStep_map _ rfl (by intro i _; split_ifs <;> exact ⟨rfl, rfl, fun h => h⟩)

theorem instStep_freeAdd (s : State) (inst : Option Nat) (d : Int) : InstStep s (freeAdd s inst d) :=
  instStep_map _ rfl (by intro i _; split_ifs <;> exact ⟨rfl, rfl, fun h => h⟩)

theorem instStep_schedule (s : State) (b j a i : Nat) : InstStep s (schedule s b j a i).1 := by
  unfold schedule
  split
  · exact InstStep.refl s
  · split_ifs
    · exact (instStep_addAttempt s b j _ _ _).trans (instStep_of_eq rfl)
    · exact instStep_addAttempt s b j _ _ _

theorem instStep_startLike (s : State) (b j a i : Nat) (ts : Int) (d : Nat) (need : IState) (ns : JState) :
    InstStep s (startLike s b j a i ts d need ns).1 := by
  unfold startLike
  split
  · exact InstStep.refl s
  · rename_i job _
    have h1 : InstStep s (startPrep s b j a i ts d job) := (instStep_addAttempt s b j _ _ _).trans (instStep_of_eq rfl)
    split_ifs
    · exact h1.trans (instStep_of_eq rfl)
    · exact h1

theorem instStep_completePrep (s : State) (b j : Nat) (att inst : Option Nat) (st e : Option Int) (r : String) (d : Nat)
    (job : Job) : InstStep s (completePrep s b j att inst st e r d job) := by
  unfold completePrep
  dsimp only
  have h1 := instStep_addAttempt s b j att inst job.cores
  cases att with
  | none => dsimp only; split_ifs
            · exact h1.trans (instStep_freeAdd _ _ _)
            · exact h1
  | some a => dsimp only; split_ifs
              · exact (h1.trans (instStep_of_eq rfl)).trans (instStep_freeAdd _ _ _)
              · exact h1.trans (instStep_of_eq rfl)

theorem instStep_complete (s : State) (b j : Nat) (att inst : Option Nat) (ns : JState) (st e : Option Int) (r : String)
    (d : Nat) : InstStep s (complete s b j att inst ns st e r d).1 := by
  unfold complete
  split
  · exact InstStep.refl s
  · rename_i job _
    have h1 := instStep_completePrep s b j att inst st e r d job
    split_ifs
    · exact h1
    · exact h1.trans (instStep_of_eq rfl)
    · exact h1
    · exact h1

theorem instStep_unschedule (s : State) (b j a i : Nat) (e : Int) (r : String) (d : Nat) :
    InstStep s (unschedule s b j a i e r d).1 := by
  unfold unschedule
  split
  · exact InstStep.refl s
  · rename_i job _
    have h1 : InstStep s (unschedulePrep s b j a i e r d job) := by
      unfold unschedulePrep
      dsimp only
      split_ifs
      · exact (instStep_of_eq rfl).trans (instStep_freeAdd _ _ _)
      · exact instStep_of_eq rfl
    split_ifs
    · exact h1.trans (instStep_of_eq rfl)
    · exact h1

theorem instStep_deactivate (s : State) (n : Nat) (r : String) (ts : Int) (d : Nat) :
    InstStep s (deactivate s n r ts d).1 := by
  unfold deactivate
  split
  · exact InstStep.refl s
  · split_ifs
    · exact InstStep.refl s
    · unfold deactivateApply
      exact instStep_map _ rfl (by intro i _; split_ifs <;> first | exact ⟨rfl, rfl, fun _ => rfl⟩ | exact ⟨rfl, rfl, fun h => h⟩)

theorem instStep_newInstance (s : State) (n : Nat) (c : Int) (p : Bool) : InstStep s (newInstance s n c p).1 := by
  unfold newInstance
  split_ifs
  · exact InstStep.refl s
  · intro i hi; exact ⟨i, by simp [hi], rfl, rfl, fun h => h⟩

theorem instStep_activate {s : State} (hu : InstUnique s) (n : Nat) : InstStep s (activate s n).1 := by
  unfold activate
  cases hf : findInstance s n with
  | none => exact InstStep.refl s
  | some i0 =>
    dsimp only
    split_ifs with hp
    · refine instStep_map _ rfl ?_
      intro i hi
      split_ifs with hn
      · refine ⟨rfl, rfl, ?_⟩
        intro hd
        have := findInstance_of_mem hu hi
        rw [hn, hf] at this; cases this
        simp [isLive, hp] at hd
      · exact ⟨rfl, rfl, fun h => h⟩
    · exact InstStep.refl s

theorem instStep_markDeleted (s : State) (n : Nat) : InstStep s (markDeleted s n).1 := by
  unfold markDeleted
  cases hf : findInstance s n with
  | none => exact InstStep.refl s
  | some i0 =>
    dsimp only
    split_ifs
    · exact instStep_map _ rfl (by intro i _; split_ifs <;> first | exact ⟨rfl, rfl, fun _ => rfl⟩ | exact ⟨rfl, rfl, fun h => h⟩)
    · exact InstStep.refl s

theorem instStep_step {s : State} (hs : Struct s) (op : Op) : InstStep s (step s op).1 := by
  cases op with
  | createBatch u bp t => exact instStep_of_eq (createBatch_ai s u bp t).2
  | createUpdate b t nj ng u => exact instStep_of_eq (createUpdate_ai s b t nj ng u).2
  | insertGroups b u usr specs => exact instStep_of_eq (insertGroups_ai s b u usr specs).2
  | insertJobs b u usr specs => exact instStep_of_eq (insertJobs_ai s b u usr specs).2
  | commitUpdate b u => exact instStep_of_eq (commitUpdate_ai s b u).2
  | cancelGroup b g => exact instStep_of_eq (cancelGroup_ai s b g).2
  | deleteBatch b => exact instStep_of_eq (deleteBatch_ai s b).2
  | newInstance n c p => exact instStep_newInstance s n c p
  | activate n => exact instStep_activate hs.instU n
  | deactivate n r ts d => exact instStep_deactivate s n r ts d
  | markDeleted n => exact instStep_markDeleted s n
  | schedule b j a i => exact instStep_schedule s b j a i
  | creating b j a i ts d => exact instStep_startLike s b j a i ts d _ _
  | started b j a i ts d => exact instStep_startLike s b j a i ts d _ _
  | complete b j a i st st' e r d => exact instStep_complete s b j a i st st' e r d
  | unschedule b j a i e r d => exact instStep_unschedule s b j a i e r d
  | addResources b j a res d => exact instStep_of_eq (addResources_ai s b j a res d).2
  | heartbeat atts ts d => exact instStep_of_eq rfl
  | cleanupStaging => exact instStep_of_eq rfl
  | cleanupCancellable => exact instStep_of_eq rfl
  | compact => exact instStep_of_eq rfl

theorem instStep_run (ops : List Op) : ∀ s, Struct s → InstStep s (ops.foldl (fun s op => (step s op).1) s) := by
  induction ops with
  | nil => intro s _; exact InstStep.refl s
  | cons op rest ih => intro s hs; exact (instStep_step hs op).trans (ih _ (struct_step hs op))

end HailVerif.BatchDB

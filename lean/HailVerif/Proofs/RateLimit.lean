import HailVerif.Model.RateLimit
/-! Helper lemmas for C24: invariants of `RateLimit.step`, lifted to `RateLimit.run`. -/
namespace HailVerif.RateLimit

def SortedLe (l : List Int) : Prop := l.Pairwise (· ≤ ·)

/-- the invariant carried through every run -/
structure Inv (c : Cfg) (s : State) : Prop where
  /-- `_items` is the tail of the admission log; everything already evicted is at least a window old -/
  split : ∃ old, s.log = old ++ s.items ∧ ∀ a ∈ old, a ≤ s.now - c.window
  /-- admissions are not in the future -/
  le_now : ∀ a ∈ s.log, a ≤ s.now
  sorted : SortedLe s.items
  /-- the two half-open window bounds -/
  boundOC : ∀ x, countOC s.log (x - c.window) x ≤ c.count
  boundCO : ∀ x, countCO s.log x (x + c.window) ≤ c.count
  /-- while a task sleeps there is no room: every instant of its sleep sees a full window -/
  asleep : ∀ p ∈ s.sleepers, ∀ t, p.2.1 ≤ t → t < p.2.2 → c.count ≤ countOC s.log (t - c.window) t
  /-- a sleep lasts a positive time and started in the past -/
  wake_gt : ∀ p ∈ s.sleepers, p.2.1 < p.2.2 ∧ p.2.1 ≤ s.now

/-- what the eviction loop leaves is at least everything younger than the threshold -/
theorem countP_le_dropWhile (q : Int → Bool) : ∀ l : List Int, l.countP (fun a => !q a) ≤ (l.dropWhile q).length := by
  intro l
  induction l with
  | nil => simp
  | cons a l ih =>
    simp only [List.dropWhile, List.countP_cons]
    cases h : q a with
    | true => simpa using ih
    | false =>
      have := List.countP_le_length (p := fun a => !q a) (l := l)
      simp; omega

/-- on a sorted list the eviction loop leaves exactly the elements above the threshold -/
theorem countP_eq_dropWhile (th : Int) : ∀ l : List Int, SortedLe l →
    l.countP (fun a => decide (th < a)) = (l.dropWhile fun a => decide (a ≤ th)).length := by
  intro l
  induction l with
  | nil => simp
  | cons a l ih =>
    intro hs
    obtain ⟨ha, hl⟩ := List.pairwise_cons.mp hs
    simp only [List.dropWhile, List.countP_cons]
    by_cases h : a ≤ th
    · have : ¬ th < a := by omega
      simp [h, this]; exact ih hl
    · have h' : th < a := by omega
      simp only [h, h', decide_false, decide_true, if_true]
      have : l.countP (fun a => decide (th < a)) = l.length := by
        apply List.countP_eq_length.mpr
        intro b hb; have := ha b hb; simp; omega
      simp [this]

theorem dropWhile_split (q : Int → Bool) : ∀ l : List Int,
    ∃ pre, l = pre ++ l.dropWhile q ∧ ∀ a ∈ pre, q a = true := by
  intro l
  induction l with
  | nil => exact ⟨[], by simp⟩
  | cons a l ih =>
    obtain ⟨pre, h1, h2⟩ := ih
    cases h : q a with
    | true =>
      refine ⟨a :: pre, by simp [List.dropWhile, h]; exact h1, ?_⟩
      intro b hb
      rcases List.mem_cons.mp hb with rfl | hb
      · exact h
      · exact h2 b hb
    | false => exact ⟨[], by simp [List.dropWhile, h]⟩

theorem dropWhile_head (q : Int → Bool) : ∀ (l : List Int) (hd : Int) (tl : List Int),
    l.dropWhile q = hd :: tl → q hd = false := by
  intro l
  induction l with
  | nil => intro hd tl h; simp at h
  | cons a l ih =>
    intro hd tl h
    cases hq : q a with
    | true => simp [List.dropWhile, hq] at h; exact ih hd tl h
    | false => simp [List.dropWhile, hq] at h; rw [← h.1]; exact hq

theorem dropWhile_sorted (q : Int → Bool) (l : List Int) (h : SortedLe l) : SortedLe (l.dropWhile q) :=
  List.Pairwise.sublist (List.dropWhile_sublist q) h

/-- admitting `now` keeps the bound of any window that, when it contains `now`, reaches back less than one window -/
theorem admit_bound (c : Cfg) (s : State) (P : Int → Bool) (hi : Inv c s)
    (hroom : (evict c s.now s.items).length < c.count)
    (hP : P s.now = true → ∀ a, P a = true → s.now - c.window < a)
    (hb : s.log.countP P ≤ c.count) : (s.log ++ [s.now]).countP P ≤ c.count := by
  rw [List.countP_append]
  cases hn : P s.now with
  | false => simp [hn]; exact hb
  | true =>
    simp only [List.countP_cons, List.countP_nil, hn, if_true]
    obtain ⟨old, hlog, hold⟩ := hi.split
    have h1 : s.log.countP P ≤ s.log.countP (fun a => decide (s.now - c.window < a)) :=
      List.countP_mono_left fun a _ ha => by simpa using hP hn a ha
    have h2 : s.log.countP (fun a => decide (s.now - c.window < a))
        = s.items.countP (fun a => decide (s.now - c.window < a)) := by
      rw [hlog, List.countP_append]
      have : old.countP (fun a => decide (s.now - c.window < a)) = 0 := by
        apply List.countP_eq_zero.mpr
        intro a ha; have := hold a ha; simp; omega
      omega
    have h3 := countP_le_dropWhile (fun t => decide (t ≤ s.now - c.window)) s.items
    have h4 : s.items.countP (fun a => !decide (a ≤ s.now - c.window))
        = s.items.countP (fun a => decide (s.now - c.window < a)) := by
      apply List.countP_congr
      intro a _; simp
    simp only [evict] at hroom
    omega

theorem body_inv (c : Cfg) (s s' : State) (i : Nat) (hi : Inv c s) (h : body c s i = .ok s') : Inv c s' := by
  have hsplit := hi.split
  obtain ⟨old, hlog, hold⟩ := hsplit
  obtain ⟨pre, hpre, hpreq⟩ := dropWhile_split (fun t => decide (t ≤ s.now - c.window)) s.items
  have hsl : ∀ p ∈ removeSleeper i s.sleepers, p ∈ s.sleepers := fun p hp => (List.mem_filter.mp hp).1
  simp only [body] at h
  split at h
  · next hroom =>
    -- admitted
    simp at h; subst h
    refine ⟨⟨old ++ pre, ?_, ?_⟩, ?_, ?_, ?_, ?_, ?_, ?_⟩
    · simp only [evict]; rw [hlog]; conv => lhs; rw [hpre]
      simp [List.append_assoc]
    · intro a ha
      rcases List.mem_append.mp ha with ha | ha
      · exact hold a ha
      · simpa using hpreq a ha
    · intro a ha
      rcases List.mem_append.mp ha with ha | ha
      · exact hi.le_now a ha
      · simp at ha; simp only; omega
    · -- sorted: the kept items are ≤ now
      simp only [evict, SortedLe]
      apply List.pairwise_append.mpr
      refine ⟨dropWhile_sorted _ _ hi.sorted, by simp, ?_⟩
      intro a ha b hb
      simp at hb; subst hb
      have : a ∈ s.items := (List.dropWhile_sublist _).subset ha
      exact hi.le_now a (by rw [hlog]; exact List.mem_append_right _ this)
    · intro x
      exact admit_bound c s _ hi hroom (by intro hn a ha; simp at hn ha; omega) (hi.boundOC x)
    · intro x
      exact admit_bound c s _ hi hroom (by intro hn a ha; simp at hn ha; omega) (hi.boundCO x)
    · intro p hp t h1 h2
      have := hi.asleep p (hsl p hp) t h1 h2
      simp only [countOC, List.countP_append] at *
      omega
    · intro p hp; exact hi.wake_gt p (hsl p hp)
  · next hfull =>
    split at h
    · simp at h
    · next hd tl hitems =>
      simp at h; subst h
      simp only [evict] at hitems hfull
      have hsorted' : SortedLe (hd :: tl) := by rw [← hitems]; exact dropWhile_sorted _ _ hi.sorted
      have hhd : s.now - c.window < hd := by
        have := dropWhile_head (fun t => decide (t ≤ s.now - c.window)) s.items hd tl hitems
        simp at this; omega
      refine ⟨⟨old ++ pre, ?_, ?_⟩, hi.le_now, ?_, hi.boundOC, hi.boundCO, ?_, ?_⟩
      · simp only [evict]; rw [hlog]; conv => lhs; rw [hpre]
        simp [List.append_assoc]
      · intro a ha
        rcases List.mem_append.mp ha with ha | ha
        · exact hold a ha
        · simpa using hpreq a ha
      · simp only [evict]; exact dropWhile_sorted _ _ hi.sorted
      · intro p hp t h1 h2
        rcases List.mem_append.mp hp with hp | hp
        · exact hi.asleep p (hsl p hp) t h1 h2
        · simp at hp; subst hp
          simp only at h1 h2
          -- every kept item lies in (t - W, t]
          have hall : (hd :: tl).countP (fun a => decide (t - c.window < a ∧ a ≤ t)) = (hd :: tl).length := by
            apply List.countP_eq_length.mpr
            intro a ha
            have h3 : hd ≤ a := by
              rcases List.mem_cons.mp ha with rfl | ha'
              · omega
              · exact (List.pairwise_cons.mp hsorted').1 a ha'
            have h4 : a ≤ s.now := by
              have : a ∈ s.items := by
                have : a ∈ s.items.dropWhile (fun t => decide (t ≤ s.now - c.window)) := by rw [hitems]; exact ha
                exact (List.dropWhile_sublist _).subset this
              exact hi.le_now a (by rw [hlog]; exact List.mem_append_right _ this)
            simp; omega
          have hlen : c.count ≤ (hd :: tl).length := by rw [← hitems]; omega
          have : s.log = (old ++ pre) ++ (hd :: tl) := by
            rw [hlog]; conv => lhs; rw [hpre]
            rw [hitems]; simp [List.append_assoc]
          simp only [countOC]
          rw [this, List.countP_append]
          omega
      · intro p hp
        rcases List.mem_append.mp hp with hp | hp
        · exact hi.wake_gt p (hsl p hp)
        · simp at hp; subst hp; simp only; omega

theorem leave_eq (s s' : State) (i : Nat) (h : leave s i = .ok s') :
    s' = { s with inBody := s.inBody.filter fun j => j != i } := by
  simp only [leave] at h
  split at h
  · simp at h; exact h.symm
  · simp at h

theorem step_inv (c : Cfg) (s s' : State) (op : Op) (hi : Inv c s) (h : step c s op = .ok s') : Inv c s' := by
  have leave_case : ∀ i, leave s i = .ok s' → Inv c s' := by
    intro i h
    rw [leave_eq s s' i h]
    exact ⟨hi.split, hi.le_now, hi.sorted, hi.boundOC, hi.boundCO, hi.asleep, hi.wake_gt⟩
  cases op with
  | tick dt =>
    simp [step] at h; subst h
    obtain ⟨old, hlog, hold⟩ := hi.split
    refine ⟨⟨old, hlog, ?_⟩, ?_, hi.sorted, hi.boundOC, hi.boundCO, hi.asleep, ?_⟩
    · intro a ha; have := hold a ha; simp only; omega
    · intro a ha; have := hi.le_now a ha; simp only; omega
    · intro p hp; have := hi.wake_gt p hp; simp only; omega
  | attempt i =>
    simp only [step] at h
    split at h
    · simp at h
    · split at h
      · split at h
        · simp at h
        · exact body_inv c s s' i hi h
      · exact body_inv c s s' i hi h
  | exit i => exact leave_case i h
  | fail i => exact leave_case i h
  | cancel i =>
    simp only [step] at h
    split at h
    · exact leave_case i h
    · split at h
      · simp at h; subst h
        have hsl : ∀ p ∈ removeSleeper i s.sleepers, p ∈ s.sleepers := fun p hp => (List.mem_filter.mp hp).1
        exact ⟨hi.split, hi.le_now, hi.sorted, hi.boundOC, hi.boundCO,
          fun p hp => hi.asleep p (hsl p hp), fun p hp => hi.wake_gt p (hsl p hp)⟩
      · simp at h

theorem run_inv (c : Cfg) : ∀ (ops : List Op) (s s' : State), Inv c s → run c s ops = .ok s' → Inv c s' := by
  intro ops
  induction ops with
  | nil => intro s s' hi h; simp [run] at h; subst h; exact hi
  | cons op ops ih =>
    intro s s' hi h
    simp only [run] at h
    split at h
    · simp at h
    · next s1 hstep => exact ih s1 s' (step_inv c s s1 op hi hstep) h

theorem init_inv (c : Cfg) (t0 : Int) : Inv c (init t0) := by
  refine ⟨⟨[], by simp [init], by simp⟩, by simp [init], by simp [init, SortedLe], ?_, ?_, by simp [init], by simp [init]⟩
  · intro x; simp [init, countOC]
  · intro x; simp [init, countCO]

/-- an attempt admits exactly when the window `(now - W, now]` has room -/
theorem body_admits_iff (c : Cfg) (s s' : State) (i : Nat) (hi : Inv c s) (h : body c s i = .ok s') :
    (s'.log = s.log ++ [s.now] ↔ countOC s.log (s.now - c.window) s.now < c.count) ∧
    (s'.log = s.log ∨ s'.log = s.log ++ [s.now]) := by
  obtain ⟨old, hlog, hold⟩ := hi.split
  have hcount : countOC s.log (s.now - c.window) s.now = (evict c s.now s.items).length := by
    simp only [countOC, evict]
    rw [← countP_eq_dropWhile _ _ hi.sorted]
    have h1 : s.log.countP (fun a => decide (s.now - c.window < a ∧ a ≤ s.now))
        = s.log.countP (fun a => decide (s.now - c.window < a)) := by
      apply List.countP_congr
      intro a ha; have := hi.le_now a ha; simp; omega
    rw [h1, hlog, List.countP_append]
    have : old.countP (fun a => decide (s.now - c.window < a)) = 0 := by
      apply List.countP_eq_zero.mpr
      intro a ha; have := hold a ha; simp; omega
    omega
  simp only [body] at h
  split at h
  · next hroom =>
    simp at h; subst h
    simp only [true_iff, or_true, and_true]
    omega
  · next hfull =>
    split at h
    · simp at h
    · simp at h; subst h
      simp only [true_or, and_true]
      constructor
      · intro h; have := congrArg List.length h; simp at this
      · intro h; omega

end HailVerif.RateLimit

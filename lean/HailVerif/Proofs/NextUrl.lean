import HailVerif.Model.NextUrl
/-! Helper lemmas for C29 (`Props/C29.lean`). -/
namespace HailVerif.NextUrl

/-! ### generic list facts -/

theorem dropWhile_cases {α} (p : α → Bool) (l : List α) :
    l.dropWhile p = [] ∨ ∃ d t, l.dropWhile p = d :: t ∧ p d = false := by
  induction l with
  | nil => simp
  | cons a l ih =>
    by_cases h : p a
    · simpa [List.dropWhile_cons, h] using ih
    · right; exact ⟨a, l, by simp [List.dropWhile_cons, h], by simpa using h⟩

theorem takeWhile_all {α} (p : α → Bool) (l : List α) : ∀ c ∈ l.takeWhile p, p c = true := by
  induction l with
  | nil => simp
  | cons a l ih =>
    by_cases h : p a
    · intro c hc
      simp [List.takeWhile_cons, h] at hc
      rcases hc with rfl | hc
      · exact h
      · exact ih c hc
    · simp [List.takeWhile_cons, h]

theorem takeWhile_append_stop {α} (p : α → Bool) (v r : List α) (hv : ∀ c ∈ v, p c = true)
    (hr : r = [] ∨ ∃ d t, r = d :: t ∧ p d = false) : (v ++ r).takeWhile p = v := by
  induction v with
  | nil =>
    rcases hr with rfl | ⟨d, t, rfl, hd⟩
    · simp
    · simp [List.takeWhile_cons, hd]
  | cons a v ih =>
    have ha : p a = true := hv a (by simp)
    simp [List.takeWhile_cons, ha]
    exact ih (fun c hc => hv c (by simp [hc]))

theorem dropWhile_append_stop {α} (p : α → Bool) (x : List α) (c : α) (y : List α) (hc : p c = false) :
    (x ++ c :: y).dropWhile p = x.dropWhile p ++ c :: y := by
  induction x with
  | nil => simp [List.dropWhile_cons, hc]
  | cons a x ih =>
    by_cases h : p a <;> simp [List.dropWhile_cons, h, ih]

/-! ### pre-processing: the browser's input is the Python input with trailing C0/space removed -/

theorem filter_dropWhile_comm (y : Str) :
    (y.dropWhile isC0Space).filter (fun c => !isTabNl c) = (y.filter (fun c => !isTabNl c)).dropWhile isC0Space := by
  induction y with
  | nil => simp
  | cons c t ih =>
    by_cases h0 : isC0Space c
    · by_cases ht : isTabNl c
      · simp [List.dropWhile_cons, List.filter_cons, h0, ht, ih]
      · simp [List.dropWhile_cons, List.filter_cons, h0, ht, ih]
    · have ht : isTabNl c = false := by
        simp [isC0Space, isTabNl] at h0 ⊢; omega
      simp [List.dropWhile_cons, List.filter_cons, h0, ht]

theorem brPre_eq (s : Str) : brPre s = rstrip (pyPre s) := by
  unfold brPre pyPre rstrip
  rw [List.filter_reverse, filter_dropWhile_comm, ← List.filter_reverse]

theorem rstrip_append_stop (x : Str) (c : Char) (y : Str) (hc : isC0Space c = false) :
    rstrip (x ++ c :: y) = x ++ c :: rstrip y := by
  unfold rstrip
  have : (x ++ c :: y).reverse = y.reverse ++ c :: x.reverse := by simp
  rw [this, dropWhile_append_stop _ _ _ _ hc]
  simp

theorem rstrip_id (x : Str) (h : ∀ c ∈ x, isC0Space c = false) : rstrip x = x := by
  unfold rstrip
  cases hx : x.reverse with
  | nil => simp at hx; simp [hx]
  | cons c t =>
    have hc : isC0Space c = false := h c (by
      have : c ∈ x.reverse := by simp [hx]
      simpa using this)
    rw [List.dropWhile_cons, hc]
    simp only [Bool.false_eq_true, ↓reduceIte]
    rw [← hx]; simp


/-! ### plain characters -/

/-- everything the proofs need to know about a plain host character, as arithmetic on its code point -/
theorem plainChar_range {c : Char} (h : isPlainChar c = true) :
    (0x61 ≤ c.toNat ∧ c.toNat ≤ 0x7A) ∨ (0x30 ≤ c.toNat ∧ c.toNat ≤ 0x39) ∨ c.toNat = 0x2D ∨ c.toNat = 0x2E := by
  simp [isPlainChar, isLowerA, isDigit] at h; omega

theorem plain_notC0 {c : Char} (h : isPlainChar c = true) : isC0Space c = false := by
  have := plainChar_range h; simp [isC0Space]; omega
theorem plain_notAuthEnd {c : Char} (h : isPlainChar c = true) : isAuthEnd c = false := by
  have := plainChar_range h; simp [isAuthEnd, isNetlocEnd, isBackslash]; omega
theorem plain_notNetlocEnd {c : Char} (h : isPlainChar c = true) : isNetlocEnd c = false := by
  have := plainChar_range h; simp [isNetlocEnd]; omega
theorem plain_notSlashLike {c : Char} (h : isPlainChar c = true) : (isSlash c || isBackslash c) = false := by
  have := plainChar_range h; simp [isSlash, isBackslash]; omega
theorem plain_notAt {c : Char} (h : isPlainChar c = true) : isAt c = false := by
  have := plainChar_range h; simp [isAt]; omega
theorem plain_notColon {c : Char} (h : isPlainChar c = true) : isColon c = false := by
  have := plainChar_range h; simp [isColon]; omega
theorem plain_notExotic {c : Char} (h : isPlainChar c = true) : isExoticChar c = false := by
  have := plainChar_range h; simp [isExoticChar]; omega
theorem plain_notForbidden {c : Char} (h : isPlainChar c = true) : isForbiddenDomainCp c = false := by
  have := plainChar_range h; simp [isForbiddenDomainCp]; omega
theorem plain_lower {c : Char} (h : isPlainChar c = true) : lower c = c := by
  have := plainChar_range h
  have hu : isUpperA c = false := by simp [isUpperA]; omega
  simp [lower, hu]
theorem plain_notTabNl {c : Char} (h : isPlainChar c = true) : isTabNl c = false := by
  have := plainChar_range h; simp [isTabNl]; omega

/-! ### the browser's authority / host / port states on a plain host -/

theorem afterLastAt_none (v : Str) (h : ∀ c ∈ v, isAt c = false) : afterLastAt v = none := by
  induction v with
  | nil => rfl
  | cons c t ih =>
    simp [afterLastAt, ih (fun d hd => h d (by simp [hd])), h c (by simp)]

theorem splitHostPort_noColon (v : Str) (h : ∀ c ∈ v, isColon c = false) (b : Bool) : splitHostPort b v = (v, none) := by
  induction v generalizing b with
  | nil => cases b <;> rfl
  | cons c t ih =>
    have hc := h c (by simp)
    simp [splitHostPort, hc, ih (fun d hd => h d (by simp [hd]))]

theorem percentDecode_plain (v : Str) (h : ∀ c ∈ v, isPlainChar c = true) : percentDecode v = some v := by
  unfold percentDecode
  induction v with
  | nil => rfl
  | cons c t ih =>
    have hr := plainChar_range (h c (by simp))
    have hp : pctByte c t = none := by
      have : (c.toNat == 0x25) = false := by simp; omega
      simp [pctByte, this]
    simp [percentDecodeAux, hp, ih (fun d hd => h d (by simp [hd]))]

theorem map_lower_plain (v : Str) (h : ∀ c ∈ v, isPlainChar c = true) : v.map lower = v := by
  induction v with
  | nil => rfl
  | cons c t ih => simp [plain_lower (h c (by simp)), ih (fun d hd => h d (by simp [hd]))]

theorem plainHost_iff (v : Str) : plainHost v = true ↔
    v ≠ [] ∧ (∀ c ∈ v, isPlainChar c = true) ∧ endsInNumber v = false ∧ hasXnLabel v = false := by
  simp [plainHost, List.all_eq_true, and_assoc]

theorem hostParse_plain (v : Str) (hv : plainHost v = true) : hostParse v = .ok v := by
  obtain ⟨hne, hall, hnum, hxn⟩ := (plainHost_iff v).1 hv
  cases v with
  | nil => exact absurd rfl hne
  | cons c t =>
    have hr := plainChar_range (hall c (by simp))
    have h1 : (c.toNat == 0x5B) = false := by simp; omega
    have h2 : (c :: t).any (fun c => decide (c.toNat ≥ 0x80)) = false := by
      rw [List.any_eq_false]; intro d hd
      have := plainChar_range (hall d hd); simp; omega
    have h3 : ((c :: t).map lower).any isForbiddenDomainCp = false := by
      rw [map_lower_plain _ hall, List.any_eq_false]; intro d hd
      simp [plain_notForbidden (hall d hd)]
    unfold hostParse
    simp only [h1, h2, percentDecode_plain _ hall, hxn, map_lower_plain _ hall, hnum]
    rw [map_lower_plain _ hall] at h3
    simp [h3]

/-- what follows the host in the input: nothing, or a character that ends the authority -/
def EndsAuth (r : Str) : Prop := r = [] ∨ ∃ d t, r = d :: t ∧ isAuthEnd d = true

theorem authority_plain (sch v r : Str) (hv : plainHost v = true) (hr : EndsAuth r) :
    authority sch (v ++ r) = .host sch v none := by
  obtain ⟨hne, hall, _, _⟩ := (plainHost_iff v).1 hv
  have htw : (v ++ r).takeWhile (fun c => !isAuthEnd c) = v := by
    apply takeWhile_append_stop
    · intro c hc; simp [plain_notAuthEnd (hall c hc)]
    · rcases hr with rfl | ⟨d, t, rfl, hd⟩
      · exact Or.inl rfl
      · exact Or.inr ⟨d, t, rfl, by simp [hd]⟩
  have hat : afterLastAt v = none := afterLastAt_none v (fun c hc => plain_notAt (hall c hc))
  have hsp : splitHostPort false v = (v, none) := splitHostPort_noColon v (fun c hc => plain_notColon (hall c hc)) false
  unfold authority
  simp only [htw, hat, hsp, hostParse_plain v hv]
  simp

theorem ignoreSlashes_plain (sch v r : Str) (hv : plainHost v = true) (hr : EndsAuth r) :
    ignoreSlashes sch (v ++ r) = .host sch v none := by
  obtain ⟨hne, hall, _, _⟩ := (plainHost_iff v).1 hv
  unfold ignoreSlashes
  cases v with
  | nil => exact absurd rfl hne
  | cons c t =>
    have := plain_notSlashLike (hall c (by simp))
    rw [List.cons_append, List.dropWhile_cons, this]
    exact authority_plain sch (c :: t) r hv hr

/-! ### shape of the inputs CPython assigns a plain netloc to -/

theorem pySchemeSplit_cases (u : Str) :
    pySchemeSplit u = (none, u) ∨
    ∃ pre d r c t, u = pre ++ d :: r ∧ pre = c :: t ∧ isAlpha c = true ∧ (∀ x ∈ pre, isSchemeChar x = true) ∧
      isColon d = true ∧ pySchemeSplit u = (some (pre.map lower), r) := by
  cases u with
  | nil => left; rfl
  | cons c u' =>
    by_cases hcond : (((c :: u').takeWhile (fun c => !isColon c)).length < (c :: u').length && isAlpha c &&
        ((c :: u').takeWhile (fun c => !isColon c)).all isSchemeChar) = true
    · right
      have hsplit := List.takeWhile_append_dropWhile (p := fun c => !isColon c) (l := c :: u')
      simp only [Bool.and_eq_true, decide_eq_true_eq] at hcond
      obtain ⟨⟨hlen, halpha⟩, hall⟩ := hcond
      rcases dropWhile_cases (fun c => !isColon c) (c :: u') with hnil | ⟨d, r, hdr, hd⟩
      · rw [hnil, List.append_nil] at hsplit
        rw [hsplit] at hlen; omega
      · have hcc : isColon c = false := by
          simp [isAlpha, isLowerA, isUpperA] at halpha; simp [isColon]; omega
        refine ⟨(c :: u').takeWhile (fun c => !isColon c), d, r, c, u'.takeWhile (fun c => !isColon c), ?_, ?_, halpha, ?_, ?_, ?_⟩
        · rw [← hdr]; exact hsplit.symm
        · simp [List.takeWhile_cons, hcc]
        · simpa [List.all_eq_true] using hall
        · simpa using hd
        · have hdrop : (c :: u').drop (((c :: u').takeWhile (fun c => !isColon c)).length + 1) = r := by
            conv => lhs; arg 2; rw [← hsplit, hdr]
            rw [List.drop_append]
            simp
          unfold pySchemeSplit
          simp only [hlen, halpha, hall, decide_true, Bool.and_self, ↓reduceIte, hdrop]
    · left
      unfold pySchemeSplit
      simp only [hcond, Bool.false_eq_true, ↓reduceIte]

theorem pyNetlocOfRest_shape (r v : Str) (hne : v ≠ []) (h : pyNetlocOfRest r = .ok v) :
    ∃ c1 c2 rest, r = c1 :: c2 :: (v ++ rest) ∧ isSlash c1 = true ∧ isSlash c2 = true ∧
      (rest = [] ∨ ∃ d t, rest = d :: t ∧ isNetlocEnd d = true) := by
  unfold pyNetlocOfRest at h
  split at h
  next c1 c2 t =>
    by_cases hs : (isSlash c1 && isSlash c2) = true
    · simp only [hs, ↓reduceIte] at h
      split at h
      · exact absurd h (by simp)
      · have hv : t.takeWhile (fun c => !isNetlocEnd c) = v := by simpa using h
        simp only [Bool.and_eq_true] at hs
        refine ⟨c1, c2, t.dropWhile (fun c => !isNetlocEnd c), ?_, hs.1, hs.2, ?_⟩
        · rw [← hv, List.takeWhile_append_dropWhile]
        · rcases dropWhile_cases (fun c => !isNetlocEnd c) t with hnil | ⟨d, t', hdr, hd⟩
          · exact Or.inl hnil
          · exact Or.inr ⟨d, t', hdr, by simpa using hd⟩
    · simp only [hs, Bool.false_eq_true, ↓reduceIte] at h
      exact absurd (by simpa using h : ([] : Str) = v).symm hne
  next => exact absurd (by simpa using h : ([] : Str) = v).symm hne

theorem rstrip_tail (X v rest : Str) (hX : ∀ c ∈ X ++ v, isC0Space c = false)
    (hrest : rest = [] ∨ ∃ d t, rest = d :: t ∧ isNetlocEnd d = true) :
    ∃ rest', rstrip (X ++ (v ++ rest)) = X ++ (v ++ rest') ∧ EndsAuth rest' := by
  rcases hrest with rfl | ⟨d, t, rfl, hd⟩
  · refine ⟨[], ?_, Or.inl rfl⟩
    rw [List.append_nil, rstrip_id _ hX]
  · have hd0 : isC0Space d = false := by simp [isNetlocEnd] at hd; simp [isC0Space]; omega
    refine ⟨d :: rstrip t, ?_, Or.inr ⟨d, rstrip t, rfl, by simp [isAuthEnd, hd]⟩⟩
    rw [← List.append_assoc, rstrip_append_stop _ _ _ hd0, List.append_assoc]

theorem brScheme_of (pre : Str) (d : Char) (R : Str) (c : Char) (t : Str) (hpre : pre = c :: t) (ha : isAlpha c = true)
    (hall : ∀ x ∈ pre, isSchemeChar x = true) (hd : isColon d = true) :
    brScheme (pre ++ d :: R) = some (pre.map lower, R) := by
  have hdn : isSchemeChar d = false := by
    simp [isColon] at hd; simp [isSchemeChar, isAlpha, isLowerA, isUpperA, isDigit]; omega
  have htw : (pre ++ d :: R).takeWhile isSchemeChar = pre :=
    takeWhile_append_stop _ _ _ hall (Or.inr ⟨d, R, rfl, hdn⟩)
  subst hpre
  unfold brScheme
  simp only [List.cons_append, ha, ↓reduceIte]
  rw [← List.cons_append, htw]
  simp [hd]

theorem schemeChar_notC0 {c : Char} (h : isSchemeChar c = true) : isC0Space c = false := by
  simp [isSchemeChar, isAlpha, isLowerA, isUpperA, isDigit] at h; simp [isC0Space]; omega

/-- The central lemma: what the browser does with a string whose CPython netloc is a plain host `v`. -/
theorem dest_of_plain_netloc (base s v : Str) (hv : plainHost v = true) (hn : pyNetloc s = .ok v) :
    (pyScheme s = none ∧ browserDest base s = .host sHttps v none) ∨
    ∃ sch, pyScheme s = some sch ∧
      (((sch = sHttps ∨ sch = sHttp) ∧ browserDest base s = .host sch v none) ∨
       ((sch ≠ sHttps ∧ sch ≠ sHttp) ∧ browserDest base s = .blocked sch)) := by
  obtain ⟨hne, hall, _, _⟩ := (plainHost_iff v).1 hv
  have hv0 : ∀ c ∈ v, isC0Space c = false := fun c hc => plain_notC0 (hall c hc)
  unfold pyNetloc at hn
  unfold pyScheme browserDest
  rw [brPre_eq]
  unfold browserDestPre
  rcases pySchemeSplit_cases (pyPre s) with hnone | ⟨pre, d, r, c, t, hu, hpre, halpha, hsch, hd, hsome⟩
  · -- no scheme
    left
    rw [hnone] at hn ⊢
    refine ⟨rfl, ?_⟩
    have hn' : pyNetlocOfRest (pyPre s) = .ok v := hn
    obtain ⟨c1, c2, rest, hr, h1, h2, hrest⟩ := pyNetlocOfRest_shape _ v hne hn'
    have hX : ∀ x ∈ [c1, c2] ++ v, isC0Space x = false := by
      intro x hx
      simp only [List.mem_append, List.mem_cons, List.not_mem_nil, or_false] at hx
      rcases hx with (rfl | rfl) | hx
      · simp [isSlash] at h1; simp [isC0Space]; omega
      · simp [isSlash] at h2; simp [isC0Space]; omega
      · exact hv0 x hx
    obtain ⟨rest', hrs, hend⟩ := rstrip_tail [c1, c2] v rest hX hrest
    have hb : rstrip (pyPre s) = c1 :: c2 :: (v ++ rest') := by rw [hr]; simpa using hrs
    have hna : isAlpha c1 = false := by
      simp [isSlash] at h1; simp [isAlpha, isLowerA, isUpperA]; omega
    rw [hb]
    simp only [brScheme, hna, Bool.false_eq_true, ↓reduceIte, relative, isSlashLike, h1, h2, Bool.true_or]
    exact ignoreSlashes_plain _ v rest' hv hend
  · -- scheme `pre`
    right
    rw [hsome] at hn ⊢
    refine ⟨pre.map lower, rfl, ?_⟩
    have hn' : pyNetlocOfRest r = .ok v := hn
    obtain ⟨c1, c2, rest, hr, h1, h2, hrest⟩ := pyNetlocOfRest_shape _ v hne hn'
    have hX : ∀ x ∈ (pre ++ [d, c1, c2]) ++ v, isC0Space x = false := by
      intro x hx
      simp only [List.mem_append, List.mem_cons, List.not_mem_nil, or_false] at hx
      rcases hx with (hx | rfl | rfl | rfl) | hx
      · exact schemeChar_notC0 (hsch x hx)
      · simp [isColon] at hd; simp [isC0Space]; omega
      · simp [isSlash] at h1; simp [isC0Space]; omega
      · simp [isSlash] at h2; simp [isC0Space]; omega
      · exact hv0 x hx
    obtain ⟨rest', hrs, hend⟩ := rstrip_tail (pre ++ [d, c1, c2]) v rest hX hrest
    have hb : rstrip (pyPre s) = pre ++ d :: (c1 :: c2 :: (v ++ rest')) := by
      rw [hu, hr]; simpa using hrs
    rw [hb, brScheme_of pre d _ c t hpre halpha hsch hd]
    by_cases hs1 : pre.map lower = sHttps
    · left
      refine ⟨Or.inl hs1, ?_⟩
      simp only [hs1, ↓reduceIte, h1, h2, Bool.and_self]
      exact ignoreSlashes_plain _ v rest' hv hend
    · by_cases hs2 : pre.map lower = sHttp
      · left
        refine ⟨Or.inr hs2, ?_⟩
        have : sHttp ≠ sHttps := by decide
        simp only [hs2, this, ↓reduceIte, h1, h2, Bool.and_self]
        exact ignoreSlashes_plain _ v rest' hv hend
      · right
        exact ⟨⟨hs1, hs2⟩, by simp only [hs1, hs2, ↓reduceIte]⟩

/-! ### the deploy config's own netlocs -/

theorem pySchemeSplit_of (pre : Str) (d : Char) (R : Str) (c : Char) (t : Str) (hpre : pre = c :: t) (ha : isAlpha c = true)
    (hall : ∀ x ∈ pre, isSchemeChar x = true) (hd : isColon d = true) :
    pySchemeSplit (pre ++ d :: R) = (some (pre.map lower), R) := by
  have hnc : ∀ x ∈ pre, (!isColon x) = true := by
    intro x hx
    have := hall x hx
    simp [isSchemeChar, isAlpha, isLowerA, isUpperA, isDigit] at this; simp [isColon]; omega
  have htw : (pre ++ d :: R).takeWhile (fun c => !isColon c) = pre :=
    takeWhile_append_stop _ _ _ hnc (Or.inr ⟨d, R, rfl, by simp [hd]⟩)
  have hall' : pre.all isSchemeChar = true := by simpa [List.all_eq_true] using hall
  subst hpre
  have htw' : (c :: (t ++ d :: R)).takeWhile (fun c => !isColon c) = c :: t := by simpa using htw
  have hdrop : (t ++ d :: R).drop (t.length + 1) = R := by
    rw [show t.length + 1 = t.length + 1 from rfl, ← List.drop_drop]; simp
  unfold pySchemeSplit
  simp only [List.cons_append, htw', ha, hall']
  simp [hdrop]

theorem pyNetloc_https (h tail : Str) (hall : ∀ c ∈ h, isPlainChar c = true)
    (ht : ∃ d t, tail = d :: t ∧ isSlash d = true) :
    pyNetloc (httpsPrefix ++ (h ++ tail)) = .ok h := by
  obtain ⟨d, t, rfl, hd⟩ := ht
  have hdt : isTabNl d = false := by simp [isSlash] at hd; simp [isTabNl]; omega
  have hpre : pyPre (httpsPrefix ++ (h ++ d :: t)) =
      sHttps ++ ':' :: ('/' :: '/' :: (h ++ d :: t.filter (fun c => !isTabNl c))) := by
    unfold pyPre
    have h0 : (httpsPrefix ++ (h ++ d :: t)).dropWhile isC0Space = httpsPrefix ++ (h ++ d :: t) := by
      simp only [httpsPrefix, List.cons_append]
      rw [List.dropWhile_cons]
      have : isC0Space 'h' = false := by decide
      simp [this]
    rw [h0, List.filter_append, List.filter_append]
    have h1 : httpsPrefix.filter (fun c => !isTabNl c) = httpsPrefix := by decide
    have h2 : h.filter (fun c => !isTabNl c) = h :=
      List.filter_eq_self.2 (fun c hc => by simp [plain_notTabNl (hall c hc)])
    rw [h1, h2, List.filter_cons]
    simp [hdt, httpsPrefix, sHttps]
  unfold pyNetloc
  rw [hpre, pySchemeSplit_of sHttps ':' _ 'h' ['t', 't', 'p', 's'] rfl (by decide) (by decide) (by decide)]
  have htw : (h ++ d :: t.filter (fun c => !isTabNl c)).takeWhile (fun c => !isNetlocEnd c) = h := by
    apply takeWhile_append_stop
    · intro c hc; simp [plain_notNetlocEnd (hall c hc)]
    · exact Or.inr ⟨d, _, rfl, by simp [isSlash] at hd; simp [isNetlocEnd, hd]⟩
  have hex : h.any isExoticChar = false := by
    rw [List.any_eq_false]; intro c hc; simp [plain_notExotic (hall c hc)]
  have hs : isSlash '/' = true := by decide
  simp only [pyNetlocOfRest, hs, Bool.and_self, ↓reduceIte, htw, hex, Bool.false_eq_true]

theorem validNextDomains_plain (cfg : DeployCfg) (hcfg : plainCfg cfg = true) :
    validNextDomains cfg = (hailHosts cfg).map .ok := by
  unfold plainCfg at hcfg
  simp only [Bool.and_eq_true, List.all_eq_true] at hcfg
  obtain ⟨hhosts, hbp⟩ := hcfg
  have hplain : ∀ h ∈ hailHosts cfg, ∀ c ∈ h, isPlainChar c = true :=
    fun h hh => ((plainHost_iff h).1 (hhosts h hh)).2.1
  unfold validNextDomains
  cases hb : cfg.basePath with
  | none =>
    simp only [hailHosts, hb] at hplain ⊢
    simp only [validNextServices, List.map_cons, List.map_nil, List.mem_cons, List.not_mem_nil, or_false] at hplain ⊢
    have key : ∀ s : Str, s ≠ ['w', 'w', 'w'] → (∀ c ∈ s ++ ['.'] ++ cfg.domain, isPlainChar c = true) →
        pyNetloc (externalUrl cfg s ['/']) = .ok (s ++ ['.'] ++ cfg.domain) := by
      intro s hs hp
      have : externalUrl cfg s ['/'] = httpsPrefix ++ ((s ++ ['.'] ++ cfg.domain) ++ ['/']) := by
        simp [externalUrl, hb, hs]
      rw [this]
      exact pyNetloc_https _ _ hp ⟨'/', [], rfl, by decide⟩
    rw [key _ (by decide) (hplain _ (Or.inl rfl)), key _ (by decide) (hplain _ (Or.inr (Or.inl rfl))),
      key _ (by decide) (hplain _ (Or.inr (Or.inr (Or.inl rfl)))),
      key _ (by decide) (hplain _ (Or.inr (Or.inr (Or.inr rfl))))]
  | some bp =>
    simp only [hailHosts, hb] at hplain ⊢
    simp only [validNextServices, List.map_cons, List.map_nil, List.mem_cons, List.not_mem_nil, or_false] at hplain ⊢
    have hd : ∀ c ∈ cfg.domain, isPlainChar c = true := hplain _ (Or.inl rfl)
    have key : ∀ s : Str, pyNetloc (externalUrl cfg s ['/']) = .ok cfg.domain := by
      intro s
      have : externalUrl cfg s ['/'] = httpsPrefix ++ (cfg.domain ++ (bp ++ ['/'] ++ s ++ ['/'])) := by
        simp [externalUrl, hb]
      rw [this]
      apply pyNetloc_https _ _ hd
      rw [hb] at hbp
      cases bp with
      | nil => exact ⟨'/', _, rfl, by decide⟩
      | cons c t => exact ⟨c, _, rfl, by simpa using hbp⟩
    simp only [key]

end HailVerif.NextUrl

import HailVerif.Proofs.BatchDBBasic
/-!
Shape lemmas: how every transaction changes the `groups`, `cancelled` and `jobs` tables.
* groups are only appended or updated in place, keeping (batch, id, ancestors, update);
* `job_groups_cancelled` only grows;
* jobs are only appended or updated in place, keeping the immutable columns, and `cancelled` never reverts.
-/
namespace HailVerif.BatchDB

/-- in-place update of group rows that keeps their identity -/
def GroupFrame (F : Group → Group) : Prop :=
  ∀ x, (F x).batch = x.batch ∧ (F x).id = x.id ∧ (F x).ancestors = x.ancestors ∧ (F x).update = x.update

/-- in-place update of job rows that keeps the immutable columns; `cancelled` never reverts -/
def JobFrame (F : Job → Job) : Prop :=
  ∀ x, (F x).batch = x.batch ∧ (F x).id = x.id ∧ (F x).update = x.update ∧ (F x).group = x.group ∧
    (F x).alwaysRun = x.alwaysRun ∧ (F x).cores = x.cores ∧ (F x).ic = x.ic ∧ (x.cancelled = true → (F x).cancelled = true)

theorem GroupFrame.id : GroupFrame id := fun _ => ⟨rfl, rfl, rfl, rfl⟩
theorem JobFrame.id : JobFrame id := fun _ => ⟨rfl, rfl, rfl, rfl, rfl, rfl, rfl, fun h => h⟩

theorem GroupFrame.comp {F G : Group → Group} (hF : GroupFrame F) (hG : GroupFrame G) : GroupFrame (G ∘ F) := by
  intro x
  obtain ⟨a, b, c, d⟩ := hF x
  obtain ⟨a', b', c', d'⟩ := hG (F x)
  exact ⟨a'.trans a, b'.trans b, c'.trans c, d'.trans d⟩

theorem JobFrame.comp {F G : Job → Job} (hF : JobFrame F) (hG : JobFrame G) : JobFrame (G ∘ F) := by
  intro x
  obtain ⟨a, b, c, d, e, f, g, h⟩ := hF x
  obtain ⟨a', b', c', d', e', f', g', h'⟩ := hG (F x)
  exact ⟨a'.trans a, b'.trans b, c'.trans c, d'.trans d, e'.trans e, f'.trans f, g'.trans g, fun hx => h' (h hx)⟩

theorem GroupFrame.ite (p : Group → Prop) [DecidablePred p] {F : Group → Group} (hF : GroupFrame F) :
    GroupFrame (fun x => if p x then F x else x) := by
  intro x; by_cases h : p x <;> simp [h, hF x]

theorem JobFrame.ite (p : Job → Bool) {F : Job → Job} (hF : JobFrame F) :
    JobFrame (fun x => if p x then F x else x) := by
  intro x; by_cases h : p x <;> simp [h]
  exact hF x

def jobKey (x : Job) : Nat × Nat := (x.batch, x.id)

/-- (batch_id, job_id) is a key of `jobs` -/
def JobsUnique (s : State) : Prop := (s.jobs.map jobKey).Nodup

theorem jobKey_frame {F : Job → Job} (hF : JobFrame F) (l : List Job) : (l.map F).map jobKey = l.map jobKey := by
  simp only [List.map_map]
  apply List.map_congr_left
  intro x _
  simp [jobKey, (hF x).1, (hF x).2.1]

theorem jobsUnique_of_map {s s' : State} {F : Job → Job} (hF : JobFrame F) (e : s'.jobs = s.jobs.map F)
    (h : JobsUnique s) : JobsUnique s' := by
  unfold JobsUnique at *; rw [e, jobKey_frame hF]; exact h

theorem JobsUnique.of_jobs_eq {s s' : State} (e : s'.jobs = s.jobs) (h : JobsUnique s) : JobsUnique s' := by
  unfold JobsUnique at *; rw [e]; exact h

theorem jobsUnique_append (s : State) (b : Nat) (js : List Job) (hb : ∀ x ∈ js, x.batch = b)
    (hfresh : ∀ x ∈ js, findJob s b x.id = none) (hnd : (js.map (·.id)).Nodup) (h : JobsUnique s) :
    ((s.jobs ++ js).map jobKey).Nodup := by
  unfold JobsUnique at h
  rw [List.map_append, List.nodup_append]
  refine ⟨h, ?_, ?_⟩
  · -- the new keys are pairwise distinct: same batch, distinct ids
    have : js.map jobKey = (js.map (·.id)).map (fun i => (b, i)) := by
      rw [List.map_map]; apply List.map_congr_left; intro x hx; simp [jobKey, hb x hx]
    rw [this]
    exact List.Pairwise.map _ (fun i j hij h => hij (by simpa using h)) hnd
  · intro k hk1 k' hk2 hkk
    subst hkk
    rw [List.mem_map] at hk1 hk2
    obtain ⟨y, hy, rfl⟩ := hk1
    obtain ⟨x, hx, hxe⟩ := hk2
    have hnone := hfresh x hx
    unfold findJob at hnone
    rw [List.find?_eq_none] at hnone
    have := hnone y hy
    simp only [jobKey, Prod.mk.injEq] at hxe
    apply this
    simp [← hxe.1, ← hxe.2, hb x hx]

/-- what a transaction may do to the three tables -/
structure Shape (s s' : State) : Prop where
  groups : ∃ F new, GroupFrame F ∧ s'.groups = s.groups.map F ++ new ∧ ∀ n ∈ new, n.id ∈ n.ancestors
  cancelled : ∃ new, s'.cancelled = s.cancelled ++ new
  jobs : ∃ F new, JobFrame F ∧ s'.jobs = s.jobs.map F ++ new
  unique : JobsUnique s → JobsUnique s'

theorem Shape.refl (s : State) : Shape s s :=
  ⟨⟨id, [], GroupFrame.id, by simp, by simp⟩, ⟨[], by simp⟩, ⟨id, [], JobFrame.id, by simp⟩, fun h => h⟩

theorem Shape.trans {a b c : State} (h1 : Shape a b) (h2 : Shape b c) : Shape a c := by
  obtain ⟨⟨F1, n1, hF1, e1, hn1⟩, ⟨c1, ec1⟩, ⟨J1, m1, hJ1, j1⟩, u1⟩ := h1
  obtain ⟨⟨F2, n2, hF2, e2, hn2⟩, ⟨c2, ec2⟩, ⟨J2, m2, hJ2, j2⟩, u2⟩ := h2
  refine ⟨⟨F2 ∘ F1, n1.map F2 ++ n2, hF1.comp hF2, ?_, ?_⟩, ⟨c1 ++ c2, ?_⟩, ⟨J2 ∘ J1, m1.map J2 ++ m2, hJ1.comp hJ2, ?_⟩,
    fun h => u2 (u1 h)⟩
  · rw [e2, e1]; simp [List.map_append, List.map_map]
  · intro n hn
    rcases List.mem_append.mp hn with h | h
    · rw [List.mem_map] at h
      obtain ⟨m, hm, rfl⟩ := h
      rw [(hF2 m).2.1, (hF2 m).2.2.1]; exact hn1 m hm
    · exact hn2 n h
  · rw [ec2, ec1]; simp
  · rw [j2, j1]; simp [List.map_append, List.map_map]

/-- a state that differs from `s` in none of the three tables -/
theorem Shape.of_eq {s s' : State} (hg : s'.groups = s.groups) (hc : s'.cancelled = s.cancelled) (hj : s'.jobs = s.jobs) :
    Shape s s' :=
  ⟨⟨id, [], GroupFrame.id, by simp [hg], by simp⟩, ⟨[], by simp [hc]⟩, ⟨id, [], JobFrame.id, by simp [hj]⟩, JobsUnique.of_jobs_eq hj⟩

theorem shape_updateJobs (s : State) (p : Job → Bool) (f : Job → Job) (hf : JobFrame f) :
    Shape s (updateJobs s p f) :=
  ⟨⟨id, [], GroupFrame.id, by simp, by simp⟩, ⟨[], by simp⟩,
   ⟨fun j => if p j then f j else j, [], JobFrame.ite p hf, by simp [updateJobs_jobs]⟩,
   jobsUnique_of_map (JobFrame.ite p hf) (updateJobs_jobs s p f)⟩

theorem shape_updateAttempts (s : State) (d : Nat) (p : Attempt → Bool)
    (f : Generated.AttemptsTrigger.Row → Generated.AttemptsTrigger.Row) : Shape s (updateAttempts s d p f) :=
  Shape.of_eq rfl rfl rfl

@[simp] theorem addAttempt_jobs (s : State) (b j : Nat) (a i : Option Nat) (c : Int) : (addAttempt s b j a i c).1.jobs = s.jobs := by
  unfold addAttempt; repeat' split
  all_goals rfl
@[simp] theorem addAttempt_groups (s : State) (b j : Nat) (a i : Option Nat) (c : Int) : (addAttempt s b j a i c).1.groups = s.groups := by
  unfold addAttempt; repeat' split
  all_goals rfl
@[simp] theorem addAttempt_cancelled (s : State) (b j : Nat) (a i : Option Nat) (c : Int) : (addAttempt s b j a i c).1.cancelled = s.cancelled := by
  unfold addAttempt; repeat' split
  all_goals rfl
@[simp] theorem addAttempt_batches (s : State) (b j : Nat) (a i : Option Nat) (c : Int) : (addAttempt s b j a i c).1.batches = s.batches := by
  unfold addAttempt; repeat' split
  all_goals rfl
@[simp] theorem addAttempt_updates (s : State) (b j : Nat) (a i : Option Nat) (c : Int) : (addAttempt s b j a i c).1.updates = s.updates := by
  unfold addAttempt; repeat' split
  all_goals rfl
@[simp] theorem addAttempt_parents (s : State) (b j : Nat) (a i : Option Nat) (c : Int) : (addAttempt s b j a i c).1.parents = s.parents := by
  unfold addAttempt; repeat' split
  all_goals rfl
@[simp] theorem addAttempt_ctr (s : State) (b j : Nat) (a i : Option Nat) (c : Int) : (addAttempt s b j a i c).1.ctr = s.ctr := by
  unfold addAttempt; repeat' split
  all_goals rfl

theorem shape_addAttempt (s : State) (b j : Nat) (a i : Option Nat) (c : Int) : Shape s (addAttempt s b j a i c).1 :=
  Shape.of_eq (by simp) (by simp) (by simp)

theorem shape_freeAdd (s : State) (i : Option Nat) (d : Int) : Shape s (freeAdd s i d) := Shape.of_eq rfl rfl rfl

end HailVerif.BatchDB

import HailVerif.Proofs.BatchDBBasic
/-!
Shape lemmas: how every transaction changes the `groups`, `cancelled` and `jobs` tables.
* groups are only appended or updated in place, keeping (batch, id, ancestors, update);
* `job_groups_cancelled` only grows;
* jobs are only appended or updated in place, keeping the immutable columns, and `cancelled` never reverts.
-/
namespace HailVerif.BatchDB

/-- in-place update of group rows that keeps their identity -/
def GroupFrame (F : Group → Group) : Prop :=
  ∀ x, (F x).batch = x.batch ∧ (F x).id = x.id ∧ (F x).ancestors = x.ancestors ∧ (F x).update = x.update

/-- in-place update of job rows that keeps the immutable columns; `cancelled` never reverts -/
def JobFrame (F : Job → Job) : Prop :=
  ∀ x, (F x).batch = x.batch ∧ (F x).id = x.id ∧ (F x).update = x.update ∧ (F x).group = x.group ∧
    (F x).alwaysRun = x.alwaysRun ∧ (F x).cores = x.cores ∧ (F x).ic = x.ic ∧ (x.cancelled = true → (F x).cancelled = true)

theorem GroupFrame.id : GroupFrame id := fun _ => ⟨rfl, rfl, rfl, rfl⟩
theorem JobFrame.id : JobFrame id := fun _ => ⟨rfl, rfl, rfl, rfl, rfl, rfl, rfl, fun h => h⟩

theorem GroupFrame.comp {F G : Group → Group} (hF : GroupFrame F) (hG : GroupFrame G) : GroupFrame (G ∘ F) := by
  intro x
  obtain ⟨a, b, c, d⟩ := hF x
  obtain ⟨a', b', c', d'⟩ := hG (F x)
  exact ⟨a'.trans a, b'.trans b, c'.trans c, d'.trans d⟩

theorem JobFrame.comp {F G : Job → Job} (hF : JobFrame F) (hG : JobFrame G) : JobFrame (G ∘ F) := by
  intro x
  obtain ⟨a, b, c, d, e, f, g, h⟩ := hF x
  obtain ⟨a', b', c', d', e', f', g', h'⟩ := hG (F x)
  exact ⟨a'.trans a, b'.trans b, c'.trans c, d'.trans d, e'.trans e, f'.trans f, g'.trans g, fun hx => h' (h hx)⟩

theorem GroupFrame.ite (p : Group → Prop) [DecidablePred p] {F : Group → Group} (hF : GroupFrame F) :
    GroupFrame (fun x => if p x then F x else x) := by
  intro x; by_cases h : p x <;> simp [h, hF x]

theorem JobFrame.ite (p : Job → Bool) {F : Job → Job} (hF : JobFrame F) :
    JobFrame (fun x => if p x then F x else x) := by
  intro x; by_cases h : p x <;> simp [h]
  exact hF x

/-- what a transaction may do to the three tables -/
structure Shape (s s' : State) : Prop where
  groups : ∃ F new, GroupFrame F ∧ s'.groups = s.groups.map F ++ new
  cancelled : ∃ new, s'.cancelled = s.cancelled ++ new
  jobs : ∃ F new, JobFrame F ∧ s'.jobs = s.jobs.map F ++ new

theorem Shape.refl (s : State) : Shape s s :=
  ⟨⟨id, [], GroupFrame.id, by simp⟩, ⟨[], by simp⟩, ⟨id, [], JobFrame.id, by simp⟩⟩

theorem Shape.trans {a b c : State} (h1 : Shape a b) (h2 : Shape b c) : Shape a c := by
  obtain ⟨⟨F1, n1, hF1, e1⟩, ⟨c1, ec1⟩, ⟨J1, m1, hJ1, j1⟩⟩ := h1
  obtain ⟨⟨F2, n2, hF2, e2⟩, ⟨c2, ec2⟩, ⟨J2, m2, hJ2, j2⟩⟩ := h2
  refine ⟨⟨F2 ∘ F1, n1.map F2 ++ n2, hF1.comp hF2, ?_⟩, ⟨c1 ++ c2, ?_⟩, ⟨J2 ∘ J1, m1.map J2 ++ m2, hJ1.comp hJ2, ?_⟩⟩
  · rw [e2, e1]; simp [List.map_append, List.map_map]
  · rw [ec2, ec1]; simp
  · rw [j2, j1]; simp [List.map_append, List.map_map]

/-- a state that differs from `s` in none of the three tables -/
theorem Shape.of_eq {s s' : State} (hg : s'.groups = s.groups) (hc : s'.cancelled = s.cancelled) (hj : s'.jobs = s.jobs) :
    Shape s s' :=
  ⟨⟨id, [], GroupFrame.id, by simp [hg]⟩, ⟨[], by simp [hc]⟩, ⟨id, [], JobFrame.id, by simp [hj]⟩⟩

theorem shape_updateJobs (s : State) (p : Job → Bool) (f : Job → Job) (hf : JobFrame f) :
    Shape s (updateJobs s p f) :=
  ⟨⟨id, [], GroupFrame.id, by simp⟩, ⟨[], by simp⟩,
   ⟨fun j => if p j then f j else j, [], JobFrame.ite p hf, by simp [updateJobs_jobs]⟩⟩

theorem shape_updateAttempts (s : State) (d : Nat) (p : Attempt → Bool)
    (f : Generated.AttemptsTrigger.Row → Generated.AttemptsTrigger.Row) : Shape s (updateAttempts s d p f) :=
  Shape.of_eq rfl rfl rfl

@[simp] theorem addAttempt_jobs (s : State) (b j : Nat) (a i : Option Nat) (c : Int) : (addAttempt s b j a i c).1.jobs = s.jobs := by
  unfold addAttempt; repeat' split
  all_goals rfl
@[simp] theorem addAttempt_groups (s : State) (b j : Nat) (a i : Option Nat) (c : Int) : (addAttempt s b j a i c).1.groups = s.groups := by
  unfold addAttempt; repeat' split
  all_goals rfl
@[simp] theorem addAttempt_cancelled (s : State) (b j : Nat) (a i : Option Nat) (c : Int) : (addAttempt s b j a i c).1.cancelled = s.cancelled := by
  unfold addAttempt; repeat' split
  all_goals rfl
@[simp] theorem addAttempt_batches (s : State) (b j : Nat) (a i : Option Nat) (c : Int) : (addAttempt s b j a i c).1.batches = s.batches := by
  unfold addAttempt; repeat' split
  all_goals rfl
@[simp] theorem addAttempt_updates (s : State) (b j : Nat) (a i : Option Nat) (c : Int) : (addAttempt s b j a i c).1.updates = s.updates := by
  unfold addAttempt; repeat' split
  all_goals rfl
@[simp] theorem addAttempt_parents (s : State) (b j : Nat) (a i : Option Nat) (c : Int) : (addAttempt s b j a i c).1.parents = s.parents := by
  unfold addAttempt; repeat' split
  all_goals rfl
@[simp] theorem addAttempt_ctr (s : State) (b j : Nat) (a i : Option Nat) (c : Int) : (addAttempt s b j a i c).1.ctr = s.ctr := by
  unfold addAttempt; repeat' split
  all_goals rfl

theorem shape_addAttempt (s : State) (b j : Nat) (a i : Option Nat) (c : Int) : Shape s (addAttempt s b j a i c).1 :=
  Shape.of_eq (by simp) (by simp) (by simp)

theorem shape_freeAdd (s : State) (i : Option Nat) (d : Int) : Shape s (freeAdd s i d) := Shape.of_eq rfl rfl rfl

end HailVerif.BatchDB

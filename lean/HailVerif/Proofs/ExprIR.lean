import HailVerif.Model.ExprIR
/-!
# Lemmas about the expression IR model (C35): coincidence, substitution, inlining of `__cse` bindings, scope checker
-/
namespace HailVerif.ExprIR

/-! ## environments -/

theorem lookup_cons (y : Name) (w : Val) (ρ : Env) (z : Name) :
    lookup ((y, w) :: ρ) z = if y = z then w else lookup ρ z := rfl

/-- keys of an environment prefix -/
def keys (bs : Env) : List Name := bs.map (·.1)

theorem lookup_append_of_not_mem (bs ρ : Env) (z : Name) (h : z ∉ keys bs) : lookup (bs ++ ρ) z = lookup ρ z := by
  induction bs with
  | nil => rfl
  | cons p bs ih =>
    obtain ⟨y, w⟩ := p
    simp only [keys, List.map_cons, List.mem_cons, not_or] at h
    simp only [List.cons_append, lookup_cons]
    rw [if_neg (fun e => h.1 e.symm)]
    exact ih h.2

theorem lookup_append_congr (bs ρ ρ' : Env) (z : Name) (h : z ∉ keys bs → lookup ρ z = lookup ρ' z) :
    lookup (bs ++ ρ) z = lookup (bs ++ ρ') z := by
  induction bs with
  | nil => exact h (by simp [keys])
  | cons p bs ih =>
    obtain ⟨y, w⟩ := p
    simp only [List.cons_append, lookup_cons]
    split
    · rfl
    · rename_i hne
      apply ih
      intro hz
      apply h
      simp only [keys, List.map_cons, List.mem_cons, not_or]
      exact ⟨fun e => hne e.symm, hz⟩

theorem mem_remove {x y : Name} {l : List Name} : y ∈ remove x l ↔ y ∈ l ∧ y ≠ x := by
  simp [remove]

/-! ## coincidence: the value of an aggregation-free expression depends only on its free variables -/

theorem eval_congr (A : List Env) (t : IR) :
    ∀ (ρ ρ' : Env), aggFree t = true → (∀ y ∈ fv t, lookup ρ y = lookup ρ' y) → eval ρ A t = eval ρ' A t := by
  induction t
  case ref x => intro ρ ρ' _ h; simpa [eval] using h x (by simp [fv])
  case i32 | i64 | f32 | f64 | str | bool | na | anil | snil | tnil => intros; simp [eval]
  case cast | ascribe | isNA | un | arrayLen | toArray | toStream | getField | getTupleElement | toSet | toDict =>
    rename_i ih
    intro ρ ρ' ha h
    simp only [eval]
    rw [ih ρ ρ' (by simpa [aggFree] using ha) (by simpa [fv] using h)]
  case bin | cmp | acons | arrayRef | scons | insertField | tcons | dictGet =>
    rename_i iha ihb
    intro ρ ρ' ha h
    simp only [aggFree, Bool.and_eq_true] at ha
    simp only [fv, List.mem_append] at h
    simp only [eval]
    have e1 := iha ρ ρ' ha.1 (fun y hy => h y (Or.inl hy))
    have e2 := ihb ρ ρ' ha.2 (fun y hy => h y (Or.inr hy))
    simp only [e1, e2]
  case ite iha ihb ihc =>
    intro ρ ρ' ha h
    simp only [aggFree, Bool.and_eq_true] at ha
    simp only [fv, List.mem_append] at h
    simp only [eval]
    rw [iha ρ ρ' ha.1.1 (fun y hy => h y (Or.inl (Or.inl hy))), ihb ρ ρ' ha.1.2 (fun y hy => h y (Or.inl (Or.inr hy))),
      ihc ρ ρ' ha.2 (fun y hy => h y (Or.inr hy))]
  case let_ x v b ihv ihb =>
    intro ρ ρ' ha h
    simp only [aggFree, Bool.and_eq_true] at ha
    simp only [fv, List.mem_append, mem_remove] at h
    simp only [eval]
    rw [ihv ρ ρ' ha.1 (fun y hy => h y (Or.inl hy))]
    apply ihb _ _ ha.2
    intro y hy
    simp only [lookup_cons]
    split
    · rfl
    · rename_i hne; exact h y (Or.inr ⟨hy, fun e => hne e.symm⟩)
  case streamMap x a b iha ihb =>
    intro ρ ρ' ha h
    simp only [aggFree, Bool.and_eq_true] at ha
    simp only [fv, List.mem_append, mem_remove] at h
    simp only [eval]
    rw [iha ρ ρ' ha.1 (fun y hy => h y (Or.inl hy))]
    have hb : ∀ w, eval ((x, w) :: ρ) A b = eval ((x, w) :: ρ') A b := by
      intro w
      apply ihb _ _ ha.2
      intro y hy
      simp only [lookup_cons]
      split
      · rfl
      · rename_i hne; exact h y (Or.inr ⟨hy, fun e => hne e.symm⟩)
    simp only [hb]
  case streamFilter x a b iha ihb =>
    intro ρ ρ' ha h
    simp only [aggFree, Bool.and_eq_true] at ha
    simp only [fv, List.mem_append, mem_remove] at h
    simp only [eval]
    rw [iha ρ ρ' ha.1 (fun y hy => h y (Or.inl hy))]
    have hb : ∀ w, eval ((x, w) :: ρ) A b = eval ((x, w) :: ρ') A b := by
      intro w
      apply ihb _ _ ha.2
      intro y hy
      simp only [lookup_cons]
      split
      · rfl
      · rename_i hne; exact h y (Or.inr ⟨hy, fun e => hne e.symm⟩)
    simp only [hb]
  case streamFold acc v a z b iha ihz ihb =>
    intro ρ ρ' ha h
    simp only [aggFree, Bool.and_eq_true] at ha
    simp only [fv, List.mem_append, mem_remove] at h
    simp only [eval]
    rw [iha ρ ρ' ha.1.1 (fun y hy => h y (Or.inl (Or.inl hy))), ihz ρ ρ' ha.1.2 (fun y hy => h y (Or.inl (Or.inr hy)))]
    have hb : ∀ s w, eval ((v, w) :: (acc, s) :: ρ) A b = eval ((v, w) :: (acc, s) :: ρ') A b := by
      intro s w
      apply ihb _ _ ha.2
      intro y hy
      simp only [lookup_cons]
      split
      · rfl
      · split
        · rfl
        · rename_i hne1 hne2
          exact h y (Or.inr ⟨⟨hy, fun e => hne1 e.symm⟩, fun e => hne2 e.symm⟩)
    simp only [hb]
  case streamScan acc v a z b iha ihz ihb =>
    intro ρ ρ' ha h
    simp only [aggFree, Bool.and_eq_true] at ha
    simp only [fv, List.mem_append, mem_remove] at h
    simp only [eval]
    rw [iha ρ ρ' ha.1.1 (fun y hy => h y (Or.inl (Or.inl hy))), ihz ρ ρ' ha.1.2 (fun y hy => h y (Or.inl (Or.inr hy)))]
    have hb : ∀ s w, eval ((v, w) :: (acc, s) :: ρ) A b = eval ((v, w) :: (acc, s) :: ρ') A b := by
      intro s w
      apply ihb _ _ ha.2
      intro y hy
      simp only [lookup_cons]
      split
      · rfl
      · split
        · rfl
        · rename_i hne1 hne2
          exact h y (Or.inr ⟨⟨hy, fun e => hne1 e.symm⟩, fun e => hne2 e.symm⟩)
    simp only [hb]
  case streamAgg | aggLet | aggFilter | agg => intro _ _ ha; simp [aggFree] at ha

/-! ## substitution -/

theorem subst_of_not_free (x : Name) (v : IR) (t : IR) : x ∉ fv t → subst x v t = t := by
  induction t
  case ref y => intro h; simp [fv] at h; simp [subst, Ne.symm h]
  case i32 | i64 | f32 | f64 | str | bool | na | anil | snil | tnil => intros; simp [subst]
  case streamAgg | aggLet | aggFilter | agg => intros; simp [subst]
  case cast | ascribe | isNA | un | arrayLen | toArray | toStream | getField | getTupleElement | toSet | toDict =>
    rename_i ih; intro h; simp only [fv] at h; simp [subst, ih h]
  case bin | cmp | acons | arrayRef | scons | insertField | tcons | dictGet =>
    rename_i iha ihb; intro h; simp only [fv, List.mem_append, not_or] at h; simp [subst, iha h.1, ihb h.2]
  case ite iha ihb ihc =>
    intro h; simp only [fv, List.mem_append, not_or] at h; simp [subst, iha h.1.1, ihb h.1.2, ihc h.2]
  case let_ y e b ihe ihb =>
    intro h; simp only [fv, List.mem_append, mem_remove, not_or, not_and, Decidable.not_not] at h
    simp only [subst, ihe h.1]
    by_cases hyx : y = x
    · simp [hyx]
    · have : x ∉ fv b := fun hm => hyx (h.2 hm).symm
      simp [hyx, ihb this]
  case streamMap y e b ihe ihb =>
    intro h; simp only [fv, List.mem_append, mem_remove, not_or, not_and, Decidable.not_not] at h
    simp only [subst, ihe h.1]
    by_cases hyx : y = x
    · simp [hyx]
    · have : x ∉ fv b := fun hm => hyx (h.2 hm).symm
      simp [hyx, ihb this]
  case streamFilter y e b ihe ihb =>
    intro h; simp only [fv, List.mem_append, mem_remove, not_or, not_and, Decidable.not_not] at h
    simp only [subst, ihe h.1]
    by_cases hyx : y = x
    · simp [hyx]
    · have : x ∉ fv b := fun hm => hyx (h.2 hm).symm
      simp [hyx, ihb this]
  case streamFold acc w a z b iha ihz ihb =>
    intro h; simp only [fv, List.mem_append, mem_remove, not_or, not_and, Decidable.not_not] at h
    simp only [subst, iha h.1.1, ihz h.1.2]
    by_cases hyx : acc = x ∨ w = x
    · simp [hyx]
    · have : x ∉ fv b := by
        intro hm
        rcases Decidable.not_or_of_imp (fun e : x = w => e) with h1 | h1
        · have := h.2 ⟨hm, h1⟩; exact hyx (Or.inl this.symm)
        · exact hyx (Or.inr h1.symm)
      simp [hyx, ihb this]
  case streamScan acc w a z b iha ihz ihb =>
    intro h; simp only [fv, List.mem_append, mem_remove, not_or, not_and, Decidable.not_not] at h
    simp only [subst, iha h.1.1, ihz h.1.2]
    by_cases hyx : acc = x ∨ w = x
    · simp [hyx]
    · have : x ∉ fv b := by
        intro hm
        rcases Decidable.not_or_of_imp (fun e : x = w => e) with h1 | h1
        · have := h.2 ⟨hm, h1⟩; exact hyx (Or.inl this.symm)
        · exact hyx (Or.inr h1.symm)
      simp [hyx, ihb this]

/-- core of the substitution lemma under a prefix `bs` of binders (the lambda parameters of a stream node, or the variable of
a `Let`): if none of them is free in `v`, the body can be evaluated with `x` bound to the value `v` had outside -/
theorem eval_under_binders (A : List Env) (x : Name) (v b : IR) (bs ρ : Env)
    (hav : aggFree v = true) (hab : aggFree b = true)
    (hc : x ∈ keys bs ∨ x ∉ fv b ∨
      ((∀ y ∈ keys bs, y ∉ fv v) ∧ ∀ ρ1, eval ((x, eval ρ1 A v) :: ρ1) A b = eval ρ1 A (subst x v b))) :
    eval (bs ++ (x, eval ρ A v) :: ρ) A b = eval (bs ++ ρ) A (if x ∈ keys bs then b else subst x v b) := by
  by_cases hx : x ∈ keys bs
  · rw [if_pos hx]
    apply eval_congr A b _ _ hab
    intro z _
    apply lookup_append_congr
    intro hz
    have : x ≠ z := fun e => hz (e ▸ hx)
    simp [lookup_cons, this]
  · rw [if_neg hx]
    rcases hc with hc | hc | hc
    · exact absurd hc hx
    · rw [subst_of_not_free x v b hc]
      apply eval_congr A b _ _ hab
      intro z hz
      apply lookup_append_congr
      intro _
      have : x ≠ z := fun e => hc (e ▸ hz)
      simp [lookup_cons, this]
    · obtain ⟨hc, ih⟩ := hc
      rw [← ih (bs ++ ρ)]
      have hv : eval (bs ++ ρ) A v = eval ρ A v := by
        apply eval_congr A v _ _ hav
        intro z hz
        apply lookup_append_of_not_mem
        intro hk; exact hc z hk hz
      rw [hv]
      apply eval_congr A b _ _ hab
      intro z _
      by_cases hzk : z ∈ keys bs
      · have hzx : x ≠ z := fun e => hx (e ▸ hzk)
        rw [lookup_cons, if_neg hzx]
        apply lookup_append_congr
        intro hz; exact absurd hzk hz
      · rw [lookup_append_of_not_mem _ _ _ hzk, lookup_cons, lookup_cons]
        split
        · rfl
        · exact (lookup_append_of_not_mem _ _ _ hzk).symm

/-- **Substitution lemma**: when `subst` is capture-avoiding (`substOk`), binding `x` to the value of `v` and evaluating `t`
is evaluating `t[v/x]`. -/
theorem eval_subst (A : List Env) (x : Name) (v : IR) (hav : aggFree v = true) (t : IR) :
    ∀ ρ, aggFree t = true → substOk x (fv v) t = true →
      eval ((x, eval ρ A v) :: ρ) A t = eval ρ A (subst x v t) := by
  induction t
  case ref y =>
    intro ρ _ _
    by_cases h : y = x
    · simp [subst, h, eval, lookup_cons]
    · have h' : ¬ x = y := fun e => h e.symm
      simp [subst, h, eval, lookup_cons, h']
  case i32 | i64 | f32 | f64 | str | bool | na | anil | snil | tnil => intros; simp [subst, eval]
  case streamAgg | aggLet | aggFilter | agg => intro _ ha; simp [aggFree] at ha
  case cast | ascribe | isNA | un | arrayLen | toArray | toStream | getField | getTupleElement | toSet | toDict =>
    rename_i ih
    intro ρ ha hs
    simp only [subst, eval]
    rw [ih ρ (by simpa [aggFree] using ha) (by simpa [substOk] using hs)]
  case bin | cmp | acons | arrayRef | scons | insertField | tcons | dictGet =>
    rename_i iha ihb
    intro ρ ha hs
    simp only [aggFree, Bool.and_eq_true] at ha
    simp only [substOk, Bool.and_eq_true] at hs
    simp only [subst, eval]
    have e1 := iha ρ ha.1 hs.1
    have e2 := ihb ρ ha.2 hs.2
    simp only [e1, e2]
  case ite iha ihb ihc =>
    intro ρ ha hs
    simp only [aggFree, Bool.and_eq_true] at ha
    simp only [substOk, Bool.and_eq_true] at hs
    simp only [subst, eval]
    rw [iha ρ ha.1.1 hs.1.1, ihb ρ ha.1.2 hs.1.2, ihc ρ ha.2 hs.2]
  case let_ y e b ihe ihb =>
    intro ρ ha hs
    simp only [aggFree, Bool.and_eq_true] at ha
    simp only [substOk, Bool.and_eq_true, Bool.or_eq_true, decide_eq_true_eq] at hs
    simp only [subst, eval]
    rw [ihe ρ ha.1 hs.1.1]
    have key := eval_under_binders A x v b [(y, eval ρ A (subst x v e))] ρ hav ha.2
    simp only [keys, List.map_cons, List.map_nil, List.mem_singleton, List.cons_append, List.nil_append] at key
    by_cases hyx : y = x
    · subst hyx
      have := key (Or.inl rfl)
      simpa using this
    · have hxy : ¬ x = y := fun e => hyx e.symm
      rcases hs.2 with (h | h) | h
      · exact absurd h hyx
      · have := key (Or.inr (Or.inl h))
        simpa [hxy, hyx] using this
      · have := key (Or.inr (Or.inr ⟨by intro z hz; subst hz; exact h.1, fun ρ1 => ihb ρ1 ha.2 h.2⟩))
        simpa [hxy, hyx] using this
  case streamMap y e b ihe ihb =>
    intro ρ ha hs
    simp only [aggFree, Bool.and_eq_true] at ha
    simp only [substOk, Bool.and_eq_true, Bool.or_eq_true, decide_eq_true_eq] at hs
    simp only [subst, eval]
    rw [ihe ρ ha.1 hs.1.1]
    have hb : ∀ w, eval ((y, w) :: (x, eval ρ A v) :: ρ) A b = eval ((y, w) :: ρ) A (if y = x then b else subst x v b) := by
      intro w
      have key := eval_under_binders A x v b [(y, w)] ρ hav ha.2
      simp only [keys, List.map_cons, List.map_nil, List.mem_singleton, List.cons_append, List.nil_append] at key
      by_cases hyx : y = x
      · subst hyx
        have := key (Or.inl rfl)
        simpa using this
      · have hxy : ¬ x = y := fun e => hyx e.symm
        rcases hs.2 with (h | h) | h
        · exact absurd h hyx
        · have := key (Or.inr (Or.inl h))
          simpa [hxy, hyx] using this
        · have := key (Or.inr (Or.inr ⟨by intro z hz; subst hz; exact h.1, fun ρ1 => ihb ρ1 ha.2 h.2⟩))
          simpa [hxy, hyx] using this
    simp only [hb]
  case streamFilter y e b ihe ihb =>
    intro ρ ha hs
    simp only [aggFree, Bool.and_eq_true] at ha
    simp only [substOk, Bool.and_eq_true, Bool.or_eq_true, decide_eq_true_eq] at hs
    simp only [subst, eval]
    rw [ihe ρ ha.1 hs.1.1]
    have hb : ∀ w, eval ((y, w) :: (x, eval ρ A v) :: ρ) A b = eval ((y, w) :: ρ) A (if y = x then b else subst x v b) := by
      intro w
      have key := eval_under_binders A x v b [(y, w)] ρ hav ha.2
      simp only [keys, List.map_cons, List.map_nil, List.mem_singleton, List.cons_append, List.nil_append] at key
      by_cases hyx : y = x
      · subst hyx
        have := key (Or.inl rfl)
        simpa using this
      · have hxy : ¬ x = y := fun e => hyx e.symm
        rcases hs.2 with (h | h) | h
        · exact absurd h hyx
        · have := key (Or.inr (Or.inl h))
          simpa [hxy, hyx] using this
        · have := key (Or.inr (Or.inr ⟨by intro z hz; subst hz; exact h.1, fun ρ1 => ihb ρ1 ha.2 h.2⟩))
          simpa [hxy, hyx] using this
    simp only [hb]
  case streamFold acc w a z b iha ihz ihb =>
    intro ρ ha hs
    simp only [aggFree, Bool.and_eq_true] at ha
    simp only [substOk, Bool.and_eq_true, Bool.or_eq_true, decide_eq_true_eq] at hs
    simp only [subst, eval]
    rw [iha ρ ha.1.1 hs.1.1.1, ihz ρ ha.1.2 hs.1.1.2]
    have hb : ∀ s u, eval ((w, u) :: (acc, s) :: (x, eval ρ A v) :: ρ) A b
        = eval ((w, u) :: (acc, s) :: ρ) A (if acc = x ∨ w = x then b else subst x v b) := by
      intro s u
      have key := eval_under_binders A x v b [(w, u), (acc, s)] ρ hav ha.2
      simp only [keys, List.map_cons, List.map_nil, List.mem_cons, List.not_mem_nil, or_false, List.cons_append,
        List.nil_append] at key
      by_cases hyx : acc = x ∨ w = x
      · have hk : x = w ∨ x = acc := by rcases hyx with h | h; exact Or.inr h.symm; exact Or.inl h.symm
        have := key (Or.inl hk)
        simpa [hk, hyx] using this
      · have hk : ¬ (x = w ∨ x = acc) := by
          intro h; rcases h with h | h
          · exact hyx (Or.inr h.symm)
          · exact hyx (Or.inl h.symm)
        rcases hs.2 with (h | h) | h
        · exact absurd h hyx
        · have := key (Or.inr (Or.inl h))
          simpa [hk, hyx] using this
        · have := key (Or.inr (Or.inr ⟨by
            intro y hy; rcases hy with hy | hy
            · subst hy; exact h.1.2
            · subst hy; exact h.1.1, fun ρ1 => ihb ρ1 ha.2 h.2⟩))
          simpa [hk, hyx] using this
    simp only [hb]
  case streamScan acc w a z b iha ihz ihb =>
    intro ρ ha hs
    simp only [aggFree, Bool.and_eq_true] at ha
    simp only [substOk, Bool.and_eq_true, Bool.or_eq_true, decide_eq_true_eq] at hs
    simp only [subst, eval]
    rw [iha ρ ha.1.1 hs.1.1.1, ihz ρ ha.1.2 hs.1.1.2]
    have hb : ∀ s u, eval ((w, u) :: (acc, s) :: (x, eval ρ A v) :: ρ) A b
        = eval ((w, u) :: (acc, s) :: ρ) A (if acc = x ∨ w = x then b else subst x v b) := by
      intro s u
      have key := eval_under_binders A x v b [(w, u), (acc, s)] ρ hav ha.2
      simp only [keys, List.map_cons, List.map_nil, List.mem_cons, List.not_mem_nil, or_false, List.cons_append,
        List.nil_append] at key
      by_cases hyx : acc = x ∨ w = x
      · have hk : x = w ∨ x = acc := by rcases hyx with h | h; exact Or.inr h.symm; exact Or.inl h.symm
        have := key (Or.inl hk)
        simpa [hk, hyx] using this
      · have hk : ¬ (x = w ∨ x = acc) := by
          intro h; rcases h with h | h
          · exact hyx (Or.inr h.symm)
          · exact hyx (Or.inl h.symm)
        rcases hs.2 with (h | h) | h
        · exact absurd h hyx
        · have := key (Or.inr (Or.inl h))
          simpa [hk, hyx] using this
        · have := key (Or.inr (Or.inr ⟨by
            intro y hy; rcases hy with hy | hy
            · subst hy; exact h.1.2
            · subst hy; exact h.1.1, fun ρ1 => ihb ρ1 ha.2 h.2⟩))
          simpa [hk, hyx] using this
    simp only [hb]

/-! ## inlining the `__cse` bindings -/

theorem eval_cseLetFree_inline (t : IR) : cseLetFree t = true → inlineCse t = t := by
  induction t
  case let_ x v b ihv ihb =>
    intro h
    simp only [cseLetFree, Bool.and_eq_true, Bool.not_eq_true'] at h
    simp [inlineCse, h.1.1, ihv h.1.2, ihb h.2]
  case ref | i32 | i64 | f32 | f64 | str | bool | na | anil | snil | tnil => intros; simp [inlineCse]
  case aggLet | aggFilter | agg => intros; simp [inlineCse]
  case streamAgg x a q iha _ =>
    intro h; simp only [cseLetFree, Bool.and_eq_true] at h; simp [inlineCse, iha h.1]
  case cast | ascribe | isNA | un | arrayLen | toArray | toStream | getField | getTupleElement | toSet | toDict =>
    rename_i ih; intro h; simp only [cseLetFree] at h; simp [inlineCse, ih h]
  case bin | cmp | acons | arrayRef | scons | insertField | tcons | dictGet | streamMap | streamFilter =>
    rename_i iha ihb; intro h; simp only [cseLetFree, Bool.and_eq_true] at h; simp [inlineCse, iha h.1, ihb h.2]
  case ite iha ihb ihc =>
    intro h; simp only [cseLetFree, Bool.and_eq_true] at h; simp [inlineCse, iha h.1.1, ihb h.1.2, ihc h.2]
  case streamFold iha ihb ihc =>
    intro h; simp only [cseLetFree, Bool.and_eq_true] at h; simp [inlineCse, iha h.1.1, ihb h.1.2, ihc h.2]
  case streamScan iha ihb ihc =>
    intro h; simp only [cseLetFree, Bool.and_eq_true] at h; simp [inlineCse, iha h.1.1, ihb h.1.2, ihc h.2]

/-- inlining the lifted bindings does not change the value, in any environment -/
theorem eval_inlineCse (t : IR) : inlineOk t = true → ∀ ρ A, eval ρ A (inlineCse t) = eval ρ A t := by
  induction t
  case let_ x v b ihv ihb =>
    intro h ρ A
    simp only [inlineOk, Bool.and_eq_true, Bool.or_eq_true, Bool.not_eq_true'] at h
    obtain ⟨⟨hv, hb⟩, hc⟩ := h
    by_cases hx : isCse x = true
    · rcases hc with hc | hc
      · rw [hx] at hc; exact absurd hc (by simp)
      · simp only [inlineCse, hx, if_true]
        rw [← eval_subst A x (inlineCse v) hc.1.1 (inlineCse b) ρ hc.1.2 hc.2]
        simp only [eval]
        rw [ihv hv ρ A, ihb hb]
    · have hx' : isCse x = false := by simpa using hx
      simp only [inlineCse, hx', Bool.false_eq_true, if_false, eval]
      rw [ihv hv ρ A, ihb hb]
  case ref | i32 | i64 | f32 | f64 | str | bool | na | anil | snil | tnil => intros; simp [inlineCse]
  case aggLet | aggFilter | agg => intros; simp [inlineCse]
  case streamAgg x a q iha _ =>
    intro h ρ A; simp only [inlineOk, Bool.and_eq_true] at h; simp [inlineCse, eval, iha h.1]
  case cast | ascribe | isNA | un | arrayLen | toArray | toStream | getField | getTupleElement | toSet | toDict =>
    rename_i ih; intro h ρ A; simp only [inlineOk] at h; simp [inlineCse, eval, ih h]
  case bin | cmp | acons | arrayRef | scons | insertField | tcons | dictGet | streamMap | streamFilter =>
    rename_i iha ihb; intro h ρ A; simp only [inlineOk, Bool.and_eq_true] at h; simp [inlineCse, eval, iha h.1, ihb h.2]
  case ite iha ihb ihc =>
    intro h ρ A; simp only [inlineOk, Bool.and_eq_true] at h; simp [inlineCse, eval, iha h.1.1, ihb h.1.2, ihc h.2]
  case streamFold iha ihb ihc =>
    intro h ρ A; simp only [inlineOk, Bool.and_eq_true] at h; simp [inlineCse, eval, iha h.1.1, ihb h.1.2, ihc h.2]
  case streamScan iha ihb ihc =>
    intro h ρ A; simp only [inlineOk, Bool.and_eq_true] at h; simp [inlineCse, eval, iha h.1.1, ihb h.1.2, ihc h.2]

/-! ## the scope checker decides `WellScoped` -/

theorem scopeOk_sound (t : IR) : ∀ Γ Δ, scopeOk Γ Δ t = true → WellScoped Γ Δ t := by
  induction t
  case ref x => intro Γ Δ h; exact .ref (by simpa [scopeOk] using h)
  case i32 => intros; exact .i32
  case i64 => intros; exact .i64
  case f32 => intros; exact .f32
  case f64 => intros; exact .f64
  case str => intros; exact .str
  case bool => intros; exact .bool
  case na => intros; exact .na
  case anil => intros; exact .anil
  case snil => intros; exact .snil
  case tnil => intros; exact .tnil
  case cast ih => intro Γ Δ h; exact .cast (ih Γ Δ (by simpa [scopeOk] using h))
  case ascribe ih => intro Γ Δ h; exact .ascribe (ih Γ Δ (by simpa [scopeOk] using h))
  case isNA ih => intro Γ Δ h; exact .isNA (ih Γ Δ (by simpa [scopeOk] using h))
  case un ih => intro Γ Δ h; exact .un (ih Γ Δ (by simpa [scopeOk] using h))
  case arrayLen ih => intro Γ Δ h; exact .arrayLen (ih Γ Δ (by simpa [scopeOk] using h))
  case toArray ih => intro Γ Δ h; exact .toArray (ih Γ Δ (by simpa [scopeOk] using h))
  case toStream ih => intro Γ Δ h; exact .toStream (ih Γ Δ (by simpa [scopeOk] using h))
  case getField ih => intro Γ Δ h; exact .getField (ih Γ Δ (by simpa [scopeOk] using h))
  case getTupleElement ih => intro Γ Δ h; exact .getTupleElement (ih Γ Δ (by simpa [scopeOk] using h))
  case toSet ih => intro Γ Δ h; exact .toSet (ih Γ Δ (by simpa [scopeOk] using h))
  case toDict ih => intro Γ Δ h; exact .toDict (ih Γ Δ (by simpa [scopeOk] using h))
  case bin iha ihb =>
    intro Γ Δ h; simp only [scopeOk, Bool.and_eq_true] at h; exact .bin (iha Γ Δ h.1) (ihb Γ Δ h.2)
  case cmp iha ihb =>
    intro Γ Δ h; simp only [scopeOk, Bool.and_eq_true] at h; exact .cmp (iha Γ Δ h.1) (ihb Γ Δ h.2)
  case acons iha ihb =>
    intro Γ Δ h; simp only [scopeOk, Bool.and_eq_true] at h; exact .acons (iha Γ Δ h.1) (ihb Γ Δ h.2)
  case arrayRef iha ihb =>
    intro Γ Δ h; simp only [scopeOk, Bool.and_eq_true] at h; exact .arrayRef (iha Γ Δ h.1) (ihb Γ Δ h.2)
  case scons iha ihb =>
    intro Γ Δ h; simp only [scopeOk, Bool.and_eq_true] at h; exact .scons (iha Γ Δ h.1) (ihb Γ Δ h.2)
  case insertField iha ihb =>
    intro Γ Δ h; simp only [scopeOk, Bool.and_eq_true] at h; exact .insertField (iha Γ Δ h.1) (ihb Γ Δ h.2)
  case tcons iha ihb =>
    intro Γ Δ h; simp only [scopeOk, Bool.and_eq_true] at h; exact .tcons (iha Γ Δ h.1) (ihb Γ Δ h.2)
  case dictGet iha ihb =>
    intro Γ Δ h; simp only [scopeOk, Bool.and_eq_true] at h; exact .dictGet (iha Γ Δ h.1) (ihb Γ Δ h.2)
  case ite iha ihb ihc =>
    intro Γ Δ h; simp only [scopeOk, Bool.and_eq_true] at h; exact .ite (iha Γ Δ h.1.1) (ihb Γ Δ h.1.2) (ihc Γ Δ h.2)
  case let_ iha ihb =>
    intro Γ Δ h; simp only [scopeOk, Bool.and_eq_true] at h; exact .let_ (iha Γ Δ h.1) (ihb _ Δ h.2)
  case streamMap iha ihb =>
    intro Γ Δ h; simp only [scopeOk, Bool.and_eq_true] at h; exact .streamMap (iha Γ Δ h.1) (ihb _ Δ h.2)
  case streamFilter iha ihb =>
    intro Γ Δ h; simp only [scopeOk, Bool.and_eq_true] at h; exact .streamFilter (iha Γ Δ h.1) (ihb _ Δ h.2)
  case streamFold iha ihz ihb =>
    intro Γ Δ h; simp only [scopeOk, Bool.and_eq_true] at h
    exact .streamFold (iha Γ Δ h.1.1) (ihz Γ Δ h.1.2) (ihb _ Δ h.2)
  case streamScan iha ihz ihb =>
    intro Γ Δ h; simp only [scopeOk, Bool.and_eq_true] at h
    exact .streamScan (iha Γ Δ h.1.1) (ihz Γ Δ h.1.2) (ihb _ Δ h.2)
  case streamAgg iha ihq =>
    intro Γ Δ h; simp only [scopeOk, Bool.and_eq_true] at h; exact .streamAgg (iha Γ Δ h.1) (ihq Γ _ h.2)
  case aggLet ihv ihb =>
    intro Γ Δ h
    cases Δ with
    | none => simp [scopeOk] at h
    | some D => simp only [scopeOk, Bool.and_eq_true] at h; exact .aggLet (ihv D none h.1) (ihb Γ _ h.2)
  case aggFilter ihc ihb =>
    intro Γ Δ h
    cases Δ with
    | none => simp [scopeOk] at h
    | some D => simp only [scopeOk, Bool.and_eq_true] at h; exact .aggFilter (ihc D none h.1) (ihb Γ _ h.2)
  case agg iha =>
    intro Γ Δ h
    cases Δ with
    | none => simp [scopeOk] at h
    | some D => simp only [scopeOk] at h; exact .agg (iha D none h)

theorem scopeOk_complete {Γ Δ t} (h : WellScoped Γ Δ t) : scopeOk Γ Δ t = true := by
  induction h <;> simp_all [scopeOk]

/-- a well-scoped aggregation-free expression has all its free variables in scope -/
theorem fv_subset_of_wellScoped {Γ Δ t} (h : WellScoped Γ Δ t) : aggFree t = true → ∀ y ∈ fv t, y ∈ Γ := by
  induction h <;> intro ha y hy <;>
    simp only [aggFree, Bool.and_eq_true, Bool.false_eq_true] at ha <;>
    simp only [fv, List.mem_append, mem_remove, List.mem_singleton, List.not_mem_nil] at hy
  case ref hx => exact hy ▸ hx
  case cast ih | ascribe ih | isNA ih | un ih | arrayLen ih | toArray ih | toStream ih | getField ih | getTupleElement ih | toSet ih
    | toDict ih => exact ih ha y hy
  case bin iha ihb | cmp iha ihb | acons iha ihb | arrayRef iha ihb | scons iha ihb | insertField iha ihb | tcons iha ihb
    | dictGet iha ihb =>
    rcases hy with hy | hy
    · exact iha ha.1 y hy
    · exact ihb ha.2 y hy
  case ite iha ihb ihc =>
    rcases hy with (hy | hy) | hy
    · exact iha ha.1.1 y hy
    · exact ihb ha.1.2 y hy
    · exact ihc ha.2 y hy
  case let_ iha ihb | streamMap iha ihb | streamFilter iha ihb =>
    rcases hy with hy | hy
    · exact iha ha.1 y hy
    · have := ihb ha.2 y hy.1
      simp only [List.mem_cons] at this
      rcases this with h | h
      · exact absurd h hy.2
      · exact h
  case streamFold iha ihz ihb =>
    rcases hy with (hy | hy) | hy
    · exact iha ha.1.1 y hy
    · exact ihz ha.1.2 y hy
    · have := ihb ha.2 y hy.1.1
      simp only [List.mem_cons] at this
      rcases this with h | h | h
      · exact absurd h hy.1.2
      · exact absurd h hy.2
      · exact h
  case streamScan iha ihz ihb =>
    rcases hy with (hy | hy) | hy
    · exact iha ha.1.1 y hy
    · exact ihz ha.1.2 y hy
    · have := ihb ha.2 y hy.1.1
      simp only [List.mem_cons] at this
      rcases this with h | h | h
      · exact absurd h hy.1.2
      · exact absurd h hy.2
      · exact h

end HailVerif.ExprIR

namespace HailVerif.ExprIR

/-! ## one CSE step at the specification level: `let x = v in t[x/v] ≡ t` -/

theorem fv_subset_names (t : IR) : ∀ y ∈ fv t, y ∈ names t := by
  induction t <;> intro y hy <;>
    simp only [fv, List.mem_append, mem_remove, List.mem_singleton, List.not_mem_nil] at hy <;>
    simp only [names, List.mem_append, List.mem_cons]
  case ref => exact Or.inl hy
  case cast ih | ascribe ih | isNA ih | un ih | arrayLen ih | toArray ih | toStream ih | getField ih | getTupleElement ih
    | toSet ih | toDict ih => exact ih y hy
  case bin iha ihb | cmp iha ihb | acons iha ihb | arrayRef iha ihb | scons iha ihb | insertField iha ihb | tcons iha ihb
    | dictGet iha ihb =>
    rcases hy with hy | hy
    · exact Or.inl (iha y hy)
    · exact Or.inr (ihb y hy)
  case ite iha ihb ihc =>
    rcases hy with (hy | hy) | hy
    · exact Or.inl (Or.inl (iha y hy))
    · exact Or.inl (Or.inr (ihb y hy))
    · exact Or.inr (ihc y hy)
  case let_ iha ihb | streamMap iha ihb | streamFilter iha ihb =>
    rcases hy with hy | hy
    · exact Or.inr (Or.inl (iha y hy))
    · exact Or.inr (Or.inr (ihb y hy.1))
  case streamFold iha ihz ihb =>
    rcases hy with (hy | hy) | hy
    · exact Or.inr (Or.inr (Or.inl (Or.inl (iha y hy))))
    · exact Or.inr (Or.inr (Or.inl (Or.inr (ihz y hy))))
    · exact Or.inr (Or.inr (Or.inr (ihb y hy.1.1)))
  case streamScan iha ihz ihb =>
    rcases hy with (hy | hy) | hy
    · exact Or.inr (Or.inr (Or.inl (Or.inl (iha y hy))))
    · exact Or.inr (Or.inr (Or.inl (Or.inr (ihz y hy))))
    · exact Or.inr (Or.inr (Or.inr (ihb y hy.1.1)))
  case streamAgg iha ihq =>
    rcases hy with hy | hy
    · exact Or.inr (Or.inl (iha y hy))
    · exact Or.inr (Or.inr (ihq y hy))
  case aggLet _ ihb => exact Or.inr (Or.inr (ihb y hy))
  case aggFilter _ ihb => exact Or.inr (ihb y hy)

theorem aggFree_abstractAt (x : Name) (v : IR) (F : List Name) (t : IR) :
    aggFree t = true → aggFree (abstractAt x v F t) = true := by
  induction t
  case streamAgg | aggLet | aggFilter | agg => intro h; simp [aggFree] at h
  case ref | i32 | i64 | f32 | f64 | str | bool | na | anil | snil | tnil =>
    intro _; simp only [abstractAt]; split <;> simp [aggFree]
  case cast | ascribe | isNA | un | arrayLen | toArray | toStream | getField | getTupleElement | toSet | toDict =>
    rename_i ih; intro h; simp only [aggFree] at h; simp only [abstractAt]; split <;> simp [aggFree, ih h]
  case bin | cmp | acons | arrayRef | scons | insertField | tcons | dictGet =>
    rename_i iha ihb; intro h; simp only [aggFree, Bool.and_eq_true] at h
    simp only [abstractAt]; split <;> simp [aggFree, iha h.1, ihb h.2]
  case ite iha ihb ihc =>
    intro h; simp only [aggFree, Bool.and_eq_true] at h
    simp only [abstractAt]; split <;> simp [aggFree, iha h.1.1, ihb h.1.2, ihc h.2]
  case let_ iha ihb | streamMap iha ihb | streamFilter iha ihb =>
    intro h; simp only [aggFree, Bool.and_eq_true] at h
    simp only [abstractAt]; split
    · simp [aggFree]
    · simp only [aggFree, iha h.1, Bool.true_and]; split
      · exact h.2
      · exact ihb h.2
  case streamFold iha ihz ihb =>
    intro h; simp only [aggFree, Bool.and_eq_true] at h
    simp only [abstractAt]; split
    · simp [aggFree]
    · simp only [aggFree, iha h.1.1, ihz h.1.2, Bool.true_and]; split
      · exact h.2
      · exact ihb h.2
  case streamScan iha ihz ihb =>
    intro h; simp only [aggFree, Bool.and_eq_true] at h
    simp only [abstractAt]; split
    · simp [aggFree]
    · simp only [aggFree, iha h.1.1, ihz h.1.2, Bool.true_and]; split
      · exact h.2
      · exact ihb h.2

theorem subst_abstractAt (x : Name) (v : IR) (F : List Name) (t : IR) :
    x ∉ names t → subst x v (abstractAt x v F t) = t := by
  induction t
  case streamAgg | aggLet | aggFilter | agg => intro _; simp [abstractAt, subst]
  case ref y =>
    intro h; simp only [names, List.mem_singleton] at h
    simp only [abstractAt]; split
    · rename_i e; simp [subst, e]
    · simp [subst, Ne.symm h]
  case i32 | i64 | f32 | f64 | str | bool | na | anil | snil | tnil =>
    intro _; simp only [abstractAt]; split
    · rename_i e; simp [subst, e]
    · simp [subst]
  case cast | ascribe | isNA | un | arrayLen | toArray | toStream | getField | getTupleElement | toSet | toDict =>
    rename_i ih; intro h; simp only [names] at h
    simp only [abstractAt]; split
    · rename_i e; simp [subst, e]
    · simp [subst, ih h]
  case bin | cmp | acons | arrayRef | scons | insertField | tcons | dictGet =>
    rename_i iha ihb; intro h; simp only [names, List.mem_append, not_or] at h
    simp only [abstractAt]; split
    · rename_i e; simp [subst, e]
    · simp [subst, iha h.1, ihb h.2]
  case ite iha ihb ihc =>
    intro h; simp only [names, List.mem_append, not_or] at h
    simp only [abstractAt]; split
    · rename_i e; simp [subst, e]
    · simp [subst, iha h.1.1, ihb h.1.2, ihc h.2]
  case let_ y a b iha ihb | streamMap y a b iha ihb | streamFilter y a b iha ihb =>
    intro h; simp only [names, List.mem_cons, List.mem_append, not_or] at h
    obtain ⟨hxy, hxa, hxb⟩ := h
    have hyx : ¬ y = x := fun e => hxy e.symm
    simp only [abstractAt]; split
    · rename_i e; simp [subst, e]
    · simp only [subst, iha hxa, hyx, if_false]
      split
      · rw [subst_of_not_free x v b (fun hm => hxb (fv_subset_names b x hm))]
      · rw [ihb hxb]
  case streamFold acc w a z b iha ihz ihb =>
    intro h; simp only [names, List.mem_cons, List.mem_append, not_or] at h
    obtain ⟨hxacc, hxw, ⟨hxa, hxz⟩, hxb⟩ := h
    have h1 : ¬ (acc = x ∨ w = x) := by
      intro e; rcases e with e | e
      · exact hxacc e.symm
      · exact hxw e.symm
    simp only [abstractAt]; split
    · rename_i e; simp [subst, e]
    · simp only [subst, iha hxa, ihz hxz, h1, if_false]
      split
      · rw [subst_of_not_free x v b (fun hm => hxb (fv_subset_names b x hm))]
      · rw [ihb hxb]
  case streamScan acc w a z b iha ihz ihb =>
    intro h; simp only [names, List.mem_cons, List.mem_append, not_or] at h
    obtain ⟨hxacc, hxw, ⟨hxa, hxz⟩, hxb⟩ := h
    have h1 : ¬ (acc = x ∨ w = x) := by
      intro e; rcases e with e | e
      · exact hxacc e.symm
      · exact hxw e.symm
    simp only [abstractAt]; split
    · rename_i e; simp [subst, e]
    · simp only [subst, iha hxa, ihz hxz, h1, if_false]
      split
      · rw [subst_of_not_free x v b (fun hm => hxb (fv_subset_names b x hm))]
      · rw [ihb hxb]

theorem substOk_abstractAt (x : Name) (v : IR) (F : List Name) (t : IR) :
    aggFree t = true → x ∉ names t → substOk x F (abstractAt x v F t) = true := by
  induction t
  case streamAgg | aggLet | aggFilter | agg => intro h; simp [aggFree] at h
  case ref | i32 | i64 | f32 | f64 | str | bool | na | anil | snil | tnil =>
    intro _ _; simp only [abstractAt]; split <;> simp [substOk]
  case cast | ascribe | isNA | un | arrayLen | toArray | toStream | getField | getTupleElement | toSet | toDict =>
    rename_i ih; intro ha hx; simp only [aggFree] at ha; simp only [names] at hx
    simp only [abstractAt]; split <;> simp [substOk, ih ha hx]
  case bin | cmp | acons | arrayRef | scons | insertField | tcons | dictGet =>
    rename_i iha ihb; intro ha hx
    simp only [aggFree, Bool.and_eq_true] at ha; simp only [names, List.mem_append, not_or] at hx
    simp only [abstractAt]; split <;> simp [substOk, iha ha.1 hx.1, ihb ha.2 hx.2]
  case ite iha ihb ihc =>
    intro ha hx
    simp only [aggFree, Bool.and_eq_true] at ha; simp only [names, List.mem_append, not_or] at hx
    simp only [abstractAt]; split <;> simp [substOk, iha ha.1.1 hx.1.1, ihb ha.1.2 hx.1.2, ihc ha.2 hx.2]
  case let_ y a b iha ihb | streamMap y a b iha ihb | streamFilter y a b iha ihb =>
    intro ha hx
    simp only [aggFree, Bool.and_eq_true] at ha
    simp only [names, List.mem_cons, List.mem_append, not_or] at hx
    obtain ⟨hxy, hxa, hxb⟩ := hx
    simp only [abstractAt]; split
    · simp [substOk]
    · simp only [substOk, iha ha.1 hxa, Bool.true_and, Bool.and_eq_true, Bool.or_eq_true, decide_eq_true_eq]
      split
      · rename_i hyF
        exact ⟨ha.2, Or.inl (Or.inr (fun hm => hxb (fv_subset_names b x hm)))⟩
      · rename_i hyF
        exact ⟨aggFree_abstractAt x v F b ha.2, Or.inr ⟨hyF, ihb ha.2 hxb⟩⟩
  case streamFold acc w a z b iha ihz ihb =>
    intro ha hx
    simp only [aggFree, Bool.and_eq_true] at ha
    simp only [names, List.mem_cons, List.mem_append, not_or] at hx
    obtain ⟨hxacc, hxw, ⟨hxa, hxz⟩, hxb⟩ := hx
    simp only [abstractAt]; split
    · simp [substOk]
    · simp only [substOk, iha ha.1.1 hxa, ihz ha.1.2 hxz, Bool.true_and, Bool.and_eq_true, Bool.or_eq_true,
        decide_eq_true_eq]
      split
      · exact ⟨ha.2, Or.inl (Or.inr (fun hm => hxb (fv_subset_names b x hm)))⟩
      · rename_i hF
        simp only [not_or] at hF
        exact ⟨aggFree_abstractAt x v F b ha.2, Or.inr ⟨⟨hF.1, hF.2⟩, ihb ha.2 hxb⟩⟩
  case streamScan acc w a z b iha ihz ihb =>
    intro ha hx
    simp only [aggFree, Bool.and_eq_true] at ha
    simp only [names, List.mem_cons, List.mem_append, not_or] at hx
    obtain ⟨hxacc, hxw, ⟨hxa, hxz⟩, hxb⟩ := hx
    simp only [abstractAt]; split
    · simp [substOk]
    · simp only [substOk, iha ha.1.1 hxa, ihz ha.1.2 hxz, Bool.true_and, Bool.and_eq_true, Bool.or_eq_true,
        decide_eq_true_eq]
      split
      · exact ⟨ha.2, Or.inl (Or.inr (fun hm => hxb (fv_subset_names b x hm)))⟩
      · rename_i hF
        simp only [not_or] at hF
        exact ⟨aggFree_abstractAt x v F b ha.2, Or.inr ⟨⟨hF.1, hF.2⟩, ihb ha.2 hxb⟩⟩

end HailVerif.ExprIR

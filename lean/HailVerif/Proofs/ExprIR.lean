import HailVerif.Proofs.ExprAgree
/-!
# Lemmas about the expression IR model (C35): coincidence, substitution, inlining of `__cse` bindings, scope checker
-/
namespace HailVerif.ExprIR

/-! ## environments -/

theorem lookup_cons (y : Name) (w : Val) (ρ : Env) (z : Name) :
    lookup ((y, w) :: ρ) z = if y = z then w else lookup ρ z := rfl

/-- keys of an environment prefix -/
def keys (bs : Env) : List Name := bs.map (·.1)

theorem lookup_append_of_not_mem (bs ρ : Env) (z : Name) (h : z ∉ keys bs) : lookup (bs ++ ρ) z = lookup ρ z := by
  induction bs with
  | nil => rfl
  | cons p bs ih =>
    obtain ⟨y, w⟩ := p
    simp only [keys, List.map_cons, List.mem_cons, not_or] at h
    simp only [List.cons_append, lookup_cons]
    rw [if_neg (fun e => h.1 e.symm)]
    exact ih h.2

theorem lookup_append_congr (bs ρ ρ' : Env) (z : Name) (h : z ∉ keys bs → lookup ρ z = lookup ρ' z) :
    lookup (bs ++ ρ) z = lookup (bs ++ ρ') z := by
  induction bs with
  | nil => exact h (by simp [keys])
  | cons p bs ih =>
    obtain ⟨y, w⟩ := p
    simp only [List.cons_append, lookup_cons]
    split
    · rfl
    · rename_i hne
      apply ih
      intro hz
      apply h
      simp only [keys, List.map_cons, List.mem_cons, not_or]
      exact ⟨fun e => hne e.symm, hz⟩


/-! ## coincidence: the value of an expression depends only on its free variables (see `eval_agree` for the aggregation scope) -/

theorem eval_congr (A : List Env) (t : IR) (ρ ρ' : Env) (h : ∀ y ∈ fv t, lookup ρ y = lookup ρ' y) :
    eval ρ A t = eval ρ' A t :=
  eval_agree_env t ρ ρ' A h

/-! ## free variables are names -/

theorem fv_fva_subset_names (t : IR) : (∀ y ∈ fv t, y ∈ names t) ∧ (∀ y ∈ fva t, y ∈ names t) := by
  induction t
  case ref | i32 | i64 | f32 | f64 | str | bool | na | anil | snil | tnil => simp [fv, fva, names]
  case cast ih | ascribe ih | isNA ih | un ih | arrayLen ih | toArray ih | toStream ih | getField ih | getTupleElement ih
    | toSet ih | toDict ih | applyFn ih => simpa [fv, fva, names] using ih
  case bin iha ihb | cmp iha ihb | acons iha ihb | arrayRef iha ihb | scons iha ihb | insertField iha ihb | tcons iha ihb
    | dictGet iha ihb =>
    simp only [fv, fva, names, List.mem_append]
    exact ⟨fun y hy => hy.imp (iha.1 y) (ihb.1 y), fun y hy => hy.imp (iha.2 y) (ihb.2 y)⟩
  case ite iha ihb ihc =>
    simp only [fv, fva, names, List.mem_append]
    exact ⟨fun y hy => hy.imp (Or.imp (iha.1 y) (ihb.1 y)) (ihc.1 y), fun y hy => hy.imp (Or.imp (iha.2 y) (ihb.2 y)) (ihc.2 y)⟩
  case let_ iha ihb | streamMap iha ihb | streamFilter iha ihb =>
    simp only [fv, fva, names, List.mem_append, List.mem_cons, mem_remove]
    exact ⟨fun y hy => Or.inr (hy.imp (iha.1 y) (fun h => ihb.1 y h.1)), fun y hy => Or.inr (hy.imp (iha.2 y) (ihb.2 y))⟩
  case streamFold iha ihz ihb | streamScan iha ihz ihb =>
    simp only [fv, fva, names, List.mem_append, List.mem_cons, mem_remove]
    exact ⟨fun y hy => Or.inr (Or.inr (hy.imp (Or.imp (iha.1 y) (ihz.1 y)) (fun h => ihb.1 y h.1.1))),
      fun y hy => Or.inr (Or.inr (hy.imp (Or.imp (iha.2 y) (ihz.2 y)) (ihb.2 y)))⟩
  case streamAgg iha ihq =>
    simp only [fv, fva, names, List.mem_append, List.mem_cons, mem_remove]
    refine ⟨fun y hy => Or.inr ?_, fun y hy => Or.inr (Or.inl (iha.2 y hy))⟩
    rcases hy with (hy | hy) | hy
    · exact Or.inl (iha.1 y hy)
    · exact Or.inr (ihq.1 y hy)
    · exact Or.inr (ihq.2 y hy.1)
  case aggLet ihv ihb | aggExplode ihv ihb =>
    simp only [fv, fva, names, List.mem_append, List.mem_cons, mem_remove]
    exact ⟨fun y hy => Or.inr (Or.inr (ihb.1 y hy)), fun y hy => Or.inr (hy.imp (ihv.1 y) (fun h => ihb.2 y h.1))⟩
  case aggFilter ihc ihb | aggGroupBy ihc ihb =>
    simp only [fv, fva, names, List.mem_append]
    exact ⟨fun y hy => Or.inr (ihb.1 y hy), fun y hy => hy.imp (ihc.1 y) (ihb.2 y)⟩
  case agg iha =>
    simp only [fv, fva, names]
    exact ⟨fun y hy => by simp at hy, iha.1⟩

theorem fv_subset_names (t : IR) : ∀ y ∈ fv t, y ∈ names t := (fv_fva_subset_names t).1


/-! ## substitution -/

theorem eval_env_ext (t : IR) (ρ ρ' : Env) (A : List Env) (h : ∀ z, lookup ρ z = lookup ρ' z) :
    eval ρ A t = eval ρ' A t :=
  eval_agree_env t ρ ρ' A (fun z _ => h z)

theorem subst_of_not_free (x : Name) (v : IR) (t : IR) : x ∉ fv t → subst x v t = t := by
  induction t
  case ref y => intro h; simp [fv] at h; simp [subst, Ne.symm h]
  case i32 | i64 | f32 | f64 | str | bool | na | anil | snil | tnil | agg => intros; simp [subst]
  case streamAgg y a q iha _ => intro h; simp only [fv, List.mem_append, not_or] at h; simp [subst, iha h.1.1]
  case aggLet y e b _ ihb | aggExplode y e b _ ihb => intro h; simp only [fv] at h; simp [subst, ihb h]
  case aggFilter c b _ ihb | aggGroupBy c b _ ihb => intro h; simp only [fv] at h; simp [subst, ihb h]
  case cast | ascribe | isNA | un | arrayLen | toArray | toStream | getField | getTupleElement | toSet | toDict | applyFn =>
    rename_i ih; intro h; simp only [fv] at h; simp [subst, ih h]
  case bin | cmp | acons | arrayRef | scons | insertField | tcons | dictGet =>
    rename_i iha ihb; intro h; simp only [fv, List.mem_append, not_or] at h; simp [subst, iha h.1, ihb h.2]
  case ite iha ihb ihc =>
    intro h; simp only [fv, List.mem_append, not_or] at h; simp [subst, iha h.1.1, ihb h.1.2, ihc h.2]
  case let_ y e b ihe ihb | streamMap y e b ihe ihb | streamFilter y e b ihe ihb =>
    intro h; simp only [fv, List.mem_append, mem_remove, not_or, not_and, Decidable.not_not] at h
    simp only [subst, ihe h.1]
    by_cases hyx : y = x
    · simp [hyx]
    · have : x ∉ fv b := fun hm => hyx (h.2 hm).symm
      simp [hyx, ihb this]
  case streamFold acc w a z b iha ihz ihb | streamScan acc w a z b iha ihz ihb =>
    intro h; simp only [fv, List.mem_append, mem_remove, not_or, not_and, Decidable.not_not] at h
    simp only [subst, iha h.1.1, ihz h.1.2]
    by_cases hyx : acc = x ∨ w = x
    · simp [hyx]
    · have : x ∉ fv b := by
        intro hm
        rcases Decidable.not_or_of_imp (fun e : x = w => e) with h1 | h1
        · have := h.2 ⟨hm, h1⟩; exact hyx (Or.inl this.symm)
        · exact hyx (Or.inr h1.symm)
      simp [hyx, ihb this]

theorem subst_of_not_names (x : Name) (v : IR) (t : IR) (h : x ∉ names t) : subst x v t = t :=
  subst_of_not_free x v t (fun hm => h (fv_subset_names t x hm))

/-- a variable that is not free does not matter -/
theorem eval_of_not_free (x : Name) (t : IR) (h : x ∉ fv t) (ρ ρ' : Env) (A : List Env)
    (hl : ∀ z, z ≠ x → lookup ρ z = lookup ρ' z) : eval ρ A t = eval ρ' A t :=
  eval_agree_env t ρ ρ' A (fun y hy => hl y (fun e => h (e ▸ hy)))

/-- binders that rebind no free variable of `v` do not change its value -/
theorem eval_capt (v : IR) (bs ρ : Env) (A : List Env) (h : ∀ y ∈ keys bs, y ∉ fv v) :
    eval (bs ++ ρ) A v = eval ρ A v := by
  apply eval_agree_env
  intro z hz
  apply lookup_append_of_not_mem
  intro hk; exact h z hk hz

/-- core of the substitution lemma under a prefix `bs` of binders (the lambda parameters of a stream node, or the variable of
a `Let`): if none of them is captured by `v`, the body can be evaluated with `x` bound to the value `v` had outside -/
theorem eval_under_binders (A : List Env) (x : Name) (v b : IR) (bs ρ : Env)
    (hc : x ∈ keys bs ∨ x ∉ fv b ∨
      ((∀ y ∈ keys bs, y ∉ fv v) ∧ ∀ ρ1, eval ((x, eval ρ1 A v) :: ρ1) A b = eval ρ1 A (subst x v b))) :
    eval (bs ++ (x, eval ρ A v) :: ρ) A b = eval (bs ++ ρ) A (if x ∈ keys bs then b else subst x v b) := by
  by_cases hx : x ∈ keys bs
  · rw [if_pos hx]
    apply eval_env_ext
    intro z
    apply lookup_append_congr
    intro hz
    have : x ≠ z := fun e => hz (e ▸ hx)
    simp [lookup_cons, this]
  · rw [if_neg hx]
    rcases hc with hc | hc | hc
    · exact absurd hc hx
    · rw [subst_of_not_free x v b hc]
      apply eval_of_not_free x b hc
      intro z hz
      apply lookup_append_congr
      intro _
      have : x ≠ z := fun e => hz e.symm
      simp [lookup_cons, this]
    · obtain ⟨hc, ih⟩ := hc
      rw [← ih (bs ++ ρ), eval_capt v bs ρ A hc]
      apply eval_env_ext
      intro z
      by_cases hzk : z ∈ keys bs
      · have hzx : x ≠ z := fun e => hx (e ▸ hzk)
        rw [lookup_cons, if_neg hzx]
        apply lookup_append_congr
        intro hz; exact absurd hzk hz
      · rw [lookup_append_of_not_mem _ _ _ hzk, lookup_cons, lookup_cons]
        split
        · rfl
        · exact (lookup_append_of_not_mem _ _ _ hzk).symm

/-- **Substitution lemma** (value scope, aggregation nodes included): when `subst` is capture-avoiding and respects the
aggregation scope (`substOk` with the captured variables of `v` and its dependence on the aggregation scope), binding `x` to
the value of `v` and evaluating `t` is evaluating `t[v/x]`. -/
theorem eval_subst (x : Name) (v : IR) (t : IR) :
    ∀ ρ A, substOk x (fv v) (fva v) (usesAgg v) t = true →
      eval ((x, eval ρ A v) :: ρ) A t = eval ρ A (subst x v t) := by
  induction t
  case ref y =>
    intro ρ A _
    by_cases h : y = x
    · simp [subst, h, eval, lookup_cons]
    · have h' : ¬ x = y := fun e => h e.symm
      simp [subst, h, eval, lookup_cons, h']
  case i32 | i64 | f32 | f64 | str | bool | na | anil | snil | tnil => intros; simp [subst, eval]
  case agg op a _ => intro ρ A _; cases op <;> simp [subst, eval]
  case streamAgg y a q iha _ =>
    intro ρ A hs
    simp only [substOk, Bool.and_eq_true, decide_eq_true_eq, List.mem_append, not_or] at hs
    simp only [subst, eval]
    rw [iha ρ A hs.1]
    have hq : ∀ vs : List Val, eval ((x, eval ρ A v) :: ρ) (vs.map fun w => (y, w) :: (x, eval ρ A v) :: ρ) q
        = eval ρ (vs.map fun w => (y, w) :: ρ) q := by
      intro vs
      have hl : ∀ L, x ∉ L → Agree L ((x, eval ρ A v) :: ρ) ρ := by
        intro L hL z hz
        have : x ≠ z := fun e => hL (e ▸ hz)
        simp [lookup_cons, this]
      apply eval_agree q _ _ _ _ (hl _ hs.2.1)
      exact Rel2.of_map _ _ (fun w => (hl _ hs.2.2).cons_remove w) vs
    simp only [hq]
  case aggLet y e b _ ihb =>
    intro ρ A hs
    simp only [substOk, Bool.or_eq_true, Bool.and_eq_true, decide_eq_true_eq, Bool.not_eq_true'] at hs
    simp only [subst, eval]
    rcases hs with hs | hs
    · rw [subst_of_not_free x v b hs]
      apply eval_agree_env
      intro z hz
      have : x ≠ z := fun e => hs (e ▸ hz)
      simp [lookup_cons, this]
    · have hv : eval ρ A v = eval ρ (A.map fun σ => (y, eval σ [] e) :: σ) v := by
        rcases hs.1 with hd | hy
        · exact eval_A_irrel v ρ A _ hd
        · apply eval_agree v ρ ρ _ _ (fun _ _ => rfl)
          apply Rel2.map_right
          intro σ z hz
          have : y ≠ z := fun e => hy (e ▸ hz)
          simp [lookup_cons, this]
      rw [hv]
      exact ihb ρ _ hs.2
  case aggGroupBy c b _ ihb =>
    intro ρ A hs
    simp only [substOk, Bool.or_eq_true, Bool.and_eq_true, decide_eq_true_eq, Bool.not_eq_true'] at hs
    simp only [subst, eval]
    congr 1
    apply List.map_congr_left
    intro kv _
    congr 1
    rcases hs with hs | hs
    · rw [subst_of_not_free x v b hs]
      apply eval_agree_env
      intro z hz
      have : x ≠ z := fun e => hs (e ▸ hz)
      simp [lookup_cons, this]
    · rw [eval_A_irrel v ρ A _ hs.1]
      exact ihb ρ _ hs.2
  case aggFilter c b _ ihb | aggExplode y c b _ ihb =>
    intro ρ A hs
    simp only [substOk, Bool.or_eq_true, Bool.and_eq_true, decide_eq_true_eq, Bool.not_eq_true'] at hs
    simp only [subst, eval]
    rcases hs with hs | hs
    · rw [subst_of_not_free x v b hs]
      apply eval_agree_env
      intro z hz
      have : x ≠ z := fun e => hs (e ▸ hz)
      simp [lookup_cons, this]
    · rw [eval_A_irrel v ρ A _ hs.1]
      exact ihb ρ _ hs.2
  case cast | ascribe | isNA | un | arrayLen | toArray | toStream | getField | getTupleElement | toSet | toDict | applyFn =>
    rename_i ih
    intro ρ A hs
    simp only [subst, eval]
    rw [ih ρ A (by simpa [substOk] using hs)]
  case bin | cmp | acons | arrayRef | scons | insertField | tcons | dictGet =>
    rename_i iha ihb
    intro ρ A hs
    simp only [substOk, Bool.and_eq_true] at hs
    simp only [subst, eval]
    have e1 := iha ρ A hs.1
    have e2 := ihb ρ A hs.2
    simp only [e1, e2]
  case ite iha ihb ihc =>
    intro ρ A hs
    simp only [substOk, Bool.and_eq_true] at hs
    simp only [subst, eval]
    rw [iha ρ A hs.1.1, ihb ρ A hs.1.2, ihc ρ A hs.2]
  case let_ y e b ihe ihb =>
    intro ρ A hs
    simp only [substOk, Bool.and_eq_true, Bool.or_eq_true, decide_eq_true_eq] at hs
    simp only [subst, eval]
    rw [ihe ρ A hs.1]
    have key := eval_under_binders A x v b [(y, eval ρ A (subst x v e))] ρ
    simp only [keys, List.map_cons, List.map_nil, List.mem_singleton, List.cons_append, List.nil_append] at key
    by_cases hyx : y = x
    · subst hyx
      have := key (Or.inl rfl)
      simpa using this
    · have hxy : ¬ x = y := fun e => hyx e.symm
      rcases hs.2 with (h | h) | h
      · exact absurd h hyx
      · have := key (Or.inr (Or.inl h))
        simpa [hxy, hyx] using this
      · have := key (Or.inr (Or.inr ⟨by intro z hz; subst hz; exact h.1, fun ρ1 => ihb ρ1 A h.2⟩))
        simpa [hxy, hyx] using this
  case streamMap y e b ihe ihb =>
    intro ρ A hs
    simp only [substOk, Bool.and_eq_true, Bool.or_eq_true, decide_eq_true_eq] at hs
    simp only [subst, eval]
    rw [ihe ρ A hs.1]
    have hb : ∀ w, eval ((y, w) :: (x, eval ρ A v) :: ρ) A b = eval ((y, w) :: ρ) A (if y = x then b else subst x v b) := by
      intro w
      have key := eval_under_binders A x v b [(y, w)] ρ
      simp only [keys, List.map_cons, List.map_nil, List.mem_singleton, List.cons_append, List.nil_append] at key
      by_cases hyx : y = x
      · subst hyx
        have := key (Or.inl rfl)
        simpa using this
      · have hxy : ¬ x = y := fun e => hyx e.symm
        rcases hs.2 with (h | h) | h
        · exact absurd h hyx
        · have := key (Or.inr (Or.inl h))
          simpa [hxy, hyx] using this
        · have := key (Or.inr (Or.inr ⟨by intro z hz; subst hz; exact h.1, fun ρ1 => ihb ρ1 A h.2⟩))
          simpa [hxy, hyx] using this
    simp only [hb]
  case streamFilter y e b ihe ihb =>
    intro ρ A hs
    simp only [substOk, Bool.and_eq_true, Bool.or_eq_true, decide_eq_true_eq] at hs
    simp only [subst, eval]
    rw [ihe ρ A hs.1]
    have hb : ∀ w, eval ((y, w) :: (x, eval ρ A v) :: ρ) A b = eval ((y, w) :: ρ) A (if y = x then b else subst x v b) := by
      intro w
      have key := eval_under_binders A x v b [(y, w)] ρ
      simp only [keys, List.map_cons, List.map_nil, List.mem_singleton, List.cons_append, List.nil_append] at key
      by_cases hyx : y = x
      · subst hyx
        have := key (Or.inl rfl)
        simpa using this
      · have hxy : ¬ x = y := fun e => hyx e.symm
        rcases hs.2 with (h | h) | h
        · exact absurd h hyx
        · have := key (Or.inr (Or.inl h))
          simpa [hxy, hyx] using this
        · have := key (Or.inr (Or.inr ⟨by intro z hz; subst hz; exact h.1, fun ρ1 => ihb ρ1 A h.2⟩))
          simpa [hxy, hyx] using this
    simp only [hb]
  case streamFold acc w a z b iha ihz ihb =>
    intro ρ A hs
    simp only [substOk, Bool.and_eq_true, Bool.or_eq_true, decide_eq_true_eq] at hs
    simp only [subst, eval]
    rw [iha ρ A hs.1.1, ihz ρ A hs.1.2]
    have hb : ∀ s u, eval ((w, u) :: (acc, s) :: (x, eval ρ A v) :: ρ) A b
        = eval ((w, u) :: (acc, s) :: ρ) A (if acc = x ∨ w = x then b else subst x v b) := by
      intro s u
      have key := eval_under_binders A x v b [(w, u), (acc, s)] ρ
      simp only [keys, List.map_cons, List.map_nil, List.mem_cons, List.not_mem_nil, or_false, List.cons_append,
        List.nil_append] at key
      by_cases hyx : acc = x ∨ w = x
      · have hk : x = w ∨ x = acc := by rcases hyx with h | h; exact Or.inr h.symm; exact Or.inl h.symm
        have := key (Or.inl hk)
        simpa [hk, hyx] using this
      · have hk : ¬ (x = w ∨ x = acc) := by
          intro h; rcases h with h | h
          · exact hyx (Or.inr h.symm)
          · exact hyx (Or.inl h.symm)
        rcases hs.2 with (h | h) | h
        · exact absurd h hyx
        · have := key (Or.inr (Or.inl h))
          simpa [hk, hyx] using this
        · have := key (Or.inr (Or.inr ⟨by
            intro y hy; rcases hy with hy | hy
            · subst hy; exact h.1.2
            · subst hy; exact h.1.1, fun ρ1 => ihb ρ1 A h.2⟩))
          simpa [hk, hyx] using this
    simp only [hb]
  case streamScan acc w a z b iha ihz ihb =>
    intro ρ A hs
    simp only [substOk, Bool.and_eq_true, Bool.or_eq_true, decide_eq_true_eq] at hs
    simp only [subst, eval]
    rw [iha ρ A hs.1.1, ihz ρ A hs.1.2]
    have hb : ∀ s u, eval ((w, u) :: (acc, s) :: (x, eval ρ A v) :: ρ) A b
        = eval ((w, u) :: (acc, s) :: ρ) A (if acc = x ∨ w = x then b else subst x v b) := by
      intro s u
      have key := eval_under_binders A x v b [(w, u), (acc, s)] ρ
      simp only [keys, List.map_cons, List.map_nil, List.mem_cons, List.not_mem_nil, or_false, List.cons_append,
        List.nil_append] at key
      by_cases hyx : acc = x ∨ w = x
      · have hk : x = w ∨ x = acc := by rcases hyx with h | h; exact Or.inr h.symm; exact Or.inl h.symm
        have := key (Or.inl hk)
        simpa [hk, hyx] using this
      · have hk : ¬ (x = w ∨ x = acc) := by
          intro h; rcases h with h | h
          · exact hyx (Or.inr h.symm)
          · exact hyx (Or.inl h.symm)
        rcases hs.2 with (h | h) | h
        · exact absurd h hyx
        · have := key (Or.inr (Or.inl h))
          simpa [hk, hyx] using this
        · have := key (Or.inr (Or.inr ⟨by
            intro y hy; rcases hy with hy | hy
            · subst hy; exact h.1.2
            · subst hy; exact h.1.1, fun ρ1 => ihb ρ1 A h.2⟩))
          simpa [hk, hyx] using this
    simp only [hb]

/-! ## substitution in the aggregation scope -/

theorem substA_of_not_fva (x : Name) (v : IR) (t : IR) : x ∉ fva t → substA x v t = t := by
  induction t
  case ref | i32 | i64 | f32 | f64 | str | bool | na | anil | snil | tnil => intros; simp [substA]
  case cast | ascribe | isNA | un | arrayLen | toArray | toStream | getField | getTupleElement | toSet | toDict | applyFn =>
    rename_i ih; intro h; simp only [fva] at h; simp [substA, ih h]
  case bin | cmp | acons | arrayRef | scons | insertField | tcons | dictGet | let_ | streamMap | streamFilter =>
    rename_i iha ihb; intro h; simp only [fva, List.mem_append, not_or] at h; simp [substA, iha h.1, ihb h.2]
  case ite iha ihb ihc | streamFold iha ihb ihc | streamScan iha ihb ihc =>
    intro h; simp only [fva, List.mem_append, not_or] at h; simp [substA, iha h.1.1, ihb h.1.2, ihc h.2]
  case streamAgg y a q iha _ => intro h; simp only [fva] at h; simp [substA, iha h]
  case agg op a _ => intro h; simp only [fva] at h; simp [substA, subst_of_not_free x v a h]
  case aggFilter c b _ ihb | aggGroupBy c b _ ihb =>
    intro h; simp only [fva, List.mem_append, not_or] at h; simp [substA, subst_of_not_free x v c h.1, ihb h.2]
  case aggLet y e b _ ihb | aggExplode y e b _ ihb =>
    intro h; simp only [fva, List.mem_append, mem_remove, not_or, not_and, Decidable.not_not] at h
    simp only [substA, subst_of_not_free x v e h.1]
    by_cases hyx : y = x
    · simp [hyx]
    · have : x ∉ fva b := fun hm => hyx (h.2 hm).symm
      simp [hyx, ihb this]

/-- **Substitution lemma, aggregation scope**: extending every element environment by `x ↦ v` (what `AggLet x v` does) and
evaluating `t` is evaluating `t` with `v` substituted for `x` in its aggregation-scope children. -/
theorem eval_substA (x : Name) (v : IR) (t : IR) :
    ∀ ρ A, substAOk x (fv v) (fva v) (usesAgg v) t = true →
      eval ρ (A.map fun σ => (x, eval σ [] v) :: σ) t = eval ρ A (substA x v t) := by
  induction t
  case ref | i32 | i64 | f32 | f64 | str | bool | na | anil | snil | tnil => intros; simp [substA, eval]
  case cast | ascribe | isNA | un | arrayLen | toArray | toStream | getField | getTupleElement | toSet | toDict | applyFn =>
    rename_i ih
    intro ρ A hs
    simp only [substA, eval]
    rw [ih ρ A (by simpa [substAOk] using hs)]
  case bin | cmp | acons | arrayRef | scons | insertField | tcons | dictGet =>
    rename_i iha ihb
    intro ρ A hs
    simp only [substAOk, Bool.and_eq_true] at hs
    simp only [substA, eval]
    have e1 := iha ρ A hs.1
    have e2 := ihb ρ A hs.2
    simp only [e1, e2]
  case ite iha ihb ihc =>
    intro ρ A hs
    simp only [substAOk, Bool.and_eq_true] at hs
    simp only [substA, eval]
    rw [iha ρ A hs.1.1, ihb ρ A hs.1.2, ihc ρ A hs.2]
  case let_ y e b ihe ihb =>
    intro ρ A hs
    simp only [substAOk, Bool.and_eq_true] at hs
    simp only [substA, eval]
    rw [ihe ρ A hs.1, ihb _ A hs.2]
  case streamMap y e b ihe ihb =>
    intro ρ A hs
    simp only [substAOk, Bool.and_eq_true] at hs
    simp only [substA, eval]
    rw [ihe ρ A hs.1]
    have hb := fun w => ihb ((y, w) :: ρ) A hs.2
    simp only [hb]
  case streamFilter y e b ihe ihb =>
    intro ρ A hs
    simp only [substAOk, Bool.and_eq_true] at hs
    simp only [substA, eval]
    rw [ihe ρ A hs.1]
    have hb := fun w => ihb ((y, w) :: ρ) A hs.2
    simp only [hb]
  case streamFold acc w a z b iha ihz ihb =>
    intro ρ A hs
    simp only [substAOk, Bool.and_eq_true] at hs
    simp only [substA, eval]
    rw [iha ρ A hs.1.1, ihz ρ A hs.1.2]
    have hb := fun s u => ihb ((w, u) :: (acc, s) :: ρ) A hs.2
    simp only [hb]
  case streamScan acc w a z b iha ihz ihb =>
    intro ρ A hs
    simp only [substAOk, Bool.and_eq_true] at hs
    simp only [substA, eval]
    rw [iha ρ A hs.1.1, ihz ρ A hs.1.2]
    have hb := fun s u => ihb ((w, u) :: (acc, s) :: ρ) A hs.2
    simp only [hb]
  case streamAgg y a q iha _ =>
    intro ρ A hs
    simp only [substAOk] at hs
    simp only [substA, eval]
    rw [iha ρ A hs]
  case agg op a _ =>
    intro ρ A hs
    simp only [substAOk] at hs
    have : (A.map fun σ => (x, eval σ [] v) :: σ).map (fun σ => eval σ [] a) = A.map (fun σ => eval σ [] (subst x v a)) := by
      rw [List.map_map]
      apply List.map_congr_left
      intro σ _
      exact eval_subst x v a σ [] hs
    cases op <;> simp only [substA, eval, this]
  case aggFilter c b _ ihb =>
    intro ρ A hs
    simp only [substAOk, Bool.and_eq_true] at hs
    simp only [substA, eval]
    rw [List.filter_map]
    have hp : ((fun σ => isTrue (eval σ [] c)) ∘ fun σ => (x, eval σ [] v) :: σ) = fun σ => isTrue (eval σ [] (subst x v c)) := by
      funext σ
      simp only [Function.comp]
      rw [eval_subst x v c σ [] hs.1]
    rw [hp]
    exact ihb ρ _ hs.2
  case aggGroupBy c b _ ihb =>
    intro ρ A hs
    simp only [substAOk, Bool.and_eq_true] at hs
    simp only [substA, eval]
    have hc : ∀ σ, eval ((x, eval σ [] v) :: σ) [] c = eval σ [] (subst x v c) := fun σ => eval_subst x v c σ [] hs.1
    rw [List.map_map]
    have hm : ((fun σ => eval σ [] c) ∘ fun σ => (x, eval σ [] v) :: σ) = fun σ => eval σ [] (subst x v c) := by
      funext σ; exact hc σ
    rw [hm]
    congr 1
    apply List.map_congr_left
    intro kv _
    congr 1
    rw [List.filter_map]
    have hp : ((fun σ => keyEq (eval σ [] c) kv) ∘ fun σ => (x, eval σ [] v) :: σ)
        = fun σ => keyEq (eval σ [] (subst x v c)) kv := by
      funext σ; simp only [Function.comp, hc]
    rw [hp]
    exact ihb ρ _ hs.2
  case aggExplode y e b _ ihb =>
    intro ρ A hs
    simp only [substAOk, Bool.and_eq_true, Bool.or_eq_true, decide_eq_true_eq] at hs
    obtain ⟨hse, hyb⟩ := hs
    simp only [substA, eval]
    rw [List.flatMap_map]
    have he : ∀ σ, eval ((x, eval σ [] v) :: σ) [] e = eval σ [] (subst x v e) :=
      fun σ => eval_subst x v e σ [] hse
    by_cases hyx : y = x
    · rw [if_pos hyx]
      apply eval_agree b ρ ρ _ _ (fun _ _ => rfl)
      refine Rel2.flatMap _ _ ?_ (Rel2.refl (R := Eq) (fun _ => rfl) A)
      intro σ σ' hσ
      subst hσ
      simp only [he]
      cases asArr (eval σ [] (subst x v e)) with
      | error o => exact .nil
      | ok vs =>
        apply Rel2.of_map
        intro w z _
        simp only [lookup_cons, hyx]
        split <;> rfl
    · rw [if_neg hyx]
      rcases hyb with (hyb | hyb) | hyb
      · exact absurd hyb hyx
      · -- the body does not read `x` from the aggregation scope
        rw [substA_of_not_fva x v b hyb]
        apply eval_agree b ρ ρ _ _ (fun _ _ => rfl)
        refine Rel2.flatMap _ _ ?_ (Rel2.refl (R := Eq) (fun _ => rfl) A)
        intro σ σ' hσ
        subst hσ
        simp only [he]
        cases asArr (eval σ [] (subst x v e)) with
        | error o => exact .nil
        | ok vs =>
          apply Rel2.of_map
          intro w z hz
          have hxz : ¬ x = z := fun e => hyb (e ▸ hz)
          simp only [lookup_cons, hxz, if_false]
      · rw [← ihb ρ _ hyb.2, List.map_flatMap]
        apply eval_agree b ρ ρ _ _ (fun _ _ => rfl)
        refine Rel2.flatMap _ _ ?_ (Rel2.refl (R := Eq) (fun _ => rfl) A)
        intro σ σ' hσ
        subst hσ
        simp only [he]
        cases asArr (eval σ [] (subst x v e)) with
        | error o => exact .nil
        | ok vs =>
          simp only [explodeEnv, List.map_map]
          apply Rel2.of_map
          intro w z _
          simp only [Function.comp]
          have hv : eval ((y, w) :: σ) [] v = eval σ [] v := by
            apply eval_agree_env
            intro u hu
            have : y ≠ u := fun e => hyb.1 (e ▸ hu)
            simp [lookup_cons, this]
          rw [hv]
          simp only [lookup_cons]
          have hxy : ¬ x = y := fun e => hyx e.symm
          by_cases h1 : y = z
          · subst h1; simp [hxy]
          · simp [h1]
  case aggLet y e b _ ihb =>
    intro ρ A hs
    simp only [substAOk, Bool.and_eq_true, Bool.or_eq_true, decide_eq_true_eq] at hs
    obtain ⟨hse, hyb⟩ := hs
    simp only [substA, eval]
    rw [List.map_map]
    have he : ∀ σ, eval ((x, eval σ [] v) :: σ) [] e = eval σ [] (subst x v e) :=
      fun σ => eval_subst x v e σ [] hse
    by_cases hyx : y = x
    · rw [if_pos hyx]
      apply eval_agree b ρ ρ _ _ (fun _ _ => rfl)
      apply Rel2.of_map
      intro σ z _
      simp only [Function.comp, he, lookup_cons, hyx]
      split <;> rfl
    · rw [if_neg hyx]
      rcases hyb with (hyb | hyb) | hyb
      · exact absurd hyb hyx
      · rw [substA_of_not_fva x v b hyb]
        apply eval_agree b ρ ρ _ _ (fun _ _ => rfl)
        apply Rel2.of_map
        intro σ z hz
        have hxz : ¬ x = z := fun e => hyb (e ▸ hz)
        simp only [Function.comp, he, lookup_cons, hxz, if_false]
      · rw [← ihb ρ _ hyb.2, List.map_map]
        apply eval_agree b ρ ρ _ _ (fun _ _ => rfl)
        apply Rel2.of_map
        intro σ z _
        simp only [Function.comp, he]
        have hv : eval ((y, eval σ [] (subst x v e)) :: σ) [] v = eval σ [] v := by
          apply eval_agree_env
          intro u hu
          have : y ≠ u := fun e => hyb.1 (e ▸ hu)
          simp [lookup_cons, this]
        rw [hv]
        simp only [lookup_cons]
        have hxy : ¬ x = y := fun e => hyx e.symm
        by_cases h1 : y = z
        · subst h1; simp [hxy]
        · simp [h1]

/-! ## inlining the `__cse` bindings -/

/-- inlining the lifted bindings does not change the value, in any value scope and any aggregation scope -/
theorem eval_inlineCse (t : IR) : inlineOk t = true → ∀ ρ A, eval ρ A (inlineCse t) = eval ρ A t := by
  induction t
  case let_ x v b ihv ihb =>
    intro h ρ A
    simp only [inlineOk, Bool.and_eq_true, Bool.or_eq_true, Bool.not_eq_true'] at h
    obtain ⟨⟨hv, hb⟩, hc⟩ := h
    by_cases hx : isCse x = true
    · rcases hc with hc | hc
      · rw [hx] at hc; exact absurd hc (by simp)
      · simp only [inlineCse, hx, if_true]
        rw [← eval_subst x (inlineCse v) (inlineCse b) ρ A hc]
        simp only [eval]
        rw [ihv hv ρ A, ihb hb]
    · have hx' : isCse x = false := by simpa using hx
      simp only [inlineCse, hx', Bool.false_eq_true, if_false, eval]
      rw [ihv hv ρ A, ihb hb]
  case aggLet x v b ihv ihb =>
    intro h ρ A
    simp only [inlineOk, Bool.and_eq_true, Bool.or_eq_true, Bool.not_eq_true'] at h
    obtain ⟨⟨hv, hb⟩, hc⟩ := h
    have hvs : ∀ σ, eval σ [] (inlineCse v) = eval σ [] v := fun σ => ihv hv σ []
    by_cases hx : isCse x = true
    · rcases hc with hc | hc
      · rw [hx] at hc; exact absurd hc (by simp)
      · simp only [inlineCse, hx, if_true]
        rw [← eval_substA x (inlineCse v) (inlineCse b) ρ A hc]
        simp only [eval, hvs]
        rw [ihb hb]
    · have hx' : isCse x = false := by simpa using hx
      simp only [inlineCse, hx', Bool.false_eq_true, if_false, eval, hvs]
      rw [ihb hb]
  case ref | i32 | i64 | f32 | f64 | str | bool | na | anil | snil | tnil => intros; simp [inlineCse]
  case agg op a iha =>
    intro h ρ A; simp only [inlineOk] at h
    have := fun σ => iha h σ []
    cases op <;> simp [inlineCse, eval, this]
  case aggFilter c b ihc ihb | aggExplode y c b ihc ihb | aggGroupBy c b ihc ihb =>
    intro h ρ A; simp only [inlineOk, Bool.and_eq_true] at h
    have := fun σ => ihc h.1 σ []
    simp [inlineCse, eval, this, ihb h.2]
  case streamAgg x a q iha ihq =>
    intro h ρ A; simp only [inlineOk, Bool.and_eq_true] at h; simp [inlineCse, eval, iha h.1, ihq h.2]
  case cast | ascribe | isNA | un | arrayLen | toArray | toStream | getField | getTupleElement | toSet | toDict | applyFn =>
    rename_i ih; intro h ρ A; simp only [inlineOk] at h; simp [inlineCse, eval, ih h]
  case bin | cmp | acons | arrayRef | scons | insertField | tcons | dictGet | streamMap | streamFilter =>
    rename_i iha ihb; intro h ρ A; simp only [inlineOk, Bool.and_eq_true] at h; simp [inlineCse, eval, iha h.1, ihb h.2]
  case ite iha ihb ihc =>
    intro h ρ A; simp only [inlineOk, Bool.and_eq_true] at h; simp [inlineCse, eval, iha h.1.1, ihb h.1.2, ihc h.2]
  case streamFold iha ihb ihc =>
    intro h ρ A; simp only [inlineOk, Bool.and_eq_true] at h; simp [inlineCse, eval, iha h.1.1, ihb h.1.2, ihc h.2]
  case streamScan iha ihb ihc =>
    intro h ρ A; simp only [inlineOk, Bool.and_eq_true] at h; simp [inlineCse, eval, iha h.1.1, ihb h.1.2, ihc h.2]


/-! ## the scope checker decides `WellScoped` -/

theorem scopeOk_sound (t : IR) : ∀ Γ Δ, scopeOk Γ Δ t = true → WellScoped Γ Δ t := by
  induction t
  case ref x => intro Γ Δ h; exact .ref (by simpa [scopeOk] using h)
  case i32 => intros; exact .i32
  case i64 => intros; exact .i64
  case f32 => intros; exact .f32
  case f64 => intros; exact .f64
  case str => intros; exact .str
  case bool => intros; exact .bool
  case na => intros; exact .na
  case anil => intros; exact .anil
  case snil => intros; exact .snil
  case tnil => intros; exact .tnil
  case cast ih => intro Γ Δ h; exact .cast (ih Γ Δ (by simpa [scopeOk] using h))
  case ascribe ih => intro Γ Δ h; exact .ascribe (ih Γ Δ (by simpa [scopeOk] using h))
  case isNA ih => intro Γ Δ h; exact .isNA (ih Γ Δ (by simpa [scopeOk] using h))
  case un ih => intro Γ Δ h; exact .un (ih Γ Δ (by simpa [scopeOk] using h))
  case arrayLen ih => intro Γ Δ h; exact .arrayLen (ih Γ Δ (by simpa [scopeOk] using h))
  case toArray ih => intro Γ Δ h; exact .toArray (ih Γ Δ (by simpa [scopeOk] using h))
  case toStream ih => intro Γ Δ h; exact .toStream (ih Γ Δ (by simpa [scopeOk] using h))
  case getField ih => intro Γ Δ h; exact .getField (ih Γ Δ (by simpa [scopeOk] using h))
  case getTupleElement ih => intro Γ Δ h; exact .getTupleElement (ih Γ Δ (by simpa [scopeOk] using h))
  case toSet ih => intro Γ Δ h; exact .toSet (ih Γ Δ (by simpa [scopeOk] using h))
  case applyFn ih => intro Γ Δ h; exact .applyFn (ih Γ Δ (by simpa [scopeOk] using h))
  case toDict ih => intro Γ Δ h; exact .toDict (ih Γ Δ (by simpa [scopeOk] using h))
  case bin iha ihb =>
    intro Γ Δ h; simp only [scopeOk, Bool.and_eq_true] at h; exact .bin (iha Γ Δ h.1) (ihb Γ Δ h.2)
  case cmp iha ihb =>
    intro Γ Δ h; simp only [scopeOk, Bool.and_eq_true] at h; exact .cmp (iha Γ Δ h.1) (ihb Γ Δ h.2)
  case acons iha ihb =>
    intro Γ Δ h; simp only [scopeOk, Bool.and_eq_true] at h; exact .acons (iha Γ Δ h.1) (ihb Γ Δ h.2)
  case arrayRef iha ihb =>
    intro Γ Δ h; simp only [scopeOk, Bool.and_eq_true] at h; exact .arrayRef (iha Γ Δ h.1) (ihb Γ Δ h.2)
  case scons iha ihb =>
    intro Γ Δ h; simp only [scopeOk, Bool.and_eq_true] at h; exact .scons (iha Γ Δ h.1) (ihb Γ Δ h.2)
  case insertField iha ihb =>
    intro Γ Δ h; simp only [scopeOk, Bool.and_eq_true] at h; exact .insertField (iha Γ Δ h.1) (ihb Γ Δ h.2)
  case tcons iha ihb =>
    intro Γ Δ h; simp only [scopeOk, Bool.and_eq_true] at h; exact .tcons (iha Γ Δ h.1) (ihb Γ Δ h.2)
  case dictGet iha ihb =>
    intro Γ Δ h; simp only [scopeOk, Bool.and_eq_true] at h; exact .dictGet (iha Γ Δ h.1) (ihb Γ Δ h.2)
  case ite iha ihb ihc =>
    intro Γ Δ h; simp only [scopeOk, Bool.and_eq_true] at h; exact .ite (iha Γ Δ h.1.1) (ihb Γ Δ h.1.2) (ihc Γ Δ h.2)
  case let_ iha ihb =>
    intro Γ Δ h; simp only [scopeOk, Bool.and_eq_true] at h; exact .let_ (iha Γ Δ h.1) (ihb _ Δ h.2)
  case streamMap iha ihb =>
    intro Γ Δ h; simp only [scopeOk, Bool.and_eq_true] at h; exact .streamMap (iha Γ Δ h.1) (ihb _ Δ h.2)
  case streamFilter iha ihb =>
    intro Γ Δ h; simp only [scopeOk, Bool.and_eq_true] at h; exact .streamFilter (iha Γ Δ h.1) (ihb _ Δ h.2)
  case streamFold iha ihz ihb =>
    intro Γ Δ h; simp only [scopeOk, Bool.and_eq_true] at h
    exact .streamFold (iha Γ Δ h.1.1) (ihz Γ Δ h.1.2) (ihb _ Δ h.2)
  case streamScan iha ihz ihb =>
    intro Γ Δ h; simp only [scopeOk, Bool.and_eq_true] at h
    exact .streamScan (iha Γ Δ h.1.1) (ihz Γ Δ h.1.2) (ihb _ Δ h.2)
  case streamAgg iha ihq =>
    intro Γ Δ h; simp only [scopeOk, Bool.and_eq_true] at h; exact .streamAgg (iha Γ Δ h.1) (ihq Γ _ h.2)
  case aggLet ihv ihb =>
    intro Γ Δ h
    cases Δ with
    | none => simp [scopeOk] at h
    | some D => simp only [scopeOk, Bool.and_eq_true] at h; exact .aggLet (ihv D none h.1) (ihb Γ _ h.2)
  case aggFilter ihc ihb =>
    intro Γ Δ h
    cases Δ with
    | none => simp [scopeOk] at h
    | some D => simp only [scopeOk, Bool.and_eq_true] at h; exact .aggFilter (ihc D none h.1) (ihb Γ _ h.2)
  case agg iha =>
    intro Γ Δ h
    cases Δ with
    | none => simp [scopeOk] at h
    | some D => simp only [scopeOk] at h; exact .agg (iha D none h)
  case aggExplode ihv ihb =>
    intro Γ Δ h
    cases Δ with
    | none => simp [scopeOk] at h
    | some D => simp only [scopeOk, Bool.and_eq_true] at h; exact .aggExplode (ihv D none h.1) (ihb Γ _ h.2)
  case aggGroupBy ihc ihb =>
    intro Γ Δ h
    cases Δ with
    | none => simp [scopeOk] at h
    | some D => simp only [scopeOk, Bool.and_eq_true] at h; exact .aggGroupBy (ihc D none h.1) (ihb Γ _ h.2)

theorem scopeOk_complete {Γ Δ t} (h : WellScoped Γ Δ t) : scopeOk Γ Δ t = true := by
  induction h <;> simp_all [scopeOk]

/-- a well-scoped expression has all its free variables in scope: the value-scope ones in `Γ`, the aggregation-scope ones in the
aggregation scope (which then exists) -/
theorem fv_fva_of_wellScoped {Γ Δ t} (h : WellScoped Γ Δ t) :
    (∀ y ∈ fv t, y ∈ Γ) ∧ (∀ y ∈ fva t, ∃ D, Δ = some D ∧ y ∈ D) := by
  induction h
  case i32 | i64 | f32 | f64 | str | bool | na | anil | snil | tnil => simp [fv, fva]
  case ref hx =>
    simp only [fv, fva, List.mem_singleton, List.not_mem_nil]
    exact ⟨fun y hy => hy ▸ hx, fun y hy => hy.elim⟩
  case cast ih | ascribe ih | isNA ih | un ih | arrayLen ih | toArray ih | toStream ih | getField ih | getTupleElement ih | toSet ih
    | toDict ih | applyFn ih => simpa [fv, fva] using ih
  case bin iha ihb | cmp iha ihb | acons iha ihb | arrayRef iha ihb | scons iha ihb | insertField iha ihb | tcons iha ihb
    | dictGet iha ihb =>
    simp only [fv, fva, List.mem_append]
    exact ⟨fun y hy => hy.elim (iha.1 y) (ihb.1 y), fun y hy => hy.elim (iha.2 y) (ihb.2 y)⟩
  case ite iha ihb ihc =>
    simp only [fv, fva, List.mem_append]
    exact ⟨fun y hy => hy.elim (fun h => h.elim (iha.1 y) (ihb.1 y)) (ihc.1 y),
      fun y hy => hy.elim (fun h => h.elim (iha.2 y) (ihb.2 y)) (ihc.2 y)⟩
  case let_ iha ihb | streamMap iha ihb | streamFilter iha ihb =>
    simp only [fv, fva, List.mem_append, mem_remove]
    refine ⟨fun y hy => ?_, fun y hy => hy.elim (iha.2 y) (ihb.2 y)⟩
    rcases hy with hy | hy
    · exact iha.1 y hy
    · have := ihb.1 y hy.1
      simp only [List.mem_cons] at this
      exact this.resolve_left hy.2
  case streamFold iha ihz ihb | streamScan iha ihz ihb =>
    simp only [fv, fva, List.mem_append, mem_remove]
    refine ⟨fun y hy => ?_, fun y hy => hy.elim (fun h => h.elim (iha.2 y) (ihz.2 y)) (ihb.2 y)⟩
    rcases hy with (hy | hy) | hy
    · exact iha.1 y hy
    · exact ihz.1 y hy
    · have := ihb.1 y hy.1.1
      simp only [List.mem_cons] at this
      exact (this.resolve_left hy.1.2).resolve_left hy.2
  case streamAgg iha ihq =>
    simp only [fv, fva, List.mem_append, mem_remove]
    refine ⟨fun y hy => ?_, iha.2⟩
    rcases hy with (hy | hy) | hy
    · exact iha.1 y hy
    · exact ihq.1 y hy
    · obtain ⟨D, hD, hyD⟩ := ihq.2 y hy.1
      cases hD
      simp only [List.mem_cons] at hyD
      exact hyD.resolve_left hy.2
  case aggLet ihv ihb | aggExplode ihv ihb =>
    simp only [fv, fva, List.mem_append, mem_remove]
    refine ⟨ihb.1, fun y hy => ?_⟩
    rcases hy with hy | hy
    · exact ⟨_, rfl, ihv.1 y hy⟩
    · obtain ⟨D', hD, hyD⟩ := ihb.2 y hy.1
      cases hD
      simp only [List.mem_cons] at hyD
      exact ⟨_, rfl, hyD.resolve_left hy.2⟩
  case aggFilter ihc ihb | aggGroupBy ihc ihb =>
    simp only [fv, fva, List.mem_append]
    refine ⟨ihb.1, fun y hy => ?_⟩
    rcases hy with hy | hy
    · exact ⟨_, rfl, ihc.1 y hy⟩
    · exact ihb.2 y hy
  case agg iha =>
    simp only [fv, fva, List.not_mem_nil]
    exact ⟨fun y hy => hy.elim, fun y hy => ⟨_, rfl, iha.1 y hy⟩⟩

theorem fv_subset_of_wellScoped {Γ Δ t} (h : WellScoped Γ Δ t) : ∀ y ∈ fv t, y ∈ Γ := (fv_fva_of_wellScoped h).1

theorem fva_subset_of_wellScoped {Γ D t} (h : WellScoped Γ (some D) t) : ∀ y ∈ fva t, y ∈ D := by
  intro y hy
  obtain ⟨D', hD, hyD⟩ := (fv_fva_of_wellScoped h).2 y hy
  cases hD
  exact hyD

end HailVerif.ExprIR

namespace HailVerif.ExprIR

/-! ## one CSE step at the specification level: `let x = v in t[x/v] ≡ t` -/

theorem aggFree_abstractAt (x : Name) (v : IR) (F : List Name) (t : IR) :
    aggFree t = true → aggFree (abstractAt x v F t) = true := by
  induction t
  case streamAgg | aggLet | aggFilter | agg | aggExplode | aggGroupBy => intro h; simp [aggFree] at h
  case ref | i32 | i64 | f32 | f64 | str | bool | na | anil | snil | tnil =>
    intro _; simp only [abstractAt]; split <;> simp [aggFree]
  case cast | ascribe | isNA | un | arrayLen | toArray | toStream | getField | getTupleElement | toSet | toDict | applyFn =>
    rename_i ih; intro h; simp only [aggFree] at h; simp only [abstractAt]; split <;> simp [aggFree, ih h]
  case bin | cmp | acons | arrayRef | scons | insertField | tcons | dictGet =>
    rename_i iha ihb; intro h; simp only [aggFree, Bool.and_eq_true] at h
    simp only [abstractAt]; split <;> simp [aggFree, iha h.1, ihb h.2]
  case ite iha ihb ihc =>
    intro h; simp only [aggFree, Bool.and_eq_true] at h
    simp only [abstractAt]; split <;> simp [aggFree, iha h.1.1, ihb h.1.2, ihc h.2]
  case let_ iha ihb | streamMap iha ihb | streamFilter iha ihb =>
    intro h; simp only [aggFree, Bool.and_eq_true] at h
    simp only [abstractAt]; split
    · simp [aggFree]
    · simp only [aggFree, iha h.1, Bool.true_and]; split
      · exact h.2
      · exact ihb h.2
  case streamFold iha ihz ihb =>
    intro h; simp only [aggFree, Bool.and_eq_true] at h
    simp only [abstractAt]; split
    · simp [aggFree]
    · simp only [aggFree, iha h.1.1, ihz h.1.2, Bool.true_and]; split
      · exact h.2
      · exact ihb h.2
  case streamScan iha ihz ihb =>
    intro h; simp only [aggFree, Bool.and_eq_true] at h
    simp only [abstractAt]; split
    · simp [aggFree]
    · simp only [aggFree, iha h.1.1, ihz h.1.2, Bool.true_and]; split
      · exact h.2
      · exact ihb h.2

theorem subst_abstractAt (x : Name) (v : IR) (F : List Name) (t : IR) :
    x ∉ names t → subst x v (abstractAt x v F t) = t := by
  induction t
  case streamAgg | aggLet | aggFilter | agg | aggExplode | aggGroupBy => intro h; exact subst_of_not_names x v _ h
  case ref y =>
    intro h; simp only [names, List.mem_singleton] at h
    simp only [abstractAt]; split
    · rename_i e; simp [subst, e]
    · simp [subst, Ne.symm h]
  case i32 | i64 | f32 | f64 | str | bool | na | anil | snil | tnil =>
    intro _; simp only [abstractAt]; split
    · rename_i e; simp [subst, e]
    · simp [subst]
  case cast | ascribe | isNA | un | arrayLen | toArray | toStream | getField | getTupleElement | toSet | toDict | applyFn =>
    rename_i ih; intro h; simp only [names] at h
    simp only [abstractAt]; split
    · rename_i e; simp [subst, e]
    · simp [subst, ih h]
  case bin | cmp | acons | arrayRef | scons | insertField | tcons | dictGet =>
    rename_i iha ihb; intro h; simp only [names, List.mem_append, not_or] at h
    simp only [abstractAt]; split
    · rename_i e; simp [subst, e]
    · simp [subst, iha h.1, ihb h.2]
  case ite iha ihb ihc =>
    intro h; simp only [names, List.mem_append, not_or] at h
    simp only [abstractAt]; split
    · rename_i e; simp [subst, e]
    · simp [subst, iha h.1.1, ihb h.1.2, ihc h.2]
  case let_ y a b iha ihb | streamMap y a b iha ihb | streamFilter y a b iha ihb =>
    intro h; simp only [names, List.mem_cons, List.mem_append, not_or] at h
    obtain ⟨hxy, hxa, hxb⟩ := h
    have hyx : ¬ y = x := fun e => hxy e.symm
    simp only [abstractAt]; split
    · rename_i e; simp [subst, e]
    · simp only [subst, iha hxa, hyx, if_false]
      split
      · rw [subst_of_not_free x v b (fun hm => hxb (fv_subset_names b x hm))]
      · rw [ihb hxb]
  case streamFold acc w a z b iha ihz ihb =>
    intro h; simp only [names, List.mem_cons, List.mem_append, not_or] at h
    obtain ⟨hxacc, hxw, ⟨hxa, hxz⟩, hxb⟩ := h
    have h1 : ¬ (acc = x ∨ w = x) := by
      intro e; rcases e with e | e
      · exact hxacc e.symm
      · exact hxw e.symm
    simp only [abstractAt]; split
    · rename_i e; simp [subst, e]
    · simp only [subst, iha hxa, ihz hxz, h1, if_false]
      split
      · rw [subst_of_not_free x v b (fun hm => hxb (fv_subset_names b x hm))]
      · rw [ihb hxb]
  case streamScan acc w a z b iha ihz ihb =>
    intro h; simp only [names, List.mem_cons, List.mem_append, not_or] at h
    obtain ⟨hxacc, hxw, ⟨hxa, hxz⟩, hxb⟩ := h
    have h1 : ¬ (acc = x ∨ w = x) := by
      intro e; rcases e with e | e
      · exact hxacc e.symm
      · exact hxw e.symm
    simp only [abstractAt]; split
    · rename_i e; simp [subst, e]
    · simp only [subst, iha hxa, ihz hxz, h1, if_false]
      split
      · rw [subst_of_not_free x v b (fun hm => hxb (fv_subset_names b x hm))]
      · rw [ihb hxb]

theorem substOk_abstractAt (x : Name) (v : IR) (F FA : List Name) (dep : Bool) (t : IR) :
    aggFree t = true → x ∉ names t → substOk x F FA dep (abstractAt x v F t) = true := by
  induction t
  case streamAgg | aggLet | aggFilter | agg | aggExplode | aggGroupBy => intro h; simp [aggFree] at h
  case ref | i32 | i64 | f32 | f64 | str | bool | na | anil | snil | tnil =>
    intro _ _; simp only [abstractAt]; split <;> simp [substOk]
  case cast | ascribe | isNA | un | arrayLen | toArray | toStream | getField | getTupleElement | toSet | toDict | applyFn =>
    rename_i ih; intro ha hx; simp only [aggFree] at ha; simp only [names] at hx
    simp only [abstractAt]; split <;> simp [substOk, ih ha hx]
  case bin | cmp | acons | arrayRef | scons | insertField | tcons | dictGet =>
    rename_i iha ihb; intro ha hx
    simp only [aggFree, Bool.and_eq_true] at ha; simp only [names, List.mem_append, not_or] at hx
    simp only [abstractAt]; split <;> simp [substOk, iha ha.1 hx.1, ihb ha.2 hx.2]
  case ite iha ihb ihc =>
    intro ha hx
    simp only [aggFree, Bool.and_eq_true] at ha; simp only [names, List.mem_append, not_or] at hx
    simp only [abstractAt]; split <;> simp [substOk, iha ha.1.1 hx.1.1, ihb ha.1.2 hx.1.2, ihc ha.2 hx.2]
  case let_ y a b iha ihb | streamMap y a b iha ihb | streamFilter y a b iha ihb =>
    intro ha hx
    simp only [aggFree, Bool.and_eq_true] at ha
    simp only [names, List.mem_cons, List.mem_append, not_or] at hx
    obtain ⟨hxy, hxa, hxb⟩ := hx
    simp only [abstractAt]; split
    · simp [substOk]
    · simp only [substOk, iha ha.1 hxa, Bool.true_and, Bool.and_eq_true, Bool.or_eq_true, decide_eq_true_eq]
      split
      · rename_i hyF
        exact Or.inl (Or.inr (fun hm => hxb (fv_subset_names b x hm)))
      · rename_i hyF
        exact Or.inr ⟨hyF, ihb ha.2 hxb⟩
  case streamFold acc w a z b iha ihz ihb =>
    intro ha hx
    simp only [aggFree, Bool.and_eq_true] at ha
    simp only [names, List.mem_cons, List.mem_append, not_or] at hx
    obtain ⟨hxacc, hxw, ⟨hxa, hxz⟩, hxb⟩ := hx
    simp only [abstractAt]; split
    · simp [substOk]
    · simp only [substOk, iha ha.1.1 hxa, ihz ha.1.2 hxz, Bool.true_and, Bool.and_eq_true, Bool.or_eq_true,
        decide_eq_true_eq]
      split
      · exact Or.inl (Or.inr (fun hm => hxb (fv_subset_names b x hm)))
      · rename_i hF
        simp only [not_or] at hF
        exact Or.inr ⟨⟨hF.1, hF.2⟩, ihb ha.2 hxb⟩
  case streamScan acc w a z b iha ihz ihb =>
    intro ha hx
    simp only [aggFree, Bool.and_eq_true] at ha
    simp only [names, List.mem_cons, List.mem_append, not_or] at hx
    obtain ⟨hxacc, hxw, ⟨hxa, hxz⟩, hxb⟩ := hx
    simp only [abstractAt]; split
    · simp [substOk]
    · simp only [substOk, iha ha.1.1 hxa, ihz ha.1.2 hxz, Bool.true_and, Bool.and_eq_true, Bool.or_eq_true,
        decide_eq_true_eq]
      split
      · exact Or.inl (Or.inr (fun hm => hxb (fv_subset_names b x hm)))
      · rename_i hF
        simp only [not_or] at hF
        exact Or.inr ⟨⟨hF.1, hF.2⟩, ihb ha.2 hxb⟩

end HailVerif.ExprIR
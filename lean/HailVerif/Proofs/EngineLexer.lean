import HailVerif.Proofs.TypeStr
import HailVerif.Model.EngineLexer
/-! The engine's identifier lexing run on what `escape_parsable` emits (C31, engine half). -/
set_option linter.unusedSimpArgs false
namespace HailVerif.EngineLexer
open HailVerif.TypeStr HailVerif.Generated

theorem hex4Val_hex4 (c : Nat) (h : c < 65536) (X : List Nat) : hex4Val (hex4 c ++ X) = some (c, X) := by
  have hd : ∀ n, hexVal (hexDigit (n % 16)) = some (n % 16) := fun n => hexVal_hexDigit _ (Nat.mod_lt _ (by decide))
  simp only [hex4, List.cons_append, List.nil_append, hex4Val, hd]
  congr 2; omega

theorem utf16_small (s : Str) (h : ∀ c ∈ s, c < 65536) : utf16 s = s := by
  induction s with
  | nil => rfl
  | cons c s ih =>
    have hc : ¬ 65536 ≤ c := by have := h c (by simp); omega
    simp [utf16, hc, ih (fun d hd => h d (by simp [hd]))]

theorem quotedBody_plain (c x : Nat) (X : List Nat) (h1 : c ≠ 96) (h2 : c ≠ 92) :
    quotedBody 96 (c :: x :: X) = (quotedBody 96 (x :: X)).map fun p => (c :: p.1, p.2) := by
  simp [quotedBody, h1, h2]

theorem quotedBody_pair (d : Nat) (X : List Nat) (h : d ∈ IRLexer.escapeChars) :
    quotedBody 96 (92 :: d :: X) = (quotedBody 96 X).map fun p => (92 :: d :: p.1, p.2) := by
  simp [quotedBody, h]

/-! ## the text between the backticks as a sequence of tokens the engine admits

Both Python escapers (`escape_parsable`, `escape_str(…, backticked=True)`) write, per UTF-16 code unit of the name, one of:
the character itself, a two-character escape of `StringEscapeUtils.unescapeString`'s table, or `\uXXXX`. -/

inductive Tok where
  | plain (p : Nat)
  | simple (e v : Nat)
  | uni (a b c d v : Nat)

def Tok.text : Tok → List Nat
  | .plain p => [p]
  | .simple e _ => [92, e]
  | .uni a b c d _ => [92, 117, a, b, c, d]

def Tok.val : Tok → Nat
  | .plain p => p
  | .simple _ v => v
  | .uni _ _ _ _ v => v

def Tok.OK : Tok → Prop
  | .plain p => p ≠ 92 ∧ p ≠ 96
  | .simple e v => e ∈ IRLexer.escapeChars ∧ e ≠ IRLexer.unicodeEscapeLetter ∧ lookupEscape e IRLexer.simpleEscapes = some v
  | .uni a b c d v => (a ≠ 92 ∧ a ≠ 96) ∧ (b ≠ 92 ∧ b ≠ 96) ∧ (c ≠ 92 ∧ c ≠ 96) ∧ (d ≠ 92 ∧ d ≠ 96) ∧
      ∀ X, hex4Val (a :: b :: c :: d :: X) = some (v, X)

theorem quotedBody_tok (t : Tok) (ht : t.OK) (x : Nat) (X : List Nat) :
    quotedBody 96 (t.text ++ x :: X) = (quotedBody 96 (x :: X)).map fun p => (t.text ++ p.1, p.2) := by
  cases t with
  | plain p => simp only [Tok.text, List.cons_append, List.nil_append]; exact quotedBody_plain p x X ht.2 ht.1
  | simple e v => simp only [Tok.text, List.cons_append, List.nil_append]; rw [quotedBody_pair e _ ht.1]
  | uni a b c d v =>
    obtain ⟨ha, hb, hc, hd, _⟩ := ht
    simp only [Tok.text, List.cons_append, List.nil_append]
    rw [quotedBody_pair _ _ (by decide : 117 ∈ IRLexer.escapeChars), quotedBody_plain _ _ _ ha.2 ha.1,
      quotedBody_plain _ _ _ hb.2 hb.1, quotedBody_plain _ _ _ hc.2 hc.1, quotedBody_plain _ _ _ hd.2 hd.1]
    simp [Option.map_map, Function.comp_def]

theorem quotedBody_toks (ts : List Tok) (hts : ∀ t ∈ ts, t.OK) (rest : List Nat) :
    quotedBody 96 (ts.flatMap Tok.text ++ 96 :: rest) = some (ts.flatMap Tok.text, rest) := by
  induction ts with
  | nil => cases rest <;> simp [quotedBody]
  | cons t ts ih =>
    simp only [List.flatMap_cons, List.append_assoc]
    cases hX : ts.flatMap Tok.text ++ 96 :: rest with
    | nil => simp at hX
    | cons x X =>
      rw [quotedBody_tok t (hts t (by simp)), ← hX, ih (fun u hu => hts u (by simp [hu]))]; rfl

theorem unescapeString_tok (t : Tok) (ht : t.OK) (X : List Nat) (f : Nat) :
    unescapeString (f + 1) (t.text ++ X) = (unescapeString f X).map (t.val :: ·) := by
  cases t with
  | plain p => simp [Tok.text, Tok.val, unescapeString, ht.1]
  | simple e v =>
    obtain ⟨_, h2, h3⟩ := ht
    simp [Tok.text, Tok.val, unescapeString, h2, h3]
  | uni a b c d v =>
    obtain ⟨_, _, _, _, h5⟩ := ht
    simp only [Tok.text, Tok.val, List.cons_append, List.nil_append, unescapeString, IRLexer.unicodeEscapeLetter]
    simp [h5 X]
    omega

theorem unescapeString_toks (ts : List Tok) (hts : ∀ t ∈ ts, t.OK) :
    ∀ f, ts.length + 1 ≤ f → unescapeString f (ts.flatMap Tok.text) = some (ts.map Tok.val) := by
  induction ts with
  | nil => intro f hf; cases f with
    | zero => omega
    | succ f => simp [unescapeString]
  | cons t ts ih =>
    intro f hf
    cases f with
    | zero => omega
    | succ f =>
      simp only [List.flatMap_cons, List.map_cons]
      rw [unescapeString_tok t (hts t (by simp)), ih (fun u hu => hts u (by simp [hu])) f (by simp at hf; omega)]
      rfl

theorem toks_text_length (ts : List Tok) : ts.length ≤ (ts.flatMap Tok.text).length := by
  induction ts with
  | nil => simp
  | cons t ts ih =>
    have h1 : 1 ≤ t.text.length := by cases t <;> simp [Tok.text]
    simp only [List.flatMap_cons, List.length_append, List.length_cons]
    omega

/-- lexing a backticked literal whose body is a token sequence -/
theorem quotedLiteral_toks (ts : List Tok) (hts : ∀ t ∈ ts, t.OK) (rest : List Nat) :
    quotedLiteral 96 (96 :: (ts.flatMap Tok.text ++ 96 :: rest)) = some (ts.map Tok.val, rest) := by
  have hq := quotedBody_toks ts hts rest
  have hu := unescapeString_toks ts hts ((ts.flatMap Tok.text).length + 1) (by have := toks_text_length ts; omega)
  generalize ts.flatMap Tok.text = body at hq hu
  simp [quotedLiteral, skipJavaWs, javaSpace, hq, hu]

/-! ## `escape_parsable`: tokens of one character -/

def uniTok (v : Nat) : Tok :=
  .uni (hexDigit (v / 4096 % 16)) (hexDigit (v / 256 % 16)) (hexDigit (v / 16 % 16)) (hexDigit (v % 16)) v

theorem uniTok_text (v : Nat) : (uniTok v).text = 92 :: 117 :: hex4 v := rfl

theorem uniTok_OK (v : Nat) (hv : v < 65536) : (uniTok v).OK := by
  have hd : ∀ n, hexDigit (n % 16) ≠ 92 ∧ hexDigit (n % 16) ≠ 96 := fun n =>
    ⟨(hexDigit_ne _ (Nat.mod_lt _ (by decide))).1, (hexDigit_ne _ (Nat.mod_lt _ (by decide))).2.1⟩
  refine ⟨hd _, hd _, hd _, hd _, ?_⟩
  intro X
  have := hex4Val_hex4 v hv X
  simpa [hex4] using this

def parsableToks (c : Nat) : List Tok :=
  if c = 92 then [.simple 92 92]
  else if c = 9 then [.simple 116 9]
  else if c = 10 then [.simple 110 10]
  else if c = 13 then [.simple 114 13]
  else if 32 ≤ c ∧ c < 127 then (if c = 96 then [.simple 96 96] else [.plain c])
  else if c < 65536 then [uniTok c]
  else [uniTok (55296 + (c - 65536) / 1024), uniTok (56320 + (c - 65536) % 1024)]

theorem hex4_noBacktick' (c : Nat) : replaceBacktick (hex4 c) = hex4 c := hex4_noBacktick c

theorem parsableToks_text (c : Nat) : (parsableToks c).flatMap Tok.text = escBodyChar c := by
  unfold parsableToks escBodyChar parsableEscapeChar
  by_cases h1 : c = 92
  · subst h1; simp [Tok.text, replaceBacktick]
  by_cases h2 : c = 9
  · subst h2; simp [Tok.text, replaceBacktick]
  by_cases h3 : c = 10
  · subst h3; simp [Tok.text, replaceBacktick]
  by_cases h4 : c = 13
  · subst h4; simp [Tok.text, replaceBacktick]
  by_cases h5 : 32 ≤ c ∧ c < 127
  · by_cases h6 : c = 96
    · subst h6; simp [Tok.text, replaceBacktick]
    · simp [h1, h2, h3, h4, h5, h6, Tok.text, replaceBacktick]
  by_cases h7 : c < 65536
  · rw [if_neg h1, if_neg h2, if_neg h3, if_neg h4, if_neg h5, if_pos h7, if_neg h1, if_neg h2, if_neg h3, if_neg h4,
      if_neg h5, if_pos h7]
    rw [replaceBacktick_cons, replaceBacktick_cons, hex4_noBacktick]
    simp [uniTok_text]
  · rw [if_neg h1, if_neg h2, if_neg h3, if_neg h4, if_neg h5, if_neg h7, if_neg h1, if_neg h2, if_neg h3, if_neg h4,
      if_neg h5, if_neg h7]
    rw [replaceBacktick_cons, replaceBacktick_cons, replaceBacktick_append, replaceBacktick_cons, replaceBacktick_cons,
      hex4_noBacktick, hex4_noBacktick]
    simp [uniTok_text]

theorem parsableToks_OK (c : Nat) (hc : c < 1114112) : ∀ t ∈ parsableToks c, t.OK := by
  unfold parsableToks
  intro t ht
  by_cases h1 : c = 92
  · subst h1; simp at ht; subst ht; exact ⟨by decide, by decide, by decide⟩
  by_cases h2 : c = 9
  · subst h2; simp at ht; subst ht; exact ⟨by decide, by decide, by decide⟩
  by_cases h3 : c = 10
  · subst h3; simp at ht; subst ht; exact ⟨by decide, by decide, by decide⟩
  by_cases h4 : c = 13
  · subst h4; simp at ht; subst ht; exact ⟨by decide, by decide, by decide⟩
  by_cases h5 : 32 ≤ c ∧ c < 127
  · by_cases h6 : c = 96
    · subst h6; simp at ht; subst ht; exact ⟨by decide, by decide, by decide⟩
    · simp [h1, h2, h3, h4, h5, h6] at ht; subst ht; exact ⟨h1, h6⟩
  by_cases h7 : c < 65536
  · simp [h1, h2, h3, h4, h5, h7] at ht; subst ht; exact uniTok_OK c h7
  · simp [h1, h2, h3, h4, h5, h7] at ht
    rcases ht with rfl | rfl
    · exact uniTok_OK _ (by omega)
    · exact uniTok_OK _ (by omega)

theorem utf16_single_small (c : Nat) (h : c < 65536) : utf16 [c] = [c] := by
  simp only [utf16]; rw [if_neg (by omega)]

theorem utf16_single_big (c : Nat) (h : 65536 ≤ c) :
    utf16 [c] = [55296 + (c - 65536) / 1024, 56320 + (c - 65536) % 1024] := by
  simp only [utf16]; rw [if_pos h]

theorem parsableToks_astral (c : Nat) (hb : ¬ c < 65536) :
    parsableToks c = [uniTok (55296 + (c - 65536) / 1024), uniTok (56320 + (c - 65536) % 1024)] := by
  unfold parsableToks
  have h1 : ¬ c = 92 := by omega
  have h2 : ¬ c = 9 := by omega
  have h3 : ¬ c = 10 := by omega
  have h4 : ¬ c = 13 := by omega
  have h5 : ¬ (32 ≤ c ∧ c < 127) := by omega
  rw [if_neg h1, if_neg h2, if_neg h3, if_neg h4, if_neg h5, if_neg hb]

theorem map_val_pair (a b : Nat) : [uniTok a, uniTok b].map Tok.val = [a, b] := rfl

theorem parsableToks_val (c : Nat) : (parsableToks c).map Tok.val = utf16 [c] := by
  by_cases hb : c < 65536
  · rw [utf16_single_small c hb]
    unfold parsableToks
    by_cases h1 : c = 92
    · simp [h1, Tok.val]
    by_cases h2 : c = 9
    · simp [h2, Tok.val]
    by_cases h3 : c = 10
    · simp [h3, Tok.val]
    by_cases h4 : c = 13
    · simp [h4, Tok.val]
    by_cases h5 : 32 ≤ c ∧ c < 127
    · by_cases h6 : c = 96
      · simp [h6, Tok.val]
      · simp [h1, h2, h3, h4, h5, h6, Tok.val]
    · simp [h1, h2, h3, h4, h5, hb, Tok.val, uniTok]
  · rw [utf16_single_big c (by omega), parsableToks_astral c hb]
    exact map_val_pair _ _

theorem utf16_cons (c : Nat) (s : Str) : utf16 (c :: s) = utf16 [c] ++ utf16 s := by
  simp only [utf16]; split <;> simp

/-- the body `escape_parsable` writes is a sequence of admissible tokens whose values are the UTF-16 code units of the name -/
theorem parsable_body_toks (s : Str) (hs : ∀ c ∈ s, c < 1114112) :
    ∃ ts : List Tok, (∀ t ∈ ts, t.OK) ∧ ts.flatMap Tok.text = replaceBacktick (parsableEscape s) ∧ ts.map Tok.val = utf16 s := by
  induction s with
  | nil => exact ⟨[], by simp, by simp [parsableEscape, replaceBacktick], by simp [utf16]⟩
  | cons c s ih =>
    obtain ⟨ts, h1, h2, h3⟩ := ih (fun d hd => hs d (by simp [hd]))
    refine ⟨parsableToks c ++ ts, ?_, ?_, ?_⟩
    · intro t ht
      rcases List.mem_append.1 ht with ht | ht
      · exact parsableToks_OK c (hs c (by simp)) t ht
      · exact h1 t ht
    · rw [List.flatMap_append, parsableToks_text, h2, escBody_cons]
    · rw [List.map_append, parsableToks_val, h3, utf16_cons c s]

theorem body_ascii (s : Str) : ∀ b ∈ replaceBacktick (parsableEscape s), b < 65536 := by
  intro b hb
  simp only [replaceBacktick, List.mem_flatMap] at hb
  obtain ⟨c, hc, hb⟩ := hb
  have := parsableEscape_ascii s c hc
  split at hb <;> simp at hb <;> omega

/-! ## `escape_id` / `escape_str(…, backticked=True)`: tokens of one character -/

theorem upperHexAux_small (f n : Nat) (acc : Str) (h : n < 16) : upperHexAux (f + 1) n acc = hexDigitU n :: acc := by
  simp [upperHexAux, h]

theorem upperHexAux_step (f n : Nat) (acc : Str) (h : ¬ n < 16) :
    upperHexAux (f + 1) n acc = upperHexAux f (n / 16) (hexDigitU (n % 16) :: acc) := by
  simp [upperHexAux, h]

/-- `"{0:04X}".format(v)` for a UTF-16 code unit: exactly four upper-case digits -/
theorem upperHex4_eq (v : Nat) (h : v < 65536) :
    upperHex4 v = [hexDigitU (v / 4096 % 16), hexDigitU (v / 256 % 16), hexDigitU (v / 16 % 16), hexDigitU (v % 16)] := by
  unfold upperHex4
  by_cases h1 : v < 16
  · have e1 : v / 4096 % 16 = 0 := by omega
    have e2 : v / 256 % 16 = 0 := by omega
    have e3 : v / 16 % 16 = 0 := by omega
    have e4 : v % 16 = v := by omega
    rw [upperHexAux_small v v [] h1, e1, e2, e3, e4]
    rfl
  by_cases h2 : v < 256
  · obtain ⟨f, rfl⟩ : ∃ f, v = f + 1 := ⟨v - 1, by omega⟩
    have e1 : (f + 1) / 4096 % 16 = 0 := by omega
    have e2 : (f + 1) / 256 % 16 = 0 := by omega
    have e3 : (f + 1) / 16 % 16 = (f + 1) / 16 := by omega
    rw [upperHexAux_step _ _ _ h1, upperHexAux_small f _ _ (by omega), e1, e2, e3]
    rfl
  by_cases h3 : v < 4096
  · obtain ⟨f, rfl⟩ : ∃ f, v = f + 2 := ⟨v - 2, by omega⟩
    have e1 : (f + 2) / 4096 % 16 = 0 := by omega
    have e2 : (f + 2) / 256 % 16 = (f + 2) / 16 / 16 := by omega
    have e3 : (f + 2) / 16 % 16 = (f + 2) / 16 % 16 := rfl
    rw [upperHexAux_step _ _ _ h1, upperHexAux_step (f + 1) _ _ (by omega), upperHexAux_small f _ _ (by omega), e1, e2]
    rfl
  · obtain ⟨f, rfl⟩ : ∃ f, v = f + 3 := ⟨v - 3, by omega⟩
    have e1 : (f + 3) / 4096 % 16 = (f + 3) / 16 / 16 / 16 := by omega
    have e2 : (f + 3) / 256 % 16 = (f + 3) / 16 / 16 % 16 := by omega
    rw [upperHexAux_step _ _ _ h1, upperHexAux_step (f + 2) _ _ (by omega), upperHexAux_step (f + 1) _ _ (by omega),
      upperHexAux_small f _ _ (by omega), e1, e2]
    rfl

theorem hexVal_hexDigitU (d : Nat) (h : d < 16) : hexVal (hexDigitU d) = some d := by
  have : ∀ d, d < 16 → hexVal (hexDigitU d) = some d := by decide
  exact this d h

theorem hexDigitU_ne (d : Nat) (h : d < 16) : hexDigitU d ≠ 92 ∧ hexDigitU d ≠ 96 := by
  unfold hexDigitU; split <;> omega

def uniTokU (v : Nat) : Tok :=
  .uni (hexDigitU (v / 4096 % 16)) (hexDigitU (v / 256 % 16)) (hexDigitU (v / 16 % 16)) (hexDigitU (v % 16)) v

theorem uniTokU_text (v : Nat) (hv : v < 65536) : (uniTokU v).text = 92 :: 117 :: upperHex4 v := by
  rw [upperHex4_eq v hv]; rfl

theorem uniTokU_OK (v : Nat) (hv : v < 65536) : (uniTokU v).OK := by
  have hd : ∀ n, hexDigitU (n % 16) ≠ 92 ∧ hexDigitU (n % 16) ≠ 96 := fun n => hexDigitU_ne _ (Nat.mod_lt _ (by decide))
  have hv' : ∀ n, hexVal (hexDigitU (n % 16)) = some (n % 16) := fun n => hexVal_hexDigitU _ (Nat.mod_lt _ (by decide))
  refine ⟨hd _, hd _, hd _, hd _, ?_⟩
  intro X
  simp only [hex4Val, hv']
  congr 2; omega

theorem map_val_pairU (a b : Nat) : [uniTokU a, uniTokU b].map Tok.val = [a, b] := rfl

def idToks (c : Nat) : List Tok :=
  if c > 65535 then [uniTokU (55296 + (c - 65536) / 1024), uniTokU (56320 + (c - 65536) % 1024)]
  else if c > 127 then [uniTokU c]
  else if c < 32 then
    if c = 8 then [.simple 98 8] else if c = 10 then [.simple 110 10] else if c = 9 then [.simple 116 9]
    else if c = 12 then [.simple 102 12] else if c = 13 then [.simple 114 13]
    else [uniTokU c]
  else if c = 34 then [.plain 34]
  else if c = 96 then [.simple 96 96]
  else if c = 92 then [.simple 92 92]
  else [.plain c]

theorem simpleTok_OK (e v : Nat) (h1 : e ∈ IRLexer.escapeChars) (h2 : e ≠ IRLexer.unicodeEscapeLetter)
    (h3 : lookupEscape e IRLexer.simpleEscapes = some v) : ∀ t ∈ [Tok.simple e v], t.OK := by
  intro t ht; simp only [List.mem_singleton] at ht; subst ht; exact ⟨h1, h2, h3⟩

theorem uniTokU_text_small (v : Nat) : ∀ b ∈ (uniTokU v).text, b < 128 := by
  have hd : ∀ n, hexDigitU (n % 16) < 128 := by
    intro n; unfold hexDigitU; split <;> omega
  intro b hb
  simp only [uniTokU, Tok.text, List.mem_cons, List.not_mem_nil, or_false] at hb
  rcases hb with rfl | rfl | rfl | rfl | rfl | rfl
  · omega
  · omega
  · exact hd _
  · exact hd _
  · exact hd _
  · exact hd _

theorem text_pairU (a b : Nat) (ha : a < 65536) (hb : b < 65536) :
    [uniTokU a, uniTokU b].flatMap Tok.text = 92 :: 117 :: (upperHex4 a ++ 92 :: 117 :: upperHex4 b) := by
  simp only [List.flatMap_cons, List.flatMap_nil, List.append_nil]
  rw [uniTokU_text a ha, uniTokU_text b hb]
  simp

/-- the per-character facts: text, admissibility, values, and every character of the text is ASCII -/
theorem idToks_spec (c : Nat) (hc : c < 1114112) :
    (idToks c).flatMap Tok.text = escapeStrChar c ∧ (∀ t ∈ idToks c, t.OK) ∧ (idToks c).map Tok.val = utf16 [c] ∧
      ∀ t ∈ idToks c, ∀ b ∈ t.text, b < 128 := by
  unfold idToks escapeStrChar
  by_cases h0 : c > 65535
  · rw [if_pos h0, if_pos h0, utf16_single_big c (by omega)]
    refine ⟨?_, ?_, map_val_pairU _ _, ?_⟩
    · exact text_pairU _ _ (by omega) (by omega)
    · intro t ht
      simp only [List.mem_cons, List.not_mem_nil, or_false] at ht
      rcases ht with rfl | rfl
      · exact uniTokU_OK _ (by omega)
      · exact uniTokU_OK _ (by omega)
    · intro t ht
      simp only [List.mem_cons, List.not_mem_nil, or_false] at ht
      rcases ht with rfl | rfl <;> exact uniTokU_text_small _
  rw [if_neg h0, if_neg h0, utf16_single_small c (by omega)]
  have uni1 : [uniTokU c].flatMap Tok.text = 92 :: 117 :: upperHex4 c ∧ (∀ t ∈ [uniTokU c], t.OK) ∧
      [uniTokU c].map Tok.val = [c] ∧ ∀ t ∈ [uniTokU c], ∀ b ∈ t.text, b < 128 := by
    refine ⟨by simp [uniTokU_text c (by omega)], ?_, rfl, ?_⟩
    · intro t ht; simp only [List.mem_singleton] at ht; subst ht; exact uniTokU_OK c (by omega)
    · intro t ht; simp only [List.mem_singleton] at ht; subst ht; exact uniTokU_text_small c
  have simp1 : ∀ e v, e < 128 → v = c → e ∈ IRLexer.escapeChars → e ≠ IRLexer.unicodeEscapeLetter →
      lookupEscape e IRLexer.simpleEscapes = some v →
      [Tok.simple e v].flatMap Tok.text = [92, e] ∧ (∀ t ∈ [Tok.simple e v], t.OK) ∧ [Tok.simple e v].map Tok.val = [c] ∧
        ∀ t ∈ [Tok.simple e v], ∀ b ∈ t.text, b < 128 := by
    intro e v he hv h1 h2 h3
    refine ⟨rfl, simpleTok_OK e v h1 h2 h3, by simp [Tok.val, hv], ?_⟩
    intro t ht b hb; simp only [List.mem_singleton] at ht; subst ht
    simp only [Tok.text, List.mem_cons, List.not_mem_nil, or_false] at hb
    rcases hb with rfl | rfl <;> omega
  have plain1 : c < 128 → c ≠ 92 → c ≠ 96 → [Tok.plain c].flatMap Tok.text = [c] ∧ (∀ t ∈ [Tok.plain c], t.OK) ∧
      [Tok.plain c].map Tok.val = [c] ∧ ∀ t ∈ [Tok.plain c], ∀ b ∈ t.text, b < 128 := by
    intro h1 h2 h3
    refine ⟨rfl, ?_, rfl, ?_⟩
    · intro t ht; simp only [List.mem_singleton] at ht; subst ht; exact ⟨h2, h3⟩
    · intro t ht b hb; simp only [List.mem_singleton] at ht; subst ht
      simp only [Tok.text, List.mem_singleton] at hb; omega
  by_cases h1 : c > 127
  · rw [if_pos h1, if_pos h1]; exact uni1
  rw [if_neg h1, if_neg h1]
  by_cases h2 : c < 32
  · rw [if_pos h2, if_pos h2]
    by_cases a1 : c = 8
    · rw [if_pos a1, if_pos a1]; exact simp1 98 8 (by omega) a1.symm (by decide) (by decide) (by decide)
    rw [if_neg a1, if_neg a1]
    by_cases a2 : c = 10
    · rw [if_pos a2, if_pos a2]; exact simp1 110 10 (by omega) a2.symm (by decide) (by decide) (by decide)
    rw [if_neg a2, if_neg a2]
    by_cases a3 : c = 9
    · rw [if_pos a3, if_pos a3]; exact simp1 116 9 (by omega) a3.symm (by decide) (by decide) (by decide)
    rw [if_neg a3, if_neg a3]
    by_cases a4 : c = 12
    · rw [if_pos a4, if_pos a4]; exact simp1 102 12 (by omega) a4.symm (by decide) (by decide) (by decide)
    rw [if_neg a4, if_neg a4]
    by_cases a5 : c = 13
    · rw [if_pos a5, if_pos a5]; exact simp1 114 13 (by omega) a5.symm (by decide) (by decide) (by decide)
    rw [if_neg a5, if_neg a5]; exact uni1
  rw [if_neg h2, if_neg h2]
  by_cases b1 : c = 34
  · rw [if_pos b1, if_pos b1]
    have := plain1 (by omega) (by omega) (by omega)
    rw [b1] at this; rw [b1]; exact this
  rw [if_neg b1, if_neg b1]
  by_cases b2 : c = 96
  · rw [if_pos b2, if_pos b2]; exact simp1 96 96 (by omega) b2.symm (by decide) (by decide) (by decide)
  rw [if_neg b2, if_neg b2]
  by_cases b3 : c = 92
  · rw [if_pos b3, if_pos b3]; exact simp1 92 92 (by omega) b3.symm (by decide) (by decide) (by decide)
  rw [if_neg b3, if_neg b3]
  exact plain1 (by omega) b3 b2

/-- the body `escape_id` writes is a sequence of admissible tokens whose values are the UTF-16 code units of the name -/
theorem id_body_toks (s : Str) (hs : ∀ c ∈ s, c < 1114112) :
    ∃ ts : List Tok, (∀ t ∈ ts, t.OK) ∧ ts.flatMap Tok.text = s.flatMap escapeStrChar ∧ ts.map Tok.val = utf16 s := by
  induction s with
  | nil => exact ⟨[], by simp, by simp, by simp [utf16]⟩
  | cons c s ih =>
    obtain ⟨ts, h1, h2, h3⟩ := ih (fun d hd => hs d (by simp [hd]))
    obtain ⟨g1, g2, g3, _⟩ := idToks_spec c (hs c (by simp))
    refine ⟨idToks c ++ ts, ?_, ?_, ?_⟩
    · intro t ht
      rcases List.mem_append.1 ht with ht | ht
      · exact g2 t ht
      · exact h1 t ht
    · rw [List.flatMap_append, g1, h2]; simp
    · rw [List.map_append, g3, h3, utf16_cons c s]

theorem escapeStrChar_small (c : Nat) (hc : c < 1114112) : ∀ b ∈ escapeStrChar c, b < 65536 := by
  intro b hb
  obtain ⟨g1, _, _, g4⟩ := idToks_spec c hc
  rw [← g1] at hb
  simp only [List.mem_flatMap] at hb
  obtain ⟨t, ht, hb⟩ := hb
  have := g4 t ht b hb
  omega

variable (jc : JavaClasses)

theorem spanPart_all (n : List Nat) (rest : List Nat) (hn : ∀ c ∈ n, jc.part c = true)
    (hr : ∀ p r, rest = p :: r → jc.part p = false) : spanPart jc (n ++ rest) = (n, rest) := by
  induction n with
  | nil =>
    cases rest with
    | nil => rfl
    | cons p r => simp [spanPart, hr p r rfl]
  | cons c n ih => simp [spanPart, hn c (by simp), ih (fun d hd => hn d (by simp [hd]))]

end HailVerif.EngineLexer

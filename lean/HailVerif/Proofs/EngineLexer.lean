import HailVerif.Proofs.TypeStr
import HailVerif.Model.EngineLexer
/-! The engine's identifier lexing run on what `escape_parsable` emits (C31, engine half). -/
set_option linter.unusedSimpArgs false
namespace HailVerif.EngineLexer
open HailVerif.TypeStr HailVerif.Generated

/-- code points whose `unicode_escape` form uses only escapes the engine admits: `\t \n \r`, printable ASCII (with `\\` and
the backtick escape), and `\uXXXX` for U+0100–U+FFFF -/
def EscOK (c : Nat) : Prop := c = 9 ∨ c = 10 ∨ c = 13 ∨ (32 ≤ c ∧ c < 127) ∨ (256 ≤ c ∧ c < 65536)

theorem hex4Val_hex4 (c : Nat) (h : c < 65536) (X : List Nat) : hex4Val (hex4 c ++ X) = some (c, X) := by
  have hd : ∀ n, hexVal (hexDigit (n % 16)) = some (n % 16) := fun n => hexVal_hexDigit _ (Nat.mod_lt _ (by decide))
  simp only [hex4, List.cons_append, List.nil_append, hex4Val, hd]
  congr 2; omega

theorem utf16_small (s : Str) (h : ∀ c ∈ s, c < 65536) : utf16 s = s := by
  induction s with
  | nil => rfl
  | cons c s ih =>
    have hc : ¬ 65536 ≤ c := by have := h c (by simp); omega
    simp [utf16, hc, ih (fun d hd => h d (by simp [hd]))]

theorem quotedBody_plain (c x : Nat) (X : List Nat) (h1 : c ≠ 96) (h2 : c ≠ 92) :
    quotedBody 96 (c :: x :: X) = (quotedBody 96 (x :: X)).map fun p => (c :: p.1, p.2) := by
  simp [quotedBody, h1, h2]

theorem quotedBody_pair (d : Nat) (X : List Nat) (h : d ∈ IRLexer.escapeChars) :
    quotedBody 96 (92 :: d :: X) = (quotedBody 96 X).map fun p => (92 :: d :: p.1, p.2) := by
  simp [quotedBody, h]

theorem quotedBody_char (c : Nat) (hc : EscOK c) (x : Nat) (X : List Nat) :
    quotedBody 96 (escBodyChar c ++ x :: X) = (quotedBody 96 (x :: X)).map fun p => (escBodyChar c ++ p.1, p.2) := by
  have hd : ∀ n, hexDigit (n % 16) ≠ 92 ∧ hexDigit (n % 16) ≠ 96 ∧ hexDigit (n % 16) ≠ 10 :=
    fun n => hexDigit_ne _ (Nat.mod_lt _ (by decide))
  unfold escBodyChar unicodeEscapeChar
  split
  · simp only [replaceBacktick, List.flatMap_cons, List.flatMap_nil]
    simp [quotedBody_pair _ _ (by decide : 116 ∈ IRLexer.escapeChars)]
  split
  · simp only [replaceBacktick, List.flatMap_cons, List.flatMap_nil]
    simp [quotedBody_pair _ _ (by decide : 110 ∈ IRLexer.escapeChars)]
  split
  · simp only [replaceBacktick, List.flatMap_cons, List.flatMap_nil]
    simp [quotedBody_pair _ _ (by decide : 114 ∈ IRLexer.escapeChars)]
  split
  · simp only [replaceBacktick, List.flatMap_cons, List.flatMap_nil]
    simp [quotedBody_pair _ _ (by decide : 92 ∈ IRLexer.escapeChars)]
  split
  · rename_i h1 h2 h3 h4 h5
    simp only [Bool.or_eq_true, Bool.and_eq_true, decide_eq_true_eq] at h5
    unfold EscOK at hc; omega
  split
  · rename_i h1 h2 h3 h4 h5 h6
    by_cases h96 : c = 96
    · subst h96
      simp only [replaceBacktick, List.flatMap_cons, List.flatMap_nil]
      simp [quotedBody_pair _ _ (by decide : 96 ∈ IRLexer.escapeChars)]
    · simp [replaceBacktick, h96, quotedBody_plain, h4]
  split
  · have hrb : replaceBacktick (92 :: 117 :: hex4 c) = 92 :: 117 :: hex4 c := by
      simp [replaceBacktick, hex4, (hd _).2.1]
    rw [hrb]
    simp only [hex4, List.cons_append, List.nil_append, List.append_nil]
    rw [quotedBody_pair _ _ (by decide : 117 ∈ IRLexer.escapeChars),
      quotedBody_plain _ _ _ (hd _).2.1 (hd _).1, quotedBody_plain _ _ _ (hd _).2.1 (hd _).1,
      quotedBody_plain _ _ _ (hd _).2.1 (hd _).1, quotedBody_plain _ _ _ (hd _).2.1 (hd _).1]
    simp [Option.map_map, Function.comp_def]
  · unfold EscOK at hc; omega

theorem quotedBody_body (s : Str) (hs : ∀ c ∈ s, EscOK c) (rest : List Nat) :
    quotedBody 96 (replaceBacktick (unicodeEscape s) ++ 96 :: rest) = some (replaceBacktick (unicodeEscape s), rest) := by
  induction s with
  | nil => cases rest <;> simp [unicodeEscape, replaceBacktick, quotedBody]
  | cons c s ih =>
    rw [escBody_cons, List.append_assoc]
    cases hX : replaceBacktick (unicodeEscape s) ++ 96 :: rest with
    | nil => simp at hX
    | cons x X =>
      rw [quotedBody_char c (hs c (by simp)), ← hX, ih (fun d hd => hs d (by simp [hd]))]; rfl

theorem unescapeString_char (c : Nat) (hc : EscOK c) (X : List Nat) (f : Nat) :
    unescapeString (f + 1) (escBodyChar c ++ X) = (unescapeString f X).map (c :: ·) := by
  unfold escBodyChar unicodeEscapeChar
  split
  · subst_vars; simp [replaceBacktick, unescapeString, IRLexer.unicodeEscapeLetter, lookupEscape, IRLexer.simpleEscapes]
  split
  · subst_vars; simp [replaceBacktick, unescapeString, IRLexer.unicodeEscapeLetter, lookupEscape, IRLexer.simpleEscapes]
  split
  · subst_vars; simp [replaceBacktick, unescapeString, IRLexer.unicodeEscapeLetter, lookupEscape, IRLexer.simpleEscapes]
  split
  · subst_vars; simp [replaceBacktick, unescapeString, IRLexer.unicodeEscapeLetter, lookupEscape, IRLexer.simpleEscapes]
  split
  · rename_i h1 h2 h3 h4 h5
    simp only [Bool.or_eq_true, Bool.and_eq_true, decide_eq_true_eq] at h5
    unfold EscOK at hc; omega
  split
  · rename_i h1 h2 h3 h4 h5 h6
    by_cases h96 : c = 96
    · subst h96
      simp [replaceBacktick, unescapeString, IRLexer.unicodeEscapeLetter, lookupEscape, IRLexer.simpleEscapes]
    · simp [replaceBacktick, h96, unescapeString, h4]
  split
  · rename_i h7
    have hd : ∀ n, hexDigit (n % 16) ≠ 96 := fun n => (hexDigit_ne _ (Nat.mod_lt _ (by decide))).2.1
    have hrb : replaceBacktick (92 :: 117 :: hex4 c) = 92 :: 117 :: hex4 c := by
      simp [replaceBacktick, hex4, hd]
    rw [hrb]
    simp only [List.cons_append, unescapeString, IRLexer.unicodeEscapeLetter]
    have hl : (hex4 c).length = 4 := rfl
    simp [hl, hex4Val_hex4 c h7]
    omega
  · unfold EscOK at hc; omega

theorem unescapeString_body (s : Str) (hs : ∀ c ∈ s, EscOK c) :
    ∀ f, s.length + 1 ≤ f → unescapeString f (replaceBacktick (unicodeEscape s)) = some s := by
  induction s with
  | nil => intro f hf; cases f with
    | zero => omega
    | succ f => simp [unicodeEscape, replaceBacktick, unescapeString]
  | cons c s ih =>
    intro f hf
    cases f with
    | zero => omega
    | succ f =>
      rw [escBody_cons]
      have := unescapeString_char c (hs c (by simp)) (replaceBacktick (unicodeEscape s)) f
      rw [this, ih (fun d hd => hs d (by simp [hd])) f (by simp at hf; omega)]
      rfl

theorem length_le_body (s : Str) : s.length ≤ (replaceBacktick (unicodeEscape s)).length := by
  induction s with
  | nil => simp [unicodeEscape, replaceBacktick]
  | cons c s ih =>
    rw [escBody_cons]
    have h1 : 1 ≤ (escBodyChar c).length := by
      have h2 : ∀ x : Str, x.length ≤ (replaceBacktick x).length := by
        intro x; induction x with
        | nil => simp [replaceBacktick]
        | cons d x ih => rw [replaceBacktick_cons]; split <;> simp <;> omega
      have h3 : 1 ≤ (unicodeEscapeChar c).length := by
        unfold unicodeEscapeChar; repeat' split
        all_goals simp
      exact Nat.le_trans h3 (h2 _)
    simp; omega

theorem body_ascii (s : Str) : ∀ b ∈ replaceBacktick (unicodeEscape s), b < 65536 := by
  intro b hb
  simp only [replaceBacktick, List.mem_flatMap] at hb
  obtain ⟨c, hc, hb⟩ := hb
  have := unicodeEscape_ascii s c hc
  split at hb <;> simp at hb <;> omega

variable (jc : JavaClasses)

theorem spanPart_all (n : List Nat) (rest : List Nat) (hn : ∀ c ∈ n, jc.part c = true)
    (hr : ∀ p r, rest = p :: r → jc.part p = false) : spanPart jc (n ++ rest) = (n, rest) := by
  induction n with
  | nil =>
    cases rest with
    | nil => rfl
    | cons p r => simp [spanPart, hr p r rfl]
  | cons c n ih => simp [spanPart, hn c (by simp), ih (fun d hd => hn d (by simp [hd]))]

end HailVerif.EngineLexer

import HailVerif.Model.ValueJson
import HailVerif.Proofs.TypeStr
/-! `from_json ∘ to_json = id` on the model of the JSON conversion (C32). -/
namespace HailVerif.ValueJson
open HailVerif.TypeStr HailVerif.Values

/-! ## generic list lemmas -/

theorem mapOpt_roundtrip {α β γ : Type} (f : α → Option β) (g : β → Option γ) (h : α → γ) (xs : List α)
    (hx : ∀ x ∈ xs, ∃ j, f x = some j ∧ g j = some (h x)) :
    ∃ js, mapOpt f xs = some js ∧ mapOpt g js = some (xs.map h) := by
  induction xs with
  | nil => exact ⟨[], rfl, rfl⟩
  | cons x xs ih =>
    obtain ⟨j, hj1, hj2⟩ := hx x (by simp)
    obtain ⟨js, hjs1, hjs2⟩ := ih (fun y hy => hx y (by simp [hy]))
    exact ⟨j :: js, by simp [mapOpt, hj1, hjs1], by simp [mapOpt, hj2, hjs2]⟩

theorem cOrderList_eq_map (xs : List Value) : cOrderList xs = xs.map cOrder := by
  induction xs with
  | nil => rfl
  | cons x xs ih => simp [cOrderList, ih]

theorem cOrderEntries_eq_map (es : List (Value × Value)) : cOrderEntries es = es.map fun p => (cOrder p.1, cOrder p.2) := by
  induction es with
  | nil => rfl
  | cons p es ih => obtain ⟨a, b⟩ := p; simp [cOrderEntries, ih]

theorem lookup_append_none (k : Str) (pre rest : List (Str × Json)) (h : lookup k pre = none) :
    lookup k (pre ++ rest) = lookup k rest := by
  induction pre with
  | nil => rfl
  | cons p pre ih =>
    obtain ⟨n, j⟩ := p
    simp only [lookup] at h ⊢
    simp only [List.cons_append, lookup]
    split
    · rename_i hn; simp [hn] at h
    · rename_i hn; simp only [hn, if_false] at h; exact ih h

theorem lookup_snoc_ne (k n : Str) (j : Json) (pre : List (Str × Json)) (h : lookup k pre = none) (hne : n ≠ k) :
    lookup k (pre ++ [(n, j)]) = none := by
  rw [lookup_append_none k pre _ h]; simp [lookup, hne]

/-! ## the NA wrappers -/

theorem toJsonNa_eq (t : HType) (x : Value) : naOr x (toJson t) = toJsonNa t x := rfl

theorem fromJsonNa_eq (t : HType) (j : Json) : nullOr j (fromJson t) = fromJsonNa t j := rfl

theorem fromJsonNa_of_ne_null (t : HType) (j : Json) (h : j ≠ .null) : fromJsonNa t j = fromJson t j := by
  cases j <;> first | rfl | exact absurd rfl h

/-! ## calls -/

theorem natDigits_all (n : Nat) : (natDigits n).all asciiDigit = true := by
  rw [List.all_eq_true]; exact (natDigits_spec n).1

theorem parseNat_natDigits (n : Nat) : parseNat (natDigits n) = some n := by
  obtain ⟨_, h2, _⟩ := natDigits_spec n
  obtain ⟨d, r, hdr, _⟩ := natDigits_head n
  have hall := natDigits_all n
  have hspan : spanDigits (natDigits n) 0 = (n, []) := by
    have := spanDigits_digits (natDigits n) (natDigits_spec n).1 [] 0
    simp only [List.append_nil] at this
    rw [this, h2]; rfl
  unfold parseNat
  rw [hdr] at hall hspan ⊢
  simp [hall, hspan]

theorem digit_ne_sep (d : Nat) (h : asciiDigit d = true) : d ≠ 124 ∧ d ≠ 47 ∧ d ≠ 45 := by
  simp only [asciiDigit, Bool.and_eq_true, decide_eq_true_eq] at h; omega

theorem splitCall_digits (ds : Str) (hds : ∀ d ∈ ds, asciiDigit d = true) (sep : Nat) (hsep : sep = 124 ∨ sep = 47)
    (r acc : Str) : splitCall acc (ds ++ sep :: r) = some (acc.reverse ++ ds, sep, r) := by
  induction ds generalizing acc with
  | nil => simp [splitCall, hsep]
  | cons d ds ih =>
    have hd := digit_ne_sep d (hds d (by simp))
    simp only [List.cons_append, splitCall]
    rw [if_neg (by intro h; rcases h with h | h <;> omega)]
    rw [ih (fun e he => hds e (by simp [he]))]
    simp

theorem splitCall_none (ds : Str) (hds : ∀ d ∈ ds, asciiDigit d = true) (acc : Str) : splitCall acc ds = none := by
  induction ds generalizing acc with
  | nil => rfl
  | cons d ds ih =>
    have hd := digit_ne_sep d (hds d (by simp))
    simp only [splitCall]
    rw [if_neg (by intro h; rcases h with h | h <;> omega)]
    exact ih (fun e he => hds e (by simp [he])) _

theorem callOfStr_callStr (alleles : List Nat) (phased : Bool)
    (h : alleles.length ≤ 2 ∧ (phased = false → ∀ a b, alleles = [a, b] → a ≤ b)) :
    ∃ s, callStr alleles phased = some s ∧ callOfStr s = some (.call alleles phased) := by
  match alleles, phased, h with
  | [], true, _ => exact ⟨_, rfl, by simp [callOfStr, mkCall]⟩
  | [], false, _ => exact ⟨_, rfl, by simp [callOfStr, mkCall]⟩
  | [a], true, _ =>
    refine ⟨_, rfl, ?_⟩
    obtain ⟨d, r, hdr, hd⟩ := natDigits_head a
    have hne := digit_ne_sep d hd
    have hp := parseNat_natDigits a
    unfold callOfStr
    rw [hdr] at hp ⊢
    have h1 : ¬ (124 :: d :: r = [45]) := by simp
    have h2 : ¬ (124 :: d :: r = [124, 45]) := by simp; omega
    simp [h1, h2, hp, mkCall]
  | [a], false, _ =>
    refine ⟨_, rfl, ?_⟩
    obtain ⟨d, r, hdr, hd⟩ := natDigits_head a
    have hne := digit_ne_sep d hd
    have hp := parseNat_natDigits a
    have hs := splitCall_none (natDigits a) (natDigits_spec a).1 []
    unfold callOfStr
    rw [hdr] at hp hs ⊢
    have h1 : ¬ (d :: r = [45]) := by simp; omega
    have h2 : ¬ (d :: r = [124, 45]) := by simp; omega
    have h3 : ¬ d = 124 := hne.1
    simp [h1, h2, h3, hs, hp, mkCall]
  | [a, b], ph, h =>
    obtain ⟨d, r, hdr, hd⟩ := natDigits_head a
    have hne := digit_ne_sep d hd
    have hpa := parseNat_natDigits a
    have hpb := parseNat_natDigits b
    have key : ∀ sep, (sep = 124 ∨ sep = 47) →
        callOfStr (natDigits a ++ sep :: natDigits b) = some (mkCall [a, b] (sep == 124)) := by
      intro sep hsep
      have hs := splitCall_digits (natDigits a) (natDigits_spec a).1 sep hsep (natDigits b) []
      unfold callOfStr
      rw [hdr] at hs hpa ⊢
      have h1 : ¬ (d :: r ++ sep :: natDigits b = [45]) := by simp
      have h2 : ¬ (d :: r ++ sep :: natDigits b = [124, 45]) := by simp; omega
      have h3 : ¬ d = 124 := hne.1
      simp only [List.cons_append] at h1 h2 hs ⊢
      simp [h1, h2, h3, hs, hpa, hpb]
    cases ph with
    | true =>
      refine ⟨_, rfl, ?_⟩
      have := key 124 (Or.inl rfl)
      simpa [mkCall] using this
    | false =>
      refine ⟨_, rfl, ?_⟩
      have hle : a ≤ b := h.2 rfl a b rfl
      have hk := key 47 (Or.inr rfl)
      rw [hk]
      have : ¬ b < a := by omega
      simp [mkCall, this]
  | _ :: _ :: _ :: _, _, h => exact absurd h.1 (by simp)

/-! ## scalars inside n-d arrays -/

theorem natsOfJson_map (shape : List Nat) : natsOfJson (shape.map fun (n : Nat) => Json.num (Int.ofNat n)) = some shape := by
  induction shape with
  | nil => rfl
  | cons n r ih => simp [natsOfJson, ih]; omega

theorem raw_roundtrip (t : HType) (hnum : isNumeric t = true) (x : Value) (hna : x ≠ .na) (ht : HasType t x) :
    ∃ j, rawToJson x = some j ∧ rawOfJson t j = some (cOrder x) := by
  cases t <;> simp [isNumeric] at hnum <;> cases x <;>
    first
    | exact absurd rfl hna
    | (simp [HasType] at ht; done)
    | skip
  · rename_i i; simp only [HasType] at ht; exact ⟨_, rfl, by simp [rawOfJson, ht.1, ht.2, cOrder]⟩
  · rename_i i; simp only [HasType] at ht; exact ⟨_, rfl, by simp [rawOfJson, ht.1, ht.2, cOrder]⟩
  · exact ⟨_, rfl, rfl⟩
  · exact ⟨_, rfl, rfl⟩
  · exact ⟨_, rfl, rfl⟩

/-! ## the conversion statement and what follows from it for the `None`-aware wrappers -/

/-- `_convert_from_json(_convert_to_json(v)) = v` for `v` that is not `None` -/
def Conv (t : HType) : Prop :=
  ∀ v, v ≠ .na → HasType t v → JsonOK t v → ∃ j, toJson t v = some j ∧ j ≠ .null ∧ fromJson t j = some (cOrder v)

theorem na_of_conv (t : HType) (hc : Conv t) (v : Value) (ht : HasType t v) (hok : JsonOK t v) :
    ∃ j, toJsonNa t v = some j ∧ fromJsonNa t j = some (cOrder v) := by
  by_cases hna : v = .na
  · subst hna; exact ⟨.null, rfl, rfl⟩
  · obtain ⟨j, h1, h2, h3⟩ := hc v hna ht hok
    refine ⟨j, ?_, ?_⟩
    · cases v <;> first | exact absurd rfl hna | exact h1
    · rw [fromJsonNa_of_ne_null t j h2]; exact h3

/-- the call `tdict` makes: `_convert_to_json` without the `None` check -/
theorem dictside_of_conv (t : HType) (hc : Conv t) (v : Value) (ht : HasType t v) (hok : JsonOK t v)
    (hprim : v = .na → primNone t = true) : ∃ j, toJson t v = some j ∧ fromJsonNa t j = some (cOrder v) := by
  by_cases hna : v = .na
  · subst hna
    have hp := hprim rfl
    refine ⟨.null, ?_, rfl⟩
    cases t <;> simp [primNone] at hp <;> rfl
  · obtain ⟨j, h1, h2, h3⟩ := hc v hna ht hok
    exact ⟨j, h1, by rw [fromJsonNa_of_ne_null t j h2]; exact h3⟩

set_option linter.unusedSimpArgs false
set_option linter.unusedVariables false

/-- eliminate the value constructors that do not have the type (and `None`) -/
macro "ill_typed" ht:ident hna:ident : tactic =>
  `(tactic| first | exact absurd rfl $hna | (simp [HasType] at $ht:ident; done) | skip)

theorem lookup_key_value (jk jv : Json) :
    lookup (cp% "key") [(cp% "key", jk), (cp% "value", jv)] = some jk ∧
    lookup (cp% "value") [(cp% "key", jk), (cp% "value", jv)] = some jv := by
  constructor <;> simp [lookup]

mutual
theorem conv : (t : HType) → WF t → Conv t
  | .void, _ => fun v hna ht _ => by cases v <;> ill_typed ht hna
  | .rngState, _ => fun v hna ht _ => by cases v <;> ill_typed ht hna
  | .stream _, _ => fun v hna ht _ => by cases v <;> ill_typed ht hna
  | .int32, _ => fun v hna ht _ => by
    cases v <;> ill_typed ht hna
    exact ⟨_, rfl, by simp, rfl⟩
  | .int64, _ => fun v hna ht _ => by
    cases v <;> ill_typed ht hna
    exact ⟨_, rfl, by simp, rfl⟩
  | .bool, _ => fun v hna ht _ => by
    cases v <;> ill_typed ht hna
    exact ⟨_, rfl, by simp, rfl⟩
  | .str, _ => fun v hna ht _ => by
    cases v <;> ill_typed ht hna
    exact ⟨_, rfl, by simp, rfl⟩
  | .float32, _ => fun v hna ht hok => by
    cases v <;> ill_typed ht hna
    rename_i f
    cases f <;> exact ⟨_, rfl, by simp [fltToJson], by simp [fltToJson, fromJson, fltOfJson, cOrder]⟩
  | .float64, _ => fun v hna ht hok => by
    cases v <;> ill_typed ht hna
    rename_i f
    cases f <;> exact ⟨_, rfl, by simp [fltToJson], by simp [fltToJson, fromJson, fltOfJson, cOrder]⟩
  | .call, _ => fun v hna ht hok => by
    cases v <;> ill_typed ht hna
    rename_i alleles phased
    obtain ⟨s, h1, h2⟩ := callOfStr_callStr alleles phased (by simpa [HasType] using ht)
    exact ⟨.str s, by simp [toJson, h1], by simp, by simp [fromJson, h2, cOrder]⟩
  | .locus rg, _ => fun v hna ht _ => by
    cases v <;> ill_typed ht hna
    exact ⟨_, rfl, by simp, by simp [fromJson, lookup, cOrder]⟩
  | .interval t, hwf => fun v hna ht hok => by
    cases v <;> ill_typed ht hna
    rename_i s e is ie
    have hc := conv t (by simpa [WF] using hwf)
    have ht' : HasType t s ∧ HasType t e := by simpa [HasType] using ht
    have hok' : JsonOK t s ∧ JsonOK t e := by simpa [JsonOK] using hok
    obtain ⟨js, hs1, hs2⟩ := na_of_conv t hc s ht'.1 hok'.1
    obtain ⟨je, he1, he2⟩ := na_of_conv t hc e ht'.2 hok'.2
    refine ⟨.obj [(cp% "start", js), (cp% "end", je), (cp% "includeStart", .bool is), (cp% "includeEnd", .bool ie)], ?_, by simp, ?_⟩
    · simp only [toJson, toJsonNa_eq, hs1, he1]
    · simp only [fromJson, lookup]
      simp [fromJsonNa_eq, hs2, he2, cOrder]
  | .array t, hwf => fun v hna ht hok => by
    cases v <;> ill_typed ht hna
    rename_i xs
    have hc := conv t (by simpa [WF] using hwf)
    have ht' : ∀ x ∈ xs, HasType t x := by simpa [HasType] using ht
    have hok' : ∀ x ∈ xs, JsonOK t x := by simpa [JsonOK] using hok
    obtain ⟨js, h1, h2⟩ := mapOpt_roundtrip (toJsonNa t) (fromJsonNa t) cOrder xs
      (fun x hx => na_of_conv t hc x (ht' x hx) (hok' x hx))
    refine ⟨.arr js, ?_, by simp, ?_⟩
    · simp only [toJson, toJsonNa_eq]; simp [h1]
    · simp only [fromJson, fromJsonNa_eq]; simp [h2, cOrder, cOrderList_eq_map]
  | .set t, hwf => fun v hna ht hok => by
    cases v <;> ill_typed ht hna
    rename_i xs
    have hc := conv t (by simpa [WF] using hwf)
    have ht' : ∀ x ∈ xs, HasType t x := by simpa [HasType] using ht
    have hok' : ∀ x ∈ xs, JsonOK t x := by simpa [JsonOK] using hok
    obtain ⟨js, h1, h2⟩ := mapOpt_roundtrip (toJsonNa t) (fromJsonNa t) cOrder xs
      (fun x hx => na_of_conv t hc x (ht' x hx) (hok' x hx))
    refine ⟨.arr js, ?_, by simp, ?_⟩
    · simp only [toJson, toJsonNa_eq]; simp [h1]
    · simp only [fromJson, fromJsonNa_eq]; simp [h2, cOrder, cOrderList_eq_map]
  | .dict k v, hwf => fun x hna ht hok => by
    cases x <;> ill_typed ht hna
    rename_i es
    have hwf' : WF k ∧ WF v := by simpa [WF] using hwf
    have hck := conv k hwf'.1
    have hcv := conv v hwf'.2
    have ht' : ∀ p ∈ es, HasType k p.1 ∧ HasType v p.2 := by simpa [HasType] using ht
    have hok' : ∀ p ∈ es, JsonOK k p.1 ∧ JsonOK v p.2 := by
      simpa [JsonOK] using hok
    obtain ⟨js, h1, h2⟩ := mapOpt_roundtrip (dictEntryToJson (toJson k) (toJson v))
      (dictEntryOfJson (fromJson k) (fromJson v)) (fun p => (cOrder p.1, cOrder p.2)) es
      (fun p hp => by
        obtain ⟨jk, hk1, hk2⟩ := na_of_conv k hck p.1 (ht' p hp).1 (hok' p hp).1
        obtain ⟨jv, hv1, hv2⟩ := na_of_conv v hcv p.2 (ht' p hp).2 (hok' p hp).2
        refine ⟨.obj [(cp% "key", jk), (cp% "value", jv)], by simp only [dictEntryToJson, toJsonNa_eq, hk1, hv1], ?_⟩
        simp only [dictEntryOfJson, (lookup_key_value jk jv).1, (lookup_key_value jk jv).2, fromJsonNa_eq, hk2, hv2])
    refine ⟨.arr js, ?_, by simp, ?_⟩
    · simp only [toJson]; simp [h1]
    · simp only [fromJson]; simp [h2, cOrder, cOrderEntries_eq_map]
  | .struct fs, hwf => fun v hna ht hok => by
    cases v <;> ill_typed ht hna
    rename_i xs
    have hwf' : (fs.map Prod.fst).Nodup ∧ WFFields fs := by simpa [WF] using hwf
    obtain ⟨kvs, h1, _, h3⟩ := convFields fs hwf'.2 hwf'.1 xs (by simpa [HasType] using ht) (by simpa [JsonOK] using hok)
    refine ⟨.obj kvs, by simp [toJson, h1], by simp, ?_⟩
    have := h3 [] (fun _ _ => rfl)
    simp only [List.nil_append] at this
    simp [fromJson, this, cOrder]
  | .tuple ts, hwf => fun v hna ht hok => by
    cases v <;> ill_typed ht hna
    rename_i xs
    obtain ⟨js, h1, h2⟩ := convTuple ts (by simpa [WF] using hwf) xs (by simpa [HasType] using ht) (by simpa [JsonOK] using hok)
    exact ⟨.arr js, by simp [toJson, h1], by simp, by simp [fromJson, h2, cOrder]⟩
  | .ndarray t n, hwf => fun v hna ht hok => by
    cases v <;> ill_typed ht hna
    rename_i shape data fortran
    have hnum : isNumeric t = true := by simpa [JsonOK] using hok
    have ht' : shape.length = n ∧ data.length = shape.foldl (· * ·) 1 ∧ ∀ x ∈ data, x ≠ .na ∧ HasType t x := by
      simpa [HasType] using ht
    obtain ⟨d, h1, h2⟩ := mapOpt_roundtrip rawToJson (rawOfJson t) cOrder data
      (fun x hx => raw_roundtrip t hnum x (ht'.2.2 x hx).1 (ht'.2.2 x hx).2)
    refine ⟨_, by simp only [toJson, h1]; rfl, by simp, ?_⟩
    have hlen : (data.map cOrder).length = shape.foldl (· * ·) 1 := by simp [ht'.2.1]
    simp only [fromJson, hnum, if_true, lookup]
    have hs : natsOfJson (List.map (fun n : Nat => Json.num (n : Int)) shape) = some shape := by
      simpa using natsOfJson_map shape
    simp [h2, cOrder, cOrderList_eq_map]
    rw [hs]
    simp only []
    rw [if_neg (by omega), ← hlen, List.take_length]
theorem convFields : (fs : List (Str × HType)) → WFFields fs → (fs.map Prod.fst).Nodup → ∀ xs, HasTypeFields fs xs →
    JsonOKFields fs xs → ∃ kvs, toJsonFields fs xs = some kvs ∧ kvs.map Prod.fst = fs.map Prod.fst ∧
      ∀ pre, (∀ n ∈ fs.map Prod.fst, lookup n pre = none) → fromJsonFields fs (pre ++ kvs) = some (cOrderList xs)
  | [], _, _, xs, ht, _ => by
    cases xs with
    | nil => exact ⟨[], rfl, rfl, fun _ _ => rfl⟩
    | cons x xs => simp [HasTypeFields] at ht
  | (n, t) :: fs, hwf, hnd, xs, ht, hok => by
    cases xs with
    | nil => simp [HasTypeFields] at ht
    | cons x xs =>
      have hwf' : ValidStr n ∧ WF t ∧ WFFields fs := by simpa [WFFields] using hwf
      have hnd' : n ∉ fs.map Prod.fst ∧ (fs.map Prod.fst).Nodup := by simpa using hnd
      have ht' : HasType t x ∧ HasTypeFields fs xs := by simpa [HasTypeFields] using ht
      have hok' : JsonOK t x ∧ JsonOKFields fs xs := by simpa [JsonOKFields] using hok
      obtain ⟨j, hj1, hj2⟩ := na_of_conv t (conv t hwf'.2.1) x ht'.1 hok'.1
      obtain ⟨kvs, hk1, hk2, hk3⟩ := convFields fs hwf'.2.2 hnd'.2 xs ht'.2 hok'.2
      refine ⟨(n, j) :: kvs, ?_, by simp [hk2], ?_⟩
      · simp only [toJsonFields, toJsonNa_eq, hj1, hk1]
      · intro pre hpre
        have hn : lookup n (pre ++ (n, j) :: kvs) = some j := by
          rw [lookup_append_none n pre _ (hpre n (by simp))]; simp [lookup]
        have htail : fromJsonFields fs (pre ++ (n, j) :: kvs) = some (cOrderList xs) := by
          have := hk3 (pre ++ [(n, j)]) (fun m hm => lookup_snoc_ne m n j pre (hpre m (by simp [hm]))
            (fun e => hnd'.1 (e ▸ hm)))
          simpa [List.append_assoc] using this
        simp only [fromJsonFields, hn, fromJsonNa_eq, hj2, htail, cOrderList]
theorem convTuple : (ts : List HType) → WFTypes ts → ∀ xs, HasTypeTuple ts xs → JsonOKTuple ts xs →
    ∃ js, toJsonTuple ts xs = some js ∧ fromJsonTuple ts js = some (cOrderList xs)
  | [], _, xs, ht, _ => by
    cases xs with
    | nil => exact ⟨[], rfl, rfl⟩
    | cons x xs => simp [HasTypeTuple] at ht
  | t :: ts, hwf, xs, ht, hok => by
    cases xs with
    | nil => simp [HasTypeTuple] at ht
    | cons x xs =>
      have hwf' : WF t ∧ WFTypes ts := by simpa [WFTypes] using hwf
      have ht' : HasType t x ∧ HasTypeTuple ts xs := by simpa [HasTypeTuple] using ht
      have hok' : JsonOK t x ∧ JsonOKTuple ts xs := by simpa [JsonOKTuple] using hok
      obtain ⟨j, hj1, hj2⟩ := na_of_conv t (conv t hwf'.1) x ht'.1 hok'.1
      obtain ⟨js, hk1, hk2⟩ := convTuple ts hwf'.2 xs ht'.2 hok'.2
      refine ⟨j :: js, ?_, ?_⟩
      · simp only [toJsonTuple, toJsonNa_eq, hj1, hk1]
      · simp only [fromJsonTuple, fromJsonNa_eq, hj2, hk2, cOrderList]
end

end HailVerif.ValueJson

import HailVerif.Generated.AttemptsTrigger
import HailVerif.Proofs.Sql3
/-!
Helper lemmas for C03: each generated clamp statement of `attempts_before_update` is shown equal to a readable
two-valued specification (`spec1 … spec6`).  If the SQL text changes, the regenerated definitions change and these
equalities are what stops checking.
-/
namespace HailVerif.AttemptsTriggerSpec
open HailVerif HailVerif.Generated.AttemptsTrigger

/-- clamp 1: a stored start time is never replaced by NULL or by a later time -/
def spec1 (old new : Row) : Row :=
  match old.start_time, new.start_time with
  | some s, none => { new with start_time := some s }
  | some s, some n => if s < n then { new with start_time := some s } else new
  | none, _ => new

/-- clamp 2: an activation-timeout report erases the start time -/
def spec2 (_old new : Row) : Row :=
  if new.reason = some "activation_timeout" then { new with start_time := none } else new

/-- clamp 3: once a reason is stored, end and reason change only to a strictly earlier end -/
def spec3 (old new : Row) : Row :=
  match old.reason with
  | none => new
  | some _ =>
    match old.end_time, new.end_time with
    | some oe, some ne => if ne ≥ oe then { new with end_time := old.end_time, reason := old.reason } else new
    | _, _ => { new with end_time := old.end_time, reason := old.reason }

/-- clamp 4: rollup does not go backward -/
def spec4 (old new : Row) : Row :=
  match new.rollup_time, old.rollup_time with
  | some n, some o => if n < o then { new with rollup_time := some o } else new
  | _, _ => new

/-- clamp 5: a rollup before the start is replaced by the stored rollup -/
def spec5 (old new : Row) : Row :=
  match new.rollup_time, new.start_time with
  | some r, some s => if r < s then { new with rollup_time := old.rollup_time } else new
  | _, _ => new

/-- clamp 6: rollup is capped by the end -/
def spec6 (_old new : Row) : Row :=
  match new.rollup_time, new.end_time with
  | some r, some e => if r > e then { new with rollup_time := some e } else new
  | _, _ => new

def spec (old new : Row) : Row :=
  spec6 old (spec5 old (spec4 old (spec3 old (spec2 old (spec1 old new)))))

theorem s1_eq (old new : Row) : attemptsBeforeUpdate_s1 old new = spec1 old new := by
  obtain ⟨os, oro, oe, ors⟩ := old
  obtain ⟨ns, nro, ne, nrs⟩ := new
  cases os <;> cases ns <;>
    simp [attemptsBeforeUpdate_s1, spec1]
  all_goals (try (split <;> simp_all))

theorem s2_eq (old new : Row) : attemptsBeforeUpdate_s2 old new = spec2 old new := by
  obtain ⟨ns, nro, ne, nrs⟩ := new
  cases nrs <;> simp [attemptsBeforeUpdate_s2, spec2]

theorem s3_eq (old new : Row) : attemptsBeforeUpdate_s3 old new = spec3 old new := by
  obtain ⟨os, oro, oe, ors⟩ := old
  obtain ⟨ns, nro, ne, nrs⟩ := new
  cases ors <;> cases oe <;> cases ne <;>
    simp [attemptsBeforeUpdate_s3, spec3]
  all_goals (try (split <;> simp_all))

theorem s4_eq (old new : Row) : attemptsBeforeUpdate_s4 old new = spec4 old new := by
  obtain ⟨os, oro, oe, ors⟩ := old
  obtain ⟨ns, nro, ne, nrs⟩ := new
  cases oro <;> cases nro <;>
    simp [attemptsBeforeUpdate_s4, spec4]
  all_goals (try (split <;> simp_all))

theorem s5_eq (old new : Row) : attemptsBeforeUpdate_s5 old new = spec5 old new := by
  obtain ⟨ns, nro, ne, nrs⟩ := new
  cases ns <;> cases nro <;>
    simp [attemptsBeforeUpdate_s5, spec5]
  all_goals (try (split <;> simp_all))

theorem s6_eq (old new : Row) : attemptsBeforeUpdate_s6 old new = spec6 old new := by
  obtain ⟨ns, nro, ne, nrs⟩ := new
  cases ne <;> cases nro <;>
    simp [attemptsBeforeUpdate_s6, spec6]
  all_goals (try (split <;> simp_all))

theorem upd_eq_spec (old new : Row) : attemptsBeforeUpdate old new = spec old new := by
  simp [attemptsBeforeUpdate, spec, s1_eq, s2_eq, s3_eq, s4_eq, s5_eq, s6_eq]

end HailVerif.AttemptsTriggerSpec

namespace HailVerif.AttemptsTriggerSpec
open HailVerif HailVerif.Generated.AttemptsTrigger

/-! frame lemmas: which columns each clamp leaves alone -/
@[simp] theorem spec1_rollup (o n : Row) : (spec1 o n).rollup_time = n.rollup_time := by
  unfold spec1; split <;> (try split) <;> rfl
@[simp] theorem spec1_end (o n : Row) : (spec1 o n).end_time = n.end_time := by
  unfold spec1; split <;> (try split) <;> rfl
@[simp] theorem spec1_reason (o n : Row) : (spec1 o n).reason = n.reason := by
  unfold spec1; split <;> (try split) <;> rfl
@[simp] theorem spec2_rollup (o n : Row) : (spec2 o n).rollup_time = n.rollup_time := by
  unfold spec2; split <;> rfl
@[simp] theorem spec2_end (o n : Row) : (spec2 o n).end_time = n.end_time := by
  unfold spec2; split <;> rfl
@[simp] theorem spec2_reason (o n : Row) : (spec2 o n).reason = n.reason := by
  unfold spec2; split <;> rfl
@[simp] theorem spec3_start (o n : Row) : (spec3 o n).start_time = n.start_time := by
  unfold spec3; split <;> (try split) <;> (try split) <;> rfl
@[simp] theorem spec3_rollup (o n : Row) : (spec3 o n).rollup_time = n.rollup_time := by
  unfold spec3; split <;> (try split) <;> (try split) <;> rfl
@[simp] theorem spec4_start (o n : Row) : (spec4 o n).start_time = n.start_time := by
  unfold spec4; split <;> (try split) <;> rfl
@[simp] theorem spec4_end (o n : Row) : (spec4 o n).end_time = n.end_time := by
  unfold spec4; split <;> (try split) <;> rfl
@[simp] theorem spec4_reason (o n : Row) : (spec4 o n).reason = n.reason := by
  unfold spec4; split <;> (try split) <;> rfl
@[simp] theorem spec5_start (o n : Row) : (spec5 o n).start_time = n.start_time := by
  unfold spec5; split <;> (try split) <;> rfl
@[simp] theorem spec5_end (o n : Row) : (spec5 o n).end_time = n.end_time := by
  unfold spec5; split <;> (try split) <;> rfl
@[simp] theorem spec5_reason (o n : Row) : (spec5 o n).reason = n.reason := by
  unfold spec5; split <;> (try split) <;> rfl
@[simp] theorem spec6_start (o n : Row) : (spec6 o n).start_time = n.start_time := by
  unfold spec6; split <;> (try split) <;> rfl
@[simp] theorem spec6_end (o n : Row) : (spec6 o n).end_time = n.end_time := by
  unfold spec6; split <;> (try split) <;> rfl
@[simp] theorem spec6_reason (o n : Row) : (spec6 o n).reason = n.reason := by
  unfold spec6; split <;> (try split) <;> rfl

/-- clamp 6 alone establishes `rollup ≤ end` -/
theorem spec6_rollup_le_end (o n : Row) (ro e : Int)
    (h1 : (spec6 o n).rollup_time = some ro) (h2 : (spec6 o n).end_time = some e) : ro ≤ e := by
  unfold spec6 at h1 h2
  split at h1
  · split at h1 <;> simp_all <;> omega
  · simp_all

/-- the start column after clamps 1–2 -/
theorem start_after (o n : Row) (s : Int) (hs : o.start_time = some s) (ht : n.reason ≠ some "activation_timeout") :
    ∃ s', (spec2 o (spec1 o n)).start_time = some s' ∧ s' ≤ s := by
  have hr : (spec1 o n).reason ≠ some "activation_timeout" := by simpa using ht
  unfold spec2; rw [if_neg hr]
  unfold spec1; rw [hs]
  cases hn : n.start_time with
  | none => exact ⟨s, by simp, Int.le_refl _⟩
  | some x =>
    by_cases hlt : s < x
    · exact ⟨s, by simp [hlt], Int.le_refl _⟩
    · exact ⟨x, by simp [hlt, hn], by omega⟩

/-- the rollup column after clamps 4–5, given a proposed non-NULL rollup and the start after clamps 1–2 -/
theorem rollup_after45 (o x : Row) (n q : Int) (hx : x.rollup_time = some n) (ho : o.rollup_time = some q) :
    ∃ r, (spec5 o (spec4 o x)).rollup_time = some r ∧ q ≤ r := by
  have h4 : ∃ m, (spec4 o x).rollup_time = some m ∧ q ≤ m := by
    unfold spec4; rw [hx, ho]
    by_cases h : n < q
    · exact ⟨q, by simp [h], Int.le_refl _⟩
    · exact ⟨n, by simp [h, hx], by omega⟩
  obtain ⟨m, hm, hqm⟩ := h4
  unfold spec5; rw [hm]
  cases hs : (spec4 o x).start_time with
  | none => exact ⟨m, by simp [hm], hqm⟩
  | some s =>
    by_cases h : m < s
    · exact ⟨q, by simp [h, ho], Int.le_refl _⟩
    · exact ⟨m, by simp [h, hm], hqm⟩

/-- the rollup column after clamp 6 -/
theorem rollup_after6 (o x : Row) (r : Int) (hx : x.rollup_time = some r) :
    (x.end_time = none ∧ (spec6 o x).rollup_time = some r) ∨
    (∃ e, x.end_time = some e ∧ (spec6 o x).rollup_time = some (min r e)) := by
  unfold spec6; rw [hx]
  cases he : x.end_time with
  | none => left; simp [hx]
  | some e =>
    right; refine ⟨e, rfl, ?_⟩
    by_cases h : r > e
    · simp [h]; omega
    · simp [h, hx]; omega

end HailVerif.AttemptsTriggerSpec

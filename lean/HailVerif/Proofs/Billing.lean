import HailVerif.Model.Billing
import Mathlib.Tactic.Linarith
/-! Helper lemmas for C13: sums of floored fractions, exactness of the 1024ths fraction, dict round trip. -/
namespace HailVerif.Billing
open HailVerif.Generated.Machines

/-- a job: `(cpu_in_mcpu, memory_in_bytes, extra_storage_in_gib)` -/
abbrev Job := Nat × Nat × Nat

def cpuSum (jobs : List Job) : Nat := (jobs.map fun j => j.1).sum
def memSum (jobs : List Job) : Nat := (jobs.map fun j => j.2.1).sum

/-! ### sums -/

theorem add_div_le (a b d : Nat) : a / d + b / d ≤ (a + b) / d := by
  rcases Nat.eq_zero_or_pos d with rfl | hd
  · simp
  · rw [Nat.le_div_iff_mul_le hd, Nat.add_mul]
    have := Nat.div_mul_le_self a d
    have := Nat.div_mul_le_self b d
    omega

theorem sum_map_div_le {α : Type} (l : List α) (f : α → Nat) (d : Nat) :
    (l.map fun x => f x / d).sum ≤ (l.map f).sum / d := by
  induction l with
  | nil => simp
  | cons x xs ih =>
    simp only [List.map_cons, List.sum_cons]
    have := add_div_le (f x) ((xs.map f).sum) d
    omega

theorem sum_map_zero {α : Type} (l : List α) : (l.map fun _ => 0).sum = 0 := by
  induction l with
  | nil => rfl
  | cons _ _ ih => simpa using ih

theorem sum_map_mul_left {α : Type} (l : List α) (f : α → Nat) (k : Nat) :
    (l.map fun x => k * f x).sum = k * (l.map f).sum := by
  induction l with
  | nil => simp
  | cons x xs ih => simp only [List.map_cons, List.sum_cons, ih, Nat.mul_add]

/-! ### the worker fraction -/

theorem workerFraction_whole {cores : Nat} (h : 0 < cores) : workerFraction (cores * 1000) cores = 1024 := by
  unfold workerFraction
  exact Nat.mul_div_cancel _ (by omega)

/-- the fractions of a packing add up to at most 1024 -/
theorem sum_workerFraction_le {cores : Nat} (jobs : List Job) (hpos : 0 < cores) (h : cpuSum jobs ≤ cores * 1000) :
    (jobs.map fun j => workerFraction j.1 cores).sum ≤ 1024 := by
  unfold workerFraction
  have h1 := sum_map_div_le jobs (fun j => 1024 * j.1) (cores * 1000)
  have h2 : (jobs.map fun j => 1024 * j.1).sum = 1024 * cpuSum jobs := sum_map_mul_left jobs (fun j => j.1) 1024
  have h3 : 1024 * cpuSum jobs / (cores * 1000) ≤ 1024 := by
    calc 1024 * cpuSum jobs / (cores * 1000) ≤ 1024 * (cores * 1000) / (cores * 1000) :=
          Nat.div_le_div_right (Nat.mul_le_mul_left _ h)
      _ = 1024 := Nat.mul_div_cancel _ (by omega)
  rw [h2] at h1
  exact Nat.le_trans h1 h3

/-- exactness: a power-of-two number of quarter cores on a power-of-two worker of at most 256 cores -/
theorem workerFraction_exact {k c : Nat} (hc : c ≤ 8) :
    workerFraction (250 * 2 ^ k) (2 ^ c) * (2 ^ c * 1000) = 1024 * (250 * 2 ^ k) := by
  unfold workerFraction
  apply Nat.div_mul_cancel
  have h1 : 1024 * (250 * 2 ^ k) = 1000 * 2 ^ (8 + k) := by
    rw [Nat.pow_add]; omega
  have h2 : 2 ^ c * 1000 = 1000 * 2 ^ c := Nat.mul_comm _ _
  rw [h1, h2]
  exact Nat.mul_dvd_mul_left 1000 (Nat.pow_dvd_pow 2 (by omega))

/-! ### quantities of the worker's own resources -/

/-- quantity billed for a resource that is not a per-job extra disk -/
def Resource.qty (r : Resource) (cores : Nat) (j : Job) : Nat :=
  match r with
  | .compute _ | .serviceFee _ | .supportFees _ | .azServiceFee _ => j.1
  | .memory _ => j.2.1 / 1024 / 1024
  | .staticDisk _ g | .localSsd _ g | .azStaticDisk _ g => g * workerFraction j.1 cores
  | .ipFee _ | .azIpFee _ | .azVm _ => workerFraction j.1 cores
  | .accelerator _ k => k * workerFraction j.1 cores
  | .gcpDynamicDisk _ | .azDynamicDisk _ _ _ => 0

def Resource.billName : Resource → String
  | .compute n | .serviceFee n | .supportFees n | .azServiceFee n | .memory n | .staticDisk n _ | .localSsd n _
  | .azStaticDisk n _ | .ipFee n | .azIpFee n | .azVm n | .accelerator n _ | .gcpDynamicDisk n => n
  | .azDynamicDisk _ _ _ => ""

theorem quantify_of_not_dynamic {r : Resource} (h : r.isDynamicDisk = false) (cores cpu mem ext : Nat) :
    r.quantify cpu mem (workerFraction cpu cores) ext = .bill r.billName (r.qty cores (cpu, mem, ext)) := by
  cases r <;> simp_all [Resource.isDynamicDisk, Resource.quantify, Resource.qty, Resource.billName]

theorem qty_packing_le {r : Resource} {cores memory : Nat} (jobs : List Job) (hpos : 0 < cores)
    (hcpu : cpuSum jobs ≤ cores * 1000) (hmem : memSum jobs ≤ memory) :
    (jobs.map (r.qty cores)).sum ≤ r.qty cores (cores * 1000, memory, 0) := by
  have hwf := sum_workerFraction_le jobs hpos hcpu
  have hw := workerFraction_whole hpos
  have hscale : ∀ g : Nat, (jobs.map fun j => g * workerFraction j.1 cores).sum ≤ g * 1024 := by
    intro g
    rw [sum_map_mul_left jobs (fun j => workerFraction j.1 cores) g]
    exact Nat.mul_le_mul_left _ hwf
  cases r with
  | compute n => exact hcpu
  | serviceFee n => exact hcpu
  | supportFees n => exact hcpu
  | azServiceFee n => exact hcpu
  | memory n =>
    simp only [Resource.qty]
    have h1 : (jobs.map fun j => j.2.1 / 1024 / 1024).sum = (jobs.map fun j => j.2.1 / (1024 * 1024)).sum := by
      congr 1; apply List.map_congr_left; intro j _; exact Nat.div_div_eq_div_mul _ _ _
    have h2 := sum_map_div_le jobs (fun j => j.2.1) (1024 * 1024)
    have h3 : memSum jobs / (1024 * 1024) ≤ memory / (1024 * 1024) := Nat.div_le_div_right hmem
    have h4 : memory / 1024 / 1024 = memory / (1024 * 1024) := Nat.div_div_eq_div_mul _ _ _
    show (jobs.map fun j => j.2.1 / 1024 / 1024).sum ≤ memory / 1024 / 1024
    rw [h1, h4]
    exact Nat.le_trans h2 h3
  | staticDisk n g => simp only [Resource.qty, hw]; exact hscale g
  | localSsd n g => simp only [Resource.qty, hw]; exact hscale g
  | azStaticDisk n g => simp only [Resource.qty, hw]; exact hscale g
  | ipFee n => simp only [Resource.qty, hw]; exact hwf
  | azIpFee n => simp only [Resource.qty, hw]; exact hwf
  | azVm n => simp only [Resource.qty, hw]; exact hwf
  | accelerator n k => simp only [Resource.qty, hw]; exact hscale k
  | gcpDynamicDisk n =>
    show (jobs.map fun _ => 0).sum ≤ 0
    rw [sum_map_zero]
  | azDynamicDisk a b c =>
    show (jobs.map fun _ => 0).sum ≤ 0
    rw [sum_map_zero]

/-! ### `quantified_resources` as a list -/

def billOf : Q → Option (String × Nat)
  | .bill n q => some (n, q)
  | _ => none

theorem collect_eq {qs : List Q} {l : List (String × Nat)} (h : collect qs = some l) :
    l = qs.filterMap billOf ∧ Q.err ∉ qs := by
  induction qs generalizing l with
  | nil => simp [collect] at h; subst h; simp
  | cons q qs ih =>
    cases q with
    | err => simp [collect] at h
    | skip =>
      simp only [collect] at h
      obtain ⟨h1, h2⟩ := ih h
      exact ⟨by rw [h1]; rfl, by simp [h2]⟩
    | bill n k =>
      simp only [collect, Option.map_eq_some_iff] at h
      obtain ⟨l', hl', rfl⟩ := h
      obtain ⟨h1, h2⟩ := ih hl'
      exact ⟨by rw [h1]; rfl, by simp [h2]⟩

/-! ### serialization round trip -/

theorem gcp_resource_roundtrip {r : Resource} (h : r.isGcp = true) : gcpResourceFromDict r.toDict = some r := by
  cases r <;> simp_all [Resource.isGcp, Resource.toDict, gcpResourceFromDict]

theorem azure_resource_roundtrip {r : Resource} (h : r.isGcp = false) : azureResourceFromDict r.toDict = some r := by
  cases r <;> simp_all [Resource.isGcp, Resource.toDict, azureResourceFromDict]

theorem mapM_roundtrip (f : RDict → Option Resource) :
    ∀ (rs : List Resource), (∀ r ∈ rs, f r.toDict = some r) → (rs.map Resource.toDict).mapM f = some rs := by
  intro rs
  induction rs with
  | nil => intro _; simp
  | cons r rs ih =>
    intro h
    have h1 := h r (by simp)
    have h2 := ih (fun x hx => h x (by simp [hx]))
    simp [List.mapM_cons, h1, h2]

/-- what `create` / `from_dict` build: cores and memory come from the machine table, resources are of the config's cloud -/
structure Config.WellFormed (c : Config) : Prop where
  machine : machineCoresMem c.cloud c.machineType = some (c.cores, c.memory)
  kinds : ∀ r ∈ c.resources, r.isGcp = (match c.cloud with | .gcp => true | .azure => false)

theorem config_roundtrip {c : Config} (h : c.WellFormed) : Config.fromDict c.toDict = some c := by
  obtain ⟨cl, mt, pre, ssd, dd, bd, jp, rs, cores, mem⟩ := c
  obtain ⟨hm, hk⟩ := h
  dsimp only at hm hk
  cases cl with
  | gcp =>
    have := mapM_roundtrip gcpResourceFromDict rs (fun r hr => gcp_resource_roundtrip (by simpa using hk r hr))
    simp [Config.toDict, Config.fromDict, this, Config.mk?, hm]
  | azure =>
    have := mapM_roundtrip azureResourceFromDict rs (fun r hr => azure_resource_roundtrip (by simpa using hk r hr))
    simp [Config.toDict, Config.fromDict, this, Config.mk?, hm]

theorem config_roundtrip_terra {c : Config} (h : c.WellFormed) (hc : c.cloud = .azure) :
    Config.fromDictTerra c.toDict = some c := by
  obtain ⟨cl, mt, pre, ssd, dd, bd, jp, rs, cores, mem⟩ := c
  obtain ⟨hm, hk⟩ := h
  dsimp only at hm hk hc
  subst hc
  have := mapM_roundtrip azureResourceFromDict rs (fun r hr => azure_resource_roundtrip (by simpa using hk r hr))
  simp [Config.toDict, Config.fromDictTerra, this, Config.mk?, hm]

/-! ### azure disks -/

theorem find?_sorted_min {α : Type} (key : α → Nat) (n : Nat) :
    ∀ (l : List α), l.Pairwise (fun a b => key a ≤ key b) → ∀ x, l.find? (fun d => n ≤ key d) = some x →
      n ≤ key x ∧ x ∈ l ∧ ∀ y ∈ l, n ≤ key y → key x ≤ key y := by
  intro l
  induction l with
  | nil => intro _ x h; simp at h
  | cons a as ih =>
    intro hs x h
    rw [List.pairwise_cons] at hs
    simp only [List.find?_cons] at h
    split at h
    next hp =>
      simp only [Option.some.injEq] at h; subst h
      refine ⟨by simpa using hp, by simp, fun y hy _ => ?_⟩
      rcases List.mem_cons.mp hy with rfl | hy
      · exact Nat.le_refl _
      · exact hs.1 y hy
    next hp =>
      obtain ⟨h1, h2, h3⟩ := ih hs.2 x h
      refine ⟨h1, List.mem_cons_of_mem _ h2, fun y hy hny => ?_⟩
      rcases List.mem_cons.mp hy with rfl | hy
      · simp at hp; omega
      · exact h3 y hy hny

theorem azureDisks_sorted : ∀ e ∈ azureDisks, e.2.Pairwise (fun a b => a.2 ≤ b.2) := by decide +kernel

end HailVerif.Billing

import HailVerif.Proofs.BatchDBMono
/-! Key uniqueness of the `jobs` table, preserved by every transaction. -/
namespace HailVerif.BatchDB

theorem jobsUnique_updateJobs (s : State) (p : Job → Bool) (f : Job → Job) (hf : JobFrame f) (h : JobsUnique s) :
    JobsUnique (updateJobs s p f) :=
  jobsUnique_of_map (JobFrame.ite p hf) (updateJobs_jobs s p f) h

theorem find_of_mem_nodup (l : List Job) (h : (l.map jobKey).Nodup) (x : Job) (hx : x ∈ l) :
    l.find? (fun y => decide (y.batch = x.batch ∧ y.id = x.id)) = some x := by
  induction l with
  | nil => simp at hx
  | cons y l ih =>
    simp only [List.map_cons, List.nodup_cons] at h
    simp only [List.find?_cons]
    rcases List.mem_cons.mp hx with rfl | hm
    · simp
    · have hne : ¬ (y.batch = x.batch ∧ y.id = x.id) := by
        intro ⟨h1, h2⟩
        apply h.1
        rw [List.mem_map]
        exact ⟨x, hm, by simp [jobKey, h1, h2]⟩
      simp only [hne, decide_false]
      exact ih h.2 hm

/-- with unique keys, `findJob` finds every row by its key -/
theorem findJob_of_mem {s : State} (h : JobsUnique s) (x : Job) (hx : x ∈ s.jobs) : findJob s x.batch x.id = some x :=
  find_of_mem_nodup s.jobs h x hx

theorem mem_of_findJob {s : State} {b j : Nat} {x : Job} (h : findJob s b j = some x) :
    x ∈ s.jobs ∧ x.batch = b ∧ x.id = j := by
  unfold findJob at h
  have := List.find?_some h
  exact ⟨List.mem_of_find?_eq_some h, by simpa using this⟩

end HailVerif.BatchDB

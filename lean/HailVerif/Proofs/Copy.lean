import HailVerif.Model.Copy
/-! Helper lemmas for C22 (`HailVerif.Props.C22`). -/
namespace HailVerif.Copy

/-! ### A. intervals that tile a range -/

/-- `l` is a list of `(offset, length)` intervals that follow one another without gap or overlap from `a` to `b` -/
inductive Tiles : List (Nat × Nat) → Nat → Nat → Prop
  | nil (a : Nat) : Tiles [] a a
  | cons (a l : Nat) (rest : List (Nat × Nat)) (b : Nat) : Tiles rest (a + l) b → Tiles ((a, l) :: rest) a b

theorem Tiles.le {l : List (Nat × Nat)} {a b : Nat} (h : Tiles l a b) : a ≤ b := by
  induction h with
  | nil => exact Nat.le_refl _
  | cons a l rest b _ ih => omega

theorem Tiles.append {l₁ l₂ : List (Nat × Nat)} {a b c : Nat} (h₁ : Tiles l₁ a b) (h₂ : Tiles l₂ b c) :
    Tiles (l₁ ++ l₂) a c := by
  induction h₁ with
  | nil => simpa using h₂
  | cons a l rest b _ ih => exact Tiles.cons a l _ c (ih h₂)

theorem Tiles.single (a l : Nat) : Tiles [(a, l)] a (a + l) := Tiles.cons a l [] (a + l) (Tiles.nil _)

/-- python `b[s : s+l]` -/
def slice (b : List Nat) (s l : Nat) : List Nat := (b.drop s).take l

/-- reading the intervals one after the other and concatenating gives exactly `blob[a:b]` -/
theorem Tiles.slices {l : List (Nat × Nat)} {a b : Nat} (h : Tiles l a b) (blob : List Nat) :
    (l.map fun p => slice blob p.1 p.2).flatten = slice blob a (b - a) := by
  induction h with
  | nil a => simp [slice]
  | cons a l rest b hrest ih =>
    have hle := hrest.le
    simp only [List.map_cons, List.flatten_cons]
    rw [ih]
    simp only [slice]
    have : b - a = l + (b - (a + l)) := by omega
    rw [this, List.take_add, List.drop_drop]

theorem readsLoop_spec (buf base ts : Nat) (hb : 1 ≤ buf) : ∀ (fuel n : Nat), n ≤ fuel → n ≤ ts →
    Tiles (readsLoop buf base ts fuel n) (base + (ts - n)) (base + ts) ∧
      ∀ r ∈ readsLoop buf base ts fuel n, 1 ≤ r.2 ∧ r.2 ≤ buf := by
  intro fuel
  induction fuel with
  | zero =>
    intro n hn _
    have : n = 0 := by omega
    subst this
    simp only [readsLoop]
    exact ⟨by simpa using Tiles.nil (base + ts), by simp⟩
  | succ fuel ih =>
    intro n hn hts
    simp only [readsLoop]
    split
    · next h0 => subst h0; exact ⟨by simpa using Tiles.nil (base + ts), by simp⟩
    · next h0 =>
      have hm : 1 ≤ min buf n ∧ min buf n ≤ n ∧ min buf n ≤ buf := by omega
      obtain ⟨ih1, ih2⟩ := ih (n - min buf n) (by omega) (by omega)
      refine ⟨?_, ?_⟩
      · apply Tiles.cons
        have : base + (ts - n) + min buf n = base + (ts - (n - min buf n)) := by omega
        rw [this]; exact ih1
      · intro r hr
        rcases List.mem_cons.mp hr with rfl | hr
        · exact ⟨hm.1, hm.2.2⟩
        · exact ih2 r hr

theorem tiles_range (part : Nat) (g : Nat → Nat) : ∀ n, (∀ i, i < n → g i = part) →
    Tiles ((List.range n).map fun i => (i * part, g i)) 0 (n * part) := by
  intro n
  induction n with
  | zero => intro _; simpa using Tiles.nil 0
  | succ n ih =>
    intro h
    rw [List.range_succ, List.map_append]
    apply Tiles.append (ih fun i hi => h i (by omega))
    have hg := h n (by omega)
    simpa [Nat.succ_mul, hg] using Tiles.single (n * part) part

theorem nParts_eq (size part : Nat) (hp : 1 ≤ part) : nParts size part = (size + part - 1) / part := by
  unfold nParts
  have hd := Nat.div_add_mod size part
  have hlt := Nat.mod_lt size (by omega : part > 0)
  rw [Nat.mul_comm] at hd
  symm
  split
  · next h0 =>
    apply Nat.div_eq_of_lt_le
    · simp only [Nat.add_zero]; omega
    · simp only [Nat.add_zero, Nat.add_mul, Nat.one_mul]; omega
  · next h0 =>
    apply Nat.div_eq_of_lt_le
    · simp only [Nat.add_mul, Nat.one_mul]; omega
    · simp only [Nat.add_mul, Nat.one_mul]; omega

/-- the `(start, size)` intervals of the plan -/
def planIntervals (size part : Nat) : List (Nat × Nat) :=
  (List.range (nParts size part)).map fun i => (i * part, thisPartSize size part i)

theorem planIntervals_tile (size part : Nat) : Tiles (planIntervals size part) 0 size := by
  unfold planIntervals
  have hd := Nat.div_add_mod size part
  by_cases h0 : size % part = 0
  · have hn : nParts size part = size / part := by simp [nParts, h0]
    have hs : size / part * part = size := by rw [Nat.mul_comm]; omega
    rw [hn]
    have := tiles_range part (thisPartSize size part) (size / part) (fun i _ => by simp [thisPartSize, h0])
    rwa [hs] at this
  · have hn : nParts size part = size / part + 1 := by simp [nParts, h0]
    rw [hn, List.range_succ, List.map_append]
    have h1 := tiles_range part (thisPartSize size part) (size / part)
      (fun i hi => by
        have : ¬ (i = nParts size part - 1) := by rw [hn]; omega
        simp [thisPartSize, this])
    apply Tiles.append h1
    have hl : thisPartSize size part (size / part) = size % part := by
      simp [thisPartSize, hn, h0]
    have := Tiles.single (size / part * part) (size % part)
    have hs : size / part * part + size % part = size := by rw [Nat.mul_comm]; omega
    rw [hs] at this
    simpa [hl] using this

theorem thisPartSize_bounds (size part i : Nat) (hp : 1 ≤ part) :
    1 ≤ thisPartSize size part i ∧ thisPartSize size part i ≤ part := by
  unfold thisPartSize
  split
  · next h =>
    have := Nat.mod_lt size (by omega : part > 0)
    omega
  · omega

/-! ### B. writing files into a tree -/

theorem writeFile_ok {t t' : Tree} {p : Path} {c : List Nat} (h : writeFile t p c = .ok t') :
    t'.get p = some (.file c) ∧
    (∀ q, q ≠ p → isAncestor q p = false → t'.get q = t.get q) ∧
    (∀ q, q ≠ p → t.get q ≠ none → t'.get q = t.get q) ∧
    (∀ q, t'.get q = none → t.get q = none) ∧
    t.get p ≠ some .dir := by
  unfold writeFile at h
  split at h
  · cases h
  · split at h
    · cases h
    · next hnd =>
      cases h
      refine ⟨by simp, ?_, ?_, ?_, fun hd => hnd (Or.inr hd)⟩
      · intro q hq ha; simp [hq, ha]
      · intro q hq hne
        have : (t.get q).isNone = false := by
          cases hg : t.get q with
          | none => exact absurd hg hne
          | some _ => rfl
        simp [hq, this]
      · intro q hq
        simp only at hq
        split at hq
        · cases hq
        · split at hq
          · cases hq
          · exact hq

/-- after a file was written, all its ancestors exist -/
theorem writeFile_ancestors {t t' : Tree} {p : Path} {c : List Nat} (h : writeFile t p c = .ok t') (q : Path)
    (hq : isAncestor q p = true) : t'.get q ≠ none := by
  unfold writeFile at h
  split at h
  · cases h
  · split at h
    · cases h
    · cases h
      simp only
      split
      · simp
      · simp only [hq, Bool.true_and]
        cases hg : t.get q <;> simp

/-- the kind of an existing path never changes, nothing is removed -/
def KeepsKinds (t t' : Tree) : Prop := ∀ q n, t.get q = some n → ∃ n', t'.get q = some n' ∧ n'.kind = n.kind

theorem KeepsKinds.refl (t : Tree) : KeepsKinds t t := fun _ n h => ⟨n, h, rfl⟩

theorem KeepsKinds.trans {a b c : Tree} (h₁ : KeepsKinds a b) (h₂ : KeepsKinds b c) : KeepsKinds a c := by
  intro q n h
  obtain ⟨n', h', hk⟩ := h₁ q n h
  obtain ⟨n'', h'', hk'⟩ := h₂ q n' h'
  exact ⟨n'', h'', hk'.trans hk⟩

theorem writeFile_keepsKinds {t t' : Tree} {p : Path} {c : List Nat} (h : writeFile t p c = .ok t') : KeepsKinds t t' := by
  obtain ⟨h1, _, h3, _, h5⟩ := writeFile_ok h
  intro q n hq
  by_cases hqp : q = p
  · subst hqp
    cases n with
    | dir => exact absurd hq h5
    | file d => exact ⟨.file c, h1, rfl⟩
  · exact ⟨n, by rw [h3 q hqp (by rw [hq]; simp), hq], rfl⟩

theorem writeAll_cons (t : Tree) (dest : Path → Path) (f : Path × List Nat) (fs : List (Path × List Nat)) :
    writeAll t dest (f :: fs) = (match writeFile t (dest f.1) f.2 with
      | .ok t1 => writeAll t1 dest fs
      | .error e => .error e) := by
  simp only [writeAll, List.foldlM_cons, bind, Except.bind]
  cases writeFile t (dest f.1) f.2 <;> rfl

theorem writeAll_spec (dest : Path → Path) : ∀ (fs : List (Path × List Nat)) (t t' : Tree), writeAll t dest fs = .ok t' →
    KeepsKinds t t' ∧
    (∀ q d, t.get q = some (.file d) → (∀ f ∈ fs, dest f.1 = q → f.2 = d) → t'.get q = some (.file d)) ∧
    (∀ q, (∀ f ∈ fs, q ≠ dest f.1) → t.get q ≠ none → t'.get q = t.get q) ∧
    (∀ q, (∀ f ∈ fs, q ≠ dest f.1 ∧ isAncestor q (dest f.1) = false) → t'.get q = t.get q) ∧
    ((∀ f ∈ fs, ∀ g ∈ fs, dest f.1 = dest g.1 → f.2 = g.2) → ∀ f ∈ fs, t'.get (dest f.1) = some (.file f.2)) := by
  intro fs
  induction fs with
  | nil =>
    intro t t' h
    simp only [writeAll, List.foldlM_nil, pure, Except.pure] at h
    cases h
    exact ⟨KeepsKinds.refl _, fun _ _ h _ => h, fun _ _ _ => rfl, fun _ _ => rfl, fun _ f hf => by cases hf⟩
  | cons f fs ih =>
    intro t t' h
    rw [writeAll_cons] at h
    cases hw : writeFile t (dest f.1) f.2 with
    | error e => rw [hw] at h; cases h
    | ok t1 =>
      rw [hw] at h
      simp only at h
      obtain ⟨w1, w2, w3, _, _⟩ := writeFile_ok hw
      obtain ⟨i1, i2, i3, i4, i5⟩ := ih t1 t' h
      refine ⟨(writeFile_keepsKinds hw).trans i1, ?_, ?_, ?_, ?_⟩
      · intro q d hq hfun
        apply i2 q d
        · by_cases hqp : q = dest f.1
          · rw [hqp, w1, hfun f (List.mem_cons_self) hqp.symm]
          · rw [w3 q hqp (by rw [hq]; simp), hq]
        · exact fun g hg => hfun g (List.mem_cons_of_mem _ hg)
      · intro q hq hne
        have hqf := hq f (List.mem_cons_self)
        rw [i3 q (fun g hg => hq g (List.mem_cons_of_mem _ hg)) (by rw [w3 q hqf hne]; exact hne), w3 q hqf hne]
      · intro q hq
        obtain ⟨hqf, haf⟩ := hq f (List.mem_cons_self)
        rw [i4 q (fun g hg => hq g (List.mem_cons_of_mem _ hg)), w2 q hqf haf]
      · intro hfun g hg
        rcases List.mem_cons.mp hg with rfl | hg'
        · apply i2 _ _ w1
          intro k hk hkq
          exact hfun k (List.mem_cons_of_mem _ hk) g (List.mem_cons_self) hkq
        · exact i5 (fun a ha b hb => hfun a (List.mem_cons_of_mem _ ha) b (List.mem_cons_of_mem _ hb)) g hg'

theorem mem_filesUnder {t : Tree} {p rel : Path} {c : List Nat} :
    (rel, c) ∈ filesUnder t p ↔ (p ++ rel) ∈ t.dom ∧ rel ≠ [] ∧ t.get (p ++ rel) = some (.file c) := by
  unfold filesUnder
  rw [List.mem_filterMap]
  constructor
  · rintro ⟨q, hq, h⟩
    split at h
    · next hc =>
      obtain ⟨hlen, htake⟩ := hc
      split at h
      · next c' hg =>
        simp only [Option.some.injEq, Prod.mk.injEq] at h
        obtain ⟨rfl, rfl⟩ := h
        have hq' : p ++ q.drop p.length = q := by
          have := List.take_append_drop p.length q
          rw [htake] at this; exact this
        rw [hq']
        refine ⟨hq, ?_, hg⟩
        intro hnil
        have := congrArg List.length hnil
        simp at this; omega
      · cases h
    · cases h
  · rintro ⟨hdom, hne, hg⟩
    refine ⟨p ++ rel, hdom, ?_⟩
    have hlen : p.length < (p ++ rel).length := by
      have : 0 < rel.length := List.length_pos_iff.mpr hne
      simp; omega
    have htake : (p ++ rel).take p.length = p := by simp
    simp only [hlen, htake, and_self, if_true, hg]
    simp

theorem filesUnder_functional (t : Tree) (p : Path) :
    ∀ f ∈ filesUnder t p, ∀ g ∈ filesUnder t p, f.1 = g.1 → f.2 = g.2 := by
  intro f hf g hg hfg
  obtain ⟨_, _, h1⟩ := (mem_filesUnder (rel := f.1) (c := f.2)).mp hf
  obtain ⟨_, _, h2⟩ := (mem_filesUnder (rel := g.1) (c := g.2)).mp hg
  rw [hfg, h2] at h1
  simpa using h1.symm

end HailVerif.Copy

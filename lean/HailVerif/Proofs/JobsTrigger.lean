import HailVerif.Model.BatchDB
/-!
The per-row lemma behind C01: the thirteen deltas that the GENERATED `jobs_after_update` block computes are exactly
`indicator(NEW) − indicator(OLD)` of the nine job classes the scheduler counters count (× cores for the core totals).
If the SQL formulas are edited, the regenerated definition changes and these equalities stop checking.
-/
namespace HailVerif.BatchDB
open HailVerif.Generated.JobsTrigger

/-- NOT always_run AND (cancelled OR group cancelled) -/
def cancelledW (ar c gc : Bool) : Bool := !ar && (c || gc)
/-- NOT always_run AND NOT (cancelled OR group cancelled) -/
def cancellableW (ar c gc : Bool) : Bool := !ar && !(c || gc)

/-- the trigger's deltas for OLD = (os, oc), NEW = (ns, nc), immutable always_run / cores, group-cancelled flag gc -/
def trig (os ns : JState) (oc nc ar gc : Bool) (cores : Int) : Deltas :=
  jobsAfterUpdate (stateStr os) (stateStr ns) (b2i oc) (b2i nc) (b2i ar) cores (b2i gc)

theorem eqS_state (st t : JState) : SqlInt.eqS (stateStr st) (stateStr t) = b2i (decide (st = t)) := by
  cases st <;> cases t <;> decide

/-- indicator of "in state `t` and `w`" -/
def ind (st t : JState) (w : Bool) : Int := b2i (decide (st = t) && w)

theorem b2i_cases (b : Bool) : b2i b = 0 ∨ b2i b = 1 := by cases b <;> simp [b2i]

macro "trig_count" : tactic =>
  `(tactic| (
    simp only [trig, jobsAfterUpdate, ind, cancelledW, cancellableW,
      show ("Ready" : String) = stateStr .Ready from rfl, show ("Running" : String) = stateStr .Running from rfl,
      show ("Creating" : String) = stateStr .Creating from rfl, eqS_state]
    rename_i os ns oc nc ar gc cores
    cases oc <;> cases nc <;> cases ar <;> cases gc <;>
      cases (decide (os = _)) <;> cases (decide (ns = _)) <;> decide))

variable (os ns : JState) (oc nc ar gc : Bool) (cores : Int)

theorem trig_ready : (trig os ns oc nc ar gc cores).delta_n_ready_jobs =
    ind ns .Ready (!cancelledW ar nc gc) - ind os .Ready (!cancelledW ar oc gc) := by trig_count
theorem trig_running : (trig os ns oc nc ar gc cores).delta_n_running_jobs =
    ind ns .Running (!cancelledW ar nc gc) - ind os .Running (!cancelledW ar oc gc) := by trig_count
theorem trig_creating : (trig os ns oc nc ar gc cores).delta_n_creating_jobs =
    ind ns .Creating (!cancelledW ar nc gc) - ind os .Creating (!cancelledW ar oc gc) := by trig_count
theorem trig_cancReady : (trig os ns oc nc ar gc cores).delta_n_cancelled_ready_jobs =
    ind ns .Ready (cancelledW ar nc gc) - ind os .Ready (cancelledW ar oc gc) := by trig_count
theorem trig_cancRunning : (trig os ns oc nc ar gc cores).delta_n_cancelled_running_jobs =
    ind ns .Running (cancelledW ar nc gc) - ind os .Running (cancelledW ar oc gc) := by trig_count
theorem trig_cancCreating : (trig os ns oc nc ar gc cores).delta_n_cancelled_creating_jobs =
    ind ns .Creating (cancelledW ar nc gc) - ind os .Creating (cancelledW ar oc gc) := by trig_count
theorem trig_readyCancellable : (trig os ns oc nc ar gc cores).delta_n_ready_cancellable_jobs =
    ind ns .Ready (cancellableW ar nc gc) - ind os .Ready (cancellableW ar oc gc) := by trig_count
theorem trig_runningCancellable : (trig os ns oc nc ar gc cores).delta_n_running_cancellable_jobs =
    ind ns .Running (cancellableW ar nc gc) - ind os .Running (cancellableW ar oc gc) := by trig_count
theorem trig_creatingCancellable : (trig os ns oc nc ar gc cores).delta_n_creating_cancellable_jobs =
    ind ns .Creating (cancellableW ar nc gc) - ind os .Creating (cancellableW ar oc gc) := by trig_count

/-- the four core totals are the corresponding job-count delta times the (immutable) cores of the job -/
theorem trig_cores :
    (trig os ns oc nc ar gc cores).delta_ready_cores_mcpu = (trig os ns oc nc ar gc cores).delta_n_ready_jobs * cores ∧
    (trig os ns oc nc ar gc cores).delta_running_cores_mcpu = (trig os ns oc nc ar gc cores).delta_n_running_jobs * cores ∧
    (trig os ns oc nc ar gc cores).delta_ready_cancellable_cores_mcpu =
      (trig os ns oc nc ar gc cores).delta_n_ready_cancellable_jobs * cores ∧
    (trig os ns oc nc ar gc cores).delta_running_cancellable_cores_mcpu =
      (trig os ns oc nc ar gc cores).delta_n_running_cancellable_jobs * cores := ⟨rfl, rfl, rfl, rfl⟩

/-- a row whose state and cancelled mark do not change contributes nothing -/
theorem trig_same (st : JState) (c ar gc : Bool) (cores : Int) :
    trig st st c c ar gc cores = ⟨0, 0, 0, 0, 0, 0, 0, 0, 0, 0, 0, 0, 0⟩ := by
  have e1 := trig_ready st st c c ar gc cores
  have e2 := trig_running st st c c ar gc cores
  have e3 := trig_creating st st c c ar gc cores
  have e4 := trig_cancReady st st c c ar gc cores
  have e5 := trig_cancRunning st st c c ar gc cores
  have e6 := trig_cancCreating st st c c ar gc cores
  have e7 := trig_readyCancellable st st c c ar gc cores
  have e8 := trig_runningCancellable st st c c ar gc cores
  have e9 := trig_creatingCancellable st st c c ar gc cores
  obtain ⟨c1, c2, c3, c4⟩ := trig_cores st st c c ar gc cores
  simp only [Int.sub_self] at e1 e2 e3 e4 e5 e6 e7 e8 e9
  rw [e1] at c1; rw [e2] at c2; rw [e7] at c3; rw [e8] at c4
  simp only [Int.zero_mul] at c1 c2 c3 c4
  cases h : trig st st c c ar gc cores
  simp_all

end HailVerif.BatchDB

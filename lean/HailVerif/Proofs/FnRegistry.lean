import HailVerif.Model.ExprTyping
/-! # The registry's unification rule on the calls the front end emits (C36) -/
namespace HailVerif.FnRegistry
open HailVerif.ExprIR

@[simp] theorem lookupVar_nil (n : String) : lookupVar [] n = none := rfl
@[simp] theorem lookupVar_cons_self (n : String) (t : HType) (r : Subst) : lookupVar ((n, t) :: r) n = some t := by
  simp [lookupVar]

/-- `(array<T>, T) → array<T>` / `(set<T>, T) → set<T>`-shaped calls unify exactly when the item has the element type -/
theorem item_call_ok (t : HType) :
    applyOk "append" [.array t, t] (.array t) = true ∧ applyOk "add" [.set t, t] (.set t) = true ∧
    applyOk "remove" [.set t, t] (.set t) = true ∧ applyOk "contains" [.array t, t] .bool = true ∧
    applyOk "contains" [.set t, t] .bool = true := by
  simp [applyOk, signatures, unifyAll, unify, bindVar]

theorem item_call_needs_equal {t u : HType} (h : u ≠ t) :
    applyOk "append" [.array t, u] (.array t) = false ∧ applyOk "add" [.set t, u] (.set t) = false ∧
    applyOk "remove" [.set t, u] (.set t) = false := by
  have h' : ¬ t = u := fun e => h e.symm
  simp [applyOk, signatures, unifyAll, unify, bindVar, h', vectorised, isNum]

theorem array_contains_needs_equal {t u : HType} (h : u ≠ t) :
    applyOk "contains" [.array t, u] .bool = false := by
  have h' : ¬ t = u := fun e => h e.symm
  simp [applyOk, signatures, unifyAll, unify, bindVar, h']

/-- `extend`, the set operations: both operands of the same collection type -/
theorem same_collection_ok (t : HType) :
    applyOk "extend" [.array t, .array t] (.array t) = true ∧ applyOk "union" [.set t, .set t] (.set t) = true ∧
    applyOk "intersection" [.set t, .set t] (.set t) = true ∧ applyOk "difference" [.set t, .set t] (.set t) = true ∧
    applyOk "isSubset" [.set t, .set t] .bool = true := by
  simp [applyOk, signatures, unifyAll, unify, bindVar]

/-- the dict family: the key argument has the key type, the default the value type -/
theorem dict_call_ok (k v : HType) :
    applyOk "get" [.dict k v, k, v] v = true ∧ applyOk "get" [.dict k v, k] v = true ∧ applyOk "contains" [.dict k v, k] .bool = true ∧
    applyOk "index" [.dict k v, k] v = true ∧ applyOk "keySet" [.dict k v] (.set k) = true ∧ applyOk "keys" [.dict k v] (.array k) = true ∧
    applyOk "values" [.dict k v] (.array v) = true := by
  refine ⟨?_, ?_, ?_, ?_, ?_, ?_, ?_⟩ <;> simp [applyOk, signatures, unifyAll, unify, bindVar, lookupVar]

theorem dict_key_needs_equal {k v u : HType} (h : u ≠ k) :
    applyOk "get" [.dict k v, u] v = false ∧ applyOk "index" [.dict k v, u] v = false := by
  have h' : ¬ k = u := fun e => h e.symm
  constructor <;> simp [applyOk, signatures, unifyAll, unify, bindVar, lookupVar, h']

/-- the vectorised arithmetic of `ArrayFunctions.scala`, all three shapes: `**` returns `array<float64>` whatever the numeric
element type, `+ - * // %` the element type, `/` float64 except on float32 -/
theorem vectorised_ok (t : HType) (h : isNum t = true) :
    applyOk "pow" [t, .array t] (.array .float64) = true ∧ applyOk "pow" [.array t, t] (.array .float64) = true ∧
    applyOk "pow" [.array t, .array t] (.array .float64) = true ∧
    applyOk "add" [t, .array t] (.array t) = true ∧ applyOk "sub" [.array t, t] (.array t) = true ∧
    applyOk "mul" [.array t, .array t] (.array t) = true ∧ applyOk "floordiv" [t, .array t] (.array t) = true ∧
    applyOk "mod" [.array t, t] (.array t) = true ∧
    applyOk "div" [t, .array t] (.array (if t = .float32 then .float32 else .float64)) = true := by
  cases t <;> simp [isNum] at h <;> decide

/-- a reflected `**` that reports the element type (the seeded `ArrayNumericExpression.__rpow__`) matches no implementation -/
theorem vectorised_pow_not_elementwise (t : HType) (h : isNum t = true) (hne : t ≠ .float64) :
    applyOk "pow" [t, .array t] (.array t) = false ∧ applyOk "pow" [.array t, t] (.array t) = false := by
  cases t <;> simp [isNum] at h <;> first | (exact absurd rfl hne) | decide

end HailVerif.FnRegistry

import HailVerif.Proofs.ValueEncPrim
/-! Missing-bit bytes: what is written is what is looked up (C33). -/
set_option linter.unusedSimpArgs false
set_option linter.unusedVariables false
namespace HailVerif.ValueEnc
open HailVerif.TypeStr HailVerif.Values

theorem lookupBit_packBits (fl : List Bool) (j : Nat) : lookupBit (packBits fl) j = (fl[j]?).getD false := by
  induction fl generalizing j with
  | nil => simp [packBits, lookupBit]
  | cons b r ih =>
    cases j with
    | zero => cases b <;> simp [packBits, lookupBit] <;> omega
    | succ j =>
      have hdiv : ((if b = true then 1 else 0) + 2 * packBits r) / 2 ^ (j + 1) = packBits r / 2 ^ j := by
        rw [Nat.pow_succ, Nat.mul_comm (2 ^ j) 2, ← Nat.div_div_eq_div_mul]
        congr 1
        cases b <;> simp <;> omega
      have := ih j
      simp only [lookupBit] at this ⊢
      simp only [packBits, hdiv, List.getElem?_cons_succ]
      exact this

theorem missingBytes_length (flags : List Bool) : ∀ f, flags.length ≤ f → (missingBytes f flags).length = (flags.length + 7) / 8 := by
  intro f
  induction f generalizing flags with
  | zero => intro h; cases flags <;> simp_all [missingBytes]
  | succ f ih =>
    intro h
    cases flags with
    | nil => simp [missingBytes]
    | cons b r =>
      have hl : (b :: r).length = r.length + 1 := rfl
      simp only [missingBytes, List.length_cons (a := packBits _)]
      rw [ih ((b :: r).drop 8) (by simp only [List.length_drop]; omega)]
      simp only [List.length_drop]
      omega

theorem missingBytes_get (k : Nat) : ∀ (flags : List Bool) f, flags.length ≤ f → 8 * k < flags.length →
    (missingBytes f flags)[k]? = some (packBits ((flags.drop (8 * k)).take 8)) := by
  induction k with
  | zero =>
    intro flags f hf hk
    cases f with
    | zero => omega
    | succ f =>
      cases flags with
      | nil => simp at hk
      | cons b r => simp [missingBytes]
  | succ k ih =>
    intro flags f hf hk
    cases f with
    | zero => omega
    | succ f =>
      cases flags with
      | nil => simp at hk
      | cons b r =>
        have hl : (b :: r).length = r.length + 1 := rfl
        simp only [missingBytes, List.getElem?_cons_succ]
        rw [ih ((b :: r).drop 8) f (by simp only [List.length_drop]; omega) (by simp only [List.length_drop]; omega), List.drop_drop]
        congr 4
        omega

def naFlags (xs : List Value) : List Bool := xs.map isNa

theorem missingOf_eq (xs : List Value) : missingOf xs = missingBytes xs.length (naFlags xs) := rfl

theorem missingOf_length (xs : List Value) : (missingOf xs).length = (xs.length + 7) / 8 := by
  rw [missingOf_eq, missingBytes_length _ _ (by simp [naFlags])]
  simp [naFlags]


theorem missingAt_missingOf (xs : List Value) (i : Nat) (h : i < xs.length) :
    missingAt (missingOf xs) i = some (isNa xs[i]) := by
  unfold missingAt
  rw [missingOf_eq, missingBytes_get (i / 8) (naFlags xs) xs.length (by simp [naFlags]) (by simp [naFlags]; omega)]
  simp only [Option.map_some, lookupBit_packBits]
  have hi : i % 8 < 8 := Nat.mod_lt _ (by decide)
  rw [List.getElem?_take_of_lt hi, List.getElem?_drop]
  have : 8 * (i / 8) + i % 8 = i := by omega
  rw [this]
  simp [naFlags, h]

end HailVerif.ValueEnc

import HailVerif.Model.ValueEnc
/-! Row-major ↔ column-major listings of n-dimensional arrays (C33). -/
set_option linter.unusedSimpArgs false
set_option linter.unusedVariables false
namespace HailVerif.ValueEnc

theorem foldl_mul_init (l : List Nat) (a : Nat) : l.foldl (· * ·) a = a * l.foldl (· * ·) 1 := by
  induction l generalizing a with
  | nil => simp
  | cons x l ih => simp only [List.foldl_cons]; rw [ih (a * x), ih (1 * x)]; simp [Nat.mul_assoc]

theorem prod_nil : prod [] = 1 := rfl

theorem prod_cons (d : Nat) (rest : List Nat) : prod (d :: rest) = d * prod rest := by
  unfold prod
  simp only [List.foldl_cons]
  rw [foldl_mul_init rest (1 * d)]; simp

theorem chunks_spec {α : Type} (n : Nat) : ∀ (k : Nat) (xs : List α), xs.length = k * n →
    (chunks n k xs).length = k ∧ (∀ c ∈ chunks n k xs, c.length = n) ∧ (chunks n k xs).flatten = xs := by
  intro k
  induction k with
  | zero =>
    intro xs h
    have : xs = [] := List.eq_nil_of_length_eq_zero (by simpa using h)
    subst this; simp [chunks]
  | succ k ih =>
    intro xs h
    have hlen : n ≤ xs.length := by rw [h, Nat.succ_mul]; omega
    obtain ⟨h1, h2, h3⟩ := ih (xs.drop n) (by rw [List.length_drop, h, Nat.succ_mul]; omega)
    refine ⟨by simp [chunks, h1], ?_, by simp [chunks, h3]⟩
    intro c hc
    simp only [chunks, List.mem_cons] at hc
    rcases hc with rfl | hc
    · simp [List.length_take]; omega
    · exact h2 c hc

/-- `d` rows of length `m` -/
def Rows {α : Type} (d m : Nat) (rows : List (List α)) : Prop := rows.length = d ∧ ∀ r ∈ rows, r.length = m

theorem rows_zero {α : Type} (d : Nat) (rows : List (List α)) (h : Rows d 0 rows) : rows = List.replicate d [] := by
  obtain ⟨h1, h2⟩ := h
  induction rows generalizing d with
  | nil => subst h1; rfl
  | cons r rows ih =>
    have hr : r = [] := List.eq_nil_of_length_eq_zero (h2 r (by simp))
    subst hr
    cases d with
    | zero => simp at h1
    | succ d =>
      rw [List.replicate_succ, ih d (by simpa using h1) (fun r hr => h2 r (by simp [hr]))]

theorem rows_succ {α : Type} (d m : Nat) (rows : List (List α)) (h : Rows d (m + 1) rows) :
    (rows.filterMap List.head?).length = d ∧ Rows d m (rows.map List.tail) ∧
    List.zipWith (· :: ·) (rows.filterMap List.head?) (rows.map List.tail) = rows := by
  obtain ⟨h1, h2⟩ := h
  induction rows generalizing d with
  | nil => subst h1; exact ⟨rfl, ⟨rfl, by simp⟩, rfl⟩
  | cons r rows ih =>
    cases d with
    | zero => simp at h1
    | succ d =>
      have hr := h2 r (by simp)
      cases r with
      | nil => simp at hr
      | cons a r' =>
        obtain ⟨i1, ⟨i2, i3⟩, i4⟩ := ih d (by simpa using h1) (fun r hr => h2 r (by simp [hr]))
        refine ⟨by simp [i1], ⟨by simp [i2], ?_⟩, by simp [i4]⟩
        intro x hx
        simp only [List.map_cons, List.mem_cons] at hx
        rcases hx with rfl | hx
        · simpa using hr
        · exact i3 x hx

theorem interleave_length {α : Type} (d : Nat) : ∀ (m : Nat) (rows : List (List α)), Rows d m rows →
    (interleave m rows).length = d * m := by
  intro m
  induction m with
  | zero => intro rows _; simp [interleave]
  | succ m ih =>
    intro rows h
    obtain ⟨h1, h2, _⟩ := rows_succ d m rows h
    simp only [interleave, List.length_append, h1, ih _ h2]
    rw [Nat.mul_succ]; omega

theorem uninterleave_interleave {α : Type} (d : Nat) : ∀ (m : Nat) (rows : List (List α)), Rows d m rows →
    uninterleave d m (interleave m rows) = rows := by
  intro m
  induction m with
  | zero => intro rows h; simp [uninterleave, interleave, rows_zero d rows h]
  | succ m ih =>
    intro rows h
    obtain ⟨h1, h2, h3⟩ := rows_succ d m rows h
    simp only [interleave, uninterleave]
    rw [List.take_left' h1, List.drop_left' h1, ih _ h2, h3]

theorem map_map_id {α β : Type} (f : α → β) (g : β → α) (l : List α) (h : ∀ x ∈ l, g (f x) = x) : (l.map f).map g = l := by
  induction l with
  | nil => rfl
  | cons x l ih => simp [h x (by simp), ih (fun y hy => h y (by simp [hy]))]

theorem toColMajor_length {α : Type} : ∀ (shape : List Nat) (xs : List α), xs.length = prod shape →
    (toColMajor shape xs).length = prod shape := by
  intro shape
  induction shape with
  | nil => intro xs h; simpa [toColMajor] using h
  | cons d rest ih =>
    intro xs h
    rw [prod_cons] at h ⊢
    obtain ⟨c1, c2, _⟩ := chunks_spec (prod rest) d xs h
    have hrows : Rows d (prod rest) ((chunks (prod rest) d xs).map (toColMajor rest)) := by
      refine ⟨by simp [c1], ?_⟩
      intro r hr
      simp only [List.mem_map] at hr
      obtain ⟨c, hc, rfl⟩ := hr
      exact ih c (c2 c hc)
    simp only [toColMajor]
    exact interleave_length d _ _ hrows

theorem fromColMajor_toColMajor {α : Type} : ∀ (shape : List Nat) (xs : List α), xs.length = prod shape →
    fromColMajor shape (toColMajor shape xs) = xs := by
  intro shape
  induction shape with
  | nil => intro xs _; rfl
  | cons d rest ih =>
    intro xs h
    rw [prod_cons] at h
    obtain ⟨c1, c2, c3⟩ := chunks_spec (prod rest) d xs h
    have hrows : Rows d (prod rest) ((chunks (prod rest) d xs).map (toColMajor rest)) := by
      refine ⟨by simp [c1], ?_⟩
      intro r hr
      simp only [List.mem_map] at hr
      obtain ⟨c, hc, rfl⟩ := hr
      exact toColMajor_length rest c (c2 c hc)
    simp only [toColMajor, fromColMajor]
    rw [uninterleave_interleave d _ _ hrows, map_map_id _ _ _ (fun c hc => ih c (c2 c hc)), c3]

/-- a matrix with `r` rows and `c` columns listed row-major is written column by column -/
theorem toColMajor_2x3 {α : Type} (a b c d e f : α) : toColMajor [2, 3] [a, b, c, d, e, f] = [a, d, b, e, c, f] := rfl

end HailVerif.ValueEnc

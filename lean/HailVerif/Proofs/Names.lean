import HailVerif.Model.Names
/-!
Specification and helper lemmas for C28.

Part 1: the two grammars of the property text (`Username`, `Rfc1123Name`) as one inductive predicate `Labels`
parametrised by the separator set, and the equivalent "plain reading" `Plain`.
Part 2: the matcher `rmatch` decides the usual denotation `Lang` of a regular expression.
Part 3: the language of `secretNameRe` is `Rfc1123Name`; `validUsername` decides `Username`.
-/
namespace HailVerif.Names

/-! ## Part 1 — specification -/

/-- an ASCII lowercase letter or an ASCII digit -/
def LowerAlnum (c : Char) : Prop := ('a' ≤ c ∧ c ≤ 'z') ∨ ('0' ≤ c ∧ c ≤ '9')

/-- Non-empty alphanumeric labels joined by single separators: the string starts with an alphanumeric, ends with
an alphanumeric, and every separator stands between two alphanumerics. -/
inductive Labels (Sep : Char → Prop) : List Char → Prop
  | last {c : Char} : LowerAlnum c → Labels Sep [c]
  | more {c : Char} {rest : List Char} : LowerAlnum c → Labels Sep rest → Labels Sep (c :: rest)
  | sep {c d : Char} {rest : List Char} : LowerAlnum c → Sep d → Labels Sep rest → Labels Sep (c :: d :: rest)

/-- "a non-empty string of ASCII lowercase letters, digits and single interior hyphens" -/
def Username (s : List Char) : Prop := Labels (fun d => d = '-') s

/-- "a lowercase RFC-1123 style name: alphanumeric labels joined by single dots or hyphens" -/
def Rfc1123Name (s : List Char) : Prop := Labels (fun d => d = '.' ∨ d = '-') s

/-- The same language said without recursion: non-empty; only alphanumerics and separators; first and last
character alphanumeric; of any two adjacent characters at least one is alphanumeric. -/
structure Plain (Sep : Char → Prop) (s : List Char) : Prop where
  nonempty : s ≠ []
  chars : ∀ c ∈ s, LowerAlnum c ∨ Sep c
  first : ∀ c, s.head? = some c → LowerAlnum c
  final : ∀ c, s.getLast? = some c → LowerAlnum c
  single : ∀ pre a b post, s = pre ++ a :: b :: post → LowerAlnum a ∨ LowerAlnum b

theorem inRange_iff (lo hi c : Char) : inRange lo hi c = true ↔ lo ≤ c ∧ c ≤ hi := by
  simp [inRange, Char.le_def, UInt32.le_iff_toNat_le]

theorem lowerAlnum_iff (c : Char) : lowerAlnum c = true ↔ LowerAlnum c := by
  simp [lowerAlnum, LowerAlnum, inRange_iff]

theorem dotOrHyphen_iff (c : Char) : dotOrHyphen c = true ↔ (c = '.' ∨ c = '-') := by
  simp [dotOrHyphen]

theorem lowerAlnum_ascii {c : Char} (h : LowerAlnum c) : c.toNat < 128 := by
  rw [← lowerAlnum_iff] at h
  simp [lowerAlnum, inRange] at h
  omega

theorem lowerAlnum_ne_hyphen {c : Char} (h : LowerAlnum c) : c ≠ '-' := by
  intro h2; subst h2; rw [← lowerAlnum_iff] at h; revert h; decide

theorem not_lowerAlnum_hyphen : ¬ LowerAlnum '-' := fun h => lowerAlnum_ne_hyphen h rfl

theorem userChar_iff (c : Char) : userChar c = true ↔ (LowerAlnum c ∨ c = '-') := by
  constructor
  · intro h
    simp only [userChar, isDigit, isLower, Bool.and_eq_true, Bool.or_eq_true, beq_iff_eq] at h
    rcases h.2 with (h | h) | h
    · left; rw [← lowerAlnum_iff]; simp [lowerAlnum, h]
    · left; rw [← lowerAlnum_iff]; simp [lowerAlnum, h]
    · right; exact h
  · rintro (h | h)
    · have ha := lowerAlnum_ascii h
      rw [← lowerAlnum_iff] at h
      simp only [lowerAlnum, Bool.or_eq_true] at h
      simp only [userChar, isAscii, isDigit, isLower, Bool.and_eq_true, Bool.or_eq_true, decide_eq_true_eq]
      exact ⟨ha, by rcases h with h | h <;> simp [h]⟩
    · subst h; decide

theorem Labels.ne_nil {Sep : Char → Prop} {s : List Char} (h : Labels Sep s) : s ≠ [] := by
  cases h <;> simp

theorem Labels.head {Sep : Char → Prop} {s : List Char} (h : Labels Sep s) :
    ∃ c tl, s = c :: tl ∧ LowerAlnum c := by
  cases h with
  | last hc => exact ⟨_, _, rfl, hc⟩
  | more hc _ => exact ⟨_, _, rfl, hc⟩
  | sep hc _ _ => exact ⟨_, _, rfl, hc⟩

theorem Labels.mono {S T : Char → Prop} (hST : ∀ d, S d → T d) {s : List Char} (h : Labels S s) : Labels T s := by
  induction h with
  | last hc => exact .last hc
  | more hc _ ih => exact .more hc ih
  | sep hc hd _ ih => exact .sep hc (hST _ hd) ih

theorem Labels.plain {Sep : Char → Prop} {s : List Char} (h : Labels Sep s) : Plain Sep s := by
  induction h with
  | @last c hc =>
    refine ⟨by simp, ?_, ?_, ?_, ?_⟩
    · intro x hx; simp at hx; subst hx; exact Or.inl hc
    · intro x hx; simp at hx; subst hx; exact hc
    · intro x hx; simp at hx; subst hx; exact hc
    · intro pre a b post h
      have := congrArg List.length h
      simp at this; omega
  | @more c rest hc hr ih =>
    obtain ⟨e, tl, rfl, he⟩ := hr.head
    refine ⟨by simp, ?_, ?_, ?_, ?_⟩
    · intro x hx
      rcases List.mem_cons.1 hx with rfl | hx
      · exact Or.inl hc
      · exact ih.chars x hx
    · intro x hx; simp at hx; subst hx; exact hc
    · intro x hx; exact ih.final x (by simpa [List.getLast?_cons_cons] using hx)
    · intro pre a b post h
      cases pre with
      | nil => simp at h; obtain ⟨rfl, rfl, _⟩ := h; exact Or.inl hc
      | cons p pre' =>
        simp only [List.cons_append, List.cons.injEq] at h
        exact ih.single pre' a b post h.2
  | @sep c d rest hc hd hr ih =>
    obtain ⟨e, tl, rfl, he⟩ := hr.head
    refine ⟨by simp, ?_, ?_, ?_, ?_⟩
    · intro x hx
      rcases List.mem_cons.1 hx with rfl | hx
      · exact Or.inl hc
      · rcases List.mem_cons.1 hx with rfl | hx
        · exact Or.inr hd
        · exact ih.chars x hx
    · intro x hx; simp at hx; subst hx; exact hc
    · intro x hx; exact ih.final x (by simpa [List.getLast?_cons_cons] using hx)
    · intro pre a b post h
      cases pre with
      | nil => simp at h; obtain ⟨rfl, rfl, _⟩ := h; exact Or.inl hc
      | cons p pre' =>
        simp only [List.cons_append, List.cons.injEq] at h
        cases pre' with
        | nil => simp at h; obtain ⟨_, rfl, rfl, _⟩ := h; exact Or.inr he
        | cons q pre'' =>
          simp only [List.cons_append, List.cons.injEq] at h
          exact ih.single pre'' a b post h.2.2

/-- the tail of a `Plain` string that starts with two characters, the second alphanumeric -/
private theorem Plain.tail {Sep : Char → Prop} {c d : Char} {tl : List Char}
    (h : Plain Sep (c :: d :: tl)) (hd : LowerAlnum d) : Plain Sep (d :: tl) := by
  refine ⟨by simp, ?_, ?_, ?_, ?_⟩
  · intro x hx; exact h.chars x (List.mem_cons_of_mem _ hx)
  · intro x hx; simp at hx; subst hx; exact hd
  · intro x hx; exact h.final x (by simpa [List.getLast?_cons_cons] using hx)
  · intro pre a b post e; exact h.single (c :: pre) a b post (by simp [e])

theorem Plain.labels {Sep : Char → Prop} : ∀ (n : Nat) (s : List Char), s.length ≤ n → Plain Sep s → Labels Sep s := by
  intro n
  induction n with
  | zero => intro s hn h; cases s with
    | nil => exact absurd rfl h.nonempty
    | cons _ _ => simp at hn
  | succ n ih =>
    intro s hn h
    match s, h with
    | [], h => exact absurd rfl h.nonempty
    | [c], h => exact .last (h.first c rfl)
    | c :: d :: tl, h =>
      have hc : LowerAlnum c := h.first c rfl
      by_cases hd : LowerAlnum d
      · exact .more hc (ih (d :: tl) (by simp at hn ⊢; omega) (h.tail hd))
      · have hsd : Sep d := (h.chars d (by simp)).resolve_left hd
        match tl, h with
        | [], h => exact absurd (h.final d (by simp)) hd
        | e :: tl', h =>
          have he : LowerAlnum e := (h.single [c] d e tl' rfl).resolve_left hd
          have h2 : Plain Sep (e :: tl') := by
            refine ⟨by simp, ?_, ?_, ?_, ?_⟩
            · intro x hx; exact h.chars x (List.mem_cons_of_mem _ (List.mem_cons_of_mem _ hx))
            · intro x hx; simp at hx; subst hx; exact he
            · intro x hx; exact h.final x (by simpa [List.getLast?_cons_cons] using hx)
            · intro pre a b post e'; exact h.single (c :: d :: pre) a b post (by simp [e'])
          exact .sep hc hsd (ih (e :: tl') (by simp at hn ⊢; omega) h2)

theorem labels_iff_plain {Sep : Char → Prop} (s : List Char) : Labels Sep s ↔ Plain Sep s :=
  ⟨Labels.plain, Plain.labels s.length s (Nat.le_refl _)⟩

/-! ## Part 2 — the matcher decides the denotation -/

/-- the language of a regular expression -/
inductive Lang : Re → List Char → Prop
  | eps : Lang .eps []
  | cls {p : Char → Bool} {c : Char} : p c = true → Lang (.cls p) [c]
  | seq {a b : Re} {x y : List Char} : Lang a x → Lang b y → Lang (.seq a b) (x ++ y)
  | altL {a b : Re} {x : List Char} : Lang a x → Lang (.alt a b) x
  | altR {a b : Re} {x : List Char} : Lang b x → Lang (.alt a b) x
  | starNil {a : Re} : Lang (.star a) []
  | starCons {a : Re} {x y : List Char} : Lang a x → Lang (.star a) y → Lang (.star a) (x ++ y)

theorem lang_seq_inv {a b : Re} {s : List Char} (h : Lang (.seq a b) s) :
    ∃ x y, s = x ++ y ∧ Lang a x ∧ Lang b y := by
  cases h with | seq h1 h2 => exact ⟨_, _, rfl, h1, h2⟩

theorem lang_alt_inv {a b : Re} {s : List Char} (h : Lang (.alt a b) s) : Lang a s ∨ Lang b s := by
  cases h with
  | altL h => exact Or.inl h
  | altR h => exact Or.inr h

theorem lang_cls_inv {p : Char → Bool} {s : List Char} (h : Lang (.cls p) s) : ∃ c, s = [c] ∧ p c = true := by
  cases h with | cls h => exact ⟨_, rfl, h⟩

theorem lang_eps_inv {s : List Char} (h : Lang .eps s) : s = [] := by
  cases h; rfl

theorem lang_opt_inv {a : Re} {s : List Char} (h : Lang (Re.opt a) s) : Lang a s ∨ s = [] := by
  rcases lang_alt_inv h with h | h
  · exact Or.inl h
  · exact Or.inr (lang_eps_inv h)

theorem nullable_iff (r : Re) : nullable r = true ↔ Lang r [] := by
  induction r with
  | none => simp only [nullable]; constructor <;> intro h <;> cases h
  | eps => simp only [nullable]; exact ⟨fun _ => .eps, fun _ => trivial⟩
  | cls p =>
    simp only [nullable]; constructor
    · intro h; cases h
    · intro h; obtain ⟨c, hc, _⟩ := lang_cls_inv h; cases hc
  | seq a b iha ihb =>
    simp only [nullable, Bool.and_eq_true, iha, ihb]
    constructor
    · rintro ⟨h1, h2⟩; exact Lang.seq h1 h2
    · intro h
      obtain ⟨x, y, e, h1, h2⟩ := lang_seq_inv h
      have := List.append_eq_nil_iff.1 e.symm
      obtain ⟨rfl, rfl⟩ := this
      exact ⟨h1, h2⟩
  | alt a b iha ihb =>
    simp only [nullable, Bool.or_eq_true, iha, ihb]
    constructor
    · rintro (h | h)
      · exact .altL h
      · exact .altR h
    · exact lang_alt_inv
  | star a _ => simp only [nullable]; exact ⟨fun _ => .starNil, fun _ => trivial⟩

theorem star_cons_inv : ∀ (r : Re) (t : List Char), Lang r t → ∀ (a : Re) (c : Char) (s : List Char),
    r = .star a → t = c :: s → ∃ x y, s = x ++ y ∧ Lang a (c :: x) ∧ Lang (.star a) y := by
  intro r t h
  induction h with
  | eps => intro a c s hr; cases hr
  | cls _ => intro a c s hr; cases hr
  | seq _ _ _ _ => intro a c s hr; cases hr
  | altL _ _ => intro a c s hr; cases hr
  | altR _ _ => intro a c s hr; cases hr
  | starNil => intro a c s _ ht; cases ht
  | @starCons a' x y h1 h2 _ ih2 =>
    intro a c s hr ht
    cases hr
    cases x with
    | nil => exact ih2 _ c s rfl (by simpa using ht)
    | cons c' x' =>
      simp only [List.cons_append, List.cons.injEq] at ht
      obtain ⟨rfl, rfl⟩ := ht
      exact ⟨x', y, rfl, h1, h2⟩

theorem deriv_iff (c : Char) (r : Re) : ∀ s : List Char, Lang (deriv c r) s ↔ Lang r (c :: s) := by
  induction r with
  | none => intro s; simp only [deriv]; constructor <;> intro h <;> cases h
  | eps => intro s; simp only [deriv]; constructor <;> intro h <;> cases h
  | cls p =>
    intro s
    simp only [deriv]
    constructor
    · intro h
      split at h
      next hp => cases lang_eps_inv h; exact .cls hp
      next => cases h
    · intro h
      obtain ⟨c', e, hp⟩ := lang_cls_inv h
      simp only [List.cons.injEq] at e
      obtain ⟨rfl, rfl⟩ := e
      simp only [hp, if_true]; exact .eps
  | seq a b iha ihb =>
    intro s
    have fwd1 : ∀ s, Lang (.seq (deriv c a) b) s → Lang (.seq a b) (c :: s) := by
      intro s h
      obtain ⟨x, y, rfl, h1, h2⟩ := lang_seq_inv h
      exact (Lang.seq ((iha x).1 h1) h2 : Lang (.seq a b) ((c :: x) ++ y))
    simp only [deriv]
    constructor
    · intro h
      split at h
      next hn =>
        rcases lang_alt_inv h with h | h
        · exact fwd1 s h
        · exact (Lang.seq ((nullable_iff a).1 hn) ((ihb s).1 h) : Lang (.seq a b) ([] ++ c :: s))
      next => exact fwd1 s h
    · intro h
      obtain ⟨x, y, e, h1, h2⟩ := lang_seq_inv h
      cases x with
      | nil =>
        simp only [List.nil_append] at e
        subst e
        have hn := (nullable_iff a).2 h1
        simp only [hn, if_true]
        exact .altR ((ihb s).2 h2)
      | cons c' x' =>
        simp only [List.cons_append, List.cons.injEq] at e
        obtain ⟨rfl, rfl⟩ := e
        have : Lang (.seq (deriv c a) b) (x' ++ y) := .seq ((iha x').2 h1) h2
        split
        · exact .altL this
        · exact this
  | alt a b iha ihb =>
    intro s
    simp only [deriv]
    constructor
    · intro h
      rcases lang_alt_inv h with h | h
      · exact .altL ((iha s).1 h)
      · exact .altR ((ihb s).1 h)
    · intro h
      rcases lang_alt_inv h with h | h
      · exact .altL ((iha s).2 h)
      · exact .altR ((ihb s).2 h)
  | star a iha =>
    intro s
    simp only [deriv]
    constructor
    · intro h
      obtain ⟨x, y, rfl, h1, h2⟩ := lang_seq_inv h
      exact (Lang.starCons ((iha x).1 h1) h2 : Lang (.star a) ((c :: x) ++ y))
    · intro h
      obtain ⟨x, y, rfl, h1, h2⟩ := star_cons_inv _ _ h a c s rfl rfl
      exact .seq ((iha x).2 h1) h2

/-- `rmatch` is a decision procedure for `Lang` -/
theorem rmatch_iff : ∀ (s : List Char) (r : Re), rmatch r s = true ↔ Lang r s := by
  intro s
  induction s with
  | nil => intro r; simp only [rmatch]; exact nullable_iff r
  | cons c cs ih => intro r; simp only [rmatch]; rw [ih, deriv_iff]

/-- a word of `a*` is a concatenation of words of `a` -/
theorem star_flatten : ∀ (r : Re) (t : List Char), Lang r t → ∀ a, r = .star a →
    ∃ xs : List (List Char), t = xs.flatten ∧ ∀ x ∈ xs, Lang a x := by
  intro r t h
  induction h with
  | eps => intro a hr; cases hr
  | cls _ => intro a hr; cases hr
  | seq _ _ _ _ => intro a hr; cases hr
  | altL _ _ => intro a hr; cases hr
  | altR _ _ => intro a hr; cases hr
  | starNil => intro a _; exact ⟨[], rfl, by simp⟩
  | @starCons a' x y h1 _ _ ih2 =>
    intro a hr
    cases hr
    obtain ⟨xs, rfl, hxs⟩ := ih2 _ rfl
    refine ⟨x :: xs, by simp, ?_⟩
    intro z hz
    rcases List.mem_cons.1 hz with rfl | hz
    · exact h1
    · exact hxs z hz

/-! ## Part 3 — the two validators -/

/-- one iteration of the group `([.\-]?[a-z0-9])` -/
def stepRe : Re := .seq (Re.opt (.cls dotOrHyphen)) (.cls lowerAlnum)

theorem stepRe_inv {x : List Char} (h : Lang stepRe x) :
    (∃ a, x = [a] ∧ LowerAlnum a) ∨ (∃ d a, x = [d, a] ∧ (d = '.' ∨ d = '-') ∧ LowerAlnum a) := by
  obtain ⟨u, v, rfl, hu, hv⟩ := lang_seq_inv h
  obtain ⟨a, rfl, ha⟩ := lang_cls_inv hv
  rw [lowerAlnum_iff] at ha
  rcases lang_opt_inv hu with hu | rfl
  · obtain ⟨d, rfl, hd⟩ := lang_cls_inv hu
    rw [dotOrHyphen_iff] at hd
    exact Or.inr ⟨d, a, rfl, hd, ha⟩
  · exact Or.inl ⟨a, rfl, ha⟩

private theorem labels_of_steps : ∀ (xs : List (List Char)), (∀ x ∈ xs, Lang stepRe x) →
    ∀ (c : Char) (tail : List Char), LowerAlnum c → (tail = [] ∨ ∃ e, tail = [e] ∧ LowerAlnum e) →
    Labels (fun d => d = '.' ∨ d = '-') (c :: (xs.flatten ++ tail)) := by
  intro xs
  induction xs with
  | nil =>
    intro _ c tail hc ht
    rcases ht with rfl | ⟨e, rfl, he⟩
    · exact .last hc
    · exact .more hc (.last he)
  | cons x xs ih =>
    intro hx c tail hc ht
    have hxs : ∀ z ∈ xs, Lang stepRe z := fun z hz => hx z (List.mem_cons_of_mem _ hz)
    rcases stepRe_inv (hx x (by simp)) with ⟨a, rfl, ha⟩ | ⟨d, a, rfl, hd, ha⟩
    · simpa using Labels.more hc (ih hxs a tail ha ht)
    · simpa using Labels.sep hc hd (ih hxs a tail ha ht)

theorem lang_secretNameRe (s : List Char) : Lang secretNameRe s ↔ Rfc1123Name s := by
  constructor
  · intro h
    unfold secretNameRe at h
    obtain ⟨x, y, rfl, hx, hy⟩ := lang_seq_inv h
    obtain ⟨c, rfl, hc⟩ := lang_cls_inv hx
    rw [lowerAlnum_iff] at hc
    obtain ⟨mid, tail, rfl, hmid, htail⟩ := lang_seq_inv hy
    obtain ⟨xs, rfl, hxs⟩ := star_flatten _ _ hmid _ rfl
    have ht : tail = [] ∨ ∃ e, tail = [e] ∧ LowerAlnum e := by
      rcases lang_opt_inv htail with h | h
      · obtain ⟨e, rfl, he⟩ := lang_cls_inv h
        exact Or.inr ⟨e, rfl, (lowerAlnum_iff e).1 he⟩
      · exact Or.inl h
    exact labels_of_steps xs hxs c tail hc ht
  · intro h
    -- every name is  c · (steps)*  with the trailing optional class unused
    have key : ∃ c mid, s = c :: mid ∧ LowerAlnum c ∧ Lang (.star stepRe) mid := by
      unfold Rfc1123Name at h
      induction h with
      | @last c hc => exact ⟨c, [], rfl, hc, .starNil⟩
      | @more c rest hc _ ih =>
        obtain ⟨c', mid, rfl, hc', hmid⟩ := ih
        refine ⟨c, c' :: mid, rfl, hc, ?_⟩
        have h1 : Lang stepRe ([] ++ [c']) := .seq (.altR .eps) (.cls ((lowerAlnum_iff c').2 hc'))
        exact (Lang.starCons h1 hmid : Lang (.star stepRe) (([] ++ [c']) ++ mid))
      | @sep c d rest hc hd _ ih =>
        obtain ⟨c', mid, rfl, hc', hmid⟩ := ih
        refine ⟨c, d :: c' :: mid, rfl, hc, ?_⟩
        have h1 : Lang stepRe ([d] ++ [c']) :=
          .seq (.altL (.cls ((dotOrHyphen_iff d).2 hd))) (.cls ((lowerAlnum_iff c').2 hc'))
        exact (Lang.starCons h1 hmid : Lang (.star stepRe) (([d] ++ [c']) ++ mid))
    obtain ⟨c, mid, rfl, hc, hmid⟩ := key
    have h2 : Lang (.seq (.star stepRe) (Re.opt (.cls lowerAlnum))) (mid ++ []) := .seq hmid (.altR .eps)
    have h3 : Lang secretNameRe ([c] ++ (mid ++ [])) := .seq (.cls ((lowerAlnum_iff c).2 hc)) h2
    simpa using h3

/-! ### username -/

theorem startsWithHyphen_iff (s : List Char) : startsWithHyphen s = true ↔ s.head? = some '-' := by
  cases s <;> simp [startsWithHyphen]

theorem endsWithHyphen_iff : ∀ s : List Char, endsWithHyphen s = true ↔ s.getLast? = some '-'
  | [] => by simp [endsWithHyphen]
  | [c] => by simp [endsWithHyphen]
  | _ :: d :: cs => by
    rw [endsWithHyphen, endsWithHyphen_iff (d :: cs), List.getLast?_cons_cons]

theorem containsDoubleHyphen_iff : ∀ s : List Char, containsDoubleHyphen s = true ↔
    ∃ pre post, s = pre ++ '-' :: '-' :: post
  | [] => by simp [containsDoubleHyphen]
  | [c] => by
    simp only [containsDoubleHyphen]
    constructor
    · intro h; cases h
    · rintro ⟨pre, post, e⟩
      have := congrArg List.length e
      simp at this; omega
  | c :: d :: cs => by
    rw [containsDoubleHyphen, Bool.or_eq_true, containsDoubleHyphen_iff (d :: cs)]
    constructor
    · rintro (h | ⟨pre, post, e⟩)
      · simp only [Bool.and_eq_true, beq_iff_eq] at h
        obtain ⟨rfl, rfl⟩ := h
        exact ⟨[], cs, rfl⟩
      · exact ⟨c :: pre, post, by simp [e]⟩
    · rintro ⟨pre, post, e⟩
      cases pre with
      | nil =>
        simp only [List.nil_append, List.cons.injEq] at e
        obtain ⟨rfl, rfl, _⟩ := e
        exact Or.inl (by decide)
      | cons p pre' =>
        simp only [List.cons_append, List.cons.injEq] at e
        exact Or.inr ⟨pre', post, e.2⟩

theorem validUsername_iff_plain (s : List Char) : validUsername s = true ↔ Plain (fun d => d = '-') s := by
  unfold validUsername
  constructor
  · intro h
    split at h
    · cases h
    next hne =>
    split at h
    · cases h
    next hse =>
    split at h
    · cases h
    next hdh =>
    simp only [Bool.or_eq_true, not_or, Bool.not_eq_true] at hse
    have hchars : ∀ c ∈ s, LowerAlnum c ∨ c = '-' := fun c hc => (userChar_iff c).1 (List.all_eq_true.1 h c hc)
    refine ⟨by simpa using hne, hchars, ?_, ?_, ?_⟩
    · intro c hc
      have hm : c ∈ s := List.mem_of_mem_head? hc
      refine (hchars c hm).resolve_right ?_
      rintro rfl
      have := (startsWithHyphen_iff s).2 hc
      simp [this] at hse
    · intro c hc
      have hm : c ∈ s := List.mem_of_getLast? hc
      refine (hchars c hm).resolve_right ?_
      rintro rfl
      have := (endsWithHyphen_iff s).2 hc
      simp [this] at hse
    · intro pre a b post e
      by_cases ha : LowerAlnum a
      · exact Or.inl ha
      · by_cases hb : LowerAlnum b
        · exact Or.inr hb
        · exfalso
          have ha' : a = '-' := (hchars a (by simp [e])).resolve_left ha
          have hb' : b = '-' := (hchars b (by simp [e])).resolve_left hb
          subst ha' hb'
          exact hdh ((containsDoubleHyphen_iff s).2 ⟨pre, post, e⟩)
  · intro h
    have h1 : s.isEmpty = false := by
      cases s with
      | nil => exact absurd rfl h.nonempty
      | cons _ _ => rfl
    have h2 : startsWithHyphen s = false := by
      cases hs : startsWithHyphen s with
      | false => rfl
      | true => exact absurd (h.first _ ((startsWithHyphen_iff s).1 hs)) not_lowerAlnum_hyphen
    have h3 : endsWithHyphen s = false := by
      cases hs : endsWithHyphen s with
      | false => rfl
      | true => exact absurd (h.final _ ((endsWithHyphen_iff s).1 hs)) not_lowerAlnum_hyphen
    have h4 : containsDoubleHyphen s = false := by
      cases hs : containsDoubleHyphen s with
      | false => rfl
      | true =>
        obtain ⟨pre, post, e⟩ := (containsDoubleHyphen_iff s).1 hs
        exact absurd (h.single pre _ _ post e) (by simp [not_lowerAlnum_hyphen])
    simp only [h1, h2, h3, h4, Bool.or_self, Bool.false_eq_true, if_false]
    exact List.all_eq_true.2 fun c hc => (userChar_iff c).2 (h.chars c hc)

end HailVerif.Names

import HailVerif.Model.FairShare
import Mathlib.Tactic.Linarith
import Mathlib.Tactic.Ring
/-! Helper lemmas for C11: the loop invariant of `FairShare.loop` and what it gives at loop exit. -/
namespace HailVerif.FairShare

/-! ### arithmetic of the two rounding sites -/

theorem roundHalf_of_nonneg {x : Int} (h : 0 ≤ x) : roundHalf x = x := by
  unfold roundHalf
  rw [Int.tdiv_eq_ediv_of_nonneg (by omega)]
  omega

/-- `q = roundDiv a n` is the nearest integer to `a / n` (ties up): `2nq ≤ 2a + n < 2nq + 2n` -/
theorem roundDiv_bounds {a : Int} {n : Nat} (ha : 0 ≤ a) (hn : 0 < n) :
    2 * (n : Int) * roundDiv a n ≤ 2 * a + n ∧ 2 * a + n < 2 * (n : Int) * roundDiv a n + 2 * n := by
  unfold roundDiv
  rw [Int.tdiv_eq_ediv_of_nonneg (by omega)]
  have hpos : (0 : Int) < 2 * (n : Int) := by omega
  have h1 := Int.mul_ediv_add_emod (2 * a + n) (2 * (n : Int))
  have h2 := Int.emod_nonneg (2 * a + n) (Int.ne_of_gt hpos)
  have h3 := Int.emod_lt_of_pos (2 * a + n) hpos
  constructor <;> omega

theorem roundDiv_nonneg {a : Int} {n : Nat} (ha : 0 ≤ a) (hn : 0 < n) : 0 ≤ roundDiv a n := by
  unfold roundDiv
  rw [Int.tdiv_eq_ediv_of_nonneg (by omega)]
  exact Int.ediv_nonneg (by omega) (by omega)

/-! ### sorted insertion -/

theorem mem_insertBy {key : User → Nat} {u x : User} {l : List User} :
    x ∈ insertBy key u l ↔ x = u ∨ x ∈ l := by
  induction l with
  | nil => simp [insertBy]
  | cons v vs ih =>
    unfold insertBy
    split
    · simp
    · simp [ih]; tauto

theorem perm_insertBy (key : User → Nat) (u : User) (l : List User) :
    (insertBy key u l).Perm (u :: l) := by
  induction l with
  | nil => simp [insertBy]
  | cons v vs ih =>
    unfold insertBy
    split
    · exact List.Perm.refl _
    · exact (List.Perm.cons v ih).trans (List.Perm.swap u v vs)

theorem length_insertBy (key : User → Nat) (u : User) (l : List User) :
    (insertBy key u l).length = l.length + 1 := by
  simpa using (perm_insertBy key u l).length_eq

theorem sorted_insertBy {key : User → Nat} {u : User} {l : List User}
    (h : l.Pairwise (fun a b => key a ≤ key b)) :
    (insertBy key u l).Pairwise (fun a b => key a ≤ key b) := by
  induction l with
  | nil => simp [insertBy]
  | cons v vs ih =>
    unfold insertBy
    rw [List.pairwise_cons] at h
    split
    next hlt =>
      rw [List.pairwise_cons]
      refine ⟨?_, List.pairwise_cons.mpr h⟩
      intro b hb
      rcases List.mem_cons.mp hb with rfl | hb
      · omega
      · have := h.1 b hb; omega
    next hge =>
      rw [List.pairwise_cons]
      refine ⟨?_, ih h.2⟩
      intro b hb
      rcases mem_insertBy.mp hb with rfl | hb
      · omega
      · exact h.1 b hb

theorem sum_map_perm {l₁ l₂ : List User} (f : User → Int) (h : l₁.Perm l₂) :
    (l₁.map f).sum = (l₂.map f).sum := by
  induction h with
  | nil => rfl
  | cons x _ ih => simp [ih]
  | swap x y l => simp; omega
  | trans _ _ ih₁ ih₂ => exact ih₁.trans ih₂

theorem sum_map_insertBy (key : User → Nat) (f : User → Int) (u : User) (l : List User) :
    ((insertBy key u l).map f).sum = f u + (l.map f).sum := by
  simpa using sum_map_perm f (perm_insertBy key u l)

/-! ### list sums -/

/-- raising the level by `d` for every element changes the sum by `length * d` -/
theorem sum_map_shift (l : List User) (g : User → Int) (c d : Int) :
    (l.map fun u => c + d - g u).sum = (l.map fun u => c - g u).sum + l.length * d := by
  induction l with
  | nil => simp
  | cons x xs ih => simp only [List.map_cons, List.sum_cons, List.length_cons, ih]; push_cast; ring

theorem sum_map_shift' (l : List User) (g : User → Int) (c d : Int) :
    (l.map fun u => g u - (c + d)).sum = (l.map fun u => g u - c).sum - l.length * d := by
  induction l with
  | nil => simp
  | cons x xs ih => simp only [List.map_cons, List.sum_cons, List.length_cons, ih]; push_cast; ring

theorem sum_map_nonneg (l : List User) (g : User → Int) (h : ∀ u ∈ l, 0 ≤ g u) : 0 ≤ (l.map g).sum := by
  induction l with
  | nil => simp
  | cons x xs ih =>
    simp only [List.map_cons, List.sum_cons]
    have := h x (by simp)
    have := ih (fun u hu => h u (by simp [hu]))
    omega

/-- if every element is at least `b` then the sum is at least `length * b` -/
theorem sum_map_ge (l : List User) (g : User → Int) (b : Int) (h : ∀ u ∈ l, b ≤ g u) :
    l.length * b ≤ (l.map g).sum := by
  induction l with
  | nil => simp
  | cons x xs ih =>
    simp only [List.map_cons, List.sum_cons, List.length_cons]
    have := h x (by simp)
    have := ih (fun u hu => h u (by simp [hu]))
    push_cast
    linarith

theorem sum_map_eq_zero (l : List User) (g : User → Int) (h : ∀ u ∈ l, 0 ≤ g u)
    (hs : (l.map g).sum ≤ 0) : ∀ u ∈ l, g u = 0 := by
  induction l with
  | nil => simp
  | cons x xs ih =>
    simp only [List.map_cons, List.sum_cons] at hs
    have hx := h x (by simp)
    have hxs := sum_map_nonneg xs g (fun u hu => h u (by simp [hu]))
    intro u hu
    rcases List.mem_cons.mp hu with rfl | hu
    · omega
    · exact ih (fun u hu => h u (by simp [hu])) (by omega) u hu

/-! ### the quantities of the invariant -/

def allocSum (res : List (User × Int)) : Int := (res.map Prod.snd).sum
def readySum (us : List User) : Int := (us.map fun u => (u.ready : Int)).sum

/-- cores handed out so far: finished users + what the allocating users hold at the current mark -/
def committed (s : State) : Int :=
  allocSum s.done + (s.allocating.map fun u => s.mark - (u.running : Int)).sum

/-- demand not yet met at the current mark -/
def remaining (s : State) : Int :=
  readySum s.pending + (s.allocating.map fun u => (u.total : Int) - s.mark).sum

/-- the users of a state, wherever they currently are -/
def State.users (s : State) : List User := s.done.map Prod.fst ++ s.allocating ++ s.pending

theorem total_cast (u : User) : (u.total : Int) = (u.running : Int) + (u.ready : Int) := by
  simp [User.total]

/-- what holds at every loop head and after the loop (`F` = initial free cores, `RD` = total ready demand) -/
structure Frame (us : List User) (RD : Int) (s : State) : Prop where
  pend_ge : ∀ u ∈ s.pending, s.mark ≤ (u.running : Int)
  alloc_rng : ∀ u ∈ s.allocating, (u.running : Int) ≤ s.mark ∧ s.mark ≤ (u.total : Int)
  done_full : ∀ p ∈ s.done, p.2 = (p.1.ready : Int) ∧ (p.1.total : Int) ≤ s.mark
  demand : committed s + remaining s = RD
  perm : s.users.Perm us

structure Inv (us : List User) (F RD : Int) (s : State) : Prop extends Frame us RD s where
  pend_sorted : s.pending.Pairwise (fun a b => a.running ≤ b.running)
  alloc_sorted : s.allocating.Pairwise (fun a b => a.total ≤ b.total)
  free_nonneg : 0 ≤ s.free
  budget : committed s + s.free = F

/-- what the loop guarantees at exit when it was entered with `F > 0` -/
structure Post (us : List User) (F RD : Int) (s : State) : Prop extends Frame us RD s where
  sum_hi : 2 * committed s ≤ 2 * F + s.allocating.length
  sum_lo : F ≤ RD → 2 * F < 2 * committed s + s.allocating.length + 1
  served : RD ≤ F → remaining s = 0

/-! ### termination measure -/

def atBreakpoint (s : State) : Bool :=
  (match s.pending with | p :: _ => decide ((p.running : Int) = s.mark) | [] => false) ||
  (match s.allocating with | a :: _ => decide ((a.total : Int) = s.mark) | [] => false)

def measure (s : State) : Nat :=
  2 * (2 * s.pending.length + s.allocating.length) + (if atBreakpoint s then 0 else 1)


/-! ### one pass through the loop body preserves the invariant -/

variable {us : List User} {F RD : Int}

theorem inv_move {p : User} {ps A : List User} {D : List (User × Int)} {m f : Int}
    (hI : Inv us F RD ⟨p :: ps, A, D, m, f⟩) (hp : (p.running : Int) = m) :
    Inv us F RD ⟨ps, insertBy User.total p A, D, m, f⟩ := by
  obtain ⟨⟨hpg, har, hdf, hdem, hperm⟩, hps, has, hfn, hbud⟩ := hI
  have htc := total_cast p
  dsimp only at hpg har hdf hps has hfn hbud
  refine ⟨⟨?_, ?_, hdf, ?_, ?_⟩, ?_, ?_, hfn, ?_⟩
  all_goals try dsimp only
  · intro u hu; exact hpg u (by simp [hu])
  · intro u hu
    rcases mem_insertBy.mp hu with rfl | hu
    · constructor <;> omega
    · exact har u hu
  · simp only [committed, remaining, readySum, sum_map_insertBy, List.map_cons, List.sum_cons] at hdem ⊢
    omega
  · simp only [State.users] at hperm ⊢
    refine List.Perm.trans ?_ hperm
    have h1 : (List.map Prod.fst D ++ insertBy User.total p A ++ ps).Perm
        (List.map Prod.fst D ++ (p :: A) ++ ps) :=
      ((perm_insertBy User.total p A).append_left _).append_right _
    refine h1.trans ?_
    have h2 : (List.map Prod.fst D ++ (p :: A) ++ ps).Perm (p :: (List.map Prod.fst D ++ A ++ ps)) := by
      simp
    have h3 : (List.map Prod.fst D ++ A ++ p :: ps).Perm (p :: (List.map Prod.fst D ++ A ++ ps)) :=
      List.perm_middle
    exact h2.trans h3.symm
  · exact (List.pairwise_cons.mp hps).2
  · exact sorted_insertBy has
  · simp only [committed, sum_map_insertBy] at hbud ⊢
    omega

theorem inv_finish {a : User} {P rest : List User} {D : List (User × Int)} {m f : Int}
    (hI : Inv us F RD ⟨P, a :: rest, D, m, f⟩) (ha : (a.total : Int) = m) :
    Inv us F RD ⟨P, rest, D ++ [(a, roundHalf (m - a.running))], m, f⟩ := by
  obtain ⟨⟨hpg, har, hdf, hdem, hperm⟩, hps, has, hfn, hbud⟩ := hI
  have htc := total_cast a
  dsimp only at hpg har hdf hps has hfn hbud
  have hra := (har a (by simp)).1
  have hrh : roundHalf (m - a.running) = m - a.running := roundHalf_of_nonneg (by omega)
  refine ⟨⟨hpg, ?_, ?_, ?_, ?_⟩, hps, ?_, hfn, ?_⟩
  all_goals try dsimp only
  · intro u hu; exact har u (by simp [hu])
  · intro q hq
    rcases List.mem_append.mp hq with hq | hq
    · exact hdf q hq
    · simp at hq; subst hq; simp only [hrh]; constructor <;> omega
  · simp only [committed, remaining, allocSum, List.map_append, List.sum_append, List.map_cons, List.sum_cons,
      List.map_nil, List.sum_nil, hrh] at hdem ⊢
    omega
  · simp only [State.users] at hperm ⊢
    simpa using hperm
  · exact (List.pairwise_cons.mp has).2
  · simp only [committed, allocSum, List.map_append, List.sum_append, List.map_cons, List.sum_cons,
      List.map_nil, List.sum_nil, hrh] at hbud ⊢
    omega

/-- the precondition of `advance`: `al` is the next breakpoint above the mark -/
structure NextBp (s : State) (al : Int) : Prop where
  ge_mark : s.mark ≤ al
  le_pending : ∀ u ∈ s.pending, al ≤ (u.running : Int)
  le_allocating : ∀ u ∈ s.allocating, al ≤ (u.total : Int)

theorem inv_advance_next {s : State} {al : Int} (hI : Inv us F RD s) (hb : NextBp s al)
    (hle : ¬ ((s.allocating.length : Int) * (al - s.mark) > s.free)) :
    Inv us F RD { s with mark := al, free := s.free - (s.allocating.length : Int) * (al - s.mark) } := by
  obtain ⟨P, A, D, m, f⟩ := s
  obtain ⟨⟨hpg, har, hdf, hdem, hperm⟩, hps, has, hfn, hbud⟩ := hI
  obtain ⟨hge, hlp, hla⟩ := hb
  dsimp only at *
  have e1 := sum_map_shift A (fun u => (u.running : Int)) m (al - m)
  have e2 := sum_map_shift' A (fun u => (u.total : Int)) m (al - m)
  have e3 : m + (al - m) = al := by ring
  rw [e3] at e1 e2
  refine ⟨⟨hlp, ?_, ?_, ?_, hperm⟩, hps, has, ?_, ?_⟩
  all_goals try dsimp only
  · intro u hu; have := har u hu; have := hla u hu; constructor <;> omega
  · intro q hq; have := hdf q hq; constructor <;> omega
  · simp only [committed, remaining] at hdem ⊢
    rw [e1, e2]; omega
  · omega
  · simp only [committed] at hbud ⊢
    rw [e1]; omega

theorem post_advance_stop {s : State} {al : Int} (hI : Inv us F RD s) (hb : NextBp s al) (hf : 0 < s.free)
    (hgt : (s.allocating.length : Int) * (al - s.mark) > s.free) :
    Post us F RD { s with mark := s.mark + roundDiv s.free s.allocating.length, free := 0 } := by
  obtain ⟨P, A, D, m, f⟩ := s
  obtain ⟨⟨hpg, har, hdf, hdem, hperm⟩, hps, has, hfn, hbud⟩ := hI
  obtain ⟨hge, hlp, hla⟩ := hb
  dsimp only at *
  have hn : 0 < A.length := by
    rcases Nat.eq_zero_or_pos A.length with h0 | h0
    · rw [h0] at hgt; simp at hgt; omega
    · exact h0
  obtain ⟨hq1, hq2⟩ := roundDiv_bounds (a := f) (n := A.length) (by omega) hn
  have hq0 := roundDiv_nonneg (a := f) (n := A.length) (by omega) hn
  generalize roundDiv f A.length = q at *
  have hnI : (0 : Int) < (A.length : Int) := by exact_mod_cast hn
  -- q ≤ al - m
  have hqle : q ≤ al - m := by
    by_contra hcon
    have h1 : al - m + 1 ≤ q := by omega
    have h2 : (A.length : Int) * (al - m + 1) ≤ (A.length : Int) * q :=
      Int.mul_le_mul_of_nonneg_left h1 (by omega)
    nlinarith
  have e1 := sum_map_shift A (fun u => (u.running : Int)) m q
  have e2 := sum_map_shift' A (fun u => (u.total : Int)) m q
  have hlow := sum_map_ge A (fun u => (u.total : Int) - m) (al - m) (fun u hu => by have := hla u hu; omega)
  have hrs : 0 ≤ readySum P := sum_map_nonneg P _ (fun u _ => by omega)
  refine ⟨⟨?_, ?_, ?_, ?_, hperm⟩, ?_, ?_, ?_⟩
  all_goals try dsimp only
  · intro u hu; have := hlp u hu; omega
  · intro u hu; have := har u hu; have := hla u hu; constructor <;> omega
  · intro p hp; have := hdf p hp; constructor <;> omega
  · simp only [committed, remaining] at hdem ⊢
    rw [e1, e2]; omega
  · simp only [committed] at hbud ⊢
    rw [e1]; nlinarith
  · intro _
    simp only [committed] at hbud ⊢
    rw [e1]; nlinarith
  · intro hserved
    exfalso
    simp only [committed, remaining] at hdem hbud
    nlinarith


/-! ### case analysis of the loop body -/

theorem sorted_head_le {key : User → Nat} {x : User} {l : List User}
    (h : (x :: l).Pairwise (fun a b => key a ≤ key b)) : ∀ u ∈ x :: l, key x ≤ key u := by
  intro u hu
  rcases List.mem_cons.mp hu with rfl | hu
  · exact Nat.le_refl _
  · exact (List.pairwise_cons.mp h).1 u hu

theorem ite01_le (c : Bool) : (if c then 0 else 1 : Nat) ≤ 1 := by cases c <;> simp

theorem advance_spec {s : State} {al : Int} (hI : Inv us F RD s) (hb : NextBp s al) (hf : 0 < s.free)
    (hnb : atBreakpoint s = false) (hat : ∀ f', atBreakpoint { s with mark := al, free := f' } = true) :
    (∃ s', advance s al = .next s' ∧ Inv us F RD s' ∧ measure s' < measure s) ∨
    (∃ s', advance s al = .stop s' ∧ Post us F RD s') := by
  unfold advance
  dsimp only
  split
  next hgt => exact Or.inr ⟨_, rfl, post_advance_stop hI hb hf hgt⟩
  next hle =>
    refine Or.inl ⟨_, rfl, inv_advance_next hI hb hle, ?_⟩
    simp only [measure, hnb, hat]
    simp

theorem body_spec {s : State} (hI : Inv us F RD s) (hc : cond s = true) :
    (∃ s', body s = .next s' ∧ Inv us F RD s' ∧ measure s' < measure s) ∨
    (∃ s', body s = .stop s' ∧ Post us F RD s') := by
  obtain ⟨P, A, D, m, f⟩ := s
  have hf : 0 < f := by
    simp only [cond, Bool.and_eq_true, decide_eq_true_eq] at hc; exact hc.1
  have hps := hI.pend_sorted
  have has := hI.alloc_sorted
  have hpg := hI.pend_ge
  have har := hI.alloc_rng
  dsimp only at hps has hpg har
  cases P with
  | nil =>
    cases A with
    | nil => simp [cond] at hc
    | cons a rest =>
      simp only [body]
      split
      next hat =>
        refine Or.inl ⟨_, rfl, inv_finish hI hat, ?_⟩
        have := ite01_le (atBreakpoint ⟨[], rest, D ++ [(a, roundHalf (m - a.running))], m, f⟩)
        simp only [measure, List.length_cons, List.length_nil] at this ⊢
        omega
      next hne =>
        refine advance_spec hI ⟨(har a (by simp)).2, by simp, ?_⟩ hf ?_ ?_
        · intro u hu; have := sorted_head_le has u hu; omega
        · simp [atBreakpoint, hne]
        · intro f'; simp [atBreakpoint]
  | cons p ps =>
    simp only [body]
    split
    next hpm =>
      refine Or.inl ⟨_, rfl, inv_move hI hpm, ?_⟩
      have := ite01_le (atBreakpoint ⟨ps, insertBy User.total p A, D, m, f⟩)
      simp only [measure, List.length_cons, length_insertBy] at this ⊢
      omega
    next hpne =>
      have hpmin := sorted_head_le hps
      cases A with
      | nil =>
        dsimp only
        refine advance_spec hI ⟨hpg p (by simp), ?_, by simp⟩ hf ?_ ?_
        · intro u hu; have := hpmin u hu; omega
        · simp [atBreakpoint, hpne]
        · intro f'; simp [atBreakpoint]
      | cons a rest =>
        dsimp only
        split
        next hat =>
          refine Or.inl ⟨_, rfl, inv_finish hI hat, ?_⟩
          have := ite01_le (atBreakpoint ⟨p :: ps, rest, D ++ [(a, roundHalf (m - a.running))], m, f⟩)
          simp only [measure, List.length_cons] at this ⊢
          omega
        next hane =>
          have hamin := sorted_head_le has
          have h1 := hpg p (by simp)
          have h2 := (har a (by simp)).2
          have hmin1 : min (p.running : Int) (a.total : Int) ≤ p.running := Int.min_le_left _ _
          have hmin2 : min (p.running : Int) (a.total : Int) ≤ a.total := Int.min_le_right _ _
          have hmin3 : min (p.running : Int) (a.total : Int) = p.running ∨
              min (p.running : Int) (a.total : Int) = a.total := by
            rcases Int.le_total (p.running : Int) (a.total : Int) with h | h
            · left; exact Int.min_eq_left h
            · right; exact Int.min_eq_right h
          have hmin4 : m ≤ min (p.running : Int) (a.total : Int) := Int.le_min.mpr ⟨h1, h2⟩
          generalize min (p.running : Int) (a.total : Int) = al at *
          refine advance_spec hI ⟨hmin4, ?_, ?_⟩ hf ?_ ?_
          · intro u hu; have := hpmin u hu; omega
          · intro u hu; have := hamin u hu; omega
          · simp [atBreakpoint, hpne, hane]
          · intro f'
            simp only [atBreakpoint, Bool.or_eq_true, decide_eq_true_eq]
            omega

/-! ### loop exit without `break` -/

theorem remaining_nonneg {s : State} (h : Frame us RD s) : 0 ≤ readySum s.pending ∧
    0 ≤ (s.allocating.map fun u => (u.total : Int) - s.mark).sum := by
  constructor
  · exact sum_map_nonneg _ _ (fun u _ => by omega)
  · exact sum_map_nonneg _ _ (fun u hu => by have := (h.alloc_rng u hu).2; omega)

theorem exit_post {s : State} (hI : Inv us F RD s) (hc : cond s = false) : Post us F RD s := by
  obtain ⟨hr1, hr2⟩ := remaining_nonneg hI.toFrame
  have hbud := hI.budget
  have hdem := hI.demand
  have hfn := hI.free_nonneg
  have hcase : s.free = 0 ∨ (s.pending = [] ∧ s.allocating = []) := by
    simp only [cond, Bool.and_eq_false_iff, decide_eq_false_iff_not, Bool.or_eq_false_iff,
      Bool.not_eq_false', List.isEmpty_iff] at hc
    rcases hc with h | h
    · left; omega
    · right; exact h
  have hrem : remaining s = readySum s.pending + (s.allocating.map fun u => (u.total : Int) - s.mark).sum := rfl
  refine ⟨hI.toFrame, ?_, ?_, ?_⟩
  · have : (0 : Int) ≤ (s.allocating.length : Int) := by omega
    omega
  · intro hle
    rcases hcase with h0 | ⟨hP, hA⟩
    · have : (0 : Int) ≤ (s.allocating.length : Int) := by omega
      omega
    · have : remaining s = 0 := by rw [hrem, hP, hA]; simp [readySum]
      have : (0 : Int) ≤ (s.allocating.length : Int) := by omega
      omega
  · intro hle
    rcases hcase with h0 | ⟨hP, hA⟩
    · omega
    · rw [hrem, hP, hA]; simp [readySum]

theorem loop_spec (_hF : 0 < F) : ∀ (fuel : Nat) (s : State), measure s < fuel → Inv us F RD s →
    ∃ s', loop fuel s = some s' ∧ Post us F RD s' := by
  intro fuel
  induction fuel with
  | zero => intro s h; omega
  | succ k ih =>
    intro s hm hI
    unfold loop
    by_cases hc : cond s = true
    · rw [if_pos hc]
      rcases body_spec hI hc with ⟨s', hb, hI', hlt⟩ | ⟨s', hb, hP⟩
      · rw [hb]; exact ih s' (by omega) hI'
      · rw [hb]; exact ⟨s', rfl, hP⟩
    · rw [if_neg hc]
      exact ⟨s, rfl, exit_post hI (by simpa using hc)⟩

/-! ### the initial state -/

theorem initPending_aux (us acc : List User) (h : acc.Pairwise (fun a b => a.running ≤ b.running)) :
    (us.foldl (fun acc u => insertBy User.running u acc) acc).Pairwise (fun a b => a.running ≤ b.running) ∧
    (us.foldl (fun acc u => insertBy User.running u acc) acc).Perm (acc ++ us) := by
  induction us generalizing acc with
  | nil => simp [h]
  | cons x xs ih =>
    simp only [List.foldl_cons]
    obtain ⟨h1, h2⟩ := ih (insertBy User.running x acc) (sorted_insertBy h)
    refine ⟨h1, h2.trans ?_⟩
    have : (insertBy User.running x acc ++ xs).Perm ((x :: acc) ++ xs) :=
      (perm_insertBy User.running x acc).append_right xs
    exact this.trans (List.perm_middle.symm)

theorem initPending_sorted (us : List User) :
    (initPending us).Pairwise (fun a b => a.running ≤ b.running) := (initPending_aux us [] List.Pairwise.nil).1

theorem initPending_perm (us : List User) : (initPending us).Perm us := by
  simpa [initPending] using (initPending_aux us [] List.Pairwise.nil).2

theorem init_frame (us : List User) (free : Int) : Frame us (readySum us) (initState us free) := by
  refine ⟨?_, ?_, ?_, ?_, ?_⟩
  · intro u _; simp [initState]
  · intro u hu; simp [initState] at hu
  · intro p hp; simp [initState] at hp
  · simp only [committed, remaining, initState, allocSum, List.map_nil, List.sum_nil]
    have := sum_map_perm (fun u => (u.ready : Int)) (initPending_perm us)
    simp only [readySum]; omega
  · simpa [State.users, initState] using initPending_perm us

theorem init_inv (us : List User) {free : Int} (h : 0 ≤ free) : Inv us free (readySum us) (initState us free) :=
  ⟨init_frame us free, initPending_sorted us, List.Pairwise.nil, h, by simp [committed, initState, allocSum]⟩

theorem init_measure (us : List User) (free : Int) : measure (initState us free) < fuelFor us := by
  have := ite01_le (atBreakpoint (initState us free))
  have hl := (initPending_perm us).length_eq
  simp only [measure, fuelFor, initState, List.length_nil] at this ⊢
  omega

/-! ### from the final state to the result list -/

/-- water-filling at level `L`: `clamp (L - running) 0 ready` -/
def level (L : Int) (u : User) : Int := min (u.ready : Int) (max 0 (L - u.running))

theorem sum_roundHalf {A : List User} {m : Int} (h : ∀ u ∈ A, (u.running : Int) ≤ m) :
    (A.map fun u => roundHalf (m - (u.running : Int))).sum = (A.map fun u => m - (u.running : Int)).sum := by
  congr 1
  apply List.map_congr_left
  intro u hu
  exact roundHalf_of_nonneg (by have := h u hu; omega)

theorem sum_map_zero (l : List User) : (l.map fun _ => (0 : Int)).sum = 0 := by
  induction l with
  | nil => rfl
  | cons _ _ ih => simp [ih]

theorem result_users (s : State) : s.result.map Prod.fst = s.users := by
  simp [State.result, State.users, List.map_append, Function.comp_def]

theorem result_sum {s : State} (h : Frame us RD s) : allocSum s.result = committed s := by
  have := sum_roundHalf (A := s.allocating) (m := s.mark) (fun u hu => (h.alloc_rng u hu).1)
  simp only [allocSum, State.result, committed, List.map_append, List.sum_append, List.map_map,
    Function.comp_def] at this ⊢
  rw [this, sum_map_zero]
  simp

theorem result_level {s : State} (h : Frame us RD s) : ∀ p ∈ s.result, p.2 = level s.mark p.1 := by
  intro p hp
  simp only [State.result, List.mem_append, List.mem_map] at hp
  rcases hp with (hp | ⟨u, hu, rfl⟩) | ⟨u, hu, rfl⟩
  · obtain ⟨h1, h2⟩ := h.done_full p hp
    have := total_cast p.1
    simp only [level]; omega
  · obtain ⟨h1, h2⟩ := h.alloc_rng u hu
    have := total_cast u
    simp only [level, roundHalf_of_nonneg (show 0 ≤ s.mark - (u.running : Int) by omega)]; omega
  · have := h.pend_ge u hu
    simp only [level]; omega

theorem result_served {s : State} (h : Frame us RD s) (hr : remaining s = 0) :
    ∀ p ∈ s.result, p.2 = (p.1.ready : Int) := by
  obtain ⟨hr1, hr2⟩ := remaining_nonneg h
  have hrem : remaining s = readySum s.pending + (s.allocating.map fun u => (u.total : Int) - s.mark).sum := rfl
  have hP := sum_map_eq_zero s.pending (fun u => (u.ready : Int)) (fun u _ => by omega)
    (by simp only [readySum] at hr1 hrem; omega)
  have hA := sum_map_eq_zero s.allocating (fun u => (u.total : Int) - s.mark)
    (fun u hu => by have := (h.alloc_rng u hu).2; omega) (by omega)
  intro p hp
  simp only [State.result, List.mem_append, List.mem_map] at hp
  rcases hp with (hp | ⟨u, hu, rfl⟩) | ⟨u, hu, rfl⟩
  · exact (h.done_full p hp).1
  · obtain ⟨h1, h2⟩ := h.alloc_rng u hu
    have := total_cast u
    have := hA u hu
    simp only [roundHalf_of_nonneg (show 0 ≤ s.mark - (u.running : Int) by omega)]; omega
  · have := hP u hu
    simp only at this ⊢; omega

theorem allocating_le_users {s : State} (h : Frame us RD s) : s.allocating.length ≤ us.length := by
  have := h.perm.length_eq
  simp only [State.users, List.length_append, List.length_map] at this
  omega

/-- everything the property theorems need, in one place -/
theorem fairShareState_spec (us : List User) (free : Int) :
    ∃ s, fairShareState us free = some s ∧ Frame us (readySum us) s ∧
      (free ≤ 0 → s = initState us free) ∧ (0 < free → Post us free (readySum us) s) := by
  unfold fairShareState
  by_cases hf : 0 < free
  · obtain ⟨s', h1, h2⟩ := loop_spec hf (fuelFor us) (initState us free) (init_measure us free) (init_inv us (by omega))
    exact ⟨s', h1, h2.toFrame, by omega, fun _ => h2⟩
  · refine ⟨initState us free, ?_, init_frame us free, fun _ => rfl, fun h => absurd h hf⟩
    have : cond (initState us free) = false := by
      unfold cond; rw [show (initState us free).free = free from rfl, decide_eq_false hf]; rfl
    simp [fuelFor, loop, this]

end HailVerif.FairShare

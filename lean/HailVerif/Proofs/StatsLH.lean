import Mathlib.Tactic.Ring
import Mathlib.Tactic.Linarith
import Mathlib.Tactic.FieldSimp
import Mathlib.Tactic.NormNum
import Mathlib.Tactic.Positivity
import Mathlib.Data.Rat.Floor
import Mathlib.Data.Nat.Factorial.Basic
import Mathlib.Algebra.BigOperators.Group.List.Basic
import Mathlib.Algebra.BigOperators.Intervals
import Mathlib.Algebra.BigOperators.Ring.Finset
import Mathlib.Algebra.Polynomial.Coeff
import Mathlib.Data.Nat.Choose.Sum
import Mathlib.Data.Nat.Choose.Cast
import HailVerif.Model.StatsSpec
import HailVerif.Generated.ScalaStats
/-!
# Helper lemmas for C37 — Levene–Haldane part

The generated exact model (`Generated.ScalaStats.Exact`, τ = 0) against the closed forms of `Model/StatsSpec.lean`.
-/
open HailVerif.StatsLib HailVerif.StatsSpec HailVerif.Generated.ScalaStats
open Finset

namespace HailVerif.StatsProofs

/-! ## generalities -/

theorem sumL_eq_sum (l : List ℚ) : sumL l = l.sum := by
  unfold sumL
  exact (List.sum_eq_foldl).symm

theorem fact_eq (n : ℕ) : fact n = n.factorial := by
  induction n with
  | zero => rfl
  | succ n ih => simp [fact, Nat.factorial_succ, ih]

/-- the fuel-bounded unfolding of a `LazyList` recurrence is the list of the first `F` terms of any sequence that satisfies
the recurrence -/
theorem unfold_eq_map {α : Type} (step : Int → α → Int × α) (ix : ℕ → Int) (g : ℕ → α)
    (h : ∀ j, step (ix j) (g j) = (ix (j + 1), g (j + 1))) (F : ℕ) :
    unfold step F (ix 0) (g 0) = (List.range F).map g := by
  induction F generalizing ix g with
  | zero => rfl
  | succ F ih =>
    rw [List.range_succ_eq_map, List.map_cons, List.map_map]
    unfold unfold
    rw [h 0]
    congr 1
    exact ih (fun j => ix (j + 1)) (fun j => g (j + 1)) (fun j => h (j + 1))

/-! ## the closed-form weight and its two recurrences -/

/-- `2^k / (a! k! b!)` -/
def wN (a k b : ℕ) : ℚ := (2 : ℚ) ^ k / ((a.factorial : ℚ) * (k.factorial : ℚ) * (b.factorial : ℚ))

theorem wN_pos (a k b : ℕ) : 0 < wN a k b := by unfold wN; positivity

theorem wN_step (a k b : ℕ) :
    wN a (k + 2) b * (((k : ℚ) + 2) * ((k : ℚ) + 1)) = wN (a + 1) k (b + 1) * ((2 * ((a : ℚ) + 1)) * (2 * ((b : ℚ) + 1))) := by
  unfold wN
  have h1 : ((k + 2).factorial : ℚ) = ((k : ℚ) + 2) * (((k : ℚ) + 1) * (k.factorial : ℚ)) := by
    rw [Nat.factorial_succ, Nat.factorial_succ]; push_cast; ring
  have h2 : ((a + 1).factorial : ℚ) = ((a : ℚ) + 1) * (a.factorial : ℚ) := by rw [Nat.factorial_succ]; push_cast; ring
  have h3 : ((b + 1).factorial : ℚ) = ((b : ℚ) + 1) * (b.factorial : ℚ) := by rw [Nat.factorial_succ]; push_cast; ring
  rw [h1, h2, h3]
  have ha : (a.factorial : ℚ) ≠ 0 := by positivity
  have hb : (b.factorial : ℚ) ≠ 0 := by positivity
  have hk : (k.factorial : ℚ) ≠ 0 := by positivity
  have hk1 : ((k : ℚ) + 1) ≠ 0 := by positivity
  have hk2 : ((k : ℚ) + 2) ≠ 0 := by positivity
  have ha1 : ((a : ℚ) + 1) ≠ 0 := by positivity
  have hb1 : ((b : ℚ) + 1) ≠ 0 := by positivity
  field_simp
  ring

theorem lhWeight_on (nA nB k : ℕ) (h : k ≤ nA) (hp : k % 2 = nA % 2) :
    lhWeight nA nB (k : ℤ) = wN ((nA - k) / 2) k ((nB - k) / 2) := by
  have : lhSupp nA (k : ℤ) := by unfold lhSupp; omega
  unfold lhWeight wN
  rw [if_pos this]
  simp [fact_eq]

theorem lhWeight_off (nA nB : ℕ) (k : ℤ) (h : ¬ lhSupp nA k) : lhWeight nA nB k = 0 := by
  unfold lhWeight; rw [if_neg h]

theorem lhWeight_nonneg (nA nB : ℕ) (k : ℤ) : 0 ≤ lhWeight nA nB k := by
  unfold lhWeight
  split
  · simp only [fact_eq]; positivity
  · exact le_refl _

theorem lhWeight_pos (nA nB : ℕ) (k : ℤ) (h : lhSupp nA k) : 0 < lhWeight nA nB k := by
  unfold lhWeight
  rw [if_pos h]
  simp only [fact_eq]; positivity

/-- going right: `W(k+2) = W(k) (nA-k)(nB-k) / ((k+2)(k+1))` for every lattice point `k ≥ 0` (also beyond the support, where both
sides vanish) -/
theorem lhWeight_up (nA nB : ℕ) (hAB : nA ≤ nB) (hpar : nA % 2 = nB % 2) (k : ℤ) (hk : 0 ≤ k) (hp : k % 2 = (nA : ℤ) % 2) :
    lhWeight nA nB (k + 2) = lhWeight nA nB k * (((nA : ℤ) - k : ℤ) : ℚ) * (((nB : ℤ) - k : ℤ) : ℚ) / ((((k : ℤ) : ℚ) + 2) * (((k + 1 : ℤ)) : ℚ)) := by
  obtain ⟨kn, rfl⟩ := Int.eq_ofNat_of_zero_le hk
  have hd : ((((kn : ℤ) : ℚ) + 2) * (((kn : ℤ) + 1 : ℤ) : ℚ)) ≠ 0 := by push_cast; positivity
  rw [eq_div_iff hd]
  by_cases h2 : kn + 2 ≤ nA
  · obtain ⟨a, ha⟩ : ∃ a, nA = kn + 2 * (a + 1) := ⟨(nA - kn) / 2 - 1, by omega⟩
    obtain ⟨b, hb⟩ : ∃ b, nB = kn + 2 * (b + 1) := ⟨(nB - kn) / 2 - 1, by omega⟩
    have e1 : ((kn : ℤ) + 2) = ((kn + 2 : ℕ) : ℤ) := by push_cast; ring
    rw [e1, lhWeight_on nA nB (kn + 2) h2 (by omega), lhWeight_on nA nB kn (by omega) (by omega)]
    have ea : (nA - (kn + 2)) / 2 = a := by omega
    have eb : (nB - (kn + 2)) / 2 = b := by omega
    have ea' : (nA - kn) / 2 = a + 1 := by omega
    have eb' : (nB - kn) / 2 = b + 1 := by omega
    rw [ea, eb, ea', eb']
    have := wN_step a kn b
    have c1 : ((((nA : ℤ) - (kn : ℤ) : ℤ)) : ℚ) = 2 * ((a : ℚ) + 1) := by rw [ha]; push_cast; ring
    have c2 : ((((nB : ℤ) - (kn : ℤ) : ℤ)) : ℚ) = 2 * ((b : ℚ) + 1) := by rw [hb]; push_cast; ring
    rw [c1, c2]
    push_cast
    linarith
  · -- k + 2 is beyond the support
    have hoff : ¬ lhSupp nA ((kn : ℤ) + 2) := by unfold lhSupp; omega
    rw [lhWeight_off _ _ _ hoff, zero_mul]
    by_cases h3 : (kn : ℤ) ≤ nA
    · have : (kn : ℤ) = nA := by omega
      rw [this]; simp
    · have hoff' : ¬ lhSupp nA (kn : ℤ) := by unfold lhSupp; omega
      rw [lhWeight_off _ _ _ hoff']; simp

theorem lhWeight_down (nA nB : ℕ) (hAB : nA ≤ nB) (hpar : nA % 2 = nB % 2) (k : ℤ) (hk : k ≤ nA) (hp : k % 2 = (nA : ℤ) % 2) :
    lhWeight nA nB (k - 2) = lhWeight nA nB k * ((k : ℤ) : ℚ) * ((k - 1 : ℤ) : ℚ) / ((((((nA : ℤ) - k : ℤ)) : ℚ) + 2) * ((((nB : ℤ) - k) + 2 : ℤ) : ℚ)) := by
  have hd : ((((((nA : ℤ) - k : ℤ)) : ℚ) + 2) * ((((nB : ℤ) - k) + 2 : ℤ) : ℚ)) ≠ 0 := by
    have h1 : (0 : ℚ) < ((((nA : ℤ) - k : ℤ)) : ℚ) + 2 := by
      have : (0 : ℤ) ≤ (nA : ℤ) - k := by omega
      have : (0 : ℚ) ≤ (((nA : ℤ) - k : ℤ) : ℚ) := by exact_mod_cast this
      linarith
    have h2 : (0 : ℚ) < ((((nB : ℤ) - k) + 2 : ℤ) : ℚ) := by
      have : (0 : ℤ) < ((nB : ℤ) - k) + 2 := by omega
      exact_mod_cast this
    positivity
  by_cases h2 : 2 ≤ k
  · have up := lhWeight_up nA nB hAB hpar (k - 2) (by omega) (by omega)
    have e : k - 2 + 2 = k := by ring
    rw [e] at up
    rw [up]
    have hk0 : ((((k - 2 : ℤ) : ℤ) : ℚ) + 2) ≠ 0 := by
      have : (0 : ℤ) < (k - 2) + 2 := by omega
      have : (0 : ℚ) < (((k - 2 : ℤ)) : ℚ) + 2 := by exact_mod_cast this
      exact ne_of_gt this
    have hk1 : ((((k - 2 + 1 : ℤ)) : ℚ)) ≠ 0 := by
      have : (0 : ℤ) < (k - 2 + 1) := by omega
      have : (0 : ℚ) < ((k - 2 + 1 : ℤ) : ℚ) := by exact_mod_cast this
      exact ne_of_gt this
    have h1 : ((((((nA : ℤ) - k : ℤ)) : ℚ) + 2)) ≠ 0 := left_ne_zero_of_mul hd
    have h3 : (((((nB : ℤ) - k) + 2 : ℤ) : ℚ)) ≠ 0 := right_ne_zero_of_mul hd
    push_cast at hk0 hk1 h1 h3 ⊢
    field_simp
    ring
  · have hoff : ¬ lhSupp nA (k - 2) := by unfold lhSupp; omega
    rw [lhWeight_off _ _ _ hoff]
    by_cases h0 : 0 ≤ k
    · have : k = 0 ∨ k = 1 := by omega
      rcases this with rfl | rfl <;> simp
    · have hoff' : ¬ lhSupp nA k := by unfold lhSupp; omega
      rw [lhWeight_off _ _ _ hoff']; simp

/-- the mode formula of `LeveneHaldane.apply`, as generated -/
def refMode (n nA : ℤ) : ℤ :=
  let nB := 2 * n - nA
  let parity := imod nA 2
  let x : ℚ := (((nA : ℚ) + 1) * ((nB + 1 : ℤ) : ℚ)) / ((2 * n + 3 : ℤ) : ℚ)
  2 * roundQ ((x - (parity : ℚ)) / ((2 : ℤ) : ℚ)) + parity

theorem imod_two_nat (a : ℕ) : imod (a : ℤ) 2 = (a : ℤ) % 2 := by
  unfold imod
  exact Int.tmod_eq_emod_of_nonneg (by omega)

theorem idiv_two_nonneg (a : ℤ) (h : 0 ≤ a) : idiv a 2 = a / 2 := by
  unfold idiv
  exact Int.tdiv_eq_ediv_of_nonneg h

/-- `x = (nA+1)(nB+1)/(2n+3)` -/
def modeX (n nA : ℕ) : ℚ := (((nA : ℚ) + 1) * ((2 * (n : ℚ) - nA) + 1)) / (2 * (n : ℚ) + 3)

theorem refMode_bounds (n nA : ℕ) :
    (refMode n nA) % 2 = (nA : ℤ) % 2 ∧ modeX n nA - 1 < (refMode n nA : ℚ) ∧ (refMode n nA : ℚ) ≤ modeX n nA + 1 := by
  unfold refMode
  simp only [imod_two_nat]
  set par : ℤ := (nA : ℤ) % 2 with hpar
  have hx : (((nA : ℤ) : ℚ) + 1) * ((2 * (n : ℤ) - (nA : ℤ) + 1 : ℤ) : ℚ) / ((2 * (n : ℤ) + 3 : ℤ) : ℚ) = modeX n nA := by
    unfold modeX; push_cast; ring
  rw [hx]
  unfold roundQ
  set y : ℚ := (modeX n nA - (par : ℚ)) / ((2 : ℤ) : ℚ) + 1 / 2 with hy
  have hfl : Rat.floor y = ⌊y⌋ := rfl
  rw [hfl]
  have h1 : (⌊y⌋ : ℚ) ≤ y := Int.floor_le y
  have h2 : y < (⌊y⌋ : ℚ) + 1 := Int.lt_floor_add_one y
  have hy' : y = (modeX n nA - (par : ℚ)) / 2 + 1 / 2 := by rw [hy]; norm_num
  refine ⟨by omega, ?_, ?_⟩
  · push_cast; linarith
  · push_cast; linarith

theorem modeX_mul (n nA : ℕ) : modeX n nA * (2 * (n : ℚ) + 3) = ((nA : ℚ) + 1) * ((2 * (n : ℚ) - nA) + 1) := by
  unfold modeX
  have : (2 * (n : ℚ) + 3) ≠ 0 := by positivity
  field_simp

theorem refMode_supp (n nA : ℕ) (h : nA ≤ n) : lhSupp nA (refMode n nA) := by
  obtain ⟨hp, hlo, hhi⟩ := refMode_bounds n nA
  have hD : (0 : ℚ) < 2 * (n : ℚ) + 3 := by positivity
  have hxm := modeX_mul n nA
  have hn : (nA : ℚ) ≤ n := by exact_mod_cast h
  have hx0 : 0 < modeX n nA := by
    unfold modeX
    have : (0 : ℚ) < (2 * (n : ℚ) - nA) + 1 := by linarith
    positivity
  have hx1 : modeX n nA < (nA : ℚ) + 1 := by
    have : modeX n nA * (2 * (n : ℚ) + 3) < ((nA : ℚ) + 1) * (2 * (n : ℚ) + 3) := by
      rw [hxm]
      have h1 : (0 : ℚ) < (nA : ℚ) + 1 := by positivity
      have h2 : (2 * (n : ℚ) - nA) + 1 < 2 * (n : ℚ) + 3 := by
        have : (0 : ℚ) ≤ nA := by positivity
        linarith
      exact mul_lt_mul_of_pos_left h2 h1
    exact lt_of_mul_lt_mul_right this (le_of_lt hD)
  have h0 : (-1 : ℚ) < (refMode n nA : ℚ) := by linarith
  have h0' : (-1 : ℤ) < refMode n nA := by exact_mod_cast h0
  have h1 : (refMode n nA : ℚ) < (nA : ℚ) + 2 := by linarith
  have h1' : refMode n nA < (nA : ℤ) + 2 := by exact_mod_cast h1
  unfold lhSupp
  omega

/-- right of the mode the ratio of consecutive weights is at most 1 -/
theorem ratio_up_le (n nA : ℕ) (i : ℤ) (hi : refMode n nA ≤ i) :
    (((nA : ℤ) - i : ℤ) : ℚ) * (((2 * (n : ℤ) - nA) - i : ℤ) : ℚ) ≤ (((i : ℤ) : ℚ) + 2) * ((i + 1 : ℤ) : ℚ) := by
  obtain ⟨_, hlo, _⟩ := refMode_bounds n nA
  have hD : (0 : ℚ) < 2 * (n : ℚ) + 3 := by positivity
  have hxm := modeX_mul n nA
  have hi' : (refMode n nA : ℚ) ≤ (i : ℚ) := by exact_mod_cast hi
  have h1 : (modeX n nA - 1) * (2 * (n : ℚ) + 3) < (i : ℚ) * (2 * (n : ℚ) + 3) := mul_lt_mul_of_pos_right (by linarith) hD
  push_cast
  nlinarith [h1, hxm]

/-- left of the mode likewise -/
theorem ratio_down_le (n nA : ℕ) (i : ℤ) (hi : i ≤ refMode n nA) :
    ((i : ℤ) : ℚ) * ((i - 1 : ℤ) : ℚ) ≤ (((((nA : ℤ) - i : ℤ)) : ℚ) + 2) * ((((2 * (n : ℤ) - nA) - i) + 2 : ℤ) : ℚ) := by
  obtain ⟨_, _, hhi⟩ := refMode_bounds n nA
  have hD : (0 : ℚ) < 2 * (n : ℚ) + 3 := by positivity
  have hxm := modeX_mul n nA
  have hi' : (i : ℚ) ≤ (refMode n nA : ℚ) := by exact_mod_cast hi
  have h1 : (i : ℚ) * (2 * (n : ℚ) + 3) ≤ (modeX n nA + 1) * (2 * (n : ℚ) + 3) := mul_le_mul_of_nonneg_right (by linarith) (le_of_lt hD)
  push_cast
  nlinarith [h1, hxm]

/-- the weight function of the pair `(n, nA)` -/
def W (n nA : ℕ) (k : ℤ) : ℚ := lhWeight nA (2 * n - nA) k

/-- weights relative to the mode, going right / left from it in steps of 2 -/
def gR (n nA : ℕ) (j : ℕ) : ℚ := W n nA (refMode n nA + 2 * j) / W n nA (refMode n nA)
def gL (n nA : ℕ) (j : ℕ) : ℚ := W n nA (refMode n nA - 2 * j) / W n nA (refMode n nA)

theorem W_mode_pos (n nA : ℕ) (h : nA ≤ n) : 0 < W n nA (refMode n nA) :=
  lhWeight_pos _ _ _ (refMode_supp n nA h)

theorem gR_zero (n nA : ℕ) (h : nA ≤ n) : gR n nA 0 = 1 := by
  unfold gR; simp; exact ne_of_gt (W_mode_pos n nA h)
theorem gL_zero (n nA : ℕ) (h : nA ≤ n) : gL n nA 0 = 1 := by
  unfold gL; simp; exact ne_of_gt (W_mode_pos n nA h)

theorem gR_nonneg (n nA j : ℕ) : 0 ≤ gR n nA j := div_nonneg (lhWeight_nonneg _ _ _) (lhWeight_nonneg _ _ _)
theorem gL_nonneg (n nA j : ℕ) : 0 ≤ gL n nA j := div_nonneg (lhWeight_nonneg _ _ _) (lhWeight_nonneg _ _ _)

theorem nB_cast (n nA : ℕ) (h : nA ≤ n) : ((2 * n - nA : ℕ) : ℤ) = 2 * (n : ℤ) - nA := by omega

/-- the step of `pRUfrom` / `pLUfrom`, as generated -/
def stepR (n nA : ℤ) : ℤ → ℚ → ℤ × ℚ := fun nAB p =>
  (nAB + 2, p * ((nA - nAB : ℤ) : ℚ) * (((2 * n - nA) - nAB : ℤ) : ℚ) / ((((nAB : ℤ) : ℚ) + 2) * ((nAB + 1 : ℤ) : ℚ)))
def stepL (n nA : ℤ) : ℤ → ℚ → ℤ × ℚ := fun nAB p =>
  (nAB - 2, p * ((nAB : ℤ) : ℚ) * ((nAB - 1 : ℤ) : ℚ) / (((((nA - nAB : ℤ)) : ℚ) + 2) * ((((2 * n - nA) - nAB) + 2 : ℤ) : ℚ)))

/-- the generated step of `pRUfrom` maps the j-th relative weight to the (j+1)-th -/
theorem stepR_spec (n nA : ℕ) (h : nA ≤ n) (j : ℕ) :
    stepR n nA (refMode n nA + 2 * (j : ℤ)) (gR n nA j) = (refMode n nA + 2 * ((j + 1 : ℕ) : ℤ), gR n nA (j + 1)) := by
  have hs := refMode_supp n nA h
  unfold lhSupp at hs
  unfold stepR
  refine Prod.ext (by push_cast; ring) ?_
  simp only
  unfold gR W
  have e : refMode n nA + 2 * ((j + 1 : ℕ) : ℤ) = (refMode n nA + 2 * (j : ℤ)) + 2 := by push_cast; ring
  rw [e, lhWeight_up nA (2 * n - nA) (by omega) (by omega) (refMode n nA + 2 * (j : ℤ)) (by omega) (by omega), nB_cast n nA h]
  ring

theorem stepL_spec (n nA : ℕ) (h : nA ≤ n) (j : ℕ) :
    stepL n nA (refMode n nA - 2 * (j : ℤ)) (gL n nA j) = (refMode n nA - 2 * ((j + 1 : ℕ) : ℤ), gL n nA (j + 1)) := by
  have hs := refMode_supp n nA h
  unfold lhSupp at hs
  unfold stepL
  refine Prod.ext (by push_cast; ring) ?_
  simp only
  unfold gL W
  have e : refMode n nA - 2 * ((j + 1 : ℕ) : ℤ) = (refMode n nA - 2 * (j : ℤ)) - 2 := by push_cast; ring
  rw [e, lhWeight_down nA (2 * n - nA) (by omega) (by omega) (refMode n nA - 2 * (j : ℤ)) (by omega) (by omega), nB_cast n nA h]
  ring

/-- what `LeveneHaldane.apply(n, nA)` builds (exact model, τ = 0): the two streams are the closed-form weights relative to the mode -/
def refDist (n nA : ℕ) : LHDist ℚ :=
  let pRU := (List.range (lhFuel nA)).map (gR n nA)
  let pLU := (List.range (lhFuel nA)).map (gL n nA)
  { n := n, nA := nA, mode := refMode n nA, pRU := pRU, pLU := pLU,
    pN := sumL (pRU.takeWhile fun x => decide (x > 0)) + sumL (pLU.takeWhile fun x => decide (x > 0)) - 1 }

/-- the shape of what `apply` returns: a mode `M` and two step functions, identified with `refMode` / `stepR` / `stepL` up to
ring identities (so that an algebraically equivalent rewrite of the Scala formulas does not break the proof) -/
theorem apply3_shape (n nA : ℤ) (hg : (decide (nA ≥ 0) && decide (nA ≤ n)) = true) :
    ∃ (M : ℤ) (sR sL : ℤ → ℚ → ℤ × ℚ),
      Exact.LeveneHaldane_apply_3 0 n nA = Out.val
        (LHDist.mk n nA M (HailVerif.StatsLib.unfold sR (lhFuel nA) M 1) (HailVerif.StatsLib.unfold sL (lhFuel nA) M 1)
          (sumL (List.takeWhile (fun x1 => decide (x1 > 0 * (1 / 10000000000000000))) (HailVerif.StatsLib.unfold sR (lhFuel nA) M 1))
            + sumL (List.takeWhile (fun x1 => decide (x1 > 0 * (1 / 10000000000000000))) (HailVerif.StatsLib.unfold sL (lhFuel nA) M 1)) - 1)) ∧
      M = refMode n nA ∧ (∀ i p, sR i p = stepR n nA i p) ∧ (∀ i p, sL i p = stepL n nA i p) := by
  refine ⟨?M, ?sR, ?sL, ?h1, ?h2, ?h3, ?h4⟩
  case h1 =>
    unfold Exact.LeveneHaldane_apply_3
    simp only [hg]
    rfl
  case h2 =>
    first
      | rfl
      | (unfold refMode; simp only []; congr 2; push_cast; ring_nf)
  case h3 =>
    intro i p
    first
      | rfl
      | (unfold stepR; refine Prod.ext ?_ ?_ <;> (simp only []; try push_cast; try ring))
  case h4 =>
    intro i p
    first
      | rfl
      | (unfold stepL; refine Prod.ext ?_ ?_ <;> (simp only []; try push_cast; try ring))

theorem apply_val (n nA : ℕ) (h : nA ≤ n) : Exact.LeveneHaldane_apply_3 0 (n : ℤ) (nA : ℤ) = Out.val (refDist n nA) := by
  have hR := unfold_eq_map (stepR n nA) (fun j : ℕ => refMode n nA + 2 * (j : ℤ)) (gR n nA) (stepR_spec n nA h) (lhFuel nA)
  have hL := unfold_eq_map (stepL n nA) (fun j : ℕ => refMode n nA - 2 * (j : ℤ)) (gL n nA) (stepL_spec n nA h) (lhFuel nA)
  simp only [Nat.cast_zero, mul_zero, add_zero, sub_zero, gR_zero n nA h, gL_zero n nA h] at hR hL
  have hg : (decide ((nA : ℤ) ≥ 0) && decide ((nA : ℤ) ≤ (n : ℤ))) = true := by simp; omega
  obtain ⟨M, sR, sL, h1, hM, hsR, hsL⟩ := apply3_shape n nA hg
  have eR : sR = stepR n nA := funext fun i => funext fun p => hsR i p
  have eL : sL = stepL n nA := funext fun i => funext fun p => hsL i p
  subst hM eR eL
  rw [h1, hR, hL]
  simp [refDist]

theorem W_nonneg (n nA : ℕ) (k : ℤ) : 0 ≤ W n nA k := lhWeight_nonneg _ _ _

/-- unimodality, right half: the weights do not increase when moving right from the mode -/
theorem W_up_le (n nA : ℕ) (h : nA ≤ n) (i : ℤ) (hi : refMode n nA ≤ i) (hp : i % 2 = (nA : ℤ) % 2) : W n nA (i + 2) ≤ W n nA i := by
  have hs := refMode_supp n nA h
  unfold lhSupp at hs
  unfold W
  by_cases hA : i + 2 ≤ nA
  · rw [lhWeight_up nA (2 * n - nA) (by omega) (by omega) i (by omega) hp, nB_cast n nA h]
    have hr := ratio_up_le n nA i hi
    have hd : (0 : ℚ) < ((((i : ℤ) : ℚ) + 2) * ((i + 1 : ℤ) : ℚ)) := by
      have h1 : (0 : ℤ) < i + 2 := by omega
      have h2 : (0 : ℤ) < i + 1 := by omega
      have h1' : (0 : ℚ) < ((i : ℤ) : ℚ) + 2 := by exact_mod_cast h1
      have h2' : (0 : ℚ) < ((i + 1 : ℤ) : ℚ) := by exact_mod_cast h2
      positivity
    have hw := lhWeight_nonneg nA (2 * n - nA) i
    rw [div_le_iff₀ hd, mul_assoc]
    exact mul_le_mul_of_nonneg_left hr hw
  · have hoff : ¬ lhSupp nA (i + 2) := by unfold lhSupp; omega
    rw [lhWeight_off _ _ _ hoff]
    exact lhWeight_nonneg _ _ _

theorem W_down_le (n nA : ℕ) (h : nA ≤ n) (i : ℤ) (hi : i ≤ refMode n nA) (hp : i % 2 = (nA : ℤ) % 2) : W n nA (i - 2) ≤ W n nA i := by
  have hs := refMode_supp n nA h
  unfold lhSupp at hs
  unfold W
  by_cases h2 : 2 ≤ i
  · rw [lhWeight_down nA (2 * n - nA) (by omega) (by omega) i (by omega) hp, nB_cast n nA h]
    have hr := ratio_down_le n nA i hi
    have hd : (0 : ℚ) < ((((((nA : ℤ) - i : ℤ)) : ℚ) + 2) * ((((2 * (n : ℤ) - nA) - i) + 2 : ℤ) : ℚ)) := by
      have h1 : (0 : ℤ) < ((nA : ℤ) - i) + 2 := by omega
      have h2 : (0 : ℤ) < ((2 * (n : ℤ) - nA) - i) + 2 := by omega
      have h1' : (0 : ℚ) < (((nA : ℤ) - i : ℤ) : ℚ) + 2 := by exact_mod_cast h1
      have h2' : (0 : ℚ) < ((((2 * (n : ℤ) - nA) - i) + 2 : ℤ) : ℚ) := by exact_mod_cast h2
      positivity
    have hw := lhWeight_nonneg nA (2 * n - nA) i
    rw [div_le_iff₀ hd, mul_assoc]
    exact mul_le_mul_of_nonneg_left hr hw
  · have hoff : ¬ lhSupp nA (i - 2) := by unfold lhSupp; omega
    rw [lhWeight_off _ _ _ hoff]
    exact lhWeight_nonneg _ _ _

theorem gR_succ_le (n nA : ℕ) (h : nA ≤ n) (j : ℕ) : gR n nA (j + 1) ≤ gR n nA j := by
  have hs := refMode_supp n nA h
  unfold lhSupp at hs
  unfold gR
  have e : refMode n nA + 2 * ((j + 1 : ℕ) : ℤ) = (refMode n nA + 2 * (j : ℤ)) + 2 := by push_cast; ring
  rw [e]
  exact div_le_div_of_nonneg_right (W_up_le n nA h _ (by omega) (by omega)) (le_of_lt (W_mode_pos n nA h))

theorem gL_succ_le (n nA : ℕ) (h : nA ≤ n) (j : ℕ) : gL n nA (j + 1) ≤ gL n nA j := by
  have hs := refMode_supp n nA h
  unfold lhSupp at hs
  unfold gL
  have e : refMode n nA - 2 * ((j + 1 : ℕ) : ℤ) = (refMode n nA - 2 * (j : ℤ)) - 2 := by push_cast; ring
  rw [e]
  exact div_le_div_of_nonneg_right (W_down_le n nA h _ (by omega) (by omega)) (le_of_lt (W_mode_pos n nA h))

theorem gR_antitone (n nA : ℕ) (h : nA ≤ n) : Antitone (gR n nA) := antitone_nat_of_succ_le (gR_succ_le n nA h)
theorem gL_antitone (n nA : ℕ) (h : nA ≤ n) : Antitone (gL n nA) := antitone_nat_of_succ_le (gL_succ_le n nA h)

/-- the mode formula returns a most probable point: no weight exceeds the weight at the mode -/
theorem W_le_mode (n nA : ℕ) (h : nA ≤ n) (k : ℤ) : W n nA k ≤ W n nA (refMode n nA) := by
  have hs := refMode_supp n nA h
  have hpos := W_mode_pos n nA h
  by_cases hk : lhSupp nA k
  · unfold lhSupp at hs hk
    by_cases hge : refMode n nA ≤ k
    · obtain ⟨j, hj⟩ : ∃ j : ℕ, k = refMode n nA + 2 * (j : ℤ) := ⟨((k - refMode n nA) / 2).toNat, by omega⟩
      have := gR_antitone n nA h (Nat.zero_le j)
      rw [gR_zero n nA h] at this
      unfold gR at this
      rw [div_le_one hpos] at this
      rw [hj]; exact this
    · obtain ⟨j, hj⟩ : ∃ j : ℕ, k = refMode n nA - 2 * (j : ℤ) := ⟨((refMode n nA - k) / 2).toNat, by omega⟩
      have := gL_antitone n nA h (Nat.zero_le j)
      rw [gL_zero n nA h] at this
      unfold gL at this
      rw [div_le_one hpos] at this
      rw [hj]; exact this
  · unfold W; rw [lhWeight_off _ _ _ hk]; exact le_of_lt hpos

/-! ## lists that are non-negative and non-increasing -/

theorem sum_takeWhile_pos (l : List ℚ) (hn : ∀ x ∈ l, 0 ≤ x) (hs : l.Pairwise (· ≥ ·)) :
    (l.takeWhile fun x => decide (x > 0)).sum = l.sum := by
  induction l with
  | nil => rfl
  | cons x xs ih =>
    rw [List.pairwise_cons] at hs
    by_cases hx : x > 0
    · rw [List.takeWhile_cons_of_pos (by simpa using hx), List.sum_cons, List.sum_cons,
        ih (fun y hy => hn y (List.mem_cons_of_mem _ hy)) hs.2]
    · rw [List.takeWhile_cons_of_neg (by simpa using hx)]
      have hx0 : x = 0 := le_antisymm (not_lt.mp hx) (hn x List.mem_cons_self)
      have : xs.sum = 0 := by
        apply List.sum_eq_zero
        intro y hy
        have h1 := hs.1 y hy
        have h2 := hn y (List.mem_cons_of_mem _ hy)
        rw [hx0] at h1
        exact le_antisymm h1 h2
      rw [List.sum_cons, this, hx0]; simp

theorem pairwise_map_range_antitone (g : ℕ → ℚ) (hg : Antitone g) (F : ℕ) : ((List.range F).map g).Pairwise (· ≥ ·) := by
  rw [List.pairwise_map]
  exact List.Pairwise.imp (fun {a b} hab => hg (le_of_lt hab)) List.pairwise_lt_range

/-- the normaliser: sum of the two streams, the mode counted once -/
def T (n nA : ℕ) : ℚ := ((List.range (lhFuel nA)).map (gR n nA)).sum + ((List.range (lhFuel nA)).map (gL n nA)).sum - 1

theorem mem_map_range_nonneg (g : ℕ → ℚ) (hg : ∀ j, 0 ≤ g j) (F : ℕ) : ∀ x ∈ (List.range F).map g, 0 ≤ x := by
  intro x hx
  obtain ⟨j, _, rfl⟩ := List.mem_map.mp hx
  exact hg j

theorem refDist_pN (n nA : ℕ) (h : nA ≤ n) : (refDist n nA).pN = T n nA := by
  unfold refDist T
  simp only [sumL_eq_sum]
  rw [sum_takeWhile_pos _ (mem_map_range_nonneg _ (gR_nonneg n nA) _) (pairwise_map_range_antitone _ (gR_antitone n nA h) _),
    sum_takeWhile_pos _ (mem_map_range_nonneg _ (gL_nonneg n nA) _) (pairwise_map_range_antitone _ (gL_antitone n nA h) _)]

/-- `refDist` with the normaliser in closed form -/
def refDist' (n nA : ℕ) : LHDist ℚ :=
  LHDist.mk n nA (refMode n nA) ((List.range (lhFuel nA)).map (gR n nA)) ((List.range (lhFuel nA)).map (gL n nA)) (T n nA)

theorem refDist_eq (n nA : ℕ) (h : nA ≤ n) : refDist n nA = refDist' n nA := by
  have := refDist_pN n nA h
  unfold refDist at this ⊢
  unfold refDist'
  simp only at this ⊢
  rw [this]

theorem lhFuel_pos (nA : ℕ) : 0 < lhFuel (nA : ℤ) := by unfold lhFuel; omega

theorem one_le_T (n nA : ℕ) (h : nA ≤ n) : 1 ≤ T n nA := by
  unfold T
  have hF := lhFuel_pos nA
  obtain ⟨F, hF'⟩ : ∃ F, lhFuel (nA : ℤ) = F + 1 := ⟨lhFuel nA - 1, by omega⟩
  rw [hF', List.range_succ_eq_map, List.map_cons, List.map_cons, List.sum_cons, List.sum_cons, gR_zero n nA h, gL_zero n nA h]
  have h1 : 0 ≤ (List.map (gR n nA) (List.map Nat.succ (List.range F))).sum :=
    List.sum_nonneg (by intro x hx; obtain ⟨j, _, rfl⟩ := List.mem_map.mp hx; exact gR_nonneg n nA j)
  have h2 : 0 ≤ (List.map (gL n nA) (List.map Nat.succ (List.range F))).sum :=
    List.sum_nonneg (by intro x hx; obtain ⟨j, _, rfl⟩ := List.mem_map.mp hx; exact gL_nonneg n nA j)
  linarith

theorem T_pos (n nA : ℕ) (h : nA ≤ n) : 0 < T n nA := lt_of_lt_of_le one_pos (one_le_T n nA h)

theorem idx_map_range (g : ℕ → ℚ) (F : ℕ) (j : ℤ) (hF : j.toNat < F) : idx ((List.range F).map g) j = g j.toNat := by
  unfold idx
  rw [List.getD_eq_getElem?_getD, List.getElem?_map, List.getElem?_range hF]
  rfl

/-- `probability` on an explicit record (projections reduced) -/
theorem probability_mk (n' nA' M : ℤ) (pRU pLU : List ℚ) (pN : ℚ) (k : ℤ) :
    Exact.LeveneHaldane_probability 0 (LHDist.mk n' nA' M pRU pLU pN) k =
      (if ((decide (k < (0 : ℤ)) || decide (k > nA')) || decide (imod k 2 ≠ imod nA' 2)) then 0
       else if decide (k ≥ M) then idx pRU (idiv (k - M) 2) / pN else idx pLU (idiv (M - k) 2) / pN) := rfl

/-- `probability(k)` of the exact model is the closed-form weight of `k` over the normaliser, for every integer `k` -/
theorem probability_refDist (n nA : ℕ) (h : nA ≤ n) (k : ℤ) :
    Exact.LeveneHaldane_probability 0 (refDist' n nA) k = W n nA k / (W n nA (refMode n nA) * T n nA) := by
  have hs := refMode_supp n nA h
  have hpos := W_mode_pos n nA h
  unfold refDist'
  rw [probability_mk]
  by_cases hk : lhSupp nA k
  · unfold lhSupp at hk hs
    have e1 : imod k 2 = k % 2 := by unfold imod; exact Int.tmod_eq_emod_of_nonneg hk.1
    have hg : ((decide (k < (0 : ℤ)) || decide (k > (nA : ℤ))) || decide (imod k 2 ≠ imod (nA : ℤ) 2)) = false := by
      rw [e1, imod_two_nat]; simp; omega
    rw [hg]
    simp only [Bool.false_eq_true, if_false]
    by_cases hge : refMode n nA ≤ k
    · have hd : decide (k ≥ refMode n nA) = true := by simpa using hge
      rw [hd]; simp only [if_true]
      rw [idiv_two_nonneg _ (by omega)]
      obtain ⟨j, hj⟩ : ∃ j : ℕ, k = refMode n nA + 2 * (j : ℤ) := ⟨((k - refMode n nA) / 2).toNat, by omega⟩
      have ej : (k - refMode n nA) / 2 = (j : ℤ) := by omega
      rw [ej, idx_map_range _ _ _ (by unfold lhFuel; omega)]
      simp only [Int.toNat_natCast]
      unfold gR
      rw [← hj, div_div]
    · have hd : decide (k ≥ refMode n nA) = false := by simpa using hge
      rw [hd]; simp only [Bool.false_eq_true, if_false]
      rw [idiv_two_nonneg _ (by omega)]
      obtain ⟨j, hj⟩ : ∃ j : ℕ, k = refMode n nA - 2 * (j : ℤ) := ⟨((refMode n nA - k) / 2).toNat, by omega⟩
      have ej : (refMode n nA - k) / 2 = (j : ℤ) := by omega
      rw [ej, idx_map_range _ _ _ (by unfold lhFuel; omega)]
      simp only [Int.toNat_natCast]
      unfold gL
      rw [← hj, div_div]
  · have hW : W n nA k = 0 := lhWeight_off _ _ _ hk
    rw [hW, zero_div]
    have hg : ((decide (k < (0 : ℤ)) || decide (k > (nA : ℤ))) || decide (imod k 2 ≠ imod (nA : ℤ) 2)) = true := by
      unfold lhSupp at hk
      by_cases h0 : k < 0
      · simp [h0]
      · have e1 : imod k 2 = k % 2 := by unfold imod; exact Int.tmod_eq_emod_of_nonneg (by omega)
        rw [e1, imod_two_nat]; simp; omega
    rw [hg]; simp

theorem list_sum_range (g : ℕ → ℚ) (F : ℕ) : ((List.range F).map g).sum = ∑ j ∈ range F, g j := by
  induction F with
  | zero => simp
  | succ F ih => rw [List.range_succ, List.map_append, List.sum_append, ih, Finset.sum_range_succ]; simp

theorem sumRange_eq (lo hi : ℤ) (f : ℤ → ℚ) : sumRange lo hi f = ∑ i ∈ range (hi + 1 - lo).toNat, f (lo + (i : ℤ)) := by
  unfold sumRange rangeIncl
  rw [List.map_map, list_sum_range]
  rfl

/-- a sum whose odd-indexed terms vanish is the sum of its even-indexed terms -/
theorem sum_even (h : ℕ → ℚ) (hodd : ∀ j, h (2 * j + 1) = 0) (t : ℕ) : ∑ i ∈ range (2 * t + 1), h i = ∑ j ∈ range (t + 1), h (2 * j) := by
  induction t with
  | zero => simp
  | succ t ih =>
    have e : 2 * (t + 1) + 1 = (2 * t + 1) + 1 + 1 := by ring
    rw [e, Finset.sum_range_succ, Finset.sum_range_succ, ih, Finset.sum_range_succ (fun j => h (2 * j)) (t + 1), hodd t]
    have e2 : 2 * t + 1 + 1 = 2 * (t + 1) := by ring
    rw [e2]; ring

theorem sum_zero_ext (g : ℕ → ℚ) (c F : ℕ) (hc : c ≤ F) (hz : ∀ j, c ≤ j → g j = 0) : ∑ j ∈ range F, g j = ∑ j ∈ range c, g j := by
  symm
  apply Finset.sum_subset
  · intro x hx; rw [Finset.mem_range] at hx ⊢; omega
  · intro x _ hx; rw [Finset.mem_range] at hx; exact hz x (by omega)

/-- the weight of the natural number `i` -/
def Wn (n nA : ℕ) (i : ℕ) : ℚ := W n nA (i : ℤ)

/-- total weight of the support -/
def S (n nA : ℕ) : ℚ := ∑ i ∈ range (nA + 1), Wn n nA i

theorem W_off_parity (n nA : ℕ) (k : ℤ) (hp : k % 2 ≠ (nA : ℤ) % 2) : W n nA k = 0 :=
  lhWeight_off _ _ _ (by unfold lhSupp; omega)
theorem W_off_hi (n nA : ℕ) (k : ℤ) (hp : (nA : ℤ) < k) : W n nA k = 0 :=
  lhWeight_off _ _ _ (by unfold lhSupp; omega)
theorem W_off_lo (n nA : ℕ) (k : ℤ) (hp : k < 0) : W n nA k = 0 :=
  lhWeight_off _ _ _ (by unfold lhSupp; omega)

/-- the right stream sums to the weights from the mode upward -/
theorem sumR_eq (n nA : ℕ) (h : nA ≤ n) :
    ((List.range (lhFuel nA)).map (gR n nA)).sum = (∑ i ∈ range (nA + 1 - (refMode n nA).toNat), W n nA (refMode n nA + (i : ℤ))) / W n nA (refMode n nA) := by
  have hs := refMode_supp n nA h
  unfold lhSupp at hs
  obtain ⟨M, hM⟩ := Int.eq_ofNat_of_zero_le hs.1
  obtain ⟨t, ht⟩ : ∃ t : ℕ, nA = M + 2 * t := ⟨(nA - M) / 2, by omega⟩
  rw [list_sum_range]
  unfold gR
  simp only [div_eq_mul_inv]
  rw [← Finset.sum_mul]
  congr 1
  rw [sum_zero_ext _ (t + 1) _ (by unfold lhFuel; omega) (fun j hj => W_off_hi n nA _ (by omega))]
  have e : nA + 1 - (refMode n nA).toNat = 2 * t + 1 := by omega
  rw [e, sum_even (fun i => W n nA (refMode n nA + (i : ℤ))) (fun j => W_off_parity n nA _ (by push_cast; omega)) t]
  apply Finset.sum_congr rfl
  intro j _
  push_cast; rfl

theorem sumL_eq (n nA : ℕ) (h : nA ≤ n) :
    ((List.range (lhFuel nA)).map (gL n nA)).sum = (∑ i ∈ range ((refMode n nA).toNat + 1), W n nA (refMode n nA - (i : ℤ))) / W n nA (refMode n nA) := by
  have hs := refMode_supp n nA h
  unfold lhSupp at hs
  obtain ⟨M, hM⟩ := Int.eq_ofNat_of_zero_le hs.1
  rw [list_sum_range]
  unfold gL
  simp only [div_eq_mul_inv]
  rw [← Finset.sum_mul]
  congr 1
  rw [sum_zero_ext _ (M / 2 + 1) _ (by unfold lhFuel; omega) (fun j hj => W_off_lo n nA _ (by omega))]
  have hev := sum_even (fun i => W n nA (refMode n nA - (i : ℤ))) (fun j => W_off_parity n nA _ (by push_cast; omega)) (M / 2)
  have e1 : (∑ j ∈ range (M / 2 + 1), W n nA (refMode n nA - 2 * (j : ℤ))) = ∑ j ∈ range (M / 2 + 1), (fun i : ℕ => W n nA (refMode n nA - (i : ℤ))) (2 * j) := by
    apply Finset.sum_congr rfl; intro j _; push_cast; rfl
  rw [e1, ← hev]
  by_cases hpar : M % 2 = 0
  · have : (refMode n nA).toNat + 1 = 2 * (M / 2) + 1 := by omega
    rw [this]
  · have : (refMode n nA).toNat + 1 = (2 * (M / 2) + 1) + 1 := by omega
    rw [this, Finset.sum_range_succ _ (2 * (M / 2) + 1)]
    have : W n nA (refMode n nA - ((2 * (M / 2) + 1 : ℕ) : ℤ)) = 0 := W_off_parity n nA _ (by push_cast; omega)
    rw [this, add_zero]

/-- the normaliser of the exact model is the total weight of the support relative to the mode -/
theorem T_eq (n nA : ℕ) (h : nA ≤ n) : T n nA = S n nA / W n nA (refMode n nA) := by
  have hs := refMode_supp n nA h
  have hpos := W_mode_pos n nA h
  unfold lhSupp at hs
  obtain ⟨M, hM⟩ := Int.eq_ofNat_of_zero_le hs.1
  unfold T
  rw [sumR_eq n nA h, sumL_eq n nA h, hM]
  simp only [Int.toNat_natCast]
  rw [← Finset.sum_range_reflect (fun i => W n nA ((M : ℤ) - (i : ℤ))) (M + 1)]
  have e1 : ∑ j ∈ range (M + 1), W n nA ((M : ℤ) - ((M + 1 - 1 - j : ℕ) : ℤ)) = ∑ j ∈ range (M + 1), Wn n nA j := by
    apply Finset.sum_congr rfl
    intro j hj; rw [Finset.mem_range] at hj
    unfold Wn; congr 1; omega
  have e2 : ∑ i ∈ range (nA + 1 - M), W n nA ((M : ℤ) + (i : ℤ)) = ∑ i ∈ range (nA + 1 - M), Wn n nA (M + i) := by
    apply Finset.sum_congr rfl; intro j _; unfold Wn; push_cast; rfl
  rw [e1, e2]
  unfold S
  have hsplit : nA + 1 = M + (nA + 1 - M) := by omega
  conv_rhs => rw [hsplit, Finset.sum_range_add]
  rw [Finset.sum_range_succ (Wn n nA) M]
  have hWM : Wn n nA M = W n nA (M : ℤ) := rfl
  have hne : W n nA (refMode n nA) ≠ 0 := ne_of_gt hpos
  rw [hM] at hne
  rw [hWM]
  field_simp
  ring

theorem sumRange_empty (lo hi : ℤ) (f : ℤ → ℚ) (h : hi < lo) : sumRange lo hi f = 0 := by
  rw [sumRange_eq]
  have : (hi + 1 - lo).toNat = 0 := by omega
  rw [this]; simp

theorem sumRange_succ (lo hi : ℤ) (f : ℤ → ℚ) (h : lo ≤ hi + 1) : sumRange lo (hi + 1) f = sumRange lo hi f + f (hi + 1) := by
  rw [sumRange_eq, sumRange_eq]
  have : (hi + 1 + 1 - lo).toNat = (hi + 1 - lo).toNat + 1 := by omega
  rw [this, Finset.sum_range_succ]
  congr 2
  omega

theorem sumRange_split (lo mid hi : ℤ) (f : ℤ → ℚ) (h1 : lo ≤ mid + 1) (h2 : mid ≤ hi) :
    sumRange lo hi f = sumRange lo mid f + sumRange (mid + 1) hi f := by
  rw [sumRange_eq, sumRange_eq, sumRange_eq]
  have : (hi + 1 - lo).toNat = (mid + 1 - lo).toNat + (hi + 1 - (mid + 1)).toNat := by omega
  rw [this, Finset.sum_range_add]
  congr 1
  apply Finset.sum_congr rfl
  intro i _
  congr 1
  omega

theorem sumRange_first (lo hi : ℤ) (f : ℤ → ℚ) (h : lo ≤ hi) : sumRange lo hi f = f lo + sumRange (lo + 1) hi f := by
  rw [sumRange_split lo lo hi f (by omega) h]
  congr 1
  rw [sumRange_eq]
  have : (lo + 1 - lo).toNat = 1 := by omega
  rw [this]; simp

theorem sumRange_nonneg (lo hi : ℤ) (f : ℤ → ℚ) (h : ∀ k, 0 ≤ f k) : 0 ≤ sumRange lo hi f := by
  rw [sumRange_eq]; exact Finset.sum_nonneg (fun i _ => h _)

theorem sumRange_congr (lo hi : ℤ) (f g : ℤ → ℚ) (h : ∀ k, lo ≤ k → k ≤ hi → f k = g k) : sumRange lo hi f = sumRange lo hi g := by
  rw [sumRange_eq, sumRange_eq]
  apply Finset.sum_congr rfl
  intro i hi'
  rw [Finset.mem_range] at hi'
  exact h _ (by omega) (by omega)

theorem sumRange_div (lo hi : ℤ) (f : ℤ → ℚ) (c : ℚ) : sumRange lo hi (fun k => f k / c) = sumRange lo hi f / c := by
  rw [sumRange_eq, sumRange_eq]
  simp only [div_eq_mul_inv]
  rw [Finset.sum_mul]

/-- lattice sums going right: `Σ_{a ≤ j < b} f(s + 2j) = Σ_{s+2a ≤ k ≤ s+2b-2} f(k)` when `f` vanishes off the lattice `s + 2ℤ` -/
theorem lattice_up (f : ℤ → ℚ) (s : ℤ) (hoff : ∀ k : ℤ, k % 2 ≠ s % 2 → f k = 0) (a b : ℕ) :
    ∑ j ∈ Ico a b, f (s + 2 * (j : ℤ)) = sumRange (s + 2 * a) (s + 2 * b - 2) f := by
  by_cases hab : a < b
  · obtain ⟨t, ht⟩ : ∃ t, b = a + t + 1 := ⟨b - a - 1, by omega⟩
    rw [Finset.sum_Ico_eq_sum_range, sumRange_eq]
    have e1 : b - a = t + 1 := by omega
    have e2 : (s + 2 * (b : ℤ) - 2 + 1 - (s + 2 * (a : ℤ))).toNat = 2 * t + 1 := by omega
    rw [e1, e2, sum_even (fun i => f (s + 2 * (a : ℤ) + (i : ℤ))) (fun j => hoff _ (by push_cast; omega)) t]
    apply Finset.sum_congr rfl
    intro j _
    congr 1; push_cast; ring
  · rw [Finset.Ico_eq_empty (by omega), Finset.sum_empty, sumRange_empty _ _ _ (by omega)]

/-- lattice sums going left: `Σ_{a ≤ j < b} f(s - 2j) = Σ_{s-2b+2 ≤ k ≤ s-2a} f(k)` -/
theorem lattice_down (f : ℤ → ℚ) (s : ℤ) (hoff : ∀ k : ℤ, k % 2 ≠ s % 2 → f k = 0) (a b : ℕ) :
    ∑ j ∈ Ico a b, f (s - 2 * (j : ℤ)) = sumRange (s - 2 * b + 2) (s - 2 * a) f := by
  by_cases hab : a < b
  · obtain ⟨t, ht⟩ : ∃ t, b = a + t + 1 := ⟨b - a - 1, by omega⟩
    have hup := lattice_up f (s - 2 * (b : ℤ) + 2) (fun k hk => hoff k (by omega)) 0 (t + 1)
    simp only [Nat.cast_zero, mul_zero, add_zero] at hup
    have e3 : s - 2 * (b : ℤ) + 2 + 2 * ((t + 1 : ℕ) : ℤ) - 2 = s - 2 * (a : ℤ) := by rw [ht]; push_cast; ring
    rw [e3] at hup
    rw [← hup, Finset.sum_Ico_eq_sum_range]
    have e1 : b - a = t + 1 := by omega
    rw [e1]
    simp only [← Finset.range_eq_Ico]
    rw [← Finset.sum_range_reflect]
    apply Finset.sum_congr rfl
    intro j hj
    rw [Finset.mem_range] at hj
    congr 1
    rw [ht]; push_cast
    have : ((t - j : ℕ) : ℤ) = (t : ℤ) - j := by omega
    rw [this]; ring
  · rw [Finset.Ico_eq_empty (by omega), Finset.sum_empty, sumRange_empty _ _ _ (by omega)]

theorem slice_map_range (g : ℕ → ℚ) (F : ℕ) (a b : ℤ) :
    slice ((List.range F).map g) a b = (List.range' a.toNat (min b.toNat F - a.toNat)).map g := by
  unfold slice
  rw [← List.map_take, ← List.map_drop, List.take_range, List.range_eq_range', List.drop_range']
  simp

theorem sum_map_range' (g : ℕ → ℚ) (s len : ℕ) : ((List.range' s len).map g).sum = ∑ j ∈ Ico s (s + len), g j := by
  rw [List.range'_eq_map_range, List.map_map, list_sum_range, Finset.sum_Ico_eq_sum_range]
  simp

/-- `s.slice(a, b).takeWhile(_ > 0).sum` on a non-negative non-increasing stream is the plain sum over the slice -/
theorem slice_sum (g : ℕ → ℚ) (hg : Antitone g) (hn : ∀ j, 0 ≤ g j) (F : ℕ) (a b : ℤ) :
    sumL ((slice ((List.range F).map g) a b).takeWhile (fun x => decide (x > 0))) = ∑ j ∈ Ico a.toNat (min b.toNat F), g j := by
  rw [sumL_eq_sum, slice_map_range]
  have hpw : ((List.range' a.toNat (min b.toNat F - a.toNat)).map g).Pairwise (· ≥ ·) := by
    rw [List.pairwise_map]
    exact List.Pairwise.imp (fun {x y} hxy => hg (le_of_lt hxy)) (List.pairwise_lt_range')
  have hnn : ∀ x ∈ (List.range' a.toNat (min b.toNat F - a.toNat)).map g, 0 ≤ x := by
    intro x hx; obtain ⟨j, _, rfl⟩ := List.mem_map.mp hx; exact hn j
  rw [sum_takeWhile_pos _ hnn hpw, sum_map_range']
  by_cases h : a.toNat ≤ min b.toNat F
  · congr 2; omega
  · rw [Finset.Ico_eq_empty (by omega), Finset.Ico_eq_empty (by omega)]

theorem gR_zero_beyond (n nA : ℕ) (h : nA ≤ n) (j : ℕ) (hj : nA / 2 < j) : gR n nA j = 0 := by
  have hs := refMode_supp n nA h
  unfold lhSupp at hs
  unfold gR
  rw [W_off_hi n nA _ (by omega), zero_div]

theorem gL_zero_beyond (n nA : ℕ) (h : nA ≤ n) (j : ℕ) (hj : nA / 2 < j) : gL n nA j = 0 := by
  have hs := refMode_supp n nA h
  unfold lhSupp at hs
  unfold gL
  rw [W_off_lo n nA _ (by omega), zero_div]

theorem Ico_min_ext (g : ℕ → ℚ) (a b F : ℕ) (hz : ∀ j, F ≤ j → g j = 0) : ∑ j ∈ Ico a (min b F), g j = ∑ j ∈ Ico a b, g j := by
  apply Finset.sum_subset
  · intro x hx; rw [Finset.mem_Ico] at hx ⊢; omega
  · intro x hx hx'; rw [Finset.mem_Ico] at hx hx'; exact hz x (by omega)

/-- slices of the right stream, as sums of weights -/
theorem sliceR_sum (n nA : ℕ) (h : nA ≤ n) (a b : ℤ) :
    sumL ((slice ((List.range (lhFuel nA)).map (gR n nA)) a b).takeWhile (fun x => decide (x > 0)))
      = sumRange (refMode n nA + 2 * a.toNat) (refMode n nA + 2 * b.toNat - 2) (W n nA) / W n nA (refMode n nA) := by
  have hs := refMode_supp n nA h
  unfold lhSupp at hs
  rw [slice_sum _ (gR_antitone n nA h) (gR_nonneg n nA), Ico_min_ext _ _ _ _ (fun j hj => gR_zero_beyond n nA h j (by unfold lhFuel at hj; omega))]
  unfold gR
  simp only [div_eq_mul_inv]
  rw [← Finset.sum_mul, lattice_up (W n nA) (refMode n nA) (fun k hk => W_off_parity n nA k (by omega))]

theorem sliceL_sum (n nA : ℕ) (h : nA ≤ n) (a b : ℤ) :
    sumL ((slice ((List.range (lhFuel nA)).map (gL n nA)) a b).takeWhile (fun x => decide (x > 0)))
      = sumRange (refMode n nA - 2 * b.toNat + 2) (refMode n nA - 2 * a.toNat) (W n nA) / W n nA (refMode n nA) := by
  have hs := refMode_supp n nA h
  unfold lhSupp at hs
  rw [slice_sum _ (gL_antitone n nA h) (gL_nonneg n nA), Ico_min_ext _ _ _ _ (fun j hj => gL_zero_beyond n nA h j (by unfold lhFuel at hj; omega))]
  unfold gL
  simp only [div_eq_mul_inv]
  rw [← Finset.sum_mul, lattice_down (W n nA) (refMode n nA) (fun k hk => W_off_parity n nA k (by omega))]

theorem cum2_mk (n' nA' M : ℤ) (pRU pLU : List ℚ) (pN : ℚ) (n0 n1 : ℤ) :
    Exact.LeveneHaldane_cumulativeProbability_2 0 (LHDist.mk n' nA' M pRU pLU pN) n0 n1 =
      (if ((decide (n0 ≥ n1) || decide (n0 ≥ nA')) || decide (n1 < imod nA' 2)) then 0
       else if decide (n0 ≥ M) then
         sumL ((slice pRU (idiv (n0 - M) 2 + 1) (idiv (n1 - M) 2 + 1)).takeWhile
           (fun x => decide (x > idx pRU (idiv (n0 - M) 2 + 1) * (0 * (1 / 10000000000000000))))) / pN
       else if decide (n1 < M) then
         sumL ((slice pLU (idiv (M - n1 + 1) 2) (idiv (M - n0 + 1) 2)).takeWhile
           (fun x => decide (x > idx pLU (idiv (M - n1 + 1) 2) * (0 * (1 / 10000000000000000))))) / pN
       else
         (sumL ((slice pLU 1 (idiv (M - n0 + 1) 2)).takeWhile (fun x => decide (x > 0 * (1 / 10000000000000000)))) +
          sumL ((slice pRU 0 (idiv (n1 - M) 2 + 1)).takeWhile (fun x => decide (x > 0 * (1 / 10000000000000000))))) / pN) := rfl

theorem sumRange_zero (lo hi : ℤ) (f : ℤ → ℚ) (h : ∀ k, lo ≤ k → k ≤ hi → f k = 0) : sumRange lo hi f = 0 := by
  rw [sumRange_congr lo hi f (fun _ => 0) h, sumRange_eq]; simp

theorem sumRange_trim_lo (lo hi : ℤ) (f : ℤ → ℚ) (h : f lo = 0) : sumRange lo hi f = sumRange (lo + 1) hi f := by
  by_cases hl : lo ≤ hi
  · rw [sumRange_first lo hi f hl, h, zero_add]
  · rw [sumRange_empty _ _ _ (by omega), sumRange_empty _ _ _ (by omega)]

theorem sumRange_trim_hi (lo hi : ℤ) (f : ℤ → ℚ) (h : f (hi + 1) = 0) : sumRange lo (hi + 1) f = sumRange lo hi f := by
  by_cases hl : lo ≤ hi + 1
  · rw [sumRange_succ lo hi f hl, h, add_zero]
  · rw [sumRange_empty _ _ _ (by omega), sumRange_empty _ _ _ (by omega)]

/-- `cumulativeProbability(n0, n1)` of the exact model is `Σ_{n0 < k ≤ n1} W k` over the normaliser — for ALL integers `n0`, `n1` -/
theorem cum2_refDist (n nA : ℕ) (h : nA ≤ n) (n0 n1 : ℤ) :
    Exact.LeveneHaldane_cumulativeProbability_2 0 (refDist' n nA) n0 n1 =
      sumRange (n0 + 1) n1 (W n nA) / (W n nA (refMode n nA) * T n nA) := by
  have hs := refMode_supp n nA h
  unfold lhSupp at hs
  have hpos := W_mode_pos n nA h
  have hT := T_pos n nA h
  set M := refMode n nA with hMdef
  unfold refDist'
  rw [cum2_mk, imod_two_nat]
  simp only [zero_mul, mul_zero]
  by_cases hg : n0 ≥ n1 ∨ n0 ≥ (nA : ℤ) ∨ n1 < (nA : ℤ) % 2
  · have : ((decide (n0 ≥ n1) || decide (n0 ≥ (nA : ℤ))) || decide (n1 < (nA : ℤ) % 2)) = true := by simp; omega
    rw [this]; simp only [if_true]
    have hz : sumRange (n0 + 1) n1 (W n nA) = 0 :=
      sumRange_zero (n0 + 1) n1 (W n nA) (fun k hk1 hk2 => lhWeight_off nA (2 * n - nA) k (by unfold lhSupp; omega))
    rw [hz, zero_div]
  · have : ((decide (n0 ≥ n1) || decide (n0 ≥ (nA : ℤ))) || decide (n1 < (nA : ℤ) % 2)) = false := by simp; omega
    rw [this]; simp only [Bool.false_eq_true, if_false]
    by_cases h1 : n0 ≥ M
    · have : decide (n0 ≥ M) = true := by simpa using h1
      rw [this]; simp only [if_true]
      rw [sliceR_sum n nA h, div_div, idiv_two_nonneg _ (by omega), idiv_two_nonneg _ (by omega)]
      congr 1
      have ea : (((n0 - M) / 2 + 1).toNat : ℤ) = (n0 - M) / 2 + 1 := by omega
      have eb : (((n1 - M) / 2 + 1).toNat : ℤ) = (n1 - M) / 2 + 1 := by omega
      rw [ea, eb]
      -- align the two ends with the lattice
      have lo : sumRange (n0 + 1) n1 (W n nA) = sumRange (M + 2 * ((n0 - M) / 2 + 1)) n1 (W n nA) := by
        by_cases hp : (n0 - M) % 2 = 0
        · rw [sumRange_trim_lo _ _ _ (W_off_parity n nA (n0 + 1) (by omega))]; congr 1; omega
        · congr 1; omega
      have hi : sumRange (M + 2 * ((n0 - M) / 2 + 1)) n1 (W n nA) = sumRange (M + 2 * ((n0 - M) / 2 + 1)) (M + 2 * ((n1 - M) / 2 + 1) - 2) (W n nA) := by
        by_cases hp : (n1 - M) % 2 = 0
        · congr 1; omega
        · have : n1 = (M + 2 * ((n1 - M) / 2 + 1) - 2) + 1 := by omega
          conv_lhs => rw [this]
          rw [sumRange_trim_hi _ _ _ (W_off_parity n nA _ (by omega))]
      rw [lo, hi]
    · have : decide (n0 ≥ M) = false := by simpa using h1
      rw [this]; simp only [Bool.false_eq_true, if_false]
      by_cases h2 : n1 < M
      · have : decide (n1 < M) = true := by simpa using h2
        rw [this]; simp only [if_true]
        rw [sliceL_sum n nA h, div_div, idiv_two_nonneg _ (by omega), idiv_two_nonneg _ (by omega)]
        congr 1
        have ea : (((M - n1 + 1) / 2).toNat : ℤ) = (M - n1 + 1) / 2 := by omega
        have eb : (((M - n0 + 1) / 2).toNat : ℤ) = (M - n0 + 1) / 2 := by omega
        rw [ea, eb]
        have lo : sumRange (n0 + 1) n1 (W n nA) = sumRange (M - 2 * ((M - n0 + 1) / 2) + 2) n1 (W n nA) := by
          by_cases hp : (M - n0) % 2 = 0
          · rw [sumRange_trim_lo _ _ _ (W_off_parity n nA (n0 + 1) (by omega))]; congr 1; omega
          · congr 1; omega
        have hi : sumRange (M - 2 * ((M - n0 + 1) / 2) + 2) n1 (W n nA) = sumRange (M - 2 * ((M - n0 + 1) / 2) + 2) (M - 2 * ((M - n1 + 1) / 2)) (W n nA) := by
          by_cases hp : (M - n1) % 2 = 0
          · congr 1; omega
          · have : n1 = (M - 2 * ((M - n1 + 1) / 2)) + 1 := by omega
            conv_lhs => rw [this]
            rw [sumRange_trim_hi _ _ _ (W_off_parity n nA _ (by omega))]
        rw [lo, hi]
      · have : decide (n1 < M) = false := by simpa using h2
        rw [this]; simp only [Bool.false_eq_true, if_false]
        rw [sliceL_sum n nA h, sliceR_sum n nA h, ← add_div, div_div, idiv_two_nonneg _ (by omega), idiv_two_nonneg _ (by omega)]
        congr 1
        have eb : (((M - n0 + 1) / 2).toNat : ℤ) = (M - n0 + 1) / 2 := by omega
        have ec : (((n1 - M) / 2 + 1).toNat : ℤ) = (n1 - M) / 2 + 1 := by omega
        rw [eb, ec]
        simp only [Int.toNat_one, Int.toNat_zero, Nat.cast_one, Nat.cast_zero, mul_one, mul_zero, add_zero]
        -- Σ_{n0 < k ≤ n1} = Σ_{n0 < k ≤ M-2} + W(M-1) + Σ_{M ≤ k ≤ n1}
        have hsplit := sumRange_split (n0 + 1) (M - 1) n1 (W n nA) (by omega) (by omega)
        have e1 : M - 1 + 1 = M := by ring
        rw [e1] at hsplit
        have hmid : sumRange (n0 + 1) (M - 1) (W n nA) = sumRange (n0 + 1) (M - 2) (W n nA) := by
          have : M - 1 = (M - 2) + 1 := by ring
          rw [this, sumRange_trim_hi _ _ _ (W_off_parity n nA _ (by omega))]
        have lo : sumRange (n0 + 1) (M - 2) (W n nA) = sumRange (M - 2 * ((M - n0 + 1) / 2) + 2) (M - 2) (W n nA) := by
          by_cases hp : (M - n0) % 2 = 0
          · rw [sumRange_trim_lo _ _ _ (W_off_parity n nA (n0 + 1) (by omega))]; congr 1; omega
          · congr 1; omega
        have hi : sumRange M n1 (W n nA) = sumRange M (M + 2 * ((n1 - M) / 2 + 1) - 2) (W n nA) := by
          by_cases hp : (n1 - M) % 2 = 0
          · congr 1; omega
          · have : n1 = (M + 2 * ((n1 - M) / 2 + 1) - 2) + 1 := by omega
            conv_lhs => rw [this]
            rw [sumRange_trim_hi _ _ _ (W_off_parity n nA _ (by omega))]
        rw [hsplit, hmid, lo, hi]

/-! ## the tolerance comparisons at τ = 0 are the exact comparisons -/

theorem absQ_nonneg (a : ℚ) : 0 ≤ absQ a := by unfold absQ; split <;> linarith
theorem absQ_eq_zero (a : ℚ) : absQ a ≤ 0 ↔ a = 0 := by
  unfold absQ; split
  · constructor <;> intro h <;> linarith
  · constructor <;> intro h <;> linarith

theorem D_epsilon_zero (a b c : ℚ) : Exact.utils_D_epsilon 0 a b (0 * c) = 0 := by
  unfold Exact.utils_D_epsilon; simp

theorem D_eq_zero (a b c : ℚ) : Exact.utils_D_eq 0 a b (0 * c) = decide (a = b) := by
  unfold Exact.utils_D_eq
  rw [D_epsilon_zero]
  by_cases h : a = b
  · simp [h]
  · have : ¬ absQ (a - b) ≤ 0 := by rw [absQ_eq_zero]; intro h'; exact h (by linarith)
    simp [h, this]

theorem D_gt_zero (a b c : ℚ) : Exact.utils_D_gt 0 a b (0 * c) = decide (a > b) := by
  unfold Exact.utils_D_gt
  rw [D_epsilon_zero]
  by_cases h : a = b
  · simp [h]
  · by_cases h2 : a > b
    · have : a - b > 0 := by linarith
      simp [h, h2, this]
    · have : ¬ a - b > 0 := by intro h'; exact h2 (by linarith)
      simp [h, h2, this]

theorem D_eq_zero' (a b : ℚ) : Exact.utils_D_eq 0 a b 0 = decide (a = b) := by
  have := D_eq_zero a b 1; rwa [zero_mul] at this
theorem D_gt_zero' (a b : ℚ) : Exact.utils_D_gt 0 a b 0 = decide (a > b) := by
  have := D_gt_zero a b 1; rwa [zero_mul] at this

theorem defaultTolerance_zero : Exact.utils_defaultTolerance 0 = 0 * (1 / 1000000) := rfl

/-- `mpU` of `exactMidP` at τ = 0: skip the entries above `t`, half of the entries equal to `t`, all of the (positive) entries below -/
def mpU0 (t : ℚ) (s : List ℚ) : ℚ :=
  let pr := List.span (fun x => decide (x = t)) (List.dropWhile (fun x => decide (x > t)) s)
  1 / 2 * sumL pr.1 + sumL (List.takeWhile (fun x => decide (x > 0)) pr.2)

theorem exactMidP_mk (n' nA' M : ℤ) (pRU pLU : List ℚ) (pN : ℚ) (k : ℤ) :
    Exact.LeveneHaldane_exactMidP 0 (LHDist.mk n' nA' M pRU pLU pN) k =
      (if decide (Exact.LeveneHaldane_probability 0 (LHDist.mk n' nA' M pRU pLU pN) k * pN = 0) then 0
       else (mpU0 (Exact.LeveneHaldane_probability 0 (LHDist.mk n' nA' M pRU pLU pN) k * pN) pLU.tail +
             mpU0 (Exact.LeveneHaldane_probability 0 (LHDist.mk n' nA' M pRU pLU pN) k * pN) pRU) / pN) := by
  unfold Exact.LeveneHaldane_exactMidP mpU0
  simp only [defaultTolerance_zero, mul_zero, zero_mul, D_eq_zero', D_gt_zero']

/-- contribution of an outcome of (relative) probability `x` to the two-sided mid-p of an outcome of probability `t` -/
def midW (t x : ℚ) : ℚ := if x < t then x else if x = t then 1 / 2 * x else 0

theorem midW_nonneg (t x : ℚ) (hx : 0 ≤ x) : 0 ≤ midW t x := by
  unfold midW; split
  · exact hx
  · split
    · linarith
    · exact le_refl _

theorem midW_le (t x : ℚ) (hx : 0 ≤ x) : midW t x ≤ x := by
  unfold midW; split
  · exact le_refl _
  · split
    · linarith
    · exact hx

/-- below the threshold everything counts fully -/
theorem sum_midW_below (t : ℚ) (l : List ℚ) (h : ∀ y ∈ l, y < t) : (l.map (midW t)).sum = l.sum := by
  induction l with
  | nil => rfl
  | cons x xs ih =>
    rw [List.map_cons, List.sum_cons, List.sum_cons, ih (fun y hy => h y (List.mem_cons_of_mem _ hy))]
    unfold midW; rw [if_pos (h x List.mem_cons_self)]

theorem span_part (t : ℚ) (l : List ℚ) (hn : ∀ x ∈ l, 0 ≤ x) (hs : l.Pairwise (· ≥ ·)) (hle : ∀ x ∈ l, x ≤ t) :
    1 / 2 * (List.span (fun x => decide (x = t)) l).1.sum + (List.takeWhile (fun x => decide (x > 0)) (List.span (fun x => decide (x = t)) l).2).sum
      = (l.map (midW t)).sum := by
  induction l with
  | nil => rw [List.span_eq_takeWhile_dropWhile]; simp
  | cons x xs ih =>
    have hs' := (List.pairwise_cons.mp hs)
    by_cases hx : x = t
    · have : List.span (fun x => decide (x = t)) (x :: xs) = (x :: (List.span (fun x => decide (x = t)) xs).1, (List.span (fun x => decide (x = t)) xs).2) := by
        rw [List.span_eq_takeWhile_dropWhile, List.span_eq_takeWhile_dropWhile, List.takeWhile_cons_of_pos (by simpa using hx), List.dropWhile_cons_of_pos (by simpa using hx)]
      rw [this]
      simp only [List.sum_cons, List.map_cons]
      have ih' := ih (fun y hy => hn y (List.mem_cons_of_mem _ hy)) hs'.2 (fun y hy => hle y (List.mem_cons_of_mem _ hy))
      have hm : midW t x = 1 / 2 * x := by unfold midW; rw [if_neg (by rw [hx]; exact lt_irrefl _), if_pos hx]
      rw [hm, ← ih']; ring
    · have hlt : x < t := lt_of_le_of_ne (hle x List.mem_cons_self) hx
      have : List.span (fun x => decide (x = t)) (x :: xs) = ([], x :: xs) := by
        rw [List.span_eq_takeWhile_dropWhile, List.takeWhile_cons_of_neg (by simpa using hx), List.dropWhile_cons_of_neg (by simpa using hx)]
      rw [this]
      simp only [List.sum_nil, mul_zero, zero_add]
      rw [sum_takeWhile_pos _ hn hs, sum_midW_below t (x :: xs)]
      intro y hy
      rcases List.mem_cons.mp hy with rfl | hy'
      · exact hlt
      · exact lt_of_le_of_lt (hs'.1 y hy') hlt

/-- `mpU` on a non-negative non-increasing stream -/
theorem mpU0_eq (t : ℚ) (l : List ℚ) (hn : ∀ x ∈ l, 0 ≤ x) (hs : l.Pairwise (· ≥ ·)) : mpU0 t l = (l.map (midW t)).sum := by
  unfold mpU0
  simp only [sumL_eq_sum]
  induction l with
  | nil => rw [List.span_eq_takeWhile_dropWhile]; simp
  | cons x xs ih =>
    have hs' := (List.pairwise_cons.mp hs)
    by_cases hx : x > t
    · rw [List.dropWhile_cons_of_pos (by simpa using hx), ih (fun y hy => hn y (List.mem_cons_of_mem _ hy)) hs'.2, List.map_cons, List.sum_cons]
      have : midW t x = 0 := by
        unfold midW; rw [if_neg (by linarith), if_neg (by intro h; rw [h] at hx; exact lt_irrefl _ hx)]
      rw [this, zero_add]
    · rw [List.dropWhile_cons_of_neg (by simpa using hx)]
      apply span_part t (x :: xs) hn hs
      intro y hy
      rcases List.mem_cons.mp hy with rfl | hy'
      · exact not_lt.mp hx
      · exact le_trans (hs'.1 y hy') (not_lt.mp hx)

theorem midW_zero (t : ℚ) : midW t 0 = 0 := by
  unfold midW; split
  · rfl
  · split <;> simp

theorem list_sum_map_map (f : ℚ → ℚ) (g : ℕ → ℚ) (l : List ℕ) : ((l.map g).map f) = l.map (fun j => f (g j)) := by
  rw [List.map_map]; rfl

/-- `exactMidP(k)` of the exact model: outcomes less probable than `k` in full, equally probable ones by half, over the normaliser -/
theorem exactMidP_refDist (n nA : ℕ) (h : nA ≤ n) (k : ℤ) :
    Exact.LeveneHaldane_exactMidP 0 (refDist' n nA) k =
      sumRange 0 nA (fun i => midW (W n nA k / W n nA (refMode n nA)) (W n nA i / W n nA (refMode n nA))) / T n nA := by
  have hs := refMode_supp n nA h
  unfold lhSupp at hs
  have hpos := W_mode_pos n nA h
  have hT := T_pos n nA h
  have hprob := probability_refDist n nA h k
  set M := refMode n nA with hMdef
  set t := W n nA k / W n nA M with ht
  set f : ℤ → ℚ := fun i => midW t (W n nA i / W n nA M) with hf
  have hfoff : ∀ i : ℤ, W n nA i = 0 → f i = 0 := by intro i hi; simp only [hf, hi, zero_div, midW_zero]
  unfold refDist' at hprob ⊢
  rw [exactMidP_mk, hprob]
  have hp0 : W n nA k / (W n nA M * T n nA) * T n nA = t := by
    rw [ht]; field_simp
  rw [hp0]
  by_cases hk0 : t = 0
  · -- k is not a possible outcome: every other outcome is more probable
    have : decide (t = 0) = true := by simpa using hk0
    rw [this]; simp only [if_true]
    have hz : sumRange 0 nA f = 0 := by
      apply sumRange_zero
      intro i _ _
      simp only [hf, hk0]
      unfold midW
      have hnn : 0 ≤ W n nA i / W n nA M := div_nonneg (W_nonneg n nA i) (le_of_lt hpos)
      rw [if_neg (not_lt.mpr hnn)]
      split
      · rename_i h0; rw [h0]; ring
      · rfl
    rw [hz, zero_div]
  · have : decide (t = 0) = false := by simpa using hk0
    rw [this]; simp only [Bool.false_eq_true, if_false]
    congr 1
    -- right stream
    have hR : mpU0 t ((List.range (lhFuel nA)).map (gR n nA)) = sumRange M nA f := by
      rw [mpU0_eq t _ (mem_map_range_nonneg _ (gR_nonneg n nA) _) (pairwise_map_range_antitone _ (gR_antitone n nA h) _),
        list_sum_map_map, list_sum_range, Finset.range_eq_Ico]
      have := lattice_up f M (fun i hi => hfoff i (W_off_parity n nA i (by omega))) 0 (lhFuel nA)
      simp only [Nat.cast_zero, mul_zero, add_zero] at this
      have e : ∀ j : ℕ, midW t (gR n nA j) = f (M + 2 * (j : ℤ)) := fun j => rfl
      simp only [e]
      rw [this]
      have hge : (nA : ℤ) ≤ M + 2 * (lhFuel nA : ℤ) - 2 := by unfold lhFuel; omega
      rw [sumRange_split M nA _ f (by omega) hge, sumRange_zero (nA + 1) _ f (fun i hi _ => hfoff i (W_off_hi n nA i (by omega))), add_zero]
    -- left stream without the mode
    have hL : mpU0 t ((List.range (lhFuel nA)).map (gL n nA)).tail = sumRange 0 (M - 1) f := by
      have htail : ((List.range (lhFuel nA)).map (gL n nA)).tail = (List.range' 1 (lhFuel nA - 1)).map (gL n nA) := by
        rw [← List.map_tail, List.tail_range]
      rw [htail]
      have hpw : ((List.range' 1 (lhFuel nA - 1)).map (gL n nA)).Pairwise (· ≥ ·) := by
        rw [List.pairwise_map]
        exact List.Pairwise.imp (fun {x y} hxy => gL_antitone n nA h (le_of_lt hxy)) (List.pairwise_lt_range')
      have hnn : ∀ x ∈ (List.range' 1 (lhFuel nA - 1)).map (gL n nA), 0 ≤ x := by
        intro x hx; obtain ⟨j, _, rfl⟩ := List.mem_map.mp hx; exact gL_nonneg n nA j
      rw [mpU0_eq t _ hnn hpw, list_sum_map_map, sum_map_range']
      have e : ∀ j : ℕ, midW t (gL n nA j) = f (M - 2 * (j : ℤ)) := fun j => rfl
      simp only [e]
      rw [lattice_down f M (fun i hi => hfoff i (W_off_parity n nA i (by omega))) 1 (1 + (lhFuel nA - 1))]
      have hF := lhFuel_pos nA
      have e1 : M - 2 * ((1 : ℕ) : ℤ) = (M - 2) := by push_cast; ring
      rw [e1]
      have hlo : M - 2 * ((1 + (lhFuel (nA : ℤ) - 1) : ℕ) : ℤ) + 2 ≤ 0 := by unfold lhFuel; omega
      by_cases hM2 : 0 ≤ M - 2
      · rw [sumRange_split _ (-1) (M - 2) f (by omega) (by omega), sumRange_zero _ (-1) f (fun i _ hi => hfoff i (W_off_lo n nA i (by omega))), zero_add]
        have : M - 1 = (M - 2) + 1 := by ring
        rw [show (-1 : ℤ) + 1 = 0 by norm_num, this, sumRange_trim_hi _ _ _ (hfoff _ (W_off_parity n nA _ (by omega)))]
      · rw [sumRange_zero _ (M - 2) f (fun i _ hi => hfoff i (W_off_lo n nA i (by omega)))]
        symm
        apply sumRange_zero
        intro i hi0 hi1
        have : i = 0 ∧ M = 1 ∨ M = 0 := by omega
        rcases this with ⟨rfl, hM1⟩ | hM0
        · exact hfoff 0 (W_off_parity n nA 0 (by omega))
        · omega
    rw [hL, hR]
    have := sumRange_split 0 (M - 1) nA f (by omega) (by omega)
    rw [show M - 1 + 1 = M by ring] at this
    rw [this]

/-- `(1+X)^(2n) = (X(X+2) + 1)^n`, coefficient of `X^m`: choose the `a` individuals carrying the allele, then the `m - a` of them
carrying it twice; the remaining `2a - m` carriers are heterozygous, each in 2 ways -/
theorem trinomial (n m : ℕ) :
    ∑ a ∈ range (n + 1), (if a ≤ m then n.choose a * (2 ^ (a - (m - a)) * a.choose (m - a)) else 0) = (2 * n).choose m := by
  open Polynomial in
  have hsq : ((X : ℕ[X]) + 1) ^ 2 = X * (X + C 2) + 1 := by
    simp only [map_ofNat]; ring
  open Polynomial in
  have h1 : (((X : ℕ[X]) + 1) ^ (2 * n)).coeff m = (2 * n).choose m := by
    rw [Polynomial.coeff_X_add_one_pow]; simp
  rw [← h1, pow_mul, hsq, add_pow]
  simp only [one_pow, mul_one, mul_pow, Polynomial.finsetSum_coeff]
  apply Finset.sum_congr rfl
  intro a _
  open Polynomial in
  rw [Polynomial.coeff_mul_natCast, mul_comm (X ^ a : ℕ[X]), Polynomial.coeff_mul_X_pow']
  split
  · rw [Polynomial.coeff_X_add_C_pow]; simp; ring
  · simp

theorem trinomial' (n m : ℕ) (hm : m ≤ n) :
    ∑ a ∈ range (m + 1), n.choose a * (2 ^ (a - (m - a)) * a.choose (m - a)) = (2 * n).choose m := by
  rw [← trinomial n m, ← Finset.sum_filter]
  congr 1
  ext a; simp only [Finset.mem_filter, Finset.mem_range]; omega

/-- `n!` times the weight of the outcome with `a` carriers (`2a - nA` heterozygotes) -/
theorem W_carrier (n nA a : ℕ) (h : nA ≤ n) (ha : a ≤ nA) :
    (n.factorial : ℚ) * W n nA (-(nA : ℤ) + 2 * (a : ℤ)) = ((n.choose a * (2 ^ (a - (nA - a)) * a.choose (nA - a)) : ℕ) : ℚ) := by
  by_cases h2 : nA ≤ 2 * a
  · obtain ⟨k, hk⟩ : ∃ k : ℕ, 2 * a = nA + k := ⟨2 * a - nA, by omega⟩
    have e : (-(nA : ℤ) + 2 * (a : ℤ)) = (k : ℤ) := by omega
    unfold W
    rw [e, lhWeight_on nA (2 * n - nA) k (by omega) (by omega)]
    have e1 : (nA - k) / 2 = nA - a := by omega
    have e2 : (2 * n - nA - k) / 2 = n - a := by omega
    have e3 : a - (nA - a) = k := by omega
    rw [e1, e2, e3]
    unfold wN
    push_cast
    rw [Nat.cast_choose ℚ (show a ≤ n by omega), Nat.cast_choose ℚ (show nA - a ≤ a by omega)]
    have e4 : a - (nA - a) = k := e3
    rw [e4]
    have h1 : ((n - a).factorial : ℚ) ≠ 0 := by positivity
    have h2' : ((nA - a).factorial : ℚ) ≠ 0 := by positivity
    have h3 : (k.factorial : ℚ) ≠ 0 := by positivity
    have h4 : (a.factorial : ℚ) ≠ 0 := by positivity
    field_simp
  · have hW : W n nA (-(nA : ℤ) + 2 * (a : ℤ)) = 0 := W_off_lo n nA _ (by omega)
    rw [hW, mul_zero, Nat.choose_eq_zero_of_lt (show a < nA - a by omega)]
    simp

/-- the normaliser in closed form: `S · n! = C(2n, nA)` -/
theorem S_closed (n nA : ℕ) (h : nA ≤ n) : (n.factorial : ℚ) * S n nA = ((2 * n).choose nA : ℚ) := by
  have hS : S n nA = sumRange (-(nA : ℤ)) nA (W n nA) := by
    have h0 : S n nA = sumRange 0 nA (W n nA) := by
      rw [sumRange_eq]; unfold S Wn
      have : ((nA : ℤ) + 1 - 0).toNat = nA + 1 := by omega
      rw [this]; simp
    rw [h0]
    by_cases hz : nA = 0
    · subst hz; simp
    · rw [sumRange_split (-(nA : ℤ)) (-1) nA (W n nA) (by omega) (by omega),
        sumRange_zero _ (-1) (W n nA) (fun i _ hi => W_off_lo n nA i (by omega)), zero_add]
      norm_num
  have hlat := lattice_up (W n nA) (-(nA : ℤ)) (fun k hk => W_off_parity n nA k (by omega)) 0 (nA + 1)
  simp only [Nat.cast_zero, mul_zero, add_zero] at hlat
  have e : -(nA : ℤ) + 2 * ((nA + 1 : ℕ) : ℤ) - 2 = nA := by push_cast; ring
  rw [e] at hlat
  rw [hS, ← hlat, ← Finset.range_eq_Ico, Finset.mul_sum, ← trinomial' n nA h]
  push_cast
  apply Finset.sum_congr rfl
  intro a ha
  rw [Finset.mem_range] at ha
  rw [W_carrier n nA a h (by omega)]
  push_cast; ring

/-- the normalised weight is the textbook closed form -/
theorem pmf_closed (n nA : ℕ) (h : nA ≤ n) (k : ℤ) : W n nA k / S n nA = lhPmf n nA k := by
  have hS := S_closed n nA h
  have hfac : ((2 * n).choose nA : ℚ) * (nA.factorial : ℚ) * ((2 * n - nA).factorial : ℚ) = ((2 * n).factorial : ℚ) := by
    have := Nat.choose_mul_factorial_mul_factorial (show nA ≤ 2 * n by omega)
    exact_mod_cast this
  unfold lhPmf
  simp only [fact_eq]
  have hn : (n.factorial : ℚ) ≠ 0 := by positivity
  have h2n : ((2 * n).factorial : ℚ) ≠ 0 := by positivity
  have hSpos : S n nA ≠ 0 := by
    intro h0; rw [h0, mul_zero] at hS
    have : (0 : ℚ) < ((2 * n).choose nA : ℚ) := by exact_mod_cast Nat.choose_pos (show nA ≤ 2 * n by omega)
    linarith
  show lhWeight nA (2 * n - nA) k / S n nA = _
  rw [div_eq_div_iff hSpos h2n, ← hfac, ← hS]
  ring

theorem S_eq_mul (n nA : ℕ) (h : nA ≤ n) : W n nA (refMode n nA) * T n nA = S n nA := by
  rw [T_eq n nA h, mul_div_cancel₀ _ (ne_of_gt (W_mode_pos n nA h))]

theorem S_pos (n nA : ℕ) (h : nA ≤ n) : 0 < S n nA := by
  rw [← S_eq_mul n nA h]; exact mul_pos (W_mode_pos n nA h) (T_pos n nA h)

/-- `probability(k) = P(k)` (closed form), every integer `k` -/
theorem probability_eq_pmf (n nA : ℕ) (h : nA ≤ n) (k : ℤ) :
    Exact.LeveneHaldane_probability 0 (refDist' n nA) k = lhPmf n nA k := by
  rw [probability_refDist n nA h k, S_eq_mul n nA h, pmf_closed n nA h]

theorem cum2_eq_pmf (n nA : ℕ) (h : nA ≤ n) (n0 n1 : ℤ) :
    Exact.LeveneHaldane_cumulativeProbability_2 0 (refDist' n nA) n0 n1 = sumRange (n0 + 1) n1 (lhPmf n nA) := by
  rw [cum2_refDist n nA h, S_eq_mul n nA h, ← sumRange_div]
  exact sumRange_congr _ _ _ _ (fun k _ _ => pmf_closed n nA h k)

theorem lhPmf_nonneg (n nA : ℕ) (k : ℤ) : 0 ≤ lhPmf n nA k := by
  unfold lhPmf
  have := lhWeight_nonneg nA (2 * n - nA) k
  simp only [fact_eq]
  positivity

theorem lhPmf_sum_one (n nA : ℕ) (h : nA ≤ n) : sumRange 0 nA (lhPmf n nA) = 1 := by
  have : sumRange 0 nA (lhPmf n nA) = sumRange 0 nA (fun k => W n nA k / S n nA) :=
    sumRange_congr _ _ _ _ (fun k _ _ => (pmf_closed n nA h k).symm)
  rw [this, sumRange_div]
  have h0 : sumRange 0 nA (W n nA) = S n nA := by
    rw [sumRange_eq]; unfold S Wn
    have : ((nA : ℤ) + 1 - 0).toNat = nA + 1 := by omega
    rw [this]; simp
  rw [h0]; exact div_self (ne_of_gt (S_pos n nA h))

theorem lhPmf_off (n nA : ℕ) (k : ℤ) (hk : ¬ lhSupp nA k) : lhPmf n nA k = 0 := by
  unfold lhPmf; rw [lhWeight_off _ _ _ hk]; simp

/-- a sub-range of the support carries at most the total mass -/
theorem sumRange_pmf_le_one (n nA : ℕ) (h : nA ≤ n) (lo hi : ℤ) : sumRange lo hi (lhPmf n nA) ≤ 1 := by
  rw [← lhPmf_sum_one n nA h, sumRange_eq, sumRange_eq]
  have e : ((nA : ℤ) + 1 - 0).toNat = nA + 1 := by omega
  rw [e]
  -- inject the index set {lo + i} ∩ [0, nA] into range (nA + 1); the rest carries no mass
  have hsplit : ∑ i ∈ range (hi + 1 - lo).toNat, lhPmf n nA (lo + (i : ℤ))
      = ∑ i ∈ (range (hi + 1 - lo).toNat).filter (fun i : ℕ => 0 ≤ lo + (i : ℤ) ∧ lo + (i : ℤ) ≤ nA), lhPmf n nA (lo + (i : ℤ)) := by
    symm
    apply Finset.sum_filter_of_ne
    intro i _ hne
    by_contra hc
    exact hne (lhPmf_off n nA _ (by unfold lhSupp; omega))
  rw [hsplit]
  have himg : ∑ i ∈ (range (hi + 1 - lo).toNat).filter (fun i : ℕ => 0 ≤ lo + (i : ℤ) ∧ lo + (i : ℤ) ≤ nA), lhPmf n nA (lo + (i : ℤ))
      = ∑ j ∈ ((range (hi + 1 - lo).toNat).filter (fun i : ℕ => 0 ≤ lo + (i : ℤ) ∧ lo + (i : ℤ) ≤ nA)).image (fun i : ℕ => (lo + (i : ℤ)).toNat), lhPmf n nA (0 + (j : ℤ)) := by
    rw [Finset.sum_image]
    · apply Finset.sum_congr rfl
      intro i hi'
      rw [Finset.mem_filter] at hi'
      congr 1; omega
    · intro i hi' j hj' hij
      rw [Finset.mem_coe, Finset.mem_filter] at hi' hj'
      dsimp only at hij
      omega
  rw [himg]
  apply Finset.sum_le_sum_of_subset_of_nonneg
  · intro j hj
    rw [Finset.mem_image] at hj
    obtain ⟨i, hi', rfl⟩ := hj
    rw [Finset.mem_filter] at hi'
    rw [Finset.mem_range]; omega
  · intro j _ _; exact lhPmf_nonneg n nA _

theorem midW_scale (c t x : ℚ) (hc : 0 < c) : midW (c * t) (c * x) = c * midW t x := by
  unfold midW
  by_cases h1 : x < t
  · rw [if_pos h1, if_pos (mul_lt_mul_of_pos_left h1 hc)]
  · rw [if_neg h1, if_neg (by intro h'; exact h1 (lt_of_mul_lt_mul_left h' (le_of_lt hc)))]
    by_cases h2 : x = t
    · rw [if_pos h2, if_pos (by rw [h2])]; ring
    · rw [if_neg h2, if_neg (by intro h'; exact h2 (mul_left_cancel₀ (ne_of_gt hc) h')), mul_zero]

theorem exactMidP_eq_spec (n nA : ℕ) (h : nA ≤ n) (k : ℤ) :
    Exact.LeveneHaldane_exactMidP 0 (refDist' n nA) k = lhExactMidP n nA k := by
  have hpos := W_mode_pos n nA h
  have hT := T_pos n nA h
  rw [exactMidP_refDist n nA h k, ← sumRange_div]
  unfold lhExactMidP
  apply sumRange_congr
  intro i _ _
  have hc : (0 : ℚ) < 1 / T n nA := by positivity
  have e : ∀ j : ℤ, lhPmf n nA j = (1 / T n nA) * (W n nA j / W n nA (refMode n nA)) := by
    intro j
    rw [← pmf_closed n nA h j, ← S_eq_mul n nA h]
    field_simp
  rw [e i, e k]
  have := midW_scale (1 / T n nA) (W n nA k / W n nA (refMode n nA)) (W n nA i / W n nA (refMode n nA)) hc
  unfold midW at this ⊢
  rw [this]
  ring

theorem sumRange_le_sumRange (lo hi : ℤ) (f g : ℤ → ℚ) (h : ∀ k, f k ≤ g k) : sumRange lo hi f ≤ sumRange lo hi g := by
  rw [sumRange_eq, sumRange_eq]; exact Finset.sum_le_sum (fun i _ => h _)

theorem survival_mk (n' nA' M : ℤ) (pRU pLU : List ℚ) (pN : ℚ) (n0 : ℤ) :
    Exact.LeveneHaldane_survivalFunction 0 (LHDist.mk n' nA' M pRU pLU pN) n0 =
      Exact.LeveneHaldane_cumulativeProbability_2 0 (LHDist.mk n' nA' M pRU pLU pN) n0 nA' := rfl

theorem survival_eq_spec (n nA : ℕ) (h : nA ≤ n) (k : ℤ) :
    Exact.LeveneHaldane_survivalFunction 0 (refDist' n nA) k = lhSf n nA k := by
  unfold refDist'
  rw [survival_mk]
  exact cum2_eq_pmf n nA h k nA

theorem cum1_eq_spec (n nA : ℕ) (h : nA ≤ n) (k : ℤ) :
    Exact.LeveneHaldane_cumulativeProbability_1 0 (refDist' n nA) k = lhCdf n nA k := by
  unfold Exact.LeveneHaldane_cumulativeProbability_1
  rw [cum2_eq_pmf n nA h]
  unfold lhCdf; norm_num

theorem rightMidP_eq_spec (n nA : ℕ) (h : nA ≤ n) (k : ℤ) :
    Exact.LeveneHaldane_rightMidP 0 (refDist' n nA) k = lhRightMidP n nA k := by
  unfold Exact.LeveneHaldane_rightMidP
  rw [survival_eq_spec n nA h, probability_eq_pmf n nA h]; rfl

theorem leftMidP_eq_spec (n nA : ℕ) (h : nA ≤ n) (k : ℤ) :
    Exact.LeveneHaldane_leftMidP 0 (refDist' n nA) k = lhLeftMidP n nA k := by
  unfold Exact.LeveneHaldane_leftMidP
  rw [cum1_eq_spec n nA h, probability_eq_pmf n nA h]; rfl

/-! ### every p-value of the distribution lies in [0, 1] -/

theorem lhSf_unit (n nA : ℕ) (h : nA ≤ n) (k : ℤ) : 0 ≤ lhSf n nA k ∧ lhSf n nA k ≤ 1 :=
  ⟨sumRange_nonneg _ _ _ (lhPmf_nonneg n nA), sumRange_pmf_le_one n nA h _ _⟩

theorem lhCdf_unit (n nA : ℕ) (h : nA ≤ n) (k : ℤ) : 0 ≤ lhCdf n nA k ∧ lhCdf n nA k ≤ 1 :=
  ⟨sumRange_nonneg _ _ _ (lhPmf_nonneg n nA), sumRange_pmf_le_one n nA h _ _⟩

theorem lhRightMidP_unit (n nA : ℕ) (h : nA ≤ n) (k : ℤ) : 0 ≤ lhRightMidP n nA k ∧ lhRightMidP n nA k ≤ 1 := by
  have hp := lhPmf_nonneg n nA k
  have hs := (lhSf_unit n nA h k).1
  unfold lhRightMidP
  refine ⟨by linarith, ?_⟩
  unfold lhSf
  by_cases hk : k ≤ nA
  · have := sumRange_first k nA (lhPmf n nA) hk
    have h1 := sumRange_pmf_le_one n nA h k nA
    linarith
  · have : lhPmf n nA k = 0 := lhPmf_off n nA k (by unfold lhSupp; omega)
    rw [this, sumRange_empty _ _ _ (by omega)]; norm_num

theorem lhLeftMidP_unit (n nA : ℕ) (h : nA ≤ n) (k : ℤ) : 0 ≤ lhLeftMidP n nA k ∧ lhLeftMidP n nA k ≤ 1 := by
  have hp := lhPmf_nonneg n nA k
  have hc := lhCdf_unit n nA h k
  unfold lhLeftMidP
  refine ⟨?_, by linarith⟩
  unfold lhCdf
  by_cases hk : 0 ≤ k
  · have e : k = (k - 1) + 1 := by ring
    have := sumRange_succ 0 (k - 1) (lhPmf n nA) (by omega)
    rw [← e] at this
    have h1 := sumRange_nonneg 0 (k - 1) (lhPmf n nA) (lhPmf_nonneg n nA)
    linarith
  · have : lhPmf n nA k = 0 := lhPmf_off n nA k (by unfold lhSupp; omega)
    rw [this, sumRange_empty _ _ _ (by omega)]; norm_num

theorem lhExactMidP_unit (n nA : ℕ) (h : nA ≤ n) (k : ℤ) : 0 ≤ lhExactMidP n nA k ∧ lhExactMidP n nA k ≤ 1 := by
  unfold lhExactMidP
  constructor
  · apply sumRange_nonneg
    intro j
    have := midW_nonneg (lhPmf n nA k) (lhPmf n nA j) (lhPmf_nonneg n nA j)
    unfold midW at this; exact this
  · have hle := sumRange_le_sumRange 0 nA
      (fun j => if lhPmf n nA j < lhPmf n nA k then lhPmf n nA j else if lhPmf n nA j = lhPmf n nA k then 1 / 2 * lhPmf n nA j else 0)
      (lhPmf n nA) (fun j => by
        have := midW_le (lhPmf n nA k) (lhPmf n nA j) (lhPmf_nonneg n nA j)
        unfold midW at this; exact this)
    rw [lhPmf_sum_one n nA h] at hle
    exact hle

/-! ### hardyWeinbergTest -/

theorem hwe_nA_le (r h v : ℕ) : hweNA r h v ≤ hweN r h v := by unfold hweNA hweN; omega

theorem hwe_eval (r h v : ℕ) (os : Bool) :
    Exact.stats_hardyWeinbergTest 0 r h v os =
      Out.val [lhMean (hweN r h v) (hweNA r h v) / ((hweN r h v : ℕ) : ℚ),
        if os then lhRightMidP (hweN r h v) (hweNA r h v) h else lhExactMidP (hweN r h v) (hweNA r h v) h] := by
  have hle := hwe_nA_le r h v
  have e1 : (r : ℤ) + h + v = ((hweN r h v : ℕ) : ℤ) := by unfold hweN; push_cast; ring
  have e2 : (h : ℤ) + 2 * min (r : ℤ) (v : ℤ) = ((hweNA r h v : ℕ) : ℤ) := by unfold hweNA; push_cast; ring
  unfold Exact.stats_hardyWeinbergTest
  have hg : ((decide ((r : ℤ) < 0) || decide ((h : ℤ) < 0)) || decide ((v : ℤ) < 0)) = false := by simp
  simp only [hg, Bool.false_eq_true, if_false]
  rw [e1, e2]
  unfold Exact.LeveneHaldane_apply_2
  rw [apply_val _ _ hle, refDist_eq _ _ hle]
  simp only [Out.bind]
  rw [rightMidP_eq_spec _ _ hle, exactMidP_eq_spec _ _ hle]
  congr 2
  · unfold Exact.LeveneHaldane_getNumericalMean Exact.LeveneHaldane_nB refDist' lhMean
    simp only
    congr 1
    have hq : ((2 * hweN r h v - hweNA r h v : ℕ) : ℚ) = 2 * ((hweN r h v : ℕ) : ℚ) - ((hweNA r h v : ℕ) : ℚ) := by
      rw [Nat.cast_sub (by omega)]; push_cast; ring
    rw [hq]
    push_cast
    ring

end HailVerif.StatsProofs

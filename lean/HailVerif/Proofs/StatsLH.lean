import Mathlib.Tactic.Ring
import Mathlib.Tactic.Linarith
import Mathlib.Tactic.FieldSimp
import Mathlib.Tactic.NormNum
import Mathlib.Tactic.Positivity
import Mathlib.Data.Rat.Floor
import Mathlib.Data.Nat.Factorial.Basic
import Mathlib.Algebra.BigOperators.Group.List.Basic
import HailVerif.Model.StatsSpec
import HailVerif.Generated.ScalaStats
/-!
# Helper lemmas for C37 — Levene–Haldane part

The generated exact model (`Generated.ScalaStats.Exact`, τ = 0) against the closed forms of `Model/StatsSpec.lean`.
-/
open HailVerif.StatsLib HailVerif.StatsSpec HailVerif.Generated.ScalaStats

namespace HailVerif.StatsProofs

/-! ## generalities -/

theorem sumL_eq_sum (l : List ℚ) : sumL l = l.sum := by
  unfold sumL
  exact (List.sum_eq_foldl).symm

theorem fact_eq (n : ℕ) : fact n = n.factorial := by
  induction n with
  | zero => rfl
  | succ n ih => simp [fact, Nat.factorial_succ, ih]

/-- the fuel-bounded unfolding of a `LazyList` recurrence is the list of the first `F` terms of any sequence that satisfies
the recurrence -/
theorem unfold_eq_map {α : Type} (step : Int → α → Int × α) (ix : ℕ → Int) (g : ℕ → α)
    (h : ∀ j, step (ix j) (g j) = (ix (j + 1), g (j + 1))) (F : ℕ) :
    unfold step F (ix 0) (g 0) = (List.range F).map g := by
  induction F generalizing ix g with
  | zero => rfl
  | succ F ih =>
    rw [List.range_succ_eq_map, List.map_cons, List.map_map]
    unfold unfold
    rw [h 0]
    congr 1
    exact ih (fun j => ix (j + 1)) (fun j => g (j + 1)) (fun j => h (j + 1))

/-! ## the closed-form weight and its two recurrences -/

/-- `2^k / (a! k! b!)` -/
def wN (a k b : ℕ) : ℚ := (2 : ℚ) ^ k / ((a.factorial : ℚ) * (k.factorial : ℚ) * (b.factorial : ℚ))

theorem wN_pos (a k b : ℕ) : 0 < wN a k b := by unfold wN; positivity

theorem wN_step (a k b : ℕ) :
    wN a (k + 2) b * (((k : ℚ) + 2) * ((k : ℚ) + 1)) = wN (a + 1) k (b + 1) * ((2 * ((a : ℚ) + 1)) * (2 * ((b : ℚ) + 1))) := by
  unfold wN
  have h1 : ((k + 2).factorial : ℚ) = ((k : ℚ) + 2) * (((k : ℚ) + 1) * (k.factorial : ℚ)) := by
    rw [Nat.factorial_succ, Nat.factorial_succ]; push_cast; ring
  have h2 : ((a + 1).factorial : ℚ) = ((a : ℚ) + 1) * (a.factorial : ℚ) := by rw [Nat.factorial_succ]; push_cast; ring
  have h3 : ((b + 1).factorial : ℚ) = ((b : ℚ) + 1) * (b.factorial : ℚ) := by rw [Nat.factorial_succ]; push_cast; ring
  rw [h1, h2, h3]
  have ha : (a.factorial : ℚ) ≠ 0 := by positivity
  have hb : (b.factorial : ℚ) ≠ 0 := by positivity
  have hk : (k.factorial : ℚ) ≠ 0 := by positivity
  have hk1 : ((k : ℚ) + 1) ≠ 0 := by positivity
  have hk2 : ((k : ℚ) + 2) ≠ 0 := by positivity
  have ha1 : ((a : ℚ) + 1) ≠ 0 := by positivity
  have hb1 : ((b : ℚ) + 1) ≠ 0 := by positivity
  field_simp
  ring

theorem lhWeight_on (nA nB k : ℕ) (h : k ≤ nA) (hp : k % 2 = nA % 2) :
    lhWeight nA nB (k : ℤ) = wN ((nA - k) / 2) k ((nB - k) / 2) := by
  have : lhSupp nA (k : ℤ) := by unfold lhSupp; omega
  unfold lhWeight wN
  rw [if_pos this]
  simp [fact_eq]

theorem lhWeight_off (nA nB : ℕ) (k : ℤ) (h : ¬ lhSupp nA k) : lhWeight nA nB k = 0 := by
  unfold lhWeight; rw [if_neg h]

theorem lhWeight_nonneg (nA nB : ℕ) (k : ℤ) : 0 ≤ lhWeight nA nB k := by
  unfold lhWeight
  split
  · simp only [fact_eq]; positivity
  · exact le_refl _

theorem lhWeight_pos (nA nB : ℕ) (k : ℤ) (h : lhSupp nA k) : 0 < lhWeight nA nB k := by
  unfold lhWeight
  rw [if_pos h]
  simp only [fact_eq]; positivity

/-- going right: `W(k+2) = W(k) (nA-k)(nB-k) / ((k+2)(k+1))` for every lattice point `k ≥ 0` (also beyond the support, where both
sides vanish) -/
theorem lhWeight_up (nA nB : ℕ) (hAB : nA ≤ nB) (hpar : nA % 2 = nB % 2) (k : ℤ) (hk : 0 ≤ k) (hp : k % 2 = (nA : ℤ) % 2) :
    lhWeight nA nB (k + 2) = lhWeight nA nB k * (((nA : ℤ) - k : ℤ) : ℚ) * (((nB : ℤ) - k : ℤ) : ℚ) / ((((k : ℤ) : ℚ) + 2) * (((k + 1 : ℤ)) : ℚ)) := by
  obtain ⟨kn, rfl⟩ := Int.eq_ofNat_of_zero_le hk
  have hd : ((((kn : ℤ) : ℚ) + 2) * (((kn : ℤ) + 1 : ℤ) : ℚ)) ≠ 0 := by push_cast; positivity
  rw [eq_div_iff hd]
  by_cases h2 : kn + 2 ≤ nA
  · obtain ⟨a, ha⟩ : ∃ a, nA = kn + 2 * (a + 1) := ⟨(nA - kn) / 2 - 1, by omega⟩
    obtain ⟨b, hb⟩ : ∃ b, nB = kn + 2 * (b + 1) := ⟨(nB - kn) / 2 - 1, by omega⟩
    have e1 : ((kn : ℤ) + 2) = ((kn + 2 : ℕ) : ℤ) := by push_cast; ring
    rw [e1, lhWeight_on nA nB (kn + 2) h2 (by omega), lhWeight_on nA nB kn (by omega) (by omega)]
    have ea : (nA - (kn + 2)) / 2 = a := by omega
    have eb : (nB - (kn + 2)) / 2 = b := by omega
    have ea' : (nA - kn) / 2 = a + 1 := by omega
    have eb' : (nB - kn) / 2 = b + 1 := by omega
    rw [ea, eb, ea', eb']
    have := wN_step a kn b
    have c1 : ((((nA : ℤ) - (kn : ℤ) : ℤ)) : ℚ) = 2 * ((a : ℚ) + 1) := by rw [ha]; push_cast; ring
    have c2 : ((((nB : ℤ) - (kn : ℤ) : ℤ)) : ℚ) = 2 * ((b : ℚ) + 1) := by rw [hb]; push_cast; ring
    rw [c1, c2]
    push_cast
    linarith
  · -- k + 2 is beyond the support
    have hoff : ¬ lhSupp nA ((kn : ℤ) + 2) := by unfold lhSupp; omega
    rw [lhWeight_off _ _ _ hoff, zero_mul]
    by_cases h3 : (kn : ℤ) ≤ nA
    · have : (kn : ℤ) = nA := by omega
      rw [this]; simp
    · have hoff' : ¬ lhSupp nA (kn : ℤ) := by unfold lhSupp; omega
      rw [lhWeight_off _ _ _ hoff']; simp

theorem lhWeight_down (nA nB : ℕ) (hAB : nA ≤ nB) (hpar : nA % 2 = nB % 2) (k : ℤ) (hk : k ≤ nA) (hp : k % 2 = (nA : ℤ) % 2) :
    lhWeight nA nB (k - 2) = lhWeight nA nB k * ((k : ℤ) : ℚ) * ((k - 1 : ℤ) : ℚ) / ((((((nA : ℤ) - k : ℤ)) : ℚ) + 2) * ((((nB : ℤ) - k) + 2 : ℤ) : ℚ)) := by
  have hd : ((((((nA : ℤ) - k : ℤ)) : ℚ) + 2) * ((((nB : ℤ) - k) + 2 : ℤ) : ℚ)) ≠ 0 := by
    have h1 : (0 : ℚ) < ((((nA : ℤ) - k : ℤ)) : ℚ) + 2 := by
      have : (0 : ℤ) ≤ (nA : ℤ) - k := by omega
      have : (0 : ℚ) ≤ (((nA : ℤ) - k : ℤ) : ℚ) := by exact_mod_cast this
      linarith
    have h2 : (0 : ℚ) < ((((nB : ℤ) - k) + 2 : ℤ) : ℚ) := by
      have : (0 : ℤ) < ((nB : ℤ) - k) + 2 := by omega
      exact_mod_cast this
    positivity
  by_cases h2 : 2 ≤ k
  · have up := lhWeight_up nA nB hAB hpar (k - 2) (by omega) (by omega)
    have e : k - 2 + 2 = k := by ring
    rw [e] at up
    rw [up]
    have hk0 : ((((k - 2 : ℤ) : ℤ) : ℚ) + 2) ≠ 0 := by
      have : (0 : ℤ) < (k - 2) + 2 := by omega
      have : (0 : ℚ) < (((k - 2 : ℤ)) : ℚ) + 2 := by exact_mod_cast this
      exact ne_of_gt this
    have hk1 : ((((k - 2 + 1 : ℤ)) : ℚ)) ≠ 0 := by
      have : (0 : ℤ) < (k - 2 + 1) := by omega
      have : (0 : ℚ) < ((k - 2 + 1 : ℤ) : ℚ) := by exact_mod_cast this
      exact ne_of_gt this
    have h1 : ((((((nA : ℤ) - k : ℤ)) : ℚ) + 2)) ≠ 0 := left_ne_zero_of_mul hd
    have h3 : (((((nB : ℤ) - k) + 2 : ℤ) : ℚ)) ≠ 0 := right_ne_zero_of_mul hd
    push_cast at hk0 hk1 h1 h3 ⊢
    field_simp
    ring
  · have hoff : ¬ lhSupp nA (k - 2) := by unfold lhSupp; omega
    rw [lhWeight_off _ _ _ hoff]
    by_cases h0 : 0 ≤ k
    · have : k = 0 ∨ k = 1 := by omega
      rcases this with rfl | rfl <;> simp
    · have hoff' : ¬ lhSupp nA k := by unfold lhSupp; omega
      rw [lhWeight_off _ _ _ hoff']; simp

/-- the mode formula of `LeveneHaldane.apply`, as generated -/
def refMode (n nA : ℤ) : ℤ :=
  let nB := 2 * n - nA
  let parity := imod nA 2
  let x : ℚ := (((nA : ℚ) + 1) * ((nB + 1 : ℤ) : ℚ)) / ((2 * n + 3 : ℤ) : ℚ)
  2 * roundQ ((x - (parity : ℚ)) / ((2 : ℤ) : ℚ)) + parity

theorem imod_two_nat (a : ℕ) : imod (a : ℤ) 2 = (a : ℤ) % 2 := by
  unfold imod
  exact Int.tmod_eq_emod_of_nonneg (by omega)

theorem idiv_two_nonneg (a : ℤ) (h : 0 ≤ a) : idiv a 2 = a / 2 := by
  unfold idiv
  exact Int.tdiv_eq_ediv_of_nonneg h

/-- `x = (nA+1)(nB+1)/(2n+3)` -/
def modeX (n nA : ℕ) : ℚ := (((nA : ℚ) + 1) * ((2 * (n : ℚ) - nA) + 1)) / (2 * (n : ℚ) + 3)

theorem refMode_bounds (n nA : ℕ) :
    (refMode n nA) % 2 = (nA : ℤ) % 2 ∧ modeX n nA - 1 < (refMode n nA : ℚ) ∧ (refMode n nA : ℚ) ≤ modeX n nA + 1 := by
  unfold refMode
  simp only [imod_two_nat]
  set par : ℤ := (nA : ℤ) % 2 with hpar
  have hx : (((nA : ℤ) : ℚ) + 1) * ((2 * (n : ℤ) - (nA : ℤ) + 1 : ℤ) : ℚ) / ((2 * (n : ℤ) + 3 : ℤ) : ℚ) = modeX n nA := by
    unfold modeX; push_cast; ring
  rw [hx]
  unfold roundQ
  set y : ℚ := (modeX n nA - (par : ℚ)) / ((2 : ℤ) : ℚ) + 1 / 2 with hy
  have hfl : Rat.floor y = ⌊y⌋ := rfl
  rw [hfl]
  have h1 : (⌊y⌋ : ℚ) ≤ y := Int.floor_le y
  have h2 : y < (⌊y⌋ : ℚ) + 1 := Int.lt_floor_add_one y
  have hy' : y = (modeX n nA - (par : ℚ)) / 2 + 1 / 2 := by rw [hy]; norm_num
  refine ⟨by omega, ?_, ?_⟩
  · push_cast; linarith
  · push_cast; linarith

theorem modeX_mul (n nA : ℕ) : modeX n nA * (2 * (n : ℚ) + 3) = ((nA : ℚ) + 1) * ((2 * (n : ℚ) - nA) + 1) := by
  unfold modeX
  have : (2 * (n : ℚ) + 3) ≠ 0 := by positivity
  field_simp

theorem refMode_supp (n nA : ℕ) (h : nA ≤ n) : lhSupp nA (refMode n nA) := by
  obtain ⟨hp, hlo, hhi⟩ := refMode_bounds n nA
  have hD : (0 : ℚ) < 2 * (n : ℚ) + 3 := by positivity
  have hxm := modeX_mul n nA
  have hn : (nA : ℚ) ≤ n := by exact_mod_cast h
  have hx0 : 0 < modeX n nA := by
    unfold modeX
    have : (0 : ℚ) < (2 * (n : ℚ) - nA) + 1 := by linarith
    positivity
  have hx1 : modeX n nA < (nA : ℚ) + 1 := by
    have : modeX n nA * (2 * (n : ℚ) + 3) < ((nA : ℚ) + 1) * (2 * (n : ℚ) + 3) := by
      rw [hxm]
      have h1 : (0 : ℚ) < (nA : ℚ) + 1 := by positivity
      have h2 : (2 * (n : ℚ) - nA) + 1 < 2 * (n : ℚ) + 3 := by
        have : (0 : ℚ) ≤ nA := by positivity
        linarith
      exact mul_lt_mul_of_pos_left h2 h1
    exact lt_of_mul_lt_mul_right this (le_of_lt hD)
  have h0 : (-1 : ℚ) < (refMode n nA : ℚ) := by linarith
  have h0' : (-1 : ℤ) < refMode n nA := by exact_mod_cast h0
  have h1 : (refMode n nA : ℚ) < (nA : ℚ) + 2 := by linarith
  have h1' : refMode n nA < (nA : ℤ) + 2 := by exact_mod_cast h1
  unfold lhSupp
  omega

/-- right of the mode the ratio of consecutive weights is at most 1 -/
theorem ratio_up_le (n nA : ℕ) (i : ℤ) (hi : refMode n nA ≤ i) :
    (((nA : ℤ) - i : ℤ) : ℚ) * (((2 * (n : ℤ) - nA) - i : ℤ) : ℚ) ≤ (((i : ℤ) : ℚ) + 2) * ((i + 1 : ℤ) : ℚ) := by
  obtain ⟨_, hlo, _⟩ := refMode_bounds n nA
  have hD : (0 : ℚ) < 2 * (n : ℚ) + 3 := by positivity
  have hxm := modeX_mul n nA
  have hi' : (refMode n nA : ℚ) ≤ (i : ℚ) := by exact_mod_cast hi
  have h1 : (modeX n nA - 1) * (2 * (n : ℚ) + 3) < (i : ℚ) * (2 * (n : ℚ) + 3) := mul_lt_mul_of_pos_right (by linarith) hD
  push_cast
  nlinarith [h1, hxm]

/-- left of the mode likewise -/
theorem ratio_down_le (n nA : ℕ) (i : ℤ) (hi : i ≤ refMode n nA) :
    ((i : ℤ) : ℚ) * ((i - 1 : ℤ) : ℚ) ≤ (((((nA : ℤ) - i : ℤ)) : ℚ) + 2) * ((((2 * (n : ℤ) - nA) - i) + 2 : ℤ) : ℚ) := by
  obtain ⟨_, _, hhi⟩ := refMode_bounds n nA
  have hD : (0 : ℚ) < 2 * (n : ℚ) + 3 := by positivity
  have hxm := modeX_mul n nA
  have hi' : (i : ℚ) ≤ (refMode n nA : ℚ) := by exact_mod_cast hi
  have h1 : (i : ℚ) * (2 * (n : ℚ) + 3) ≤ (modeX n nA + 1) * (2 * (n : ℚ) + 3) := mul_le_mul_of_nonneg_right (by linarith) (le_of_lt hD)
  push_cast
  nlinarith [h1, hxm]

/-- the weight function of the pair `(n, nA)` -/
def W (n nA : ℕ) (k : ℤ) : ℚ := lhWeight nA (2 * n - nA) k

/-- weights relative to the mode, going right / left from it in steps of 2 -/
def gR (n nA : ℕ) (j : ℕ) : ℚ := W n nA (refMode n nA + 2 * j) / W n nA (refMode n nA)
def gL (n nA : ℕ) (j : ℕ) : ℚ := W n nA (refMode n nA - 2 * j) / W n nA (refMode n nA)

theorem W_mode_pos (n nA : ℕ) (h : nA ≤ n) : 0 < W n nA (refMode n nA) :=
  lhWeight_pos _ _ _ (refMode_supp n nA h)

theorem gR_zero (n nA : ℕ) (h : nA ≤ n) : gR n nA 0 = 1 := by
  unfold gR; simp; exact ne_of_gt (W_mode_pos n nA h)
theorem gL_zero (n nA : ℕ) (h : nA ≤ n) : gL n nA 0 = 1 := by
  unfold gL; simp; exact ne_of_gt (W_mode_pos n nA h)

theorem gR_nonneg (n nA j : ℕ) : 0 ≤ gR n nA j := div_nonneg (lhWeight_nonneg _ _ _) (lhWeight_nonneg _ _ _)
theorem gL_nonneg (n nA j : ℕ) : 0 ≤ gL n nA j := div_nonneg (lhWeight_nonneg _ _ _) (lhWeight_nonneg _ _ _)

theorem nB_cast (n nA : ℕ) (h : nA ≤ n) : ((2 * n - nA : ℕ) : ℤ) = 2 * (n : ℤ) - nA := by omega

/-- the step of `pRUfrom` / `pLUfrom`, as generated -/
def stepR (n nA : ℤ) : ℤ → ℚ → ℤ × ℚ := fun nAB p =>
  (nAB + 2, p * ((nA - nAB : ℤ) : ℚ) * (((2 * n - nA) - nAB : ℤ) : ℚ) / ((((nAB : ℤ) : ℚ) + 2) * ((nAB + 1 : ℤ) : ℚ)))
def stepL (n nA : ℤ) : ℤ → ℚ → ℤ × ℚ := fun nAB p =>
  (nAB - 2, p * ((nAB : ℤ) : ℚ) * ((nAB - 1 : ℤ) : ℚ) / (((((nA - nAB : ℤ)) : ℚ) + 2) * ((((2 * n - nA) - nAB) + 2 : ℤ) : ℚ)))

/-- the generated step of `pRUfrom` maps the j-th relative weight to the (j+1)-th -/
theorem stepR_spec (n nA : ℕ) (h : nA ≤ n) (j : ℕ) :
    stepR n nA (refMode n nA + 2 * (j : ℤ)) (gR n nA j) = (refMode n nA + 2 * ((j + 1 : ℕ) : ℤ), gR n nA (j + 1)) := by
  have hs := refMode_supp n nA h
  unfold lhSupp at hs
  unfold stepR
  refine Prod.ext (by push_cast; ring) ?_
  simp only
  unfold gR W
  have e : refMode n nA + 2 * ((j + 1 : ℕ) : ℤ) = (refMode n nA + 2 * (j : ℤ)) + 2 := by push_cast; ring
  rw [e, lhWeight_up nA (2 * n - nA) (by omega) (by omega) (refMode n nA + 2 * (j : ℤ)) (by omega) (by omega), nB_cast n nA h]
  ring

theorem stepL_spec (n nA : ℕ) (h : nA ≤ n) (j : ℕ) :
    stepL n nA (refMode n nA - 2 * (j : ℤ)) (gL n nA j) = (refMode n nA - 2 * ((j + 1 : ℕ) : ℤ), gL n nA (j + 1)) := by
  have hs := refMode_supp n nA h
  unfold lhSupp at hs
  unfold stepL
  refine Prod.ext (by push_cast; ring) ?_
  simp only
  unfold gL W
  have e : refMode n nA - 2 * ((j + 1 : ℕ) : ℤ) = (refMode n nA - 2 * (j : ℤ)) - 2 := by push_cast; ring
  rw [e, lhWeight_down nA (2 * n - nA) (by omega) (by omega) (refMode n nA - 2 * (j : ℤ)) (by omega) (by omega), nB_cast n nA h]
  ring

/-- what `LeveneHaldane.apply(n, nA)` builds (exact model, τ = 0): the two streams are the closed-form weights relative to the mode -/
def refDist (n nA : ℕ) : LHDist ℚ :=
  let pRU := (List.range (lhFuel nA)).map (gR n nA)
  let pLU := (List.range (lhFuel nA)).map (gL n nA)
  { n := n, nA := nA, mode := refMode n nA, pRU := pRU, pLU := pLU,
    pN := sumL (pRU.takeWhile fun x => decide (x > 0)) + sumL (pLU.takeWhile fun x => decide (x > 0)) - 1 }

theorem apply_val (n nA : ℕ) (h : nA ≤ n) : Exact.LeveneHaldane_apply_3 0 (n : ℤ) (nA : ℤ) = Out.val (refDist n nA) := by
  have hR := unfold_eq_map (stepR n nA) (fun j : ℕ => refMode n nA + 2 * (j : ℤ)) (gR n nA) (stepR_spec n nA h) (lhFuel nA)
  have hL := unfold_eq_map (stepL n nA) (fun j : ℕ => refMode n nA - 2 * (j : ℤ)) (gL n nA) (stepL_spec n nA h) (lhFuel nA)
  simp only [Nat.cast_zero, mul_zero, add_zero, sub_zero, gR_zero n nA h, gL_zero n nA h] at hR hL
  unfold Exact.LeveneHaldane_apply_3
  have hg : (decide ((nA : ℤ) ≥ 0) && decide ((nA : ℤ) ≤ (n : ℤ))) = true := by simp; omega
  simp only [hg]
  change (if (!true) = true then Out.fatal else Out.val
    (LHDist.mk (n : ℤ) (nA : ℤ) (refMode n nA) (HailVerif.StatsLib.unfold (stepR n nA) (lhFuel nA) (refMode n nA) 1)
      (HailVerif.StatsLib.unfold (stepL n nA) (lhFuel nA) (refMode n nA) 1)
      (sumL (List.takeWhile (fun x1 => decide (x1 > 0 * (1 / 10000000000000000))) (HailVerif.StatsLib.unfold (stepR n nA) (lhFuel nA) (refMode n nA) 1))
          + sumL (List.takeWhile (fun x1 => decide (x1 > 0 * (1 / 10000000000000000))) (HailVerif.StatsLib.unfold (stepL n nA) (lhFuel nA) (refMode n nA) 1)) - 1))) = _
  rw [hR, hL]
  simp [refDist]

theorem W_nonneg (n nA : ℕ) (k : ℤ) : 0 ≤ W n nA k := lhWeight_nonneg _ _ _

/-- unimodality, right half: the weights do not increase when moving right from the mode -/
theorem W_up_le (n nA : ℕ) (h : nA ≤ n) (i : ℤ) (hi : refMode n nA ≤ i) (hp : i % 2 = (nA : ℤ) % 2) : W n nA (i + 2) ≤ W n nA i := by
  have hs := refMode_supp n nA h
  unfold lhSupp at hs
  unfold W
  by_cases hA : i + 2 ≤ nA
  · rw [lhWeight_up nA (2 * n - nA) (by omega) (by omega) i (by omega) hp, nB_cast n nA h]
    have hr := ratio_up_le n nA i hi
    have hd : (0 : ℚ) < ((((i : ℤ) : ℚ) + 2) * ((i + 1 : ℤ) : ℚ)) := by
      have h1 : (0 : ℤ) < i + 2 := by omega
      have h2 : (0 : ℤ) < i + 1 := by omega
      have h1' : (0 : ℚ) < ((i : ℤ) : ℚ) + 2 := by exact_mod_cast h1
      have h2' : (0 : ℚ) < ((i + 1 : ℤ) : ℚ) := by exact_mod_cast h2
      positivity
    have hw := lhWeight_nonneg nA (2 * n - nA) i
    rw [div_le_iff₀ hd, mul_assoc]
    exact mul_le_mul_of_nonneg_left hr hw
  · have hoff : ¬ lhSupp nA (i + 2) := by unfold lhSupp; omega
    rw [lhWeight_off _ _ _ hoff]
    exact lhWeight_nonneg _ _ _

theorem W_down_le (n nA : ℕ) (h : nA ≤ n) (i : ℤ) (hi : i ≤ refMode n nA) (hp : i % 2 = (nA : ℤ) % 2) : W n nA (i - 2) ≤ W n nA i := by
  have hs := refMode_supp n nA h
  unfold lhSupp at hs
  unfold W
  by_cases h2 : 2 ≤ i
  · rw [lhWeight_down nA (2 * n - nA) (by omega) (by omega) i (by omega) hp, nB_cast n nA h]
    have hr := ratio_down_le n nA i hi
    have hd : (0 : ℚ) < ((((((nA : ℤ) - i : ℤ)) : ℚ) + 2) * ((((2 * (n : ℤ) - nA) - i) + 2 : ℤ) : ℚ)) := by
      have h1 : (0 : ℤ) < ((nA : ℤ) - i) + 2 := by omega
      have h2 : (0 : ℤ) < ((2 * (n : ℤ) - nA) - i) + 2 := by omega
      have h1' : (0 : ℚ) < (((nA : ℤ) - i : ℤ) : ℚ) + 2 := by exact_mod_cast h1
      have h2' : (0 : ℚ) < ((((2 * (n : ℤ) - nA) - i) + 2 : ℤ) : ℚ) := by exact_mod_cast h2
      positivity
    have hw := lhWeight_nonneg nA (2 * n - nA) i
    rw [div_le_iff₀ hd, mul_assoc]
    exact mul_le_mul_of_nonneg_left hr hw
  · have hoff : ¬ lhSupp nA (i - 2) := by unfold lhSupp; omega
    rw [lhWeight_off _ _ _ hoff]
    exact lhWeight_nonneg _ _ _

theorem gR_succ_le (n nA : ℕ) (h : nA ≤ n) (j : ℕ) : gR n nA (j + 1) ≤ gR n nA j := by
  have hs := refMode_supp n nA h
  unfold lhSupp at hs
  unfold gR
  have e : refMode n nA + 2 * ((j + 1 : ℕ) : ℤ) = (refMode n nA + 2 * (j : ℤ)) + 2 := by push_cast; ring
  rw [e]
  exact div_le_div_of_nonneg_right (W_up_le n nA h _ (by omega) (by omega)) (le_of_lt (W_mode_pos n nA h))

theorem gL_succ_le (n nA : ℕ) (h : nA ≤ n) (j : ℕ) : gL n nA (j + 1) ≤ gL n nA j := by
  have hs := refMode_supp n nA h
  unfold lhSupp at hs
  unfold gL
  have e : refMode n nA - 2 * ((j + 1 : ℕ) : ℤ) = (refMode n nA - 2 * (j : ℤ)) - 2 := by push_cast; ring
  rw [e]
  exact div_le_div_of_nonneg_right (W_down_le n nA h _ (by omega) (by omega)) (le_of_lt (W_mode_pos n nA h))

theorem gR_antitone (n nA : ℕ) (h : nA ≤ n) : Antitone (gR n nA) := antitone_nat_of_succ_le (gR_succ_le n nA h)
theorem gL_antitone (n nA : ℕ) (h : nA ≤ n) : Antitone (gL n nA) := antitone_nat_of_succ_le (gL_succ_le n nA h)

/-- the mode formula returns a most probable point: no weight exceeds the weight at the mode -/
theorem W_le_mode (n nA : ℕ) (h : nA ≤ n) (k : ℤ) : W n nA k ≤ W n nA (refMode n nA) := by
  have hs := refMode_supp n nA h
  have hpos := W_mode_pos n nA h
  by_cases hk : lhSupp nA k
  · unfold lhSupp at hs hk
    by_cases hge : refMode n nA ≤ k
    · obtain ⟨j, hj⟩ : ∃ j : ℕ, k = refMode n nA + 2 * (j : ℤ) := ⟨((k - refMode n nA) / 2).toNat, by omega⟩
      have := gR_antitone n nA h (Nat.zero_le j)
      rw [gR_zero n nA h] at this
      unfold gR at this
      rw [div_le_one hpos] at this
      rw [hj]; exact this
    · obtain ⟨j, hj⟩ : ∃ j : ℕ, k = refMode n nA - 2 * (j : ℤ) := ⟨((refMode n nA - k) / 2).toNat, by omega⟩
      have := gL_antitone n nA h (Nat.zero_le j)
      rw [gL_zero n nA h] at this
      unfold gL at this
      rw [div_le_one hpos] at this
      rw [hj]; exact this
  · unfold W; rw [lhWeight_off _ _ _ hk]; exact le_of_lt hpos

/-! ## lists that are non-negative and non-increasing -/

theorem sum_takeWhile_pos (l : List ℚ) (hn : ∀ x ∈ l, 0 ≤ x) (hs : l.Pairwise (· ≥ ·)) :
    (l.takeWhile fun x => decide (x > 0)).sum = l.sum := by
  induction l with
  | nil => rfl
  | cons x xs ih =>
    rw [List.pairwise_cons] at hs
    by_cases hx : x > 0
    · rw [List.takeWhile_cons_of_pos (by simpa using hx), List.sum_cons, List.sum_cons,
        ih (fun y hy => hn y (List.mem_cons_of_mem _ hy)) hs.2]
    · rw [List.takeWhile_cons_of_neg (by simpa using hx)]
      have hx0 : x = 0 := le_antisymm (not_lt.mp hx) (hn x List.mem_cons_self)
      have : xs.sum = 0 := by
        apply List.sum_eq_zero
        intro y hy
        have h1 := hs.1 y hy
        have h2 := hn y (List.mem_cons_of_mem _ hy)
        rw [hx0] at h1
        exact le_antisymm h1 h2
      rw [List.sum_cons, this, hx0]; simp

theorem pairwise_map_range_antitone (g : ℕ → ℚ) (hg : Antitone g) (F : ℕ) : ((List.range F).map g).Pairwise (· ≥ ·) := by
  rw [List.pairwise_map]
  exact List.Pairwise.imp (fun {a b} hab => hg (le_of_lt hab)) List.pairwise_lt_range

/-- the normaliser: sum of the two streams, the mode counted once -/
def T (n nA : ℕ) : ℚ := ((List.range (lhFuel nA)).map (gR n nA)).sum + ((List.range (lhFuel nA)).map (gL n nA)).sum - 1

theorem mem_map_range_nonneg (g : ℕ → ℚ) (hg : ∀ j, 0 ≤ g j) (F : ℕ) : ∀ x ∈ (List.range F).map g, 0 ≤ x := by
  intro x hx
  obtain ⟨j, _, rfl⟩ := List.mem_map.mp hx
  exact hg j

theorem refDist_pN (n nA : ℕ) (h : nA ≤ n) : (refDist n nA).pN = T n nA := by
  unfold refDist T
  simp only [sumL_eq_sum]
  rw [sum_takeWhile_pos _ (mem_map_range_nonneg _ (gR_nonneg n nA) _) (pairwise_map_range_antitone _ (gR_antitone n nA h) _),
    sum_takeWhile_pos _ (mem_map_range_nonneg _ (gL_nonneg n nA) _) (pairwise_map_range_antitone _ (gL_antitone n nA h) _)]

/-- `refDist` with the normaliser in closed form -/
def refDist' (n nA : ℕ) : LHDist ℚ :=
  LHDist.mk n nA (refMode n nA) ((List.range (lhFuel nA)).map (gR n nA)) ((List.range (lhFuel nA)).map (gL n nA)) (T n nA)

theorem refDist_eq (n nA : ℕ) (h : nA ≤ n) : refDist n nA = refDist' n nA := by
  have := refDist_pN n nA h
  unfold refDist at this ⊢
  unfold refDist'
  simp only at this ⊢
  rw [this]

theorem lhFuel_pos (nA : ℕ) : 0 < lhFuel (nA : ℤ) := by unfold lhFuel; omega

theorem one_le_T (n nA : ℕ) (h : nA ≤ n) : 1 ≤ T n nA := by
  unfold T
  have hF := lhFuel_pos nA
  obtain ⟨F, hF'⟩ : ∃ F, lhFuel (nA : ℤ) = F + 1 := ⟨lhFuel nA - 1, by omega⟩
  rw [hF', List.range_succ_eq_map, List.map_cons, List.map_cons, List.sum_cons, List.sum_cons, gR_zero n nA h, gL_zero n nA h]
  have h1 : 0 ≤ (List.map (gR n nA) (List.map Nat.succ (List.range F))).sum :=
    List.sum_nonneg (by intro x hx; obtain ⟨j, _, rfl⟩ := List.mem_map.mp hx; exact gR_nonneg n nA j)
  have h2 : 0 ≤ (List.map (gL n nA) (List.map Nat.succ (List.range F))).sum :=
    List.sum_nonneg (by intro x hx; obtain ⟨j, _, rfl⟩ := List.mem_map.mp hx; exact gL_nonneg n nA j)
  linarith

theorem T_pos (n nA : ℕ) (h : nA ≤ n) : 0 < T n nA := lt_of_lt_of_le one_pos (one_le_T n nA h)

theorem idx_map_range (g : ℕ → ℚ) (F : ℕ) (j : ℤ) (hF : j.toNat < F) : idx ((List.range F).map g) j = g j.toNat := by
  unfold idx
  rw [List.getD_eq_getElem?_getD, List.getElem?_map, List.getElem?_range hF]
  rfl

/-- `probability` on an explicit record (projections reduced) -/
theorem probability_mk (n' nA' M : ℤ) (pRU pLU : List ℚ) (pN : ℚ) (k : ℤ) :
    Exact.LeveneHaldane_probability 0 (LHDist.mk n' nA' M pRU pLU pN) k =
      (if ((decide (k < (0 : ℤ)) || decide (k > nA')) || decide (imod k 2 ≠ imod nA' 2)) then 0
       else if decide (k ≥ M) then idx pRU (idiv (k - M) 2) / pN else idx pLU (idiv (M - k) 2) / pN) := rfl

/-- `probability(k)` of the exact model is the closed-form weight of `k` over the normaliser, for every integer `k` -/
theorem probability_refDist (n nA : ℕ) (h : nA ≤ n) (k : ℤ) :
    Exact.LeveneHaldane_probability 0 (refDist' n nA) k = W n nA k / (W n nA (refMode n nA) * T n nA) := by
  have hs := refMode_supp n nA h
  have hpos := W_mode_pos n nA h
  unfold refDist'
  rw [probability_mk]
  by_cases hk : lhSupp nA k
  · unfold lhSupp at hk hs
    have e1 : imod k 2 = k % 2 := by unfold imod; exact Int.tmod_eq_emod_of_nonneg hk.1
    have hg : ((decide (k < (0 : ℤ)) || decide (k > (nA : ℤ))) || decide (imod k 2 ≠ imod (nA : ℤ) 2)) = false := by
      rw [e1, imod_two_nat]; simp; omega
    rw [hg]
    simp only [Bool.false_eq_true, if_false]
    by_cases hge : refMode n nA ≤ k
    · have hd : decide (k ≥ refMode n nA) = true := by simpa using hge
      rw [hd]; simp only [if_true]
      rw [idiv_two_nonneg _ (by omega)]
      obtain ⟨j, hj⟩ : ∃ j : ℕ, k = refMode n nA + 2 * (j : ℤ) := ⟨((k - refMode n nA) / 2).toNat, by omega⟩
      have ej : (k - refMode n nA) / 2 = (j : ℤ) := by omega
      rw [ej, idx_map_range _ _ _ (by unfold lhFuel; omega)]
      simp only [Int.toNat_natCast]
      unfold gR
      rw [← hj, div_div]
    · have hd : decide (k ≥ refMode n nA) = false := by simpa using hge
      rw [hd]; simp only [Bool.false_eq_true, if_false]
      rw [idiv_two_nonneg _ (by omega)]
      obtain ⟨j, hj⟩ : ∃ j : ℕ, k = refMode n nA - 2 * (j : ℤ) := ⟨((refMode n nA - k) / 2).toNat, by omega⟩
      have ej : (refMode n nA - k) / 2 = (j : ℤ) := by omega
      rw [ej, idx_map_range _ _ _ (by unfold lhFuel; omega)]
      simp only [Int.toNat_natCast]
      unfold gL
      rw [← hj, div_div]
  · have hW : W n nA k = 0 := lhWeight_off _ _ _ hk
    rw [hW, zero_div]
    have hg : ((decide (k < (0 : ℤ)) || decide (k > (nA : ℤ))) || decide (imod k 2 ≠ imod (nA : ℤ) 2)) = true := by
      unfold lhSupp at hk
      by_cases h0 : k < 0
      · simp [h0]
      · have e1 : imod k 2 = k % 2 := by unfold imod; exact Int.tmod_eq_emod_of_nonneg (by omega)
        rw [e1, imod_two_nat]; simp; omega
    rw [hg]; simp

end HailVerif.StatsProofs

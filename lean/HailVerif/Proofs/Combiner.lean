import HailVerif.Model.Combiner
import Mathlib.Data.List.Perm.Basic
import Mathlib.Tactic.Ring
/-! Helper lemmas for C38. -/
namespace HailVerif.Combiner

/-! ## Part A -/

theorem ceilDiv_pos {a b : Nat} (ha : 1 ≤ a) (hb : 1 ≤ b) : 1 ≤ ceilDiv a b := by
  unfold ceilDiv
  exact (Nat.le_div_iff_mul_le (by omega)).2 (by omega)

theorem le_ceilDiv_mul {a b : Nat} (hb : 1 ≤ b) : a ≤ ceilDiv a b * b := by
  unfold ceilDiv
  have h1 := Nat.div_add_mod (a + b - 1) b
  have h2 := Nat.mod_lt (a + b - 1) (show 0 < b by omega)
  rw [Nat.mul_comm]
  omega

theorem ceilDiv_le {a b c : Nat} (hb : 1 ≤ b) (h : a ≤ c * b) : ceilDiv a b ≤ c := by
  unfold ceilDiv
  have : (a + b - 1) / b < c + 1 := by
    rw [Nat.div_lt_iff_lt_mul (by omega)]
    have : (c + 1) * b = c * b + b := by ring
    omega
  omega

/-- `l` is a list of inclusive intervals that starts at `n`, runs consecutively (each starts right after the previous
one ends), has no empty interval, stays within `[1, L]` and ends exactly at `L` -/
def TilesFrom (L : Nat) : Nat → List (Nat × Nat) → Prop
  | n, [] => n = L + 1
  | n, (s, e) :: t => s = n ∧ s ≤ e ∧ e ≤ L ∧ TilesFrom L (e + 1) t

theorem partLoop_spec (L rs : Nat) (hrs : 1 ≤ rs) :
    ∀ fuel n, n ≤ L + 1 → L + 1 - n ≤ fuel →
      TilesFrom L n (partLoop L rs fuel n) ∧ ∀ iv ∈ partLoop L rs fuel n, iv.2 - iv.1 + 1 ≤ rs := by
  intro fuel
  induction fuel with
  | zero =>
    intro n h1 h2
    simp only [partLoop, TilesFrom]
    exact ⟨by omega, by simp⟩
  | succ f ih =>
    intro n h1 h2
    unfold partLoop
    by_cases hn : n ≤ L
    · simp only [hn, if_true]
      have he1 : n ≤ min (n + rs - 1) L := by omega
      have he2 : min (n + rs - 1) L ≤ L := Nat.min_le_right _ _
      obtain ⟨t1, t2⟩ := ih (min (n + rs - 1) L + 1) (by omega) (by omega)
      refine ⟨⟨rfl, he1, he2, t1⟩, ?_⟩
      intro iv hiv
      rcases List.mem_cons.1 hiv with rfl | h
      · simp only; omega
      · exact t2 iv h
    · simp only [hn, if_false, TilesFrom]
      exact ⟨by omega, by simp⟩

/-- base `p` lies in the inclusive interval -/
def covers (p : Nat) (iv : Nat × Nat) : Bool := decide (iv.1 ≤ p) && decide (p ≤ iv.2)

theorem tiles_count (L : Nat) : ∀ l n, TilesFrom L n l →
    ∀ p, (p < n → l.countP (covers p) = 0) ∧ (n ≤ p → p ≤ L → l.countP (covers p) = 1) := by
  intro l
  induction l with
  | nil =>
    intro n h p
    simp only [TilesFrom] at h
    exact ⟨fun _ => rfl, fun h1 h2 => by omega⟩
  | cons iv t ih =>
    intro n h p
    obtain ⟨s, e⟩ := iv
    obtain ⟨rfl, hse, heL, ht⟩ := h
    have := ih (e + 1) ht p
    rw [List.countP_cons]
    constructor
    · intro hp
      have h0 := this.1 (by omega)
      have : covers p (s, e) = false := by simp [covers]; omega
      simp [h0, this]
    · intro h1 h2
      by_cases hpe : p ≤ e
      · have h0 := this.1 (by omega)
        have : covers p (s, e) = true := by simp [covers]; omega
        simp [h0, this]
      · have h0 := this.2 (by omega) h2
        have : covers p (s, e) = false := by simp [covers]; omega
        simp [h0, this]

theorem evenPartition_spec {L size : Nat} (hL : 1 ≤ L) (hs : 1 ≤ size) :
    ∃ ivs, evenPartition L size = some ivs ∧ TilesFrom L 1 ivs ∧ ∀ iv ∈ ivs, iv.2 - iv.1 + 1 ≤ size := by
  have hp := ceilDiv_pos hL hs
  have hrs1 := ceilDiv_pos hL hp
  have hrs2 : ceilDiv L (ceilDiv L size) ≤ size := by
    apply ceilDiv_le hp
    have := le_ceilDiv_mul (a := L) hs
    rw [Nat.mul_comm]; exact this
  obtain ⟨t1, t2⟩ := partLoop_spec L (ceilDiv L (ceilDiv L size)) hrs1 L 1 (by omega) (by omega)
  refine ⟨partLoop L (ceilDiv L (ceilDiv L size)) L 1, ?_, t1, fun iv h => Nat.le_trans (t2 iv h) hrs2⟩
  unfold evenPartition
  simp only [show size ≠ 0 by omega, if_false, show ceilDiv L size ≠ 0 by omega]

/-! ## Part B -/

/-! ### list surgery: `minBin`, `takeFront`, `takeBack`, `chunks` -/

theorem minBin_eq_none {l : List (Nat × DS)} : minBin l = none ↔ l = [] := by
  cases l with
  | nil => simp [minBin]
  | cons x t =>
    obtain ⟨k, d⟩ := x
    simp only [minBin]
    cases minBin t <;> simp

theorem minBin_mem : ∀ {l : List (Nat × DS)} {b : Nat}, minBin l = some b → ∃ d, (b, d) ∈ l := by
  intro l
  induction l with
  | nil => intro b h; simp [minBin] at h
  | cons x t ih =>
    intro b h
    obtain ⟨k, d⟩ := x
    simp only [minBin] at h
    cases hm : minBin t with
    | none => rw [hm] at h; cases h; exact ⟨d, by simp⟩
    | some m =>
      rw [hm] at h
      simp only [Option.some.injEq] at h
      by_cases hk : k ≤ m
      · rw [Nat.min_eq_left hk] at h; subst h; exact ⟨d, by simp⟩
      · rw [Nat.min_eq_right (by omega)] at h; subst h
        obtain ⟨d', hd'⟩ := ih hm
        exact ⟨d', by simp [hd']⟩

theorem takeFront_perm (b : Nat) : ∀ (l : List (Nat × DS)) (m : Nat),
    ((takeFront b m l).1.map (fun d => (b, d)) ++ (takeFront b m l).2).Perm l := by
  intro l
  induction l with
  | nil => intro m; simp [takeFront]
  | cons x t ih =>
    intro m
    obtain ⟨k, d⟩ := x
    unfold takeFront
    by_cases h : k = b ∧ 0 < m
    · simp only [h, and_self, if_true, List.map_cons, List.cons_append]
      obtain ⟨rfl, _⟩ := h
      exact List.Perm.cons _ (ih (m - 1))
    · simp only [h, if_false]
      exact (List.perm_middle).trans (List.Perm.cons _ (ih m))

theorem takeFront_ds (b m : Nat) (l : List (Nat × DS)) :
    ((takeFront b m l).1 ++ (takeFront b m l).2.map Prod.snd).Perm (l.map Prod.snd) := by
  have := (takeFront_perm b l m).map Prod.snd
  simpa [List.map_append, Function.comp_def] using this

theorem takeFront_length (b : Nat) : ∀ (l : List (Nat × DS)) (m : Nat),
    (takeFront b m l).1.length + (takeFront b m l).2.length = l.length := by
  intro l m
  have := (takeFront_perm b l m).length_eq
  simpa using this

theorem takeFront_le (b : Nat) : ∀ (l : List (Nat × DS)) (m : Nat), (takeFront b m l).1.length ≤ m := by
  intro l
  induction l with
  | nil => intro m; simp [takeFront]
  | cons x t ih =>
    intro m
    obtain ⟨k, d⟩ := x
    unfold takeFront
    by_cases h : k = b ∧ 0 < m
    · simp only [h, and_self, if_true, List.length_cons]
      have := ih (m - 1); omega
    · simp only [h, if_false]; exact ih m

theorem takeFront_ne_nil (b : Nat) : ∀ (l : List (Nat × DS)) (m : Nat), 0 < m → (∃ d, (b, d) ∈ l) →
    (takeFront b m l).1 ≠ [] := by
  intro l
  induction l with
  | nil => intro m _ h; obtain ⟨d, hd⟩ := h; simp at hd
  | cons x t ih =>
    intro m hm h
    obtain ⟨k, d⟩ := x
    unfold takeFront
    by_cases hk : k = b
    · simp [hk, hm]
    · simp only [hk, false_and, if_false]
      apply ih m hm
      obtain ⟨d', hd'⟩ := h
      rcases List.mem_cons.1 hd' with h1 | h1
      · cases h1; exact absurd rfl hk
      · exact ⟨d', h1⟩

theorem takeBack_ds (b m : Nat) (l : List (Nat × DS)) :
    ((takeBack b m l).1 ++ (takeBack b m l).2.map Prod.snd).Perm (l.map Prod.snd) := by
  unfold takeBack
  simp only
  have h := takeFront_ds b m l.reverse
  have h1 : ((takeFront b m l.reverse).1.reverse ++ List.map Prod.snd (takeFront b m l.reverse).2.reverse).Perm
      ((takeFront b m l.reverse).1 ++ List.map Prod.snd (takeFront b m l.reverse).2) :=
    List.Perm.append (List.reverse_perm _) ((List.reverse_perm _).map _)
  exact h1.trans (h.trans ((List.reverse_perm l).map _))

theorem takeBack_length (b m : Nat) (l : List (Nat × DS)) :
    (takeBack b m l).1.length + (takeBack b m l).2.length = l.length := by
  unfold takeBack
  simp only [List.length_reverse]
  have := takeFront_length b l.reverse m
  simpa using this

theorem takeBack_ne_nil (b m : Nat) (l : List (Nat × DS)) (hm : 0 < m) (h : ∃ d, (b, d) ∈ l) :
    (takeBack b m l).1 ≠ [] := by
  unfold takeBack
  simp only [ne_eq, List.reverse_eq_nil_iff]
  apply takeFront_ne_nil b l.reverse m hm
  obtain ⟨d, hd⟩ := h
  exact ⟨d, by simpa using hd⟩

theorem chunksAux_flatten {α : Type} (k : Nat) (hk : 1 ≤ k) : ∀ (fuel : Nat) (l : List α), l.length ≤ fuel →
    (chunksAux k fuel l).flatten = l ∧ (chunksAux k fuel l).length ≤ l.length
      ∧ ((chunksAux k fuel l).map List.length).sum = l.length := by
  intro fuel
  induction fuel with
  | zero => intro l h; have : l = [] := List.length_eq_zero_iff.1 (by omega); subst this; simp [chunksAux]
  | succ f ih =>
    intro l h
    cases l with
    | nil => simp [chunksAux]
    | cons a t =>
      unfold chunksAux
      have hd : ((a :: t).drop k).length ≤ f := by
        rw [List.length_drop]; simp only [List.length_cons] at h ⊢; omega
      obtain ⟨i1, i2, i3⟩ := ih ((a :: t).drop k) hd
      refine ⟨?_, ?_, ?_⟩
      · rw [List.flatten_cons, i1, List.take_append_drop]
      · rw [List.length_cons]
        rw [List.length_drop] at i2
        simp only [List.length_cons] at i2 ⊢; omega
      · rw [List.map_cons, List.sum_cons, i3, List.length_take, List.length_drop]
        omega

theorem chunks_flatten {α : Type} (k : Nat) (hk : 1 ≤ k) (l : List α) :
    (chunks k l).flatten = l ∧ (chunks k l).length ≤ l.length ∧ ((chunks k l).map List.length).sum = l.length :=
  chunksAux_flatten k hk l.length l (Nat.le_refl _)

/-! ### `pullLoop` -/

theorem pullLoop_spec (bf : Nat) : ∀ (fuel : Nat) (files : List DS) (rest : List (Nat × DS)),
    ((pullLoop bf fuel files rest).1 ++ (pullLoop bf fuel files rest).2.map Prod.snd).Perm (files ++ rest.map Prod.snd)
    ∧ (pullLoop bf fuel files rest).1.length + (pullLoop bf fuel files rest).2.length = files.length + rest.length
    ∧ files.length ≤ (pullLoop bf fuel files rest).1.length := by
  intro fuel
  induction fuel with
  | zero => intro files rest; simp [pullLoop]
  | succ f ih =>
    intro files rest
    unfold pullLoop
    by_cases hc : (!rest.isEmpty && decide (0 < bf - files.length)) = true
    · simp only [hc, if_true]
      cases hm : minBin rest with
      | none => simp
      | some b =>
        simp only
        obtain ⟨i1, i2, i3⟩ := ih ((takeBack b (bf - files.length) rest).1 ++ files) (takeBack b (bf - files.length) rest).2
        have hb := takeBack_ds b (bf - files.length) rest
        have hl := takeBack_length b (bf - files.length) rest
        refine ⟨i1.trans ?_, ?_, ?_⟩
        · have : ((takeBack b (bf - files.length) rest).1 ++ files ++ List.map Prod.snd (takeBack b (bf - files.length) rest).2).Perm
              (files ++ ((takeBack b (bf - files.length) rest).1 ++ List.map Prod.snd (takeBack b (bf - files.length) rest).2)) := by
            rw [List.append_assoc]
            exact List.perm_append_comm.trans (by rw [List.append_assoc]; exact List.Perm.append_left _ List.perm_append_comm)
          exact this.trans (List.Perm.append_left _ hb)
        · rw [i2, List.length_append]; omega
        · rw [List.length_append] at i3; omega
    · simp only [hc]
      simp

theorem pullLoop_progress (bf : Nat) (fuel : Nat) (files : List DS) (rest : List (Nat × DS))
    (hf : 0 < fuel) (hr : rest ≠ []) (hlt : files.length < bf) :
    files.length < (pullLoop bf fuel files rest).1.length := by
  cases fuel with
  | zero => omega
  | succ f =>
    unfold pullLoop
    have hc : (!rest.isEmpty && decide (0 < bf - files.length)) = true := by
      have : rest.isEmpty = false := by cases rest <;> simp_all
      simp [this]; omega
    simp only [hc, if_true]
    cases hm : minBin rest with
    | none => exact absurd (minBin_eq_none.1 hm) hr
    | some b =>
      simp only
      have hne := takeBack_ne_nil b (bf - files.length) rest (by omega) (minBin_mem hm)
      have := (pullLoop_spec bf f ((takeBack b (bf - files.length) rest).1 ++ files) (takeBack b (bf - files.length) rest).2).2.2
      rw [List.length_append] at this
      have : 0 < (takeBack b (bf - files.length) rest).1.length := List.length_pos_iff.2 hne
      omega

/-! ### one step: inputs, samples, planMeasure -/

theorem merged_leaves (cs : List (List Nat)) :
    (cs.map fun c => DS.mk c c.length).flatMap DS.leaves = cs.flatten := by
  induction cs with
  | nil => rfl
  | cons c t ih => simp only [List.map_cons, List.flatMap_cons, List.flatten_cons, ih]

theorem merged_vleaves (flog : Nat → Nat) (cs : List (List Nat)) :
    ((cs.map fun c => DS.mk c c.length).map fun d => (natBin flog d.n, d)).flatMap (fun p => p.2.leaves) = cs.flatten := by
  induction cs with
  | nil => rfl
  | cons c t ih => simp only [List.map_cons, List.flatMap_cons, List.flatten_cons, ih]

theorem merged_n (cs : List (List Nat)) :
    ((cs.map fun c => DS.mk c c.length).map (·.n)).sum = (cs.map List.length).sum := by
  induction cs with
  | nil => rfl
  | cons c t ih => simp only [List.map_cons, List.sum_cons, ih]

theorem merged_vn (flog : Nat → Nat) (cs : List (List Nat)) :
    (((cs.map fun c => DS.mk c c.length).map fun d => (natBin flog d.n, d)).map (fun p => p.2.n)).sum
      = (cs.map List.length).sum := by
  induction cs with
  | nil => rfl
  | cons c t ih => simp only [List.map_cons, List.sum_cons, ih]

theorem vleaves_eq (l : List (Nat × DS)) :
    l.flatMap (fun p => p.2.leaves) = (l.map Prod.snd).flatMap (fun x : DS => x.leaves) := by
  rw [List.flatMap_map]

theorem vn_eq (l : List (Nat × DS)) : l.map (fun p => p.2.n) = (l.map Prod.snd).map (fun x : DS => x.n) := by
  rw [List.map_map]; rfl

theorem count_take_drop (a : Nat) (m : Nat) (l : List Nat) :
    (l.take m).count a + (l.drop m).count a = l.count a := by
  rw [← List.count_append, List.take_append_drop]

theorem stepGvcfs_leaves (flog : Nat → Nat) (s : Plan) (hbf : 1 ≤ s.bf) :
    (allLeaves (stepGvcfs flog s)).Perm (allLeaves s) := by
  have hc := (chunks_flatten s.bf hbf (s.gvcfs.take (s.batch * s.bf))).1
  rw [List.perm_iff_count]
  intro a
  have htd := count_take_drop a (s.batch * s.bf) s.gvcfs
  unfold stepGvcfs
  simp only
  split
  · simp only [allLeaves, List.flatMap_append, merged_leaves, hc, List.count_append]; omega
  · simp only [allLeaves, List.flatMap_append, merged_vleaves, hc, List.count_append]; omega

theorem stepGvcfs_totalN (flog : Nat → Nat) (s : Plan) (hbf : 1 ≤ s.bf) :
    totalN (stepGvcfs flog s) = totalN s := by
  have hc := (chunks_flatten s.bf hbf (s.gvcfs.take (s.batch * s.bf))).2.2
  have hl : (s.gvcfs.take (s.batch * s.bf)).length + (s.gvcfs.drop (s.batch * s.bf)).length = s.gvcfs.length := by
    rw [← List.length_append, List.take_append_drop]
  unfold stepGvcfs
  simp only
  split
  · simp only [totalN, List.map_append, List.sum_append, merged_n, hc]; omega
  · simp only [totalN, List.map_append, List.sum_append, merged_vn, hc]; omega

theorem stepGvcfs_measure (flog : Nat → Nat) (s : Plan) (hbf : 1 ≤ s.bf) (hb : 1 ≤ s.batch) (hg : s.gvcfs ≠ []) :
    planMeasure (stepGvcfs flog s) < planMeasure s := by
  have hc := (chunks_flatten s.bf hbf (s.gvcfs.take (s.batch * s.bf))).2.1
  have hm : 1 ≤ s.batch * s.bf := Nat.mul_le_mul hb hbf
  have hlen : 0 < s.gvcfs.length := List.length_pos_iff.2 hg
  have ht : (s.gvcfs.take (s.batch * s.bf)).length = min (s.batch * s.bf) s.gvcfs.length := List.length_take
  have hd : (s.gvcfs.drop (s.batch * s.bf)).length = s.gvcfs.length - s.batch * s.bf := List.length_drop
  unfold stepGvcfs
  simp only
  split
  · simp only [planMeasure]; omega
  · simp only [planMeasure, List.length_append, List.length_map]; omega

/-- the files chosen by `_step_vdses` and what stays, as a split of the datasets -/
theorem stepVdses_split (s : Plan) (b0 : Nat) :
    let r := pullLoop s.bf s.bf (takeFront b0 s.bf s.vdses).1 (takeFront b0 s.bf s.vdses).2
    (r.1 ++ r.2.map Prod.snd).Perm (s.vdses.map Prod.snd) ∧ r.1.length + r.2.length = s.vdses.length
      ∧ (takeFront b0 s.bf s.vdses).1.length ≤ r.1.length := by
  intro r
  obtain ⟨p1, p2, p3⟩ := pullLoop_spec s.bf s.bf (takeFront b0 s.bf s.vdses).1 (takeFront b0 s.bf s.vdses).2
  exact ⟨p1.trans (takeFront_ds b0 s.bf s.vdses), by rw [p2]; exact takeFront_length b0 s.vdses s.bf, p3⟩

theorem stepVdses_leaves (flog : Nat → Nat) (s : Plan) : (allLeaves (stepVdses flog s)).Perm (allLeaves s) := by
  unfold stepVdses
  cases hm : minBin s.vdses with
  | none => exact List.Perm.refl _
  | some b0 =>
    simp only
    obtain ⟨p1, _, _⟩ := stepVdses_split s b0
    have hp := (p1.flatMap_right (fun x : DS => x.leaves))
    rw [List.perm_iff_count] at hp ⊢
    intro a
    have := hp a
    simp only [List.flatMap_append, List.count_append] at this
    split
    · simp only [allLeaves, List.flatMap_append, List.flatMap_cons, List.flatMap_nil, List.append_nil,
        List.count_append, vleaves_eq] at this ⊢
      omega
    · simp only [allLeaves, List.flatMap_append, List.flatMap_cons, List.flatMap_nil, List.append_nil,
        List.count_append, vleaves_eq, List.map_append, List.map_cons, List.map_nil] at this ⊢
      omega

theorem stepVdses_totalN (flog : Nat → Nat) (s : Plan) : totalN (stepVdses flog s) = totalN s := by
  unfold stepVdses
  cases hm : minBin s.vdses with
  | none => rfl
  | some b0 =>
    simp only
    obtain ⟨p1, _, _⟩ := stepVdses_split s b0
    have hp := (p1.map (fun x : DS => x.n)).sum_nat
    simp only [List.map_append, List.sum_append] at hp
    split
    · simp only [totalN, vn_eq, List.map_append, List.sum_append, List.map_cons, List.map_nil, List.sum_cons,
        List.sum_nil] at hp ⊢
      omega
    · simp only [totalN, vn_eq, List.map_append, List.sum_append, List.map_cons, List.map_nil, List.sum_cons,
        List.sum_nil] at hp ⊢
      omega

theorem stepVdses_measure (flog : Nat → Nat) (s : Plan) (hbf : 2 ≤ s.bf) (hg : s.gvcfs = []) (hv : s.vdses ≠ []) :
    planMeasure (stepVdses flog s) < planMeasure s := by
  unfold stepVdses
  cases hm : minBin s.vdses with
  | none => exact absurd (minBin_eq_none.1 hm) hv
  | some b0 =>
    simp only
    obtain ⟨_, p2, p3⟩ := stepVdses_split s b0
    have hne := takeFront_ne_nil b0 s.vdses s.bf (by omega) (minBin_mem hm)
    have h1 : 0 < (takeFront b0 s.bf s.vdses).1.length := List.length_pos_iff.2 hne
    have hl := takeFront_length b0 s.vdses s.bf
    split
    · simp only [planMeasure]; omega
    next hcond =>
      simp only [planMeasure, List.length_append, List.length_cons, List.length_nil]
      -- not finished after the merge: something is left, so at least two files were merged
      have hrest : (pullLoop s.bf s.bf (takeFront b0 s.bf s.vdses).1 (takeFront b0 s.bf s.vdses).2).2 ≠ [] := by
        intro hc
        apply hcond
        simp [hg, hc]
      have hrl : 0 < (pullLoop s.bf s.bf (takeFront b0 s.bf s.vdses).1 (takeFront b0 s.bf s.vdses).2).2.length :=
        List.length_pos_iff.2 hrest
      have h2 : 2 ≤ (pullLoop s.bf s.bf (takeFront b0 s.bf s.vdses).1 (takeFront b0 s.bf s.vdses).2).1.length := by
        by_cases hf : 2 ≤ (takeFront b0 s.bf s.vdses).1.length
        · omega
        · have hr1 : (takeFront b0 s.bf s.vdses).2 ≠ [] := by
            intro hc
            have h0 : (takeFront b0 s.bf s.vdses).2.length = 0 := by rw [hc]; rfl
            omega
          have := pullLoop_progress s.bf s.bf (takeFront b0 s.bf s.vdses).1 (takeFront b0 s.bf s.vdses).2
            (by omega) hr1 (by omega)
          omega
      omega

theorem finished_iff (s : Plan) : finished s = true ↔ s.gvcfs = [] ∧ s.vdses = [] := by
  unfold finished; simp [List.isEmpty_iff]

theorem step_leaves (flog : Nat → Nat) (s : Plan) (h : WF s) : (allLeaves (step flog s)).Perm (allLeaves s) := by
  unfold step
  split
  · exact List.Perm.refl _
  · split
    · exact stepGvcfs_leaves flog s (by have := h.1; omega)
    · exact stepVdses_leaves flog s

theorem step_totalN (flog : Nat → Nat) (s : Plan) (h : WF s) : totalN (step flog s) = totalN s := by
  unfold step
  split
  · rfl
  · split
    · exact stepGvcfs_totalN flog s (by have := h.1; omega)
    · exact stepVdses_totalN flog s

theorem step_measure (flog : Nat → Nat) (s : Plan) (h : WF s) (hnf : finished s = false) :
    planMeasure (step flog s) < planMeasure s := by
  unfold step
  rw [hnf]
  simp only [Bool.false_eq_true, if_false]
  split
  next hg =>
    have : s.gvcfs ≠ [] := by intro hc; simp [hc] at hg
    exact stepGvcfs_measure flog s (by have := h.1; omega) h.2 this
  next hg =>
    have hg' : s.gvcfs = [] := by
      cases hgv : s.gvcfs with
      | nil => rfl
      | cons a t => simp [hgv] at hg
    have hv : s.vdses ≠ [] := by
      intro hc
      have : finished s = true := (finished_iff s).2 ⟨hg', hc⟩
      rw [this] at hnf; cases hnf
    exact stepVdses_measure flog s h.1 hg' hv

/-! ### save → load -/

theorem insertDesc_perm (x : Nat × DS) : ∀ l, (insertDesc x l).Perm (x :: l) := by
  intro l
  induction l with
  | nil => exact List.Perm.refl _
  | cons y t ih =>
    unfold insertDesc
    split
    · exact (List.Perm.cons y ih).trans (List.Perm.swap x y t)
    · exact List.Perm.refl _

theorem foldl_insertDesc_perm : ∀ (l acc : List (Nat × DS)),
    (l.foldl (fun acc x => insertDesc x acc) acc).Perm (l ++ acc) := by
  intro l
  induction l with
  | nil => intro acc; exact List.Perm.refl _
  | cons x t ih =>
    intro acc
    simp only [List.foldl_cons]
    refine (ih (insertDesc x acc)).trans ?_
    refine (List.Perm.append_left t (insertDesc_perm x acc)).trans ?_
    exact List.perm_middle

theorem sortDesc_perm (l : List (Nat × DS)) : (sortDesc l).Perm l := by
  have := foldl_insertDesc_perm l []
  simpa [sortDesc] using this

theorem reload_ds (flog : Nat → Nat) (s : Plan) : ((reload flog s).vdses.map Prod.snd).Perm (s.vdses.map Prod.snd) := by
  unfold reload
  simp only [List.map_map]
  have : (Prod.snd ∘ fun p : Nat × DS => (natBin flog p.2.n, p.2)) = Prod.snd := by funext p; rfl
  rw [this]
  exact (sortDesc_perm s.vdses).map _

theorem reload_leaves (flog : Nat → Nat) (s : Plan) : (allLeaves (reload flog s)).Perm (allLeaves s) := by
  have h := (reload_ds flog s).flatMap_right (fun x : DS => x.leaves)
  unfold allLeaves
  rw [vleaves_eq, vleaves_eq]
  exact List.Perm.append_right _ (List.Perm.append_left _ h)

theorem reload_totalN (flog : Nat → Nat) (s : Plan) : totalN (reload flog s) = totalN s := by
  have h := ((reload_ds flog s).map (fun x : DS => x.n)).sum_nat
  unfold totalN
  rw [vn_eq, vn_eq, h]; rfl

theorem reload_measure (flog : Nat → Nat) (s : Plan) : planMeasure (reload flog s) = planMeasure s := by
  have h := (reload_ds flog s).length_eq
  simp only [List.length_map] at h
  unfold planMeasure
  rw [h]; rfl

theorem reload_finished (flog : Nat → Nat) (s : Plan) : finished (reload flog s) = finished s := by
  have h := (reload_ds flog s).length_eq
  simp only [List.length_map] at h
  unfold finished
  have : (reload flog s).gvcfs = s.gvcfs := rfl
  rw [this]
  congr 1
  cases h1 : (reload flog s).vdses <;> cases h2 : s.vdses <;> simp_all

/-! ### the run -/

/-- nothing has been written to the output path, or exactly one dataset has and the plan is finished -/
def FinalsOK (s : Plan) : Prop := s.finals = [] ∨ (finished s = true ∧ s.finals.length = 1)

theorem step_of_finished (flog : Nat → Nat) (s : Plan) (h : finished s = true) : step flog s = s := by
  unfold step; simp [h]

theorem step_WF (flog : Nat → Nat) (s : Plan) (h : WF s) : WF (step flog s) := by
  unfold step
  split
  · exact h
  · split
    · unfold stepGvcfs; simp only; split <;> exact h
    · unfold stepVdses
      cases minBin s.vdses with
      | none => exact h
      | some b0 => simp only; split <;> exact h

theorem reload_WF (flog : Nat → Nat) (s : Plan) (h : WF s) : WF (reload flog s) := h

theorem stepGvcfs_finalsOK (flog : Nat → Nat) (s : Plan) (h0 : s.finals = []) : FinalsOK (stepGvcfs flog s) := by
  unfold stepGvcfs
  simp only
  split
  next hc =>
    right
    simp only [Bool.and_eq_true, beq_iff_eq] at hc
    refine ⟨?_, ?_⟩
    · unfold finished; simp only [hc.1.1, hc.1.2, Bool.and_self]
    · simp only [h0, List.nil_append]; exact hc.2
  next => left; exact h0

theorem stepVdses_finalsOK (flog : Nat → Nat) (s : Plan) (h0 : s.finals = []) : FinalsOK (stepVdses flog s) := by
  unfold stepVdses
  cases minBin s.vdses with
  | none => left; exact h0
  | some b0 =>
    simp only
    split
    next hc =>
      right
      simp only [Bool.and_eq_true] at hc
      refine ⟨?_, ?_⟩
      · unfold finished; simp only [hc.1, hc.2, Bool.and_self]
      · simp only [h0, List.nil_append, List.length_cons, List.length_nil]
    next => left; exact h0

theorem step_finalsOK (flog : Nat → Nat) (s : Plan) (h : FinalsOK s) : FinalsOK (step flog s) := by
  by_cases hf : finished s = true
  · rw [step_of_finished flog s hf]; exact h
  · have h0 : s.finals = [] := by
      rcases h with h | ⟨h, _⟩
      · exact h
      · exact absurd h hf
    unfold step
    split
    · exact Or.inl h0
    · split
      · exact stepGvcfs_finalsOK flog s h0
      · exact stepVdses_finalsOK flog s h0

theorem reload_finalsOK (flog : Nat → Nat) (s : Plan) (h : FinalsOK s) : FinalsOK (reload flog s) := by
  unfold FinalsOK at h ⊢
  rw [reload_finished]
  exact h

/-- one step of a run with an optional save → load before it -/
def stepR (flog : Nat → Nat) (r : Bool) (s : Plan) : Plan := step flog (if r then reload flog s else s)

theorem runWith_succ (flog : Nat → Nat) (resume : Nat → Bool) (n i : Nat) (s : Plan) :
    runWith flog resume (n + 1) i s = runWith flog resume n (i + 1) (stepR flog (resume i) s) := rfl

theorem stepR_props (flog : Nat → Nat) (r : Bool) (s : Plan) (hw : WF s) (hf : FinalsOK s) :
    WF (stepR flog r s) ∧ FinalsOK (stepR flog r s) ∧ (allLeaves (stepR flog r s)).Perm (allLeaves s)
      ∧ totalN (stepR flog r s) = totalN s
      ∧ (finished s = true → finished (stepR flog r s) = true)
      ∧ (finished s = false → planMeasure (stepR flog r s) < planMeasure s) := by
  unfold stepR
  cases r
  · simp only [Bool.false_eq_true, if_false]
    refine ⟨step_WF flog s hw, step_finalsOK flog s hf, step_leaves flog s hw, step_totalN flog s hw, ?_, step_measure flog s hw⟩
    intro h; rw [step_of_finished flog s h]; exact h
  · simp only [if_true]
    have hw' := reload_WF flog s hw
    refine ⟨step_WF flog _ hw', step_finalsOK flog _ (reload_finalsOK flog s hf),
      (step_leaves flog _ hw').trans (reload_leaves flog s), ?_, ?_, ?_⟩
    · rw [step_totalN flog _ hw', reload_totalN]
    · intro h
      have : finished (reload flog s) = true := by rw [reload_finished]; exact h
      rw [step_of_finished flog _ this]; exact this
    · intro h
      have : finished (reload flog s) = false := by rw [reload_finished]; exact h
      have := step_measure flog _ hw' this
      rw [reload_measure] at this; exact this

theorem runWith_props (flog : Nat → Nat) (resume : Nat → Bool) : ∀ (n i : Nat) (s : Plan), WF s → FinalsOK s →
    WF (runWith flog resume n i s) ∧ FinalsOK (runWith flog resume n i s)
      ∧ (allLeaves (runWith flog resume n i s)).Perm (allLeaves s)
      ∧ totalN (runWith flog resume n i s) = totalN s
      ∧ (planMeasure s ≤ n ∨ finished s = true → finished (runWith flog resume n i s) = true) := by
  intro n
  induction n with
  | zero =>
    intro i s hw hf
    refine ⟨hw, hf, List.Perm.refl _, rfl, ?_⟩
    rintro (h | h)
    · simp only [runWith]
      rw [finished_iff]
      unfold planMeasure at h
      constructor
      · exact List.length_eq_zero_iff.1 (by omega)
      · exact List.length_eq_zero_iff.1 (by omega)
    · exact h
  | succ n ih =>
    intro i s hw hf
    rw [runWith_succ]
    obtain ⟨w1, f1, l1, t1, fin1, m1⟩ := stepR_props flog (resume i) s hw hf
    obtain ⟨w2, f2, l2, t2, fin2⟩ := ih (i + 1) (stepR flog (resume i) s) w1 f1
    refine ⟨w2, f2, l2.trans l1, by rw [t2, t1], ?_⟩
    intro h
    apply fin2
    cases hfs : finished s with
    | true => right; exact fin1 hfs
    | false =>
      left
      have := m1 hfs
      rcases h with h | h
      · omega
      · rw [hfs] at h; cases h

theorem reload_of_finished (flog : Nat → Nat) (s : Plan) (h : finished s = true) : reload flog s = s := by
  have hv := ((finished_iff s).1 h).2
  cases s
  simp only at hv
  subst hv
  rfl

theorem runWith_of_finished (flog : Nat → Nat) (resume : Nat → Bool) : ∀ (n i : Nat) (s : Plan),
    finished s = true → runWith flog resume n i s = s := by
  intro n
  induction n with
  | zero => intro i s _; rfl
  | succ n ih =>
    intro i s h
    rw [runWith_succ]
    have : stepR flog (resume i) s = s := by
      unfold stepR
      cases resume i
      · simp only [Bool.false_eq_true, if_false]; exact step_of_finished flog s h
      · simp only [if_true]; rw [reload_of_finished flog s h]; exact step_of_finished flog s h
    rw [this]; exact ih (i + 1) s h

/-! ### the constructor -/

theorem mkPlan_some {flog : Nat → Nat} {gvcfs : List Nat} {names : Option (List Nat)} {vds : List DS} {bf batch : Nat}
    {s0 : Plan} (h : mkPlan flog gvcfs names vds bf batch = some s0) :
    2 ≤ bf ∧ 1 ≤ batch ∧
      s0 = { gvcfs, names, vdses := vds.map fun d => (natBin flog d.n, d), bf, batch, finals := [] } := by
  unfold mkPlan at h
  by_cases hcfg : bf < 2 ∨ batch < 1
  · rw [if_pos hcfg] at h; cases h
  · rw [if_neg hcfg] at h
    by_cases hnm : (!namesOk names gvcfs.length) = true
    · rw [if_pos hnm] at h; cases h
    · rw [if_neg hnm] at h
      exact ⟨by omega, by omega, (Option.some.inj h).symm⟩

theorem leaves_of_inputs (vdsIn : List (Nat × Nat)) :
    (vdsIn.map fun p => DS.mk [p.1] p.2).flatMap (fun d => d.leaves) = vdsIn.map (·.1) := by
  induction vdsIn with
  | nil => rfl
  | cons x t ih => simp only [List.map_cons, List.flatMap_cons, ih, List.singleton_append]

theorem n_of_inputs (vdsIn : List (Nat × Nat)) :
    ((vdsIn.map fun p => DS.mk [p.1] p.2).map (fun d => d.n)).sum = (vdsIn.map (·.2)).sum := by
  induction vdsIn with
  | nil => rfl
  | cons x t ih => simp only [List.map_cons, List.sum_cons, ih]

/-! ### when save → load is the identity on the plan -/

/-- the list the dict holds for bin `b` -/
def binOf (l : List (Nat × DS)) (b : Nat) : List DS := (l.filter (fun p => p.1 == b)).map Prod.snd

/-- bins in non-increasing order -/
def SortedDesc (l : List (Nat × DS)) : Prop := l.Pairwise (fun x y => y.1 ≤ x.1)

theorem binOf_cons (x : Nat × DS) (l : List (Nat × DS)) (b : Nat) :
    binOf (x :: l) b = (if x.1 = b then [x.2] else []) ++ binOf l b := by
  unfold binOf
  by_cases h : x.1 = b
  · simp [List.filter_cons, h]
  · simp [List.filter_cons, h]

theorem binOf_lt (l : List (Nat × DS)) (b : Nat) (h : ∀ y ∈ l, y.1 < b) : binOf l b = [] := by
  unfold binOf
  rw [List.map_eq_nil_iff, List.filter_eq_nil_iff]
  intro y hy
  have := h y hy
  simp; omega

theorem insertDesc_spec (x : Nat × DS) : ∀ l, SortedDesc l →
    SortedDesc (insertDesc x l) ∧ ∀ b, binOf (insertDesc x l) b = binOf l b ++ (if x.1 = b then [x.2] else []) := by
  intro l
  induction l with
  | nil =>
    intro _
    refine ⟨by simp [insertDesc, SortedDesc], ?_⟩
    intro b
    show binOf [x] b = binOf [] b ++ _
    rw [binOf_cons]; simp [binOf]
  | cons y t ih =>
    intro hs
    have hs' : SortedDesc t := (List.pairwise_cons.1 hs).2
    have hy : ∀ z ∈ t, z.1 ≤ y.1 := (List.pairwise_cons.1 hs).1
    unfold insertDesc
    by_cases hxy : x.1 ≤ y.1
    · simp only [hxy, if_true]
      obtain ⟨i1, i2⟩ := ih hs'
      refine ⟨?_, ?_⟩
      · refine List.pairwise_cons.2 ⟨?_, i1⟩
        intro z hz
        have := (insertDesc_perm x t).mem_iff.1 hz
        rcases List.mem_cons.1 this with rfl | h
        · exact hxy
        · exact hy z h
      · intro b
        rw [binOf_cons, i2 b, binOf_cons, List.append_assoc]
    · simp only [hxy, if_false]
      refine ⟨?_, ?_⟩
      · refine List.pairwise_cons.2 ⟨?_, hs⟩
        intro z hz
        rcases List.mem_cons.1 hz with rfl | h
        · omega
        · have := hy z h; omega
      · intro b
        rw [binOf_cons]
        by_cases hb : x.1 = b
        · have : binOf (y :: t) b = [] := by
            apply binOf_lt
            intro z hz
            rcases List.mem_cons.1 hz with rfl | h
            · omega
            · have := hy z h; omega
          simp [hb, this]
        · simp [hb]

theorem foldl_insertDesc_spec : ∀ (l acc : List (Nat × DS)), SortedDesc acc →
    ∀ b, binOf (l.foldl (fun acc x => insertDesc x acc) acc) b = binOf acc b ++ binOf l b := by
  intro l
  induction l with
  | nil => intro acc _ b; simp [binOf]
  | cons x t ih =>
    intro acc hs b
    simp only [List.foldl_cons]
    obtain ⟨s1, s2⟩ := insertDesc_spec x acc hs
    rw [ih (insertDesc x acc) s1 b, s2 b, binOf_cons, List.append_assoc]

theorem sortDesc_binOf (l : List (Nat × DS)) (b : Nat) : binOf (sortDesc l) b = binOf l b := by
  have := foldl_insertDesc_spec l [] (by simp [SortedDesc]) b
  simpa [sortDesc, binOf] using this

/-! ### import intervals through save → load -/

theorem decode_encode_iv (i : Iv) : decodeIv (encodeIv i) = i := by cases i; rfl

theorem reloadIntervals_eq (ivs : List Iv) : reloadIntervals ivs = ivs := by
  unfold reloadIntervals
  rw [List.map_map]
  have : (decodeIv ∘ encodeIv) = id := by funext i; exact decode_encode_iv i
  rw [this, List.map_id]

theorem closedIv_covers (c : Nat) (iv : Nat × Nat) (p : Nat) : (closedIv c iv).covers c p = covers p iv := by
  unfold closedIv Iv.covers covers
  simp

/-! ### progress of a GVCF step and the batch-size setter -/

theorem stepGvcfs_consumes (flog : Nat → Nat) (s : Plan) (hbf : 1 ≤ s.bf) (hb : 1 ≤ s.batch) (hg : s.gvcfs ≠ []) :
    (stepGvcfs flog s).gvcfs.length < s.gvcfs.length := by
  have hm : 1 ≤ s.batch * s.bf := Nat.mul_le_mul hb hbf
  have hlen : 0 < s.gvcfs.length := List.length_pos_iff.2 hg
  have hd : (s.gvcfs.drop (s.batch * s.bf)).length = s.gvcfs.length - s.batch * s.bf := List.length_drop
  unfold stepGvcfs
  simp only
  split <;> simp only <;> omega

theorem stepGvcfs_zero_batch (flog : Nat → Nat) (s : Plan) (hb : s.batch = 0) (hg : s.gvcfs ≠ []) :
    stepGvcfs flog s = s := by
  unfold stepGvcfs
  simp only [hb, Nat.zero_mul, List.take_zero, List.drop_zero]
  have hc : chunks s.bf ([] : List Nat) = [] := by simp [chunks, chunksAux]
  have hne : s.gvcfs.isEmpty = false := by cases h : s.gvcfs <;> simp_all
  simp only [hc, List.map_nil, hne, Bool.false_and, Bool.false_eq_true, if_false, List.append_nil]
  cases s with
  | mk g n v bf b f =>
    simp only at hb
    subst hb
    cases n <;> simp

theorem clampBatch_pos {nIv v : Nat} (hv : 1 ≤ v) : 1 ≤ clampBatch nIv v := by
  unfold clampBatch
  split
  · exact Nat.le_max_left _ _
  · exact hv

theorem clampBatch_le {nIv v : Nat} (hv : 1 ≤ v) : clampBatch nIv v ≤ v := by
  unfold clampBatch
  split
  next h =>
    have hpos : 0 < nIv := by
      rcases Nat.eq_zero_or_pos nIv with h0 | h0
      · subst h0; simp at h
      · exact h0
    have : mergeTaskLimit / nIv ≤ v := by
      apply Nat.le_of_lt_succ
      rw [Nat.div_lt_iff_lt_mul hpos]
      exact Nat.lt_of_lt_of_le h (Nat.mul_le_mul_right _ (Nat.le_succ v))
    exact Nat.max_le.2 ⟨hv, this⟩
  · exact Nat.le_refl _

theorem clampBatchOld_pos {nIv v : Nat} (hn : nIv ≤ mergeTaskLimit) (hv : 1 ≤ v) : 1 ≤ clampBatchOld nIv v := by
  unfold clampBatchOld
  split
  next h =>
    have hpos : 0 < nIv := by
      rcases Nat.eq_zero_or_pos nIv with h0 | h0
      · subst h0; simp at h
      · exact h0
    exact (Nat.le_div_iff_mul_le hpos).2 (by omega)
  · exact hv

/-! ### runs with failures inside steps -/

theorem runFaulty_props (flog : Nat → Nat) : ∀ (os : List Outcome) (r : RunSt), WF r.mem → FinalsOK r.mem →
    WF (runFaulty flog os r).mem ∧ FinalsOK (runFaulty flog os r).mem
      ∧ (allLeaves (runFaulty flog os r).mem).Perm (allLeaves r.mem)
      ∧ totalN (runFaulty flog os r).mem = totalN r.mem
      ∧ (planMeasure r.mem ≤ (os.filter (· = Outcome.done)).length ∨ finished r.mem = true →
          finished (runFaulty flog os r).mem = true) := by
  intro os
  induction os with
  | nil =>
    intro r hw hf
    refine ⟨hw, hf, List.Perm.refl _, rfl, ?_⟩
    rintro (h | h)
    · simp only [runFaulty]
      rw [finished_iff]
      simp only [List.filter_nil, List.length_nil] at h
      unfold planMeasure at h
      exact ⟨List.length_eq_zero_iff.1 (by omega), List.length_eq_zero_iff.1 (by omega)⟩
    · exact h
  | cons o os ih =>
    intro r hw hf
    simp only [runFaulty]
    cases o with
    | done =>
      have hw1 := step_WF flog r.mem hw
      have hf1 := step_finalsOK flog r.mem hf
      obtain ⟨w2, f2, l2, t2, fin2⟩ := ih (iter flog .done r) hw1 hf1
      refine ⟨w2, f2, l2.trans (step_leaves flog r.mem hw), by rw [t2]; exact step_totalN flog r.mem hw, ?_⟩
      intro h
      apply fin2
      cases hfs : finished r.mem with
      | true => right; show finished (step flog r.mem) = true; rw [step_of_finished flog _ hfs]; exact hfs
      | false =>
        left
        have hm := step_measure flog r.mem hw hfs
        rcases h with h | h
        · simp only [List.filter_cons, decide_true, if_true, List.length_cons] at h
          show planMeasure (step flog r.mem) ≤ _
          omega
        · rw [hfs] at h; cases h
    | fault =>
      have hw1 := reload_WF flog r.mem hw
      have hf1 := reload_finalsOK flog r.mem hf
      obtain ⟨w2, f2, l2, t2, fin2⟩ := ih (iter flog .fault r) hw1 hf1
      refine ⟨w2, f2, l2.trans (reload_leaves flog r.mem), by rw [t2]; exact reload_totalN flog r.mem, ?_⟩
      intro h
      apply fin2
      rcases h with h | h
      · left
        show planMeasure (reload flog r.mem) ≤ _
        rw [reload_measure]
        simpa [List.filter_cons] using h
      · right
        show finished (reload flog r.mem) = true
        rw [reload_finished]; exact h

/-- what a finished plan has produced, given the invariants of a run -/
theorem finished_result {s : Plan} {inputs : List Nat} {total : Nat} (hf : FinalsOK s) (hfin : finished s = true)
    (hl : (allLeaves s).Perm inputs) (ht : totalN s = total) (hne : inputs ≠ []) :
    s.gvcfs = [] ∧ s.vdses = [] ∧ ∃ d, s.finals = [d] ∧ d.leaves.Perm inputs ∧ d.n = total := by
  have hdone := (finished_iff s).1 hfin
  have hs_leaves : allLeaves s = s.finals.flatMap (·.leaves) := by
    unfold allLeaves; rw [hdone.1, hdone.2]; rfl
  have hs_tot : totalN s = (s.finals.map (·.n)).sum := by
    unfold totalN; rw [hdone.1, hdone.2]; simp only [List.length_nil, List.map_nil, List.sum_nil, Nat.zero_add]
  refine ⟨hdone.1, hdone.2, ?_⟩
  rcases hf with hnil | ⟨_, hlen⟩
  · exfalso
    have : allLeaves s = [] := by rw [hs_leaves, hnil]; rfl
    rw [this] at hl
    exact hne (List.Perm.nil_eq hl).symm
  · obtain ⟨d, hd⟩ := List.length_eq_one_iff.1 hlen
    refine ⟨d, hd, ?_, ?_⟩
    · have : allLeaves s = d.leaves := by rw [hs_leaves, hd]; simp
      rw [← this]; exact hl
    · have : totalN s = d.n := by rw [hs_tot, hd]; simp
      rw [← this]; exact ht

end HailVerif.Combiner

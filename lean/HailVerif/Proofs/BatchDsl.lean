import HailVerif.Model.BatchDsl
/-! Helper lemmas for C18 (`HailVerif.Props.C18`). -/
namespace HailVerif.BatchDsl

/-! ### paths -/

/-- a string is cut uniquely at its first occurrence of `x` -/
theorem split_at_char (x : Char) : ∀ (a a' b b' : Str), x ∉ a → x ∉ a' → a ++ x :: b = a' ++ x :: b' → a = a' ∧ b = b'
  | [], [], b, b', _, _, h => by simp at h; exact ⟨rfl, h⟩
  | [], c :: a', b, b', _, h', h => by
    simp at h
    exact absurd (by rw [← h.1]; exact List.mem_cons_self) h'
  | c :: a, [], b, b', ha, _, h => by
    simp at h
    exact absurd (by rw [h.1]; exact List.mem_cons_self) ha
  | c :: a, c' :: a', b, b', ha, ha', h => by
    simp only [List.cons_append, List.cons.injEq] at h
    obtain ⟨hc, ht⟩ := h
    have := split_at_char x a a' b b' (fun hm => ha (List.mem_cons_of_mem _ hm)) (fun hm => ha' (List.mem_cons_of_mem _ hm)) ht
    exact ⟨by rw [hc, this.1], this.2⟩

theorem split_at_slash (a a' b b' : Str) (h₁ : '/' ∉ a) (h₂ : '/' ∉ a') (h : a ++ '/' :: b = a' ++ '/' :: b') : a = a' ∧ b = b' :=
  split_at_char '/' a a' b b' h₁ h₂ h

/-! ### decimal numerals and the names of converted PythonResults -/

theorem digitChar_inj {a b : Nat} (ha : a < 10) (hb : b < 10) (h : Nat.digitChar a = Nat.digitChar b) : a = b := by
  have h1 := Nat.toNat_digitChar_of_lt_ten ha
  have h2 := Nat.toNat_digitChar_of_lt_ten hb
  rw [h] at h1
  omega

/-- `str(n)` determines `n` -/
theorem toDigits_inj : ∀ (n m : Nat), Nat.toDigits 10 n = Nat.toDigits 10 m → n = m := by
  intro n
  induction n using Nat.strongRecOn with
  | _ n ih =>
    intro m h
    have small : ∀ k, k < 10 → Nat.toDigits 10 k = [Nat.digitChar k] := fun k hk => Nat.toDigits_of_lt_base hk
    have big : ∀ k, ¬ k < 10 → Nat.toDigits 10 k = Nat.toDigits 10 (k / 10) ++ [Nat.digitChar (k % 10)] :=
      fun k hk => Nat.toDigits_of_base_le (by decide) (by omega)
    have pos : ∀ k, 0 < (Nat.toDigits 10 k).length := fun k => Nat.length_toDigits_pos
    by_cases hn : n < 10
    · by_cases hm : m < 10
      · have e1 := small n hn
        have e2 := small m hm
        rw [e1, e2] at h
        exact digitChar_inj hn hm (by simpa using h)
      · have e1 := small n hn
        have e2 := big m hm
        rw [e1, e2] at h
        have hl := congrArg List.length h
        have := pos (m / 10)
        simp only [List.length_cons, List.length_nil, List.length_append] at hl
        omega
    · by_cases hm : m < 10
      · have e1 := big n hn
        have e2 := small m hm
        rw [e1, e2] at h
        have hl := congrArg List.length h
        have := pos (n / 10)
        simp only [List.length_cons, List.length_nil, List.length_append] at hl
        omega
      · have e1 := big n hn
        have e2 := big m hm
        rw [e1, e2] at h
        have hlen : (Nat.toDigits 10 (n / 10)).length = (Nat.toDigits 10 (m / 10)).length := by
          have hl := congrArg List.length h
          simp only [List.length_cons, List.length_nil, List.length_append] at hl
          omega
        obtain ⟨h1, h2⟩ := List.append_inj h hlen
        have hd := ih (n / 10) (Nat.div_lt_self (by omega) (by decide)) (m / 10) h1
        have hr := digitChar_inj (Nat.mod_lt n (by decide)) (Nat.mod_lt m (by decide)) (by simpa using h2)
        have := Nat.div_add_mod n 10
        have := Nat.div_add_mod m 10
        omega

theorem toDigits_no_dash (n : Nat) : '-' ∉ Nat.toDigits 10 n := by
  intro h
  have := Nat.isDigit_of_mem_toDigits (by decide) (by decide) h
  revert this; decide

/-- the file name of a converted result determines the call and the conversion -/
theorem convValue_inj (k₁ k₂ : Nat) (c₁ c₂ : Conv) (h : convValue k₁ c₁ = convValue k₂ c₂) : k₁ = k₂ ∧ c₁ = c₂ := by
  simp only [convValue, convKey, resultName, List.append_assoc, List.cons_append, List.nil_append, List.cons.injEq, true_and] at h
  have hsplit : ∀ (c : Conv), ∃ t, c.stem ++ c.ext = '-' :: t := by intro c; cases c <;> exact ⟨_, rfl⟩
  obtain ⟨t₁, ht₁⟩ := hsplit c₁
  obtain ⟨t₂, ht₂⟩ := hsplit c₂
  rw [ht₁, ht₂] at h
  obtain ⟨hd, ht⟩ := split_at_char '-' _ _ _ _ (toDigits_no_dash _) (toDigits_no_dash _) h
  have hk := toDigits_inj _ _ hd
  refine ⟨by omega, ?_⟩
  have : c₁.stem ++ c₁.ext = c₂.stem ++ c₂.ext := by rw [ht₁, ht₂, ht]
  revert this
  cases c₁ <;> cases c₂ <;> decide

/-! ### job directories -/

/-- the token can be read back from the directory name: it is everything after the last `-` (tokens are alphanumeric) -/
theorem jobDirname_token (n₁ n₂ : Option Str) (t₁ t₂ : Str) (h₁ : '-' ∉ t₁) (h₂ : '-' ∉ t₂)
    (h : jobDirname n₁ t₁ = jobDirname n₂ t₂) : t₁ = t₂ := by
  cases n₁ with
  | none =>
    cases n₂ with
    | none => exact h
    | some m =>
      simp only [jobDirname] at h
      exact absurd (by rw [h]; simp) h₁
  | some m₁ =>
    cases n₂ with
    | none =>
      simp only [jobDirname] at h
      exact absurd (by rw [← h]; simp) h₂
    | some m₂ =>
      simp only [jobDirname, List.append_assoc, List.singleton_append] at h
      have hr := congrArg List.reverse h
      simp only [List.reverse_append, List.reverse_cons, List.append_assoc, List.singleton_append] at hr
      have := split_at_char '-' t₁.reverse t₂.reverse _ _ (by simpa using h₁) (by simpa using h₂) hr
      simpa using congrArg List.reverse this.1

theorem safeStr_no_slash (s : Str) : '/' ∉ safeStr s := by
  intro h
  obtain ⟨c, _, hc⟩ := List.mem_map.mp h
  split at hc
  · next hal => rw [hc] at hal; simp at hal
  · cases hc

theorem jobDirname_no_slash (n : Option Str) (t : Str) (ht : '/' ∉ t) : '/' ∉ jobDirname n t := by
  cases n with
  | none => exact ht
  | some m =>
    simp only [jobDirname, List.append_assoc, List.mem_append, List.mem_singleton, not_or]
    exact ⟨fun h => safeStr_no_slash m (List.mem_of_mem_take h), by decide, ht⟩

/-! ### the tokenizer -/

theorem stripPrefix_append (p s : Str) : stripPrefix p (p ++ s) = some s := by
  induction p with
  | nil => rfl
  | cons a p ih => simp [stripPrefix, ih]

theorem stripPrefix_dunder (p s r : Str) (h : stripPrefix ('_' :: '_' :: p) s = some r) : ∃ t, s = '_' :: '_' :: t := by
  match s, h with
  | [], h => simp [stripPrefix] at h
  | [a], h =>
    simp only [stripPrefix] at h
    split at h <;> simp at h
  | a :: b :: t, h =>
    simp only [stripPrefix] at h
    split at h
    · next ha =>
      split at h
      · next hb => exact ⟨t, by rw [← ha, ← hb]⟩
      · cases h
    · cases h

/-- every alternative of the regex starts with two underscores -/
theorem matchKind_some_starts (k : UKind) (s : Str) (ds : Str) (h : matchKind k s = some ds) :
    ∃ r, s = '_' :: '_' :: r := by
  unfold matchKind at h
  cases hsp : stripPrefix (uprefix k) s with
  | none => rw [hsp] at h; cases h
  | some r =>
    cases k <;> exact stripPrefix_dunder _ s r hsp

theorem matchUid_some_starts (s : Str) (k : UKind) (ds : Str) (h : matchUid s = some (k, ds)) : ∃ r, s = '_' :: '_' :: r := by
  unfold matchUid at h
  obtain ⟨k', _, hk⟩ := List.exists_of_findSome?_eq_some h
  cases hm : matchKind k' s with
  | none => rw [hm] at hk; simp at hk
  | some d => exact matchKind_some_starts k' s d hm

theorem matchUid_none_of_not_dunder (c : Char) (s : Str) (h : ¬ (c = '_' ∧ s.head? = some '_')) : matchUid (c :: s) = none := by
  cases hm : matchUid (c :: s) with
  | none => rfl
  | some p =>
    obtain ⟨k, ds⟩ := p
    obtain ⟨r, hr⟩ := matchUid_some_starts _ k ds hm
    simp only [List.cons.injEq] at hr
    exact absurd ⟨hr.1, by rw [hr.2]; rfl⟩ h

theorem takeWhile_digits_append (ds rest : Str) (hd : ∀ c ∈ ds, c.isDigit = true) (hr : ∀ c, rest.head? = some c → c.isDigit = false) :
    (ds ++ rest).takeWhile Char.isDigit = ds := by
  induction ds with
  | nil =>
    cases rest with
    | nil => rfl
    | cons c r => simp [hr c rfl]
  | cons d ds ih =>
    simp only [List.cons_append, List.takeWhile, hd d List.mem_cons_self]
    rw [ih fun c hc => hd c (List.mem_cons_of_mem _ hc)]

/-- at the start of `PREFIX ++ digits ++ rest`, with `rest` not beginning with a digit, the regex matches exactly the uid -/
theorem matchUid_uid (k : UKind) (hk : k = .rf ∨ k = .rg) (ds rest : Str) (hne : ds ≠ []) (hd : ∀ c ∈ ds, c.isDigit = true)
    (hr : ∀ c, rest.head? = some c → c.isDigit = false) :
    matchUid (uprefix k ++ ds ++ rest) = some (k, ds) := by
  have htw := takeWhile_digits_append ds rest hd hr
  rcases hk with rfl | rfl
  · simp only [matchUid, ukinds, List.findSome?, matchKind, List.append_assoc, stripPrefix_append, htw, hne, if_false, Option.map]
  · have h1 : matchKind .rf (uprefix .rg ++ ds ++ rest) = none := by
      simp [matchKind, uprefix, stripPrefix]
    simp only [matchUid, ukinds, List.findSome?, h1, Option.map]
    simp only [matchKind, List.append_assoc, stripPrefix_append, htw, hne, if_false]

theorem tokenize_skip (xs rest : Str) : tokenize (xs ++ rest) xs.length = tokenize rest 0 := by
  induction xs with
  | nil => rfl
  | cons x xs ih => simp [tokenize, ih]

/-- the pieces of a command as the user wrote it: literal text and references (family, counter value) -/
inductive UPiece where
  | text (s : Str)
  | ref (k : UKind) (n : Nat)
  deriving DecidableEq, Repr

/-- the f-string the user builds -/
def renderU : List UPiece → Str
  | [] => []
  | .text s :: ps => s ++ renderU ps
  | .ref k n :: ps => uid k n ++ renderU ps

/-- the tokens the user means -/
def expectedToks : List UPiece → List Tok
  | [] => []
  | .text s :: ps => s.map Tok.chr ++ expectedToks ps
  | .ref k n :: ps => Tok.ref k (Nat.toDigits 10 n) :: expectedToks ps

/-- no `__` inside the text and no `_` at its end: nothing in it (or across its end) can start a uid -/
def TextOk : Str → Prop
  | [] => True
  | [c] => c ≠ '_'
  | c :: d :: s => ¬ (c = '_' ∧ d = '_') ∧ TextOk (d :: s)

/-- the pieces are separated: references are files or groups, texts are `TextOk`, and **no reference is immediately followed by
a digit** (the next piece, if it is a text, does not start with a digit; two texts are not adjacent so this is well defined) -/
def Separated : List UPiece → Prop
  | [] => True
  | .text s :: ps => TextOk s ∧ Separated ps ∧ (match ps with | .text _ :: _ => False | _ => True)
  | .ref k _ :: ps => (k = .rf ∨ k = .rg) ∧ Separated ps ∧
      (match ps with
       | .text (c :: _) :: _ => c.isDigit = false
       | .text [] :: _ => False
       | _ => True)

theorem renderU_head_not_digit_of_ref (k : UKind) (n : Nat) (ps : List UPiece) :
    ∀ c, (renderU (.ref k n :: ps)).head? = some c → c.isDigit = false := by
  intro c h
  cases k <;> simp [renderU, uid, uprefix] at h <;> (rw [← h]; decide)

theorem tokenize_text (s : Str) (rest : Str) (hs : TextOk s) (hrest : s ≠ [] → True) :
    (∀ c, s.getLast? = some c → c ≠ '_') → tokenize (s ++ rest) 0 = s.map Tok.chr ++ tokenize rest 0 := by
  induction s with
  | nil => intro _; rfl
  | cons c s ih =>
    intro hlast
    have hnone : matchUid (c :: (s ++ rest)) = none := by
      apply matchUid_none_of_not_dunder
      rintro ⟨hc, hh⟩
      cases s with
      | nil => exact hlast c rfl hc
      | cons d s' =>
        simp at hh
        exact hs.1 ⟨hc, hh⟩
    simp only [List.cons_append, tokenize, hnone, List.map_cons]
    congr 1
    cases s with
    | nil => rfl
    | cons d s' =>
      apply ih hs.2 (fun _ => trivial)
      intro c' hc'
      apply hlast c'
      simpa [List.getLast?_cons_cons] using hc'

theorem textOk_last (s : Str) (hs : TextOk s) : ∀ c, s.getLast? = some c → c ≠ '_' := by
  induction s with
  | nil => intro c h; simp at h
  | cons a s ih =>
    cases s with
    | nil => intro c h; simp at h; rw [← h]; exact hs
    | cons d s' =>
      intro c h
      rw [List.getLast?_cons_cons] at h
      exact ih hs.2 c h

theorem uprefix_cons (k : UKind) : ∃ p, uprefix k = '_' :: p := by cases k <;> exact ⟨_, rfl⟩

/-- **maximal munch reads the command the way the user meant it** when the pieces are `Separated` -/
theorem tokenize_separated : ∀ (ps : List UPiece), Separated ps → tokenize (renderU ps) 0 = expectedToks ps
  | [], _ => rfl
  | .text s :: ps, h => by
    obtain ⟨hs, hps, _⟩ := h
    simp only [renderU, expectedToks]
    rw [tokenize_text s (renderU ps) hs (fun _ => trivial) (textOk_last s hs), tokenize_separated ps hps]
  | .ref k n :: ps, h => by
    obtain ⟨hk, hps, hnext⟩ := h
    simp only [renderU, expectedToks, uid]
    have hne : Nat.toDigits 10 n ≠ [] := by
      intro hc
      have := @Nat.length_toDigits_pos 10 n
      rw [hc] at this; simp at this
    have hd : ∀ c ∈ Nat.toDigits 10 n, c.isDigit = true := fun c hc => Nat.isDigit_of_mem_toDigits (by decide) (by decide) hc
    have hr : ∀ c, (renderU ps).head? = some c → c.isDigit = false := by
      match ps, hnext with
      | [], _ => intro c hc; simp [renderU] at hc
      | .text [] :: _, hn => (try exact absurd hn id)
      | .text (d :: t) :: rest, hn => intro c hc; simp [renderU] at hc; rw [← hc]; exact hn
      | .ref k' n' :: rest, _ => exact renderU_head_not_digit_of_ref k' n' rest
    have hm := matchUid_uid k hk (Nat.toDigits 10 n) (renderU ps) hne hd hr
    obtain ⟨p, hp⟩ := uprefix_cons k
    have hlen : (uprefix k).length + (Nat.toDigits 10 n).length - 1 = (p ++ Nat.toDigits 10 n).length := by
      rw [hp]; simp
    have hform : uprefix k ++ Nat.toDigits 10 n ++ renderU ps = '_' :: ((p ++ Nat.toDigits 10 n) ++ renderU ps) := by
      rw [hp]; simp
    rw [hform] at hm ⊢
    simp only [tokenize, hm]
    rw [hlen, tokenize_skip, tokenize_separated ps hps]

/-! ### the handler -/

/-- the resource table and the job directories agree: `_get_path` of every resource is the same in both states -/
def SameRes (a b : St) : Prop := b.files = a.files ∧ b.groups = a.groups ∧ ∀ j, (b.job j).dirname = (a.job j).dirname

theorem SameRes.refl (a : St) : SameRes a a := ⟨rfl, rfl, fun _ => rfl⟩

theorem SameRes.trans {a b c : St} (h₁ : SameRes a b) (h₂ : SameRes b c) : SameRes a c :=
  ⟨h₂.1.trans h₁.1, h₂.2.1.trans h₁.2.1, fun j => (h₂.2.2 j).trans (h₁.2.2 j)⟩

theorem SameRes.path {a b : St} (h : SameRes a b) (dir : Str) (r : Rid) : b.path dir r = a.path dir r := by
  obtain ⟨h1, h2, h3⟩ := h
  cases r with
  | file n => simp only [St.path, St.file?, h1, St.subdir]; cases a.files.lookup n <;> simp only []
              next f => cases f.source <;> simp [h3]
  | group n => simp only [St.path, St.group?, h2, St.subdir]; cases a.groups.lookup n <;> simp only []
               next g => cases g.job <;> simp [h3]

theorem updJob_sameRes (st : St) (j : Nat) (f : JobSt → JobSt) (hf : ∀ js, (f js).dirname = js.dirname) :
    SameRes st (st.updJob j f) := by
  refine ⟨rfl, rfl, fun k => ?_⟩
  simp only [St.updJob]
  split
  · exact hf _
  · rfl

theorem applyRef_sameRes (st st2 : St) (c : Nat) (r : Rid) (h : applyRef st c r = .ok st2) : SameRes st st2 := by
  unfold applyRef at h
  simp only at h
  split at h
  · cases h
  · next st1 hst1 =>
    cases h
    have h1 : SameRes st st1 := by
      split at hst1
      · split at hst1
        · split at hst1
          · cases hst1
            refine ⟨rfl, rfl, fun k => ?_⟩
            simp only [St.updJob]
            repeat' split
            all_goals rfl
          · cases hst1
        · cases hst1
          refine ⟨rfl, rfl, fun k => ?_⟩
          simp only [St.updJob]
          repeat' split
          all_goals rfl
      · cases hst1
        refine ⟨rfl, rfl, fun k => ?_⟩
        simp only [St.updJob]
        repeat' split
        all_goals rfl
    refine h1.trans ⟨rfl, rfl, fun k => ?_⟩
    simp only [St.updJob]
    repeat' split
    all_goals rfl

theorem handleRef_spec (st st' : St) (c : Nat) (k : UKind) (ds s : Str) (h : handleRef st c k ds = .ok (st', s)) :
    (k = .rf ∨ k = .rg) ∧ ∃ r, lookupUid st k ds = some r ∧ applyRef st c r = .ok st' ∧ s = replacement st r ∧ SameRes st st' := by
  unfold handleRef at h
  have main : (k = .rf ∨ k = .rg) →
      (match lookupUid st k ds with
        | none => (Except.error Err.batchException : Except Err (St × Str))
        | some r => match applyRef st c r with
          | .error e => .error e
          | .ok st2 => .ok (st2, replacement st r)) = .ok (st', s) →
      ∃ r, lookupUid st k ds = some r ∧ applyRef st c r = .ok st' ∧ s = replacement st r ∧ SameRes st st' := by
    intro _ hh
    cases hl : lookupUid st k ds with
    | none => rw [hl] at hh; cases hh
    | some r =>
      rw [hl] at hh
      simp only at hh
      cases ha : applyRef st c r with
      | error e => rw [ha] at hh; cases hh
      | ok st2 =>
        rw [ha] at hh
        simp only [Except.ok.injEq, Prod.mk.injEq] at hh
        obtain ⟨h1, h2⟩ := hh
        subst h1
        exact ⟨r, rfl, ha, h2.symm, applyRef_sameRes st st2 c r ha⟩
  cases k with
  | job => cases h
  | batch => cases h
  | pr => cases h
  | rf => exact ⟨Or.inl rfl, main (Or.inl rfl) h⟩
  | rg => exact ⟨Or.inr rfl, main (Or.inr rfl) h⟩

theorem lookupUid_sameRes {a b : St} (h : SameRes a b) (k : UKind) (ds : Str) : lookupUid b k ds = lookupUid a k ds := by
  simp [lookupUid, h.1, h.2.1]

/-- what the user means: texts unchanged, every reference replaced by `${BATCH_TMPDIR}` ++ quote(path of the resource its uid
denotes) -/
def specOut (st : St) : List UPiece → Str
  | [] => []
  | .text s :: ps => s ++ specOut st ps
  | .ref k n :: ps => ((lookupUid st k (Nat.toDigits 10 n)).map (replacement st)).getD [] ++ specOut st ps

theorem specOut_sameRes {a b : St} (h : SameRes a b) (ps : List UPiece) : specOut b ps = specOut a ps := by
  induction ps with
  | nil => rfl
  | cons p ps ih =>
    cases p with
    | text s => simp [specOut, ih]
    | ref k n =>
      have : replacement b = replacement a := by funext r; simp [replacement, h.path]
      simp [specOut, ih, lookupUid_sameRes h, this]

theorem interpolateToks_text (st : St) (c : Nat) (s : Str) (ts : List Tok) (acc : Str) :
    interpolateToks st c (s.map Tok.chr ++ ts) acc = interpolateToks st c ts (acc ++ s) := by
  induction s generalizing acc with
  | nil => simp
  | cons ch s ih => simp [interpolateToks, ih]

theorem interpolateToks_spec : ∀ (ps : List UPiece) (st st' : St) (c : Nat) (acc out : Str),
    interpolateToks st c (expectedToks ps) acc = .ok (st', out) → out = acc ++ specOut st ps ∧ SameRes st st'
  | [], st, st', c, acc, out, h => by
    simp only [expectedToks, interpolateToks, Except.ok.injEq, Prod.mk.injEq] at h
    exact ⟨by simp [specOut, h.2], h.1 ▸ SameRes.refl st⟩
  | .text s :: ps, st, st', c, acc, out, h => by
    simp only [expectedToks, interpolateToks_text] at h
    obtain ⟨h1, h2⟩ := interpolateToks_spec ps st st' c _ out h
    exact ⟨by simp [specOut, h1], h2⟩
  | .ref k n :: ps, st, st', c, acc, out, h => by
    simp only [expectedToks, interpolateToks] at h
    cases hh : handleRef st c k (Nat.toDigits 10 n) with
    | error e => rw [hh] at h; cases h
    | ok p =>
      obtain ⟨st1, s⟩ := p
      rw [hh] at h
      simp only at h
      obtain ⟨_, r, hl, _, hs, hsame⟩ := handleRef_spec st st1 c k _ s hh
      obtain ⟨h1, h2⟩ := interpolateToks_spec ps st1 st' c _ out h
      refine ⟨?_, hsame.trans h2⟩
      rw [h1, specOut_sameRes hsame]
      simp [specOut, hl, hs]

/-! ### the handler links producer and consumer -/

theorem subset_insertNew {α : Type} [DecidableEq α] (l : List α) (x y : α) (h : y ∈ l) : y ∈ insertNew l x := by
  unfold insertNew; split
  · exact h
  · exact List.mem_append_left _ h

theorem mem_insertNew_self {α : Type} [DecidableEq α] (l : List α) (x : α) : x ∈ insertNew l x := by
  unfold insertNew; split
  · assumption
  · simp

theorem subset_unionNew {α : Type} [DecidableEq α] (xs l : List α) (y : α) (h : y ∈ l) : y ∈ unionNew l xs := by
  unfold unionNew
  induction xs generalizing l with
  | nil => exact h
  | cons x xs ih => exact ih _ (subset_insertNew l x y h)

theorem mem_unionNew_right {α : Type} [DecidableEq α] (xs l : List α) (y : α) (h : y ∈ xs) : y ∈ unionNew l xs := by
  unfold unionNew
  induction xs generalizing l with
  | nil => cases h
  | cons x xs ih =>
    rcases List.mem_cons.mp h with rfl | h'
    · exact subset_unionNew xs _ _ (mem_insertNew_self l _)
    · exact ih _ h'

/-- the three sets the plan is built from only grow -/
def Grows (a b : St) : Prop :=
  ∀ j, (∀ n ∈ (a.job j).inputs, n ∈ (b.job j).inputs) ∧ (∀ n ∈ (a.job j).internalOut, n ∈ (b.job j).internalOut) ∧
    (∀ p ∈ (a.job j).deps, p ∈ (b.job j).deps)

theorem Grows.refl (a : St) : Grows a a := fun _ => ⟨fun _ h => h, fun _ h => h, fun _ h => h⟩

theorem Grows.trans {a b c : St} (h₁ : Grows a b) (h₂ : Grows b c) : Grows a c := fun j =>
  ⟨fun n h => (h₂ j).1 n ((h₁ j).1 n h), fun n h => (h₂ j).2.1 n ((h₁ j).2.1 n h), fun n h => (h₂ j).2.2 n ((h₁ j).2.2 n h)⟩

theorem applyRef_links (st st2 : St) (c : Nat) (r : Rid) (h : applyRef st c r = .ok st2) :
    Grows st st2 ∧
    ∀ p, st.source r = some p → p ≠ c →
      r ∈ (st.job p).valid ∧ p ∈ (st2.job c).deps ∧
        ∀ n ∈ st.expandFiles r, n ∈ (st2.job c).inputs ∧ n ∈ (st2.job p).internalOut := by
  unfold applyRef at h
  simp only at h
  split at h
  · cases h
  · next st1 hst1 =>
    cases h
    split at hst1
    · next hne =>
      split at hst1
      · next p hp =>
        split at hst1
        · next hvalid =>
          cases hst1
          have hpc : p ≠ c := fun hc => hne (by rw [hp, hc])
          have hcp : c ≠ p := fun hc => hpc hc.symm
          refine ⟨fun j => ?_, fun p' hp' _ => ?_⟩
          · simp only [St.updJob]
            by_cases hjc : j = c
            · subst hjc
              simp only [if_true, hcp, if_false]
              exact ⟨fun n hn => subset_unionNew _ _ _ hn, fun n hn => hn, fun q hq => subset_insertNew _ _ _ hq⟩
            · by_cases hjp : j = p
              · subst hjp
                simp only [hjc, if_false, if_true]
                exact ⟨fun n hn => hn, fun n hn => subset_unionNew _ _ _ hn, fun q hq => hq⟩
              · simp only [hjc, hjp, if_false]
                exact ⟨fun n hn => hn, fun n hn => hn, fun q hq => hq⟩
          · have : p' = p := by rw [hp] at hp'; exact (Option.some.inj hp').symm
            subst this
            refine ⟨hvalid, ?_, fun n hn => ⟨?_, ?_⟩⟩
            · simp only [St.updJob, if_true, hcp, if_false]
              exact mem_insertNew_self _ _
            · simp only [St.updJob, if_true, hcp, if_false]
              exact mem_unionNew_right _ _ _ hn
            · simp only [St.updJob, if_true, hpc, if_false]
              exact mem_unionNew_right _ _ _ hn
        · cases hst1
      · next hnone =>
        cases hst1
        refine ⟨fun j => ?_, fun p' hp' _ => by rw [hnone] at hp'; cases hp'⟩
        simp only [St.updJob]
        by_cases hjc : j = c
        · subst hjc
          simp only [if_true]
          exact ⟨fun n hn => subset_unionNew _ _ _ hn, fun n hn => hn, fun q hq => hq⟩
        · simp only [hjc, if_false]
          exact ⟨fun n hn => hn, fun n hn => hn, fun q hq => hq⟩
    · next heq =>
      cases hst1
      have heq' : st.source r = some c := Classical.not_not.mp heq
      refine ⟨fun j => ?_, fun p' hp' hpc => by rw [heq'] at hp'; exact absurd (Option.some.inj hp').symm hpc⟩
      simp only [St.updJob]
      by_cases hjc : j = c
      · subst hjc
        simp only [if_true]
        exact ⟨fun n hn => hn, fun n hn => hn, fun q hq => hq⟩
      · simp only [hjc, if_false]
        exact ⟨fun n hn => hn, fun n hn => hn, fun q hq => hq⟩

/-- every link the handler established while a command was interpolated is still there at the end of the command -/
theorem interpolateToks_grows : ∀ (ts : List Tok) (st st' : St) (c : Nat) (acc out : Str),
    interpolateToks st c ts acc = .ok (st', out) → Grows st st'
  | [], st, st', c, acc, out, h => by
    simp only [interpolateToks, Except.ok.injEq, Prod.mk.injEq] at h
    exact h.1 ▸ Grows.refl st
  | .chr ch :: ts, st, st', c, acc, out, h => by
    simp only [interpolateToks] at h
    exact interpolateToks_grows ts st st' c _ out h
  | .ref k ds :: ts, st, st', c, acc, out, h => by
    simp only [interpolateToks] at h
    cases hh : handleRef st c k ds with
    | error e => rw [hh] at h; cases h
    | ok p =>
      obtain ⟨st1, s⟩ := p
      rw [hh] at h
      simp only at h
      obtain ⟨_, r, _, ha, _, _⟩ := handleRef_spec st st1 c k ds s hh
      exact (applyRef_links st st1 c r ha).1.trans (interpolateToks_grows ts st1 st' c _ out h)

/-! ### `PythonJob.call`: the same bookkeeping for every argument -/

theorem SameRes.source {a b : St} (h : SameRes a b) (r : Rid) : b.source r = a.source r := by
  cases r <;> simp [St.source, St.file?, St.group?, h.1, h.2.1]

theorem SameRes.expandFiles {a b : St} (h : SameRes a b) (r : Rid) : b.expandFiles r = a.expandFiles r := by
  cases r <;> simp [St.expandFiles, St.file?, St.group?, h.1, h.2.1]

theorem applyRefs_spec (c : Nat) : ∀ (rs : List Rid) (st st' : St), applyRefs st c rs = .ok st' →
    SameRes st st' ∧ Grows st st' ∧
    ∀ r ∈ rs, ∀ p, st.source r = some p → p ≠ c →
      p ∈ (st'.job c).deps ∧ ∀ n ∈ st.expandFiles r, n ∈ (st'.job c).inputs ∧ n ∈ (st'.job p).internalOut
  | [], st, st', h => by
    simp only [applyRefs, Except.ok.injEq] at h
    subst h
    exact ⟨SameRes.refl _, Grows.refl _, fun r hr => by cases hr⟩
  | r :: rs, st, st', h => by
    simp only [applyRefs] at h
    cases ha : applyRef st c r with
    | error e => rw [ha] at h; cases h
    | ok st1 =>
      rw [ha] at h
      simp only at h
      have hsame1 := applyRef_sameRes st st1 c r ha
      obtain ⟨hg1, hl1⟩ := applyRef_links st st1 c r ha
      obtain ⟨hsame2, hg2, hl2⟩ := applyRefs_spec c rs st1 st' h
      refine ⟨hsame1.trans hsame2, hg1.trans hg2, ?_⟩
      intro r' hr' p hs hpc
      rcases List.mem_cons.mp hr' with rfl | hmem
      · obtain ⟨_, hd, hf⟩ := hl1 p hs hpc
        exact ⟨(hg2 c).2.2 p hd, fun n hn => ⟨(hg2 c).1 n (hf n hn).1, (hg2 p).2.1 n (hf n hn).2⟩⟩
      · have := hl2 r' hmem p (by rw [hsame1.source]; exact hs) hpc
        exact ⟨this.1, fun n hn => this.2 n (by rw [hsame1.expandFiles]; exact hn)⟩

end HailVerif.BatchDsl

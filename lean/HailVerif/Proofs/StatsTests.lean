import Mathlib.Tactic.Ring
import Mathlib.Tactic.Linarith
import Mathlib.Tactic.FieldSimp
import Mathlib.Tactic.NormNum
import Mathlib.Tactic.Positivity
import Mathlib.Data.Nat.Choose.Vandermonde
import HailVerif.Proofs.StatsLH
open HailVerif.StatsLib HailVerif.StatsSpec HailVerif.Generated.ScalaStats
open Finset
namespace HailVerif.StatsProofs

/-- the statistic computed by `chiSquaredTest`, as generated -/
def chiStat (a b c d : ℚ) : ℚ :=
  (a + b + c + d) * ((a * d - b * c) / ((a + b) * (c + d))) * ((a * d - b * c) / ((b + d) * (a + c)))

theorem chiSquaredTest_unfold (τ : ℚ) (lib : Lib ℚ) (a0 b0 c0 d0 : ℤ) :
    Exact.stats_chiSquaredTest τ lib a0 b0 c0 d0 =
      if (((decide (a0 < (0 : ℤ)) || decide (b0 < (0 : ℤ))) || decide (c0 < (0 : ℤ))) || decide (d0 < (0 : ℤ))) then Out.fatal
      else Out.val [lib.chisqTail (chiStat a0 b0 c0 d0) (((1 : ℤ) : ℤ) : ℚ), ((a0 : ℚ) * (d0 : ℚ)) / ((b0 : ℚ) * (c0 : ℚ))] := by
  -- tolerant to algebraically equivalent rewrites of the formula
  unfold Exact.stats_chiSquaredTest chiStat
  split
  · rfl
  · try simp only []
    try (congr 3 <;> ring)

/-- `N (ad - bc)² / ((a+b)(c+d)(b+d)(a+c))` is Pearson's `Σ (O-E)²/E` whenever no margin vanishes -/
theorem chiStat_eq_pearson (a b c d : ℚ) (h1 : a + b ≠ 0) (h2 : c + d ≠ 0) (h3 : a + c ≠ 0) (h4 : b + d ≠ 0) (hN : a + b + c + d ≠ 0) :
    chiStat a b c d = pearson a b c d := by
  unfold chiStat pearson cell
  simp only
  field_simp
  ring

theorem contingencyTableTest_unfold (τ : ℚ) (lib : Lib ℚ) (a b c d m : ℤ) :
    Exact.stats_contingencyTableTest τ lib a b c d m =
      if decide (m < (0 : ℤ)) then Out.fatal
      else if (((decide (a >= m) && decide (b >= m)) && decide (c >= m)) && decide (d >= m)) then Exact.stats_chiSquaredTest τ lib a b c d
      else Exact.stats_fisherExactTest_4 τ lib a b c d := rfl

/-- the p-value `fisherExactTest` computes for `alternative = "two.sided"`, `oddsRatio = 1`, as generated -/
def fisherTwoSidedGen (τ : ℚ) (lib : Lib ℚ) (a b c d : ℤ) : ℚ :=
  let low := max 0 ((a + b) - (b + d))
  let high := min (a + b) (a + c)
  let dd := lib.dnhyper (Hgd.mk (a + b + c + d) (a + c) (a + b)) low high 1
  sumL (dd.filter fun x => decide (x ≤ idx dd (a - low) * (1 + τ * (1 / 10000000))))

theorem fisher7_two_sided_eval (τ : ℚ) (lib : Lib ℚ) (a b c d : ℕ) (hnd : ¬ degenerate a b c d) :
    Exact.stats_fisherExactTest_7 τ lib a b c d 1 (19 / 20) "two.sided" =
      if !(decide (fisherTwoSidedGen τ lib a b c d ≥ 0) && decide (fisherTwoSidedGen τ lib a b c d ≤ 500000000001 / 500000000000)) then Out.fatal
      else Out.val [fisherTwoSidedGen τ lib a b c d] := by
  unfold degenerate at hnd
  unfold Exact.stats_fisherExactTest_7 fisherTwoSidedGen
  have g1 : (!(((decide ((a : ℤ) >= (0 : ℤ)) && decide ((b : ℤ) >= (0 : ℤ))) && decide ((c : ℤ) >= (0 : ℤ))) && decide ((d : ℤ) >= (0 : ℤ)))) = false := by simp
  have g2 : (decide ((19 / 20 : ℚ) < (0 : ℚ)) || decide ((19 / 20 : ℚ) > (1 : ℚ))) = false := by norm_num
  have g3 : decide ((1 : ℚ) < (0 : ℚ)) = false := by norm_num
  have g4 : (((!decide ("two.sided" = "greater")) && (!decide ("two.sided" = "less"))) && (!decide ("two.sided" = "two.sided"))) = false := by decide
  have g5 : (!((((decide ((a : ℤ) + b + c + d > 0) && decide ((a : ℤ) + b > 0)) && decide ((a : ℤ) + b < (a : ℤ) + b + c + d)) && decide ((a : ℤ) + c > 0)) && decide ((a : ℤ) + c < (a : ℤ) + b + c + d))) = false := by
    simp; omega
  have s1 : decide ("two.sided" = "less") = false := by decide
  have s2 : decide ("two.sided" = "greater") = false := by decide
  have s3 : decide ("two.sided" = "two.sided") = true := by decide
  have o1 : decide ((1 : ℚ) = (((0 : ℤ) : ℤ) : ℚ)) = false := by norm_num
  simp only [g1, g2, g3, g4, g5, s1, s2, s3, o1, Bool.false_eq_true, if_false, if_true, Out.bind]
  rfl

theorem choose_eq (n k : ℕ) : StatsSpec.choose n k = n.choose k := by
  unfold StatsSpec.choose
  split
  · rename_i h; rw [fact_eq, fact_eq, fact_eq, Nat.choose_eq_factorial_div_factorial h]
  · rename_i h; rw [Nat.choose_eq_zero_of_lt (by omega)]

theorem hyperPmf_nonneg (N m n : ℕ) (k : ℤ) : 0 ≤ hyperPmf N m n k := by
  unfold hyperPmf; split
  · positivity
  · exact le_refl _

/-- Vandermonde: the hypergeometric probabilities sum to 1 over `max(0, n+m-N) … min(n, m)` -/
theorem hyper_sum_one (N m n : ℕ) (hm : m ≤ N) (hn : n ≤ N) :
    sumRange (hyperLo N m n) (hyperHi N m n) (hyperPmf N m n) = 1 := by
  have hV : ∑ k ∈ range (n + 1), m.choose k * (N - m).choose (n - k) = N.choose n := by
    have := Nat.add_choose_eq m (N - m) n
    rw [Finset.Nat.sum_antidiagonal_eq_sum_range_succ_mk] at this
    rw [show m + (N - m) = N by omega] at this
    exact this.symm
  have hCpos : (0 : ℚ) < (N.choose n : ℚ) := by exact_mod_cast Nat.choose_pos hn
  set lo' : ℕ := n + m - N with hlo'
  set hi' : ℕ := min n m with hhi'
  have elo : hyperLo N m n = (lo' : ℤ) := by unfold hyperLo; omega
  have ehi : hyperHi N m n = (hi' : ℤ) := by unfold hyperHi; omega
  rw [sumRange_eq, elo, ehi]
  have hlen : ((hi' : ℤ) + 1 - (lo' : ℤ)).toNat = hi' + 1 - lo' := by omega
  rw [hlen]
  have hterm : ∀ i ∈ range (hi' + 1 - lo'), hyperPmf N m n ((lo' : ℤ) + (i : ℤ)) = ((m.choose (lo' + i) * (N - m).choose (n - (lo' + i)) : ℕ) : ℚ) / (N.choose n : ℚ) := by
    intro i hi
    rw [Finset.mem_range] at hi
    unfold hyperPmf
    rw [if_pos (by rw [elo, ehi]; omega)]
    have : ((lo' : ℤ) + (i : ℤ)).toNat = lo' + i := by omega
    rw [this, choose_eq, choose_eq, choose_eq]
    push_cast; ring
  rw [Finset.sum_congr rfl hterm]
  simp only [div_eq_mul_inv]
  rw [← Finset.sum_mul, ← div_eq_mul_inv, div_eq_one_iff_eq (ne_of_gt hCpos)]
  rw [← hV, ← Finset.sum_Ico_eq_sum_range (fun k => ((m.choose k * (N - m).choose (n - k) : ℕ) : ℚ)) lo' (hi' + 1)]
  push_cast
  rw [Finset.range_eq_Ico]
  apply Finset.sum_subset
  · intro x hx; rw [Finset.mem_Ico] at hx ⊢; omega
  · intro x hx hx'
    rw [Finset.mem_Ico] at hx hx'
    by_cases h1 : x < lo'
    · rw [Nat.choose_eq_zero_of_lt (show N - m < n - x by omega), Nat.cast_zero, mul_zero]
    · rw [Nat.choose_eq_zero_of_lt (show m < x by omega), Nat.cast_zero, zero_mul]



theorem zipWithIndex_fst (l : List ℚ) : (zipWithIndex l).map (fun p => p.1) = l := by
  unfold zipWithIndex
  rw [List.map_map]
  have : ((fun p : ℚ × ℤ => p.1) ∘ fun p : ℚ × ℕ => (p.1, (p.2 : ℤ))) = Prod.fst := by funext p; rfl
  rw [this, List.zipIdx_map_fst]

/-- with odds ratio 1 the normalised non-central hypergeometric weights are the hypergeometric probabilities themselves -/
theorem dnhyperQ_one (pmf : ℤ → ℚ) (lo hi : ℤ) (hs : sumRange lo hi pmf = 1) :
    dnhyperQ pmf lo hi 1 = (rangeIncl lo hi).map pmf := by
  unfold dnhyperQ
  simp only [one_pow, mul_one]
  have e : (List.map (fun p : ℚ × ℤ => p.1) (zipWithIndex (List.map pmf (rangeIncl lo hi)))) = List.map pmf (rangeIncl lo hi) :=
    zipWithIndex_fst _
  rw [e, sumL_eq_sum]
  unfold sumRange at hs
  rw [hs]
  simp

theorem sum_filter_le (f : ℤ → ℚ) (t : ℚ) (l : List ℤ) :
    ((l.map f).filter fun x => decide (x ≤ t)).sum = (l.map fun i => if f i ≤ t then f i else 0).sum := by
  induction l with
  | nil => rfl
  | cons x xs ih =>
    rw [List.map_cons, List.map_cons, List.sum_cons]
    by_cases h : f x ≤ t
    · rw [List.filter_cons_of_pos (by simpa using h), List.sum_cons, ih, if_pos h]
    · rw [List.filter_cons_of_neg (by simpa using h), ih, if_neg h, zero_add]

theorem idx_rangeIncl_map (f : ℤ → ℚ) (lo hi k : ℤ) (h1 : lo ≤ k) (h2 : k ≤ hi) : idx ((rangeIncl lo hi).map f) (k - lo) = f k := by
  unfold idx rangeIncl
  rw [List.map_map, List.getD_eq_getElem?_getD, List.getElem?_map, List.getElem?_range (by omega)]
  simp only [Option.map_some, Option.getD_some, Function.comp]
  congr 1; omega

theorem fisher_margins (a b c d : ℕ) (hnd : ¬ degenerate a b c d) :
    (max 0 (((a : ℤ) + b) - ((b : ℤ) + d)) = hyperLo (a + b + c + d) (a + c) (a + b)) ∧
    (min ((a : ℤ) + b) ((a : ℤ) + c) = hyperHi (a + b + c + d) (a + c) (a + b)) ∧
    hyperLo (a + b + c + d) (a + c) (a + b) ≤ a ∧ (a : ℤ) ≤ hyperHi (a + b + c + d) (a + c) (a + b) := by
  unfold hyperLo hyperHi
  push_cast
  omega

theorem libQ_dnhyper_one (chisq : ℚ → ℚ → ℚ) (a b c d : ℕ) :
    (libQ chisq).dnhyper (Hgd.mk ((a : ℤ) + b + c + d) ((a : ℤ) + c) ((a : ℤ) + b))
        (hyperLo (a + b + c + d) (a + c) (a + b)) (hyperHi (a + b + c + d) (a + c) (a + b)) 1
      = (rangeIncl (hyperLo (a + b + c + d) (a + c) (a + b)) (hyperHi (a + b + c + d) (a + c) (a + b))).map (hyperPmf (a + b + c + d) (a + c) (a + b)) := by
  unfold libQ
  simp only
  have e1 : ((a : ℤ) + b + c + d).toNat = a + b + c + d := by omega
  have e2 : ((a : ℤ) + c).toNat = a + c := by omega
  have e3 : ((a : ℤ) + b).toNat = a + b := by omega
  rw [e1, e2, e3]
  exact dnhyperQ_one _ _ _ (hyper_sum_one _ _ _ (by omega) (by omega))

/-- the generated two-sided p-value, with the library instantiated by the closed forms and τ = 0, is the definition -/
theorem fisherTwoSidedGen_spec (chisq : ℚ → ℚ → ℚ) (a b c d : ℕ) (hnd : ¬ degenerate a b c d) :
    fisherTwoSidedGen 0 (libQ chisq) a b c d = fisherTwoSided (a + b + c + d) (a + c) (a + b) a := by
  obtain ⟨hlo, hhi, h1, h2⟩ := fisher_margins a b c d hnd
  unfold fisherTwoSidedGen
  simp only [zero_mul, add_zero, mul_one]
  rw [hlo, hhi, libQ_dnhyper_one, idx_rangeIncl_map _ _ _ _ h1 h2, sumL_eq_sum, sum_filter_le]
  rfl

theorem fisherTwoSided_unit (N m n : ℕ) (hm : m ≤ N) (hn : n ≤ N) (x : ℤ) : 0 ≤ fisherTwoSided N m n x ∧ fisherTwoSided N m n x ≤ 1 := by
  unfold fisherTwoSided
  constructor
  · apply sumRange_nonneg; intro i; split
    · exact hyperPmf_nonneg _ _ _ _
    · exact le_refl _
  · rw [← hyper_sum_one N m n hm hn]
    apply sumRange_le_sumRange; intro i; split
    · exact le_refl _
    · exact hyperPmf_nonneg _ _ _ _

private theorem fisher_guards (a b c d : ℕ) (hnd : ¬ degenerate a b c d) :
    (!(((decide ((a : ℤ) >= (0 : ℤ)) && decide ((b : ℤ) >= (0 : ℤ))) && decide ((c : ℤ) >= (0 : ℤ))) && decide ((d : ℤ) >= (0 : ℤ)))) = false ∧
    (decide ((19 / 20 : ℚ) < (0 : ℚ)) || decide ((19 / 20 : ℚ) > (1 : ℚ))) = false ∧
    decide ((1 : ℚ) < (0 : ℚ)) = false ∧
    (!((((decide ((a : ℤ) + b + c + d > 0) && decide ((a : ℤ) + b > 0)) && decide ((a : ℤ) + b < (a : ℤ) + b + c + d)) && decide ((a : ℤ) + c > 0)) && decide ((a : ℤ) + c < (a : ℤ) + b + c + d))) = false := by
  unfold degenerate at hnd
  refine ⟨by simp, by norm_num, by norm_num, ?_⟩
  simp; omega

theorem fisher7_less_eval (τ : ℚ) (lib : Lib ℚ) (a b c d : ℕ) (hnd : ¬ degenerate a b c d) :
    Exact.stats_fisherExactTest_7 τ lib a b c d 1 (19 / 20) "less" =
      if !(decide (lib.hyperCdf (Hgd.mk ((a : ℤ) + b + c + d) ((a : ℤ) + c) ((a : ℤ) + b)) a ≥ 0) &&
           decide (lib.hyperCdf (Hgd.mk ((a : ℤ) + b + c + d) ((a : ℤ) + c) ((a : ℤ) + b)) a ≤ 500000000001 / 500000000000)) then Out.fatal
      else Out.val [lib.hyperCdf (Hgd.mk ((a : ℤ) + b + c + d) ((a : ℤ) + c) ((a : ℤ) + b)) a] := by
  obtain ⟨g1, g2, g3, g5⟩ := fisher_guards a b c d hnd
  unfold Exact.stats_fisherExactTest_7
  have g4 : (((!decide ("less" = "greater")) && (!decide ("less" = "less"))) && (!decide ("less" = "two.sided"))) = false := by decide
  have s1 : decide ("less" = "less") = true := by decide
  have o1 : decide ((1 : ℚ) = (1 : ℚ)) = true := by norm_num
  simp only [g1, g2, g3, g5, Bool.false_eq_true, if_false, if_true, Out.bind]
  rfl

theorem fisher7_greater_eval (τ : ℚ) (lib : Lib ℚ) (a b c d : ℕ) (hnd : ¬ degenerate a b c d) :
    Exact.stats_fisherExactTest_7 τ lib a b c d 1 (19 / 20) "greater" =
      if !(decide (lib.hyperUpper (Hgd.mk ((a : ℤ) + b + c + d) ((a : ℤ) + c) ((a : ℤ) + b)) a ≥ 0) &&
           decide (lib.hyperUpper (Hgd.mk ((a : ℤ) + b + c + d) ((a : ℤ) + c) ((a : ℤ) + b)) a ≤ 500000000001 / 500000000000)) then Out.fatal
      else Out.val [lib.hyperUpper (Hgd.mk ((a : ℤ) + b + c + d) ((a : ℤ) + c) ((a : ℤ) + b)) a] := by
  obtain ⟨g1, g2, g3, g5⟩ := fisher_guards a b c d hnd
  unfold Exact.stats_fisherExactTest_7
  have g4 : (((!decide ("greater" = "greater")) && (!decide ("greater" = "less"))) && (!decide ("greater" = "two.sided"))) = false := by decide
  have s1 : decide ("greater" = "less") = false := by decide
  have s2 : decide ("greater" = "greater") = true := by decide
  have o1 : decide ((1 : ℚ) = (1 : ℚ)) = true := by norm_num
  simp only [g1, g2, g3, g5, s1, Bool.false_eq_true, if_false, if_true, Out.bind]
  rfl

theorem fisher7_degenerate (τ : ℚ) (lib : Lib ℚ) (a b c d : ℕ) (oddsRatio conf : ℚ) (alt : String)
    (h1 : 0 ≤ conf ∧ conf ≤ 1) (h2 : 0 ≤ oddsRatio) (h3 : alt = "two.sided" ∨ alt = "less" ∨ alt = "greater") (h : degenerate a b c d) :
    Exact.stats_fisherExactTest_7 τ lib a b c d oddsRatio conf alt = Out.nan := by
  unfold degenerate at h
  unfold Exact.stats_fisherExactTest_7
  have g1 : (!(((decide ((a : ℤ) >= (0 : ℤ)) && decide ((b : ℤ) >= (0 : ℤ))) && decide ((c : ℤ) >= (0 : ℤ))) && decide ((d : ℤ) >= (0 : ℤ)))) = false := by simp
  have g2 : (decide (conf < (0 : ℚ)) || decide (conf > (1 : ℚ))) = false := by simp; exact ⟨h1.1, h1.2⟩
  have g3 : decide (oddsRatio < (0 : ℚ)) = false := by simpa using h2
  have g4 : (((!decide (alt = "greater")) && (!decide (alt = "less"))) && (!decide (alt = "two.sided"))) = false := by
    rcases h3 with rfl | rfl | rfl <;> decide
  have g5 : (!((((decide ((a : ℤ) + b + c + d > 0) && decide ((a : ℤ) + b > 0)) && decide ((a : ℤ) + b < (a : ℤ) + b + c + d)) && decide ((a : ℤ) + c > 0)) && decide ((a : ℤ) + c < (a : ℤ) + b + c + d))) = true := by
    simp; omega
  simp only [g1, g2, g3, g4, g5, Bool.false_eq_true, if_false, if_true]

theorem fisher7_negative (τ : ℚ) (lib : Lib ℚ) (a b c d : ℤ) (oddsRatio conf : ℚ) (alt : String) (h : a < 0 ∨ b < 0 ∨ c < 0 ∨ d < 0) :
    Exact.stats_fisherExactTest_7 τ lib a b c d oddsRatio conf alt = Out.fatal := by
  unfold Exact.stats_fisherExactTest_7
  have g1 : (!(((decide (a >= (0 : ℤ)) && decide (b >= (0 : ℤ))) && decide (c >= (0 : ℤ))) && decide (d >= (0 : ℤ)))) = true := by simp; omega
  simp only [g1, if_true]

theorem fisher4_eq (τ : ℚ) (lib : Lib ℚ) (a b c d : ℤ) :
    Exact.stats_fisherExactTest_4 τ lib a b c d = Exact.stats_fisherExactTest_7 τ lib a b c d 1 (19 / 20) "two.sided" := rfl

theorem sumRange_mono_hi (lo hi hi' : ℤ) (f : ℤ → ℚ) (hf : ∀ k, 0 ≤ f k) (h : hi ≤ hi') : sumRange lo hi f ≤ sumRange lo hi' f := by
  by_cases hl : lo ≤ hi + 1
  · rw [sumRange_split lo hi hi' f hl h]
    have := sumRange_nonneg (hi + 1) hi' f hf
    linarith
  · rw [sumRange_empty _ _ _ (by omega)]; exact sumRange_nonneg _ _ _ hf

theorem sumRange_mono_lo (lo lo' hi : ℤ) (f : ℤ → ℚ) (hf : ∀ k, 0 ≤ f k) (h : lo ≤ lo') : sumRange lo' hi f ≤ sumRange lo hi f := by
  by_cases hl : lo' ≤ hi + 1
  · rw [sumRange_split lo (lo' - 1) hi f (by omega) (by omega), show lo' - 1 + 1 = lo' by ring]
    have := sumRange_nonneg lo (lo' - 1) f hf
    linarith
  · rw [sumRange_empty _ _ _ (by omega)]; exact sumRange_nonneg _ _ _ hf

theorem hyperPmf_off (N m n : ℕ) (k : ℤ) (h : k < hyperLo N m n ∨ hyperHi N m n < k) : hyperPmf N m n k = 0 := by
  unfold hyperPmf; rw [if_neg (by omega)]

theorem hyperCdf_unit (N m n : ℕ) (hm : m ≤ N) (hn : n ≤ N) (k : ℤ) : 0 ≤ hyperCdf N m n k ∧ hyperCdf N m n k ≤ 1 := by
  unfold hyperCdf
  refine ⟨sumRange_nonneg _ _ _ (hyperPmf_nonneg N m n), ?_⟩
  rw [← hyper_sum_one N m n hm hn]
  by_cases hk : k ≤ hyperHi N m n
  · exact sumRange_mono_hi _ _ _ _ (hyperPmf_nonneg N m n) hk
  · have hl : hyperLo N m n ≤ hyperHi N m n + 1 := by unfold hyperLo hyperHi; omega
    rw [sumRange_split _ (hyperHi N m n) k _ hl (by omega),
      sumRange_zero (hyperHi N m n + 1) k _ (fun i hi _ => hyperPmf_off N m n i (Or.inr (by omega))), add_zero]

theorem hyperUpper_unit (N m n : ℕ) (hm : m ≤ N) (hn : n ≤ N) (k : ℤ) : 0 ≤ hyperUpper N m n k ∧ hyperUpper N m n k ≤ 1 := by
  unfold hyperUpper
  refine ⟨sumRange_nonneg _ _ _ (hyperPmf_nonneg N m n), ?_⟩
  rw [← hyper_sum_one N m n hm hn]
  by_cases hk : hyperLo N m n ≤ k
  · exact sumRange_mono_lo _ _ _ _ (hyperPmf_nonneg N m n) hk
  · have hl : hyperLo N m n ≤ hyperHi N m n + 1 := by unfold hyperLo hyperHi; omega
    rw [sumRange_split k (hyperLo N m n - 1) _ _ (by omega) (by omega), show hyperLo N m n - 1 + 1 = hyperLo N m n by ring,
      sumRange_zero k (hyperLo N m n - 1) _ (fun i _ hi => hyperPmf_off N m n i (Or.inl (by omega))), zero_add]

end HailVerif.StatsProofs

import Mathlib.Tactic.Ring
import Mathlib.Tactic.Linarith
import Mathlib.Tactic.FieldSimp
import Mathlib.Tactic.NormNum
import Mathlib.Tactic.Positivity
import HailVerif.Model.StatsSpec
import HailVerif.Generated.ScalaStats
open HailVerif.StatsLib HailVerif.StatsSpec HailVerif.Generated.ScalaStats
namespace HailVerif.StatsProofs

/-- the statistic computed by `chiSquaredTest`, as generated -/
def chiStat (a b c d : ℚ) : ℚ :=
  (a + b + c + d) * ((a * d - b * c) / ((a + b) * (c + d))) * ((a * d - b * c) / ((b + d) * (a + c)))

theorem chiSquaredTest_unfold (τ : ℚ) (lib : Lib ℚ) (a0 b0 c0 d0 : ℤ) :
    Exact.stats_chiSquaredTest τ lib a0 b0 c0 d0 =
      if (((decide (a0 < (0 : ℤ)) || decide (b0 < (0 : ℤ))) || decide (c0 < (0 : ℤ))) || decide (d0 < (0 : ℤ))) then Out.fatal
      else Out.val [lib.chisqTail (chiStat a0 b0 c0 d0) (((1 : ℤ) : ℤ) : ℚ), ((a0 : ℚ) * (d0 : ℚ)) / ((b0 : ℚ) * (c0 : ℚ))] := rfl

/-- `N (ad - bc)² / ((a+b)(c+d)(b+d)(a+c))` is Pearson's `Σ (O-E)²/E` whenever no margin vanishes -/
theorem chiStat_eq_pearson (a b c d : ℚ) (h1 : a + b ≠ 0) (h2 : c + d ≠ 0) (h3 : a + c ≠ 0) (h4 : b + d ≠ 0) (hN : a + b + c + d ≠ 0) :
    chiStat a b c d = pearson a b c d := by
  unfold chiStat pearson cell
  simp only
  field_simp
  ring

theorem contingencyTableTest_unfold (τ : ℚ) (lib : Lib ℚ) (a b c d m : ℤ) :
    Exact.stats_contingencyTableTest τ lib a b c d m =
      if decide (m < (0 : ℤ)) then Out.fatal
      else if (((decide (a >= m) && decide (b >= m)) && decide (c >= m)) && decide (d >= m)) then Exact.stats_chiSquaredTest τ lib a b c d
      else Exact.stats_fisherExactTest_4 τ lib a b c d := rfl

end HailVerif.StatsProofs

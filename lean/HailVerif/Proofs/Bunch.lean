import HailVerif.Model.Bunch
/-! Helper lemmas for C19: the loop invariant of `Bunch.go`. -/
namespace HailVerif.Bunch

variable {α : Type}

/-- what every finished bunch satisfies -/
def Good (size : α → Nat) (maxBytes maxN : Nat) (b : List α) : Prop :=
  b ≠ [] ∧ bytes size b < maxBytes ∧ b.length ≤ maxN

/-- loop invariant on `(done, cur, n)` -/
def Inv (size : α → Nat) (maxBytes maxN : Nat) (done : List (List α)) (cur : List α) (n : Nat) : Prop :=
  n = bytes size cur ∧ (∀ b ∈ done, Good size maxBytes maxN b) ∧
    (cur = [] ∨ Good size maxBytes maxN cur)

theorem bytes_append (size : α → Nat) (a b : List α) :
    bytes size (a ++ b) = bytes size a + bytes size b := by
  simp [bytes, List.map_append, List.sum_append]

theorem go_spec (size : α → Nat) (maxBytes maxN : Nat) (hN : 0 < maxN) :
    ∀ (xs : List α) (done : List (List α)) (cur : List α) (n : Nat) (out : List (List α)),
      Inv size maxBytes maxN done cur n →
      go size maxBytes maxN xs done cur n = some out →
      out.flatten = done.flatten ++ cur ++ xs ∧ (∀ b ∈ out, Good size maxBytes maxN b) := by
  intro xs
  induction xs with
  | nil =>
    intro done cur n out hinv h
    simp only [go, Option.some.injEq] at h
    obtain ⟨_, hdone, hcur⟩ := hinv
    by_cases hc : cur = []
    · subst hc; simp at h; subst h; simp; exact hdone
    · have : cur.isEmpty = false := by cases cur <;> simp_all
      simp [this] at h; subst h
      refine ⟨by simp, ?_⟩
      intro b hb
      rcases List.mem_append.mp hb with hb | hb
      · exact hdone b hb
      · simp at hb; subst hb; rcases hcur with h | h
        · exact absurd h hc
        · exact h
  | cons x xs ih =>
    intro done cur n out hinv h
    obtain ⟨hn, hdone, hcur⟩ := hinv
    unfold go at h
    split at h
    next hx =>
      split at h
      next hfit =>
        have := ih done (cur ++ [x]) (n + size x) out ?_ h
        · refine ⟨?_, this.2⟩
          rw [this.1]; simp
        · refine ⟨?_, hdone, Or.inr ⟨by simp, ?_, ?_⟩⟩
          · rw [bytes_append, hn]; simp [bytes]
          · rw [bytes_append, ← hn]; simpa [bytes] using hfit.1
          · simp; omega
      next hnofit =>
        have hcne : cur ≠ [] := by
          intro hc; subst hc
          apply hnofit
          simp [bytes] at hn; subst hn
          exact ⟨by simpa using hx, by simpa using hN⟩
        have hg : Good size maxBytes maxN cur := by
          rcases hcur with h | h
          · exact absurd h hcne
          · exact h
        have := ih (done ++ [cur]) [x] (size x) out ?_ h
        · refine ⟨?_, this.2⟩
          rw [this.1]; simp
        · refine ⟨by simp [bytes], ?_, Or.inr ⟨by simp, by simpa [bytes] using hx, by simp; omega⟩⟩
          intro b hb
          rcases List.mem_append.mp hb with hb | hb
          · exact hdone b hb
          · simp at hb; subst hb; exact hg
    next => exact absurd h (by simp)

theorem go_none_iff (size : α → Nat) (maxBytes maxN : Nat) :
    ∀ (xs : List α) (done : List (List α)) (cur : List α) (n : Nat),
      go size maxBytes maxN xs done cur n = none ↔ ∃ x ∈ xs, maxBytes ≤ size x := by
  intro xs
  induction xs with
  | nil => intro done cur n; simp [go]
  | cons x xs ih =>
    intro done cur n
    unfold go
    split
    next hx =>
      split
      · rw [ih]; simp; omega
      · rw [ih]; simp; omega
    next hx => simp; left; omega

end HailVerif.Bunch

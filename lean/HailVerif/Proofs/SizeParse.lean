import HailVerif.Model.SizeParse
import Mathlib.Algebra.Order.Floor.Semifield
import Mathlib.Data.Rat.Floor
import Mathlib.Tactic.FieldSimp
import Mathlib.Tactic.Ring
import Mathlib.Tactic.Positivity
import Mathlib.Tactic.NormNum
/-!
Specification and helper lemmas for C25.

Part 1: the documented size grammar as data (`SizeLit`, well-formedness `WF`, its spelling `render`, its exact
rational value `valueQ`).
Part 2: `matchSize` accepts exactly the spellings of well-formed literals and returns their components.
Part 3: floor / ceiling of `Frac` values are the floor / ceiling of the rational they denote.
-/
namespace HailVerif.SizeParse
open HailVerif.Generated

/-! ## Part 1 — the size grammar -/

/-- a size literal: optional `+`, digits, optionally `.` and at least one digit, optional unit suffix, optional `B` -/
structure SizeLit where
  plus : Bool
  ip : List Char            -- digits before the point
  fp : List Char            -- digits after the point; `[]` = the literal has no point
  suffix : Option String
  b : Bool

/-- well-formed for a grammar with suffix alternatives `sufs` and `B?` present iff `allowB` -/
structure SizeLit.WF (sufs : List String) (allowB : Bool) (l : SizeLit) : Prop where
  ipDigits : ∀ c ∈ l.ip, isDigit c = true
  fpDigits : ∀ c ∈ l.fp, isDigit c = true
  someDigit : l.fp = [] → l.ip ≠ []                 -- `5`, `.5`, `0.5` but not `` / `.` / `5.`
  suffixOk : ∀ sf, l.suffix = some sf → sf ∈ sufs
  bOk : l.b = true → allowB = true

def optChars : Option String → List Char
  | some sf => sf.toList
  | none => []

def SizeLit.suffixChars (l : SizeLit) : List Char := optChars l.suffix

/-- the spelling -/
def SizeLit.render (l : SizeLit) : List Char :=
  (if l.plus then ['+'] else []) ++ (l.ip ++ ((if l.fp = [] then [] else '.' :: l.fp) ++
    (l.suffixChars ++ (if l.b then ['B'] else []))))

/-- the number the digits denote, exactly: `ip.fp` read in base ten -/
def SizeLit.valueQ (l : SizeLit) : ℚ := (digitsVal (l.ip ++ l.fp) : ℚ) / 10 ^ l.fp.length

/-- the unit multiplier a memory/storage suffix denotes (`1` without suffix) -/
def SizeLit.factor (l : SizeLit) : Nat :=
  match l.suffix with
  | some sf => (SizeGrammar.convFactor.lookup sf).getD 0
  | none => 1

/-- side condition on a suffix table under which `matchSize` is the grammar: no suffix is empty, starts with a digit
or a point, or contains `B` (decided for the extracted tables in `Props/C25.lean`) -/
def suffixOk (sf : String) : Bool :=
  match sf.toList with
  | c :: _ => !isDigit c && c != '.' && !sf.toList.contains 'B'
  | [] => false

def SuffixesOk (sufs : List String) : Prop := ∀ sf ∈ sufs, suffixOk sf = true

instance (sufs : List String) : Decidable (SuffixesOk sufs) := by unfold SuffixesOk; infer_instance

theorem SuffixesOk.spec {sufs : List String} (hs : SuffixesOk sufs) {sf : String} (h : sf ∈ sufs) :
    (∃ c r, sf.toList = c :: r ∧ isDigit c = false ∧ c ≠ '.') ∧ 'B' ∉ sf.toList := by
  have := hs sf h
  unfold suffixOk at this
  split at this
  next c r hcr =>
    simp only [Bool.and_eq_true, Bool.not_eq_true', bne_iff_ne, ne_eq, List.contains_eq_mem, decide_eq_false_iff_not] at this
    exact ⟨⟨c, r, hcr, this.1.1, this.1.2⟩, this.2⟩
  · cases this

/-! ## Part 2 — `matchSize` is the grammar -/

theorem digitsVal_append (a b : List Char) : digitsVal (a ++ b) = digitsVal a * 10 ^ b.length + digitsVal b := by
  unfold digitsVal
  rw [List.foldl_append]
  generalize List.foldl (fun acc c => acc * 10 + (c.toNat - 48)) 0 a = x
  induction b generalizing x with
  | nil => simp
  | cons c cs ih =>
    simp only [List.foldl_cons, List.length_cons]
    rw [ih (x * 10 + (c.toNat - 48)), ih (0 * 10 + (c.toNat - 48))]
    ring

private theorem isDigit_plus : isDigit '+' = false := by decide
private theorem isDigit_dot : isDigit '.' = false := by decide
private theorem isDigit_B : isDigit 'B' = false := by decide

private theorem stripPlus_cons_digit {c : Char} {r : List Char} (h : c ≠ '+') : stripPlus (c :: r) = c :: r := by
  simp [stripPlus, h]

theorem matchTail_some_mem {sufs : List String} {allowB : Bool} {rest : List Char} {sf : String}
    (h : matchTail sufs allowB rest = some (some sf)) :
    sf ∈ sufs ∧ (rest = sf.toList ∨ (allowB = true ∧ rest = sf.toList ++ ['B'])) := by
  unfold matchTail at h
  split at h
  · cases h
  split at h
  · cases h
  split at h
  next sf' hf =>
    simp only [Option.some.injEq] at h
    subst h
    have hm := List.mem_of_find?_eq_some hf
    have hp := List.find?_some hf
    simp only [Bool.or_eq_true, decide_eq_true_eq, Bool.and_eq_true] at hp
    exact ⟨hm, hp⟩
  · cases h

theorem matchTail_none_inv {sufs : List String} {allowB : Bool} {rest : List Char}
    (h : matchTail sufs allowB rest = some none) : rest = [] ∨ (allowB = true ∧ rest = ['B']) := by
  unfold matchTail at h
  split at h
  next h1 => exact Or.inl h1
  split at h
  next h2 => simp only [Bool.and_eq_true, decide_eq_true_eq] at h2; exact Or.inr h2
  split at h <;> cases h

/-- the tail of a well-formed literal is recognised and yields its suffix -/
theorem matchTail_render {sufs : List String} {allowB : Bool} (hs : SuffixesOk sufs) (l : SizeLit)
    (hl : l.WF sufs allowB) :
    matchTail sufs allowB (l.suffixChars ++ (if l.b then ['B'] else [])) = some l.suffix := by
  unfold matchTail SizeLit.suffixChars optChars
  cases hsuf : l.suffix with
  | none =>
    cases hb : l.b with
    | false => simp
    | true => have := hl.bOk hb; simp [this]
  | some sf =>
    have hmem := hl.suffixOk sf hsuf
    obtain ⟨⟨c, r, hcr, _, _⟩, hB⟩ := hs.spec hmem
    have hne : sf.toList ++ (if l.b then ['B'] else []) ≠ [] := by simp [hcr]
    have hneB : sf.toList ++ (if l.b then ['B'] else []) ≠ ['B'] := by
      intro e
      rw [hcr] at e
      simp only [List.cons_append, List.cons.injEq] at e
      exact hB (by rw [hcr, e.1]; simp)
    simp only [hne, if_false, hneB, decide_false, Bool.and_false, Bool.false_eq_true]
    -- the first table entry that matches is `sf` itself
    have hfind : ∀ (ss : List String), sf ∈ ss → (∀ x ∈ ss, 'B' ∉ x.toList) →
        ss.find? (fun x => decide (sf.toList ++ (if l.b then ['B'] else []) = x.toList) ||
          (allowB && decide (sf.toList ++ (if l.b then ['B'] else []) = x.toList ++ ['B']))) = some sf := by
      intro ss
      induction ss with
      | nil => intro h; cases h
      | cons x xs ih =>
        intro hm hnoB
        rw [List.find?_cons]
        split
        next hp =>
          simp only [Bool.or_eq_true, decide_eq_true_eq, Bool.and_eq_true] at hp
          have hxB : 'B' ∉ x.toList := hnoB x (by simp)
          congr 1
          cases hb : l.b with
          | false =>
            simp only [hb, Bool.false_eq_true, if_false, List.append_nil] at hp
            rcases hp with hp | ⟨_, hp⟩
            · exact (String.toList_inj.1 hp).symm
            · exact absurd (by rw [hp]; simp) hB
          | true =>
            simp only [hb, if_true] at hp
            rcases hp with hp | ⟨_, hp⟩
            · exact absurd (by rw [← hp]; simp) hxB
            · exact (String.toList_inj.1 (List.append_cancel_right hp)).symm
        next hp =>
          rcases List.mem_cons.1 hm with rfl | hm'
          · exfalso
            revert hp
            cases hb : l.b with
            | false => simp
            | true => have := hl.bOk hb; simp [this]
          · exact ih hm' (fun y hy => hnoB y (List.mem_cons_of_mem _ hy))
    rw [hfind sufs hmem (fun x hx => (hs.spec hx).2)]

private theorem tail_head_not_digit {sufs : List String} {allowB : Bool} (hs : SuffixesOk sufs) (l : SizeLit)
    (hl : l.WF sufs allowB) :
    ∀ c r, l.suffixChars ++ (if l.b then ['B'] else []) = c :: r → isDigit c = false ∧ c ≠ '.' := by
  intro c r h
  unfold SizeLit.suffixChars optChars at h
  cases hsuf : l.suffix with
  | none =>
    simp only [hsuf] at h
    cases hb : l.b with
    | false => simp [hb] at h
    | true =>
      simp only [hb, if_true, List.nil_append, List.cons.injEq] at h
      rw [← h.1]; exact ⟨isDigit_B, by decide⟩
  | some sf =>
    simp only [hsuf] at h
    obtain ⟨⟨c', r', hcr, h1, h2⟩, _⟩ := hs.spec (hl.suffixOk sf hsuf)
    rw [hcr] at h
    simp only [List.cons_append, List.cons.injEq] at h
    rw [← h.1]; exact ⟨h1, h2⟩

private theorem takeWhile_digits_append {d rest : List Char} (hd : ∀ c ∈ d, isDigit c = true)
    (hr : ∀ c r, rest = c :: r → isDigit c = false) :
    (d ++ rest).takeWhile isDigit = d ∧ (d ++ rest).dropWhile isDigit = rest := by
  induction d with
  | nil =>
    cases rest with
    | nil => simp
    | cons c r => simp [hr c r rfl]
  | cons x xs ih =>
    have hx := hd x (by simp)
    have := ih (fun c hc => hd c (List.mem_cons_of_mem _ hc))
    simp [hx, this.1, this.2]

/-- **Every spelling of a well-formed literal is matched, and the groups are its components.** -/
theorem matchSize_render {sufs : List String} {allowB : Bool} (hs : SuffixesOk sufs) (l : SizeLit)
    (hl : l.WF sufs allowB) : matchSize sufs allowB l.render = some ⟨l.ip, l.fp, l.suffix⟩ := by
  have htail := matchTail_render hs l hl
  have hhead := tail_head_not_digit hs l hl
  generalize htl : l.suffixChars ++ (if l.b then ['B'] else []) = tl at htail hhead
  -- remove the sign
  have hstrip : stripPlus l.render = l.ip ++ ((if l.fp = [] then [] else '.' :: l.fp) ++ tl) := by
    unfold SizeLit.render
    rw [htl]
    cases l.plus with
    | true => simp [stripPlus]
    | false =>
      simp only [Bool.false_eq_true, if_false, List.nil_append]
      cases hip : l.ip with
      | nil =>
        have hfp : l.fp ≠ [] := fun h => hl.someDigit h hip
        simp only [hfp, if_false, List.nil_append, List.cons_append]
        exact stripPlus_cons_digit (by decide)
      | cons c r =>
        have hc := hl.ipDigits c (by simp [hip])
        have : c ≠ '+' := by intro e; subst e; rw [isDigit_plus] at hc; cases hc
        simp only [List.cons_append]
        exact stripPlus_cons_digit this
  unfold matchSize
  simp only [hstrip]
  by_cases hfp : l.fp = []
  · -- no point
    have hip : l.ip ≠ [] := hl.someDigit hfp
    simp only [hfp, if_true, List.nil_append]
    obtain ⟨h1, h2⟩ := takeWhile_digits_append (rest := tl) hl.ipDigits (fun c r h => (hhead c r h).1)
    rw [h1, h2]
    cases htl' : tl with
    | nil =>
      simp only [hip, if_false]
      rw [htl'] at htail
      have : l.suffix = none := by
        simp [matchTail] at htail; exact htail.symm
      rw [this]
    | cons c r =>
      have hc := (hhead c r htl').2
      simp only [hc, if_false, hip]
      rw [htl'] at htail
      rw [htail]; rfl
  · -- with a point
    simp only [hfp, if_false]
    obtain ⟨h1, h2⟩ := takeWhile_digits_append (d := l.ip) (rest := '.' :: l.fp ++ tl) hl.ipDigits
      (fun c r h => by simp only [List.cons_append, List.cons.injEq] at h; rw [← h.1]; exact isDigit_dot)
    rw [List.cons_append] at h1 h2 ⊢
    rw [h1, h2]
    simp only [if_true]
    obtain ⟨h3, h4⟩ := takeWhile_digits_append (rest := tl) hl.fpDigits (fun c r h => (hhead c r h).1)
    rw [h3, h4]
    simp only [hfp, if_false, htail, Option.map_some]

theorem takeWhile_all {p : Char → Bool} (s : List Char) : ∀ c ∈ s.takeWhile p, p c = true := by
  induction s with
  | nil => simp
  | cons x xs ih =>
    intro c hc
    rw [List.takeWhile_cons] at hc
    split at hc
    next hx =>
      rcases List.mem_cons.1 hc with rfl | hc
      · exact hx
      · exact ih c hc
    next => cases hc

theorem stripPlus_inv (s : List Char) : ∃ p : Bool, s = (if p then ['+'] else []) ++ stripPlus s := by
  cases s with
  | nil => exact ⟨false, by simp [stripPlus]⟩
  | cons c r =>
    by_cases h : c = '+'
    · exact ⟨true, by simp [stripPlus, h]⟩
    · exact ⟨false, by simp [stripPlus, h]⟩

private theorem tail_inv {sufs : List String} {allowB : Bool} {rest : List Char} {o : Option String}
    (h : matchTail sufs allowB rest = some o) :
    ∃ b : Bool, (b = true → allowB = true) ∧ (∀ sf, o = some sf → sf ∈ sufs) ∧
      rest = optChars o ++ (if b then ['B'] else []) := by
  cases o with
  | none =>
    rcases matchTail_none_inv h with rfl | ⟨hb, rfl⟩
    · exact ⟨false, by simp, by simp, by simp [optChars]⟩
    · exact ⟨true, fun _ => hb, by simp, by simp [optChars]⟩
  | some sf =>
    obtain ⟨hm, hr⟩ := matchTail_some_mem h
    rcases hr with rfl | ⟨hb, rfl⟩
    · exact ⟨false, by simp, by simp [hm], by simp [optChars]⟩
    · exact ⟨true, fun _ => hb, by simp [hm], by simp [optChars]⟩

/-- **Nothing else is matched**: a successful match is the spelling of a well-formed literal with those groups. -/
theorem matchSize_some_inv {sufs : List String} {allowB : Bool} {s : List Char} {g : Groups}
    (h : matchSize sufs allowB s = some g) :
    ∃ l : SizeLit, l.WF sufs allowB ∧ s = l.render ∧ g = ⟨l.ip, l.fp, l.suffix⟩ := by
  obtain ⟨p, hp⟩ := stripPlus_inv s
  unfold matchSize at h
  simp only at h
  have hsplit := List.takeWhile_append_dropWhile (p := isDigit) (l := stripPlus s)
  have hd1 := takeWhile_all (p := isDigit) (stripPlus s)
  generalize (stripPlus s).takeWhile isDigit = d1 at h hsplit hd1
  generalize hr1 : (stripPlus s).dropWhile isDigit = r1 at h hsplit
  cases r1 with
  | nil =>
    simp only at h
    split at h
    · cases h
    next hne =>
      simp only [Option.some.injEq] at h
      refine ⟨⟨p, d1, [], none, false⟩, ⟨hd1, by simp, fun _ => hne, by simp, by simp⟩, ?_, h.symm⟩
      rw [hp, ← hsplit]; simp [SizeLit.render, SizeLit.suffixChars, optChars]
  | cons c r2 =>
    simp only at h
    split at h
    next hc =>
      subst hc
      have hsplit2 := List.takeWhile_append_dropWhile (p := isDigit) (l := r2)
      have hd2 := takeWhile_all (p := isDigit) r2
      generalize r2.takeWhile isDigit = d2 at h hsplit2 hd2
      split at h
      · cases h
      next hne2 =>
        cases hmt : matchTail sufs allowB (r2.dropWhile isDigit) with
        | none => rw [hmt] at h; cases h
        | some o =>
          rw [hmt] at h
          simp only [Option.map_some, Option.some.injEq] at h
          obtain ⟨b, hb, ho, hrest⟩ := tail_inv hmt
          refine ⟨⟨p, d1, d2, o, b⟩, ⟨hd1, hd2, fun e => absurd e hne2, ho, hb⟩, ?_, h.symm⟩
          rw [hp, ← hsplit, ← hsplit2, hrest]
          simp [SizeLit.render, SizeLit.suffixChars, hne2]
    next hc =>
      split at h
      · cases h
      next hne =>
        cases hmt : matchTail sufs allowB (c :: r2) with
        | none => rw [hmt] at h; cases h
        | some o =>
          rw [hmt] at h
          simp only [Option.map_some, Option.some.injEq] at h
          obtain ⟨b, hb, ho, hrest⟩ := tail_inv hmt
          refine ⟨⟨p, d1, [], o, b⟩, ⟨hd1, by simp, fun _ => hne, ho, hb⟩, ?_, h.symm⟩
          rw [hp, ← hsplit, hrest]
          simp [SizeLit.render, SizeLit.suffixChars, optChars]

/-! ## Part 3 — `Frac` floor and ceiling -/

theorem ceil_natCast_div (a b : Nat) (hb : 0 < b) : ⌈(a : ℚ) / (b : ℚ)⌉₊ = (a + b - 1) / b := by
  have hbq : (0 : ℚ) < (b : ℚ) := by exact_mod_cast hb
  apply le_antisymm
  · rw [Nat.ceil_le, div_le_iff₀ hbq]
    have h1 : a ≤ (a + b - 1) / b * b := by
      have := Nat.div_add_mod (a + b - 1) b
      have hm := Nat.mod_lt (a + b - 1) hb
      rw [Nat.mul_comm] at this
      omega
    exact_mod_cast h1
  · have hle : (a : ℚ) / b ≤ (⌈(a : ℚ) / (b : ℚ)⌉₊ : ℚ) := Nat.le_ceil _
    rw [div_le_iff₀ hbq] at hle
    have hle' : a ≤ ⌈(a : ℚ) / (b : ℚ)⌉₊ * b := by exact_mod_cast hle
    generalize ⌈(a : ℚ) / (b : ℚ)⌉₊ = n at hle'
    apply Nat.le_of_lt_succ
    rw [Nat.div_lt_iff_lt_mul hb]
    rw [Nat.succ_mul]
    omega

theorem Frac.floor_eq (q : Frac) : q.floor = ⌊(q.num : ℚ) / (q.den : ℚ)⌋₊ := by
  rw [Nat.floor_div_eq_div]; rfl

theorem Frac.ceil_eq (q : Frac) (h : 0 < q.den) : q.ceil = ⌈(q.num : ℚ) / (q.den : ℚ)⌉₊ := by
  rw [ceil_natCast_div _ _ h]; rfl

theorem pow10_pos (k : Nat) : 0 < 10 ^ k := by positivity

/-- the rational a `Frac` denotes -/
def Frac.toQ (q : Frac) : ℚ := (q.num : ℚ) / (q.den : ℚ)

theorem Frac.toQ_mulNat (q : Frac) (n : Nat) : (q.mulNat n).toQ = q.toQ * n := by
  simp only [Frac.toQ, Frac.mulNat]; push_cast; ring

theorem Frac.toQ_divNat (q : Frac) (n : Nat) : (q.divNat n).toQ = q.toQ / n := by
  simp only [Frac.toQ, Frac.divNat]; push_cast; rw [div_div]

theorem Frac.toQ_ofDecimal (l : SizeLit) : (Frac.ofDecimal l.ip l.fp).toQ = l.valueQ := by
  simp only [Frac.toQ, Frac.ofDecimal, SizeLit.valueQ]; push_cast; rfl

theorem Frac.floor_toQ (q : Frac) : q.floor = ⌊q.toQ⌋₊ := q.floor_eq
theorem Frac.ceil_toQ (q : Frac) (h : 0 < q.den) : q.ceil = ⌈q.toQ⌉₊ := q.ceil_eq h

end HailVerif.SizeParse

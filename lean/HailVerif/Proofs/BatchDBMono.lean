import HailVerif.Proofs.BatchDBStepShape
/-! Consequences of `Shape`: lookups are stable, cancellation is monotone. -/
namespace HailVerif.BatchDB

theorem find?_map_append_some {α : Type} (p : α → Bool) (F : α → α) (hF : ∀ x, p (F x) = p x) (l new : List α) (x : α)
    (h : l.find? p = some x) : (l.map F ++ new).find? p = some (F x) := by
  induction l with
  | nil => simp at h
  | cons y l ih =>
    simp only [List.find?_cons] at h
    by_cases hy : p y
    · simp [hy] at h; subst h
      simp [List.find?_cons, hF, hy]
    · simp [hy] at h
      simp only [List.map_cons, List.cons_append, List.find?_cons, hF, hy]
      exact ih h

theorem findGroup_shape {s s' : State} (h : Shape s s') (b g : Nat) (x : Group) (hx : findGroup s b g = some x) :
    ∃ x', findGroup s' b g = some x' ∧ x'.ancestors = x.ancestors ∧ x'.update = x.update ∧ x'.batch = x.batch ∧ x'.id = x.id := by
  obtain ⟨F, new, hF, e, _⟩ := h.groups
  refine ⟨F x, ?_, (hF x).2.2.1, (hF x).2.2.2, (hF x).1, (hF x).2.1⟩
  unfold findGroup at *
  rw [e]
  apply find?_map_append_some _ F _ _ _ _ hx
  intro y; simp [(hF y).1, (hF y).2.1]

theorem ancestorsOf_shape {s s' : State} (h : Shape s s') (b g : Nat) (hne : ancestorsOf s b g ≠ []) :
    ancestorsOf s' b g = ancestorsOf s b g := by
  unfold ancestorsOf at *
  cases hx : findGroup s b g with
  | none => simp [hx] at hne
  | some x =>
    obtain ⟨x', hx', ha, _⟩ := findGroup_shape h b g x hx
    simp [hx', ha]

theorem cancelled_subset {s s' : State} (h : Shape s s') (p : Nat × Nat) (hp : s.cancelled.contains p = true) :
    s'.cancelled.contains p = true := by
  obtain ⟨new, e⟩ := h.cancelled
  rw [e]; simp at hp ⊢; exact Or.inl hp

/-- a cancelled group stays cancelled across any transaction -/
theorem groupCancelled_mono {s s' : State} (h : Shape s s') (b g : Nat) (hc : groupCancelled s b g = true) :
    groupCancelled s' b g = true := by
  unfold groupCancelled at *
  have hne : ancestorsOf s b g ≠ [] := by
    intro he; rw [he] at hc; simp at hc
  rw [ancestorsOf_shape h b g hne]
  rw [List.any_eq_true] at hc ⊢
  obtain ⟨a, ha, hca⟩ := hc
  exact ⟨a, ha, cancelled_subset h _ hca⟩

theorem findJob_shape {s s' : State} (h : Shape s s') (b j : Nat) (x : Job) (hx : findJob s b j = some x) :
    ∃ x', findJob s' b j = some x' ∧ x'.batch = x.batch ∧ x'.id = x.id ∧ x'.update = x.update ∧ x'.group = x.group ∧
      x'.alwaysRun = x.alwaysRun ∧ x'.cores = x.cores ∧ x'.ic = x.ic ∧ (x.cancelled = true → x'.cancelled = true) := by
  obtain ⟨F, new, hF, e⟩ := h.jobs
  obtain ⟨a1, a2, a3, a4, a5, a6, a7, a8⟩ := hF x
  refine ⟨F x, ?_, a1, a2, a3, a4, a5, a6, a7, a8⟩
  unfold findJob at *
  rw [e]
  apply find?_map_append_some _ F _ _ _ _ hx
  intro y; simp [(hF y).1, (hF y).2.1]

/-- a job that is cancelled (by its own mark or through any ancestor group) and not always-run stays so -/
theorem jobCancelled_mono {s s' : State} (h : Shape s s') (b j : Nat) (x x' : Job)
    (hx : findJob s b j = some x) (hx' : findJob s' b j = some x') (hc : jobCancelled s x = true) :
    jobCancelled s' x' = true := by
  obtain ⟨y, hy, e1, e2, e3, e4, e5, e6, e7, e8⟩ := findJob_shape h b j x hx
  rw [hx'] at hy; cases hy
  unfold jobCancelled at *
  simp only [Bool.and_eq_true, Bool.not_eq_true', Bool.or_eq_true] at hc ⊢
  refine ⟨by rw [e5]; exact hc.1, ?_⟩
  rcases hc.2 with h1 | h2
  · exact Or.inl (e8 h1)
  · right; rw [e1, e4]; exact groupCancelled_mono h _ _ h2

/-- every reachable pair of states along a history is related by `Shape` -/
theorem shape_run (s : State) (ops : List Op) : Shape s (ops.foldl (fun s op => (step s op).1) s) := by
  induction ops generalizing s with
  | nil => exact Shape.refl s
  | cons op rest ih => exact (shape_step s op).trans (ih _)

end HailVerif.BatchDB

import HailVerif.Proofs.BatchDBSubmission
/-!
# The id checks of `_create_jobs` as unconditional invariants (C08 repair)

`_create_jobs` rejects a bunch (400, before anything is written) unless every spec has its in-update job id in
`[1, n_jobs]` of the update, its in-update parent ids in `[1, own in-update id)` and its absolute parent ids in
`[1, own absolute id)` — `specIdsOk` in the model.  Consequences proved here for EVERY history (no client-side
well-formedness hypothesis):

* `ParentsDecrease`: every `job_parents` row `(batch, job, parent)` has `1 ≤ parent < job`;
* `JobsInRange`: every job row lies in the job-id range reserved by its own update;
* with the contiguity of the reserved ranges (`RangesOK`, C09): every parent id lies inside a range reserved by some update
  of the batch (`parent_in_reserved_range`), and an update that reserved no job ids has no job rows (`noJobs_of_zero`).

What the checks can NOT give (and the code deliberately does not check: bunches of one update are sent concurrently) is the
EXISTENCE of the parent row: see `Props/C08.lean`.
-/
namespace HailVerif.BatchDB.Submission
open HailVerif.BatchDB

/-- `job_parents` rows point to strictly smaller, positive job ids -/
def ParentsDecrease (s : State) : Prop := ∀ e ∈ s.parents, 1 ≤ e.2.2 ∧ e.2.2 < e.2.1

instance (s : State) : Decidable (ParentsDecrease s) := by unfold ParentsDecrease; infer_instance

/-- every job row lies in the job-id range reserved by its own update -/
def JobsInRange (s : State) : Prop :=
  ∀ j ∈ s.jobs, ∃ u ∈ findUpdate s j.batch j.update, u.startJob ≤ j.id ∧ j.id < u.startJob + u.nJobs

instance (s : State) : Decidable (JobsInRange s) := by unfold JobsInRange; infer_instance

/-- what `specIdsOk` says, as propositions -/
theorem specIdsOk_iff (u : Update) (sp : JobSpec) :
    specIdsOk u sp = true ↔
      (1 ≤ sp.relId ∧ sp.relId ≤ u.nJobs) ∧ (∀ p ∈ sp.relParents, 1 ≤ p ∧ p < sp.relId) ∧
      (∀ p ∈ sp.absParents, 1 ≤ p ∧ p < u.startJob + sp.relId - 1) := by
  unfold specIdsOk
  simp only [Bool.and_eq_true, decide_eq_true_eq, List.all_eq_true, and_assoc]

/-- the resolved parent ids of a spec that passed the checks are positive and smaller than the job's absolute id -/
theorem jobParents_lt {u : Update} {sp : JobSpec} (h : specIdsOk u sp = true) (hs : 1 ≤ u.startJob) :
    ∀ p ∈ jobParents u sp, 1 ≤ p ∧ p < sp.relId + u.startJob - 1 := by
  obtain ⟨⟨h1, _⟩, h2, h3⟩ := (specIdsOk_iff u sp).mp h
  intro p hp
  simp only [jobParents, List.mem_append, List.mem_map] at hp
  rcases hp with hp | ⟨q, hq, rfl⟩
  · have := h3 p hp; omega
  · have := h2 q hq; omega

/-- reserved ranges start at 1: `start_job_id ≥ 1` for every update row -/
theorem startJob_pos {s : State} (h : RangesOK s) {u : Update} (hu : u ∈ s.updates) : 1 ≤ u.startJob := by
  have := (chained_lower (updatesOf s u.batch) none (h u.batch) u (by simp [updatesOf, hu])).2.1
  simpa [nextJob] using this

theorem parentsDecrease_step (s : State) (op : Op) (hr : RangesOK s) (h : ParentsDecrease s) :
    ParentsDecrease (step s op).1 := by
  by_cases h1 : ∃ b t nj ng u, op = .createUpdate b t nj ng u
  · obtain ⟨b, t, nj, ng, u, rfl⟩ := h1
    intro e he
    have : (step s (.createUpdate b t nj ng u)).1.parents = s.parents := (createUpdate_jobs_parents s b t nj ng u).2
    rw [this] at he
    exact h e he
  · by_cases h2 : ∃ b u usr specs, op = .insertJobs b u usr specs
    · obtain ⟨b, upd, usr, specs, rfl⟩ := h2
      show ParentsDecrease (insertJobs s b upd usr specs).1
      rcases insertJobs_cases s b upd usr specs with ⟨o, e⟩ | ⟨first, rest, u, bt, hs, hu, hbt, hrej, e⟩
      · rw [e]; exact h
      · rw [e]
        intro x hx
        rcases mem_parents_apply hx with hx | ⟨sp, hsp, -, e2, hp⟩
        · exact h x hx
        · have hpos := startJob_pos hr (mem_of_findUpdate hu).1
          have := jobParents_lt (insertJobsReject_ids hrej sp hsp) hpos _ hp
          rw [e2]; exact this
    · have hq := quiet_step s op (fun b t nj ng u e => h1 ⟨b, t, nj, ng, u, e⟩)
        (fun b u usr specs e => h2 ⟨b, u, usr, specs, e⟩)
      intro e he
      rw [hq.parents] at he
      exact h e he

theorem jobsInRange_step (s : State) (op : Op) (h : JobsInRange s) : JobsInRange (step s op).1 := by
  -- an old job row (possibly rewritten in place): same key and update, the update row keeps its range
  have hold : ∀ (F : Job → Job), JobFrame F → ∀ j ∈ s.jobs,
      ∃ u ∈ findUpdate (step s op).1 (F j).batch (F j).update, u.startJob ≤ (F j).id ∧ (F j).id < u.startJob + u.nJobs := by
    intro F hF j hj
    obtain ⟨a1, a2, a3, -⟩ := hF j
    rw [a1, a2, a3]
    exact exists_findUpdate_step s op (h j hj)
  by_cases h1 : ∃ b t nj ng u, op = .createUpdate b t nj ng u
  · obtain ⟨b, t, nj, ng, u, rfl⟩ := h1
    intro j hj
    have ej : (step s (.createUpdate b t nj ng u)).1.jobs = s.jobs := (createUpdate_jobs_parents s b t nj ng u).1
    rw [ej] at hj
    exact hold id JobFrame.id j hj
  · by_cases h2 : ∃ b u usr specs, op = .insertJobs b u usr specs
    · obtain ⟨b, upd, usr, specs, rfl⟩ := h2
      rcases insertJobs_cases s b upd usr specs with ⟨o, e⟩ | ⟨first, rest, u, bt, hs, hu, hbt, hrej, e⟩
      · show JobsInRange (insertJobs s b upd usr specs).1
        rw [e]; exact h
      · intro j hj
        have ej : (step s (.insertJobs b upd usr specs)).1.jobs = s.jobs ++ specs.map (mkJob u b) := by
          show (insertJobs s b upd usr specs).1.jobs = _
          rw [e]; rfl
        rw [ej, List.mem_append] at hj
        rcases hj with hj | hj
        · exact hold id JobFrame.id j hj
        · rw [List.mem_map] at hj
          obtain ⟨sp, hsp, rfl⟩ := hj
          obtain ⟨⟨r1, r2⟩, -, -⟩ := (specIdsOk_iff u sp).mp (insertJobsReject_ids hrej sp hsp)
          have huid := mem_of_findUpdate hu
          obtain ⟨u', hu', -, -, -, a4, a5, -⟩ := findUpdate_step s (.insertJobs b upd usr specs) hu
          refine ⟨u', ?_, ?_, ?_⟩
          · show u' ∈ findUpdate _ b u.id
            rw [huid.2.2]; exact Option.mem_def.mpr hu'
          · show u'.startJob ≤ sp.relId + u.startJob - 1; omega
          · show sp.relId + u.startJob - 1 < u'.startJob + u'.nJobs; omega
    · have hq := quiet_step s op (fun b t nj ng u e => h1 ⟨b, t, nj, ng, u, e⟩)
        (fun b u usr specs e => h2 ⟨b, u, usr, specs, e⟩)
      obtain ⟨F, hF, ej⟩ := hq.jobs
      intro j' hj'
      rw [ej, List.mem_map] at hj'
      obtain ⟨j, hj, rfl⟩ := hj'
      exact hold F hF j hj

/-- the three invariants together, along any history from the empty database -/
theorem jobIds_run (ops : List Op) :
    RangesOK (ops.foldl (fun s op => (step s op).1) init) ∧ ParentsDecrease (ops.foldl (fun s op => (step s op).1) init) ∧
      JobsInRange (ops.foldl (fun s op => (step s op).1) init) := by
  apply foldl_inv (fun s => RangesOK s ∧ ParentsDecrease s ∧ JobsInRange s)
  · intro s op ⟨h1, h2, h3⟩
    exact ⟨rangesOK_step s op h1, parentsDecrease_step s op h1 h2, jobsInRange_step s op h3⟩
  · exact ⟨rangesOK_init, by intro e he; simp [init] at he, by intro j hj; simp [init] at hj⟩

/-- contiguity: an id between the start of a chain and the end of one of its rows lies in the range of some row -/
theorem chained_cover (us : List Update) : ∀ p, ChainedFrom p us → ∀ q, nextJob p ≤ q → ∀ v ∈ us, q < v.startJob + v.nJobs →
    ∃ w ∈ us, w.startJob ≤ q ∧ q < w.startJob + w.nJobs := by
  induction us with
  | nil => intro p _ q _ v hv; simp at hv
  | cons u rest ih =>
    intro p hc q hlo v hv hq
    obtain ⟨-, h2, -⟩ := (follows_iff p u).mp hc.1
    by_cases hin : q < u.startJob + u.nJobs
    · exact ⟨u, List.mem_cons_self, by omega, hin⟩
    · rcases List.mem_cons.mp hv with rfl | hv'
      · exact absurd hq hin
      · obtain ⟨w, hw, hw1, hw2⟩ := ih (some u) hc.2 q (by simp only [nextJob]; omega) v hv' hq
        exact ⟨w, List.mem_cons_of_mem _ hw, hw1, hw2⟩

/-- a positive id below the end of an update's range lies in the range reserved by some update of the same batch -/
theorem covered_of_lt {s : State} (hr : RangesOK s) {u : Update} (hu : u ∈ s.updates) {q : Nat} (h1 : 1 ≤ q)
    (h2 : q < u.startJob + u.nJobs) : ∃ w ∈ s.updates, w.batch = u.batch ∧ w.startJob ≤ q ∧ q < w.startJob + w.nJobs := by
  obtain ⟨w, hw, hw1, hw2⟩ := chained_cover (updatesOf s u.batch) none (hr u.batch) q (by simpa [nextJob] using h1) u
    (by simp [updatesOf, hu]) h2
  simp only [updatesOf, List.mem_filter, decide_eq_true_eq] at hw
  exact ⟨w, hw.1, hw.2, hw1, hw2⟩

end HailVerif.BatchDB.Submission

import HailVerif.Model.CI
/-! Helper lemmas for C30 (`Props/C30.lean`). -/
namespace HailVerif.CI

/-- closes goals that are `rfl` possibly after the simplifier already turned them into `True` -/
macro "triv" : tactic => `(tactic| first | rfl | trivial | simp)

/-! ### priority order is a permutation (as far as membership goes) -/

theorem mem_insertByPrio {p q : PR} {l : List PR} : q ∈ insertByPrio p l ↔ q = p ∨ q ∈ l := by
  induction l with
  | nil => simp [insertByPrio]
  | cons a l ih =>
    unfold insertByPrio
    split
    · simp
    · simp [ih]; constructor
      · rintro (h | h | h) <;> simp [h]
      · rintro (h | h | h) <;> simp [h]

theorem mem_byPrio {q : PR} {ps : List PR} : q ∈ byPrio ps ↔ q ∈ ps := by
  unfold byPrio
  induction ps with
  | nil => simp
  | cons a l ih => simp [List.foldr, mem_insertByPrio, ih]

/-! ### `try_to_merge` -/

theorem tryMerge_out (st : State) (order : List PR) (merges : List Bool) (n : Nat) (sha : Sha) (ok : Bool)
    (h : Out.merge n sha ok ∈ (tryMerge st order merges).2) :
    ∃ p ∈ order, p.number = n ∧ p.sourceSha = sha ∧ p.mergeable st.sha = some true := by
  induction order generalizing merges with
  | nil => simp [tryMerge] at h
  | cons p rest ih =>
    unfold tryMerge at h
    split at h
    · simp at h
    · obtain ⟨q, hq, h1⟩ := ih merges h
      exact ⟨q, List.mem_cons_of_mem _ hq, h1⟩
    next hm =>
      cases merges with
      | nil =>
        simp at h
        exact ⟨p, List.mem_cons_self, h.1.symm, h.2.1.symm, hm⟩
      | cons b bs =>
        cases b with
        | true =>
          simp at h
          exact ⟨p, List.mem_cons_self, h.1.symm, h.2.1.symm, hm⟩
        | false =>
          simp at h
          rcases h with h | h
          · exact ⟨p, List.mem_cons_self, h.1.symm, h.2.1.symm, hm⟩
          · obtain ⟨q, hq, h1⟩ := ih bs h
            exact ⟨q, List.mem_cons_of_mem _ hq, h1⟩

theorem tryMerge_prs_svc (st : State) (order : List PR) (merges : List Bool) :
    (tryMerge st order merges).1.prs = st.prs ∧ (tryMerge st order merges).1.svc = st.svc := by
  induction order generalizing merges with
  | nil => simp [tryMerge]
  | cons p rest ih =>
    unfold tryMerge
    split
    · simp
    · exact ih merges
    · cases merges with
      | nil => simp
      | cons b bs =>
        cases b with
        | true => simp
        | false => simpa using ih bs

/-- an accepted merge ends the loop and forgets the target sha -/
theorem tryMerge_accepted_sha (st : State) (order : List PR) (merges : List Bool) (n : Nat) (sha : Sha)
    (h : Out.merge n sha true ∈ (tryMerge st order merges).2) : (tryMerge st order merges).1.sha = none := by
  induction order generalizing merges with
  | nil => simp [tryMerge] at h
  | cons p rest ih =>
    cases hm : p.mergeable st.sha with
    | none => simp [tryMerge, hm] at h
    | some b =>
      cases b with
      | false =>
        simp only [tryMerge, hm] at h ⊢
        exact ih merges h
      | true =>
        cases merges with
        | nil => simp [tryMerge, hm]
        | cons b bs =>
          cases b with
          | true => simp [tryMerge, hm]
          | false =>
            simp only [tryMerge, hm] at h ⊢
            simp at h ⊢
            exact ih bs h

/-- at most one accepted merge per `try_to_merge` -/
theorem tryMerge_accepted_le_one (st : State) (order : List PR) (merges : List Bool) :
    ((tryMerge st order merges).2.filter fun o => match o with
      | .merge _ _ true => true
      | _ => false).length ≤ 1 := by
  induction order generalizing merges with
  | nil => simp [tryMerge]
  | cons p rest ih =>
    unfold tryMerge
    split
    · simp
    · exact ih merges
    · cases merges with
      | nil => simp
      | cons b bs =>
        cases b with
        | true => simp
        | false => simpa using ih bs

theorem mergeable_needs_sha (p : PR) : p.mergeable none ≠ some true := by
  unfold PR.mergeable PR.upToDate
  split <;> simp

theorem tryMerge_sha_none (st : State) (order : List PR) (merges : List Bool) (h : st.sha = none) :
    (tryMerge st order merges).1.sha = none := by
  induction order generalizing merges with
  | nil => simpa [tryMerge] using h
  | cons p rest ih =>
    have : p.mergeable st.sha ≠ some true := by rw [h]; exact mergeable_needs_sha p
    cases hm : p.mergeable st.sha with
    | none => simpa [tryMerge, hm] using h
    | some b =>
      cases b with
      | true => exact absurd hm this
      | false => simp only [tryMerge, hm]; exact ih merges

/-! ### association list / PR list facts -/

theorem lookup_insert_self (k : Nat) (v : GhStatus) (m : List (Nat × GhStatus)) : lookup k (insert k v m) = some v := by
  induction m with
  | nil => simp [insert, lookup]
  | cons kv t ih =>
    obtain ⟨k', v'⟩ := kv
    unfold insert
    by_cases h1 : (k == k') = true
    · simp [h1, lookup]
    · by_cases h2 : k < k'
      · simp [h1, h2, lookup]
      · simp [h1, h2, lookup, ih]

theorem lookup_allSuccess {k : Nat} {v : GhStatus} {m : List (Nat × GhStatus)} (h : lookup k m = some v)
    (ha : allSuccess m = true) : v = .success := by
  induction m with
  | nil => simp [lookup] at h
  | cons kv t ih =>
    obtain ⟨k', v'⟩ := kv
    simp only [allSuccess, List.all_cons, Bool.and_eq_true] at ha
    unfold lookup at h
    by_cases h1 : (k == k') = true
    · simp [h1] at h; subst h; simpa using ha.1
    · simp [h1] at h; exact ih h (by simpa [allSuccess] using ha.2)

def hasCi (p : PR) : Bool := (lookup ciCtx p.statuses).isSome

theorem map_number_replacePR (p : PR) (l : List PR) : (replacePR p l).map (·.number) = l.map (·.number) := by
  induction l with
  | nil => rfl
  | cons q t ih =>
    unfold replacePR
    by_cases h : (q.number == p.number) = true
    · have : q.number = p.number := by simpa using h
      simp [h, this]
    · simp [h, ih]

theorem mem_replacePR {q p : PR} {l : List PR} (h : q ∈ replacePR p l) : q = p ∨ q ∈ l := by
  induction l with
  | nil => simp [replacePR] at h
  | cons a t ih =>
    unfold replacePR at h
    by_cases hh : (a.number == p.number) = true
    · simp [hh] at h; rcases h with h | h
      · exact Or.inl h
      · exact Or.inr (List.mem_cons_of_mem _ h)
    · simp [hh] at h; rcases h with h | h
      · exact Or.inr (h ▸ List.mem_cons_self)
      · rcases ih h with h' | h'
        · exact Or.inl h'
        · exact Or.inr (List.mem_cons_of_mem _ h')

theorem mem_replacePR_nodup {q p : PR} {l : List PR} (hn : (l.map (·.number)).Nodup) (h : q ∈ replacePR p l) :
    q = p ∨ (q ∈ l ∧ q.number ≠ p.number) := by
  induction l with
  | nil => simp [replacePR] at h
  | cons a t ih =>
    simp only [List.map_cons, List.nodup_cons, List.mem_map, not_exists, not_and] at hn
    unfold replacePR at h
    by_cases hh : (a.number == p.number) = true
    · have ha : a.number = p.number := by simpa using hh
      simp [hh] at h; rcases h with h | h
      · exact Or.inl h
      · refine Or.inr ⟨List.mem_cons_of_mem _ h, fun hq => ?_⟩
        exact hn.1 q h (by rw [hq, ha])
    · simp [hh] at h; rcases h with h | h
      · refine Or.inr ⟨h ▸ List.mem_cons_self, ?_⟩
        subst h; simpa using hh
      · rcases ih hn.2 h with h' | h'
        · exact Or.inl h'
        · exact Or.inr ⟨List.mem_cons_of_mem _ h'.1, h'.2⟩

theorem replacePR_replacePR (p1 p2 : PR) (l : List PR) (h : p2.number = p1.number) :
    replacePR p2 (replacePR p1 l) = replacePR p2 l := by
  induction l with
  | nil => rfl
  | cons a t ih =>
    by_cases hh : (a.number == p1.number) = true
    · have h2 : (a.number == p2.number) = true := by rw [h]; exact hh
      have h3 : (p1.number == p2.number) = true := by simp [h]
      simp [replacePR, hh, h2, h3]
    · have h2 : (a.number == p2.number) = false := by rw [h]; simpa using hh
      have hh' : (a.number == p1.number) = false := by simpa using hh
      simp [replacePR, hh', h2, ih]

theorem findPR_some {n : Nat} {l : List PR} {p : PR} (h : findPR n l = some p) : p ∈ l ∧ p.number = n := by
  induction l with
  | nil => simp [findPR] at h
  | cons a t ih =>
    unfold findPR at h
    by_cases hh : (a.number == n) = true
    · simp [hh] at h; subst h; exact ⟨List.mem_cons_self, by simpa using hh⟩
    · simp [hh] at h; exact ⟨List.mem_cons_of_mem _ (ih h).1, (ih h).2⟩

theorem findPR_none {n : Nat} {l : List PR} (h : findPR n l = none) : ∀ q ∈ l, q.number ≠ n := by
  induction l with
  | nil => simp
  | cons a t ih =>
    unfold findPR at h
    by_cases hh : (a.number == n) = true
    · simp [hh] at h
    · simp [hh] at h
      intro q hq
      rcases List.mem_cons.1 hq with rfl | hq
      · simpa using hh
      · exact ih h q hq

/-! ### field-level facts about the PR helpers -/

theorem setBuildState_fields (p : PR) (bs : Option BuildState) :
    (p.setBuildState bs).1.number = p.number ∧ (p.setBuildState bs).1.sourceSha = p.sourceSha ∧
    (p.setBuildState bs).1.statuses = p.statuses ∧ (p.setBuildState bs).1.batch = p.batch ∧
    (p.setBuildState bs).1.buildState = bs ∧ (p.setBuildState bs).1.review = p.review ∧
    (p.setBuildState bs).1.labels = p.labels := by
  unfold PR.setBuildState
  by_cases h : (bs != p.buildState) = true
  · simp only [h, ↓reduceIte]
    split <;> simp
  · simp only [h, Bool.false_eq_true, ↓reduceIte]
    have : bs = p.buildState := by simpa using h
    simp [this]

theorem postStatus_fields (p : PR) :
    p.postStatus.1.number = p.number ∧ p.postStatus.1.sourceSha = p.sourceSha ∧ p.postStatus.1.batch = p.batch ∧
    p.postStatus.1.buildState = p.buildState ∧ hasCi p.postStatus.1 = true ∧ p.postStatus.1.review = p.review ∧
    p.postStatus.1.labels = p.labels := by
  unfold PR.postStatus
  by_cases h : (some p.intended != lookup ciCtx p.statuses) = true
  · simp [h, hasCi, lookup_insert_self]
  · have : lookup ciCtx p.statuses = some p.intended := by
      have := h; simp at this; exact this.symm
    simp [h, hasCi, this]

theorem startBuild_pr (st : State) (p : PR) (ok : Bool) :
    (startBuild st p ok).2.1.number = p.number ∧ (startBuild st p ok).2.1.sourceSha = p.sourceSha ∧
    (startBuild st p ok).2.1.statuses = p.statuses ∧ (startBuild st p ok).2.1.buildState ≠ some .success ∧
    (startBuild st p ok).2.1.review = p.review ∧ (startBuild st p ok).2.1.labels = p.labels := by
  have f1 := setBuildState_fields ({ p with batch := .none } : PR) none
  unfold startBuild
  cases ok with
  | true => simp [f1.1, f1.2.1, f1.2.2.1, f1.2.2.2.2.1, f1.2.2.2.2.2.1, f1.2.2.2.2.2.2]
  | false =>
    simp only [Bool.false_eq_true, ↓reduceIte]
    have f2 := setBuildState_fields
      ({ (({ p with batch := .none } : PR).setBuildState none).1 with batch := .mergeFailure (st.sha.getD 0) } : PR) (some .error)
    refine ⟨?_, ?_, ?_, ?_, ?_, ?_⟩
    · rw [f2.1]; exact f1.1
    · rw [f2.2.1]; exact f1.2.1
    · rw [f2.2.2.1]; exact f1.2.2.1
    · rw [f2.2.2.2.2.1]; simp
    · rw [f2.2.2.2.2.2.1]; exact f1.2.2.2.2.2.1
    · rw [f2.2.2.2.2.2.2]; exact f1.2.2.2.2.2.2

/-- success records of the batch service persist -/
def SvcExt (s s' : List BatchRec) : Prop := ∀ b ∈ s, b.state = .success → b ∈ s'

theorem SvcExt.refl (s : List BatchRec) : SvcExt s s := fun _ hb _ => hb
theorem SvcExt.trans {a b c : List BatchRec} (h1 : SvcExt a b) (h2 : SvcExt b c) : SvcExt a c :=
  fun x hx hs => h2 x (h1 x hx hs) hs

theorem startBuild_state (st : State) (p : PR) (ok : Bool) :
    (startBuild st p ok).1.prs = st.prs ∧ (startBuild st p ok).1.sha = st.sha ∧
    SvcExt st.svc (startBuild st p ok).1.svc := by
  unfold startBuild
  cases ok with
  | true => simp [SvcExt]; intro b hb _; exact Or.inl hb
  | false => simp [SvcExt]; intro b hb _; exact hb

/-- every PR in build_state success of the later state descends from one of the earlier state with the same head and batch -/
def Refines (st st' : State) : Prop :=
  SvcExt st.svc st'.svc ∧
  ∀ q ∈ st'.prs, q.buildState = some .success →
    ∃ p ∈ st.prs, p.buildState = some .success ∧ q.sourceSha = p.sourceSha ∧ q.batch = p.batch

theorem Refines.refl (st : State) : Refines st st := ⟨SvcExt.refl _, fun q hq hs => ⟨q, hq, hs, rfl, rfl⟩⟩

theorem Refines.trans {a b c : State} (h1 : Refines a b) (h2 : Refines b c) : Refines a c := by
  refine ⟨h1.1.trans h2.1, fun q hq hs => ?_⟩
  obtain ⟨p, hp, hps, e1, e2⟩ := h2.2 q hq hs
  obtain ⟨r, hr, hrs, e3, e4⟩ := h1.2 p hp hps
  exact ⟨r, hr, hrs, e1.trans e3, e2.trans e4⟩

/-! ### `PR._heal` -/

theorem healPR_none (st : State) (p : PR) (d : Bool) (b : List Bool) (h : st.sha = none) : (healPR st p d b).1 = st := by
  unfold healPR; simp [h]

/-- the shape of the state after `PR._heal` when the target sha is known -/
theorem healPR_spec (st : State) (p : PR) (d : Bool) (bl : List Bool) (t : Sha) (h : st.sha = some t) :
    (healPR st p d bl).1.sha = some t ∧ SvcExt st.svc (healPR st p d bl).1.svc ∧
    ∃ p', (healPR st p d bl).1.prs = replacePR p' st.prs ∧ p'.number = p.number ∧ hasCi p' = true ∧
      p'.sourceSha = p.sourceSha ∧ p'.review = p.review ∧ p'.labels = p.labels ∧
      (p'.buildState = some .success → p'.buildState = p.buildState ∧ p'.batch = p.batch) := by
  have fp := postStatus_fields p
  obtain ⟨sha, prs, g, b, sc, nr, mc, svc, nid⟩ := st
  simp only at h
  subst h
  unfold healPR
  simp only
  by_cases hb : (p.postStatus.1.needsBuild d t nr) = true
  · simp only [hb, ↓reduceIte]
    have fs := startBuild_pr ⟨some t, replacePR p.postStatus.1 prs, g, b, sc, nr + 1, mc, svc, nid⟩ p.postStatus.1 (bl.headD true)
    have fst := startBuild_state ⟨some t, replacePR p.postStatus.1 prs, g, b, sc, nr + 1, mc, svc, nid⟩ p.postStatus.1 (bl.headD true)
    refine ⟨fst.2.1, fst.2.2, (startBuild ⟨some t, replacePR p.postStatus.1 prs, g, b, sc, nr + 1, mc, svc, nid⟩ p.postStatus.1 (bl.headD true)).2.1, ?_, ?_, ?_, ?_, ?_, ?_, ?_⟩
    · show replacePR _ (startBuild _ _ _).1.prs = _
      rw [fst.1]
      exact replacePR_replacePR _ _ _ (by rw [fs.1])
    · rw [fs.1]; exact fp.1
    · simp only [hasCi]; rw [fs.2.2.1]; exact fp.2.2.2.2.1
    · rw [fs.2.1]; exact fp.2.1
    · rw [fs.2.2.2.2.1]; exact fp.2.2.2.2.2.1
    · rw [fs.2.2.2.2.2]; exact fp.2.2.2.2.2.2
    · intro hs; exact absurd hs fs.2.2.2.1
  · simp only [hb, Bool.false_eq_true, ↓reduceIte]
    refine ⟨trivial, SvcExt.refl _, p.postStatus.1, by rfl, fp.1, fp.2.2.2.2.1, fp.2.1, fp.2.2.2.2.2.1, fp.2.2.2.2.2.2, ?_⟩
    intro hs; exact ⟨fp.2.2.2.1, fp.2.2.1⟩

theorem healPR_refines (st : State) (p : PR) (d : Bool) (bl : List Bool) (hp : p ∈ st.prs) :
    Refines st (healPR st p d bl).1 := by
  cases h : st.sha with
  | none => rw [healPR_none _ _ _ _ h]; exact Refines.refl _
  | some t =>
    obtain ⟨_, hsvc, p', hprs, _, _, hsrc, _, _, hsucc⟩ := healPR_spec st p d bl t h
    refine ⟨hsvc, fun q hq hs => ?_⟩
    rw [hprs] at hq
    rcases mem_replacePR hq with rfl | hq
    · obtain ⟨e1, e2⟩ := hsucc hs
      exact ⟨p, hp, e1 ▸ hs, hsrc, e2⟩
    · exact ⟨q, hq, hs, rfl, rfl⟩

theorem healPR_numbers (st : State) (p : PR) (d : Bool) (bl : List Bool) :
    (healPR st p d bl).1.prs.map (·.number) = st.prs.map (·.number) ∧ (healPR st p d bl).1.sha = st.sha := by
  cases h : st.sha with
  | none => rw [healPR_none _ _ _ _ h]; exact ⟨rfl, h⟩
  | some t =>
    obtain ⟨hsha, _, p', hprs, _⟩ := healPR_spec st p d bl t h
    rw [hprs, map_number_replacePR]; exact ⟨rfl, hsha⟩

/-- `S`-numbered PRs carry a CI status entry -/
def CiOn (S : Nat → Prop) (l : List PR) : Prop := ∀ q ∈ l, S q.number → hasCi q = true

theorem healPR_ciOn (st : State) (p : PR) (d : Bool) (bl : List Bool) (t : Sha) (h : st.sha = some t)
    (hn : (st.prs.map (·.number)).Nodup) (S : Nat → Prop) (hc : CiOn S st.prs) :
    CiOn (fun n => S n ∨ n = p.number) (healPR st p d bl).1.prs := by
  obtain ⟨_, _, p', hprs, hnum, hci, _⟩ := healPR_spec st p d bl t h
  intro q hq hS
  rw [hprs] at hq
  rcases mem_replacePR_nodup hn hq with rfl | ⟨hq, hne⟩
  · exact hci
  · rcases hS with hS | hS
    · exact hc q hq hS
    · exact absurd (hS.trans hnum.symm) hne

/-! ### the heal loop -/

theorem healAll_props (order : List Nat) (cand : Option Nat) :
    ∀ (st : State) (bl : List Bool),
      Refines st (healAll st order cand bl).1 ∧
      (healAll st order cand bl).1.prs.map (·.number) = st.prs.map (·.number) ∧
      (healAll st order cand bl).1.sha = st.sha := by
  induction order with
  | nil => intro st bl; simp [healAll, Refines.refl]
  | cons n rest ih =>
    intro st bl
    unfold healAll
    cases hf : findPR n st.prs with
    | none => simpa using ih st bl
    | some p =>
      simp only
      have hp := (findPR_some hf).1
      have h1 := healPR_refines st p (cand == some n) bl hp
      have h2 := healPR_numbers st p (cand == some n) bl
      have h3 := ih (healPR st p (cand == some n) bl).1 (healPR st p (cand == some n) bl).2.1
      exact ⟨h1.trans h3.1, h3.2.1.trans h2.1, h3.2.2.trans h2.2⟩

theorem healAll_ciOn (order : List Nat) (cand : Option Nat) (t : Sha) :
    ∀ (st : State) (bl : List Bool) (S : Nat → Prop), st.sha = some t → (st.prs.map (·.number)).Nodup → CiOn S st.prs →
      CiOn (fun n => S n ∨ n ∈ order) (healAll st order cand bl).1.prs := by
  induction order with
  | nil => intro st bl S _ _ hc; simpa [healAll, CiOn] using hc
  | cons n rest ih =>
    intro st bl S hs hn hc
    unfold healAll
    cases hf : findPR n st.prs with
    | none =>
      simp only
      have := ih st bl S hs hn hc
      intro q hq hS
      have hnum := (healAll_props rest cand st bl).2.1
      have hqn : q.number ∈ st.prs.map (·.number) := by rw [← hnum]; exact List.mem_map_of_mem hq
      obtain ⟨q0, hq0, e⟩ := List.mem_map.1 hqn
      have hne : q.number ≠ n := by rw [← e]; exact findPR_none hf q0 hq0
      apply this q hq
      rcases hS with hS | hS
      · exact Or.inl hS
      · rcases List.mem_cons.1 hS with hS | hS
        · exact absurd hS hne
        · exact Or.inr hS
    | some p =>
      simp only
      have hpn := (findPR_some hf).2
      have h1 := healPR_ciOn st p (cand == some n) bl t hs hn S hc
      have h2 := healPR_numbers st p (cand == some n) bl
      have := ih (healPR st p (cand == some n) bl).1 (healPR st p (cand == some n) bl).2.1 _ (h2.2.trans hs)
        (by rw [h2.1]; exact hn) h1
      intro q hq hS
      apply this q hq
      rcases hS with hS | hS
      · exact Or.inl (Or.inl hS)
      · rcases List.mem_cons.1 hS with hS | hS
        · exact Or.inl (Or.inr (hS.trans hpn.symm))
        · exact Or.inr hS

theorem cancelOrphans_props (st : State) :
    (cancelOrphans st).1.prs = st.prs ∧ (cancelOrphans st).1.sha = st.sha ∧ SvcExt st.svc (cancelOrphans st).1.svc := by
  unfold cancelOrphans
  refine ⟨rfl, rfl, ?_⟩
  intro b hb hs
  simp only [List.mem_map]
  refine ⟨b, hb, ?_⟩
  simp [hs]

/-- `WatchedBranch._heal`: refinement, PR numbers and target sha preserved, and — when the target sha is known and PR numbers are
distinct — every PR ends up with an entry for the CI's own status context -/
theorem heal_props (st : State) (bl : List Bool) :
    Refines st (heal st bl).1 ∧ (heal st bl).1.prs.map (·.number) = st.prs.map (·.number) ∧ (heal st bl).1.sha = st.sha := by
  unfold heal
  simp only
  have h := healAll_props ((byPrio (healPrep st).prs).map (·.number)) (healPrep st).mergeCandidate (healPrep st) bl
  have hc := cancelOrphans_props
    (healAll (healPrep st) ((byPrio (healPrep st).prs).map (·.number)) (healPrep st).mergeCandidate bl).1
  have e1 : (healPrep st).prs = st.prs := rfl
  have e2 : (healPrep st).svc = st.svc := rfl
  have e3 : (healPrep st).sha = st.sha := rfl
  refine ⟨?_, ?_, ?_⟩
  · refine ⟨?_, fun q hq hs => ?_⟩
    · have := h.1.1.trans hc.2.2; rwa [e2] at this
    · rw [hc.1] at hq
      have := h.1.2 q hq hs; rwa [e1] at this
  · rw [hc.1, h.2.1, e1]
  · rw [hc.2.1, h.2.2, e3]

theorem heal_hasCi (st : State) (bl : List Bool) (t : Sha) (hs : st.sha = some t)
    (hn : (st.prs.map (·.number)).Nodup) : ∀ q ∈ (heal st bl).1.prs, hasCi q = true := by
  unfold heal
  simp only
  have hc := cancelOrphans_props
    (healAll (healPrep st) ((byPrio (healPrep st).prs).map (·.number)) (healPrep st).mergeCandidate bl).1
  have e1 : (healPrep st).prs = st.prs := rfl
  have h := healAll_ciOn ((byPrio (healPrep st).prs).map (·.number)) (healPrep st).mergeCandidate t (healPrep st) bl
    (fun _ => False) hs (by rw [e1]; exact hn) (fun _ _ hF => absurd hF id)
  have hnum := (healAll_props ((byPrio (healPrep st).prs).map (·.number)) (healPrep st).mergeCandidate (healPrep st) bl).2.1
  intro q hq
  rw [hc.1] at hq
  apply h q hq
  right
  have hqn : q.number ∈ (healPrep st).prs.map (·.number) := by
    rw [← hnum]; exact List.mem_map_of_mem hq
  obtain ⟨q0, hq0, e⟩ := List.mem_map.1 hqn
  exact List.mem_map.2 ⟨q0, mem_byPrio.2 hq0, e⟩

/-! ### the other events -/

theorem updateGithub_fields (p : PR) (s : PRSnap) :
    (p.updateGithub s).1.number = p.number ∧ (p.updateGithub s).1.sourceSha = p.sourceSha ∧
    (p.updateGithub s).1.batch = p.batch ∧ (p.updateGithub s).1.buildState = p.buildState := by
  unfold PR.updateGithub
  simp only
  split <;> split <;> simp

theorem updateFromSnap_fields (p : PR) (s : PRSnap) :
    (p.updateFromSnap s).1.number = p.number ∧
    ((p.updateFromSnap s).1.buildState = some .success →
      (p.updateFromSnap s).1.buildState = p.buildState ∧ (p.updateFromSnap s).1.sourceSha = p.sourceSha ∧
      (p.updateFromSnap s).1.batch = p.batch) ∧
    (p.sourceSha ≠ s.headSha → (p.updateFromSnap s).1.buildState = none ∧ (p.updateFromSnap s).1.batch = .none ∧
      (p.updateFromSnap s).1.sourceSha = s.headSha) := by
  unfold PR.updateFromSnap
  simp only
  by_cases h : (p.sourceSha != s.headSha) = true
  · have hne : p.sourceSha ≠ s.headSha := by simpa using h
    have f := setBuildState_fields ({ p with labels := s.labels, authorized := s.authorized, sourceSha := s.headSha, batch := .none } : PR) none
    simp only [h, ↓reduceIte]
    refine ⟨f.1, ?_, fun _ => ⟨f.2.2.2.2.1, f.2.2.2.1, f.2.1⟩⟩
    intro hs; rw [f.2.2.2.2.1] at hs; simp at hs
  · have he : p.sourceSha = s.headSha := by simpa using h
    simp only [h, Bool.false_eq_true, ↓reduceIte]
    exact ⟨by triv, fun _ => ⟨by triv, by triv, by triv⟩, fun hne => absurd he hne⟩

theorem refreshPRs_props (old : List PR) (snaps : List PRSnap) :
    (refreshPRs old snaps).1.map (·.number) = snaps.map (·.number) ∧
    ∀ q ∈ (refreshPRs old snaps).1, q.buildState = some .success →
      ∃ p ∈ old, p.buildState = some .success ∧ q.sourceSha = p.sourceSha ∧ q.batch = p.batch := by
  induction snaps with
  | nil => simp [refreshPRs]
  | cons s t ih =>
    unfold refreshPRs
    simp only
    cases hf : findPR s.number old with
    | none =>
      simp only [List.map_cons, ih.1, List.mem_cons]
      refine ⟨by simp [PR.fromSnap], fun q hq hs => ?_⟩
      rcases hq with rfl | hq
      · simp [PR.fromSnap] at hs
      · exact ih.2 q hq hs
    | some p =>
      have hp := findPR_some hf
      have f := updateFromSnap_fields p s
      simp only [List.map_cons, ih.1, List.mem_cons]
      refine ⟨by rw [f.1, hp.2], fun q hq hs => ?_⟩
      rcases hq with rfl | hq
      · obtain ⟨e1, e2, e3⟩ := f.2.1 hs
        exact ⟨p, hp.1, e1 ▸ hs, e2, e3⟩
      · exact ih.2 q hq hs

theorem updateGithubAll_props : ∀ (ps : List PR) (ss : List PRSnap),
    (updateGithubAll ps ss).1.map (·.number) = ps.map (·.number) ∧
    ∀ q ∈ (updateGithubAll ps ss).1, ∃ p ∈ ps, q.sourceSha = p.sourceSha ∧ q.batch = p.batch ∧ q.buildState = p.buildState
  | [], ss => by simp [updateGithubAll]
  | p :: ps, [] => by
    refine ⟨by simp [updateGithubAll], fun q hq => ?_⟩
    simp only [updateGithubAll] at hq
    exact ⟨q, hq, rfl, rfl, rfl⟩
  | p :: ps, s :: ss => by
    have ih := updateGithubAll_props ps ss
    have f := updateGithub_fields p s
    unfold updateGithubAll
    simp only [List.map_cons, ih.1, f.1, List.mem_cons]
    refine ⟨trivial, fun q hq => ?_⟩
    rcases hq with rfl | hq
    · exact ⟨p, Or.inl rfl, f.2.1, f.2.2.1, f.2.2.2⟩
    · obtain ⟨p', hp', h⟩ := ih.2 q hq
      exact ⟨p', Or.inr hp', h⟩

theorem evGithub_props (st : State) (snap : Snapshot) :
    Refines st (evGithub st snap) ∧ (evGithub st snap).prs.map (·.number) = snap.prs.map (·.number) ∧
    (evGithub st snap).svc = st.svc := by
  unfold evGithub
  simp only
  have h1 := refreshPRs_props st.prs snap.prs
  have h2 := updateGithubAll_props (refreshPRs st.prs snap.prs).1 snap.prs
  refine ⟨⟨SvcExt.refl _, fun q hq hs => ?_⟩, by rw [h2.1, h1.1], by triv⟩
  obtain ⟨p', hp', e1, e2, e3⟩ := h2.2 q hq
  obtain ⟨p, hp, hps, e4, e5⟩ := h1.2 p' hp' (e3 ▸ hs)
  exact ⟨p, hp, hps, e1.trans e4, e2.trans e5⟩

theorem updateReview_fields (p : PR) (s : PRSnap) :
    (p.updateReview s).1.number = p.number ∧ (p.updateReview s).1.sourceSha = p.sourceSha ∧
    (p.updateReview s).1.batch = p.batch ∧ (p.updateReview s).1.buildState = p.buildState := by
  unfold PR.updateReview
  simp only
  split <;> simp

theorem evGithubPartial_props (st : State) (snap : Snapshot) (n : Nat) (rv : Bool) :
    Refines st (evGithubPartial st snap n rv) ∧ (evGithubPartial st snap n rv).prs.map (·.number) = snap.prs.map (·.number) ∧
    (evGithubPartial st snap n rv).svc = st.svc := by
  unfold evGithubPartial
  simp only
  have h1 := refreshPRs_props st.prs snap.prs
  have h2 := updateGithubAll_props ((refreshPRs st.prs snap.prs).1.take n) (snap.prs.take n)
  -- the tail: unchanged, or its head with the review decision taken over
  have h3 : ∀ (l : List PR) (ss : List PRSnap),
      (reviewHead rv l ss).1.map (·.number) = l.map (·.number) ∧
      ∀ q ∈ (reviewHead rv l ss).1, ∃ p ∈ l, q.sourceSha = p.sourceSha ∧ q.batch = p.batch ∧ q.buildState = p.buildState := by
    intro l ss
    cases l with
    | nil => simp [reviewHead]
    | cons p rest =>
      cases ss with
      | nil => exact ⟨rfl, fun q hq => ⟨q, hq, rfl, rfl, rfl⟩⟩
      | cons s0 _ =>
        cases rv with
        | false => exact ⟨rfl, fun q hq => ⟨q, hq, rfl, rfl, rfl⟩⟩
        | true =>
          have f := updateReview_fields p s0
          refine ⟨by simp [reviewHead, f.1], fun q hq => ?_⟩
          simp only [reviewHead, ↓reduceIte, List.mem_cons] at hq
          rcases hq with rfl | hq
          · exact ⟨p, List.mem_cons_self, f.2.1, f.2.2.1, f.2.2.2⟩
          · exact ⟨q, List.mem_cons_of_mem _ hq, rfl, rfl, rfl⟩
  have h3' := h3 ((refreshPRs st.prs snap.prs).1.drop n) (snap.prs.drop n)
  refine ⟨⟨SvcExt.refl _, fun q hq hs => ?_⟩, ?_, by triv⟩
  · rcases List.mem_append.1 hq with hq | hq
    · obtain ⟨p', hp', e1, e2, e3⟩ := h2.2 q hq
      obtain ⟨p, hp, hps, e4, e5⟩ := h1.2 p' (List.mem_of_mem_take hp') (e3 ▸ hs)
      exact ⟨p, hp, hps, e1.trans e4, e2.trans e5⟩
    · obtain ⟨p', hp', e1, e2, e3⟩ := h3'.2 q hq
      obtain ⟨p, hp, hps, e4, e5⟩ := h1.2 p' (List.mem_of_mem_drop hp') (e3 ▸ hs)
      exact ⟨p, hp, hps, e1.trans e4, e2.trans e5⟩
  · rw [List.map_append, h2.1, h3'.1, ← List.map_append, List.take_append_drop, h1.1]

theorem evGithubAny_props (st : State) (snap : Snapshot) :
    Refines st (evGithubAny st snap) ∧ (evGithubAny st snap).prs.map (·.number) = snap.prs.map (·.number) ∧
    (evGithubAny st snap).svc = st.svc := by
  unfold evGithubAny
  split
  · exact evGithub_props st snap
  · exact evGithubPartial_props st snap _ true

theorem updateBatch_number (fix : Bool) (p : PR) (svc : List BatchRec) :
    (p.updateBatch fix svc).1.number = p.number ∧ (p.updateBatch fix svc).1.sourceSha = p.sourceSha := by
  unfold PR.updateBatch
  split
  · exact ⟨(setBuildState_fields _ _).1, (setBuildState_fields _ _).2.1⟩
  · simp only
    split
    · exact ⟨(setBuildState_fields _ _).1, (setBuildState_fields _ _).2.1⟩
    · exact ⟨(setBuildState_fields _ _).1, (setBuildState_fields _ _).2.1⟩
    · cases fix
      · exact ⟨rfl, rfl⟩
      · exact ⟨(setBuildState_fields _ _).1, (setBuildState_fields _ _).2.1⟩

theorem evBatch_numbers (fix : Bool) (st : State) :
    (evBatch fix st).prs.map (·.number) = st.prs.map (·.number) ∧ (evBatch fix st).svc = st.svc ∧
    (evBatch fix st).sha = st.sha := by
  unfold evBatch
  simp only [List.map_map]
  refine ⟨?_, by triv, by triv⟩
  apply List.map_congr_left
  intro p _
  exact (updateBatch_number fix p st.svc).1

theorem evDone_props (st : State) (id : Nat) (ok : Bool) :
    Refines st (evDone st id ok) ∧ (evDone st id ok).prs = st.prs ∧ (evDone st id ok).sha = st.sha := by
  unfold evDone
  refine ⟨⟨fun b hb hs => ?_, fun q hq hs => ⟨q, hq, hs, rfl, rfl⟩⟩, rfl, rfl⟩
  simp only [List.mem_map]
  exact ⟨b, hb, by simp [hs]⟩

theorem evHeal_props (st : State) (a : Answers) :
    Refines st (evHeal st a).1 ∧ (evHeal st a).1.prs.map (·.number) = st.prs.map (·.number) := by
  unfold evHeal
  simp only
  have h := heal_props { st with stateChanged := false } a.builds
  have ht := tryMerge_prs_svc (heal { st with stateChanged := false } a.builds).1
    (byPrio (heal { st with stateChanged := false } a.builds).1.prs) a.merges
  refine ⟨⟨?_, fun q hq hs => ?_⟩, ?_⟩
  · rw [ht.2]; exact h.1.1
  · rw [ht.1] at hq; exact h.1.2 q hq hs
  · rw [ht.1]; exact h.2.1

/-! ### reachable states -/

/-- the events a history may contain: GitHub never lists the same PR number twice -/
def Event.wf : Event → Prop
  | .github s => (s.prs.map (·.number)).Nodup
  | .githubPartial s _ => (s.prs.map (·.number)).Nodup
  | _ => True

instance (e : Event) : Decidable e.wf := by
  cases e <;> simp only [Event.wf] <;> infer_instance

def NumsOK (st : State) : Prop := (st.prs.map (·.number)).Nodup

theorem step_numsOK (fix : Bool) (st : State) (e : Event) (hw : e.wf) (h : NumsOK st) : NumsOK (step fix st e).1 := by
  cases e with
  | flag f => cases f <;> exact h
  | batchFailed => exact h
  | githubFailed => exact h
  | githubPartial s n => unfold NumsOK step; simp only; rw [(evGithubPartial_props st s n false).2.1]; exact hw
  | github s => unfold NumsOK step; simp only; rw [(evGithubAny_props st s).2.1]; exact hw
  | batch => unfold NumsOK step; simp only; rw [(evBatch_numbers fix st).1]; exact h
  | heal a => unfold NumsOK step; simp only; rw [(evHeal_props st a).2]; exact h
  | done id ok => unfold NumsOK step; simp only; rw [(evDone_props st id ok).2.1]; exact h

/-- states reachable from the initial state by a well-formed history -/
inductive Reachable (fix : Bool) : State → Prop where
  | init : Reachable fix init
  | step {st : State} (e : Event) : Reachable fix st → e.wf → Reachable fix (step fix st e).1

theorem reachable_numsOK {fix : Bool} {st : State} (h : Reachable fix st) : NumsOK st := by
  induction h with
  | init => simp [NumsOK, init]
  | step e _ hw ih => exact step_numsOK fix _ e hw ih

theorem run_reachable (fix : Bool) (es : List Event) (hw : ∀ e ∈ es, e.wf) :
    ∀ st, Reachable fix st → Reachable fix (run fix st es).1 := by
  induction es with
  | nil => intro st h; exact h
  | cons e t ih =>
    intro st h
    unfold run
    exact ih (fun e' he' => hw e' (List.mem_cons_of_mem _ he')) _ (Reachable.step e h (hw e List.mem_cons_self))

/-- every output of a run is the output of one step taken from a reachable state -/
theorem run_out (fix : Bool) (es : List Event) (hw : ∀ e ∈ es, e.wf) :
    ∀ st, Reachable fix st → ∀ o ∈ (run fix st es).2, ∃ st' e, Reachable fix st' ∧ e.wf ∧ o ∈ (step fix st' e).2 := by
  induction es with
  | nil => intro st _ o ho; simp [run] at ho
  | cons e t ih =>
    intro st h o ho
    unfold run at ho
    simp only [List.mem_append] at ho
    rcases ho with ho | ho
    · exact ⟨st, e, h, hw e List.mem_cons_self, ho⟩
    · exact ih (fun e' he' => hw e' (List.mem_cons_of_mem _ he')) _ (Reachable.step e h (hw e List.mem_cons_self)) o ho

/-! ### invariants of the form "a PR in build_state success has …" -/

structure GoodQ (Q : PR → List BatchRec → Prop) : Prop where
  mono : ∀ p s s', SvcExt s s' → Q p s → Q p s'
  congr : ∀ p q s, q.sourceSha = p.sourceSha → q.batch = p.batch → Q p s → Q q s

def InvQ (Q : PR → List BatchRec → Prop) (st : State) : Prop :=
  ∀ p ∈ st.prs, p.buildState = some .success → Q p st.svc

theorem invQ_refines {Q : PR → List BatchRec → Prop} (hQ : GoodQ Q) {st st' : State} (h : Refines st st')
    (hi : InvQ Q st) : InvQ Q st' := by
  intro q hq hs
  obtain ⟨p, hp, hps, e1, e2⟩ := h.2 q hq hs
  exact hQ.congr p q _ e1 e2 (hQ.mono p _ _ h.1 (hi p hp hps))

theorem invQ_step {Q : PR → List BatchRec → Prop} (fix : Bool) (hQ : GoodQ Q)
    (hB : ∀ (p : PR) (svc : List BatchRec), (p.updateBatch fix svc).1.buildState = some .success → Q (p.updateBatch fix svc).1 svc)
    (st : State) (e : Event) (hi : InvQ Q st) : InvQ Q (step fix st e).1 := by
  cases e with
  | flag f => cases f <;> exact hi
  | batchFailed => exact hi
  | githubFailed => exact hi
  | githubPartial s n => exact invQ_refines hQ (evGithubPartial_props st s n false).1 hi
  | github s => exact invQ_refines hQ (evGithubAny_props st s).1 hi
  | heal a => exact invQ_refines hQ (evHeal_props st a).1 hi
  | done id ok => exact invQ_refines hQ (evDone_props st id ok).1 hi
  | batch =>
    intro q hq hs
    simp only [step, evBatch, List.map_map, List.mem_map, Function.comp] at hq
    obtain ⟨p, _, rfl⟩ := hq
    exact hB p st.svc hs

theorem reachable_invQ {Q : PR → List BatchRec → Prop} {fix : Bool} (hQ : GoodQ Q)
    (hB : ∀ (p : PR) (svc : List BatchRec), (p.updateBatch fix svc).1.buildState = some .success → Q (p.updateBatch fix svc).1 svc)
    {st : State} (h : Reachable fix st) : InvQ Q st := by
  induction h with
  | init => intro p hp; simp [init] at hp
  | step e _ _ ih => exact invQ_step fix hQ hB _ e ih

/-- weak: the batch of a PR in build_state success is a real batch -/
def QReal (p : PR) (_ : List BatchRec) : Prop := ∃ id t, p.batch = .real id t

/-- strong: …which the batch service knows as a successful batch of this head commit against that target commit -/
def QTested (p : PR) (svc : List BatchRec) : Prop :=
  ∃ id t, p.batch = .real id t ∧ ∃ b ∈ svc, b.id = id ∧ b.state = .success ∧ b.sourceSha = p.sourceSha ∧ b.targetSha = t

theorem goodQ_real : GoodQ QReal :=
  ⟨fun _ _ _ _ h => h, fun p q _ _ e2 ⟨id, t, h⟩ => ⟨id, t, e2 ▸ h⟩⟩

theorem goodQ_tested : GoodQ QTested := by
  refine ⟨fun p s s' hs ⟨id, t, hb, b, hbm, h1, h2, h3⟩ => ⟨id, t, hb, b, hs b hbm h2, h1, h2, h3⟩, ?_⟩
  rintro p q s e1 e2 ⟨id, t, hb, b, hbm, h1, h2, h3, h4⟩
  exact ⟨id, t, e2 ▸ hb, b, hbm, h1, h2, h3.trans e1.symm, h4⟩

theorem currentBatch_mem {svc : List BatchRec} {src : Sha} {b : BatchRec} (h : currentBatch svc src = some b) :
    b ∈ svc ∧ b.sourceSha = src := by
  unfold currentBatch at h
  have := List.mem_of_find?_eq_some h
  simp only [List.mem_filter, List.mem_reverse, beq_iff_eq] at this
  exact this

theorem updateBatch_real (fix : Bool) (p : PR) (svc : List BatchRec)
    (h : (p.updateBatch fix svc).1.buildState = some .success) : QReal (p.updateBatch fix svc).1 svc := by
  unfold PR.updateBatch at h ⊢
  cases hc : currentBatch svc p.sourceSha with
  | none =>
    simp only [hc] at h
    rw [(setBuildState_fields _ _).2.2.2.2.1] at h; simp at h
  | some b =>
    simp only [hc] at h ⊢
    cases hst : b.state with
    | success =>
      simp only [hst] at h ⊢
      exact ⟨b.id, b.targetSha, by rw [(setBuildState_fields _ _).2.2.2.1]⟩
    | failure =>
      simp only [hst] at h
      rw [(setBuildState_fields _ _).2.2.2.2.1] at h; simp at h
    | running =>
      simp only [hst] at h ⊢
      cases fix with
      | false => exact ⟨b.id, b.targetSha, rfl⟩
      | true =>
        simp only [↓reduceIte] at h
        rw [(setBuildState_fields _ _).2.2.2.2.1] at h; simp at h
    | cancelled =>
      simp only [hst] at h ⊢
      cases fix with
      | false => exact ⟨b.id, b.targetSha, rfl⟩
      | true =>
        simp only [↓reduceIte] at h
        rw [(setBuildState_fields _ _).2.2.2.2.1] at h; simp at h

theorem updateBatch_tested (p : PR) (svc : List BatchRec)
    (h : (p.updateBatch true svc).1.buildState = some .success) : QTested (p.updateBatch true svc).1 svc := by
  unfold PR.updateBatch at h ⊢
  cases hc : currentBatch svc p.sourceSha with
  | none =>
    simp only [hc] at h
    rw [(setBuildState_fields _ _).2.2.2.2.1] at h; simp at h
  | some b =>
    have hm := currentBatch_mem hc
    simp only [hc] at h ⊢
    cases hst : b.state with
    | success =>
      simp only [hst] at h ⊢
      refine ⟨b.id, b.targetSha, by rw [(setBuildState_fields _ _).2.2.2.1], b, hm.1, rfl, hst, ?_, rfl⟩
      rw [(setBuildState_fields _ _).2.1]; exact hm.2
    | failure =>
      simp only [hst] at h
      rw [(setBuildState_fields _ _).2.2.2.2.1] at h; simp at h
    | running =>
      simp only [hst, ↓reduceIte] at h
      rw [(setBuildState_fields _ _).2.2.2.2.1] at h; simp at h
    | cancelled =>
      simp only [hst, ↓reduceIte] at h
      rw [(setBuildState_fields _ _).2.2.2.2.1] at h; simp at h

/-! ### outputs of the heal part contain no merge -/

def Out.isMerge : Out → Bool
  | .merge _ _ _ => true
  | _ => false

theorem healPR_no_merge (st : State) (p : PR) (d : Bool) (bl : List Bool) :
    ∀ o ∈ (healPR st p d bl).2.2, o.isMerge = false := by
  unfold healPR
  cases st.sha with
  | none => simp
  | some t =>
    simp only
    have hp : ∀ o ∈ p.postStatus.2, o.isMerge = false := by
      unfold PR.postStatus; split <;> simp [Out.isMerge]
    split
    · intro o ho
      simp only [List.mem_append] at ho
      rcases ho with ho | ho
      · exact hp o ho
      · unfold startBuild at ho
        split at ho <;> simp at ho <;> subst ho <;> rfl
    · exact hp

theorem healAll_no_merge (order : List Nat) (cand : Option Nat) :
    ∀ (st : State) (bl : List Bool), ∀ o ∈ (healAll st order cand bl).2.2, o.isMerge = false := by
  induction order with
  | nil => intro st bl; simp [healAll]
  | cons n rest ih =>
    intro st bl
    unfold healAll
    cases findPR n st.prs with
    | none => exact ih st bl
    | some p =>
      simp only
      intro o ho
      rcases List.mem_append.1 ho with ho | ho
      · exact healPR_no_merge _ _ _ _ o ho
      · exact ih _ _ o ho

theorem heal_no_merge (st : State) (bl : List Bool) : ∀ o ∈ (heal st bl).2, o.isMerge = false := by
  unfold heal
  simp only
  intro o ho
  rcases List.mem_append.1 ho with ho | ho
  · exact healAll_no_merge _ _ _ _ o ho
  · unfold cancelOrphans at ho
    simp only [List.mem_map] at ho
    obtain ⟨b, _, rfl⟩ := ho
    rfl

/-! ### the github_changed flag -/

theorem startBuild_gflag (st : State) (p : PR) (ok : Bool) : (startBuild st p ok).1.githubChanged = st.githubChanged := by
  unfold startBuild; cases ok <;> simp

theorem healPR_gflag (st : State) (p : PR) (d : Bool) (bl : List Bool) : (healPR st p d bl).1.githubChanged = st.githubChanged := by
  unfold healPR
  cases st.sha with
  | none => rfl
  | some t =>
    simp only
    split
    · simp only [startBuild_gflag]
    · rfl

theorem healAll_gflag (order : List Nat) (cand : Option Nat) :
    ∀ (st : State) (bl : List Bool), (healAll st order cand bl).1.githubChanged = st.githubChanged := by
  induction order with
  | nil => intro st bl; rfl
  | cons n rest ih =>
    intro st bl
    unfold healAll
    cases findPR n st.prs with
    | none => exact ih st bl
    | some p => simp only; rw [ih, healPR_gflag]

theorem heal_gflag (st : State) (bl : List Bool) : (heal st bl).1.githubChanged = st.githubChanged := by
  unfold heal
  simp only
  show (cancelOrphans _).1.githubChanged = _
  unfold cancelOrphans
  simp only
  rw [healAll_gflag]
  rfl

theorem tryMerge_gflag (st : State) (order : List PR) (merges : List Bool) (h : st.githubChanged = true) :
    (tryMerge st order merges).1.githubChanged = true := by
  induction order generalizing merges with
  | nil => simpa [tryMerge] using h
  | cons p rest ih =>
    unfold tryMerge
    split
    · exact h
    · exact ih merges
    · cases merges with
      | nil => simp
      | cons b bs => cases b <;> simp [ih]

end HailVerif.CI

import HailVerif.Model.Sql3
/-! simp-normal forms for the three-valued operators on definite (`some`) arguments -/
namespace HailVerif.Sql3

@[simp] theorem and3_some (a b : Bool) : and3 (some a) (some b) = some (a && b) := by
  cases a <;> cases b <;> rfl
@[simp] theorem or3_some (a b : Bool) : or3 (some a) (some b) = some (a || b) := by
  cases a <;> cases b <;> rfl
@[simp] theorem and3_none_left (b : Bool) : and3 none (some b) = (if b then none else some false) := by
  cases b <;> rfl
@[simp] theorem and3_none_right (a : Bool) : and3 (some a) none = (if a then none else some false) := by
  cases a <;> rfl
@[simp] theorem or3_none_left (b : Bool) : or3 none (some b) = (if b then some true else none) := by
  cases b <;> rfl
@[simp] theorem or3_none_right (a : Bool) : or3 (some a) none = (if a then some true else none) := by
  cases a <;> rfl
@[simp] theorem and3_none_none : and3 none none = none := rfl
@[simp] theorem or3_none_none : or3 none none = none := rfl
@[simp] theorem not3_some (a : Bool) : not3 (some a) = some (!a) := rfl
@[simp] theorem not3_none : not3 none = none := rfl
@[simp] theorem isNull_some {α : Type} (x : α) : isNull (some x) = some false := rfl
@[simp] theorem isNull_none {α : Type} : isNull (none : Option α) = some true := rfl
@[simp] theorem isNotNull_some {α : Type} (x : α) : isNotNull (some x) = some true := rfl
@[simp] theorem isNotNull_none {α : Type} : isNotNull (none : Option α) = some false := rfl
@[simp] theorem ltI_some (x y : Int) : ltI (some x) (some y) = some (decide (x < y)) := rfl
@[simp] theorem leI_some (x y : Int) : leI (some x) (some y) = some (decide (x ≤ y)) := rfl
@[simp] theorem gtI_some (x y : Int) : gtI (some x) (some y) = some (decide (x > y)) := rfl
@[simp] theorem geI_some (x y : Int) : geI (some x) (some y) = some (decide (x ≥ y)) := rfl
@[simp] theorem eqI_some (x y : Int) : eqI (some x) (some y) = some (decide (x = y)) := rfl
@[simp] theorem neI_some (x y : Int) : neI (some x) (some y) = some (decide (x ≠ y)) := rfl
@[simp] theorem ltI_none_left (y : Option Int) : ltI none y = none := rfl
@[simp] theorem ltI_none_right (x : Option Int) : ltI x none = none := by cases x <;> rfl
@[simp] theorem gtI_none_left (y : Option Int) : gtI none y = none := rfl
@[simp] theorem gtI_none_right (x : Option Int) : gtI x none = none := by cases x <;> rfl
@[simp] theorem geI_none_left (y : Option Int) : geI none y = none := rfl
@[simp] theorem geI_none_right (x : Option Int) : geI x none = none := by cases x <;> rfl
@[simp] theorem leI_none_left (y : Option Int) : leI none y = none := rfl
@[simp] theorem leI_none_right (x : Option Int) : leI x none = none := by cases x <;> rfl
@[simp] theorem eqS_some (x y : String) : eqS (some x) (some y) = some (x == y) := rfl
@[simp] theorem eqS_none_left (y : Option String) : eqS none y = none := rfl
@[simp] theorem eqS_none_right (x : Option String) : eqS x none = none := by cases x <;> rfl
@[simp] theorem sub_some (x y : Int) : sub (some x) (some y) = some (x - y) := rfl
@[simp] theorem sub_none_left (y : Option Int) : sub none y = none := rfl
@[simp] theorem sub_none_right (x : Option Int) : sub x none = none := by cases x <;> rfl
@[simp] theorem add_some (x y : Int) : add (some x) (some y) = some (x + y) := rfl
@[simp] theorem mul_some (x y : Int) : mul (some x) (some y) = some (x * y) := rfl

end HailVerif.Sql3

import HailVerif.Model.BatchOrder
import Mathlib.Data.List.Perm.Subperm
import Mathlib.Logic.Relation
/-! Helper lemmas for C17: the depth-first numbering, the index check, the local-backend loop. -/
namespace HailVerif.BatchOrder

/-! ## what any `schedule_job` call does to `(seen, ordered_jobs)` -/

/-- `st'` extends `st`: the jobs newly finished (`new`) were unseen in `st`, are distinct, and are exactly the jobs
newly marked seen. -/
def Ext (st st' : St) : Prop :=
  ∃ new add, st'.ord = st.ord ++ new ∧ st'.seen = add ++ st.seen ∧ add.Perm new ∧ new.Nodup ∧ ∀ x ∈ new, x ∉ st.seen

theorem Ext.refl (st : St) : Ext st st := ⟨[], [], by simp, by simp, List.Perm.refl _, List.nodup_nil, by simp⟩

theorem Ext.trans {a b c : St} (h1 : Ext a b) (h2 : Ext b c) : Ext a c := by
  obtain ⟨n1, a1, o1, s1, p1, d1, u1⟩ := h1
  obtain ⟨n2, a2, o2, s2, p2, d2, u2⟩ := h2
  refine ⟨n1 ++ n2, a2 ++ a1, by rw [o2, o1, List.append_assoc], by rw [s2, s1, List.append_assoc], ?_, ?_, ?_⟩
  · exact (List.perm_append_comm).trans (List.Perm.append p1 p2)
  · rw [List.nodup_append]
    refine ⟨d1, d2, ?_⟩
    intro x hx1 y hy2 hxy
    subst hxy
    apply u2 x hy2
    rw [s1]
    exact List.mem_append_left _ (p1.mem_iff.2 hx1)
  · intro x hx
    rcases List.mem_append.1 hx with h | h
    · exact u1 x h
    · intro hc
      apply u2 x h
      rw [s1]; exact List.mem_append_right _ hc

theorem Ext.seen_mono {a b : St} (h : Ext a b) : ∀ x ∈ a.seen, x ∈ b.seen := by
  obtain ⟨_, add, _, s, _, _, _⟩ := h
  intro x hx; rw [s]; exact List.mem_append_right _ hx

theorem Ext.ord_mono {a b : St} (h : Ext a b) : ∀ x ∈ a.ord, x ∈ b.ord := by
  obtain ⟨new, _, o, _, _, _, _⟩ := h
  intro x hx; rw [o]; exact List.mem_append_left _ hx

theorem foldl_ext (deps : Nat → List Nat) (f : Nat) (ih : ∀ j st, Ext st (visit deps f j st)) :
    ∀ (ps : List Nat) (st : St), Ext st (ps.foldl (fun s p => visit deps f p s) st) := by
  intro ps
  induction ps with
  | nil => intro st; exact Ext.refl st
  | cons p t iht =>
    intro st
    simp only [List.foldl_cons]
    exact (ih p st).trans (iht _)

theorem visit_ext (deps : Nat → List Nat) : ∀ (f j : Nat) (st : St), Ext st (visit deps f j st) := by
  intro f
  induction f with
  | zero => intro j st; exact Ext.refl st
  | succ f ih =>
    intro j st
    unfold visit
    by_cases hj : j ∈ st.seen
    · simp only [hj, if_true]; exact Ext.refl st
    · simp only [hj, if_false]
      obtain ⟨new, add, o, s, p, d, u⟩ := foldl_ext deps f ih (deps j) { st with seen := j :: st.seen }
      simp only at o s u
      refine ⟨new ++ [j], add ++ [j], ?_, ?_, ?_, ?_, ?_⟩
      · simp only [o, List.append_assoc]
      · simp only [s, List.append_assoc, List.singleton_append]
      · exact List.Perm.append p (List.Perm.refl _)
      · rw [List.nodup_append]
        refine ⟨d, List.nodup_cons.2 ⟨List.not_mem_nil, List.nodup_nil⟩, ?_⟩
        intro x hx y hy hxy
        simp only [List.mem_singleton] at hy
        subst hy; subst hxy
        exact u x hx (List.mem_cons_self)
      · intro x hx
        rcases List.mem_append.1 hx with h | h
        · intro hc; exact u x h (List.mem_cons_of_mem _ hc)
        · simp only [List.mem_singleton] at h; subst h; exact hj

/-- with fuel left, the job itself ends up seen and finished -/
theorem visit_mem (deps : Nat → List Nat) (f j : Nat) (st : St) (hord : ∀ x ∈ st.seen, x ∈ st.ord) :
    j ∈ (visit deps (f + 1) j st).ord := by
  unfold visit
  by_cases hj : j ∈ st.seen
  · simp only [hj, if_true]; exact hord j hj
  · simp only [hj, if_false]
    exact List.mem_append_right _ (List.mem_singleton.2 rfl)

/-- at the top level (`for j in self._jobs`) `seen` and `ordered_jobs` hold the same jobs -/
def Top (st : St) : Prop := st.ord.Nodup ∧ st.seen.Perm st.ord

theorem Top.of_ext {a b : St} (ha : Top a) (h : Ext a b) : Top b := by
  obtain ⟨new, add, o, s, p, d, u⟩ := h
  refine ⟨?_, ?_⟩
  · rw [o, List.nodup_append]
    refine ⟨ha.1, d, ?_⟩
    intro x hx y hy hxy
    subst hxy
    exact u x hy (ha.2.mem_iff.2 hx)
  · rw [o, s]
    exact (List.perm_append_comm).trans (List.Perm.append ha.2 p)

theorem dfs_fold_top (g : Pipe) : ∀ (js : List Nat) (st : St), Top st →
    Top (js.foldl (fun s j => visit g.deps (g.n + 1) j s) st) ∧
      (∀ x ∈ st.ord, x ∈ (js.foldl (fun s j => visit g.deps (g.n + 1) j s) st).ord) ∧
      ∀ j ∈ js, j ∈ (js.foldl (fun s j => visit g.deps (g.n + 1) j s) st).ord := by
  intro js
  induction js with
  | nil => intro st h; exact ⟨h, fun x hx => hx, by simp⟩
  | cons j t ih =>
    intro st h
    simp only [List.foldl_cons]
    have he := visit_ext g.deps (g.n + 1) j st
    have ht := h.of_ext he
    obtain ⟨i1, i2, i3⟩ := ih _ ht
    refine ⟨i1, fun x hx => i2 x (he.ord_mono x hx), ?_⟩
    intro k hk
    rcases List.mem_cons.1 hk with rfl | hk
    · exact i2 _ (visit_mem g.deps g.n k st (fun x hx => h.2.mem_iff.1 hx))
    · exact i3 k hk

theorem dfs_top (g : Pipe) : Top (dfs g) ∧ ∀ j < g.n, j ∈ (dfs g).ord := by
  have := dfs_fold_top g (List.range g.n) ⟨[], []⟩ ⟨List.nodup_nil, List.Perm.refl _⟩
  exact ⟨this.1, fun j hj => this.2.2 j (List.mem_range.2 hj)⟩

/-! ## the `job_index` check -/

theorem jobIndex_aux (j : Nat) : ∀ (l : List Nat) (k : Nat) (acc : Option Nat), l.Nodup →
    (l.zipIdx k).foldl (fun acc p => if p.1 = j then some p.2 else acc) acc
      = if j ∈ l then some (l.idxOf j + k) else acc := by
  intro l
  induction l with
  | nil => intro k acc _; simp
  | cons x t ih =>
    intro k acc hnd
    have hnd' := (List.nodup_cons.1 hnd)
    rw [List.zipIdx_cons, List.foldl_cons, ih (k + 1) _ hnd'.2]
    by_cases hx : x = j
    · subst hx
      simp [hnd'.1]
    · have hx' : ¬ j = x := fun h => hx h.symm
      simp only [hx, if_false, List.mem_cons, hx', false_or, List.idxOf_cons]
      have : (x == j) = false := by simp [hx]
      simp only [this, cond_false]
      split <;> simp <;> omega

theorem jobIndex_eq (ord : List Nat) (j : Nat) (h : ord.Nodup) :
    jobIndex ord j = if j ∈ ord then some (ord.idxOf j + 1) else none :=
  jobIndex_aux j ord 1 none h

theorem checkJob_none (ord : List Nat) (j : Nat) : ∀ ds, checkJob ord j ds = none ↔
    ∀ d ∈ ds, ∃ a i, jobIndex ord d = some a ∧ jobIndex ord j = some i ∧ a < i := by
  intro ds
  induction ds with
  | nil => simp [checkJob]
  | cons d t ih =>
    constructor
    · intro h
      unfold checkJob at h
      split at h
      next a i ha hi =>
        split at h
        · cases h
        next hlt =>
          intro x hx
          rcases List.mem_cons.1 hx with rfl | hx
          · exact ⟨a, i, ha, hi, by omega⟩
          · exact (ih.1 h) x hx
      · cases h
    · intro h
      obtain ⟨a, i, ha, hi, hlt⟩ := h d (List.mem_cons_self)
      unfold checkJob
      rw [ha, hi]
      simp only [show ¬ a ≥ i by omega, if_false]
      exact ih.2 (fun x hx => h x (List.mem_cons_of_mem _ hx))

theorem checkJob_some (ord : List Nat) (j : Nat) : ∀ ds v, checkJob ord j ds = some v → v = .cycle ∨ v = .keyError := by
  intro ds
  induction ds with
  | nil => intro v h; simp [checkJob] at h
  | cons d t ih =>
    intro v h
    unfold checkJob at h
    split at h
    · split at h
      · cases h; exact Or.inl rfl
      · exact ih v h
    · cases h; exact Or.inr rfl

theorem checkDeps_ok (deps : Nat → List Nat) (ord : List Nat) : ∀ js ord', checkDeps deps ord js = .ok ord' ↔
    ord' = ord ∧ ∀ j ∈ js, ∀ d ∈ deps j, ∃ a i, jobIndex ord d = some a ∧ jobIndex ord j = some i ∧ a < i := by
  intro js
  induction js with
  | nil => intro ord'; simp [checkDeps]; exact eq_comm
  | cons j t ih =>
    intro ord'
    unfold checkDeps
    cases hc : checkJob ord j (deps j) with
    | some v =>
      simp only
      constructor
      · intro h
        rcases checkJob_some ord j _ v hc with rfl | rfl <;> cases h
      · rintro ⟨_, h⟩
        have := (checkJob_none ord j (deps j)).2 (h j (List.mem_cons_self))
        rw [hc] at this; cases this
    | none =>
      simp only [ih]
      have hn := (checkJob_none ord j (deps j)).1 hc
      constructor
      · rintro ⟨h1, h2⟩
        refine ⟨h1, ?_⟩
        intro x hx
        rcases List.mem_cons.1 hx with rfl | hx
        · exact hn
        · exact h2 x hx
      · rintro ⟨h1, h2⟩
        exact ⟨h1, fun x hx => h2 x (List.mem_cons_of_mem _ hx)⟩

/-- acceptance, unfolded: the numbering the DFS produced, every job of the batch in it exactly once, and every
dependency of every job strictly earlier -/
theorem accept_ok_iff (g : Pipe) (ord : List Nat) : accept g = .ok ord ↔
    ord = (dfs g).ord ∧ (dfs g).seen.length = g.n ∧
      ∀ j ∈ ord, ∀ d ∈ g.deps j, d ∈ ord ∧ ord.idxOf d < ord.idxOf j := by
  have ht := (dfs_top g).1
  unfold accept
  simp only
  by_cases hl : (dfs g).seen.length = g.n
  · simp only [hl, ne_eq, not_true_eq_false, if_false, checkDeps_ok]
    constructor
    · rintro ⟨rfl, h⟩
      refine ⟨rfl, trivial, ?_⟩
      intro j hj d hd
      obtain ⟨a, i, h1, h2, h3⟩ := h j hj d hd
      rw [jobIndex_eq _ _ ht.1] at h1 h2
      by_cases hdm : d ∈ (dfs g).ord
      · simp only [hdm, hj, if_true, Option.some.injEq] at h1 h2
        exact ⟨hdm, by omega⟩
      · simp [hdm] at h1
    · rintro ⟨rfl, _, h⟩
      refine ⟨rfl, ?_⟩
      intro j hj d hd
      obtain ⟨hdm, hlt⟩ := h j hj d hd
      refine ⟨_, _, ?_, ?_, Nat.succ_lt_succ hlt⟩
      · rw [jobIndex_eq _ _ ht.1]; simp [hdm]
      · rw [jobIndex_eq _ _ ht.1]; simp [hj]
  · rw [if_pos hl]
    constructor
    · intro h; cases h
    · rintro ⟨_, h, _⟩; exact absurd h hl

/-! ## depth-first post-order of an acyclic, closed graph is accepted -/

/-- `b` is a dependency of `a` -/
def Edge (deps : Nat → List Nat) (a b : Nat) : Prop := b ∈ deps a

/-- what holds of `(seen, ordered_jobs)` throughout the numbering of a batch whose dependencies are its own jobs -/
structure GoodSt (deps : Nat → List Nat) (n : Nat) (st : St) : Prop where
  seen_lt : ∀ x ∈ st.seen, x < n
  seen_nd : st.seen.Nodup
  ord_nd : st.ord.Nodup
  ord_sub : ∀ x ∈ st.ord, x ∈ st.seen
  fw : ∀ x ∈ st.ord, ∀ d ∈ deps x, d ∈ st.ord ∧ st.ord.idxOf d < st.ord.idxOf x

theorem Ext.grey {a b : St} (h : Ext a b) {x : Nat} (hs : x ∈ b.seen) (ho : x ∉ b.ord) : x ∈ a.seen ∧ x ∉ a.ord := by
  obtain ⟨new, add, o, s, p, _, _⟩ := h
  rw [s] at hs
  rw [o] at ho
  rcases List.mem_append.1 hs with hadd | hseen
  · exact absurd (List.mem_append_right _ (p.mem_iff.1 hadd)) ho
  · exact ⟨hseen, fun hc => ho (List.mem_append_left _ hc)⟩

theorem Ext.seen_len {a b : St} (h : Ext a b) : a.seen.length ≤ b.seen.length := by
  obtain ⟨_, add, _, s, _, _, _⟩ := h
  rw [s, List.length_append]; omega

theorem Ext.not_new {a b : St} (h : Ext a b) {x : Nat} (hs : x ∈ a.seen) (ho : x ∉ a.ord) : x ∉ b.ord := by
  obtain ⟨new, _, o, _, _, _, u⟩ := h
  rw [o]
  intro hc
  rcases List.mem_append.1 hc with hc | hc
  · exact ho hc
  · exact u x hc hs

/-- a duplicate-free list of `n` or more numbers below `n` contains every number below `n` -/
theorem full_of_length {l : List Nat} {n : Nat} (hnd : l.Nodup) (hlt : ∀ x ∈ l, x < n) (hlen : n ≤ l.length) :
    ∀ j, j < n → j ∈ l := by
  intro j hj
  have hsub : l ⊆ List.range n := fun x hx => List.mem_range.2 (hlt x hx)
  have hsp := List.subperm_of_subset hnd hsub
  have := hsp.perm_of_length_le (by rw [List.length_range]; exact hlen)
  exact this.mem_iff.2 (List.mem_range.2 hj)

section dag
variable (deps : Nat → List Nat) (n : Nat)
variable (hclosed : ∀ j, j < n → ∀ d ∈ deps j, d < n)
variable (hacyc : ∀ j, j < n → ¬ Relation.TransGen (Edge deps) j j)
include hclosed hacyc

/-- statement of the induction on the fuel -/
def VisitOK (f : Nat) : Prop :=
  ∀ (j : Nat) (st : St), j < n → GoodSt deps n st →
    (∀ x ∈ st.seen, x ∉ st.ord → Relation.ReflTransGen (Edge deps) x j) →
    (j ∈ st.seen → j ∈ st.ord) → n - st.seen.length ≤ f →
    GoodSt deps n (visit deps f j st) ∧ j ∈ (visit deps f j st).ord

theorem children_ok (f : Nat) (ih : VisitOK deps n f) (j : Nat) (hj : j < n) :
    ∀ (ps : List Nat) (s : St), (∀ p ∈ ps, p ∈ deps j) → GoodSt deps n s →
      (∀ x ∈ s.seen, x ∉ s.ord → Relation.ReflTransGen (Edge deps) x j) →
      j ∈ s.seen → j ∉ s.ord → n - s.seen.length ≤ f →
      let s' := ps.foldl (fun s p => visit deps f p s) s
      GoodSt deps n s' ∧ j ∈ s'.seen ∧ j ∉ s'.ord ∧ (∀ x ∈ s.ord, x ∈ s'.ord) ∧ ∀ p ∈ ps, p ∈ s'.ord := by
  intro ps
  induction ps with
  | nil => intro s _ hg _ hjs hjo _; exact ⟨hg, hjs, hjo, fun x hx => hx, by simp⟩
  | cons p t iht =>
    intro s hps hg hanc hjs hjo hfuel
    simp only [List.foldl_cons]
    have hpd : p ∈ deps j := hps p (List.mem_cons_self)
    have hp : p < n := hclosed j hj p hpd
    have hext := visit_ext deps f p s
    have hpre : p ∈ s.seen → p ∈ s.ord := by
      intro hps'
      by_contra hpo
      have := hanc p hps' hpo
      exact hacyc j hj (Relation.TransGen.head' hpd this)
    obtain ⟨hg1, hp1⟩ := ih p s hp hg
      (fun x hx hxo => (hanc x hx hxo).tail hpd) hpre hfuel
    have hanc1 : ∀ x ∈ (visit deps f p s).seen, x ∉ (visit deps f p s).ord → Relation.ReflTransGen (Edge deps) x j := by
      intro x hx hxo
      obtain ⟨h1, h2⟩ := hext.grey hx hxo
      exact hanc x h1 h2
    have hlen := hext.seen_len
    obtain ⟨r1, r2, r3, r4, r5⟩ := iht (visit deps f p s) (fun q hq => hps q (List.mem_cons_of_mem _ hq)) hg1 hanc1
      (hext.seen_mono j hjs) (hext.not_new hjs hjo) (by omega)
    refine ⟨r1, r2, r3, fun x hx => r4 x (hext.ord_mono x hx), ?_⟩
    intro q hq
    rcases List.mem_cons.1 hq with rfl | hq
    · exact r4 _ hp1
    · exact r5 q hq

theorem visit_ok : ∀ f, VisitOK deps n f := by
  intro f
  induction f with
  | zero =>
    intro j st hj hg _ hpre hfuel
    have hjs : j ∈ st.seen := full_of_length hg.seen_nd hg.seen_lt (by omega) j hj
    exact ⟨hg, hpre hjs⟩
  | succ f ih =>
    intro j st hj hg hanc hpre hfuel
    unfold visit
    by_cases hjs : j ∈ st.seen
    · simp only [hjs, if_true]; exact ⟨hg, hpre hjs⟩
    · simp only [hjs, if_false]
      have hjo : j ∉ st.ord := fun hc => hjs (hg.ord_sub j hc)
      have hg0 : GoodSt deps n { st with seen := j :: st.seen } :=
        { seen_lt := by
            intro x hx
            rcases List.mem_cons.1 hx with rfl | hx
            · exact hj
            · exact hg.seen_lt x hx
          seen_nd := List.nodup_cons.2 ⟨hjs, hg.seen_nd⟩
          ord_nd := hg.ord_nd
          ord_sub := fun x hx => List.mem_cons_of_mem _ (hg.ord_sub x hx)
          fw := hg.fw }
      have hanc0 : ∀ x ∈ (j :: st.seen), x ∉ st.ord → Relation.ReflTransGen (Edge deps) x j := by
        intro x hx hxo
        rcases List.mem_cons.1 hx with rfl | hx
        · exact Relation.ReflTransGen.refl
        · exact hanc x hx hxo
      obtain ⟨r1, r2, r3, r4, r5⟩ := children_ok deps n hclosed hacyc f ih j hj (deps j) { st with seen := j :: st.seen }
        (fun p hp => hp) hg0 hanc0 (List.mem_cons_self) hjo (by simp only [List.length_cons]; omega)
      simp only at r1 r2 r3 r4 r5
      refine ⟨?_, List.mem_append_right _ (List.mem_singleton.2 rfl)⟩
      exact
        { seen_lt := r1.seen_lt
          seen_nd := r1.seen_nd
          ord_nd := by
            rw [List.nodup_append]
            refine ⟨r1.ord_nd, List.nodup_cons.2 ⟨List.not_mem_nil, List.nodup_nil⟩, ?_⟩
            intro x hx y hy hxy
            simp only [List.mem_singleton] at hy
            subst hy; subst hxy
            exact r3 hx
          ord_sub := by
            intro x hx
            rcases List.mem_append.1 hx with hx | hx
            · exact r1.ord_sub x hx
            · simp only [List.mem_singleton] at hx; subst hx; exact r2
          fw := by
            intro x hx d hd
            rcases List.mem_append.1 hx with hx | hx
            · obtain ⟨h1, h2⟩ := r1.fw x hx d hd
              refine ⟨List.mem_append_left _ h1, ?_⟩
              rw [List.idxOf_append_of_mem h1, List.idxOf_append_of_mem hx]; exact h2
            · simp only [List.mem_singleton] at hx; subst hx
              have hd' := r5 d hd
              refine ⟨List.mem_append_left _ hd', ?_⟩
              rw [List.idxOf_append_of_mem hd', List.idxOf_append_of_notMem r3]
              have := List.idxOf_lt_length_of_mem hd'
              simp only [List.idxOf_cons, beq_self_eq_true, cond_true]
              omega }

theorem dfs_fold_good : ∀ (js : List Nat) (st : St), (∀ j ∈ js, j < n) → GoodSt deps n st → Top st →
    GoodSt deps n (js.foldl (fun s j => visit deps (n + 1) j s) st) := by
  intro js
  induction js with
  | nil => intro st _ hg _; exact hg
  | cons j t ih =>
    intro st hjs hg ht
    simp only [List.foldl_cons]
    have hext := visit_ext deps (n + 1) j st
    have hseen : ∀ x ∈ st.seen, x ∈ st.ord := fun x hx => ht.2.mem_iff.1 hx
    obtain ⟨hg1, _⟩ := visit_ok deps n hclosed hacyc (n + 1) j st (hjs j (List.mem_cons_self)) hg
      (fun x hx hxo => absurd (hseen x hx) hxo) (hseen j) (by omega)
    exact ih _ (fun k hk => hjs k (List.mem_cons_of_mem _ hk)) hg1 (ht.of_ext hext)

end dag

theorem dfs_good (g : Pipe) (hclosed : ∀ j, j < g.n → ∀ d ∈ g.deps j, d < g.n)
    (hacyc : ∀ j, j < g.n → ¬ Relation.TransGen (Edge g.deps) j j) : GoodSt g.deps g.n (dfs g) := by
  apply dfs_fold_good g.deps g.n hclosed hacyc (List.range g.n) ⟨[], []⟩ (fun j hj => List.mem_range.1 hj)
  · exact { seen_lt := by simp, seen_nd := List.nodup_nil, ord_nd := List.nodup_nil, ord_sub := by simp, fw := by simp }
  · exact ⟨List.nodup_nil, List.Perm.refl _⟩

/-! ## the local backend loop -/

/-- a numbering as `accept` admits: no job twice, every dependency of a listed job listed strictly earlier -/
def Topo (deps : Nat → List Nat) (ord : List Nat) : Prop :=
  ord.Nodup ∧ ∀ j ∈ ord, ∀ d ∈ deps j, d ∈ ord ∧ ord.idxOf d < ord.idxOf j

theorem mem_cancelChildren (g : Pipe) (jobs : List Nat) (j : Nat) (c : List Nat) (x : Nat) :
    x ∈ cancelChildren g jobs j c ↔ (x ∈ jobs ∧ j ∈ g.deps x ∧ g.alwaysRun x = false) ∨ x ∈ c := by
  unfold cancelChildren
  simp [List.mem_append, List.mem_filter]

theorem idx_split {pre rest : List Nat} {j : Nat} (hnd : (pre ++ j :: rest).Nodup) :
    (pre ++ j :: rest).idxOf j = pre.length ∧ ∀ p ∈ pre, (pre ++ j :: rest).idxOf p < pre.length := by
  have hj : j ∉ pre := by
    intro h
    have := (List.nodup_append.1 hnd).2.2 j h j (List.mem_cons_self)
    exact this rfl
  refine ⟨?_, ?_⟩
  · rw [List.idxOf_append_of_notMem hj]; simp
  · intro p hp
    rw [List.idxOf_append_of_mem hp]
    exact List.idxOf_lt_length_of_mem hp

/-- loop invariant after the prefix `pre` of the ordered jobs -/
def LoopInv (g : Pipe) (fails : Nat → Bool) (ord pre c e : List Nat) : Prop :=
  (∀ x, x ∈ c ↔ x ∈ ord ∧ g.alwaysRun x = false ∧ ∃ p ∈ pre, p ∈ g.deps x ∧ (p ∈ c ∨ fails p = true)) ∧
    e = pre.filter (fun p => decide (p ∉ c))

theorem runLoop_inv (g : Pipe) (fails : Nat → Bool) (ord : List Nat) (ht : Topo g.deps ord) :
    ∀ (rest pre c e : List Nat), ord = pre ++ rest → LoopInv g fails ord pre c e →
      LoopInv g fails ord ord (runLoop g fails ord rest (c, e)).1 (runLoop g fails ord rest (c, e)).2 := by
  intro rest
  induction rest with
  | nil =>
    intro pre c e h hi
    simp only [List.append_nil] at h
    subst h
    exact hi
  | cons j rest ih =>
    intro pre c e h hi
    have hnd : (pre ++ j :: rest).Nodup := h ▸ ht.1
    obtain ⟨hidxj, hidxp⟩ := idx_split hnd
    have hjord : j ∈ ord := by rw [h]; simp
    -- a job of the prefix is not a child of `j`
    have hnotchild : ∀ p ∈ pre, j ∉ g.deps p := by
      intro p hp hc
      have hpo : p ∈ ord := by rw [h]; exact List.mem_append_left _ hp
      have := (ht.2 p hpo j hc).2
      rw [h, hidxj] at this
      have := hidxp p hp
      omega
    have hjself : j ∉ g.deps j := by
      intro hc
      have := (ht.2 j hjord j hc).2
      omega
    have hpre' : ord = (pre ++ [j]) ++ rest := by rw [h]; simp
    unfold runLoop
    by_cases hjc : j ∈ c
    · simp only [hjc, if_true]
      apply ih (pre ++ [j]) _ _ hpre'
      refine ⟨?_, ?_⟩
      · intro x
        rw [mem_cancelChildren, hi.1 x]
        constructor
        · rintro (⟨h1, h2, h3⟩ | ⟨h1, h2, p, hp, hpd, hpc⟩)
          · exact ⟨h1, h3, j, by simp, h2, Or.inl ((mem_cancelChildren ..).2 (Or.inr hjc))⟩
          · refine ⟨h1, h2, p, List.mem_append_left _ hp, hpd, ?_⟩
            rcases hpc with hpc | hpc
            · exact Or.inl ((mem_cancelChildren ..).2 (Or.inr hpc))
            · exact Or.inr hpc
        · rintro ⟨h1, h2, p, hp, hpd, hpc⟩
          rcases List.mem_append.1 hp with hp | hp
          · right
            refine ⟨h1, h2, p, hp, hpd, ?_⟩
            rcases hpc with hpc | hpc
            · rcases (mem_cancelChildren ..).1 hpc with ⟨_, hc, _⟩ | hpc
              · exact absurd hc (hnotchild p hp)
              · exact Or.inl hpc
            · exact Or.inr hpc
          · simp only [List.mem_singleton] at hp; subst hp
            exact Or.inl ⟨h1, hpd, h2⟩
      · rw [hi.2, List.filter_append]
        have hjc' : j ∈ cancelChildren g ord j c := (mem_cancelChildren ..).2 (Or.inr hjc)
        simp only [List.filter_cons, List.filter_nil, hjc', not_true_eq_false, decide_false, Bool.false_eq_true,
          if_false, List.append_nil]
        apply List.filter_congr
        intro p hp
        have : p ∈ cancelChildren g ord j c ↔ p ∈ c := by
          rw [mem_cancelChildren]
          constructor
          · rintro (⟨_, hc, _⟩ | hc)
            · exact absurd hc (hnotchild p hp)
            · exact hc
          · exact Or.inr
        simp [this]
    · simp only [hjc, if_false]
      apply ih (pre ++ [j]) _ _ hpre'
      by_cases hf : fails j = true
      · simp only [hf, if_true]
        refine ⟨?_, ?_⟩
        · intro x
          rw [mem_cancelChildren, hi.1 x]
          constructor
          · rintro (⟨h1, h2, h3⟩ | ⟨h1, h2, p, hp, hpd, hpc⟩)
            · exact ⟨h1, h3, j, by simp, h2, Or.inr hf⟩
            · refine ⟨h1, h2, p, List.mem_append_left _ hp, hpd, ?_⟩
              rcases hpc with hpc | hpc
              · exact Or.inl ((mem_cancelChildren ..).2 (Or.inr hpc))
              · exact Or.inr hpc
          · rintro ⟨h1, h2, p, hp, hpd, hpc⟩
            rcases List.mem_append.1 hp with hp | hp
            · right
              refine ⟨h1, h2, p, hp, hpd, ?_⟩
              rcases hpc with hpc | hpc
              · rcases (mem_cancelChildren ..).1 hpc with ⟨_, hc, _⟩ | hpc
                · exact absurd hc (hnotchild p hp)
                · exact Or.inl hpc
              · exact Or.inr hpc
            · simp only [List.mem_singleton] at hp; subst hp
              exact Or.inl ⟨h1, hpd, h2⟩
        · rw [hi.2, List.filter_append]
          have hjc' : j ∉ cancelChildren g ord j c := by
            rw [mem_cancelChildren]
            rintro (⟨_, hc, _⟩ | hc)
            · exact hjself hc
            · exact hjc hc
          simp only [List.filter_cons, List.filter_nil, hjc', not_false_eq_true, decide_true, if_true]
          congr 1
          apply List.filter_congr
          intro p hp
          have : p ∈ cancelChildren g ord j c ↔ p ∈ c := by
            rw [mem_cancelChildren]
            constructor
            · rintro (⟨_, hc, _⟩ | hc)
              · exact absurd hc (hnotchild p hp)
              · exact hc
            · exact Or.inr
          simp [this]
      · simp only [hf, Bool.false_eq_true, if_false]
        refine ⟨?_, ?_⟩
        · intro x
          rw [hi.1 x]
          constructor
          · rintro ⟨h1, h2, p, hp, hpd, hpc⟩
            exact ⟨h1, h2, p, List.mem_append_left _ hp, hpd, hpc⟩
          · rintro ⟨h1, h2, p, hp, hpd, hpc⟩
            rcases List.mem_append.1 hp with hp | hp
            · exact ⟨h1, h2, p, hp, hpd, hpc⟩
            · simp only [List.mem_singleton] at hp; subst hp
              rcases hpc with hpc | hpc
              · exact absurd hpc hjc
              · exact absurd hpc hf
        · rw [hi.2, List.filter_append]
          simp only [List.filter_cons, List.filter_nil, hjc, not_false_eq_true, decide_true, if_true]

theorem runLoop_final (g : Pipe) (fails : Nat → Bool) (ord : List Nat) (ht : Topo g.deps ord) :
    LoopInv g fails ord ord (runLoop g fails ord ord ([], [])).1 (runLoop g fails ord ord ([], [])).2 := by
  apply runLoop_inv g fails ord ht ord [] [] [] (by simp)
  refine ⟨?_, rfl⟩
  intro x
  simp

/-! ## which jobs a `PythonJob.call` depends on -/

/-- a resource whose source is job `s` occurs somewhere in the argument (at any nesting depth; for dicts: among the
values) -/
inductive Mentions : Arg → Nat → Prop
  | res (s : Nat) : Mentions (.res (some s)) s
  | seq {l : List Arg} {a : Arg} {s : Nat} : a ∈ l → Mentions a s → Mentions (.seq l) s
  | dict {l : List Arg} {a : Arg} {s : Nat} : a ∈ l → Mentions a s → Mentions (.dict l) s

mutual
theorem mem_sources : ∀ (a : Arg) (s : Nat), s ∈ a.sources ↔ Mentions a s
  | .res (some t), s => by
    rw [Arg.sources, List.mem_singleton]
    constructor
    · rintro rfl; exact Mentions.res _
    · intro h; cases h; rfl
  | .res none, s => by
    rw [Arg.sources]
    constructor
    · intro h; cases h
    · intro h; cases h
  | .seq l, s => by
    rw [Arg.sources, mem_sourcesList l s]
    constructor
    · rintro ⟨a, ha, hm⟩; exact Mentions.seq ha hm
    · intro h; cases h with | seq ha hm => exact ⟨_, ha, hm⟩
  | .dict l, s => by
    rw [Arg.sources, mem_sourcesList l s]
    constructor
    · rintro ⟨a, ha, hm⟩; exact Mentions.dict ha hm
    · intro h; cases h with | dict ha hm => exact ⟨_, ha, hm⟩
  | .value, s => by
    rw [Arg.sources]
    constructor
    · intro h; cases h
    · intro h; cases h
theorem mem_sourcesList : ∀ (l : List Arg) (s : Nat), s ∈ sourcesList l ↔ ∃ a ∈ l, Mentions a s
  | [], s => by rw [sourcesList]; simp
  | a :: t, s => by
    rw [sourcesList, List.mem_append, mem_sources a s, mem_sourcesList t s]
    constructor
    · rintro (h | ⟨b, hb, hm⟩)
      · exact ⟨a, List.mem_cons_self, h⟩
      · exact ⟨b, List.mem_cons_of_mem _ hb, hm⟩
    · rintro ⟨b, hb, hm⟩
      rcases List.mem_cons.1 hb with rfl | hb
      · exact Or.inl hm
      · exact Or.inr ⟨b, hb, hm⟩
end

theorem mem_addDeps (self : Nat) (srcs : List Nat) (s : Nat) : s ∈ addDeps self srcs ↔ s ∈ srcs ∧ s ≠ self := by
  unfold addDeps; simp [List.mem_filter]

theorem mem_callDeps (self : Nat) (args : List Arg) (kwargs : List (String × Arg)) (s : Nat) :
    s ∈ callDeps self args kwargs ↔
      s ≠ self ∧ ((∃ a ∈ args, Mentions a s) ∨ ∃ kv ∈ kwargs, Mentions kv.2 s) := by
  unfold callDeps
  rw [mem_addDeps, List.mem_append, mem_sourcesList, mem_sourcesList]
  constructor
  · rintro ⟨h, hne⟩
    refine ⟨hne, ?_⟩
    rcases h with h | ⟨a, ha, hm⟩
    · exact Or.inl h
    · obtain ⟨kv, hkv, rfl⟩ := List.mem_map.1 ha
      exact Or.inr ⟨kv, hkv, hm⟩
  · rintro ⟨hne, h⟩
    refine ⟨?_, hne⟩
    rcases h with h | ⟨kv, hkv, hm⟩
    · exact Or.inl h
    · exact Or.inr ⟨kv.2, List.mem_map.2 ⟨kv, hkv, rfl⟩, hm⟩

theorem mem_jobDeps (self : Nat) (d : JobDecl) (s : Nat) :
    s ∈ jobDeps self d ↔ s ∈ d.explicit ∨ (s ∈ d.cmdSources ∧ s ≠ self) ∨
      (s ≠ self ∧ ∃ c ∈ d.calls, (∃ a ∈ c.1, Mentions a s) ∨ ∃ kv ∈ c.2, Mentions kv.2 s) := by
  unfold jobDeps
  rw [List.mem_append, List.mem_append, mem_addDeps, List.mem_flatMap]
  constructor
  · rintro ((h | h) | ⟨c, hc, h⟩)
    · exact Or.inl h
    · exact Or.inr (Or.inl h)
    · obtain ⟨hne, h⟩ := (mem_callDeps ..).1 h
      exact Or.inr (Or.inr ⟨hne, c, hc, h⟩)
  · rintro (h | h | ⟨hne, c, hc, h⟩)
    · exact Or.inl (Or.inl h)
    · exact Or.inl (Or.inr h)
    · exact Or.inr ⟨c, hc, (mem_callDeps ..).2 ⟨hne, h⟩⟩

end HailVerif.BatchOrder

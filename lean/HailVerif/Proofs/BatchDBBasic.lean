import HailVerif.Model.BatchDB
/-! Basic algebra of the counter log and of `updateJobs` (helper lemmas for the E1 properties). -/
namespace HailVerif.BatchDB

theorem get_nil (k : CKey) : get [] k = 0 := rfl

/-- a procedure that got past `add_attempt`'s foreign keys saw the job row -/
theorem findJobFk_some {s : State} {b j : Nat} {att inst : Option Nat} {job : Job}
    (h : findJobFk s b j att inst = some job) : findJob s b j = some job := by
  unfold findJobFk at h
  by_cases hf : attemptFkFails s b j att inst = true
  · simp [hf] at h
  · simpa [hf] using h

theorem get_cons (e : CKey × Int) (m : List (CKey × Int)) (k : CKey) :
    get (e :: m) k = (if e.1 = k then e.2 else 0) + get m k := by
  unfold get
  by_cases h : e.1 = k <;> simp [List.filter_cons, h]

theorem get_append (a b : List (CKey × Int)) (k : CKey) : get (a ++ b) k = get a k + get b k := by
  induction a with
  | nil => simp [get_nil]
  | cons e a ih => simp only [List.cons_append, get_cons, ih]; omega

theorem get_addMany (ds m : List (CKey × Int)) (k : CKey) : get (addMany ds m) k = get ds k + get m k :=
  get_append ds m k

theorem get_flatMap {α : Type} (l : List α) (f : α → List (CKey × Int)) (k : CKey) :
    get (l.flatMap f) k = (l.map fun x => get (f x) k).sum := by
  induction l with
  | nil => simp [get_nil]
  | cons x l ih => simp only [List.flatMap_cons, get_append, ih, List.map_cons, List.sum_cons]

/-- summing a weight over a list -/
def sumBy {α : Type} (w : α → Int) (l : List α) : Int := (l.map w).sum

theorem sumBy_nil {α : Type} (w : α → Int) : sumBy w [] = 0 := rfl
theorem sumBy_cons {α : Type} (w : α → Int) (x : α) (l : List α) : sumBy w (x :: l) = w x + sumBy w l := by
  simp [sumBy]
theorem sumBy_append {α : Type} (w : α → Int) (a b : List α) : sumBy w (a ++ b) = sumBy w a + sumBy w b := by
  simp [sumBy, List.sum_append]

/-- linearity: re-weighting after a pointwise map changes the sum by the sum of the pointwise differences -/
theorem sumBy_map_diff {α : Type} (w : α → Int) (f : α → α) (l : List α) :
    sumBy w (l.map f) = sumBy w l + sumBy (fun x => w (f x) - w x) l := by
  induction l with
  | nil => simp [sumBy]
  | cons x l ih => simp only [List.map_cons, sumBy_cons, ih]; omega

theorem sumBy_filter_ite {α : Type} (w : α → Int) (p : α → Bool) (l : List α) :
    sumBy w (l.filter p) = sumBy (fun x => if p x then w x else 0) l := by
  induction l with
  | nil => simp [sumBy]
  | cons x l ih =>
    by_cases h : p x <;> simp [List.filter_cons, h, sumBy_cons, ih]

theorem sumBy_congr {α : Type} (w w' : α → Int) (l : List α) (h : ∀ x ∈ l, w x = w' x) : sumBy w l = sumBy w' l := by
  induction l with
  | nil => rfl
  | cons x l ih =>
    simp only [sumBy_cons]
    rw [h x (by simp), ih (fun y hy => h y (by simp [hy]))]

theorem sumBy_zero {α : Type} (l : List α) (w : α → Int) (h : ∀ x ∈ l, w x = 0) : sumBy w l = 0 := by
  rw [sumBy_congr w (fun _ => 0) l h]
  induction l with
  | nil => rfl
  | cons x l ih => simp [sumBy_cons]; exact ih (fun y hy => h y (by simp [hy]))

/-- the jobs after `UPDATE jobs SET … WHERE p` -/
theorem updateJobs_jobs (s : State) (p : Job → Bool) (f : Job → Job) :
    (updateJobs s p f).jobs = s.jobs.map (fun j => if p j then f j else j) := rfl

/-- the counter log after `UPDATE jobs`: for every key the sum of the per-row trigger deltas is added -/
theorem updateJobs_get (s : State) (p : Job → Bool) (f : Job → Job) (k : CKey) :
    get (updateJobs s p f).ctr k =
      sumBy (fun j => if p j then get (jobDeltas s j (f j)) k else 0) s.jobs + get s.ctr k := by
  show get (addMany _ s.ctr) k = _
  rw [get_addMany, get_flatMap]
  congr 1
  exact sumBy_filter_ite (fun j => get (jobDeltas s j (f j)) k) p s.jobs

@[simp] theorem updateJobs_groups (s : State) (p : Job → Bool) (f : Job → Job) : (updateJobs s p f).groups = s.groups := rfl
@[simp] theorem updateJobs_cancelled (s : State) (p : Job → Bool) (f : Job → Job) : (updateJobs s p f).cancelled = s.cancelled := rfl
@[simp] theorem updateJobs_batches (s : State) (p : Job → Bool) (f : Job → Job) : (updateJobs s p f).batches = s.batches := rfl
@[simp] theorem updateJobs_updates (s : State) (p : Job → Bool) (f : Job → Job) : (updateJobs s p f).updates = s.updates := rfl
@[simp] theorem updateJobs_parents (s : State) (p : Job → Bool) (f : Job → Job) : (updateJobs s p f).parents = s.parents := rfl
@[simp] theorem updateJobs_attempts (s : State) (p : Job → Bool) (f : Job → Job) : (updateJobs s p f).attempts = s.attempts := rfl
@[simp] theorem updateJobs_instances (s : State) (p : Job → Bool) (f : Job → Job) : (updateJobs s p f).instances = s.instances := rfl

@[simp] theorem updateAttempts_jobs (s : State) (d : Nat) (p : Attempt → Bool) (f : Generated.AttemptsTrigger.Row → Generated.AttemptsTrigger.Row) :
    (updateAttempts s d p f).jobs = s.jobs := rfl
@[simp] theorem updateAttempts_groups (s : State) (d : Nat) (p : Attempt → Bool) (f : Generated.AttemptsTrigger.Row → Generated.AttemptsTrigger.Row) :
    (updateAttempts s d p f).groups = s.groups := rfl
@[simp] theorem updateAttempts_cancelled (s : State) (d : Nat) (p : Attempt → Bool) (f : Generated.AttemptsTrigger.Row → Generated.AttemptsTrigger.Row) :
    (updateAttempts s d p f).cancelled = s.cancelled := rfl
@[simp] theorem updateAttempts_instances (s : State) (d : Nat) (p : Attempt → Bool) (f : Generated.AttemptsTrigger.Row → Generated.AttemptsTrigger.Row) :
    (updateAttempts s d p f).instances = s.instances := rfl
@[simp] theorem updateAttempts_batches (s : State) (d : Nat) (p : Attempt → Bool) (f : Generated.AttemptsTrigger.Row → Generated.AttemptsTrigger.Row) :
    (updateAttempts s d p f).batches = s.batches := rfl
@[simp] theorem updateAttempts_updates (s : State) (d : Nat) (p : Attempt → Bool) (f : Generated.AttemptsTrigger.Row → Generated.AttemptsTrigger.Row) :
    (updateAttempts s d p f).updates = s.updates := rfl
@[simp] theorem updateAttempts_parents (s : State) (d : Nat) (p : Attempt → Bool) (f : Generated.AttemptsTrigger.Row → Generated.AttemptsTrigger.Row) :
    (updateAttempts s d p f).parents = s.parents := rfl

end HailVerif.BatchDB

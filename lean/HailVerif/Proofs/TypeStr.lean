import HailVerif.Model.TypeStr
/-! Lemmas about the type-string model (C31): the `unicode_escape` codec, identifier scanning, decimal numerals and the
PEG parser run on printed types. -/
namespace HailVerif.TypeStr

/-! ## hexadecimal digits -/

theorem hexVal_hexDigit (d : Nat) (h : d < 16) : hexVal (hexDigit d) = some d := by
  have : ∀ d, d < 16 → hexVal (hexDigit d) = some d := by decide
  exact this d h

theorem hexDigit_lt (d : Nat) (h : d < 16) : hexDigit d < 128 := by
  unfold hexDigit; split <;> omega

theorem hexDigit_ne (d : Nat) (h : d < 16) : hexDigit d ≠ 92 ∧ hexDigit d ≠ 96 ∧ hexDigit d ≠ 10 := by
  unfold hexDigit; split <;> omega

theorem takeHex_hex4 (c : Nat) (h : c < 65536) (rest : List Nat) : takeHex 4 0 (hex4 c ++ rest) = some (c, rest) := by
  simp only [hex4, List.cons_append, List.nil_append, takeHex, hexVal_hexDigit _ (Nat.mod_lt _ (by decide : 16 > 0))]
  congr 2; omega

/-! ## UTF-16 code units of a code-point string, and putting surrogate pairs back together -/

/-- what `unicode_escape` decoding of the escaped text yields: one element per UTF-16 code unit -/
def units : Str → Str
  | [] => []
  | c :: r => if 65536 ≤ c then (55296 + (c - 65536) / 1024) :: (56320 + (c - 65536) % 1024) :: units r else c :: units r

theorem recombine_cons_of_not_high (c : Nat) (X : Str) (h : ¬ (55296 ≤ c ∧ c < 56320)) :
    recombine (c :: X) = c :: recombine X := by
  cases X with
  | nil => simp [recombine]
  | cons l r =>
    have : ¬ (55296 ≤ c ∧ c < 56320 ∧ 56320 ≤ l ∧ l < 57344) := fun hh => h ⟨hh.1, hh.2.1⟩
    simp [recombine, this]

theorem recombine_pair (h l : Nat) (r : Str) (hh : 55296 ≤ h ∧ h < 56320 ∧ 56320 ≤ l ∧ l < 57344) :
    recombine (h :: l :: r) = (65536 + (h - 55296) * 1024 + (l - 56320)) :: recombine r := by
  rw [recombine, if_pos hh]

/-- `recombine` undoes the split into UTF-16 code units for strings of Unicode scalar values -/
theorem recombine_units (s : Str) (hs : ValidStr s) : recombine (units s) = s := by
  induction s with
  | nil => rfl
  | cons c s ih =>
    have hc := hs c (by simp)
    have ih' := ih (fun d hd => hs d (by simp [hd]))
    simp only [units]
    split
    · rename_i hbig
      have h1 : 55296 ≤ 55296 + (c - 65536) / 1024 ∧ 55296 + (c - 65536) / 1024 < 56320 ∧
          56320 ≤ 56320 + (c - 65536) % 1024 ∧ 56320 + (c - 65536) % 1024 < 57344 := by omega
      rw [recombine_pair _ _ _ h1, ih']
      have e : 65536 + (55296 + (c - 65536) / 1024 - 55296) * 1024 + (56320 + (c - 65536) % 1024 - 56320) = c := by omega
      rw [e]
    · rw [recombine_cons_of_not_high c _ (by omega), ih']

/-! ## `unicode_escape` decoding of what `escape_parsable` writes -/

/-- one `\uXXXX` escape -/
theorem decodeLoop_u (v : Nat) (hv : v < 65536) (rest : List Nat) (f : Nat) :
    decodeLoop (f + 1) (92 :: 117 :: (hex4 v ++ rest)) = (decodeLoop f rest).map (v :: ·) := by
  simp only [decodeLoop]
  simp [takeHex_hex4 v hv]

theorem decodeLoop_pchar_small (c : Nat) (hc : c < 65536) (rest : List Nat) (f : Nat) :
    decodeLoop (f + 1) (parsableEscapeChar c ++ rest) = (decodeLoop f rest).map (c :: ·) := by
  unfold parsableEscapeChar
  by_cases h1 : c = 92
  · subst h1; simp [decodeLoop]
  by_cases h2 : c = 9
  · subst h2; simp [decodeLoop]
  by_cases h3 : c = 10
  · subst h3; simp [decodeLoop]
  by_cases h4 : c = 13
  · subst h4; simp [decodeLoop]
  by_cases h5 : 32 ≤ c ∧ c < 127
  · simp [h1, h2, h3, h4, h5, decodeLoop]
  · rw [if_neg h1, if_neg h2, if_neg h3, if_neg h4, if_neg h5, if_pos hc]
    exact decodeLoop_u c hc rest f

theorem parsableEscapeChar_astral (c : Nat) (hc : 65536 ≤ c) :
    parsableEscapeChar c =
      92 :: 117 :: (hex4 (55296 + (c - 65536) / 1024) ++ 92 :: 117 :: hex4 (56320 + (c - 65536) % 1024)) := by
  unfold parsableEscapeChar
  rw [if_neg (by omega), if_neg (by omega), if_neg (by omega), if_neg (by omega), if_neg (by omega), if_neg (by omega)]

theorem decodeLoop_pchar_astral (c : Nat) (hc : 65536 ≤ c) (hc' : c < 1114112) (rest : List Nat) (f : Nat) :
    decodeLoop (f + 2) (parsableEscapeChar c ++ rest) =
      (decodeLoop f rest).map ((55296 + (c - 65536) / 1024) :: (56320 + (c - 65536) % 1024) :: ·) := by
  rw [parsableEscapeChar_astral c hc]
  have e : (92 :: 117 :: (hex4 (55296 + (c - 65536) / 1024) ++ 92 :: 117 :: hex4 (56320 + (c - 65536) % 1024))) ++ rest
      = 92 :: 117 :: (hex4 (55296 + (c - 65536) / 1024) ++ (92 :: 117 :: (hex4 (56320 + (c - 65536) % 1024) ++ rest))) := by
    simp
  rw [e, decodeLoop_u _ (by omega), decodeLoop_u _ (by omega)]
  simp [Option.map_map, Function.comp_def]

theorem parsableEscape_cons (c : Nat) (s : Str) : parsableEscape (c :: s) = parsableEscapeChar c ++ parsableEscape s := by
  simp [parsableEscape]

theorem decodeLoop_parsableEscape (s : Str) (hs : ∀ c ∈ s, c < 1114112) :
    ∀ f, (units s).length + 1 ≤ f → decodeLoop f (parsableEscape s) = some (units s) := by
  induction s with
  | nil => intro f hf; cases f with
    | zero => omega
    | succ f => simp [parsableEscape, decodeLoop, units]
  | cons c s ih =>
    intro f hf
    have ih' := ih (fun d hd => hs d (by simp [hd]))
    rw [parsableEscape_cons]
    by_cases hbig : 65536 ≤ c
    · simp only [units, hbig, if_true, List.length_cons] at hf ⊢
      obtain ⟨f', rfl⟩ : ∃ f', f = f' + 2 := ⟨f - 2, by omega⟩
      rw [decodeLoop_pchar_astral c hbig (hs c (by simp)), ih' f' (by omega)]
      rfl
    · simp only [units, hbig, if_false, List.length_cons] at hf ⊢
      obtain ⟨f', rfl⟩ : ∃ f', f = f' + 1 := ⟨f - 1, by omega⟩
      rw [decodeLoop_pchar_small c (by omega), ih' f' (by omega)]
      rfl

theorem parsableEscapeChar_len (c : Nat) : 1 ≤ (parsableEscapeChar c).length ∧ (65536 ≤ c → 2 ≤ (parsableEscapeChar c).length) := by
  unfold parsableEscapeChar
  repeat' split
  all_goals simp [hex4]
  all_goals omega

theorem units_length_le (s : Str) : (units s).length ≤ (parsableEscape s).length := by
  induction s with
  | nil => simp [units, parsableEscape]
  | cons c s ih =>
    rw [parsableEscape_cons]
    have := parsableEscapeChar_len c
    simp only [units]
    split <;> simp <;> omega

theorem length_le_parsableEscape (s : Str) : s.length ≤ (parsableEscape s).length := by
  induction s with
  | nil => simp [parsableEscape]
  | cons c s ih =>
    rw [parsableEscape_cons]
    have := (parsableEscapeChar_len c).1
    simp; omega

theorem unicodeEscapeDecode_parsableEscape (s : Str) (hs : ∀ c ∈ s, c < 1114112) :
    unicodeEscapeDecode (parsableEscape s) = some (units s) :=
  decodeLoop_parsableEscape s hs _ (by have := units_length_le s; omega)

/-! ## backtick replacement and UTF-8 of ASCII -/

theorem replaceBacktick_cons (c : Nat) (x : Str) :
    replaceBacktick (c :: x) = (if c = 96 then [92, 96] else [c]) ++ replaceBacktick x := by
  simp [replaceBacktick]

theorem replaceBacktick_append (a b : Str) : replaceBacktick (a ++ b) = replaceBacktick a ++ replaceBacktick b := by
  simp [replaceBacktick]

theorem replaceBacktick_head (x : Str) : (replaceBacktick x).head? ≠ some 96 := by
  cases x with
  | nil => simp [replaceBacktick]
  | cons c x => rw [replaceBacktick_cons]; split <;> simp_all

theorem unreplace_replace (x : Str) : unreplaceBacktick (replaceBacktick x) = x := by
  induction x with
  | nil => simp [replaceBacktick, unreplaceBacktick]
  | cons c x ih =>
    rw [replaceBacktick_cons]
    split
    · subst_vars; simp [unreplaceBacktick, ih]
    · rename_i hc
      have hh := replaceBacktick_head x
      cases hx : replaceBacktick x with
      | nil => rw [hx] at ih; simp [unreplaceBacktick, ← ih]
      | cons d r =>
        rw [hx] at hh ih
        have hd : d ≠ 96 := by simpa using hh
        simp [unreplaceBacktick, hd, ih]

theorem utf8_ascii (x : Str) (h : ∀ b ∈ x, b < 128) : utf8 x = some x := by
  induction x with
  | nil => rfl
  | cons b x ih =>
    have hb : b < 128 := h b (by simp)
    simp [utf8, utf8Char, hb, ih (fun d hd => h d (by simp [hd]))]

theorem parsableEscapeChar_ascii (c : Nat) : ∀ b ∈ parsableEscapeChar c, b < 128 := by
  have hd : ∀ n, hexDigit (n % 16) < 128 := fun n => hexDigit_lt _ (Nat.mod_lt _ (by decide))
  unfold parsableEscapeChar
  repeat' split
  all_goals simp_all [hex4]
  all_goals omega

theorem parsableEscape_ascii (s : Str) : ∀ b ∈ parsableEscape s, b < 128 := by
  intro b hb
  simp only [parsableEscape, List.mem_flatMap] at hb
  obtain ⟨c, _, hc⟩ := hb
  exact parsableEscapeChar_ascii c b hc

/-- `unescape_parsable` inverts the body `escape_parsable` puts between the backticks -/
theorem unescapeParsable_escaped (s : Str) (hs : ValidStr s) :
    unescapeParsable (replaceBacktick (parsableEscape s)) = some s := by
  unfold unescapeParsable
  rw [unreplace_replace, utf8_ascii _ (parsableEscape_ascii s)]
  simp only [Option.bind_some]
  rw [unicodeEscapeDecode_parsableEscape s (fun c hc => (hs c hc).1)]
  simp [recombine_units s hs]

/-! ## scanning a backticked identifier -/

theorem scan_plain (c : Nat) (x : Nat) (X : Str) (h1 : c ≠ 96) (h2 : c ≠ 92) :
    scanEscaped (c :: x :: X) = (scanEscaped (x :: X)).map fun p => (c :: p.1, p.2) := by
  simp [scanEscaped, h1, h2]

theorem scan_pair (d : Nat) (X : Str) (h : d ≠ 10) :
    scanEscaped (92 :: d :: X) = (scanEscaped X).map fun p => (92 :: d :: p.1, p.2) := by
  simp [scanEscaped, h]

/-- one character of the text between the backticks -/
def escBodyChar (c : Nat) : Str := replaceBacktick (parsableEscapeChar c)

theorem escBody_cons (c : Nat) (s : Str) :
    replaceBacktick (parsableEscape (c :: s)) = escBodyChar c ++ replaceBacktick (parsableEscape s) := by
  simp [parsableEscape, escBodyChar, replaceBacktick_append]

theorem hex4_noBacktick (c : Nat) : replaceBacktick (hex4 c) = hex4 c := by
  have hd : ∀ n, hexDigit (n % 16) ≠ 96 := fun n => (hexDigit_ne _ (Nat.mod_lt _ (by decide))).2.1
  simp [replaceBacktick, hex4, hd]

theorem scan_hex4 (c : Nat) (x : Nat) (X : Str) :
    scanEscaped (hex4 c ++ x :: X) = (scanEscaped (x :: X)).map fun p => (hex4 c ++ p.1, p.2) := by
  have hd : ∀ n, hexDigit (n % 16) ≠ 92 ∧ hexDigit (n % 16) ≠ 96 ∧ hexDigit (n % 16) ≠ 10 :=
    fun n => hexDigit_ne _ (Nat.mod_lt _ (by decide))
  simp only [hex4, List.cons_append, List.nil_append]
  rw [scan_plain _ _ _ (hd _).2.1 (hd _).1, scan_plain _ _ _ (hd _).2.1 (hd _).1, scan_plain _ _ _ (hd _).2.1 (hd _).1,
    scan_plain _ _ _ (hd _).2.1 (hd _).1]
  simp [Option.map_map, Function.comp_def]

theorem scan_char (c : Nat) (x : Nat) (X : Str) :
    scanEscaped (escBodyChar c ++ x :: X) = (scanEscaped (x :: X)).map fun p => (escBodyChar c ++ p.1, p.2) := by
  unfold escBodyChar parsableEscapeChar
  split
  · simp [replaceBacktick, scan_pair]
  split
  · simp [replaceBacktick, scan_pair]
  split
  · simp [replaceBacktick, scan_pair]
  split
  · simp [replaceBacktick, scan_pair]
  split
  · rename_i h1 h2 h3 h4 h5
    by_cases h96 : c = 96
    · subst h96; simp [replaceBacktick, scan_pair]
    · simp [replaceBacktick, h96, scan_plain, h1]
  split
  · have e : replaceBacktick (92 :: 117 :: hex4 c) = 92 :: 117 :: hex4 c := by
      rw [replaceBacktick_cons, replaceBacktick_cons, hex4_noBacktick]; simp
    rw [e]
    simp only [List.cons_append]
    rw [scan_pair _ _ (by decide), scan_hex4]
    simp [Option.map_map, Function.comp_def]
  · have e : ∀ a b, replaceBacktick (92 :: 117 :: (hex4 a ++ 92 :: 117 :: hex4 b)) = 92 :: 117 :: (hex4 a ++ 92 :: 117 :: hex4 b) := by
      intro a b
      rw [replaceBacktick_cons, replaceBacktick_cons, replaceBacktick_append, replaceBacktick_cons, replaceBacktick_cons,
        hex4_noBacktick, hex4_noBacktick]; simp
    rw [e]
    simp only [List.cons_append, List.append_assoc]
    rw [scan_pair _ _ (by decide), scan_hex4, scan_pair _ _ (by decide), scan_hex4]
    simp [Option.map_map, Function.comp_def]

theorem scan_body (s : Str) (rest : Str) :
    scanEscaped (replaceBacktick (parsableEscape s) ++ 96 :: rest) = some (replaceBacktick (parsableEscape s), rest) := by
  induction s with
  | nil => cases rest <;> simp [parsableEscape, replaceBacktick, scanEscaped]
  | cons c s ih =>
    rw [escBody_cons, List.append_assoc]
    cases hX : replaceBacktick (parsableEscape s) ++ 96 :: rest with
    | nil => simp at hX
    | cons x X =>
      rw [scan_char, ← hX, ih]; rfl

/-! ## identifiers -/

variable (cc : Classes)

theorem isSpace_ascii (c : Nat) (h : c < 128) : cc.isSpace c = asciiSpace c := by simp [Classes.isSpace, h]
theorem isWord_ascii (c : Nat) (h : c < 128) : cc.isWord c = asciiWord c := by simp [Classes.isWord, h]

theorem first_char_facts (c : Nat) (h : (c == 95 || asciiLetter c) = true) :
    cc.isSpace c = false ∧ cc.isWord c = true ∧ c ≠ 96 := by
  simp only [asciiLetter, Bool.or_eq_true, beq_iff_eq, Bool.and_eq_true, decide_eq_true_eq] at h
  have hlt : c < 128 := by omega
  refine ⟨?_, ?_, by omega⟩
  · simp only [Classes.isSpace, hlt, if_true, asciiSpace]
    simp only [Bool.or_eq_false_iff, Bool.and_eq_false_iff, decide_eq_false_iff_not, beq_eq_false_iff_ne]
    omega
  · simp only [Classes.isWord, hlt, if_true, asciiWord, asciiLetter, asciiDigit]
    simp only [Bool.or_eq_true, Bool.and_eq_true, decide_eq_true_eq, beq_iff_eq]
    omega

/-- ASCII punctuation that follows an identifier or a type in a printed type: neither `\w` nor `\s` -/
def Punct (p : Nat) : Prop := p = 58 ∨ p = 62 ∨ p = 44 ∨ p = 41 ∨ p = 125 ∨ p = 40 ∨ p = 60 ∨ p = 123 ∨ p = 93 ∨ p = 91

theorem punct_facts (p : Nat) (h : Punct p) : cc.isSpace p = false ∧ cc.isWord p = false ∧ asciiDigit p = false := by
  rcases h with h | h | h | h | h | h | h | h | h | h <;> subst h <;>
    (rw [isSpace_ascii cc _ (by decide), isWord_ascii cc _ (by decide)]; decide)

theorem skipWs_of_nonspace (c : Nat) (r : Str) (h : cc.isSpace c = false) : skipWs cc (c :: r) = c :: r := by
  simp [skipWs, h]

theorem spanWord_all (n : Str) (p : Nat) (rest : Str) (hn : ∀ c ∈ n, cc.isWord c = true) (hp : cc.isWord p = false) :
    spanWord cc (n ++ p :: rest) = (n, p :: rest) := by
  induction n with
  | nil => simp [spanWord, hp]
  | cons c n ih =>
    simp [spanWord, hn c (by simp), ih (fun d hd => hn d (by simp [hd]))]

theorem asciiWord_lt (d : Nat) (h : asciiWord d = true) : d < 128 := by
  simp only [asciiWord, asciiLetter, asciiDigit, Bool.or_eq_true, Bool.and_eq_true, decide_eq_true_eq, beq_iff_eq] at h
  omega

theorem isParsable_words (n : Str) (h : isParsable n = true) :
    ∃ c r, n = c :: r ∧ (c == 95 || asciiLetter c) = true ∧ (∀ d ∈ c :: r, asciiWord d = true) ∧
      ∀ d ∈ c :: r, cc.isWord d = true := by
  cases n with
  | nil => simp [isParsable] at h
  | cons c r =>
    simp only [isParsable, Bool.and_eq_true, List.all_eq_true] at h
    have hall : ∀ d ∈ c :: r, asciiWord d = true := by
      intro d hd
      rcases List.mem_cons.1 hd with rfl | hd
      · have := h.1
        simp only [asciiWord, asciiLetter, asciiDigit, Bool.or_eq_true, Bool.and_eq_true, decide_eq_true_eq, beq_iff_eq] at this ⊢
        omega
      · exact h.2 d hd
    refine ⟨c, r, rfl, h.1, hall, ?_⟩
    intro d hd
    rw [isWord_ascii cc d (asciiWord_lt d (hall d hd))]
    exact hall d hd

theorem pIdentifier_escape (n : Str) (hn : ValidStr n) (p : Nat) (rest : Str) (hp : Punct p) :
    pIdentifier cc (escapeParsable n ++ p :: rest) = some (n, p :: rest) := by
  obtain ⟨hps, hpw, _⟩ := punct_facts cc p hp
  unfold escapeParsable
  split
  · rename_i h
    obtain ⟨c, r, rfl, hc, _, hall⟩ := isParsable_words cc n h
    have hsp := (first_char_facts cc c hc).1
    simp only [pIdentifier, List.cons_append, skipWs_of_nonspace cc c _ hsp]
    have := spanWord_all cc (c :: r) p rest hall hpw
    simp only [List.cons_append] at this
    simp [pSimpleIdentifier, this, skipWs_of_nonspace cc p rest hps]
  · have h96s : cc.isSpace 96 = false := by rw [isSpace_ascii cc _ (by decide)]; decide
    have h96w : cc.isWord 96 = false := by rw [isWord_ascii cc _ (by decide)]; decide
    simp only [pIdentifier, List.cons_append, skipWs_of_nonspace cc 96 _ h96s]
    have hsimple : pSimpleIdentifier cc (96 :: (replaceBacktick (parsableEscape n) ++ [96] ++ p :: rest)) = none := by
      simp [pSimpleIdentifier, spanWord, h96w]
    have hscan := scan_body n (p :: rest)
    simp only [List.append_assoc, List.cons_append, List.nil_append] at hsimple ⊢
    simp [hsimple, pEscapedIdentifier, hscan, unescapeParsable_escaped n hn, skipWs_of_nonspace cc p rest hps]

/-! ## decimal numerals -/

theorem natDigitsAux_acc (m : Nat) : ∀ f, m < f → ∀ acc, natDigitsAux f m acc = natDigitsAux (m + 1) m [] ++ acc := by
  induction m using Nat.strongRecOn with
  | _ m ih =>
    intro f hf acc
    cases f with
    | zero => omega
    | succ f =>
      by_cases h : m < 10
      · simp [natDigitsAux, h]
      · have hlt : m / 10 < m := by omega
        simp only [natDigitsAux, h, if_false]
        rw [ih (m / 10) hlt f (by omega), ih (m / 10) hlt m hlt [48 + m % 10]]
        simp

theorem natDigits_small (n : Nat) (h : n < 10) : natDigits n = [48 + n] := by
  simp [natDigits, natDigitsAux, h]

theorem natDigits_step (n : Nat) (h : ¬ n < 10) : natDigits n = natDigits (n / 10) ++ [48 + n % 10] := by
  have hlt : n / 10 < n := by omega
  unfold natDigits
  have : natDigitsAux (n + 1) n [] = natDigitsAux n (n / 10) [48 + n % 10] := by simp [natDigitsAux, h]
  rw [this, natDigitsAux_acc (n / 10) n hlt]

def digitsVal (a : Nat) (ds : Str) : Nat := ds.foldl (fun a d => a * 10 + (d - 48)) a

theorem natDigits_spec (n : Nat) :
    (∀ d ∈ natDigits n, asciiDigit d = true) ∧ digitsVal 0 (natDigits n) = n ∧ natDigits n ≠ [] := by
  induction n using Nat.strongRecOn with
  | _ n ih =>
    by_cases h : n < 10
    · rw [natDigits_small n h]
      refine ⟨?_, by simp [digitsVal], by simp⟩
      intro d hd
      simp only [List.mem_singleton] at hd
      subst hd
      simp only [asciiDigit, Bool.and_eq_true, decide_eq_true_eq]; omega
    · rw [natDigits_step n h]
      obtain ⟨h1, h2, _⟩ := ih (n / 10) (by omega)
      refine ⟨?_, ?_, by simp⟩
      · intro d hd
        rcases List.mem_append.1 hd with hd | hd
        · exact h1 d hd
        · simp only [List.mem_singleton] at hd
          subst hd
          simp only [asciiDigit, Bool.and_eq_true, decide_eq_true_eq]; omega
      · unfold digitsVal at h2 ⊢
        rw [List.foldl_append, h2]
        simp; omega

theorem spanDigits_digits (ds : Str) (hds : ∀ d ∈ ds, asciiDigit d = true) (tail : Str) (a : Nat) :
    spanDigits (ds ++ tail) a = spanDigits tail (digitsVal a ds) := by
  induction ds generalizing a with
  | nil => simp [digitsVal]
  | cons d ds ih =>
    simp only [List.cons_append, spanDigits, hds d (by simp), if_true]
    rw [ih (fun e he => hds e (by simp [he]))]
    simp [digitsVal]

theorem natDigits_head (n : Nat) : ∃ d r, natDigits n = d :: r ∧ asciiDigit d = true := by
  obtain ⟨h1, _, h3⟩ := natDigits_spec n
  cases h : natDigits n with
  | nil => exact absurd h h3
  | cons d r => exact ⟨d, r, rfl, h1 d (by simp [h])⟩

/-- `nat` of the grammar reads back the printed dimension count (followed by punctuation) -/
theorem pNat_natDigits (n : Nat) (p : Nat) (rest : Str) (hp : Punct p) :
    pNat cc (32 :: (natDigits n ++ p :: rest)) = some (n, p :: rest) := by
  obtain ⟨hps, _, hpd⟩ := punct_facts cc p hp
  obtain ⟨h1, h2, _⟩ := natDigits_spec n
  obtain ⟨d, r, hdr, hd⟩ := natDigits_head n
  have h32 : cc.isSpace 32 = true := by rw [isSpace_ascii cc _ (by decide)]; decide
  have hdlt : d < 128 := by simp only [asciiDigit, Bool.and_eq_true, decide_eq_true_eq] at hd; omega
  have hdsp : cc.isSpace d = false := by
    rw [isSpace_ascii cc _ hdlt]
    simp only [asciiDigit, Bool.and_eq_true, decide_eq_true_eq] at hd
    simp only [asciiSpace, Bool.or_eq_false_iff, Bool.and_eq_false_iff, decide_eq_false_iff_not, beq_eq_false_iff_ne]
    omega
  have hspan : spanDigits (natDigits n ++ p :: rest) 0 = (n, p :: rest) := by
    rw [spanDigits_digits _ h1, h2]; simp [spanDigits, hpd]
  unfold pNat
  simp only [skipWs, h32, if_true]
  rw [hdr] at hspan ⊢
  simp only [List.cons_append] at hspan ⊢
  rw [skipWs_of_nonspace cc d _ hdsp]
  simp only [hd, if_true, hspan]
  rw [skipWs_of_nonspace cc p rest hps]

/-! ## `dict(fields)` of distinct names -/

theorem dictSet_fresh (d : List (Str × HType)) (n : Str) (t : HType) (h : n ∉ d.map Prod.fst) :
    dictSet d n t = d ++ [(n, t)] := by
  induction d with
  | nil => rfl
  | cons p d ih =>
    obtain ⟨m, u⟩ := p
    simp only [List.map_cons, List.mem_cons, not_or] at h
    have hne : ¬ m = n := fun e => h.1 e.symm
    simp [dictSet, hne, ih h.2]

theorem foldl_dictSet (fs acc : List (Str × HType)) (h : (acc.map Prod.fst ++ fs.map Prod.fst).Nodup) :
    fs.foldl (fun d (p : Str × HType) => dictSet d p.1 p.2) acc = acc ++ fs := by
  induction fs generalizing acc with
  | nil => simp
  | cons p fs ih =>
    have hfresh : p.1 ∉ acc.map Prod.fst := by
      intro hm
      have := List.nodup_append.1 h
      exact this.2.2 _ hm _ (by simp) rfl
    simp only [List.foldl_cons]
    rw [dictSet_fresh acc p.1 p.2 hfresh, ih]
    · simp
    · simpa [List.append_assoc] using h

theorem dictOf_nodup (fs : List (Str × HType)) (h : (fs.map Prod.fst).Nodup) : dictOf fs = fs := by
  unfold dictOf
  rw [foldl_dictSet fs [] (by simpa using h)]
  rfl

end HailVerif.TypeStr

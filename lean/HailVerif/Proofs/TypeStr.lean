import HailVerif.Model.TypeStr
/-! Lemmas about the type-string model (C31): the `unicode_escape` codec, identifier scanning, decimal numerals and the
PEG parser run on printed types. -/
namespace HailVerif.TypeStr

/-! ## hexadecimal digits -/

theorem hexVal_hexDigit (d : Nat) (h : d < 16) : hexVal (hexDigit d) = some d := by
  have : ∀ d, d < 16 → hexVal (hexDigit d) = some d := by decide
  exact this d h

theorem hexDigit_lt (d : Nat) (h : d < 16) : hexDigit d < 128 := by
  unfold hexDigit; split <;> omega

theorem hexDigit_ne (d : Nat) (h : d < 16) : hexDigit d ≠ 92 ∧ hexDigit d ≠ 96 ∧ hexDigit d ≠ 10 := by
  unfold hexDigit; split <;> omega

theorem takeHex_hex2 (c : Nat) (h : c < 256) (rest : List Nat) : takeHex 2 0 (hex2 c ++ rest) = some (c, rest) := by
  simp only [hex2, List.cons_append, List.nil_append, takeHex, hexVal_hexDigit _ (Nat.mod_lt _ (by decide : 16 > 0))]
  congr 2; omega

theorem takeHex_hex4 (c : Nat) (h : c < 65536) (rest : List Nat) : takeHex 4 0 (hex4 c ++ rest) = some (c, rest) := by
  simp only [hex4, List.cons_append, List.nil_append, takeHex, hexVal_hexDigit _ (Nat.mod_lt _ (by decide : 16 > 0))]
  congr 2; omega

theorem takeHex_hex8 (c : Nat) (h : c < 4294967296) (rest : List Nat) : takeHex 8 0 (hex8 c ++ rest) = some (c, rest) := by
  simp only [hex8, List.cons_append, List.nil_append, takeHex, hexVal_hexDigit _ (Nat.mod_lt _ (by decide : 16 > 0))]
  congr 2; omega

/-! ## `unicode_escape`: decode ∘ encode -/

theorem decodeLoop_char (c : Nat) (hc : c < 1114112) (rest : List Nat) (f : Nat) :
    decodeLoop (f + 1) (unicodeEscapeChar c ++ rest) = (decodeLoop f rest).map (c :: ·) := by
  unfold unicodeEscapeChar
  split
  · subst_vars; simp [decodeLoop]
  split
  · subst_vars; simp [decodeLoop]
  split
  · subst_vars; simp [decodeLoop]
  split
  · subst_vars; simp [decodeLoop]
  split
  · rename_i h1 h2 h3 h4 h5
    have hc' : c < 256 := by
      simp only [Bool.or_eq_true, Bool.and_eq_true, decide_eq_true_eq] at h5; omega
    simp only [List.cons_append, decodeLoop]
    simp [takeHex_hex2 c hc']
  split
  · rename_i h1 h2 h3 h4 h5 h6
    simp [decodeLoop, h4]
  split
  · rename_i h7
    simp only [List.cons_append, decodeLoop]
    simp [takeHex_hex4 c h7]
  · simp only [List.cons_append, decodeLoop]
    simp [takeHex_hex8 c (by omega), hc]

theorem decodeLoop_unicodeEscape (s : Str) (hs : ∀ c ∈ s, c < 1114112) :
    ∀ f, s.length + 1 ≤ f → decodeLoop f (unicodeEscape s) = some s := by
  induction s with
  | nil => intro f hf; cases f with
    | zero => omega
    | succ f => simp [unicodeEscape, decodeLoop]
  | cons c s ih =>
    intro f hf
    cases f with
    | zero => omega
    | succ f =>
      have : unicodeEscape (c :: s) = unicodeEscapeChar c ++ unicodeEscape s := by simp [unicodeEscape]
      rw [this, decodeLoop_char c (hs c (by simp))]
      rw [ih (fun d hd => hs d (by simp [hd])) f (by simp at hf; omega)]
      rfl

theorem length_le_unicodeEscape (s : Str) : s.length ≤ (unicodeEscape s).length := by
  induction s with
  | nil => simp [unicodeEscape]
  | cons c s ih =>
    have : unicodeEscape (c :: s) = unicodeEscapeChar c ++ unicodeEscape s := by simp [unicodeEscape]
    have h1 : 1 ≤ (unicodeEscapeChar c).length := by
      unfold unicodeEscapeChar; repeat' split
      all_goals simp
    rw [this]; simp; omega

theorem unicodeEscapeDecode_unicodeEscape (s : Str) (hs : ∀ c ∈ s, c < 1114112) :
    unicodeEscapeDecode (unicodeEscape s) = some s :=
  decodeLoop_unicodeEscape s hs _ (by have := length_le_unicodeEscape s; omega)

/-! ## backtick replacement and UTF-8 of ASCII -/

theorem replaceBacktick_cons (c : Nat) (x : Str) :
    replaceBacktick (c :: x) = (if c = 96 then [92, 96] else [c]) ++ replaceBacktick x := by
  simp [replaceBacktick]

theorem replaceBacktick_append (a b : Str) : replaceBacktick (a ++ b) = replaceBacktick a ++ replaceBacktick b := by
  simp [replaceBacktick]

theorem replaceBacktick_head (x : Str) : (replaceBacktick x).head? ≠ some 96 := by
  cases x with
  | nil => simp [replaceBacktick]
  | cons c x => rw [replaceBacktick_cons]; split <;> simp_all

theorem unreplace_replace (x : Str) : unreplaceBacktick (replaceBacktick x) = x := by
  induction x with
  | nil => simp [replaceBacktick, unreplaceBacktick]
  | cons c x ih =>
    rw [replaceBacktick_cons]
    split
    · subst_vars; simp [unreplaceBacktick, ih]
    · rename_i hc
      have hh := replaceBacktick_head x
      cases hx : replaceBacktick x with
      | nil => rw [hx] at ih; simp [unreplaceBacktick, ← ih]
      | cons d r =>
        rw [hx] at hh ih
        have hd : d ≠ 96 := by simpa using hh
        simp [unreplaceBacktick, hd, ih]

theorem utf8_ascii (x : Str) (h : ∀ b ∈ x, b < 128) : utf8 x = some x := by
  induction x with
  | nil => rfl
  | cons b x ih =>
    have hb : b < 128 := h b (by simp)
    simp [utf8, utf8Char, hb, ih (fun d hd => h d (by simp [hd]))]

theorem unicodeEscapeChar_ascii (c : Nat) : ∀ b ∈ unicodeEscapeChar c, b < 128 := by
  have hd : ∀ n, hexDigit (n % 16) < 128 := fun n => hexDigit_lt _ (Nat.mod_lt _ (by decide))
  unfold unicodeEscapeChar
  repeat' split
  all_goals simp_all [hex2, hex4, hex8]
  all_goals omega

theorem unicodeEscape_ascii (s : Str) : ∀ b ∈ unicodeEscape s, b < 128 := by
  intro b hb
  simp only [unicodeEscape, List.mem_flatMap] at hb
  obtain ⟨c, _, hc⟩ := hb
  exact unicodeEscapeChar_ascii c b hc

/-- `unescape_parsable` inverts the body `escape_parsable` puts between the backticks -/
theorem unescapeParsable_escaped (s : Str) (hs : ∀ c ∈ s, c < 1114112) :
    unescapeParsable (replaceBacktick (unicodeEscape s)) = some s := by
  unfold unescapeParsable
  rw [unreplace_replace, utf8_ascii _ (unicodeEscape_ascii s)]
  simpa using unicodeEscapeDecode_unicodeEscape s hs

/-! ## scanning a backticked identifier -/

theorem scan_plain (c : Nat) (x : Nat) (X : Str) (h1 : c ≠ 96) (h2 : c ≠ 92) :
    scanEscaped (c :: x :: X) = (scanEscaped (x :: X)).map fun p => (c :: p.1, p.2) := by
  simp [scanEscaped, h1, h2]

theorem scan_pair (d : Nat) (X : Str) (h : d ≠ 10) :
    scanEscaped (92 :: d :: X) = (scanEscaped X).map fun p => (92 :: d :: p.1, p.2) := by
  simp [scanEscaped, h]

/-- one character of the text between the backticks -/
def escBodyChar (c : Nat) : Str := replaceBacktick (unicodeEscapeChar c)

theorem escBody_cons (c : Nat) (s : Str) :
    replaceBacktick (unicodeEscape (c :: s)) = escBodyChar c ++ replaceBacktick (unicodeEscape s) := by
  simp [unicodeEscape, escBodyChar, replaceBacktick_append]

theorem scan_char (c : Nat) (x : Nat) (X : Str) :
    scanEscaped (escBodyChar c ++ x :: X) = (scanEscaped (x :: X)).map fun p => (escBodyChar c ++ p.1, p.2) := by
  have hd : ∀ n, hexDigit (n % 16) ≠ 92 ∧ hexDigit (n % 16) ≠ 96 ∧ hexDigit (n % 16) ≠ 10 :=
    fun n => hexDigit_ne _ (Nat.mod_lt _ (by decide))
  unfold escBodyChar unicodeEscapeChar
  split
  · simp [replaceBacktick, scan_pair]
  split
  · simp [replaceBacktick, scan_pair]
  split
  · simp [replaceBacktick, scan_pair]
  split
  · simp [replaceBacktick, scan_pair]
  split
  · simp only [replaceBacktick, hex2, List.flatMap_cons, List.flatMap_nil, (hd _).2.1, if_false]
    simp [scan_pair, scan_plain, (hd _).1, (hd _).2.1, Option.map_map, Function.comp_def]
  split
  · rename_i h1 h2 h3 h4 h5 h6
    by_cases h96 : c = 96
    · subst h96; simp [replaceBacktick, scan_pair]
    · simp [replaceBacktick, h96, scan_plain, h4]
  split
  · simp only [replaceBacktick, hex4, List.flatMap_cons, List.flatMap_nil, (hd _).2.1, if_false]
    simp [scan_pair, scan_plain, (hd _).1, (hd _).2.1, Option.map_map, Function.comp_def]
  · simp only [replaceBacktick, hex8, List.flatMap_cons, List.flatMap_nil, (hd _).2.1, if_false]
    simp [scan_pair, scan_plain, (hd _).1, (hd _).2.1, Option.map_map, Function.comp_def]

theorem scan_body (s : Str) (rest : Str) :
    scanEscaped (replaceBacktick (unicodeEscape s) ++ 96 :: rest) = some (replaceBacktick (unicodeEscape s), rest) := by
  induction s with
  | nil => cases rest <;> simp [unicodeEscape, replaceBacktick, scanEscaped]
  | cons c s ih =>
    rw [escBody_cons, List.append_assoc]
    cases hX : replaceBacktick (unicodeEscape s) ++ 96 :: rest with
    | nil => simp at hX
    | cons x X =>
      rw [scan_char, ← hX, ih]; rfl

/-! ## identifiers -/

variable (cc : Classes)

theorem isSpace_ascii (c : Nat) (h : c < 128) : cc.isSpace c = asciiSpace c := by simp [Classes.isSpace, h]
theorem isWord_ascii (c : Nat) (h : c < 128) : cc.isWord c = asciiWord c := by simp [Classes.isWord, h]

theorem first_char_facts (c : Nat) (h : (c == 95 || asciiLetter c) = true) :
    cc.isSpace c = false ∧ cc.isWord c = true ∧ c ≠ 96 := by
  simp only [asciiLetter, Bool.or_eq_true, beq_iff_eq, Bool.and_eq_true, decide_eq_true_eq] at h
  have hlt : c < 128 := by omega
  refine ⟨?_, ?_, by omega⟩
  · simp only [Classes.isSpace, hlt, if_true, asciiSpace]
    simp only [Bool.or_eq_false_iff, Bool.and_eq_false_iff, decide_eq_false_iff_not, beq_eq_false_iff_ne]
    omega
  · simp only [Classes.isWord, hlt, if_true, asciiWord, asciiLetter, asciiDigit]
    simp only [Bool.or_eq_true, Bool.and_eq_true, decide_eq_true_eq, beq_iff_eq]
    omega

/-- ASCII punctuation that follows an identifier or a type in a printed type: neither `\w` nor `\s` -/
def Punct (p : Nat) : Prop := p = 58 ∨ p = 62 ∨ p = 44 ∨ p = 41 ∨ p = 125 ∨ p = 40 ∨ p = 60 ∨ p = 123 ∨ p = 93 ∨ p = 91

theorem punct_facts (p : Nat) (h : Punct p) : cc.isSpace p = false ∧ cc.isWord p = false ∧ asciiDigit p = false := by
  rcases h with h | h | h | h | h | h | h | h | h | h <;> subst h <;>
    (rw [isSpace_ascii cc _ (by decide), isWord_ascii cc _ (by decide)]; decide)

theorem skipWs_of_nonspace (c : Nat) (r : Str) (h : cc.isSpace c = false) : skipWs cc (c :: r) = c :: r := by
  simp [skipWs, h]

theorem spanWord_all (n : Str) (p : Nat) (rest : Str) (hn : ∀ c ∈ n, cc.isWord c = true) (hp : cc.isWord p = false) :
    spanWord cc (n ++ p :: rest) = (n, p :: rest) := by
  induction n with
  | nil => simp [spanWord, hp]
  | cons c n ih =>
    simp [spanWord, hn c (by simp), ih (fun d hd => hn d (by simp [hd]))]

theorem isParsable_words (n : Str) (h : isParsable cc n = true) :
    ∃ c r, n = c :: r ∧ (c == 95 || asciiLetter c) = true ∧ ∀ d ∈ c :: r, cc.isWord d = true := by
  cases n with
  | nil => simp [isParsable] at h
  | cons c r =>
    simp only [isParsable, Bool.and_eq_true, List.all_eq_true] at h
    refine ⟨c, r, rfl, h.1, ?_⟩
    intro d hd
    rcases List.mem_cons.1 hd with rfl | hd
    · exact (first_char_facts cc _ h.1).2.1
    · have := h.2 d hd
      simp only [Bool.or_eq_true, beq_iff_eq] at this
      rcases this with h' | h'
      · exact h'
      · subst h'; rw [isWord_ascii cc _ (by decide)]; decide

theorem pIdentifier_escape (n : Str) (hn : ∀ c ∈ n, c < 1114112) (p : Nat) (rest : Str) (hp : Punct p) :
    pIdentifier cc (escapeParsable cc n ++ p :: rest) = some (n, p :: rest) := by
  obtain ⟨hps, hpw, _⟩ := punct_facts cc p hp
  unfold escapeParsable
  split
  · rename_i h
    obtain ⟨c, r, rfl, hc, hall⟩ := isParsable_words cc n h
    have hsp := (first_char_facts cc c hc).1
    simp only [pIdentifier, List.cons_append, skipWs_of_nonspace cc c _ hsp]
    have := spanWord_all cc (c :: r) p rest hall hpw
    simp only [List.cons_append] at this
    simp [pSimpleIdentifier, this, skipWs_of_nonspace cc p rest hps]
  · have h96s : cc.isSpace 96 = false := by rw [isSpace_ascii cc _ (by decide)]; decide
    have h96w : cc.isWord 96 = false := by rw [isWord_ascii cc _ (by decide)]; decide
    simp only [pIdentifier, List.cons_append, skipWs_of_nonspace cc 96 _ h96s]
    have hsimple : pSimpleIdentifier cc (96 :: (replaceBacktick (unicodeEscape n) ++ [96] ++ p :: rest)) = none := by
      simp [pSimpleIdentifier, spanWord, h96w]
    have hscan := scan_body n (p :: rest)
    simp only [List.append_assoc, List.cons_append, List.nil_append] at hsimple ⊢
    simp [hsimple, pEscapedIdentifier, hscan, unescapeParsable_escaped n hn, skipWs_of_nonspace cc p rest hps]

/-! ## decimal numerals -/

theorem natDigitsAux_acc (m : Nat) : ∀ f, m < f → ∀ acc, natDigitsAux f m acc = natDigitsAux (m + 1) m [] ++ acc := by
  induction m using Nat.strongRecOn with
  | _ m ih =>
    intro f hf acc
    cases f with
    | zero => omega
    | succ f =>
      by_cases h : m < 10
      · simp [natDigitsAux, h]
      · have hlt : m / 10 < m := by omega
        simp only [natDigitsAux, h, if_false]
        rw [ih (m / 10) hlt f (by omega), ih (m / 10) hlt m hlt [48 + m % 10]]
        simp

theorem natDigits_small (n : Nat) (h : n < 10) : natDigits n = [48 + n] := by
  simp [natDigits, natDigitsAux, h]

theorem natDigits_step (n : Nat) (h : ¬ n < 10) : natDigits n = natDigits (n / 10) ++ [48 + n % 10] := by
  have hlt : n / 10 < n := by omega
  unfold natDigits
  have : natDigitsAux (n + 1) n [] = natDigitsAux n (n / 10) [48 + n % 10] := by simp [natDigitsAux, h]
  rw [this, natDigitsAux_acc (n / 10) n hlt]

def digitsVal (a : Nat) (ds : Str) : Nat := ds.foldl (fun a d => a * 10 + (d - 48)) a

theorem natDigits_spec (n : Nat) :
    (∀ d ∈ natDigits n, asciiDigit d = true) ∧ digitsVal 0 (natDigits n) = n ∧ natDigits n ≠ [] := by
  induction n using Nat.strongRecOn with
  | _ n ih =>
    by_cases h : n < 10
    · rw [natDigits_small n h]
      refine ⟨?_, by simp [digitsVal], by simp⟩
      intro d hd
      simp only [List.mem_singleton] at hd
      subst hd
      simp only [asciiDigit, Bool.and_eq_true, decide_eq_true_eq]; omega
    · rw [natDigits_step n h]
      obtain ⟨h1, h2, _⟩ := ih (n / 10) (by omega)
      refine ⟨?_, ?_, by simp⟩
      · intro d hd
        rcases List.mem_append.1 hd with hd | hd
        · exact h1 d hd
        · simp only [List.mem_singleton] at hd
          subst hd
          simp only [asciiDigit, Bool.and_eq_true, decide_eq_true_eq]; omega
      · unfold digitsVal at h2 ⊢
        rw [List.foldl_append, h2]
        simp; omega

theorem spanDigits_digits (ds : Str) (hds : ∀ d ∈ ds, asciiDigit d = true) (tail : Str) (a : Nat) :
    spanDigits (ds ++ tail) a = spanDigits tail (digitsVal a ds) := by
  induction ds generalizing a with
  | nil => simp [digitsVal]
  | cons d ds ih =>
    simp only [List.cons_append, spanDigits, hds d (by simp), if_true]
    rw [ih (fun e he => hds e (by simp [he]))]
    simp [digitsVal]

theorem natDigits_head (n : Nat) : ∃ d r, natDigits n = d :: r ∧ asciiDigit d = true := by
  obtain ⟨h1, _, h3⟩ := natDigits_spec n
  cases h : natDigits n with
  | nil => exact absurd h h3
  | cons d r => exact ⟨d, r, rfl, h1 d (by simp [h])⟩

/-- `nat` of the grammar reads back the printed dimension count (followed by punctuation) -/
theorem pNat_natDigits (n : Nat) (p : Nat) (rest : Str) (hp : Punct p) :
    pNat cc (32 :: (natDigits n ++ p :: rest)) = some (n, p :: rest) := by
  obtain ⟨hps, _, hpd⟩ := punct_facts cc p hp
  obtain ⟨h1, h2, _⟩ := natDigits_spec n
  obtain ⟨d, r, hdr, hd⟩ := natDigits_head n
  have h32 : cc.isSpace 32 = true := by rw [isSpace_ascii cc _ (by decide)]; decide
  have hdlt : d < 128 := by simp only [asciiDigit, Bool.and_eq_true, decide_eq_true_eq] at hd; omega
  have hdsp : cc.isSpace d = false := by
    rw [isSpace_ascii cc _ hdlt]
    simp only [asciiDigit, Bool.and_eq_true, decide_eq_true_eq] at hd
    simp only [asciiSpace, Bool.or_eq_false_iff, Bool.and_eq_false_iff, decide_eq_false_iff_not, beq_eq_false_iff_ne]
    omega
  have hspan : spanDigits (natDigits n ++ p :: rest) 0 = (n, p :: rest) := by
    rw [spanDigits_digits _ h1, h2]; simp [spanDigits, hpd]
  unfold pNat
  simp only [skipWs, h32, if_true]
  rw [hdr] at hspan ⊢
  simp only [List.cons_append] at hspan ⊢
  rw [skipWs_of_nonspace cc d _ hdsp]
  simp only [hd, if_true, hspan]
  rw [skipWs_of_nonspace cc p rest hps]

/-! ## `dict(fields)` of distinct names -/

theorem dictSet_fresh (d : List (Str × HType)) (n : Str) (t : HType) (h : n ∉ d.map Prod.fst) :
    dictSet d n t = d ++ [(n, t)] := by
  induction d with
  | nil => rfl
  | cons p d ih =>
    obtain ⟨m, u⟩ := p
    simp only [List.map_cons, List.mem_cons, not_or] at h
    have hne : ¬ m = n := fun e => h.1 e.symm
    simp [dictSet, hne, ih h.2]

theorem foldl_dictSet (fs acc : List (Str × HType)) (h : (acc.map Prod.fst ++ fs.map Prod.fst).Nodup) :
    fs.foldl (fun d (p : Str × HType) => dictSet d p.1 p.2) acc = acc ++ fs := by
  induction fs generalizing acc with
  | nil => simp
  | cons p fs ih =>
    have hfresh : p.1 ∉ acc.map Prod.fst := by
      intro hm
      have := List.nodup_append.1 h
      exact this.2.2 _ hm _ (by simp) rfl
    simp only [List.foldl_cons]
    rw [dictSet_fresh acc p.1 p.2 hfresh, ih]
    · simp
    · simpa [List.append_assoc] using h

theorem dictOf_nodup (fs : List (Str × HType)) (h : (fs.map Prod.fst).Nodup) : dictOf fs = fs := by
  unfold dictOf
  rw [foldl_dictSet fs [] (by simpa using h)]
  rfl

end HailVerif.TypeStr

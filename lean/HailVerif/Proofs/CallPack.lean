import HailVerif.Model.CallPack
import Mathlib.Data.Nat.Sqrt
import Mathlib.Tactic.Ring
import Mathlib.Tactic.Linarith
/-! Helper lemmas for C34: triangular numbers, the integer square root inverse, bit packing on `Nat`. -/
namespace HailVerif.CallPack

/-! ### triangular numbers -/

theorem tri_even (k : Nat) : k * (k + 1) % 2 = 0 := by
  rw [Nat.mul_mod]
  rcases Nat.mod_two_eq_zero_or_one k with h | h
  · simp [h]
  · have : (k + 1) % 2 = 0 := by omega
    simp [this]

theorem two_mul_tri (k : Nat) : 2 * (k * (k + 1) / 2) = k * (k + 1) := by
  have := tri_even k; omega

theorem tri_succ (k : Nat) : (k + 1) * (k + 1 + 1) / 2 = k * (k + 1) / 2 + (k + 1) := by
  have h : (k + 1) * (k + 1 + 1) = k * (k + 1) + 2 * (k + 1) := by ring
  rw [h, Nat.add_mul_div_left _ _ (by decide : 0 < 2)]

theorem tri_mono {k k' : Nat} (h : k ≤ k') : k * (k + 1) / 2 ≤ k' * (k' + 1) / 2 := by
  induction h with
  | refl => exact Nat.le_refl _
  | step _ ih => rw [tri_succ]; omega

/-- the next triangular number bounds every index of row `k` -/
theorem tri_lt {k k' : Nat} (h : k < k') : k * (k + 1) / 2 + (k + 1) ≤ k' * (k' + 1) / 2 := by
  rw [← tri_succ]; exact tri_mono h

theorem gtIndex_lt_iff {j k j' k' : Nat} (hj : j ≤ k) (hj' : j' ≤ k') :
    gtIndex j k < gtIndex j' k' ↔ k < k' ∨ (k = k' ∧ j < j') := by
  unfold gtIndex
  constructor
  · intro h
    rcases Nat.lt_trichotomy k k' with hk | hk | hk
    · exact Or.inl hk
    · subst hk; right; exact ⟨rfl, by omega⟩
    · have := tri_lt hk; omega
  · rintro (hk | ⟨rfl, hjj⟩)
    · have := tri_lt hk; omega
    · omega

/-- `triRoot` inverts the triangular numbering: row `k` is `[T k, T k + k]`. -/
theorem triRoot_gtIndex {j k : Nat} (hj : j ≤ k) : triRoot (gtIndex j k) = k := by
  unfold triRoot gtIndex
  have h2 := two_mul_tri k
  have hn : 8 * (k * (k + 1) / 2 + j) + 1 = (2 * k + 1) * (2 * k + 1) + 8 * j := by
    have : 8 * (k * (k + 1) / 2 + j) = 4 * (2 * (k * (k + 1) / 2)) + 8 * j := by ring
    rw [this, h2]; ring
  have lo : 2 * k + 1 ≤ Nat.sqrt (8 * (k * (k + 1) / 2 + j) + 1) := by
    rw [Nat.le_sqrt, hn]; omega
  have hi : Nat.sqrt (8 * (k * (k + 1) / 2 + j) + 1) < 2 * k + 3 := by
    rw [Nat.sqrt_lt, hn]
    have : (2 * k + 3) * (2 * k + 3) = (2 * k + 1) * (2 * k + 1) + 8 * k + 8 := by ring
    omega
  omega

/-- every index lies in the row `triRoot` finds -/
theorem triRoot_spec (i : Nat) :
    triRoot i * (triRoot i + 1) / 2 ≤ i ∧ i - triRoot i * (triRoot i + 1) / 2 ≤ triRoot i := by
  have h2 := two_mul_tri (triRoot i)
  generalize hk : triRoot i = k at h2 ⊢
  unfold triRoot at hk
  have hs1 : Nat.sqrt (8 * i + 1) * Nat.sqrt (8 * i + 1) ≤ 8 * i + 1 := Nat.sqrt_le _
  have hs2 : 8 * i + 1 < (Nat.sqrt (8 * i + 1) + 1) * (Nat.sqrt (8 * i + 1) + 1) := Nat.lt_succ_sqrt _
  generalize Nat.sqrt (8 * i + 1) = s at hk hs1 hs2
  have hs0 : 1 ≤ s := by
    rcases Nat.eq_zero_or_pos s with h | h
    · subst h; omega
    · exact h
  have hlo : 2 * k + 1 ≤ s := by omega
  have hhi : s + 1 ≤ 2 * k + 3 := by omega
  have a1 : (2 * k + 1) * (2 * k + 1) ≤ s * s := Nat.mul_le_mul hlo hlo
  have a2 : (s + 1) * (s + 1) ≤ (2 * k + 3) * (2 * k + 3) := Nat.mul_le_mul hhi hhi
  have e1 : (2 * k + 1) * (2 * k + 1) = 4 * (k * (k + 1)) + 1 := by ring
  have e2 : (2 * k + 3) * (2 * k + 3) = 4 * (k * (k + 1)) + 8 * k + 9 := by ring
  omega

theorem gtIndex_allelePair (i : Nat) :
    (allelePair i).1 ≤ (allelePair i).2 ∧ gtIndex (allelePair i).1 (allelePair i).2 = i := by
  have := triRoot_spec i
  unfold allelePair gtIndex; simp only; omega

theorem allelePair_gtIndex {j k : Nat} (hj : j ≤ k) : allelePair (gtIndex j k) = (j, k) := by
  unfold allelePair
  rw [triRoot_gtIndex hj]
  unfold gtIndex
  ext <;> simp

/-- below the engine limit the row number fits 15 bits -/
theorem row_lt_of_lt {j k : Nat} (h : gtIndex j k < 2 ^ 29) : k < 32768 := by
  unfold gtIndex at h
  by_contra hc
  have hk : 32768 ≤ k := by omega
  have := tri_mono hk
  have e : 32768 * (32768 + 1) / 2 = 536887296 := by decide
  omega

/-! ### bit packing on `Nat` -/

theorem lor_shl3 (b r : Nat) (hb : b < 8) : b ||| (r <<< 3) = 8 * r + b := by
  have := Nat.shiftLeft_add_eq_or_of_lt (i := 3) (b := b) (by simpa using hb) r
  rw [Nat.or_comm, ← this, Nat.shiftLeft_eq]; omega

theorem lor_shl16 (j k : Nat) (hj : j < 65536) : j ||| (k <<< 16) = 65536 * k + j := by
  have := Nat.shiftLeft_add_eq_or_of_lt (i := 16) (b := j) (by simpa using hj) k
  rw [Nat.or_comm, ← this, Nat.shiftLeft_eq]; omega

theorem and_one (x : Nat) : x &&& 1 = x % 2 := Nat.and_two_pow_sub_one_eq_mod x 1
theorem and_three (x : Nat) : x &&& 3 = x % 4 := Nat.and_two_pow_sub_one_eq_mod x 2
theorem and_ffff (x : Nat) : x &&& 0xFFFF = x % 65536 := Nat.and_two_pow_sub_one_eq_mod x 16

theorem apJ_pack {j k : Nat} (hj : j < 65536) : apJ (j ||| (k <<< 16)) = j := by
  unfold apJ; rw [lor_shl16 j k hj, and_ffff]; omega

theorem apK_pack {j k : Nat} (hj : j < 65536) (hk : k < 65536) : apK (j ||| (k <<< 16)) = k := by
  unfold apK; rw [lor_shl16 j k hj, and_ffff, Nat.shiftRight_eq_div_pow]; omega

/-- the literal table is the triangular numbering of the pairs with `k ≤ 7` -/
theorem small_table : ∀ k, k ≤ 7 → ∀ j, j ≤ k →
    smallAllelePair[gtIndex j k]? = some (j ||| (k <<< 16)) := by decide

theorem small_lookup {j k : Nat} (hj : j ≤ k) (hlt : gtIndex j k < 36) :
    smallAllelePair[gtIndex j k]? = some (j ||| (k <<< 16)) := by
  have hk7 : k ≤ 7 := by
    by_contra hc
    have h8 : 8 ≤ k := by omega
    have := tri_mono h8
    have e : 8 * (8 + 1) / 2 = 36 := by decide
    unfold gtIndex at hlt; omega
  exact small_table k hk7 j hj

theorem gtAllelePair_gtIndex {j k : Nat} (hj : j ≤ k) (hk : k < 65536) :
    gtAllelePair (gtIndex j k) = some (j ||| (k <<< 16)) := by
  unfold gtAllelePair
  split
  next hlt =>
    have : smallAllelePair.length = 36 := by decide
    exact small_lookup hj (by omega)
  next =>
    unfold allelePairSqrt
    simp only [triRoot_gtIndex hj]
    have : k * (k + 1) / 2 ≤ gtIndex j k := by unfold gtIndex; omega
    rw [if_pos this]
    have e : gtIndex j k - k * (k + 1) / 2 = j := by unfold gtIndex; omega
    rw [e]; unfold allelePairPack
    rw [if_pos (by constructor <;> omega)]

/-! ### the packed word of an in-range call -/

/-- allele representation (bits 3..31) of a normalised call -/
def alleleReprOf (c : Call) : Nat :=
  match c.alleles, c.phased with
  | [a], _ => a
  | [j, k], false => gtIndex j k
  | [j, k], true => gtIndex j (j + k)
  | _, _ => 0

/-- the unsigned 32-bit word: phased bit, two ploidy bits, 29 bits of allele representation -/
def wordOf (c : Call) : Nat := 8 * alleleReprOf c + 2 * c.alleles.length + c.phased.toNat

theorem alleleReprOf_lt {c : Call} (h : InRange c) : alleleReprOf c < 2 ^ 29 := by
  rcases c with ⟨al, ph⟩
  match al, ph, h with
  | [], _, _ => simp [alleleReprOf]
  | [a], _, h => simpa [alleleReprOf, InRange] using h
  | [j, k], false, h => simpa [alleleReprOf, InRange] using h.2
  | [j, k], true, h => simpa [alleleReprOf, InRange] using h

theorem length_le_of_inRange {c : Call} (h : InRange c) : c.alleles.length ≤ 2 := by
  rcases c with ⟨al, ph⟩
  match al, ph, h with
  | [], _, _ => simp
  | [a], _, _ => simp
  | [j, k], _, _ => simp
  | _ :: _ :: _ :: _, _, h => simp [InRange] at h

theorem encodeRaw_inRange {c : Call} (h : InRange c) : encodeRaw c = some (wordOf c) := by
  rcases c with ⟨al, ph⟩
  match al, ph, h with
  | [], false, _ => rfl
  | [], true, _ => rfl
  | [a], false, _ =>
    simp only [encodeRaw, wordOf, alleleReprOf, List.length_cons, List.length_nil]
    rw [show tagBits (0 + 1) false = 2 from rfl]
    simp [lor_shl3 2 a (by omega)]
  | [a], true, _ =>
    simp only [encodeRaw, wordOf, alleleReprOf, List.length_cons, List.length_nil]
    rw [show tagBits (0 + 1) true = 3 from rfl]
    simp [lor_shl3 3 a (by omega)]
  | [j, k], false, h =>
    have hjk : j ≤ k := h.1
    simp only [encodeRaw, wordOf, alleleReprOf, allelePairRep, diploidGtIndex, List.length_cons,
      List.length_nil]
    rw [show tagBits (0 + 1 + 1) false = 4 from rfl]
    simp [hjk, lor_shl3 4 _ (by omega)]
  | [j, k], true, _ =>
    simp only [encodeRaw, wordOf, alleleReprOf, allelePairRep, diploidGtIndex, List.length_cons,
      List.length_nil]
    rw [show tagBits (0 + 1 + 1) true = 5 from rfl]
    simp [lor_shl3 5 _ (by omega)]

theorem tagBits_lt {p : Nat} (ph : Bool) (hp : p ≤ 2) : tagBits p ph < 6 := by
  have : p = 0 ∨ p = 1 ∨ p = 2 := by omega
  rcases this with rfl | rfl | rfl <;> cases ph <;> decide

theorem wordOf_lt {c : Call} (h : InRange c) : wordOf c < 2 ^ 32 := by
  have := alleleReprOf_lt h
  have := length_le_of_inRange h
  unfold wordOf; cases c.phased <;> simp <;> omega

/-- ploidy ≤ 2 keeps the two ploidy bits from being `11`, so the word is never `2^31 - 1`
(the one value the off-by-one bound of the Python wrap would send out of the int32 range) -/
theorem wordOf_ne {c : Call} (h : InRange c) : wordOf c ≠ 2 ^ 31 - 1 := by
  have := length_le_of_inRange h
  unfold wordOf; cases c.phased <;> simp <;> omega

theorem wrap_fits {r : Nat} (h : r < 2 ^ 32) (hne : r ≠ 2 ^ 31 - 1) :
    writeInt32 (wrapInt32 r) = some (wrapInt32 r) := by
  unfold writeInt32 wrapInt32
  split <;> rw [if_pos] <;> omega

theorem unwrap_wrap {r : Nat} (h : r < 2 ^ 32) :
    (if wrapInt32 r ≥ 0 then wrapInt32 r else wrapInt32 r + 2 ^ 32).toNat = r := by
  unfold wrapInt32
  split <;> split <;> omega

theorem encodeCall_inRange {c : Call} (h : InRange c) : encodeCall c = some (wrapInt32 (wordOf c)) := by
  unfold encodeCall
  rw [encodeRaw_inRange h]
  exact wrap_fits (wordOf_lt h) (wordOf_ne h)

theorem decode_word {c : Call} (h : InRange c) : decodeCall (wrapInt32 (wordOf c)) = some c := by
  unfold decodeCall
  simp only [unwrap_wrap (wordOf_lt h)]
  rcases c with ⟨al, ph⟩
  have hph : ∀ x : Nat, ((8 * x + ph.toNat) &&& 1 == 1) = ph ∧ ((8 * x + 2 + ph.toNat) &&& 1 == 1) = ph
      ∧ ((8 * x + 4 + ph.toNat) &&& 1 == 1) = ph := by
    intro x; simp only [and_one]; cases ph <;> simp <;> omega
  match al, ph, h with
  | [], ph, _ =>
    have e : wordOf ⟨[], ph⟩ = 8 * 0 + ph.toNat := by simp [wordOf, alleleReprOf]
    rw [e]
    have hp : ((8 * 0 + ph.toNat) >>> 1) &&& 3 = 0 := by
      rw [and_three, Nat.shiftRight_eq_div_pow]; cases ph <;> simp
    simp only [hp, if_true, (hph 0).1]
    simp [mkCall]
  | [a], ph, h =>
    have e : wordOf ⟨[a], ph⟩ = 8 * a + 2 + ph.toNat := by simp [wordOf, alleleReprOf]
    rw [e]
    have hp : ((8 * a + 2 + ph.toNat) >>> 1) &&& 3 = 1 := by
      rw [and_three, Nat.shiftRight_eq_div_pow]; cases ph <;> simp <;> omega
    have hr : (8 * a + 2 + ph.toNat) >>> 3 = a := by
      rw [Nat.shiftRight_eq_div_pow]; cases ph <;> simp <;> omega
    simp only [hp, (hph a).2.1, hr]
    simp [mkCall]
  | [j, k], false, h =>
    have hjk : j ≤ k := h.1
    have hk := row_lt_of_lt h.2
    have e : wordOf ⟨[j, k], false⟩ = 8 * gtIndex j k + 4 := by simp [wordOf, alleleReprOf]
    rw [e]
    have hp : ((8 * gtIndex j k + 4) >>> 1) &&& 3 = 2 := by
      rw [and_three, Nat.shiftRight_eq_div_pow]; omega
    have hr : (8 * gtIndex j k + 4) >>> 3 = gtIndex j k := by
      rw [Nat.shiftRight_eq_div_pow]; omega
    have hb : ((8 * gtIndex j k + 4) &&& 1 == 1) = false := by rw [and_one]; simp; omega
    simp only [hp, hb, callAllelePair, hr, gtAllelePair_gtIndex hjk (by omega)]
    simp [apJ_pack (show j < 65536 by omega) (k := k),
      apK_pack (show j < 65536 by omega) (show k < 65536 by omega), mkCall]
    omega
  | [j, k], true, h =>
    have hk := row_lt_of_lt h
    have e : wordOf ⟨[j, k], true⟩ = 8 * gtIndex j (j + k) + 4 + 1 := by simp [wordOf, alleleReprOf]
    rw [e]
    have hp : ((8 * gtIndex j (j + k) + 4 + 1) >>> 1) &&& 3 = 2 := by
      rw [and_three, Nat.shiftRight_eq_div_pow]; omega
    have hr : (8 * gtIndex j (j + k) + 4 + 1) >>> 3 = gtIndex j (j + k) := by
      rw [Nat.shiftRight_eq_div_pow]; omega
    have hb : ((8 * gtIndex j (j + k) + 4 + 1) &&& 1 == 1) = true := by rw [and_one]; simp; omega
    simp only [hp, hb, callAllelePair, hr, gtAllelePair_gtIndex (show j ≤ j + k by omega) (by omega)]
    simp [apJ_pack (show j < 65536 by omega) (k := j + k),
      apK_pack (show j < 65536 by omega) (show j + k < 65536 by omega), allelePairPack, mkCall]
    rw [if_pos (by constructor <;> omega)]
    simp [apJ_pack (show j < 65536 by omega) (k := k),
      apK_pack (show j < 65536 by omega) (show k < 65536 by omega)]

end HailVerif.CallPack

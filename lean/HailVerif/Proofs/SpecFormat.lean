import HailVerif.Model.SpecFormat
/-!
Specification side and helper lemmas for C15.

`SpecV` is the typed view of a job spec as the validator (`batch/front_end/validate.py`) plus the front end's own
additions leave it when `db_spec` is called: the fields `db_spec` reads, each with its "key absent" case.
`SpecV.toJ` is the Python dict.
-/
namespace HailVerif.SpecFormat

/-- one entry of `spec['secrets']`; `mountInCopy = none`: the key is absent (user-supplied secrets) -/
structure SecretV where
  ns : String
  name : String
  mountPath : String
  mountInCopy : Option Bool

structure SpecV where
  secrets : Option (List SecretV)              -- `none`: key absent
  serviceAccount : Option (String × String)    -- (namespace, name); `none`: key absent
  inputFiles : Option (List J)                 -- `none`: key absent; the elements are never read
  outputFiles : Option (List J)
  machineType : Option String                  -- `none`: key absent in `resources`
  preemptible : Bool
  storageGib : Int
  otherResources : List (String × J)           -- cores_mcpu, memory_bytes, req_cpu, … (never read)

def optEntry (k : String) (v : Option J) : List (String × J) :=
  match v with
  | some j => [(k, j)]
  | none => []

def SecretV.toJ (s : SecretV) : J :=
  .obj ([("namespace", .str s.ns), ("name", .str s.name), ("mount_path", .str s.mountPath)]
    ++ optEntry "mount_in_copy" (s.mountInCopy.map .bool))

def SpecV.resourcesJ (s : SpecV) : J :=
  .obj (optEntry "machine_type" (s.machineType.map .str)
    ++ [("preemptible", .bool s.preemptible), ("storage_gib", .int s.storageGib)] ++ s.otherResources)

/-- the spec as the Python dict handed to `db_spec` (`others`: job_id, process, env, … — keys `db_spec` never reads) -/
def SpecV.toJ (s : SpecV) (others : List (String × J)) : J :=
  .obj (optEntry "secrets" (s.secrets.map fun l => .arr (l.map SecretV.toJ))
    ++ optEntry "service_account" (s.serviceAccount.map fun p => .obj [("namespace", .str p.1), ("name", .str p.2)])
    ++ optEntry "input_files" (s.inputFiles.map .arr)
    ++ optEntry "output_files" (s.outputFiles.map .arr)
    ++ [("resources", s.resourcesJ)] ++ others)

/-! ### what the getters are expected to return -/

/-- a secret as the getter of a compact format returns it: all four keys, `mount_in_copy` a bool (absent ↦ False) -/
def SecretV.normalJ (s : SecretV) : J :=
  .obj [("namespace", .str s.ns), ("name", .str s.name), ("mount_path", .str s.mountPath),
    ("mount_in_copy", .bool (s.mountInCopy.getD false))]

/-- secrets: format 1 returns the stored field untouched (absent ↦ None, `[]` ↦ `[]`); formats ≥ 2 return the
normalised list, and **None when the list is absent or empty** -/
def expectedSecrets (v : Nat) (s : SpecV) : J :=
  if v = 1 then
    match s.secrets with
    | none => .null
    | some l => .arr (l.map SecretV.toJ)
  else
    match s.secrets with
    | none => .null
    | some [] => .null
    | some l => .arr (l.map SecretV.normalJ)

def expectedServiceAccount (s : SpecV) : J :=
  match s.serviceAccount with
  | none => .null
  | some p => .obj [("namespace", .str p.1), ("name", .str p.2)]

def expectedHasFiles (f : Option (List J)) : Bool :=
  match f with
  | none => false
  | some l => !l.isEmpty

/-- machine spec: only formats ≥ 5 store it; **None when `machine_type` is absent or the empty string** -/
def expectedMachineSpec (v : Nat) (s : SpecV) : J :=
  if v < 5 then .null
  else
    match s.machineType with
    | none => .null
    | some mt =>
      if mt = "" then .null
      else .obj [("machine_type", .str mt), ("preemptible", .bool s.preemptible), ("storage_gib", .int s.storageGib)]

/-- the keys `db_spec` reads do not occur among the other keys of the dict -/
def OthersOk (others : List (String × J)) : Prop :=
  others.lookup "secrets" = none ∧ others.lookup "service_account" = none ∧ others.lookup "input_files" = none ∧
    others.lookup "output_files" = none ∧ others.lookup "resources" = none

def ResourcesOk (s : SpecV) : Prop :=
  s.otherResources.lookup "machine_type" = none ∧ s.otherResources.lookup "preemptible" = none ∧
    s.otherResources.lookup "storage_gib" = none

/-! ### lemmas -/

theorem mapM_dbSecret (l : List SecretV) :
    (l.map SecretV.toJ).mapM dbSecret
      = some (l.map fun s => J.arr [.str s.ns, .str s.name, .str s.mountPath, .int (if s.mountInCopy.getD false then 1 else 0)]) := by
  induction l with
  | nil => rfl
  | cons s tl ih =>
    rw [List.map_cons, List.mapM_cons, ih]
    cases hm : s.mountInCopy with
    | none => simp [dbSecret, SecretV.toJ, J.key, J.getOr, J.toInt, optEntry, hm, List.lookup]
    | some b => cases b <;> simp [dbSecret, SecretV.toJ, J.key, J.getOr, J.toInt, optEntry, hm, List.lookup]

theorem mapM_secretOfDb (l : List SecretV) :
    (l.map fun s => J.arr [.str s.ns, .str s.name, .str s.mountPath, .int (if s.mountInCopy.getD false then 1 else 0)]).mapM secretOfDb
      = some (l.map SecretV.normalJ) := by
  induction l with
  | nil => rfl
  | cons s tl ih =>
    rw [List.map_cons, List.mapM_cons, ih]
    cases hm : s.mountInCopy.getD false <;>
      simp [secretOfDb, J.at, J.truthy, SecretV.normalJ, hm]

/-- the five lookups `db_spec` performs on the dict -/
theorem lookups (s : SpecV) (others : List (String × J)) (ho : OthersOk others) :
    (s.toJ others).get "secrets" = some ((s.secrets.map fun l => J.arr (l.map SecretV.toJ)).getD .null) ∧
    (s.toJ others).get "service_account"
      = some ((s.serviceAccount.map fun p => J.obj [("namespace", .str p.1), ("name", .str p.2)]).getD .null) ∧
    (s.toJ others).getOr "input_files" (.arr []) = some ((s.inputFiles.map J.arr).getD (.arr [])) ∧
    (s.toJ others).getOr "output_files" (.arr []) = some ((s.outputFiles.map J.arr).getD (.arr [])) ∧
    (s.toJ others).get "resources" = some s.resourcesJ := by
  obtain ⟨h1, h2, h3, h4, h5⟩ := ho
  obtain ⟨sec, sa, inf, outf, mt, pre, st, oth⟩ := s
  refine ⟨?_, ?_, ?_, ?_, ?_⟩ <;>
    cases sec <;> cases sa <;> cases inf <;> cases outf <;>
    simp [SpecV.toJ, J.get, J.getOr, optEntry, List.lookup, List.lookup_append, h1, h2, h3, h4, h5]

theorem resources_lookups (s : SpecV) (hr : ResourcesOk s) :
    s.resourcesJ.get "machine_type" = some ((s.machineType.map J.str).getD .null) ∧
    s.resourcesJ.key "preemptible" = some (.bool s.preemptible) ∧
    s.resourcesJ.key "storage_gib" = some (.int s.storageGib) := by
  obtain ⟨h1, h2, h3⟩ := hr
  obtain ⟨sec, sa, inf, outf, mt, pre, st, oth⟩ := s
  simp only at h1 h2 h3
  refine ⟨?_, ?_, ?_⟩ <;> cases mt <;>
    simp [SpecV.resourcesJ, J.get, J.getOr, J.key, optEntry, List.lookup, List.lookup_append, h1, h2, h3]

theorem hasFiles_eq (s : SpecV) (others : List (String × J)) (ho : OthersOk others) :
    hasFiles (s.toJ others) "input_files" = some (expectedHasFiles s.inputFiles) ∧
    hasFiles (s.toJ others) "output_files" = some (expectedHasFiles s.outputFiles) := by
  obtain ⟨_, _, h3, h4, _⟩ := lookups s others ho
  unfold hasFiles
  rw [h3, h4]
  constructor
  · cases s.inputFiles with
    | none => simp [J.len, expectedHasFiles]
    | some l => cases l <;> simp [J.len, expectedHasFiles]
  · cases s.outputFiles with
    | none => simp [J.len, expectedHasFiles]
    | some l => cases l <;> simp [J.len, expectedHasFiles]

/-- the compact form, computed -/
def compactSecrets (s : SpecV) : J :=
  match s.secrets with
  | none => .null
  | some [] => .arr []
  | some l => .arr (l.map fun s => J.arr [.str s.ns, .str s.name, .str s.mountPath, .int (if s.mountInCopy.getD false then 1 else 0)])

def compactServiceAccount (s : SpecV) : J :=
  match s.serviceAccount with
  | none => .null
  | some p => .arr [.str p.1, .str p.2]

def compactMachineSpec (s : SpecV) : J :=
  match s.machineType with
  | none => .null
  | some mt => if mt = "" then .null else .arr [.str mt, boolInt s.preemptible, .int s.storageGib]

theorem dbSpec_eq (v : Nat) (hv : v ≠ 1) (s : SpecV) (others : List (String × J)) (ho : OthersOk others)
    (hr : ResourcesOk s) :
    dbSpec v (s.toJ others) = some (.arr ([compactSecrets s, compactServiceAccount s, boolInt (expectedHasFiles s.inputFiles),
      boolInt (expectedHasFiles s.outputFiles)] ++ (if v < 5 then [] else [compactMachineSpec s]))) := by
  obtain ⟨h1, h2, _, _, h5⟩ := lookups s others ho
  obtain ⟨hf1, hf2⟩ := hasFiles_eq s others ho
  obtain ⟨r1, r2, r3⟩ := resources_lookups s hr
  unfold dbSpec
  simp only [hv, if_false, h1, h2, h5, hf1, hf2, r1, r2, r3, Option.bind_eq_bind, Option.some_bind, Option.pure_def]
  -- secrets
  have hsec : (if ((s.secrets.map fun l => J.arr (l.map SecretV.toJ)).getD .null).truthy = true then
        (do let xs ← ((s.secrets.map fun l => J.arr (l.map SecretV.toJ)).getD .null).elems
            let ys ← xs.mapM dbSecret
            pure (J.arr ys))
      else pure ((s.secrets.map fun l => J.arr (l.map SecretV.toJ)).getD .null)) = some (compactSecrets s) := by
    cases hs : s.secrets with
    | none => simp [J.truthy, compactSecrets, hs]
    | some l =>
      cases l with
      | nil => simp [J.truthy, compactSecrets, hs]
      | cons a tl =>
        simp only [Option.map_some, Option.getD_some, J.truthy, List.map_cons, List.isEmpty_cons, Bool.not_false, if_true,
          J.elems, Option.bind_eq_bind, Option.some_bind, Option.pure_def, compactSecrets, hs]
        have := mapM_dbSecret (a :: tl)
        rw [List.map_cons] at this
        rw [this]
        simp
  have hsa : (if ((s.serviceAccount.map fun p => J.obj [("namespace", .str p.1), ("name", .str p.2)]).getD .null).truthy = true then
        (do pure (J.arr [← ((s.serviceAccount.map fun p => J.obj [("namespace", .str p.1), ("name", .str p.2)]).getD .null).key "namespace",
                         ← ((s.serviceAccount.map fun p => J.obj [("namespace", .str p.1), ("name", .str p.2)]).getD .null).key "name"]))
      else pure ((s.serviceAccount.map fun p => J.obj [("namespace", .str p.1), ("name", .str p.2)]).getD .null))
        = some (compactServiceAccount s) := by
    cases hs : s.serviceAccount with
    | none => simp [J.truthy, compactServiceAccount, hs]
    | some p => simp [J.truthy, J.key, List.lookup, compactServiceAccount, hs]
  have hms : (if ((s.machineType.map J.str).getD .null).truthy = true then
        (do let preemptible ← (J.bool s.preemptible).toInt
            pure (J.arr [(s.machineType.map J.str).getD .null, .int preemptible, .int s.storageGib]))
      else pure J.null) = some (compactMachineSpec s) := by
    cases hm : s.machineType with
    | none => simp [J.truthy, compactMachineSpec, hm]
    | some mt =>
      by_cases he : mt = ""
      · simp [J.truthy, compactMachineSpec, hm, he]
      · simp [J.truthy, compactMachineSpec, hm, he, J.toInt, boolInt]
  simp only [Option.bind_eq_bind, Option.pure_def] at hsec hsa hms
  rw [hsec, hsa]
  simp only [Option.some_bind]
  rw [hms]
  simp only [Option.some_bind]
  split <;> simp

/-! ### region bit sets -/

theorem shift_and_one (bits k : Nat) : (((bits >>> k) &&& 1) != 0) = bits.testBit k := by
  unfold Nat.testBit
  rw [Nat.and_comm]

/-- invariant of the `regions_to_bits_rep` loop -/
theorem regionsToBits_spec (mapping : List (String × Nat))
    (hrange : ∀ p ∈ mapping, 1 ≤ p.2 ∧ p.2 ≤ 63) :
    ∀ (selected : List String) (acc : Nat), (∀ r ∈ selected, (mapping.lookup r).isSome) →
      ∃ b, selected.foldlM (fun result region => do
          let idx ← mapping.lookup region
          if idx < 64 then
            if idx = 0 then none
            else pure (result ||| (1 <<< (idx - 1)))
          else none) acc = some b ∧
        ∀ k, b.testBit k = (acc.testBit k || selected.any fun r => decide (mapping.lookup r = some (k + 1))) := by
  intro selected
  induction selected with
  | nil => intro acc _; exact ⟨acc, rfl, by simp⟩
  | cons r rs ih =>
    intro acc hsel
    have hr := hsel r (by simp)
    obtain ⟨idx, hidx⟩ := Option.isSome_iff_exists.1 hr
    have hmem : (r, idx) ∈ mapping := by
      have := List.lookup_eq_some_iff.1 hidx
      obtain ⟨l1, l2, h, _⟩ := this
      rw [h]; simp
    obtain ⟨h1, h63⟩ := hrange (r, idx) hmem
    simp only at h1 h63
    obtain ⟨b, hb, hbits⟩ := ih (acc ||| (1 <<< (idx - 1))) (fun x hx => hsel x (List.mem_cons_of_mem _ hx))
    refine ⟨b, ?_, ?_⟩
    · rw [List.foldlM_cons]
      simp only [hidx, Option.bind_eq_bind, Option.some_bind, show idx < 64 by omega, if_true, show ¬ idx = 0 by omega,
        if_false, Option.pure_def]
      exact hb
    · intro k
      rw [hbits k, Nat.testBit_or, Nat.one_shiftLeft, Nat.testBit_two_pow, List.any_cons, hidx]
      have : (decide (idx - 1 = k)) = decide (some idx = some (k + 1)) := by
        simp only [Option.some.injEq]
        by_cases h : idx - 1 = k
        · have : idx = k + 1 := by omega
          simp [h, this]
        · have : ¬ idx = k + 1 := by omega
          simp [h, this]
      rw [this, Bool.or_assoc]

theorem bitsToRegions_spec (bits : Nat) :
    ∀ (mapping : List (String × Nat)) (acc : List String), (∀ p ∈ mapping, 1 ≤ p.2) →
      mapping.foldlM (fun result (p : String × Nat) =>
          if p.2 = 0 then none
          else if ((bits >>> (p.2 - 1)) &&& 1) != 0 then pure (result ++ [p.1])
          else pure result) acc
        = some (acc ++ (mapping.filter fun p => bits.testBit (p.2 - 1)).map Prod.fst) := by
  intro mapping
  induction mapping with
  | nil => intro acc _; simp
  | cons p ps ih =>
    intro acc h
    have hp := h p (by simp)
    rw [List.foldlM_cons]
    simp only [show ¬ p.2 = 0 by omega, if_false, shift_and_one]
    by_cases hb : bits.testBit (p.2 - 1) = true
    · simp only [hb, if_true, Option.pure_def, Option.bind_eq_bind, Option.some_bind]
      rw [ih _ (fun q hq => h q (List.mem_cons_of_mem _ hq))]
      simp [List.filter_cons, hb]
    · simp only [hb, Bool.false_eq_true, if_false, Option.pure_def, Option.bind_eq_bind, Option.some_bind]
      rw [ih _ (fun q hq => h q (List.mem_cons_of_mem _ hq))]
      simp [List.filter_cons, hb]

end HailVerif.SpecFormat

import HailVerif.Model.SpecFormat
/-!
Specification side and helper lemmas for C15.

`SpecV` is the typed view of a job spec as the validator (`batch/front_end/validate.py`) plus the front end's own
additions leave it when `db_spec` is called: the fields `db_spec` reads, each with its "key absent" case.
`SpecV.toJ` is the Python dict.
-/
set_option linter.unusedSimpArgs false
namespace HailVerif.SpecFormat

/-- one entry of `spec['secrets']`; `mountInCopy = none`: the key is absent (user-supplied secrets) -/
structure SecretV where
  ns : String
  name : String
  mountPath : String
  mountInCopy : Option Bool

structure SpecV where
  secrets : Option (List SecretV)              -- `none`: key absent
  serviceAccount : Option (String × String)    -- (namespace, name); `none`: key absent
  inputFiles : Option (List J)                 -- `none`: key absent; the elements are never read
  outputFiles : Option (List J)
  machineType : Option String                  -- `none`: key absent in `resources`
  preemptible : Bool
  storageGib : Int
  otherResources : List (String × J)           -- cores_mcpu, memory_bytes, req_cpu, … (never read)

def optEntry (k : String) (v : Option J) : List (String × J) :=
  match v with
  | some j => [(k, j)]
  | none => []

def SecretV.toJ (s : SecretV) : J :=
  .obj ([("namespace", .str s.ns), ("name", .str s.name), ("mount_path", .str s.mountPath)]
    ++ optEntry "mount_in_copy" (s.mountInCopy.map .bool))

def SpecV.resourcesJ (s : SpecV) : J :=
  .obj (optEntry "machine_type" (s.machineType.map .str)
    ++ [("preemptible", .bool s.preemptible), ("storage_gib", .int s.storageGib)] ++ s.otherResources)

/-- the spec as the Python dict handed to `db_spec` (`others`: job_id, process, env, … — keys `db_spec` never reads) -/
def SpecV.toJ (s : SpecV) (others : List (String × J)) : J :=
  .obj (optEntry "secrets" (s.secrets.map fun l => .arr (l.map SecretV.toJ))
    ++ optEntry "service_account" (s.serviceAccount.map fun p => .obj [("namespace", .str p.1), ("name", .str p.2)])
    ++ optEntry "input_files" (s.inputFiles.map .arr)
    ++ optEntry "output_files" (s.outputFiles.map .arr)
    ++ [("resources", s.resourcesJ)] ++ others)

/-! ### what the getters are expected to return -/

/-- a secret as the getter of a compact format returns it: all four keys, `mount_in_copy` a bool (absent ↦ False) -/
def SecretV.normalJ (s : SecretV) : J :=
  .obj [("namespace", .str s.ns), ("name", .str s.name), ("mount_path", .str s.mountPath),
    ("mount_in_copy", .bool (s.mountInCopy.getD false))]

/-- secrets: format 1 returns the stored field untouched (absent ↦ None, `[]` ↦ `[]`); formats ≥ 2 return the
normalised list, and **None when the list is absent or empty** -/
def expectedSecrets (v : Nat) (s : SpecV) : J :=
  if v = 1 then
    match s.secrets with
    | none => .null
    | some l => .arr (l.map SecretV.toJ)
  else
    match s.secrets with
    | none => .null
    | some [] => .null
    | some l => .arr (l.map SecretV.normalJ)

def expectedServiceAccount (s : SpecV) : J :=
  match s.serviceAccount with
  | none => .null
  | some p => .obj [("namespace", .str p.1), ("name", .str p.2)]

def expectedHasFiles (f : Option (List J)) : Bool :=
  match f with
  | none => false
  | some l => !l.isEmpty

/-- machine spec: only formats ≥ 5 store it; **None when `machine_type` is absent or the empty string** -/
def expectedMachineSpec (v : Nat) (s : SpecV) : J :=
  if v < 5 then .null
  else
    match s.machineType with
    | none => .null
    | some mt =>
      if mt = "" then .null
      else .obj [("machine_type", .str mt), ("preemptible", .bool s.preemptible), ("storage_gib", .int s.storageGib)]

/-- the keys `db_spec` reads do not occur among the other keys of the dict -/
def OthersOk (others : List (String × J)) : Prop :=
  others.lookup "secrets" = none ∧ others.lookup "service_account" = none ∧ others.lookup "input_files" = none ∧
    others.lookup "output_files" = none ∧ others.lookup "resources" = none

def ResourcesOk (s : SpecV) : Prop :=
  s.otherResources.lookup "machine_type" = none ∧ s.otherResources.lookup "preemptible" = none ∧
    s.otherResources.lookup "storage_gib" = none

/-! ### lemmas -/

theorem mapM_dbSecret (l : List SecretV) :
    (l.map SecretV.toJ).mapM dbSecret
      = some (l.map fun s => J.arr [.str s.ns, .str s.name, .str s.mountPath, .int (if s.mountInCopy.getD false then 1 else 0)]) := by
  induction l with
  | nil => rfl
  | cons s tl ih =>
    rw [List.map_cons, List.mapM_cons, ih]
    cases hm : s.mountInCopy with
    | none => simp [dbSecret, SecretV.toJ, J.key, J.getOr, J.toInt, optEntry, hm, List.lookup]
    | some b => cases b <;> simp [dbSecret, SecretV.toJ, J.key, J.getOr, J.toInt, optEntry, hm, List.lookup]

theorem mapM_secretOfDb (l : List SecretV) :
    (l.map fun s => J.arr [.str s.ns, .str s.name, .str s.mountPath, .int (if s.mountInCopy.getD false then 1 else 0)]).mapM secretOfDb
      = some (l.map SecretV.normalJ) := by
  induction l with
  | nil => rfl
  | cons s tl ih =>
    rw [List.map_cons, List.mapM_cons, ih]
    cases hm : s.mountInCopy.getD false <;>
      simp [secretOfDb, J.at, J.truthy, SecretV.normalJ, hm]

/-- the five lookups `db_spec` performs on the dict -/
theorem lookups (s : SpecV) (others : List (String × J)) (ho : OthersOk others) :
    (s.toJ others).get "secrets" = some ((s.secrets.map fun l => J.arr (l.map SecretV.toJ)).getD .null) ∧
    (s.toJ others).get "service_account"
      = some ((s.serviceAccount.map fun p => J.obj [("namespace", .str p.1), ("name", .str p.2)]).getD .null) ∧
    (s.toJ others).getOr "input_files" (.arr []) = some ((s.inputFiles.map J.arr).getD (.arr [])) ∧
    (s.toJ others).getOr "output_files" (.arr []) = some ((s.outputFiles.map J.arr).getD (.arr [])) ∧
    (s.toJ others).get "resources" = some s.resourcesJ := by
  obtain ⟨h1, h2, h3, h4, h5⟩ := ho
  obtain ⟨sec, sa, inf, outf, mt, pre, st, oth⟩ := s
  refine ⟨?_, ?_, ?_, ?_, ?_⟩ <;>
    cases sec <;> cases sa <;> cases inf <;> cases outf <;>
    simp [SpecV.toJ, J.get, J.getOr, optEntry, List.lookup, List.lookup_append, h1, h2, h3, h4, h5]

theorem resources_lookups (s : SpecV) (hr : ResourcesOk s) :
    s.resourcesJ.get "machine_type" = some ((s.machineType.map J.str).getD .null) ∧
    s.resourcesJ.key "preemptible" = some (.bool s.preemptible) ∧
    s.resourcesJ.key "storage_gib" = some (.int s.storageGib) := by
  obtain ⟨h1, h2, h3⟩ := hr
  obtain ⟨sec, sa, inf, outf, mt, pre, st, oth⟩ := s
  simp only at h1 h2 h3
  refine ⟨?_, ?_, ?_⟩ <;> cases mt <;>
    simp [SpecV.resourcesJ, J.get, J.getOr, J.key, optEntry, List.lookup, List.lookup_append, h1, h2, h3]

theorem hasFiles_eq (s : SpecV) (others : List (String × J)) (ho : OthersOk others) :
    hasFiles (s.toJ others) "input_files" = some (expectedHasFiles s.inputFiles) ∧
    hasFiles (s.toJ others) "output_files" = some (expectedHasFiles s.outputFiles) := by
  obtain ⟨_, _, h3, h4, _⟩ := lookups s others ho
  unfold hasFiles
  rw [h3, h4]
  constructor
  · cases s.inputFiles with
    | none => simp [J.len, expectedHasFiles]
    | some l => cases l <;> simp [J.len, expectedHasFiles]
  · cases s.outputFiles with
    | none => simp [J.len, expectedHasFiles]
    | some l => cases l <;> simp [J.len, expectedHasFiles]

/-- the compact form, computed -/
def compactSecrets (s : SpecV) : J :=
  match s.secrets with
  | none => .null
  | some [] => .arr []
  | some l => .arr (l.map fun s => J.arr [.str s.ns, .str s.name, .str s.mountPath, .int (if s.mountInCopy.getD false then 1 else 0)])

def compactServiceAccount (s : SpecV) : J :=
  match s.serviceAccount with
  | none => .null
  | some p => .arr [.str p.1, .str p.2]

def compactMachineSpec (s : SpecV) : J :=
  match s.machineType with
  | none => .null
  | some mt => if mt = "" then .null else .arr [.str mt, boolInt s.preemptible, .int s.storageGib]

theorem dbSecrets_eq (s : SpecV) :
    dbSecrets ((s.secrets.map fun l => J.arr (l.map SecretV.toJ)).getD .null) = some (compactSecrets s) := by
  unfold dbSecrets compactSecrets
  cases hs : s.secrets with
  | none => simp [J.truthy]
  | some l =>
    cases l with
    | nil => simp [J.truthy]
    | cons a tl =>
      have := mapM_dbSecret (a :: tl)
      simp only [List.map_cons] at this
      simp [J.truthy, J.elems, this]

theorem dbServiceAccount_eq (s : SpecV) :
    dbServiceAccount ((s.serviceAccount.map fun p => J.obj [("namespace", .str p.1), ("name", .str p.2)]).getD .null)
      = some (compactServiceAccount s) := by
  unfold dbServiceAccount compactServiceAccount
  cases hs : s.serviceAccount with
  | none => simp [J.truthy]
  | some p => simp [J.truthy, J.key, List.lookup]

theorem dbMachineSpec_eq (s : SpecV) (hr : ResourcesOk s) : dbMachineSpec s.resourcesJ = some (compactMachineSpec s) := by
  obtain ⟨r1, r2, r3⟩ := resources_lookups s hr
  unfold dbMachineSpec compactMachineSpec
  rw [r1, r2, r3]
  cases hm : s.machineType with
  | none => simp [J.truthy]
  | some mt =>
    by_cases he : mt = ""
    · simp [J.truthy, he]
    · simp [J.truthy, he, J.toInt, boolInt]

theorem dbSpec_eq (v : Nat) (hv : v ≠ 1) (s : SpecV) (others : List (String × J)) (ho : OthersOk others)
    (hr : ResourcesOk s) :
    dbSpec v (s.toJ others) = some (.arr ([compactSecrets s, compactServiceAccount s, boolInt (expectedHasFiles s.inputFiles),
      boolInt (expectedHasFiles s.outputFiles)] ++ (if v < 5 then [] else [compactMachineSpec s]))) := by
  obtain ⟨h1, h2, _, _, h5⟩ := lookups s others ho
  obtain ⟨hf1, hf2⟩ := hasFiles_eq s others ho
  unfold dbSpec
  simp only [hv, if_false, h1, h2, h5, hf1, hf2, Option.bind_eq_bind, Option.bind_some, dbSecrets_eq, dbServiceAccount_eq,
    dbMachineSpec_eq s hr, Option.pure_def]
  split <;> simp

/-! ### region bit sets -/

theorem shift_and_one (bits k : Nat) : (((bits >>> k) &&& 1) != 0) = bits.testBit k := by
  unfold Nat.testBit
  rw [Nat.and_comm]

/-- invariant of the `regions_to_bits_rep` loop -/
theorem regionsToBits_spec (mapping : List (String × Nat))
    (hrange : ∀ p ∈ mapping, 1 ≤ p.2 ∧ p.2 ≤ 63) :
    ∀ (selected : List String) (acc : Nat), (∀ r ∈ selected, (mapping.lookup r).isSome) →
      ∃ b, selected.foldlM (toBitsStep mapping) acc = some b ∧
        ∀ k, b.testBit k = (acc.testBit k || selected.any fun r => decide (mapping.lookup r = some (k + 1))) := by
  intro selected
  induction selected with
  | nil => intro acc _; exact ⟨acc, rfl, by simp⟩
  | cons r rs ih =>
    intro acc hsel
    have hr := hsel r (by simp)
    obtain ⟨idx, hidx⟩ := Option.isSome_iff_exists.1 hr
    have hmem : (r, idx) ∈ mapping := by
      obtain ⟨l1, l2, h, _⟩ := List.lookup_eq_some_iff.1 hidx
      rw [h]; simp
    obtain ⟨h1, h63⟩ := hrange (r, idx) hmem
    simp only at h1 h63
    obtain ⟨b, hb, hbits⟩ := ih (acc ||| (1 <<< (idx - 1))) (fun x hx => hsel x (List.mem_cons_of_mem _ hx))
    have hstep : toBitsStep mapping acc r = some (acc ||| (1 <<< (idx - 1))) := by
      simp [toBitsStep, hidx, show idx < 64 by omega, show ¬ idx = 0 by omega]
    refine ⟨b, ?_, ?_⟩
    · rw [List.foldlM_cons, hstep]
      exact hb
    · intro k
      rw [hbits k, Nat.testBit_or, Nat.one_shiftLeft, Nat.testBit_two_pow, List.any_cons, hidx]
      have : (decide (idx - 1 = k)) = decide (some idx = some (k + 1)) := by
        simp only [Option.some.injEq]
        by_cases h : idx - 1 = k
        · have : idx = k + 1 := by omega
          simp [h, this]
        · have : ¬ idx = k + 1 := by omega
          simp [h, this]
      rw [this, Bool.or_assoc]

theorem bitsToRegions_spec (bits : Nat) :
    ∀ (mapping : List (String × Nat)) (acc : List String), (∀ p ∈ mapping, 1 ≤ p.2) →
      mapping.foldlM (toRegionsStep bits) acc
        = some (acc ++ (mapping.filter fun p => bits.testBit (p.2 - 1)).map Prod.fst) := by
  intro mapping
  induction mapping with
  | nil => intro acc _; simp
  | cons p ps ih =>
    intro acc h
    have hp := h p (by simp)
    have hrest := fun a => ih a (fun q hq => h q (List.mem_cons_of_mem _ hq))
    by_cases hb : bits.testBit (p.2 - 1) = true
    · have hstep : toRegionsStep bits acc p = some (acc ++ [p.1]) := by
        unfold toRegionsStep
        rw [if_neg (show ¬ p.2 = 0 by omega), shift_and_one, if_pos hb]; rfl
      rw [List.foldlM_cons, hstep]
      show List.foldlM (toRegionsStep bits) (acc ++ [p.1]) ps = _
      rw [hrest]
      simp [List.filter_cons, hb]
    · have hstep : toRegionsStep bits acc p = some acc := by
        unfold toRegionsStep
        rw [if_neg (show ¬ p.2 = 0 by omega), shift_and_one, if_neg hb]; rfl
      rw [List.foldlM_cons, hstep]
      show List.foldlM (toRegionsStep bits) acc ps = _
      rw [hrest]
      simp [List.filter_cons, hb]

theorem lookup_of_mem : ∀ (m : List (String × Nat)), (m.map Prod.fst).Nodup → ∀ p ∈ m, m.lookup p.1 = some p.2 := by
  intro m
  induction m with
  | nil => intro _ p hp; cases hp
  | cons q qs ih =>
    intro hk p hp
    simp only [List.map_cons, List.nodup_cons] at hk
    rcases List.mem_cons.1 hp with rfl | hp'
    · simp [List.lookup]
    · have hne : ¬ (p.1 = q.1) := fun e => hk.1 (e ▸ List.mem_map_of_mem (f := Prod.fst) hp')
      have hne' : (p.1 == q.1) = false := by simpa using hne
      rw [List.lookup_cons, hne']
      exact ih hk.2 p hp'

theorem mem_of_lookup {m : List (String × Nat)} {r : String} {i : Nat} (h : m.lookup r = some i) : (r, i) ∈ m := by
  obtain ⟨l1, l2, e, _⟩ := List.lookup_eq_some_iff.1 h
  rw [e]; simp

theorem eq_of_snd_eq : ∀ (m : List (String × Nat)), (m.map Prod.snd).Nodup → ∀ p ∈ m, ∀ q ∈ m, p.2 = q.2 → p = q := by
  intro m
  induction m with
  | nil => intro _ p hp; cases hp
  | cons x xs ih =>
    intro hn p hp q hq e
    simp only [List.map_cons, List.nodup_cons] at hn
    rcases List.mem_cons.1 hp with rfl | hp' <;> rcases List.mem_cons.1 hq with rfl | hq'
    · rfl
    · exact absurd (e ▸ List.mem_map_of_mem (f := Prod.snd) hq') hn.1
    · exact absurd (e ▸ List.mem_map_of_mem (f := Prod.snd) hp') hn.1
    · exact ih hn.2 p hp' q hq' e

theorem bits_roundtrip_aux (mapping : List (String × Nat)) (hkeys : (mapping.map Prod.fst).Nodup)
    (hinj : (mapping.map Prod.snd).Nodup) (hrange : ∀ p ∈ mapping, 1 ≤ p.2 ∧ p.2 ≤ 63)
    (selected : List String) (hsel : ∀ r ∈ selected, r ∈ mapping.map Prod.fst) :
    ∃ b, regionsToBits selected mapping = some b ∧ b < 2 ^ 63 ∧
      bitsToRegions b mapping = some ((mapping.map Prod.fst).filter (fun r => decide (r ∈ selected))) := by
  have hsome : ∀ r ∈ selected, (mapping.lookup r).isSome := by
    intro r hr
    obtain ⟨p, hp, rfl⟩ := List.mem_map.1 (hsel r hr)
    rw [lookup_of_mem mapping hkeys p hp]; rfl
  obtain ⟨b, hb, hbits⟩ := regionsToBits_spec mapping hrange selected 0 hsome
  refine ⟨b, hb, ?_, ?_⟩
  · apply Nat.lt_pow_two_of_testBit
    intro i hi
    rw [hbits i]
    simp only [Nat.zero_testBit, Bool.false_or, List.any_eq_false, decide_eq_true_eq]
    intro r _ hl
    have := (hrange _ (mem_of_lookup hl)).2
    simp only at this
    omega
  · unfold bitsToRegions
    rw [bitsToRegions_spec b mapping [] (fun p hp => (hrange p hp).1), List.nil_append, List.filter_map]
    congr 2
    apply List.filter_congr
    intro p hp
    have h1 := (hrange p hp).1
    simp only [Function.comp]
    rw [hbits (p.2 - 1)]
    simp only [Nat.zero_testBit, Bool.false_or, show p.2 - 1 + 1 = p.2 by omega]
    by_cases hm : p.1 ∈ selected
    · simp only [hm, decide_true, List.any_eq_true, decide_eq_true_eq]
      exact ⟨p.1, hm, lookup_of_mem mapping hkeys p hp⟩
    · simp only [hm, decide_false, List.any_eq_false, decide_eq_true_eq]
      intro r hr hl
      have := eq_of_snd_eq mapping hinj (r, p.2) (mem_of_lookup hl) p hp rfl
      exact hm (by rw [← this]; exact hr)

theorem mapM_zip {α β : Type} (f : α → Option β) : ∀ (xs : List α) (ys : List β), xs.mapM f = some ys →
    ys.length = xs.length ∧ ∀ p ∈ xs.zip ys, f p.1 = some p.2 := by
  intro xs
  induction xs with
  | nil => intro ys h; simp at h; subst h; simp
  | cons x xs ih =>
    intro ys h
    rw [List.mapM_cons] at h
    cases hx : f x with
    | none => simp [hx] at h
    | some y =>
      cases hxs : xs.mapM f with
      | none => simp [hx, hxs] at h
      | some ys' =>
        simp [hx, hxs] at h
        subst h
        obtain ⟨hl, hz⟩ := ih ys' hxs
        refine ⟨by simp [hl], ?_⟩
        intro p hp
        simp only [List.zip_cons_cons, List.mem_cons] at hp
        rcases hp with rfl | hp
        · exact hx
        · exact hz p hp

end HailVerif.SpecFormat

import HailVerif.Model.MatrixType
import HailVerif.Proofs.TableType
/-! # Keys of the MatrixTable type transformers (C36) -/
namespace HailVerif.MatrixType
open HailVerif.TableType

theorem withFields_keys (m : MType) (a : Axis) (fs : FieldList) :
    (withFields m a fs).colKey = m.colKey ∧ (withFields m a fs).rowKey = m.rowKey := by
  cases a <;> exact ⟨rfl, rfl⟩

theorem annotate_keys {m m' : MType} {a : Axis} {named : FieldList} (h : annotate m a named = some m') :
    m'.colKey = m.colKey ∧ m'.rowKey = m.rowKey := by
  unfold annotate at h
  split at h
  · simp at h
  · simp only [Option.some.injEq] at h; subst h; exact withFields_keys _ _ _

theorem select_keys {m m' : MType} {a : Axis} {keep : List String} {named : FieldList} (h : select m a keep named = some m') :
    m'.colKey = m.colKey ∧ m'.rowKey = m.rowKey := by
  unfold select at h
  simp only [] at h
  split at h
  · simp at h
  · split at h
    · simp at h
    · simp only [Option.some.injEq] at h; subst h; exact withFields_keys _ _ _

/-- `key_cols_by(*fields)` — also with no field at all — sets the column key to exactly `fields`; the column table and the
entries table are keyed accordingly -/
theorem keyColsBy_spec {m m' : MType} {fields : List String} (h : keyColsBy m fields = some m') :
    m'.colKey = fields ∧ m'.rowKey = m.rowKey ∧ m'.col = m.col ∧ (colsTable m').key = fields ∧
      (entriesTable m').key = m.rowKey ++ fields := by
  unfold keyColsBy at h
  split at h
  · simp at h
  · simp only [Option.some.injEq] at h; subst h; exact ⟨rfl, rfl, rfl, rfl, rfl⟩

theorem keyRowsBy_spec {m m' : MType} {fields : List String} (h : keyRowsBy m fields = some m') :
    m'.rowKey = fields ∧ m'.row = m.row ∧ m'.colKey = m.colKey ∧ (rowsTable m').key = fields := by
  unfold keyRowsBy at h
  split at h
  · simp at h
  · simp only [Option.some.injEq] at h; subst h; exact ⟨rfl, rfl, rfl, rfl⟩

theorem unionCols_keeps {l r m : MType} (h : unionCols l r = some m) :
    m.rowKey = l.rowKey ∧ m.colKey = l.colKey ∧ m.col = l.col ∧ m.entry = l.entry ∧ m.globals = l.globals := by
  unfold unionCols unionColsWith at h
  simp only [] at h
  split at h
  · simp at h
  · split at h
    · simp at h
    · simp only [concatPy, Option.map_some, Option.some.injEq] at h; subst h; exact ⟨rfl, rfl, rfl, rfl, rfl⟩

theorem filterMap_key_subset (row : FieldList) (ks : List String) :
    ∀ n ∈ names (ks.filterMap fun k => (lookupF row k).map fun ty => (k, ty)), n ∈ names row := by
  intro n hn
  simp only [names, List.mem_map, List.mem_filterMap, Option.map_eq_some_iff] at hn
  obtain ⟨p, ⟨k, _, ty, hty, rfl⟩, rfl⟩ := hn
  exact lookupF_mem hty

/-- **the emitted `MatrixUnionCols` is well typed, with the row type the `MatrixTable` reports**: after the renaming the right
value fields have fresh, pairwise distinct names, so the engine's strict concatenation succeeds and equals the dict update -/
theorem unionColsStrict_eq (l r : MType) : unionColsStrict l r = unionCols l r := by
  unfold unionColsStrict unionCols unionColsWith
  simp only []
  split
  · rfl
  · split
    · rfl
    · rename_i new hnew
      obtain ⟨hl, hn, hf⟩ := dedupAll_spec _ _ _ hnew
      have e : names (renameFields (r.row.filter fun p => !r.rowKey.contains p.1) new) = new :=
        names_renameFields _ _ (by simp only [names, List.length_map] at hl; omega)
      rw [concat_agree (by rw [e]; exact hn)]
      intro n hm h
      rw [e] at hm
      apply hf n hm
      simp only [List.mem_append]
      refine Or.inl (Or.inr ?_)
      simp only [names, List.map_append, List.mem_append] at h
      rcases h with h | h
      · exact filterMap_key_subset l.row l.rowKey n h
      · simp only [List.mem_map, List.mem_filter] at h
        obtain ⟨p, ⟨hp, _⟩, rfl⟩ := h
        exact List.mem_map.2 ⟨p, hp, rfl⟩

end HailVerif.MatrixType

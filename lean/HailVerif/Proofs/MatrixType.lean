import HailVerif.Model.MatrixType
/-! # Keys of the MatrixTable type transformers (C36) -/
namespace HailVerif.MatrixType
open HailVerif.TableType

theorem withFields_keys (m : MType) (a : Axis) (fs : FieldList) :
    (withFields m a fs).colKey = m.colKey ∧ (withFields m a fs).rowKey = m.rowKey := by
  cases a <;> exact ⟨rfl, rfl⟩

theorem annotate_keys {m m' : MType} {a : Axis} {named : FieldList} (h : annotate m a named = some m') :
    m'.colKey = m.colKey ∧ m'.rowKey = m.rowKey := by
  unfold annotate at h
  split at h
  · simp at h
  · simp only [Option.some.injEq] at h; subst h; exact withFields_keys _ _ _

theorem select_keys {m m' : MType} {a : Axis} {keep : List String} {named : FieldList} (h : select m a keep named = some m') :
    m'.colKey = m.colKey ∧ m'.rowKey = m.rowKey := by
  unfold select at h
  simp only [] at h
  split at h
  · simp at h
  · split at h
    · simp at h
    · simp only [Option.some.injEq] at h; subst h; exact withFields_keys _ _ _

/-- `key_cols_by(*fields)` — also with no field at all — sets the column key to exactly `fields`; the column table and the
entries table are keyed accordingly -/
theorem keyColsBy_spec {m m' : MType} {fields : List String} (h : keyColsBy m fields = some m') :
    m'.colKey = fields ∧ m'.rowKey = m.rowKey ∧ m'.col = m.col ∧ (colsTable m').key = fields ∧
      (entriesTable m').key = m.rowKey ++ fields := by
  unfold keyColsBy at h
  split at h
  · simp at h
  · simp only [Option.some.injEq] at h; subst h; exact ⟨rfl, rfl, rfl, rfl, rfl⟩

theorem keyRowsBy_spec {m m' : MType} {fields : List String} (h : keyRowsBy m fields = some m') :
    m'.rowKey = fields ∧ m'.row = m.row ∧ m'.colKey = m.colKey ∧ (rowsTable m').key = fields := by
  unfold keyRowsBy at h
  split at h
  · simp at h
  · simp only [Option.some.injEq] at h; subst h; exact ⟨rfl, rfl, rfl, rfl⟩

theorem unionCols_keeps {l r m : MType} (h : unionCols l r = some m) :
    m.rowKey = l.rowKey ∧ m.colKey = l.colKey ∧ m.col = l.col ∧ m.entry = l.entry ∧ m.globals = l.globals := by
  unfold unionCols at h
  simp only [] at h
  split at h
  · simp at h
  · split at h
    · simp at h
    · simp only [Option.some.injEq] at h; subst h; exact ⟨rfl, rfl, rfl, rfl, rfl⟩

end HailVerif.MatrixType

import HailVerif.Model.Cache
/-! Helper lemmas for C26: reachable states of `Cache.step` and the invariant they all satisfy. -/
namespace HailVerif.Cache

/-- states (with the trace that led to them) reachable from the empty cache by atomic blocks of the current code -/
inductive Reach (cfg : Config) : State → List Ev → Prop
  | init : Reach cfg init []
  | step {s tr op s' e} : Reach cfg s tr → step cfg s op = some (s', e) → Reach cfg s' (tr ++ e)

/-! ### entries -/

theorem findKey_none {k : Nat} : ∀ {l : List Entry}, findKey k l = none ↔ k ∉ ekeys l
  | [] => by simp [findKey, ekeys]
  | e :: r => by
    have ih := @findKey_none k r
    simp only [findKey, ekeys, List.map_cons, List.mem_cons, not_or] at *
    split
    · next h => simp [h]
    · next h => rw [ih]; constructor
                · intro h2; exact ⟨fun h3 => h h3.symm, h2⟩
                · intro h2; exact h2.2

theorem findKey_some {k : Nat} {e : Entry} : ∀ {l : List Entry}, findKey k l = some e → e ∈ l ∧ e.key = k
  | [] => by simp [findKey]
  | x :: r => by
    intro h
    simp only [findKey] at h
    split at h
    · next hk => simp at h; subst h; simp [hk]
    · have := findKey_some h; simp [this]

theorem removeKey_sublist (k : Nat) : ∀ (l : List Entry), (removeKey k l).Sublist l
  | [] => by simp [removeKey]
  | x :: r => by
    simp only [removeKey]
    split
    · exact List.sublist_cons_self x r
    · exact (removeKey_sublist k r).cons_cons x

theorem removeKey_length {k : Nat} : ∀ {l : List Entry}, k ∈ ekeys l → (removeKey k l).length + 1 = l.length
  | [] => by simp [ekeys]
  | x :: r => by
    intro h
    simp only [removeKey]
    split
    · simp
    · next hk =>
      have : k ∈ ekeys r := by
        simp only [ekeys, List.map_cons, List.mem_cons] at h
        rcases h with h | h
        · exact absurd h.symm hk
        · exact h
      have := removeKey_length this
      simp; omega

theorem ekeys_sublist {a b : List Entry} (h : a.Sublist b) : (ekeys a).Sublist (ekeys b) := h.map _

theorem removeKey_not_mem {k : Nat} : ∀ {l : List Entry}, (ekeys l).Nodup → k ∉ ekeys (removeKey k l)
  | [] => by simp [removeKey, ekeys]
  | x :: r => by
    intro h
    simp only [ekeys, List.map_cons, List.nodup_cons] at h
    simp only [removeKey]
    split
    · next hk => subst hk; exact h.1
    · next hk =>
      have := removeKey_not_mem (k := k) h.2
      simp only [ekeys, List.map_cons, List.mem_cons, not_or]
      exact ⟨fun h3 => hk h3.symm, this⟩

theorem insertByExpiry_perm (e : Entry) : ∀ (l : List Entry), (insertByExpiry e l).Perm (e :: l)
  | [] => by simp [insertByExpiry]
  | x :: r => by
    simp only [insertByExpiry]
    split
    · exact ((insertByExpiry_perm e r).cons x).trans (List.Perm.swap e x r)
    · exact List.Perm.refl _

theorem expire_sublist (k now : Nat) (l : List Entry) : (expire k now l).1.Sublist l := by
  unfold expire
  split
  · split
    · exact removeKey_sublist k l
    · exact List.Sublist.refl l
  · exact List.Sublist.refl l

/-- an entry found after the expiry test is not expired -/
theorem expire_fresh {k now : Nat} {l : List Entry} {e : Entry} (hn : (ekeys l).Nodup)
    (h : findKey k (expire k now l).1 = some e) : e ∈ l ∧ e.key = k ∧ now < e.expiry := by
  unfold expire at h
  split at h
  · next e0 h0 =>
    split at h
    · have := removeKey_not_mem (k := k) hn
      rw [← findKey_none] at this
      simp [this] at h
    · next hexp =>
      simp only at h
      rw [h0] at h
      simp at h; subst h
      have := findKey_some h0
      exact ⟨this.1, this.2, by omega⟩
  · next h0 => simp only at h; rw [h0] at h; simp at h

theorem evictIfOver_sublist (slots : Nat) (l : List Entry) : (evictIfOver slots l).1.Sublist l := by
  unfold evictIfOver
  split
  · split
    · exact List.Sublist.refl _
    · exact removeKey_sublist _ _
  · exact List.Sublist.refl l

theorem evictIfOver_length {slots : Nat} {l : List Entry} (h : l.length ≤ slots + 1) :
    (evictIfOver slots l).1.length ≤ slots := by
  cases l with
  | nil => simp [evictIfOver]
  | cons x r =>
    unfold evictIfOver
    split
    · have := removeKey_length (k := x.key) (l := x :: r) (by simp [ekeys])
      simp at h this ⊢; omega
    · simp only; omega

/-! ### in-flight loads -/

theorem waitersOf_none {k : Nat} : ∀ {l : List (Nat × List Nat)}, waitersOf k l = none ↔ k ∉ ikeys l
  | [] => by simp [waitersOf, ikeys]
  | (k', ws) :: r => by
    have ih := @waitersOf_none k r
    simp only [waitersOf, ikeys, List.map_cons, List.mem_cons, not_or] at *
    split
    · next h => simp [h]
    · next h => rw [ih]; constructor
                · intro h2; exact ⟨fun h3 => h h3.symm, h2⟩
                · intro h2; exact h2.2

theorem waitersOf_some_mem {k : Nat} {ws : List Nat} {l : List (Nat × List Nat)} (h : waitersOf k l = some ws) :
    k ∈ ikeys l := by
  apply Classical.byContradiction
  intro hn
  rw [← waitersOf_none] at hn
  simp [hn] at h

theorem ikeys_addWaiter (k c : Nat) : ∀ (l : List (Nat × List Nat)), ikeys (addWaiter k c l) = ikeys l
  | [] => rfl
  | (k', ws) :: r => by
    simp only [addWaiter]
    split
    · simp [ikeys]
    · have := ikeys_addWaiter k c r
      simp only [ikeys, List.map_cons] at *
      rw [this]

theorem ikeys_removeWaiter (c : Nat) : ∀ (l : List (Nat × List Nat)), ikeys (removeWaiter c l) = ikeys l
  | [] => rfl
  | (k', ws) :: r => by
    have := ikeys_removeWaiter c r
    simp only [removeWaiter, ikeys, List.map_cons] at *
    rw [this]

theorem dropKey_sublist (k : Nat) : ∀ (l : List (Nat × List Nat)), (dropKey k l).Sublist l
  | [] => by simp [dropKey]
  | (k', ws) :: r => by
    simp only [dropKey]
    split
    · exact List.sublist_cons_self _ r
    · exact (dropKey_sublist k r).cons_cons _

theorem mem_ikeys_dropKey {k k' : Nat} : ∀ {l : List (Nat × List Nat)}, (ikeys l).Nodup →
    (k' ∈ ikeys (dropKey k l) ↔ k' ∈ ikeys l ∧ k' ≠ k)
  | [] => by simp [dropKey, ikeys]
  | (k1, ws) :: r => by
    intro h
    simp only [ikeys, List.map_cons, List.nodup_cons] at h
    have ih := mem_ikeys_dropKey (k := k) (k' := k') h.2
    simp only [dropKey]
    split
    · next hk =>
      subst hk
      simp only [ikeys, List.map_cons, List.mem_cons] at *
      constructor
      · intro h2; exact ⟨Or.inr h2, fun h3 => h.1 (h3 ▸ h2)⟩
      · intro h2; rcases h2.1 with h3 | h3
        · exact absurd h3 h2.2
        · exact h3
    · next hk =>
      simp only [ikeys, List.map_cons, List.mem_cons] at *
      rw [ih]
      constructor
      · intro h2; rcases h2 with h2 | h2
        · exact ⟨Or.inl h2, fun h3 => hk (h2 ▸ h3)⟩
        · exact ⟨Or.inr h2.1, h2.2⟩
      · intro h2; rcases h2.1 with h3 | h3
        · exact Or.inl h3
        · exact Or.inr ⟨h3, h2.2⟩

theorem waitersOf_dropKey {k k' : Nat} (hne : k' ≠ k) : ∀ (l : List (Nat × List Nat)),
    waitersOf k' (dropKey k l) = waitersOf k' l
  | [] => rfl
  | (k1, ws) :: r => by
    simp only [dropKey]
    split
    · next hk => subst hk; simp [waitersOf, Ne.symm hne]
    · simp only [waitersOf]; rw [waitersOf_dropKey hne r]

theorem waitersOf_addWaiter (k c k' : Nat) : ∀ (l : List (Nat × List Nat)),
    waitersOf k' (addWaiter k c l) = if k' = k then (waitersOf k l).map (· ++ [c]) else waitersOf k' l
  | [] => by simp [addWaiter, waitersOf]
  | (k1, ws) :: r => by
    have ih := waitersOf_addWaiter k c k' r
    simp only [addWaiter]
    split
    · next hk =>
      subst hk
      simp only [waitersOf]
      split
      · next h2 => subst h2; simp
      · next h2 => simp [Ne.symm h2]
    · next hk =>
      simp only [waitersOf]
      split
      · next h2 => subst h2; simp [hk]
      · next h2 =>
        rw [ih]

theorem waitersOf_append (k c k' : Nat) : ∀ (l : List (Nat × List Nat)),
    waitersOf k' (l ++ [(k, [c])]) = match waitersOf k' l with
      | some ws => some ws
      | none => if k = k' then some [c] else none
  | [] => by simp [waitersOf]
  | (k1, ws) :: r => by
    have ih := waitersOf_append k c k' r
    simp only [List.cons_append, waitersOf]
    split
    · rfl
    · exact ih

theorem waitersOf_removeWaiter (c k : Nat) : ∀ (l : List (Nat × List Nat)),
    waitersOf k (removeWaiter c l) = (waitersOf k l).map (·.filter (· ≠ c))
  | [] => by simp [removeWaiter, waitersOf]
  | (k1, ws) :: r => by
    have ih := waitersOf_removeWaiter c k r
    simp only [removeWaiter, waitersOf]
    split
    · simp
    · exact ih

/-- `awaited` returns a key whose waiter list contains the caller -/
theorem awaited_some {c k : Nat} : ∀ {l : List (Nat × List Nat)}, awaited c l = some k →
    ∃ ws, (k, ws) ∈ l ∧ c ∈ ws
  | [] => by simp [awaited]
  | (k1, ws) :: r => by
    intro h
    simp only [awaited] at h
    split at h
    · next hc => simp at h; subst h; exact ⟨ws, by simp, hc⟩
    · obtain ⟨ws', h1, h2⟩ := awaited_some h
      exact ⟨ws', by simp [h1], h2⟩

theorem awaited_none {c : Nat} : ∀ {l : List (Nat × List Nat)}, awaited c l = none → ∀ k ws, (k, ws) ∈ l → c ∉ ws
  | [] => by simp
  | (k1, ws1) :: r => by
    intro h k ws hm
    simp only [awaited] at h
    split at h
    · simp at h
    · next hc =>
      simp only [List.mem_cons, Prod.mk.injEq] at hm
      rcases hm with ⟨_, rfl⟩ | hm
      · exact hc
      · exact awaited_none h k ws hm

theorem waitersOf_mem {k : Nat} {ws : List Nat} : ∀ {l : List (Nat × List Nat)}, waitersOf k l = some ws → (k, ws) ∈ l
  | [] => by simp [waitersOf]
  | (k1, ws1) :: r => by
    intro h
    simp only [waitersOf] at h
    split at h
    · next hk => simp at h; subst h; subst hk; simp
    · simp [waitersOf_mem h]

theorem mem_waitersOf {k : Nat} {ws : List Nat} : ∀ {l : List (Nat × List Nat)}, (ikeys l).Nodup → (k, ws) ∈ l →
    waitersOf k l = some ws
  | [] => by simp
  | (k1, ws1) :: r => by
    intro hn hm
    simp only [ikeys, List.map_cons, List.nodup_cons] at hn
    simp only [List.mem_cons, Prod.mk.injEq] at hm
    simp only [waitersOf]
    rcases hm with ⟨rfl, rfl⟩ | hm
    · simp
    · split
      · next hk =>
        subst hk
        exact absurd (List.mem_map_of_mem (f := (·.1)) hm) hn.1
      · exact mem_waitersOf hn.2 hm

/-! ### counting loads in traces -/

theorem nStarted_append (k : Nat) : ∀ (a b : List Ev), nStarted k (a ++ b) = nStarted k a + nStarted k b
  | [], b => by simp [nStarted]
  | x :: a, b => by
    have := nStarted_append k a b
    cases x <;> simp [nStarted, this] <;> omega

theorem nFinished_append (k : Nat) : ∀ (a b : List Ev), nFinished k (a ++ b) = nFinished k a + nFinished k b
  | [], b => by simp [nFinished]
  | x :: a, b => by
    have := nFinished_append k a b
    cases x <;> simp [nFinished, this] <;> omega

theorem nStarted_map_loaded (k k' : Nat) (v : Val) (t : Nat) : ∀ (ws : List Nat), nStarted k (ws.map fun c => Ev.loaded c k' v t) = 0
  | [] => rfl
  | _ :: r => by simp [nStarted, nStarted_map_loaded k k' v t r]

theorem nFinished_map_loaded (k k' : Nat) (v : Val) (t : Nat) : ∀ (ws : List Nat), nFinished k (ws.map fun c => Ev.loaded c k' v t) = 0
  | [] => rfl
  | _ :: r => by simp [nFinished, nFinished_map_loaded k k' v t r]

theorem nStarted_map_failed (k k' : Nat) : ∀ (ws : List Nat), nStarted k (ws.map fun c => Ev.failed c k') = 0
  | [] => rfl
  | _ :: r => by simp [nStarted, nStarted_map_failed k k' r]

theorem nFinished_map_failed (k k' : Nat) : ∀ (ws : List Nat), nFinished k (ws.map fun c => Ev.failed c k') = 0
  | [] => rfl
  | _ :: r => by simp [nFinished, nFinished_map_failed k k' r]

theorem expire_counts (k k' now : Nat) (l : List Entry) :
    nStarted k' (expire k now l).2 = 0 ∧ nFinished k' (expire k now l).2 = 0 := by
  unfold expire
  split
  · split <;> simp [nStarted, nFinished]
  · simp [nStarted, nFinished]

theorem evict_counts (slots k' : Nat) (l : List Entry) :
    nStarted k' (evictIfOver slots l).2 = 0 ∧ nFinished k' (evictIfOver slots l).2 = 0 := by
  unfold evictIfOver
  split
  · split <;> simp [nStarted, nFinished]
  · simp [nStarted, nFinished]

theorem expire_events (k now : Nat) (l : List Entry) : ∀ x ∈ (expire k now l).2, x = Ev.expired k := by
  intro x; unfold expire; split
  · split <;> simp
  · simp

theorem evict_events (slots : Nat) (l : List Entry) : ∀ x ∈ (evictIfOver slots l).2, ∃ k, x = Ev.evicted k := by
  intro x; unfold evictIfOver; split
  · split
    · simp
    · simp only [List.mem_singleton]; intro h; exact ⟨_, h⟩
  · simp

/-! ### the invariant -/

structure Inv (cfg : Config) (s : State) (tr : List Ev) : Prop where
  size : s.entries.length ≤ cfg.slots
  enodup : (ekeys s.entries).Nodup
  inodup : (ikeys s.inflight).Nodup
  /-- a key whose load is in flight is not cached -/
  disj : ∀ k ∈ ikeys s.inflight, k ∉ ekeys s.entries
  /-- every cached entry was put by a finished load, `lifetime` before its expiry, not in the future -/
  prov : ∀ e ∈ s.entries, ∃ t0, e.expiry = t0 + cfg.lifetime ∧ t0 ≤ s.now ∧ Ev.put e.key e.val t0 ∈ tr
  /-- loads started = loads finished (+ 1 for a key in flight) -/
  count : ∀ k, nStarted k tr = nFinished k tr + (if k ∈ ikeys s.inflight then 1 else 0)
  /-- whoever waits on the load of `k` called `lookup k` -/
  joinedTr : ∀ k ws c, waitersOf k s.inflight = some ws → c ∈ ws → Ev.joined c k ∈ tr

theorem inv_init (cfg : Config) : Inv cfg init [] := by
  constructor <;> simp [init, ekeys, ikeys, nStarted, nFinished, waitersOf]

theorem prov_mono {cfg : Config} {l l' : List Entry} {now now' : Nat} {tr e : List Ev}
    (h : ∀ x ∈ l, ∃ t0, x.expiry = t0 + cfg.lifetime ∧ t0 ≤ now ∧ Ev.put x.key x.val t0 ∈ tr)
    (hs : ∀ x ∈ l', x ∈ l) (hn : now ≤ now') :
    ∀ x ∈ l', ∃ t0, x.expiry = t0 + cfg.lifetime ∧ t0 ≤ now' ∧ Ev.put x.key x.val t0 ∈ tr ++ e := by
  intro x hx
  obtain ⟨t0, h1, h2, h3⟩ := h x (hs x hx)
  exact ⟨t0, h1, by omega, by simp [h3]⟩

theorem inv_step {cfg : Config} {s s' : State} {tr e : List Ev} {op : Op} (hi : Inv cfg s tr)
    (h : step cfg s op = some (s', e)) : Inv cfg s' (tr ++ e) := by
  cases op with
  | lookup c k =>
    simp only [step] at h
    split at h
    · simp at h
    · have hsub := expire_sublist k s.now s.entries
      have hcnt := expire_counts k
      have hen : (ekeys (expire k s.now s.entries).1).Nodup := (ekeys_sublist hsub).nodup hi.enodup
      have hsz : (expire k s.now s.entries).1.length ≤ cfg.slots := Nat.le_trans hsub.length_le hi.size
      have hdj : ∀ k' ∈ ikeys s.inflight, k' ∉ ekeys (expire k s.now s.entries).1 :=
        fun k' hk' hm => hi.disj k' hk' ((ekeys_sublist hsub).subset hm)
      have hpv : ∀ e', ∀ x ∈ (expire k s.now s.entries).1, ∃ t0, x.expiry = t0 + cfg.lifetime ∧ t0 ≤ s.now ∧
          Ev.put x.key x.val t0 ∈ tr ++ e' := fun e' => prov_mono hi.prov (fun x hx => hsub.subset hx) (Nat.le_refl _)
      split at h
      · -- hit
        simp at h; obtain ⟨rfl, rfl⟩ := h
        refine ⟨hsz, hen, hi.inodup, hdj, hpv _, ?_, ?_⟩
        · intro k'
          have := hcnt k' s.now s.entries
          simp only [nStarted_append, nFinished_append, this.1, this.2, nStarted, nFinished]
          simpa using hi.count k'
        · intro k' ws c' h1 h2
          simp [hi.joinedTr k' ws c' h1 h2]
      · next hnone =>
        split at h
        · -- join
          next ws0 hw =>
          simp at h; obtain ⟨rfl, rfl⟩ := h
          refine ⟨hsz, hen, ?_, ?_, hpv _, ?_, ?_⟩
          · simpa [ikeys_addWaiter] using hi.inodup
          · simpa [ikeys_addWaiter] using hdj
          · intro k'
            have := hcnt k' s.now s.entries
            simp only [nStarted_append, nFinished_append, this.1, this.2, nStarted, nFinished, ikeys_addWaiter]
            simpa using hi.count k'
          · intro k' ws c' h1 h2
            simp only [] at h1
            rw [waitersOf_addWaiter] at h1
            split at h1
            · next hk =>
              subst hk
              rw [hw] at h1
              simp at h1; subst h1
              simp only [List.mem_append, List.mem_singleton] at h2
              rcases h2 with h2 | h2
              · simp [hi.joinedTr k' ws0 c' hw h2]
              · subst h2; simp
            · simp [hi.joinedTr k' ws c' h1 h2]
        · -- start
          next hw =>
          simp at h; obtain ⟨rfl, rfl⟩ := h
          have hknot : k ∉ ikeys s.inflight := waitersOf_none.mp hw
          refine ⟨hsz, hen, ?_, ?_, hpv _, ?_, ?_⟩
          · simp only [ikeys, List.map_append, List.map_cons, List.map_nil]
            rw [List.nodup_append]
            refine ⟨hi.inodup, by simp, ?_⟩
            intro a ha b hb
            simp at hb; subst hb
            intro hab; subst hab; exact hknot ha
          · intro k' hk'
            simp only [ikeys, List.map_append, List.map_cons, List.map_nil, List.mem_append, List.mem_singleton] at hk'
            rcases hk' with hk' | hk'
            · exact hdj k' hk'
            · subst hk'; exact findKey_none.mp hnone
          · intro k'
            have := hcnt k' s.now s.entries
            have hc := hi.count k'
            simp only [nStarted_append, nFinished_append, this.1, this.2, nStarted, nFinished, ikeys, List.map_append,
              List.map_cons, List.map_nil, List.mem_append, List.mem_singleton]
            simp only [ikeys] at hc hknot
            by_cases hk : k = k'
            · subst hk; simp [hknot] at hc ⊢; omega
            · have hk2 : ¬ k' = k := fun h => hk h.symm
              by_cases hm : k' ∈ List.map (fun x => x.fst) s.inflight
              · simp [hm, hk, hk2] at hc ⊢; omega
              · simp [hm, hk, hk2] at hc ⊢; omega
          · intro k' ws c' h1 h2
            simp only [] at h1
            rw [waitersOf_append] at h1
            split at h1
            · next ws1 hw1 =>
              simp at h1; subst h1
              simp [hi.joinedTr k' ws1 c' hw1 h2]
            · split at h1
              · next hk =>
                subst hk
                simp at h1; subst h1
                simp at h2; subst h2; simp
              · simp at h1
  | loadOk k v =>
    simp only [step] at h
    split at h
    · simp at h
    · next ws hw =>
      simp at h; obtain ⟨rfl, rfl⟩ := h
      have hkin : k ∈ ikeys s.inflight := waitersOf_some_mem hw
      have hknot : k ∉ ekeys s.entries := hi.disj k hkin
      have hput : put ⟨k, v, s.now + cfg.lifetime⟩ s.entries = insertByExpiry ⟨k, v, s.now + cfg.lifetime⟩ s.entries := by
        unfold put
        have := findKey_none.mpr hknot
        simp only [this]
      rw [hput]
      have hperm := insertByExpiry_perm ⟨k, v, s.now + cfg.lifetime⟩ s.entries
      have hsub := evictIfOver_sublist cfg.slots (insertByExpiry ⟨k, v, s.now + cfg.lifetime⟩ s.entries)
      have hcnt := evict_counts cfg.slots
      have hmem : ∀ x, x ∈ (evictIfOver cfg.slots (insertByExpiry ⟨k, v, s.now + cfg.lifetime⟩ s.entries)).1 →
          x = ⟨k, v, s.now + cfg.lifetime⟩ ∨ x ∈ s.entries := by
        intro x hx
        have := hperm.mem_iff.mp (hsub.subset hx)
        simpa using this
      refine ⟨?_, ?_, ?_, ?_, ?_, ?_, ?_⟩
      · apply evictIfOver_length
        rw [hperm.length_eq]; simp; exact hi.size
      · apply (ekeys_sublist hsub).nodup
        have : (ekeys (insertByExpiry ⟨k, v, s.now + cfg.lifetime⟩ s.entries)).Perm (k :: ekeys s.entries) := by
          simpa [ekeys] using hperm.map (·.key)
        rw [this.nodup_iff]
        exact List.nodup_cons.mpr ⟨hknot, hi.enodup⟩
      · exact ((dropKey_sublist k s.inflight).map _).nodup hi.inodup
      · intro k' hk' hm
        rw [mem_ikeys_dropKey hi.inodup] at hk'
        simp only [ekeys, List.mem_map] at hm
        obtain ⟨x, hx, rfl⟩ := hm
        rcases hmem x hx with rfl | hx
        · exact hk'.2 rfl
        · exact hi.disj _ hk'.1 (List.mem_map_of_mem hx)
      · intro x hx
        rcases hmem x hx with rfl | hx
        · exact ⟨s.now, rfl, Nat.le_refl _, by simp⟩
        · obtain ⟨t0, h1, h2, h3⟩ := hi.prov x hx
          exact ⟨t0, h1, h2, by simp [h3]⟩
      · intro k'
        have h1 := hcnt k' (insertByExpiry ⟨k, v, s.now + cfg.lifetime⟩ s.entries)
        have hc := hi.count k'
        have hd := mem_ikeys_dropKey (k := k) (k' := k') hi.inodup
        simp only [nStarted_append, nFinished_append, nStarted, nFinished, h1.1, h1.2, nStarted_map_loaded,
          nFinished_map_loaded]
        by_cases hk : k = k'
        · subst hk
          have : k ∉ ikeys (dropKey k s.inflight) := by rw [hd]; simp
          simp [this, hkin] at hc ⊢; omega
        · have hk2 : ¬ k' = k := fun h => hk h.symm
          have : (k' ∈ ikeys (dropKey k s.inflight)) ↔ k' ∈ ikeys s.inflight := by rw [hd]; simp [hk2]
          simp only [this, hk]; simp; omega
      · intro k' ws' c' h1 h2
        simp only [] at h1
        have hk' : k' ∈ ikeys (dropKey k s.inflight) := waitersOf_some_mem h1
        rw [mem_ikeys_dropKey hi.inodup] at hk'
        rw [waitersOf_dropKey hk'.2] at h1
        simp [hi.joinedTr k' ws' c' h1 h2]
  | loadFail k =>
    simp only [step] at h
    split at h
    · simp at h
    · next ws hw =>
      simp at h; obtain ⟨rfl, rfl⟩ := h
      have hkin : k ∈ ikeys s.inflight := waitersOf_some_mem hw
      refine ⟨hi.size, hi.enodup, ?_, ?_, prov_mono hi.prov (fun _ hx => hx) (Nat.le_refl _), ?_, ?_⟩
      · exact ((dropKey_sublist k s.inflight).map _).nodup hi.inodup
      · intro k' hk'
        rw [mem_ikeys_dropKey hi.inodup] at hk'
        exact hi.disj k' hk'.1
      · intro k'
        have hc := hi.count k'
        have hd := mem_ikeys_dropKey (k := k) (k' := k') hi.inodup
        simp only [nStarted_append, nFinished_append, nStarted, nFinished, nStarted_map_failed, nFinished_map_failed]
        by_cases hk : k = k'
        · subst hk
          have : k ∉ ikeys (dropKey k s.inflight) := by rw [hd]; simp
          simp [this, hkin] at hc ⊢; omega
        · have hk2 : ¬ k' = k := fun h => hk h.symm
          have : (k' ∈ ikeys (dropKey k s.inflight)) ↔ k' ∈ ikeys s.inflight := by rw [hd]; simp [hk2]
          simp only [this, hk]; simp; omega
      · intro k' ws' c' h1 h2
        simp only [] at h1
        have hk' : k' ∈ ikeys (dropKey k s.inflight) := waitersOf_some_mem h1
        rw [mem_ikeys_dropKey hi.inodup] at hk'
        rw [waitersOf_dropKey hk'.2] at h1
        simp [hi.joinedTr k' ws' c' h1 h2]
  | cancelCaller c =>
    simp only [step] at h
    split at h
    · simp at h; obtain ⟨rfl, rfl⟩ := h; simpa using hi
    · simp at h; obtain ⟨rfl, rfl⟩ := h
      refine ⟨hi.size, hi.enodup, ?_, ?_, prov_mono hi.prov (fun _ hx => hx) (Nat.le_refl _), ?_, ?_⟩
      · simpa [ikeys_removeWaiter] using hi.inodup
      · simpa [ikeys_removeWaiter] using hi.disj
      · intro k'
        simp only [nStarted_append, nFinished_append, nStarted, nFinished, ikeys_removeWaiter]
        simpa using hi.count k'
      · intro k' ws' c' h1 h2
        simp only [] at h1
        rw [waitersOf_removeWaiter] at h1
        cases hw : waitersOf k' s.inflight with
        | none => simp [hw] at h1
        | some ws0 =>
          simp [hw] at h1; subst h1
          simp [hi.joinedTr k' ws0 c' hw (List.mem_filter.mp h2).1]
  | advance dt =>
    simp only [step] at h
    simp at h; obtain ⟨rfl, rfl⟩ := h
    exact ⟨hi.size, hi.enodup, hi.inodup, hi.disj,
      prov_mono hi.prov (fun _ hx => hx) (Nat.le_add_right _ _), by simpa using hi.count, by simpa using hi.joinedTr⟩

theorem reach_inv {cfg : Config} {s : State} {tr : List Ev} (h : Reach cfg s tr) : Inv cfg s tr := by
  induction h with
  | init => exact inv_init cfg
  | step _ hs ih => exact inv_step ih hs

/-- `runWith (step cfg)` from a reachable state stays reachable -/
theorem runWith_reach {cfg : Config} : ∀ (ops : List Op) {s s' : State} {tr es : List Ev}, Reach cfg s tr →
    runWith (step cfg) s ops = some (s', es) → Reach cfg s' (tr ++ es)
  | [], s, s', tr, es, hr, h => by simp [runWith] at h; obtain ⟨rfl, rfl⟩ := h; simpa using hr
  | op :: ops, s, s', tr, es, hr, h => by
    simp only [runWith] at h
    split at h
    · simp at h
    · next s1 e1 h1 =>
      split at h
      · simp at h
      · next s2 es2 h2 =>
        simp at h; obtain ⟨rfl, rfl⟩ := h
        have := runWith_reach ops (Reach.step hr h1) h2
        simpa [List.append_assoc] using this

theorem run_reach {cfg : Config} {ops : List Op} {s : State} {tr : List Ev} (h : run cfg ops = some (s, tr)) :
    Reach cfg s tr := by
  have := runWith_reach ops Reach.init h
  simpa using this

/-- `_keys_by_expiry` is sorted: ascending expiry -/
def Sorted (l : List Entry) : Prop := l.Pairwise (fun a b => a.expiry ≤ b.expiry)

theorem insertByExpiry_sorted (e : Entry) : ∀ (l : List Entry), Sorted l → Sorted (insertByExpiry e l)
  | [], _ => by simp [insertByExpiry, Sorted]
  | x :: r, h => by
    have hx := List.pairwise_cons.mp h
    simp only [insertByExpiry]
    split
    · next hle =>
      have ih := insertByExpiry_sorted e r hx.2
      refine List.pairwise_cons.mpr ⟨?_, ih⟩
      intro y hy
      have := (insertByExpiry_perm e r).mem_iff.mp hy
      rcases List.mem_cons.mp this with rfl | hy'
      · exact hle
      · exact hx.1 y hy'
    · next hnle =>
      refine List.pairwise_cons.mpr ⟨?_, h⟩
      intro y hy
      rcases List.mem_cons.mp hy with rfl | hy'
      · omega
      · have := hx.1 y hy'; omega

theorem sorted_step {cfg : Config} {s s' : State} {tr e : List Ev} {op : Op} (hi : Inv cfg s tr) (hs : Sorted s.entries)
    (h : step cfg s op = some (s', e)) : Sorted s'.entries := by
  cases op with
  | lookup c k =>
    simp only [step] at h
    split at h
    · simp at h
    · have hsub := expire_sublist k s.now s.entries
      have := hs.sublist hsub
      split at h
      · simp at h; obtain ⟨rfl, _⟩ := h; exact this
      · split at h <;> (simp at h; obtain ⟨rfl, _⟩ := h; exact this)
  | loadOk k v =>
    simp only [step] at h
    split at h
    · simp at h
    · next ws hw =>
      simp at h; obtain ⟨rfl, _⟩ := h
      have hkin : k ∈ ikeys s.inflight := waitersOf_some_mem hw
      have hknot : k ∉ ekeys s.entries := hi.disj k hkin
      have hput : put ⟨k, v, s.now + cfg.lifetime⟩ s.entries = insertByExpiry ⟨k, v, s.now + cfg.lifetime⟩ s.entries := by
        unfold put
        have := findKey_none.mpr hknot
        simp only [this]
      simp only [hput]
      exact (insertByExpiry_sorted _ _ hs).sublist (evictIfOver_sublist _ _)
  | loadFail k =>
    simp only [step] at h
    split at h
    · simp at h
    · simp at h; obtain ⟨rfl, _⟩ := h; exact hs
  | cancelCaller c =>
    simp only [step] at h
    split at h <;> (simp at h; obtain ⟨rfl, _⟩ := h; exact hs)
  | advance dt =>
    simp only [step] at h
    simp at h; obtain ⟨rfl, _⟩ := h; exact hs

theorem reach_sorted {cfg : Config} {s : State} {tr : List Ev} (h : Reach cfg s tr) : Sorted s.entries := by
  induction h with
  | init => simp [init, Sorted]
  | step hr hs ih => exact sorted_step (reach_inv hr) ih hs

/-- a turn of several blocks stays within the reachable states: every theorem about reachable states holds after it -/
theorem turn_reach {cfg : Config} {s0 : State} : ∀ (ops : List Op) {s s' : State} {tr es : List Ev}, Reach cfg s tr →
    turn cfg s0 s ops = some (s', es) → Reach cfg s' (tr ++ es)
  | [], s, s', tr, es, hr, h => by simp [turn] at h; obtain ⟨rfl, rfl⟩ := h; simpa using hr
  | op :: ops, s, s', tr, es, hr, h => by
    simp only [turn] at h
    split at h
    · simp at h
    · split at h
      · simp at h
      · next s1 e1 h1 =>
        split at h
        · simp at h
        · next s2 es2 h2 =>
          simp at h; obtain ⟨rfl, rfl⟩ := h
          have := turn_reach ops (Reach.step hr h1) h2
          simpa [List.append_assoc] using this

/-! ### several instances -/

/-- what a block addressed to instance `j` does there is exactly a `step` of that instance (with its own configuration and
state, appended to its own history) -/
theorem mstep_at {m m' : Multi} {j : Nat} {op : Op} {e : List Ev} (h : mstep m (.at j op) = some (m', e)) :
    ∃ cfg s tr s', m[j]? = some (cfg, s, tr) ∧ step cfg s op = some (s', e) ∧ m' = m.set j (cfg, s', tr ++ e) := by
  cases op with
  | advance dt => simp [mstep] at h
  | lookup c k =>
    simp only [mstep] at h
    split at h
    · simp at h
    · next cfg s tr hm =>
      split at h
      · simp at h
      · split at h
        · simp at h
        · next s' e' hs => simp at h; obtain ⟨rfl, rfl⟩ := h; exact ⟨cfg, s, tr, s', hm, hs, rfl⟩
  | loadOk k v =>
    simp only [mstep] at h
    split at h
    · simp at h
    · next cfg s tr hm =>
      split at h
      · simp at h
      · split at h
        · simp at h
        · next s' e' hs => simp at h; obtain ⟨rfl, rfl⟩ := h; exact ⟨cfg, s, tr, s', hm, hs, rfl⟩
  | loadFail k =>
    simp only [mstep] at h
    split at h
    · simp at h
    · next cfg s tr hm =>
      split at h
      · simp at h
      · split at h
        · simp at h
        · next s' e' hs => simp at h; obtain ⟨rfl, rfl⟩ := h; exact ⟨cfg, s, tr, s', hm, hs, rfl⟩
  | cancelCaller c =>
    simp only [mstep] at h
    split at h
    · simp at h
    · next cfg s tr hm =>
      split at h
      · simp at h
      · split at h
        · simp at h
        · next s' e' hs => simp at h; obtain ⟨rfl, rfl⟩ := h; exact ⟨cfg, s, tr, s', hm, hs, rfl⟩

/-- Frame property: a block addressed to instance `j` changes nothing in any other instance. -/
theorem mstep_frame {m m' : Multi} {j : Nat} {op : Op} {e : List Ev} (h : mstep m (.at j op) = some (m', e))
    (i : Nat) (hij : i ≠ j) : m'[i]? = m[i]? := by
  obtain ⟨cfg, s, tr, s', _, _, rfl⟩ := mstep_at h
  simp [Ne.symm hij]

/-- every instance of a multi-instance state is a reachable state of the single-cache model, with its own history -/
def EachReach (m : Multi) : Prop := ∀ x ∈ m, Reach x.1 x.2.1 x.2.2

theorem eachReach_start (cfgs : List Config) : EachReach (Multi.start cfgs) := by
  intro x hx
  simp only [Multi.start, List.mem_map] at hx
  obtain ⟨cfg, _, rfl⟩ := hx
  exact Reach.init

theorem eachReach_step {m m' : Multi} {op : MOp} {e : List Ev} (hm : EachReach m) (h : mstep m op = some (m', e)) :
    EachReach m' := by
  cases op with
  | «at» j op =>
    obtain ⟨cfg, s, tr, s', hj, hs, rfl⟩ := mstep_at h
    intro x hx
    rcases List.mem_or_eq_of_mem_set hx with hx | rfl
    · exact hm x hx
    · exact Reach.step (hm _ (List.mem_of_getElem? hj)) hs
  | advance dt =>
    simp [mstep] at h; obtain ⟨rfl, _⟩ := h
    intro x hx
    simp only [List.mem_map] at hx
    obtain ⟨y, hy, rfl⟩ := hx
    have := Reach.step (op := Op.advance dt) (s' := { y.2.1 with now := y.2.1.now + dt }) (e := []) (hm y hy) (by simp [step])
    simpa using this

theorem mrun_eachReach : ∀ (ops : List MOp) {m m' : Multi}, EachReach m → mrun m ops = some m' → EachReach m'
  | [], m, m', hm, h => by simp [mrun] at h; subst h; exact hm
  | op :: ops, m, m', hm, h => by
    simp only [mrun] at h
    split at h
    · simp at h
    · next m1 e1 h1 => exact mrun_eachReach ops (eachReach_step hm h1) h

end HailVerif.Cache

import HailVerif.Model.TableType
/-!
# Key preservation of the table type transformers (C36)
-/
namespace HailVerif.TableType
open HailVerif.ExprIR (HType)

theorem lookupF_setF_other (fs : FieldList) (n k : String) (t : HType) (h : k ≠ n) :
    lookupF (setF fs n t) k = lookupF fs k := by
  induction fs with
  | nil => simp [setF, lookupF, Ne.symm h]
  | cons p r ih =>
    obtain ⟨m, u⟩ := p
    simp only [setF]
    split
    · rename_i e; subst e; simp [lookupF, Ne.symm h]
    · simp only [lookupF, ih]

/-- fields that are not assigned keep their type -/
theorem lookupF_insertFields (named : FieldList) : ∀ (fs : FieldList) (k : String), k ∉ names named →
    lookupF (insertFields fs named) k = lookupF fs k := by
  induction named with
  | nil => intro fs k _; rfl
  | cons p r ih =>
    intro fs k hk
    obtain ⟨n, t⟩ := p
    simp only [names, List.map_cons, List.mem_cons, not_or] at hk
    simp only [insertFields]
    rw [ih _ k (by simpa [names] using hk.2)]
    exact lookupF_setF_other fs n k t hk.1

theorem keyFields_congr (row row' : FieldList) (ks : List String) (h : ∀ k ∈ ks, lookupF row' k = lookupF row k) :
    keyFields row' ks = keyFields row ks := by
  induction ks with
  | nil => rfl
  | cons k r ih =>
    simp only [keyFields]
    rw [h k (by simp), ih (fun k' hk' => h k' (by simp [hk']))]

theorem lookupF_filter_keep (fs : FieldList) (pred : String → Bool) (k : String) (hk : pred k = true) :
    lookupF (fs.filter (fun p => pred p.1)) k = lookupF fs k := by
  induction fs with
  | nil => rfl
  | cons p r ih =>
    obtain ⟨m, u⟩ := p
    simp only [List.filter_cons]
    split
    · simp only [lookupF, ih]
    · rename_i hm
      simp only [lookupF]
      split
      · rename_i e; subst e; simp [hk] at hm
      · exact ih

/-- `annotate` never changes the key, nor the type of a key field -/
theorem annotate_key {t t' : TType} {named : FieldList} (h : annotate t named = some t') :
    t'.key = t.key ∧ t'.globals = t.globals ∧ keyType t' = keyType t := by
  unfold annotate at h
  split at h
  · simp at h
  · rename_i hc
    simp only [Option.some.injEq] at h; subst h
    refine ⟨rfl, rfl, ?_⟩
    apply keyFields_congr
    intro k hk
    apply lookupF_insertFields
    intro hmem
    apply hc
    simp only [List.any_eq_true]
    exact ⟨k, hmem, by simp [hk]⟩

/-- `key_by` on existing fields: the key is exactly the requested fields, every key field is a row field, the row type is unchanged -/
theorem keyBy_spec {t t' : TType} {fields : List String} (h : keyBy t fields = some t') :
    t'.key = fields ∧ t'.row = t.row ∧ t'.globals = t.globals ∧ WellKeyed t' := by
  unfold keyBy at h
  split at h
  · simp at h
  · rename_i hc
    simp only [Option.some.injEq] at h; subst h
    refine ⟨rfl, rfl, rfl, ?_⟩
    intro k hk
    cases hl : lookupF t.row k with
    | some _ => rfl
    | none =>
      exfalso; apply hc
      simp only [List.any_eq_true]
      exact ⟨k, hk, by simp [hl]⟩

/-- `drop` of non-key fields keeps the key and the types of the key fields -/
theorem drop_key {t t' : TType} {fields : List String} (h : drop t fields = some t') :
    t'.key = t.key ∧ keyType t' = keyType t := by
  unfold drop at h
  split at h
  · simp at h
  · rename_i hc
    simp only [Option.some.injEq] at h; subst h
    refine ⟨rfl, ?_⟩
    apply keyFields_congr
    intro k hk
    apply lookupF_filter_keep t.row (fun n => !fields.contains n) k
    simp only [Bool.not_eq_true', List.contains_eq_mem, decide_eq_false_iff_not]
    intro hmem
    apply hc
    simp only [List.any_eq_true]
    exact ⟨k, hmem, by simp [hk]⟩

theorem lookupF_map_other (fs : FieldList) (n k : String) (e : HType) (h : k ≠ n) :
    lookupF (fs.map (fun p => if p.1 == n then (n, e) else p)) k = lookupF fs k := by
  induction fs with
  | nil => rfl
  | cons p r ih =>
    obtain ⟨m, u⟩ := p
    simp only [List.map_cons]
    simp only [beq_iff_eq] at ih ⊢
    by_cases hm : m = n
    · subst hm; simp [lookupF, Ne.symm h, ih]
    · simp [lookupF, hm, ih]

/-- `explode` keeps the key and the key field types (a key field cannot be exploded) -/
theorem explode_key {t t' : TType} {n : String} (h : explode t n = some t') :
    t'.key = t.key ∧ keyType t' = keyType t := by
  unfold explode at h
  split at h
  · simp at h
  · rename_i hc
    split at h <;> simp only [Option.some.injEq, reduceCtorEq] at h <;> subst h <;>
      (refine ⟨rfl, ?_⟩
       apply keyFields_congr
       intro k hk
       apply lookupF_map_other
       intro e; subst e
       exact hc (by simpa using hk))

theorem orderBy_key (t : TType) : (orderBy t).key = [] ∧ (orderBy t).row = t.row := ⟨rfl, rfl⟩

theorem filter_type (t : TType) : filter t = t := rfl

theorem range_wellKeyed : WellKeyed range := by
  intro k hk; simp [range] at hk; subst hk; rfl

/-- the operations that keep the key keep it well-formed -/
theorem annotate_wellKeyed {t t' : TType} {named : FieldList} (h : annotate t named = some t') (hw : WellKeyed t) :
    WellKeyed t' := by
  have hk := annotate_key h
  unfold annotate at h
  split at h
  · simp at h
  · rename_i hc
    simp only [Option.some.injEq] at h; subst h
    intro k hkm
    have : lookupF (insertFields t.row named) k = lookupF t.row k := by
      apply lookupF_insertFields
      intro hmem
      apply hc
      simp only [List.any_eq_true]
      exact ⟨k, hmem, by simp [show k ∈ t.key from hkm]⟩
    simp only [this]
    exact hw k hkm

/-- **Typing rule of `TableUnion`**: when the IR implies a type, it is the type the table reports, and every child handed to
`TableUnion` has exactly that row type and key. -/
theorem unionIR_spec {unify : Bool} {ts : List TType} {t : TType} (h : unionIR unify ts = some t) :
    unionReported unify ts = some t ∧
      ∃ cs, unionChildren unify ts = some (t :: cs) ∧ ∀ c ∈ cs, c.row = t.row ∧ c.key = t.key := by
  unfold unionIR at h
  split at h
  · rename_i c0 cs hc
    split at h
    · rename_i hall
      simp only [Option.some.injEq] at h; subst h
      refine ⟨by simp [unionReported, hc], cs, hc, ?_⟩
      intro c hcm
      have := (List.all_eq_true.mp hall) c hcm
      simpa using this
    · simp at h
  · simp at h

end HailVerif.TableType

namespace HailVerif.TableType
open HailVerif.ExprIR (HType)

theorem keyFields_names (row : FieldList) : ∀ (ks : List String) (fs : FieldList), keyFields row ks = some fs → names fs = ks := by
  intro ks
  induction ks with
  | nil => intro fs h; simp [keyFields] at h; subst h; rfl
  | cons k r ih =>
    intro fs h
    simp only [keyFields] at h
    split at h
    · rename_i ty fs' _ h2
      simp only [Option.some.injEq] at h; subst h
      simp [names, List.map_cons]
      simpa [names] using ih fs' h2
    · simp at h

/-- equal key types (names and types, in key order) mean equal keys -/
theorem key_eq_of_keyType_eq {t t0 : TType} {kf : FieldList} (h0 : keyType t0 = some kf) (h : keyType t = keyType t0) :
    t.key = t0.key := by
  have a := keyFields_names t0.row t0.key kf h0
  have b := keyFields_names t.row t.key kf (by rw [← h0, ← h]; rfl)
  rw [← a, ← b]

/-- **`TableUnion` is always well typed**: whatever the front end accepts, all children it hands to `TableUnion` have the same
row type and key, so the type the IR implies is the type the table reports. -/
theorem unionIR_eq_reported (unify : Bool) (ts : List TType) : unionIR unify ts = unionReported unify ts := by
  unfold unionIR unionReported
  cases hc : unionChildren unify ts with
  | none => rfl
  | some cs =>
    cases cs with
    | nil => rfl
    | cons c0 cr =>
      simp only [Option.bind_some, List.head?_cons]
      suffices h : cr.all (fun c => c.row == c0.row && c.key == c0.key) = true by simp [h]
      unfold unionChildren at hc
      cases ts with
      | nil => simp at hc
      | cons t0 rest =>
        simp only [] at hc
        split at hc
        · simp at hc
        · rename_i hk
          simp only [Bool.or_eq_true, List.any_eq_true, not_or, not_exists, not_and,
            Option.isNone_iff_eq_none, bne_iff_ne, ne_eq, Decidable.not_not] at hk
          obtain ⟨hkeys, hsome⟩ := hk
          obtain ⟨kf, hkf⟩ : ∃ kf, keyType t0 = some kf := by
            cases h : keyType t0 with
            | none => exact absurd h (by simpa using hsome)
            | some kf => exact ⟨kf, rfl⟩
          have keyeq : ∀ t ∈ rest, t.key = t0.key := fun t ht => key_eq_of_keyType_eq hkf (hkeys t ht)
          split at hc
          · -- unify = false
            split at hc
            · rename_i hall
              simp only [Option.some.injEq, List.cons.injEq] at hc
              obtain ⟨rfl, rfl⟩ := hc
              simp only [List.all_eq_true, Bool.and_eq_true, beq_iff_eq]
              intro c hcm
              exact ⟨by simpa using (List.all_eq_true.mp hall) c hcm, keyeq c hcm⟩
            · simp at hc
          · split at hc
            · rename_i hall
              simp only [Option.some.injEq, List.cons.injEq] at hc
              obtain ⟨rfl, rfl⟩ := hc
              simp only [List.all_eq_true, Bool.and_eq_true, beq_iff_eq]
              intro c hcm
              exact ⟨by simpa using (List.all_eq_true.mp hall) c hcm, keyeq c hcm⟩
            · split at hc
              · simp at hc
              · rename_i fs _
                simp only [List.map_cons, Option.some.injEq, List.cons.injEq] at hc
                obtain ⟨rfl, rfl⟩ := hc
                simp only [List.all_eq_true, List.mem_map, Bool.and_eq_true, beq_iff_eq]
                rintro c ⟨t, ht, rfl⟩
                refine ⟨?_, keyeq t ht⟩
                simp only [hkeys t ht, hkf]

/-! ## `Table.join`: the renaming makes the struct concatenations duplicate-free -/

theorem dedupName_fresh {used : List String} {n m : String} (h : dedupName used n = some m) : m ∉ used := by
  unfold dedupName at h
  split at h
  · rename_i hc
    simp only [Option.some.injEq] at h
    subst h
    simpa using hc
  · have := List.find?_some h
    simpa using this

/-- `deduplicate`: as many names as ids, pairwise distinct, none of them used before -/
theorem dedupAll_spec : ∀ (ids used new : List String), dedupAll used ids = some new →
    new.length = ids.length ∧ new.Nodup ∧ ∀ n ∈ new, n ∉ used := by
  intro ids
  induction ids with
  | nil => intro used new h; simp [dedupAll] at h; subst h; simp
  | cons a r ih =>
    intro used new h
    simp only [dedupAll] at h
    split at h
    · simp at h
    · rename_i m hm
      cases hr : dedupAll (m :: used) r with
      | none => simp [hr] at h
      | some rest =>
        simp only [hr, Option.map_some, Option.some.injEq] at h
        subst h
        obtain ⟨hl, hn, hf⟩ := ih _ _ hr
        refine ⟨by simp [hl], List.nodup_cons.2 ⟨fun hm' => (hf m hm') (by simp), hn⟩, ?_⟩
        intro n hn'
        simp only [List.mem_cons] at hn'
        rcases hn' with rfl | hn'
        · exact dedupName_fresh hm
        · exact fun hu => hf n hn' (List.mem_cons_of_mem _ hu)

theorem names_renameFields (fs : FieldList) (new : List String) (h : new.length ≤ fs.length) :
    names (renameFields fs new) = new := by
  simp only [names, renameFields, List.map_map]
  have : ((fun p : String × HType => p.1) ∘ fun p : (String × HType) × String => (p.2, p.1.2)) = Prod.snd := by
    funext p; rfl
  rw [this]
  exact List.map_snd_zip h

theorem setF_of_not_mem (a : FieldList) (n : String) (t : HType) (h : n ∉ names a) : setF a n t = a ++ [(n, t)] := by
  induction a with
  | nil => rfl
  | cons p r ih =>
    obtain ⟨m, u⟩ := p
    simp only [names, List.map_cons, List.mem_cons, not_or] at h
    simp only [setF]
    rw [if_neg (fun e => h.1 e.symm)]
    simp only [List.cons_append, List.cons.injEq, true_and]
    exact ih h.2

/-- a dict update with fresh, pairwise distinct names is a concatenation -/
theorem insertFields_disjoint : ∀ (b a : FieldList), (names b).Nodup → (∀ n ∈ names b, n ∉ names a) →
    insertFields a b = a ++ b := by
  intro b
  induction b with
  | nil => intro a _ _; simp [insertFields]
  | cons p r ih =>
    intro a hn hd
    obtain ⟨n, t⟩ := p
    simp only [names, List.map_cons, List.nodup_cons] at hn
    simp only [insertFields]
    rw [setF_of_not_mem a n t (hd n (by simp [names]))]
    rw [ih (a ++ [(n, t)]) hn.2]
    · simp
    · intro m hm
      simp only [names, List.map_append, List.map_cons, List.map_nil, List.mem_append, List.mem_singleton, not_or]
      refine ⟨hd m (by simp only [names, List.map_cons, List.mem_cons]; exact Or.inr hm), ?_⟩
      intro e
      subst e
      exact hn.1 hm

/-- … and then the engine's strict concatenation succeeds with the same result -/
theorem concat_agree {a b : FieldList} (hn : (names b).Nodup) (hd : ∀ n ∈ names b, n ∉ names a) :
    concatStrict a b = concatPy a b := by
  unfold concatStrict concatPy
  rw [insertFields_disjoint b a hn hd]
  simp only [hn, decide_true, Bool.not_true, Bool.or_false]
  split
  · rename_i h
    simp only [List.any_eq_true, List.contains_iff_mem] at h
    obtain ⟨n, hm, hc⟩ := h
    exact absurd hc (hd n hm)
  · rfl

theorem lookupF_mem {fs : FieldList} {n : String} {t : HType} (h : lookupF fs n = some t) : n ∈ names fs := by
  induction fs with
  | nil => simp [lookupF] at h
  | cons p r ih =>
    obtain ⟨m, u⟩ := p
    simp only [lookupF] at h
    simp only [names, List.map_cons, List.mem_cons]
    split at h
    · rename_i e; exact Or.inl e.symm
    · exact Or.inr (ih h)

theorem keyFields_subset (row : FieldList) : ∀ (ks : List String) (fs : FieldList), keyFields row ks = some fs →
    ∀ n ∈ names fs, n ∈ names row := by
  intro ks
  induction ks with
  | nil => intro fs h; simp [keyFields] at h; subst h; simp [names]
  | cons k r ih =>
    intro fs h
    simp only [keyFields] at h
    split at h
    · rename_i ty fs' h1 h2
      simp only [Option.some.injEq] at h
      subst h
      intro n hn
      simp only [names, List.map_cons, List.mem_cons] at hn
      rcases hn with rfl | hn
      · exact lookupF_mem h1
      · exact ih fs' h2 n hn
    · simp at h

theorem valueFields_subset (t : TType) : ∀ n ∈ names (valueFields t), n ∈ names t.row := by
  intro n hn
  simp only [names, valueFields, List.mem_map, List.mem_filter] at hn ⊢
  obtain ⟨p, ⟨hp, _⟩, rfl⟩ := hn
  exact ⟨p, hp, rfl⟩

/-- what `Table.join`'s renaming achieves: the new names of the right table's value fields and globals are pairwise distinct
and none of them is a field name of the left table -/
theorem renameRight_spec {l r : TType} {vs gs : FieldList} (h : renameRight l r = some (vs, gs)) :
    (names vs ++ names gs).Nodup ∧ ∀ n ∈ names vs ++ names gs, n ∉ allNames l := by
  unfold renameRight at h
  simp only [Option.map_eq_some_iff, Prod.mk.injEq] at h
  obtain ⟨new, hnew, rfl, rfl⟩ := h
  obtain ⟨hl, hn, hf⟩ := dedupAll_spec _ _ _ hnew
  simp only [List.length_append, names, List.length_map] at hl
  have e1 : names (renameFields (valueFields r) (new.take (valueFields r).length)) = new.take (valueFields r).length :=
    names_renameFields _ _ (by simp; omega)
  have e2 : names (renameFields r.globals (new.drop (valueFields r).length)) = new.drop (valueFields r).length :=
    names_renameFields _ _ (by simp; omega)
  rw [e1, e2, List.take_append_drop]
  exact ⟨hn, hf⟩

/-- **the emitted `TableJoin` is well typed, with the type the `Table` reports**: after the renaming the engine's strict struct
concatenations succeed and give what the Python dict updates give -/
theorem joinIR_eq_reported (l r : TType) : joinIR l r = joinReported l r := by
  unfold joinIR joinReported joinWith
  split
  · rename_i kl kr vs gs hkl _ hrr
    obtain ⟨hn, hf⟩ := renameRight_spec hrr
    rw [List.nodup_append] at hn
    have hg : concatStrict l.globals gs = concatPy l.globals gs := by
      apply concat_agree hn.2.1
      intro n hm h
      exact hf n (List.mem_append_right _ hm) (by simp only [allNames]; exact List.mem_append_left _ h)
    have hr : concatStrict (kl ++ valueFields l) vs = concatPy (kl ++ valueFields l) vs := by
      apply concat_agree hn.1
      intro n hm h
      apply hf n (List.mem_append_left _ hm)
      simp only [allNames]
      apply List.mem_append_right
      simp only [names, List.map_append, List.mem_append] at h
      rcases h with h | h
      · exact keyFields_subset l.row l.key kl hkl n h
      · exact valueFields_subset l n h
    rw [hg, hr]
  · rfl

/-- `join` keeps the left key; the globals are the left globals followed by the (renamed) right globals, the row starts with
the left key fields and the left value fields -/
theorem join_shape {l r t : TType} (h : joinIR l r = some t) :
    t.key = l.key ∧ ∃ kl vs gs, keyType l = some kl ∧ renameRight l r = some (vs, gs) ∧
      t.globals = l.globals ++ gs ∧ t.row = kl ++ valueFields l ++ vs := by
  unfold joinIR joinWith at h
  split at h
  · rename_i kl kr vs gs hkl _ hrr
    split at h
    · simp at h
    · split at h
      · rename_i g row hg hrow
        simp only [Option.some.injEq] at h
        subst h
        refine ⟨rfl, kl, vs, gs, hkl, hrr, ?_, ?_⟩
        · unfold concatStrict at hg
          split at hg
          · simp at hg
          · simpa using hg.symm
        · unfold concatStrict at hrow
          split at hrow
          · simp at hrow
          · simpa using hrow.symm
      · simp at h
  · simp at h

/-! ## keyed lookups: the reported type of the looked-up value is the type of the field the emitted join node inserts -/

theorem rootIR_eq_reported (r : TType) (exprTypes : List HType) (allMatches : Bool) :
    rootIR r exprTypes allMatches = rootReported r exprTypes allMatches := by
  unfold rootIR rootReported chooseNode
  cases keyType r with
  | none => rfl
  | some kr =>
    simp only []
    cases allMatches <;> cases isIntervalIndex r exprTypes <;> cases (kr.map (·.2) == exprTypes) <;> simp [nodeRoot]

/-- what the node choice must respect: an `intervalJoin` emitted WITHOUT the product flag for an `all_matches` lookup inserts a
struct where the front end reports an array -/
theorem intervalJoin_needs_product (r : TType) : nodeRoot r (.intervalJoin false) ≠ .array (valueStruct r) := by
  simp [nodeRoot, valueStruct]

end HailVerif.TableType

import HailVerif.Model.TableType
/-!
# Key preservation of the table type transformers (C36)
-/
namespace HailVerif.TableType
open HailVerif.ExprIR (HType)

theorem lookupF_setF_other (fs : FieldList) (n k : String) (t : HType) (h : k ≠ n) :
    lookupF (setF fs n t) k = lookupF fs k := by
  induction fs with
  | nil => simp [setF, lookupF, Ne.symm h]
  | cons p r ih =>
    obtain ⟨m, u⟩ := p
    simp only [setF]
    split
    · rename_i e; subst e; simp [lookupF, Ne.symm h]
    · simp only [lookupF, ih]

/-- fields that are not assigned keep their type -/
theorem lookupF_insertFields (named : FieldList) : ∀ (fs : FieldList) (k : String), k ∉ names named →
    lookupF (insertFields fs named) k = lookupF fs k := by
  induction named with
  | nil => intro fs k _; rfl
  | cons p r ih =>
    intro fs k hk
    obtain ⟨n, t⟩ := p
    simp only [names, List.map_cons, List.mem_cons, not_or] at hk
    simp only [insertFields]
    rw [ih _ k (by simpa [names] using hk.2)]
    exact lookupF_setF_other fs n k t hk.1

theorem keyFields_congr (row row' : FieldList) (ks : List String) (h : ∀ k ∈ ks, lookupF row' k = lookupF row k) :
    keyFields row' ks = keyFields row ks := by
  induction ks with
  | nil => rfl
  | cons k r ih =>
    simp only [keyFields]
    rw [h k (by simp), ih (fun k' hk' => h k' (by simp [hk']))]

theorem lookupF_filter_keep (fs : FieldList) (pred : String → Bool) (k : String) (hk : pred k = true) :
    lookupF (fs.filter (fun p => pred p.1)) k = lookupF fs k := by
  induction fs with
  | nil => rfl
  | cons p r ih =>
    obtain ⟨m, u⟩ := p
    simp only [List.filter_cons]
    split
    · simp only [lookupF, ih]
    · rename_i hm
      simp only [lookupF]
      split
      · rename_i e; subst e; simp [hk] at hm
      · exact ih

/-- `annotate` never changes the key, nor the type of a key field -/
theorem annotate_key {t t' : TType} {named : FieldList} (h : annotate t named = some t') :
    t'.key = t.key ∧ t'.globals = t.globals ∧ keyType t' = keyType t := by
  unfold annotate at h
  split at h
  · simp at h
  · rename_i hc
    simp only [Option.some.injEq] at h; subst h
    refine ⟨rfl, rfl, ?_⟩
    apply keyFields_congr
    intro k hk
    apply lookupF_insertFields
    intro hmem
    apply hc
    simp only [List.any_eq_true]
    exact ⟨k, hmem, by simp [hk]⟩

/-- `key_by` on existing fields: the key is exactly the requested fields, every key field is a row field, the row type is unchanged -/
theorem keyBy_spec {t t' : TType} {fields : List String} (h : keyBy t fields = some t') :
    t'.key = fields ∧ t'.row = t.row ∧ t'.globals = t.globals ∧ WellKeyed t' := by
  unfold keyBy at h
  split at h
  · simp at h
  · rename_i hc
    simp only [Option.some.injEq] at h; subst h
    refine ⟨rfl, rfl, rfl, ?_⟩
    intro k hk
    cases hl : lookupF t.row k with
    | some _ => rfl
    | none =>
      exfalso; apply hc
      simp only [List.any_eq_true]
      exact ⟨k, hk, by simp [hl]⟩

/-- `drop` of non-key fields keeps the key and the types of the key fields -/
theorem drop_key {t t' : TType} {fields : List String} (h : drop t fields = some t') :
    t'.key = t.key ∧ keyType t' = keyType t := by
  unfold drop at h
  split at h
  · simp at h
  · rename_i hc
    simp only [Option.some.injEq] at h; subst h
    refine ⟨rfl, ?_⟩
    apply keyFields_congr
    intro k hk
    apply lookupF_filter_keep t.row (fun n => !fields.contains n) k
    simp only [Bool.not_eq_true', List.contains_eq_mem, decide_eq_false_iff_not]
    intro hmem
    apply hc
    simp only [List.any_eq_true]
    exact ⟨k, hmem, by simp [hk]⟩

theorem lookupF_map_other (fs : FieldList) (n k : String) (e : HType) (h : k ≠ n) :
    lookupF (fs.map (fun p => if p.1 == n then (n, e) else p)) k = lookupF fs k := by
  induction fs with
  | nil => rfl
  | cons p r ih =>
    obtain ⟨m, u⟩ := p
    simp only [List.map_cons]
    simp only [beq_iff_eq] at ih ⊢
    by_cases hm : m = n
    · subst hm; simp [lookupF, Ne.symm h, ih]
    · simp [lookupF, hm, ih]

/-- `explode` keeps the key and the key field types (a key field cannot be exploded) -/
theorem explode_key {t t' : TType} {n : String} (h : explode t n = some t') :
    t'.key = t.key ∧ keyType t' = keyType t := by
  unfold explode at h
  split at h
  · simp at h
  · rename_i hc
    split at h <;> simp only [Option.some.injEq, reduceCtorEq] at h <;> subst h <;>
      (refine ⟨rfl, ?_⟩
       apply keyFields_congr
       intro k hk
       apply lookupF_map_other
       intro e; subst e
       exact hc (by simpa using hk))

theorem orderBy_key (t : TType) : (orderBy t).key = [] ∧ (orderBy t).row = t.row := ⟨rfl, rfl⟩

theorem filter_type (t : TType) : filter t = t := rfl

theorem range_wellKeyed : WellKeyed range := by
  intro k hk; simp [range] at hk; subst hk; rfl

/-- the operations that keep the key keep it well-formed -/
theorem annotate_wellKeyed {t t' : TType} {named : FieldList} (h : annotate t named = some t') (hw : WellKeyed t) :
    WellKeyed t' := by
  have hk := annotate_key h
  unfold annotate at h
  split at h
  · simp at h
  · rename_i hc
    simp only [Option.some.injEq] at h; subst h
    intro k hkm
    have : lookupF (insertFields t.row named) k = lookupF t.row k := by
      apply lookupF_insertFields
      intro hmem
      apply hc
      simp only [List.any_eq_true]
      exact ⟨k, hmem, by simp [show k ∈ t.key from hkm]⟩
    simp only [this]
    exact hw k hkm

/-- **Typing rule of `TableUnion`**: when the IR implies a type, it is the type the table reports, and every child handed to
`TableUnion` has exactly that row type and key. -/
theorem unionIR_spec {unify : Bool} {ts : List TType} {t : TType} (h : unionIR unify ts = some t) :
    unionReported unify ts = some t ∧
      ∃ cs, unionChildren unify ts = some (t :: cs) ∧ ∀ c ∈ cs, c.row = t.row ∧ c.key = t.key := by
  unfold unionIR at h
  split at h
  · rename_i c0 cs hc
    split at h
    · rename_i hall
      simp only [Option.some.injEq] at h; subst h
      refine ⟨by simp [unionReported, hc], cs, hc, ?_⟩
      intro c hcm
      have := (List.all_eq_true.mp hall) c hcm
      simpa using this
    · simp at h
  · simp at h

/-- `join` keeps the left key and the types of the left key fields come first in the row -/
theorem join_key {l r t : TType} (h : join l r = some t) : t.key = l.key ∧ t.globals = l.globals ++ r.globals := by
  unfold join at h
  split at h
  · split at h
    · simp at h
    · simp only [] at h
      split at h
      · simp at h
      · simp only [Option.some.injEq] at h; subst h; exact ⟨rfl, rfl⟩
  · simp at h

end HailVerif.TableType

namespace HailVerif.TableType
open HailVerif.ExprIR (HType)

theorem keyFields_names (row : FieldList) : ∀ (ks : List String) (fs : FieldList), keyFields row ks = some fs → names fs = ks := by
  intro ks
  induction ks with
  | nil => intro fs h; simp [keyFields] at h; subst h; rfl
  | cons k r ih =>
    intro fs h
    simp only [keyFields] at h
    split at h
    · rename_i ty fs' _ h2
      simp only [Option.some.injEq] at h; subst h
      simp [names, List.map_cons]
      simpa [names] using ih fs' h2
    · simp at h

/-- equal key types (names and types, in key order) mean equal keys -/
theorem key_eq_of_keyType_eq {t t0 : TType} {kf : FieldList} (h0 : keyType t0 = some kf) (h : keyType t = keyType t0) :
    t.key = t0.key := by
  have a := keyFields_names t0.row t0.key kf h0
  have b := keyFields_names t.row t.key kf (by rw [← h0, ← h]; rfl)
  rw [← a, ← b]

/-- **`TableUnion` is always well typed**: whatever the front end accepts, all children it hands to `TableUnion` have the same
row type and key, so the type the IR implies is the type the table reports. -/
theorem unionIR_eq_reported (unify : Bool) (ts : List TType) : unionIR unify ts = unionReported unify ts := by
  unfold unionIR unionReported
  cases hc : unionChildren unify ts with
  | none => rfl
  | some cs =>
    cases cs with
    | nil => rfl
    | cons c0 cr =>
      simp only [Option.bind_some, List.head?_cons]
      suffices h : cr.all (fun c => c.row == c0.row && c.key == c0.key) = true by simp [h]
      unfold unionChildren at hc
      cases ts with
      | nil => simp at hc
      | cons t0 rest =>
        simp only [] at hc
        split at hc
        · simp at hc
        · rename_i hk
          simp only [Bool.or_eq_true, List.any_eq_true, not_or, not_exists, not_and,
            Option.isNone_iff_eq_none, bne_iff_ne, ne_eq, Decidable.not_not] at hk
          obtain ⟨hkeys, hsome⟩ := hk
          obtain ⟨kf, hkf⟩ : ∃ kf, keyType t0 = some kf := by
            cases h : keyType t0 with
            | none => exact absurd h (by simpa using hsome)
            | some kf => exact ⟨kf, rfl⟩
          have keyeq : ∀ t ∈ rest, t.key = t0.key := fun t ht => key_eq_of_keyType_eq hkf (hkeys t ht)
          split at hc
          · -- unify = false
            split at hc
            · rename_i hall
              simp only [Option.some.injEq, List.cons.injEq] at hc
              obtain ⟨rfl, rfl⟩ := hc
              simp only [List.all_eq_true, Bool.and_eq_true, beq_iff_eq]
              intro c hcm
              exact ⟨by simpa using (List.all_eq_true.mp hall) c hcm, keyeq c hcm⟩
            · simp at hc
          · split at hc
            · rename_i hall
              simp only [Option.some.injEq, List.cons.injEq] at hc
              obtain ⟨rfl, rfl⟩ := hc
              simp only [List.all_eq_true, Bool.and_eq_true, beq_iff_eq]
              intro c hcm
              exact ⟨by simpa using (List.all_eq_true.mp hall) c hcm, keyeq c hcm⟩
            · split at hc
              · simp at hc
              · rename_i fs _
                simp only [List.map_cons, Option.some.injEq, List.cons.injEq] at hc
                obtain ⟨rfl, rfl⟩ := hc
                simp only [List.all_eq_true, List.mem_map, Bool.and_eq_true, beq_iff_eq]
                rintro c ⟨t, ht, rfl⟩
                refine ⟨?_, keyeq t ht⟩
                simp only [hkeys t ht, hkf]

end HailVerif.TableType

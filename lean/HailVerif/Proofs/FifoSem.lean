import HailVerif.Model.FifoSem
/-! Helper lemmas for C16: invariants of `FifoSem.step`, lifted to `FifoSem.run`. -/
namespace HailVerif.FifoSem

/-- safety invariant -/
def Safe (cap : Nat) (s : State) : Prop := s.value + held s = cap ∧ 0 ≤ s.value

/-- the head of the queue does not fit -/
def HeadBlocked (s : State) : Prop := ∀ i w q, s.queue = (i, w) :: q → s.value < (w : Int)

/-- every queued weight is at most `cap` -/
def QueueLe (cap : Nat) (s : State) : Prop := ∀ p ∈ s.queue, p.2 ≤ cap

theorem weights_append (a b : List (Nat × Nat)) : weights (a ++ b) = weights a + weights b := by
  simp [weights, List.map_append, List.sum_append]

theorem weights_nil : weights [] = 0 := rfl

theorem weights_cons (p : Nat × Nat) (a : List (Nat × Nat)) : weights (p :: a) = p.2 + weights a := by
  simp [weights]

theorem take_weights : ∀ (l : List (Nat × Nat)) (i w : Nat) (r : List (Nat × Nat)),
    take i l = some (w, r) → weights l = w + weights r := by
  intro l
  induction l with
  | nil => intro i w r h; simp [take] at h
  | cons p l ih =>
    intro i w r h
    obtain ⟨j, wj⟩ := p
    simp only [take] at h
    split at h
    · simp at h; obtain ⟨rfl, rfl⟩ := h; simp [weights_cons]
    · split at h
      · simp at h
      · next w' r' heq =>
        simp at h; obtain ⟨rfl, rfl⟩ := h
        have := ih i w' r' heq
        simp [weights_cons] at *; omega

theorem take_ids : ∀ (l : List (Nat × Nat)) (i w : Nat) (r : List (Nat × Nat)),
    take i l = some (w, r) → i ∈ ids l := by
  intro l
  induction l with
  | nil => intro i w r h; simp [take] at h
  | cons p l ih =>
    intro i w r h
    obtain ⟨j, wj⟩ := p
    simp only [take] at h
    split at h
    · next hj => simp [ids, hj]
    · split at h
      · simp at h
      · next w' r' heq =>
        have := ih i w' r' heq
        simp [ids] at *; right; exact this

theorem drain_safe : ∀ (q : List (Nat × Nat)) (v : Int) (g h : List (Nat × Nat)), 0 ≤ v →
    (drain v g h q).1.value + weights (drain v g h q).1.granted = v + weights g ∧ 0 ≤ (drain v g h q).1.value ∧
    (drain v g h q).1.holders = h := by
  intro q
  induction q with
  | nil => intro v g h hv; simp [drain, hv]
  | cons p q ih =>
    intro v g h hv
    obtain ⟨i, w⟩ := p
    simp only [drain]
    split
    · next hfit =>
      have := ih (v - w) (g ++ [(i, w)]) h (by omega)
      simp only [weights_append, weights_cons, weights_nil] at this
      refine ⟨?_, this.2.1, this.2.2⟩
      simp only []; omega
    · simp [hv]

theorem drain_head : ∀ (q : List (Nat × Nat)) (v : Int) (g h : List (Nat × Nat)), HeadBlocked (drain v g h q).1 := by
  intro q
  induction q with
  | nil => intro v g h i w q' hq; simp [drain] at hq
  | cons p q ih =>
    intro v g h
    obtain ⟨i, w⟩ := p
    simp only [drain]
    split
    · exact ih _ _ _
    · next hfit =>
      intro i' w' q' hq
      simp at hq
      obtain ⟨⟨rfl, rfl⟩, _⟩ := hq
      simp; omega

theorem drain_trace : ∀ (q : List (Nat × Nat)) (v : Int) (g h : List (Nat × Nat)),
    grantedFromQueue (drain v g h q).2 ++ ids (drain v g h q).1.queue = ids q ∧ enqueued (drain v g h q).2 = [] := by
  intro q
  induction q with
  | nil => intro v g h; simp [drain, grantedFromQueue, enqueued, ids]
  | cons p q ih =>
    intro v g h
    obtain ⟨i, w⟩ := p
    simp only [drain]
    split
    · have := ih (v - w) (g ++ [(i, w)]) h
      simp only [grantedFromQueue, enqueued]
      constructor
      · simp [ids] at *; exact this.1
      · exact this.2
    · simp [grantedFromQueue, enqueued, ids]

theorem drain_queue_sub : ∀ (q : List (Nat × Nat)) (v : Int) (g h : List (Nat × Nat)),
    ∀ p ∈ (drain v g h q).1.queue, p ∈ q := by
  intro q
  induction q with
  | nil => intro v g h p hp; simp [drain] at hp
  | cons p0 q ih =>
    intro v g h p hp
    obtain ⟨i, w⟩ := p0
    simp only [drain] at hp
    split at hp
    · exact List.mem_cons_of_mem _ (ih _ _ _ p hp)
    · exact hp

/-- all four invariants are preserved by one step; the trace of the step extends the FIFO bookkeeping -/
theorem step_inv (cap : Nat) (s s' : State) (op : Op) (e : List Ev)
    (hw : ∀ i w, op = Op.acquire i w → w ≤ cap)
    (hs : Safe cap s) (hh : HeadBlocked s) (hq : QueueLe cap s) (h : step s op = some (s', e)) :
    Safe cap s' ∧ HeadBlocked s' ∧ QueueLe cap s' ∧
      grantedFromQueue e ++ ids s'.queue = ids s.queue ++ enqueued e := by
  cases op with
  | acquire i w =>
    simp only [step] at h
    split at h
    · simp at h
    · split at h
      · next hfit =>
        simp at h; obtain ⟨rfl, rfl⟩ := h
        obtain ⟨hq0, hv⟩ := hfit
        refine ⟨?_, ?_, hq, ?_⟩
        · unfold Safe held at *; simp only [weights_append, weights_cons, weights_nil] at *; omega
        · intro i' w' q' hq'
          simp at hq'
          cases hs' : s.queue with
          | nil => simp [hs'] at hq'
          | cons a b => simp [hs'] at hq0
        · simp [grantedFromQueue, enqueued]
      · next hnofit =>
        simp at h; obtain ⟨rfl, rfl⟩ := h
        refine ⟨hs, ?_, ?_, ?_⟩
        · intro i' w' q' hq'
          simp at hq'
          cases hs' : s.queue with
          | nil =>
            simp [hs'] at hq'
            obtain ⟨⟨rfl, rfl⟩, _⟩ := hq'
            simp [hs'] at hnofit
            omega
          | cons a b =>
            simp [hs'] at hq'
            obtain ⟨rfl, _⟩ := hq'
            exact hh _ _ _ hs'
        · intro p hp
          simp at hp
          rcases hp with hp | rfl
          · exact hq p hp
          · exact hw i _ rfl
        · simp [grantedFromQueue, enqueued, ids]
  | release i =>
    simp only [step] at h
    split at h
    · simp at h
    · next w rest htake =>
      simp at h
      have hwt := take_weights _ _ _ _ htake
      obtain ⟨hsum, hnn⟩ := hs
      have hd := drain_safe s.queue (s.value + w) s.granted rest (by omega)
      have ht := drain_trace s.queue (s.value + w) s.granted rest
      have hhd := drain_head s.queue (s.value + w) s.granted rest
      have hqs := drain_queue_sub s.queue (s.value + w) s.granted rest
      rw [h] at hd hhd ht hqs
      simp only at hd hhd ht hqs
      refine ⟨⟨?_, hd.2.1⟩, hhd, fun p hp => hq p (hqs p hp), ?_⟩
      · unfold held at *; rw [hd.2.2]; omega
      · rw [ht.2]; simpa using ht.1
  | resume i =>
    simp only [step] at h
    split at h
    · simp at h
    · next w rest htake =>
      simp at h; obtain ⟨rfl, rfl⟩ := h
      have hwt := take_weights _ _ _ _ htake
      refine ⟨?_, hh, hq, by simp [grantedFromQueue, enqueued]⟩
      unfold Safe held at *; simp only [weights_append, weights_cons, weights_nil] at *; omega

theorem run_inv (cap : Nat) : ∀ (ops : List Op) (s s' : State) (es : List Ev),
    WeightsLe cap ops → Safe cap s → HeadBlocked s → QueueLe cap s → run s ops = some (s', es) →
    Safe cap s' ∧ HeadBlocked s' ∧ QueueLe cap s' ∧
      grantedFromQueue es ++ ids s'.queue = ids s.queue ++ enqueued es := by
  intro ops
  induction ops with
  | nil =>
    intro s s' es _ hs hh hq h
    simp [run] at h; obtain ⟨rfl, rfl⟩ := h
    exact ⟨hs, hh, hq, by simp [grantedFromQueue, enqueued]⟩
  | cons op ops ih =>
    intro s s' es hw hs hh hq h
    simp only [run] at h
    split at h
    · simp at h
    · next s1 e hstep =>
      split at h
      · simp at h
      · next s2 es2 hrun =>
        simp at h; obtain ⟨rfl, rfl⟩ := h
        have h1 := step_inv cap s s1 op e (fun i w hop => hw i w (by simp [hop])) hs hh hq hstep
        obtain ⟨hs1, hh1, hq1, ht1⟩ := h1
        have h2 := ih s1 s2 es2 (fun i w hm => hw i w (List.mem_cons_of_mem _ hm)) hs1 hh1 hq1 hrun
        obtain ⟨hs2, hh2, hq2, ht2⟩ := h2
        refine ⟨hs2, hh2, hq2, ?_⟩
        have ga : ∀ a b, grantedFromQueue (a ++ b) = grantedFromQueue a ++ grantedFromQueue b := by
          intro a b; induction a with
          | nil => rfl
          | cons x a iha => cases x <;> simp [grantedFromQueue, iha]
        have ea : ∀ a b, enqueued (a ++ b) = enqueued a ++ enqueued b := by
          intro a b; induction a with
          | nil => rfl
          | cons x a iha => cases x <;> simp [enqueued, iha]
        rw [ga, ea, List.append_assoc, ht2, ← List.append_assoc, ht1, List.append_assoc]

theorem init_inv (cap : Nat) : Safe cap (init cap) ∧ HeadBlocked (init cap) ∧ QueueLe cap (init cap) := by
  refine ⟨by simp [Safe, held, init, weights], ?_, ?_⟩
  · intro i w q h; simp [init] at h
  · intro p hp; simp [init] at hp

end HailVerif.FifoSem

import HailVerif.Model.Retry
/-! Helper lemmas for C21. -/
namespace HailVerif.Retry

/-- an error the loop retries without limit -/
def Retryable (e : Exc) : Prop := isTransient e = true ∨ isRateLimit e = true

theorem retryStep_retryable (t : Nat) (e : Exc) (h : Retryable e) : retryStep t e = .retry := by
  unfold retryStep
  split
  · rfl
  · split
    · rfl
    · next hr =>
      rcases h with h | h
      · simp [h]
      · exact absurd h hr

theorem retryStep_not_retryable (t : Nat) (e : Exc) (ht : isTransient e = false) (hr : isRateLimit e = false) :
    retryStep t e = (if t ≤ 5 ∧ isLimited e = true then .retry else .raise) := by
  unfold retryStep
  by_cases h : t ≤ 5 ∧ isLimited e = true
  · simp [h.1, h.2]
  · rw [if_neg h]
    have : (decide (t ≤ 5) && isLimited e) = false := by
      cases hl : isLimited e
      · simp
      · have : ¬ t ≤ 5 := fun h1 => h ⟨h1, hl⟩
        simp [this]
    simp [this, hr, ht]

def nSleeps : Result → Nat
  | .returned _ _ s => s.length
  | .raised _ _ s => s.length
  | .scriptEnded _ s => s.length

def nCalls : Result → Nat
  | .returned _ c _ => c
  | .raised _ c _ => c
  | .scriptEnded c _ => c

/-- every failure of the script is neither transient nor a rate-limit error -/
def NoneRetryable : List Attempt → Prop
  | [] => True
  | .ok _ :: r => NoneRetryable r
  | .fail e _ :: r => isTransient e = false ∧ isRateLimit e = false ∧ NoneRetryable r

theorem loop_limited_sleeps : ∀ (script : List Attempt) (tries : Nat) (sleeps : List Nat), NoneRetryable script →
    nSleeps (loop tries sleeps script) ≤ sleeps.length + (5 - tries) := by
  intro script
  induction script with
  | nil => intro tries sleeps _; simp [loop, nSleeps]
  | cons a rest ih =>
    intro tries sleeps h
    cases a with
    | ok v => simp [loop, nSleeps]
    | fail e r =>
      obtain ⟨ht, hr, hrest⟩ := h
      simp only [loop, retryStep_not_retryable _ e ht hr]
      split
      · next heq =>
        split at heq
        · cases heq
        · simp [nSleeps]
      · next heq =>
        split at heq
        · next hc =>
          have := ih (tries + 1) (sleeps ++ [delayMs (tries + 1) defaultBase defaultMax r]) hrest
          simp at this
          omega
        · cases heq

/-- `delayMs` within its bounds (base 1000, max 60000) -/
def InBounds (tries d : Nat) : Prop :=
  min (defaultBase * 2 ^ (min tries 30) / 2) defaultMax ≤ d ∧ d ≤ min (defaultBase * 2 ^ (min tries 30)) defaultMax

theorem delayMs_inBounds (tries r : Nat) : InBounds tries (delayMs tries defaultBase defaultMax r) := by
  unfold InBounds delayMs
  have h1 : r % (defaultBase * 2 ^ (min tries 30) / 2 + 1) < defaultBase * 2 ^ (min tries 30) / 2 + 1 := Nat.mod_lt _ (by omega)
  have h2 : defaultBase * 2 ^ (min tries 30) / 2 * 2 ≤ defaultBase * 2 ^ (min tries 30) := Nat.div_mul_le_self _ _
  simp only []
  generalize defaultBase * 2 ^ (min tries 30) = c at *
  generalize r % (c / 2 + 1) = d at *
  omega

/-- the loop keeps "one sleep per failure so far, each within the bounds of its try number" -/
theorem loop_sleeps_bounded : ∀ (script : List Attempt) (tries : Nat) (sleeps : List Nat), sleeps.length = tries →
    (∀ j x, sleeps[j]? = some x → InBounds (j + 1) x) →
    ∀ i d, (loop tries sleeps script).sleeps[i]? = some d → InBounds (i + 1) d := by
  intro script
  induction script with
  | nil => intro tries sleeps _ hs i d h; exact hs i d (by simpa [loop, Result.sleeps] using h)
  | cons a rest ih =>
    intro tries sleeps hl hs i d h
    cases a with
    | ok v => exact hs i d (by simpa [loop, Result.sleeps] using h)
    | fail e r =>
      simp only [loop] at h
      split at h
      · exact hs i d (by simpa [Result.sleeps] using h)
      · refine ih (tries + 1) (sleeps ++ [delayMs (tries + 1) defaultBase defaultMax r]) (by simp [hl]) ?_ i d h
        intro j x hx
        by_cases hj : j < sleeps.length
        · rw [List.getElem?_append_left hj] at hx; exact hs j x hx
        · have : j = sleeps.length := by
            have := (List.getElem?_eq_some_iff.mp hx).1
            simp at this; omega
          subst this
          simp at hx; subst hx
          rw [hl]; exact delayMs_inBounds (tries + 1) r

/-- the sleeps of a run of retryable failures starting after `start` failures -/
def sleepsOf (start : Nat) : List (Exc × Nat) → List Nat
  | [] => []
  | (_, r) :: t => delayMs (start + 1) defaultBase defaultMax r :: sleepsOf (start + 1) t

theorem sleepsOf_length (start : Nat) (l : List (Exc × Nat)) : (sleepsOf start l).length = l.length := by
  induction l generalizing start with
  | nil => rfl
  | cons p t ih => obtain ⟨e, r⟩ := p; simp [sleepsOf, ih]

theorem loop_retries_until_success : ∀ (fails : List (Exc × Nat)) (tries : Nat) (sleeps : List Nat) (v : Nat)
    (rest : List Attempt), (∀ p ∈ fails, Retryable p.1) →
    loop tries sleeps (fails.map (fun p => Attempt.fail p.1 p.2) ++ Attempt.ok v :: rest) =
      .returned v (tries + fails.length + 1) (sleeps ++ sleepsOf tries fails) := by
  intro fails
  induction fails with
  | nil => intro tries sleeps v rest _; simp [loop, sleepsOf]
  | cons p t ih =>
    intro tries sleeps v rest h
    obtain ⟨e, r⟩ := p
    have he : Retryable e := h (e, r) (by simp)
    simp only [List.map_cons, List.cons_append, loop, retryStep_retryable _ e he]
    rw [ih (tries + 1) _ v rest (fun p hp => h p (by simp [hp]))]
    simp [sleepsOf, Nat.add_assoc, Nat.add_comm 1]

/-- in the current table every rate-limit error is also transient (status 429 is retryable; 403 + rateLimitExceeded is listed in
both classifiers) -/
theorem rateLimit_implies_transient (e : Exc) (h : isRateLimit e = true) : isTransient e = true := by
  cases e with
  | nil => simp [isRateLimit] at h
  | mk d os cause =>
    simp only [isRateLimit] at h
    unfold isTransient
    split at h
    · next h1 =>
      have : d.aiohttpStatus = some 429 := by simpa using h1
      simp [this, retryableStatus]
    · split at h
      · next st hst =>
        have h2 : (st == 429 || (st == 403 && d.bodyRateLimit)) = true := h
        have : (retryableStatus st || (st == 403 && d.bodyRateLimit)) = true := by
          simp only [Bool.or_eq_true] at h2 ⊢
          rcases h2 with h2 | h2
          · left; simp at h2; subst h2; decide
          · right; exact h2
        simp only [this]
        split <;> simp
      · simp at h

end HailVerif.Retry

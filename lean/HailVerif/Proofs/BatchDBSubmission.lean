import HailVerif.Proofs.BatchDBCancel
/-!
Helper lemmas for the submission path (C09, C08, C06): `createBatch`, `createUpdate`, `insertGroups`, `insertJobs`,
`commitUpdate`.

* idempotence of each request (`…_idem`), by one "cases" lemma per transaction;
* `Quiet s s'`: the transaction adds no row to `jobs`, `job_parents`, `batch_updates` (rows are rewritten in place with
  their identity columns kept) — holds for every op except an accepted `createUpdate` / `insertJobs`;
* the chain invariant of `batch_updates` (`RangesOK`);
* the staging invariant (`StagingOK`) that relates `job_groups_inst_coll_staging` to the inserted job rows.
-/
namespace HailVerif.BatchDB.Submission
open HailVerif.BatchDB

/-! ## `createBatch` -/

theorem createBatch_idem (s : State) (u bp t : Nat) :
    createBatch (createBatch s u bp t).1 u bp t = ((createBatch s u bp t).1, (createBatch s u bp t).2) := by
  cases h : s.batches.find? (fun b => b.token = t ∧ b.user = u) with
  | some b =>
    have e : createBatch s u bp t = (s, .ok b.id) := by simp only [createBatch, h]
    rw [e]; exact e
  | none =>
    have e : createBatch s u bp t = ({ s with
        batches := s.batches ++ [Batch.mk s.nextBatch u bp t .complete 0 false]
        groups := s.groups ++ [Group.mk s.nextBatch 0 [0] none .complete 0 0 0 0 0]
        nextBatch := s.nextBatch + 1 }, .ok s.nextBatch) := by simp only [createBatch, h]
    rw [e]
    have h2 : (s.batches ++ [Batch.mk s.nextBatch u bp t .complete 0 false]).find? (fun b => b.token = t ∧ b.user = u) =
        some (Batch.mk s.nextBatch u bp t .complete 0 false) := by
      rw [List.find?_append, h]; simp
    simp only [createBatch, h2]

/-! ## `createUpdate` and the chain of `batch_updates` rows of one batch -/

/-- `u` is the update that `_create_batch_update` creates after the latest update `p` of the batch -/
def Follows : Option Update → Update → Prop
  | none, u => u.id = 1 ∧ u.startJob = 1 ∧ u.startGroup = 1
  | some m, u => u.id = m.id + 1 ∧ u.startJob = m.startJob + m.nJobs ∧ u.startGroup = m.startGroup + m.nGroups

instance (p : Option Update) (u : Update) : Decidable (Follows p u) := by
  cases p <;> unfold Follows <;> infer_instance

def lastOr : Option Update → List Update → Option Update
  | p, [] => p
  | _, u :: rest => lastOr (some u) rest

/-- every row follows its predecessor (`p` = the row before the list) -/
def ChainedFrom : Option Update → List Update → Prop
  | _, [] => True
  | p, u :: rest => Follows p u ∧ ChainedFrom (some u) rest

/-- the `batch_updates` rows of batch `b`, in insertion order -/
def updatesOf (s : State) (b : Nat) : List Update := s.updates.filter (·.batch = b)

theorem chainedFrom_append (us : List Update) (v : Update) :
    ∀ p, ChainedFrom p (us ++ [v]) ↔ ChainedFrom p us ∧ Follows (lastOr p us) v := by
  induction us with
  | nil => intro p; simp [ChainedFrom, lastOr]
  | cons u rest ih => intro p; simp only [List.cons_append, ChainedFrom, lastOr, ih, and_assoc]

/-- `SELECT … ORDER BY update_id DESC LIMIT 1` over a chained list is its last row -/
theorem foldl_last (f : Option Update → Update → Option Update)
    (h0 : ∀ u, f none u = some u) (h1 : ∀ m u, f (some m) u = if u.id > m.id then some u else some m) :
    ∀ (us : List Update) (p : Option Update), ChainedFrom p us → us.foldl f p = lastOr p us := by
  intro us
  induction us with
  | nil => intro p _; rfl
  | cons u rest ih =>
    intro p hc
    simp only [List.foldl_cons, lastOr]
    have hf : f p u = some u := by
      cases p with
      | none => exact h0 u
      | some m =>
        rw [h1]
        have : u.id = m.id + 1 := hc.1.1
        simp [this]
    rw [hf]
    exact ih (some u) hc.2

/-- the row `_create_batch_update` inserts when the latest row of the batch is `last` -/
def nextUpdate (last : Option Update) (b t nj ng : Nat) : Update :=
  match last with
  | some m => Update.mk b (m.id + 1) t (m.startJob + m.nJobs) nj (m.startGroup + m.nGroups) ng false
  | none => Update.mk b 1 t 1 nj 1 ng false

theorem follows_nextUpdate (last : Option Update) (b t nj ng : Nat) : Follows last (nextUpdate last b t nj ng) := by
  cases last <;> simp [Follows, nextUpdate]

/-- the outcomes of `_create_batch_update`: nothing changes (error, or the token is known to the owner: the stored update
id is answered), or one row is appended to `batch_updates` -/
theorem createUpdate_cases (s : State) (b t nj ng usr : Nat) :
    (∃ o, createUpdate s b t nj ng usr = (s, o) ∧
      (∀ u, s.updates.find? (fun u => u.batch = b ∧ u.token = t ∧ ownedBy s b usr) = some u → ¬ (nj = 0 ∧ ng = 0) →
        o = .ok u.id)) ∨
    (∃ last : Option Update,
      createUpdate s b t nj ng usr =
        ({ s with updates := s.updates ++ [nextUpdate last b t nj ng] }, .ok (nextUpdate last b t nj ng).id) ∧
      (ChainedFrom none (updatesOf s b) → last = lastOr none (updatesOf s b)) ∧
      s.updates.find? (fun u => u.batch = b ∧ u.token = t) = none ∧ ¬ (nj = 0 ∧ ng = 0) ∧
      (∃ bt, findBatch s b = some bt ∧ bt.user = usr ∧ bt.deleted = false) ∧ s.cancelled.contains (b, 0) = false) := by
  unfold createUpdate
  by_cases h0 : nj = 0 ∧ ng = 0
  · rw [if_pos h0]; exact Or.inl ⟨_, rfl, fun _ _ h => absurd h0 h⟩
  rw [if_neg h0]
  split
  · rename_i u hu; exact Or.inl ⟨_, rfl, fun v hv _ => by rw [hu] at hv; cases hv; rfl⟩
  · rename_i hfind
    have hno : ∀ (o : Out) (v : Update), s.updates.find? (fun u => u.batch = b ∧ u.token = t ∧ ownedBy s b usr) = some v →
        ¬ (nj = 0 ∧ ng = 0) → o = .ok v.id := fun o v hv => by rw [hfind] at hv; cases hv
    split
    · exact Or.inl ⟨_, rfl, hno _⟩
    · rename_i bt hbt
      by_cases hu : bt.user ≠ usr ∨ bt.deleted = true
      · rw [if_pos hu]; exact Or.inl ⟨_, rfl, hno _⟩
      rw [if_neg hu]
      by_cases hc : s.cancelled.contains (b, 0) = true
      · rw [if_pos hc]; exact Or.inl ⟨_, rfl, hno _⟩
      rw [if_neg hc]
      right
      simp only [not_or, ne_eq, Decidable.not_not, Bool.not_eq_true] at hu
      have hown : ownedBy s b usr = true := by simp [ownedBy, hbt, hu.1, hu.2]
      have hfind' : s.updates.find? (fun u => u.batch = b ∧ u.token = t) = none := by
        rw [List.find?_eq_none] at hfind ⊢
        intro x hx; have := hfind x hx; simpa [hown] using this
      dsimp only
      generalize hlast : List.foldl _ none (List.filter _ s.updates) = last
      refine ⟨last, ?_, ?_, hfind', h0, ⟨bt, hbt, hu.1, hu.2⟩, by simpa using hc⟩
      · cases last <;> rfl
      · intro hch
        rw [← hlast]
        exact foldl_last _ (fun _ => rfl) (fun _ _ => rfl) _ none hch

theorem createUpdate_idem (s : State) (b t nj ng usr : Nat) :
    createUpdate (createUpdate s b t nj ng usr).1 b t nj ng usr =
      ((createUpdate s b t nj ng usr).1, (createUpdate s b t nj ng usr).2) := by
  rcases createUpdate_cases s b t nj ng usr with ⟨o, e, _⟩ | ⟨last, e, _, hfind, h0, ⟨bt, hbt, hb1, hb2⟩, _⟩
  · rw [e]; exact e
  · rw [e]
    have hnb : (nextUpdate last b t nj ng).batch = b ∧ (nextUpdate last b t nj ng).token = t := by
      cases last <;> exact ⟨rfl, rfl⟩
    generalize nextUpdate last b t nj ng = nu at *
    have hown : ownedBy { s with updates := s.updates ++ [nu] } b usr = true := by
      have : findBatch { s with updates := s.updates ++ [nu] } b = some bt := hbt
      simp [ownedBy, this, hb1, hb2]
    have h2 : (s.updates ++ [nu]).find?
        (fun u => u.batch = b ∧ u.token = t ∧ ownedBy { s with updates := s.updates ++ [nu] } b usr) = some nu := by
      have h1 : s.updates.find? (fun u => u.batch = b ∧ u.token = t ∧
          ownedBy { s with updates := s.updates ++ [nu] } b usr) = none := by
        rw [List.find?_eq_none] at hfind ⊢
        intro x hx; have := hfind x hx; simp only [hown]; simpa using this
      rw [List.find?_append, h1]
      simp [hnb.1, hnb.2, hown]
    simp only [createUpdate, h0, if_false, h2]

/-! ## `insertGroups` -/

theorem insertGroup_eq {s s' : State} {b upd gid parent : Nat} (h : insertGroup s b upd gid parent = some s') :
    s' = { s with groups := s.groups ++ [Group.mk b gid (gid :: ancestorsOf s b parent) (some upd) .complete 0 0 0 0 0] } ∧
    groupCancelled s b parent = false ∧ findGroup s b gid = none ∧ parent < gid := by
  unfold insertGroup at h
  split_ifs at h with h1 h2 h3
  simp only [Option.some.injEq] at h
  exact ⟨h.symm, by simpa using h1, by simpa using h2, by simpa using h3⟩

/-- the ancestor list of a group row is duplicate-free and bounded by the group id -/
def RowAncOK (g : Group) : Prop := g.ancestors.Nodup ∧ ∀ a ∈ g.ancestors, a ≤ g.id

/-- ancestor lists are duplicate-free and bounded by the group id -/
def AncOK (s : State) : Prop := ∀ g ∈ s.groups, RowAncOK g

theorem ancestorsOf_le {s : State} (h : AncOK s) (b g : Nat) : ∀ a ∈ ancestorsOf s b g, a ≤ g := by
  unfold ancestorsOf
  cases hf : findGroup s b g with
  | none => intro a ha; simp at ha
  | some x =>
    unfold findGroup at hf
    have hm := List.mem_of_find?_eq_some hf
    have hk := List.find?_some hf
    simp only [decide_eq_true_eq] at hk
    intro a ha
    rw [← hk.2]; exact (h x hm).2 a ha

theorem ancestorsOf_nodup {s : State} (h : AncOK s) (b g : Nat) : (ancestorsOf s b g).Nodup := by
  unfold ancestorsOf
  cases hf : findGroup s b g with
  | none => simp
  | some x =>
    unfold findGroup at hf
    exact (h x (List.mem_of_find?_eq_some hf)).1

theorem ancOK_insertGroup {s s' : State} {b upd gid parent : Nat} (h : AncOK s)
    (hi : insertGroup s b upd gid parent = some s') :
    RowAncOK (Group.mk b gid (gid :: ancestorsOf s b parent) (some upd) .complete 0 0 0 0 0) ∧ AncOK s' := by
  obtain ⟨e, -, -, hlt⟩ := insertGroup_eq hi
  have hrow : RowAncOK (Group.mk b gid (gid :: ancestorsOf s b parent) (some upd) .complete 0 0 0 0 0) := by
    refine ⟨?_, ?_⟩
    · show (gid :: ancestorsOf s b parent).Nodup
      rw [List.nodup_cons]
      refine ⟨fun hm => ?_, ancestorsOf_nodup h b parent⟩
      have := ancestorsOf_le h b parent gid hm; omega
    · intro a ha
      show a ≤ gid
      rcases List.mem_cons.mp ha with rfl | ha
      · exact Nat.le_refl _
      · have := ancestorsOf_le h b parent a ha; omega
  refine ⟨hrow, ?_⟩
  rw [e]
  intro g hg
  rcases List.mem_append.mp hg with hg | hg
  · exact h g hg
  · rw [List.mem_singleton.mp hg]; exact hrow

/-- rows a group bunch of update `upd` may add -/
def NewGroup (b upd : Nat) (g : Group) : Prop :=
  g.batch = b ∧ g.update = some upd ∧ g.state = .complete ∧ g.nJobs = 0 ∧ g.nCompleted = 0 ∧ g.id ∈ g.ancestors

theorem foldGroups_eq (b upd : Nat) (u : Update) (specs : List GroupSpec) :
    ∀ (s s' : State), specs.foldl (groupSpecStep b upd u) (some s) = some s' →
      ∃ new, s' = { s with groups := s.groups ++ new } ∧ (∀ g ∈ new, NewGroup b upd g) ∧
        new.map (·.id) = specs.map (fun sp => u.startGroup + sp.relId - 1) ∧
        (AncOK s → ∀ g ∈ new, RowAncOK g) := by
  induction specs with
  | nil => intro s s' h; simp at h; subst h; exact ⟨[], by simp, by simp, rfl, by simp⟩
  | cons sp rest ih =>
    intro s s' h
    simp only [List.foldl_cons] at h
    cases hmid : groupSpecStep b upd u (some s) sp with
    | none => rw [hmid, foldGroups_none] at h; exact absurd h (by simp)
    | some mid =>
      rw [hmid] at h
      obtain ⟨par, hpar⟩ : ∃ par, insertGroup s b upd (u.startGroup + sp.relId - 1) par = some mid :=
        ⟨_, by simpa [groupSpecStep] using hmid⟩
      obtain ⟨e1, -⟩ := insertGroup_eq hpar
      obtain ⟨new, e2, hn, hid, hanc⟩ := ih mid s' h
      refine ⟨Group.mk b (u.startGroup + sp.relId - 1) ((u.startGroup + sp.relId - 1) :: ancestorsOf s b par) (some upd)
        .complete 0 0 0 0 0 :: new, ?_, ?_, ?_, ?_⟩
      · rw [e2, e1]; simp
      · intro g hg
        rcases List.mem_cons.mp hg with rfl | hg
        · exact ⟨rfl, rfl, rfl, rfl, rfl, by simp⟩
        · exact hn g hg
      · simp [hid]
      · intro ha g hg
        obtain ⟨hrow, hmid⟩ := ancOK_insertGroup ha hpar
        rcases List.mem_cons.mp hg with rfl | hg
        · exact hrow
        · exact hanc hmid g hg

theorem foldl_max_ge (l : List Group) : ∀ (m0 : Nat), m0 ≤ l.foldl (fun m g => max m g.id) m0 ∧
    ∀ g ∈ l, g.id ≤ l.foldl (fun m g => max m g.id) m0 := by
  induction l with
  | nil => intro m0; simp
  | cons x l ih =>
    intro m0
    simp only [List.foldl_cons]
    obtain ⟨h1, h2⟩ := ih (max m0 x.id)
    refine ⟨by omega, ?_⟩
    intro g hg
    rcases List.mem_cons.mp hg with rfl | hg
    · omega
    · exact h2 g hg

theorem le_maxGroupId {s : State} {b : Nat} {g : Group} (hg : g ∈ s.groups) (hb : g.batch = b) :
    g.id ≤ maxGroupId s b := by
  unfold maxGroupId
  exact (foldl_max_ge _ 0).2 g (by simp [hg, hb])

/-- the outcomes of `_create_job_groups`: an error and nothing changes, or `ok 0` and the new group rows are appended -/
theorem insertGroups_cases (s : State) (b upd user : Nat) (specs : List GroupSpec) :
    (∃ e, insertGroups s b upd user specs = (s, .err e)) ∨
    (∃ first rest u bt new, specs = first :: rest ∧ findUpdate s b upd = some u ∧ findBatch s b = some bt ∧
      bt.user = user ∧ bt.deleted = false ∧ u.committed = false ∧
      u.startGroup + first.relId - 1 = maxGroupId s b + 1 ∧
      insertGroups s b upd user specs = ({ s with groups := s.groups ++ new }, .ok 0) ∧
      (∀ g ∈ new, NewGroup b upd g) ∧ new.map (·.id) = specs.map (fun sp => u.startGroup + sp.relId - 1) ∧
      (AncOK s → ∀ g ∈ new, RowAncOK g)) := by
  unfold insertGroups
  split
  · exact Or.inl ⟨_, rfl⟩
  · rename_i first rest
    split
    · rename_i u bt hu hbt
      split_ifs with h1 h2 h3
      · exact Or.inl ⟨_, rfl⟩
      · exact Or.inl ⟨_, rfl⟩
      · exact Or.inl ⟨_, rfl⟩
      · dsimp only
        split
        · rename_i s' hr
          obtain ⟨new, e, hn, hid, hanc⟩ := foldGroups_eq b upd u _ s s' hr
          simp only [not_or, ne_eq, Decidable.not_not] at h1
          exact Or.inr ⟨first, rest, u, bt, new, rfl, hu, hbt, h1.1, by simpa using h1.2, by simpa using h2,
            by simpa using h3, by rw [e], hn, hid, hanc⟩
        · exact Or.inl ⟨_, rfl⟩
    · exact Or.inl ⟨_, rfl⟩

/-- A re-sent group bunch is NOT a silent success: the first group id is no longer `max + 1`, the request is answered
'job group specs were not submitted in order' (400) and nothing changes. -/
theorem insertGroups_resend (s : State) (b upd user : Nat) (specs : List GroupSpec)
    (hok : (insertGroups s b upd user specs).2 = .ok 0) :
    insertGroups (insertGroups s b upd user specs).1 b upd user specs =
      ((insertGroups s b upd user specs).1, .err "out-of-order") := by
  rcases insertGroups_cases s b upd user specs with ⟨e, he⟩ | ⟨first, rest, u, bt, new, hs, hu, hbt, h1, h2, h3, h4, e, hn, hid, -⟩
  · rw [he] at hok; cases hok
  · rw [e]
    subst hs
    -- the first group of the bunch now exists, so the maximal id is at least its id
    cases new with
    | nil => simp at hid
    | cons g new' =>
      simp only [List.map_cons, List.cons.injEq] at hid
      have hmax : g.id ≤ maxGroupId { s with groups := s.groups ++ g :: new' } b :=
        le_maxGroupId (by simp) (hn g (by simp)).1
      have hne : u.startGroup + first.relId - 1 ≠ maxGroupId { s with groups := s.groups ++ g :: new' } b + 1 := by
        rw [← hid.1]; omega
      have hu' : findUpdate { s with groups := s.groups ++ g :: new' } b upd = some u := hu
      have hbt' : findBatch { s with groups := s.groups ++ g :: new' } b = some bt := hbt
      unfold insertGroups
      simp only [hu', hbt']
      rw [if_neg (by simp [h1, h2]), if_neg (by simp [h3]), if_pos hne]

/-! ## `insertJobs` -/

/-- the outcomes of `_create_jobs`: nothing changes, or the bunch passes every check and its rows are written -/
theorem insertJobs_cases (s : State) (b upd user : Nat) (specs : List JobSpec) :
    (∃ o, insertJobs s b upd user specs = (s, o)) ∨
    (∃ first rest u bt, specs = first :: rest ∧ findUpdate s b upd = some u ∧ findBatch s b = some bt ∧
      insertJobsReject s b user u bt first specs = none ∧
      insertJobs s b upd user specs = (insertJobsApply s b upd u specs, .ok 0)) := by
  unfold insertJobs
  split
  · exact Or.inl ⟨_, rfl⟩
  · rename_i first rest
    split
    · rename_i u bt hu hbt
      split
      · exact Or.inl ⟨_, rfl⟩
      · rename_i hrej
        exact Or.inr ⟨first, rest, u, bt, rfl, hu, hbt, hrej, rfl⟩
    · exact Or.inl ⟨_, rfl⟩

/-- ER_DUP_ENTRY early return: the first job of the bunch passes the `jobs_before_insert` trigger (its group is not
cancelled) and its id already exists ⇒ `ok 0`, nothing changes -/
theorem insertJobs_dup (s : State) (b upd user : Nat) (first : JobSpec) (rest : List JobSpec) (u : Update) (bt : Batch)
    (hu : findUpdate s b upd = some u) (hbt : findBatch s b = some bt) (h1 : bt.user = user) (h2 : bt.deleted = false)
    (h3 : u.committed = false) (hids : ∀ sp ∈ first :: rest, specIdsOk u sp = true)
    (hnc : groupCancelled s b (mkJob u b first).group = false)
    (hdup : (findJob s b (first.relId + u.startJob - 1)).isSome) :
    insertJobs s b upd user (first :: rest) = (s, .ok 0) := by
  have hrej := insertJobsReject_dup s b user first rest u bt h1 h2 h3 hids hnc hdup
  simp only [insertJobs, hu, hbt, hrej]

theorem insertJobs_idem (s : State) (b upd user : Nat) (specs : List JobSpec) :
    insertJobs (insertJobs s b upd user specs).1 b upd user specs =
      ((insertJobs s b upd user specs).1, (insertJobs s b upd user specs).2) := by
  rcases insertJobs_cases s b upd user specs with ⟨o, e⟩ | ⟨first, rest, u, bt, hs, hu, hbt, hrej, e⟩
  · rw [e]; exact e
  · rw [e]
    subst hs
    obtain ⟨hall, -, h3, h1, h2⟩ := insertJobsReject_none hrej
    refine insertJobs_dup _ b upd user first rest u bt hu hbt h1 h2 h3 (insertJobsReject_ids hrej) ?_ ?_
    · -- `insertJobsApply` touches neither `groups` nor `cancelled`
      exact (hall (mkJob u b first) (by simp)).1
    have hnone : findJob s b (first.relId + u.startJob - 1) = none := (hall (mkJob u b first) (by simp)).2.2
    unfold findJob at hnone ⊢
    simp only [insertJobsApply, List.map_cons, List.find?_append, hnone]
    simp [mkJob]

/-! ## `commitUpdate` -/

/-- `UPDATE batch_updates SET committed = 1 WHERE batch_id = b AND update_id = upd` -/
def markCommitted (b upd : Nat) (x : Update) : Update :=
  if x.batch = b ∧ x.id = upd then { x with committed := true } else x

theorem markCommitted_key (b upd : Nat) (x : Update) :
    (markCommitted b upd x).batch = x.batch ∧ (markCommitted b upd x).id = x.id := by
  unfold markCommitted; split_ifs <;> exact ⟨rfl, rfl⟩

/-- the outcomes of `commit_batch_update`: nothing changes (unknown update or wrong number of jobs: rc 1; already
committed: rc 0), or rc 0 and the update row is marked committed -/
theorem commitUpdate_cases (s : State) (b upd : Nat) :
    (∃ o, commitUpdate s b upd = (s, o) ∧ (∀ u, findUpdate s b upd = some u → u.committed = true → o = .ok 0)) ∨
    (∃ u, findUpdate s b upd = some u ∧ u.committed = false ∧ (commitUpdate s b upd).2 = .ok 0 ∧
      (commitUpdate s b upd).1.updates = s.updates.map (markCommitted b upd)) := by
  unfold commitUpdate
  split
  · rename_i h; exact Or.inl ⟨_, rfl, fun u hu => by rw [h] at hu; cases hu⟩
  · rename_i u hu
    by_cases hc : u.committed = true
    · rw [if_pos hc]; exact Or.inl ⟨_, rfl, fun _ _ _ => rfl⟩
    · rw [if_neg hc]
      have hc' : u.committed = false := by simpa using hc
      have hno : ∀ v, findUpdate s b upd = some v → v.committed = true → Out.ok 1 = Out.ok 0 :=
        fun v hv hvc => by rw [hu] at hv; cases hv; rw [hc'] at hvc; cases hvc
      model_split
      all_goals first | exact Or.inl ⟨_, rfl, hno⟩ | exact Or.inr ⟨u, hu, hc', rfl, rfl⟩

theorem findUpdate_markCommitted {s s' : State} {b upd : Nat} {u : Update} (hu : findUpdate s b upd = some u)
    (e : s'.updates = s.updates.map (markCommitted b upd)) :
    findUpdate s' b upd = some { u with committed := true } := by
  have hk := List.find?_some hu
  simp only [decide_eq_true_eq] at hk
  unfold findUpdate at *
  rw [e]
  have := find?_map_append_some (fun x => decide (x.batch = b ∧ x.id = upd)) (markCommitted b upd)
    (by intro y; simp [(markCommitted_key b upd y).1, (markCommitted_key b upd y).2]) s.updates [] u hu
  rw [List.append_nil] at this
  rw [this]
  simp [markCommitted, hk]

theorem commitUpdate_idem (s : State) (b upd : Nat) :
    commitUpdate (commitUpdate s b upd).1 b upd = ((commitUpdate s b upd).1, (commitUpdate s b upd).2) := by
  rcases commitUpdate_cases s b upd with ⟨o, e, _⟩ | ⟨u, hu, hc, ho, e⟩
  · rw [e]; exact e
  · have h2 := findUpdate_markCommitted hu e
    rw [ho]
    generalize (commitUpdate s b upd).1 = s' at *
    unfold commitUpdate
    rw [h2]
    simp

/-! ## `Quiet`: transactions that add no row to `jobs`, `job_parents`, `batch_updates` -/

/-- in-place update of `batch_updates` rows: only `committed` may change, and only to true -/
def UpdFrame (F : Update → Update) : Prop := ∀ x, F x = x ∨ F x = { x with committed := true }

theorem UpdFrame.id : UpdFrame id := fun _ => Or.inl rfl

theorem UpdFrame.comp {F G : Update → Update} (hF : UpdFrame F) (hG : UpdFrame G) : UpdFrame (G ∘ F) := by
  intro x
  simp only [Function.comp]
  rcases hF x with h | h <;> rcases hG (F x) with h' | h' <;> rw [h', h] <;> simp

theorem updFrame_markCommitted (b upd : Nat) : UpdFrame (markCommitted b upd) := by
  intro x; unfold markCommitted; split_ifs
  · exact Or.inr rfl
  · exact Or.inl rfl

theorem UpdFrame.fields {F : Update → Update} (hF : UpdFrame F) (x : Update) :
    (F x).batch = x.batch ∧ (F x).id = x.id ∧ (F x).token = x.token ∧ (F x).startJob = x.startJob ∧
    (F x).nJobs = x.nJobs ∧ (F x).startGroup = x.startGroup ∧ (F x).nGroups = x.nGroups ∧
    (x.committed = true → (F x).committed = true) := by
  rcases hF x with h | h <;> rw [h] <;> simp

structure Quiet (s s' : State) : Prop where
  jobs : ∃ F, JobFrame F ∧ s'.jobs = s.jobs.map F
  parents : s'.parents = s.parents
  updates : ∃ F, UpdFrame F ∧ s'.updates = s.updates.map F

theorem Quiet.of_eq {s s' : State} (hj : s'.jobs = s.jobs) (hp : s'.parents = s.parents) (hu : s'.updates = s.updates) :
    Quiet s s' := ⟨⟨id, JobFrame.id, by simp [hj]⟩, hp, ⟨id, UpdFrame.id, by simp [hu]⟩⟩

theorem Quiet.refl (s : State) : Quiet s s := Quiet.of_eq rfl rfl rfl

theorem Quiet.trans {a b c : State} (h1 : Quiet a b) (h2 : Quiet b c) : Quiet a c := by
  obtain ⟨⟨F1, hF1, e1⟩, p1, ⟨U1, hU1, u1⟩⟩ := h1
  obtain ⟨⟨F2, hF2, e2⟩, p2, ⟨U2, hU2, u2⟩⟩ := h2
  exact ⟨⟨F2 ∘ F1, hF1.comp hF2, by rw [e2, e1, List.map_map]⟩, p2.trans p1,
    ⟨U2 ∘ U1, hU1.comp hU2, by rw [u2, u1, List.map_map]⟩⟩

theorem quiet_updateJobs (s : State) (p : Job → Bool) (f : Job → Job) (hf : JobFrame f) : Quiet s (updateJobs s p f) :=
  ⟨⟨_, JobFrame.ite p hf, updateJobs_jobs s p f⟩, rfl, ⟨id, UpdFrame.id, by simp⟩⟩

theorem quiet_updateAttempts (s : State) (d : Nat) (p : Attempt → Bool)
    (f : Generated.AttemptsTrigger.Row → Generated.AttemptsTrigger.Row) : Quiet s (updateAttempts s d p f) :=
  Quiet.of_eq rfl rfl rfl

theorem quiet_addAttempt (s : State) (b j : Nat) (a i : Option Nat) (c : Int) : Quiet s (addAttempt s b j a i c).1 :=
  Quiet.of_eq (by simp) (by simp) (by simp)

theorem quiet_createBatch (s : State) (u bp t : Nat) : Quiet s (createBatch s u bp t).1 := by
  unfold createBatch; model_split <;> exact Quiet.of_eq rfl rfl rfl

theorem quiet_insertGroups (s : State) (b upd user : Nat) (specs : List GroupSpec) :
    Quiet s (insertGroups s b upd user specs).1 := by
  rcases insertGroups_cases s b upd user specs with ⟨e, he⟩ | ⟨_, _, _, _, new, _, _, _, _, _, _, _, e, _⟩
  · rw [he]; exact Quiet.refl s
  · rw [e]; exact Quiet.of_eq rfl rfl rfl

theorem quiet_commitUpdate (s : State) (b upd : Nat) : Quiet s (commitUpdate s b upd).1 := by
  unfold commitUpdate
  model_split
  all_goals first
    | exact Quiet.refl s
    | exact ⟨⟨id, JobFrame.id, (List.map_id _).symm⟩, rfl, ⟨_, updFrame_markCommitted b upd, rfl⟩⟩
    | skip
  refine Quiet.trans (b := _) ?_ (quiet_updateJobs _ _ _ ?_)
  · exact ⟨⟨id, JobFrame.id, (List.map_id _).symm⟩, rfl, ⟨_, updFrame_markCommitted b upd, rfl⟩⟩
  · intro x
    refine ⟨rfl, rfl, rfl, rfl, rfl, rfl, rfl, ?_⟩
    intro hx; dsimp only; split_ifs <;> simp_all

theorem quiet_cancelGroup (s : State) (b g : Nat) : Quiet s (cancelGroup s b g).1 := by
  unfold cancelGroup; split_ifs <;> exact Quiet.of_eq rfl rfl rfl

theorem quiet_deleteBatch (s : State) (b : Nat) : Quiet s (deleteBatch s b).1 := by
  unfold deleteBatch; split
  · exact Quiet.refl s
  · split_ifs <;> exact Quiet.of_eq rfl rfl rfl

theorem quiet_newInstance (s : State) (n : Nat) (c : Int) (p : Bool) : Quiet s (newInstance s n c p).1 := by
  unfold newInstance; split_ifs <;> exact Quiet.of_eq rfl rfl rfl

theorem quiet_activate (s : State) (n : Nat) : Quiet s (activate s n).1 := by
  unfold activate; model_split <;> exact Quiet.of_eq rfl rfl rfl

theorem quiet_markDeleted (s : State) (n : Nat) : Quiet s (markDeleted s n).1 := by
  unfold markDeleted; model_split <;> exact Quiet.of_eq rfl rfl rfl

theorem quiet_deactivate (s : State) (n : Nat) (r : String) (ts : Int) (d : Nat) : Quiet s (deactivate s n r ts d).1 := by
  unfold deactivate
  split
  · exact Quiet.refl s
  · split_ifs
    · exact Quiet.refl s
    · unfold deactivateApply
      exact ((quiet_updateAttempts s d _ _).trans (quiet_updateJobs _ _ _ (jobFrame_setStateAttempt _ _))).trans
        (Quiet.of_eq rfl rfl rfl)

theorem quiet_schedule (s : State) (b j a i : Nat) : Quiet s (schedule s b j a i).1 := by
  unfold schedule
  split
  · exact Quiet.refl s
  · split_ifs
    all_goals first
      | exact Quiet.refl s
      | exact (quiet_addAttempt s b j _ _ _).trans (quiet_updateJobs _ _ _ (jobFrame_setStateAttempt _ _))
      | exact quiet_addAttempt s b j _ _ _

theorem quiet_startPrep (s : State) (b j a i : Nat) (ts : Int) (d : Nat) (job : Job) : Quiet s (startPrep s b j a i ts d job) :=
  (quiet_addAttempt s b j _ _ _).trans (quiet_updateAttempts _ d _ _)

theorem quiet_startLike (s : State) (b j a i : Nat) (ts : Int) (d : Nat) (need : IState) (ns : JState) :
    Quiet s (startLike s b j a i ts d need ns).1 := by
  unfold startLike
  split
  · exact Quiet.refl s
  · split_ifs
    all_goals first
      | exact Quiet.refl s
      | exact (quiet_startPrep s b j a i ts d _).trans (quiet_updateJobs _ _ _ (jobFrame_setStateAttempt _ _))
      | exact quiet_startPrep s b j a i ts d _

theorem quiet_freeAdd (s : State) (i : Option Nat) (d : Int) : Quiet s (freeAdd s i d) := Quiet.of_eq rfl rfl rfl

theorem quiet_completePrep (s : State) (b j : Nat) (att inst : Option Nat) (st e : Option Int) (r : String) (d : Nat)
    (job : Job) : Quiet s (completePrep s b j att inst st e r d job) := by
  unfold completePrep
  dsimp only
  have h1 := quiet_addAttempt s b j att inst job.cores
  cases att with
  | none => dsimp only; split_ifs
            · exact h1.trans (quiet_freeAdd _ _ _)
            · exact h1
  | some a => dsimp only; split_ifs
              · exact (h1.trans (quiet_updateAttempts _ d _ _)).trans (quiet_freeAdd _ _ _)
              · exact h1.trans (quiet_updateAttempts _ d _ _)

theorem quiet_completeJob (s : State) (b j : Nat) (att : Option Nat) (ns : JState) (job : Job) :
    Quiet s (completeJob s b j att ns job) := by
  unfold completeJob
  exact (quiet_updateJobs s _ _ (jobFrame_setStateAttempt ns att)).trans (Quiet.of_eq rfl rfl rfl)

theorem quiet_complete (s : State) (b j : Nat) (att inst : Option Nat) (ns : JState) (st e : Option Int) (r : String)
    (d : Nat) : Quiet s (complete s b j att inst ns st e r d).1 := by
  unfold complete
  split
  · exact Quiet.refl s
  · split_ifs
    all_goals first
      | exact Quiet.refl s
      | exact quiet_completePrep s b j att inst st e r d _
      | exact ((quiet_completePrep s b j att inst st e r d _).trans (quiet_completeJob _ b j att ns _)).trans
          (quiet_updateJobs _ _ _ (jobFrame_childUpdate ns))

theorem quiet_unschedulePrep (s : State) (b j a i : Nat) (e : Int) (r : String) (d : Nat) (job : Job) :
    Quiet s (unschedulePrep s b j a i e r d job) := by
  unfold unschedulePrep
  dsimp only
  split_ifs
  · exact (quiet_updateAttempts s d _ _).trans (quiet_freeAdd _ _ _)
  · exact quiet_updateAttempts s d _ _

theorem quiet_unschedule (s : State) (b j a i : Nat) (e : Int) (r : String) (d : Nat) :
    Quiet s (unschedule s b j a i e r d).1 := by
  unfold unschedule
  split
  · exact Quiet.refl s
  · split_ifs
    all_goals first
      | exact Quiet.refl s
      | exact (quiet_unschedulePrep s b j a i e r d _).trans (quiet_updateJobs _ _ _ (jobFrame_setStateAttempt _ _))
      | exact quiet_unschedulePrep s b j a i e r d _

theorem quiet_addResources (s : State) (b j a : Nat) (res : List (Nat × Int)) (d : Nat) :
    Quiet s (addResources s b j a res d).1 := by
  unfold addResources; split_ifs <;> exact Quiet.of_eq rfl rfl rfl

/-- every transaction other than an accepted `createUpdate` / `insertJobs` is quiet -/
theorem quiet_step (s : State) (op : Op) (h1 : ∀ b t nj ng u, op ≠ .createUpdate b t nj ng u)
    (h2 : ∀ b u usr specs, op ≠ .insertJobs b u usr specs) : Quiet s (step s op).1 := by
  cases op with
  | createBatch u bp t => exact quiet_createBatch s u bp t
  | createUpdate b t nj ng u => exact absurd rfl (h1 b t nj ng u)
  | insertGroups b u usr specs => exact quiet_insertGroups s b u usr specs
  | insertJobs b u usr specs => exact absurd rfl (h2 b u usr specs)
  | commitUpdate b u => exact quiet_commitUpdate s b u
  | cancelGroup b g => exact quiet_cancelGroup s b g
  | deleteBatch b => exact quiet_deleteBatch s b
  | newInstance n c p => exact quiet_newInstance s n c p
  | activate n => exact quiet_activate s n
  | deactivate n r ts d => exact quiet_deactivate s n r ts d
  | markDeleted n => exact quiet_markDeleted s n
  | schedule b j a i => exact quiet_schedule s b j a i
  | creating b j a i ts d => exact quiet_startLike s b j a i ts d _ _
  | started b j a i ts d => exact quiet_startLike s b j a i ts d _ _
  | complete b j a i st st' e r d => exact quiet_complete s b j a i st st' e r d
  | unschedule b j a i e r d => exact quiet_unschedule s b j a i e r d
  | addResources b j a res d => exact quiet_addResources s b j a res d
  | heartbeat atts ts d => exact Quiet.of_eq rfl rfl rfl
  | cleanupStaging => exact Quiet.of_eq rfl rfl rfl
  | cleanupCancellable => exact Quiet.of_eq rfl rfl rfl
  | compact => exact Quiet.of_eq rfl rfl rfl

/-! ## the range invariant of `batch_updates` -/

/-- for every batch, the update rows (in insertion order) form a chain: ids 1, 2, …; each update's job-id and
group-id ranges start where its predecessor's end; the first ranges start at 1 -/
def RangesOK (s : State) : Prop := ∀ b, ChainedFrom none (updatesOf s b)

theorem rangesOK_init : RangesOK init := by intro b; simp [updatesOf, init, ChainedFrom]

theorem follows_frame {F : Update → Update} (hF : UpdFrame F) (p : Option Update) (u : Update) :
    Follows (p.map F) (F u) ↔ Follows p u := by
  obtain ⟨-, a2, -, a4, -, a6, -, -⟩ := hF.fields u
  cases p with
  | none => simp [Follows, a2, a4, a6]
  | some m =>
    obtain ⟨-, b2, -, b4, b5, b6, b7, -⟩ := hF.fields m
    simp [Follows, a2, a4, a6, b2, b4, b5, b6, b7]

theorem chainedFrom_map {F : Update → Update} (hF : UpdFrame F) (us : List Update) :
    ∀ p, ChainedFrom (p.map F) (us.map F) ↔ ChainedFrom p us := by
  induction us with
  | nil => intro p; simp [ChainedFrom]
  | cons u rest ih =>
    intro p
    simp only [List.map_cons, ChainedFrom, follows_frame hF]
    rw [← ih (some u)]; rfl

theorem updatesOf_map {s s' : State} {F : Update → Update} (hF : UpdFrame F) (e : s'.updates = s.updates.map F) (b : Nat) :
    updatesOf s' b = (updatesOf s b).map F := by
  unfold updatesOf
  rw [e, List.filter_map]
  congr 1
  apply List.filter_congr
  intro x _
  simp [(hF.fields x).1]

theorem rangesOK_of_updates {s s' : State} {F : Update → Update} (hF : UpdFrame F) (e : s'.updates = s.updates.map F)
    (h : RangesOK s) : RangesOK s' := by
  intro b
  rw [updatesOf_map hF e b]
  exact (chainedFrom_map hF _ none).mpr (h b)

theorem rangesOK_createUpdate (s : State) (b t nj ng usr : Nat) (h : RangesOK s) :
    RangesOK (createUpdate s b t nj ng usr).1 := by
  rcases createUpdate_cases s b t nj ng usr with ⟨o, e, _⟩ | ⟨last, e, hlast, _⟩
  · rw [e]; exact h
  · rw [e]
    intro b'
    have hb : (nextUpdate last b t nj ng).batch = b := by cases last <;> rfl
    show ChainedFrom none ((s.updates ++ [nextUpdate last b t nj ng]).filter (·.batch = b'))
    rw [List.filter_append]
    by_cases hbb : b = b'
    · subst hbb
      have : [nextUpdate last b t nj ng].filter (·.batch = b) = [nextUpdate last b t nj ng] := by simp [hb]
      rw [this, chainedFrom_append]
      refine ⟨h b, ?_⟩
      have := hlast (h b)
      unfold updatesOf at this
      rw [← this]
      exact follows_nextUpdate last b t nj ng
    · have : [nextUpdate last b t nj ng].filter (·.batch = b') = [] := by simp [hb, hbb]
      rw [this, List.append_nil]
      exact h b'

theorem insertJobs_updates (s : State) (b upd user : Nat) (specs : List JobSpec) :
    (insertJobs s b upd user specs).1.updates = s.updates := by
  rcases insertJobs_cases s b upd user specs with ⟨o, e⟩ | ⟨_, _, _, _, _, _, _, _, e⟩ <;> rw [e] <;> rfl

theorem rangesOK_step (s : State) (op : Op) (h : RangesOK s) : RangesOK (step s op).1 := by
  by_cases h1 : ∃ b t nj ng u, op = .createUpdate b t nj ng u
  · obtain ⟨b, t, nj, ng, u, rfl⟩ := h1
    exact rangesOK_createUpdate s b t nj ng u h
  · by_cases h2 : ∃ b u usr specs, op = .insertJobs b u usr specs
    · obtain ⟨b, u, usr, specs, rfl⟩ := h2
      exact rangesOK_of_updates UpdFrame.id (by rw [List.map_id]; exact insertJobs_updates s b u usr specs) h
    · obtain ⟨F, hF, e⟩ := (quiet_step s op (fun b t nj ng u e => h1 ⟨b, t, nj, ng, u, e⟩)
        (fun b u usr specs e => h2 ⟨b, u, usr, specs, e⟩)).updates
      exact rangesOK_of_updates hF e h

/-! ### what a chain gives -/

def nextId : Option Update → Nat | none => 1 | some m => m.id + 1
def nextJob : Option Update → Nat | none => 1 | some m => m.startJob + m.nJobs
def nextGroup : Option Update → Nat | none => 1 | some m => m.startGroup + m.nGroups

theorem follows_iff (p : Option Update) (u : Update) :
    Follows p u ↔ u.id = nextId p ∧ u.startJob = nextJob p ∧ u.startGroup = nextGroup p := by
  cases p <;> simp [Follows, nextId, nextJob, nextGroup]

theorem chained_lower (us : List Update) : ∀ p, ChainedFrom p us → ∀ v ∈ us,
    nextId p ≤ v.id ∧ nextJob p ≤ v.startJob ∧ nextGroup p ≤ v.startGroup := by
  induction us with
  | nil => intro p _ v hv; simp at hv
  | cons u rest ih =>
    intro p hc v hv
    obtain ⟨h1, h2, h3⟩ := (follows_iff p u).mp hc.1
    rcases List.mem_cons.mp hv with rfl | hv
    · omega
    · have := ih (some v) -- placeholder to keep names stable
      obtain ⟨g1, g2, g3⟩ := ih (some u) hc.2 v hv
      simp only [nextId, nextJob, nextGroup] at g1 g2 g3
      omega

/-- update ids increase along the chain and the reserved ranges are disjoint and in update order -/
def Ordered (u v : Update) : Prop :=
  u.id < v.id ∧ u.startJob + u.nJobs ≤ v.startJob ∧ u.startGroup + u.nGroups ≤ v.startGroup

theorem chained_pairwise (us : List Update) : ∀ p, ChainedFrom p us → us.Pairwise Ordered := by
  induction us with
  | nil => intro p _; exact List.Pairwise.nil
  | cons u rest ih =>
    intro p hc
    refine List.Pairwise.cons ?_ (ih (some u) hc.2)
    intro v hv
    obtain ⟨g1, g2, g3⟩ := chained_lower rest (some u) hc.2 v hv
    simp only [nextId, nextJob, nextGroup] at g1 g2 g3
    exact ⟨by omega, g2, g3⟩

theorem chained_ids (us : List Update) : ∀ p, ChainedFrom p us → us.map (·.id) = List.range' (nextId p) us.length := by
  induction us with
  | nil => intro p _; rfl
  | cons u rest ih =>
    intro p hc
    obtain ⟨h1, -, -⟩ := (follows_iff p u).mp hc.1
    simp only [List.map_cons, List.length_cons, List.range'_succ, ih (some u) hc.2, h1, nextId]

/-- the job-id range of the k-th update starts at 1 + the sizes of all earlier updates (zero-size ones included) -/
theorem chained_startJob (us : List Update) : ∀ p, ChainedFrom p us → ∀ (i : Nat) (hi : i < us.length),
    us[i].startJob = nextJob p + ((us.take i).map (·.nJobs)).sum ∧
    us[i].startGroup = nextGroup p + ((us.take i).map (·.nGroups)).sum := by
  induction us with
  | nil => intro p _ i hi; simp at hi
  | cons u rest ih =>
    intro p hc i hi
    obtain ⟨-, h2, h3⟩ := (follows_iff p u).mp hc.1
    cases i with
    | zero => simp [h2, h3]
    | succ i =>
      have := ih (some u) hc.2 i (by simpa using hi)
      simp only [List.getElem_cons_succ, List.take_succ_cons, List.map_cons, List.sum_cons, this, nextJob, nextGroup, h2, h3]
      omega

theorem chained_id_inj (us : List Update) (p : Option Update) (hc : ChainedFrom p us) (u v : Update)
    (hu : u ∈ us) (hv : v ∈ us) (hid : u.id = v.id) : u = v := by
  have hp := chained_pairwise us p hc
  induction us generalizing p with
  | nil => simp at hu
  | cons x rest ih =>
    rw [List.pairwise_cons] at hp
    rcases List.mem_cons.mp hu with rfl | hu' <;> rcases List.mem_cons.mp hv with rfl | hv'
    · rfl
    · have := (hp.1 v hv').1; omega
    · have := (hp.1 u hu').1; omega
    · exact ih (some x) hc.2 hu' hv' hp.2

/-- (batch_id, update_id) is a key of `batch_updates`: lookup by key finds the row -/
theorem findUpdate_of_mem {s : State} (h : RangesOK s) {u : Update} (hu : u ∈ s.updates) :
    findUpdate s u.batch u.id = some u := by
  unfold findUpdate
  cases hf : s.updates.find? (fun x => x.batch = u.batch ∧ x.id = u.id) with
  | none =>
    rw [List.find?_eq_none] at hf
    exact absurd (by simp) (hf u hu)
  | some x =>
    have hx := List.mem_of_find?_eq_some hf
    have hk := List.find?_some hf
    simp only [decide_eq_true_eq] at hk
    have := chained_id_inj (updatesOf s u.batch) none (h u.batch) x u
      (by simp [updatesOf, hx, hk.1]) (by simp [updatesOf, hu]) hk.2
    rw [this]

theorem mem_of_findUpdate {s : State} {b i : Nat} {u : Update} (h : findUpdate s b i = some u) :
    u ∈ s.updates ∧ u.batch = b ∧ u.id = i := by
  unfold findUpdate at h
  have := List.find?_some h
  exact ⟨List.mem_of_find?_eq_some h, by simpa using this⟩

/-! ## update rows are stable: identity columns and reserved ranges never change -/

/-- `u'` is the row `u` later on: same key, token and reserved ranges; `committed` never reverts -/
def SameUpdate (u u' : Update) : Prop :=
  u'.batch = u.batch ∧ u'.id = u.id ∧ u'.token = u.token ∧ u'.startJob = u.startJob ∧ u'.nJobs = u.nJobs ∧
  u'.startGroup = u.startGroup ∧ u'.nGroups = u.nGroups ∧ (u.committed = true → u'.committed = true)

theorem SameUpdate.refl (u : Update) : SameUpdate u u := ⟨rfl, rfl, rfl, rfl, rfl, rfl, rfl, fun h => h⟩

theorem SameUpdate.trans {a b c : Update} (h1 : SameUpdate a b) (h2 : SameUpdate b c) : SameUpdate a c := by
  obtain ⟨a1, a2, a3, a4, a5, a6, a7, a8⟩ := h1
  obtain ⟨b1, b2, b3, b4, b5, b6, b7, b8⟩ := h2
  exact ⟨b1.trans a1, b2.trans a2, b3.trans a3, b4.trans a4, b5.trans a5, b6.trans a6, b7.trans a7, fun h => b8 (a8 h)⟩

/-- `batch_updates` after any transaction: old rows rewritten in place, possibly one row appended -/
theorem updates_step (s : State) (op : Op) :
    ∃ F new, UpdFrame F ∧ (step s op).1.updates = s.updates.map F ++ new := by
  by_cases h1 : ∃ b t nj ng u, op = .createUpdate b t nj ng u
  · obtain ⟨b, t, nj, ng, u, rfl⟩ := h1
    rcases createUpdate_cases s b t nj ng u with ⟨o, e, _⟩ | ⟨last, e, _⟩
    · exact ⟨id, [], UpdFrame.id, by show (createUpdate s b t nj ng u).1.updates = _; rw [e]; simp⟩
    · exact ⟨id, [nextUpdate last b t nj ng], UpdFrame.id, by show (createUpdate s b t nj ng u).1.updates = _; rw [e]; simp⟩
  · by_cases h2 : ∃ b u usr specs, op = .insertJobs b u usr specs
    · obtain ⟨b, u, usr, specs, rfl⟩ := h2
      exact ⟨id, [], UpdFrame.id, by
        show (insertJobs s b u usr specs).1.updates = _; rw [insertJobs_updates]; simp⟩
    · obtain ⟨F, hF, e⟩ := (quiet_step s op (fun b t nj ng u e => h1 ⟨b, t, nj, ng, u, e⟩)
        (fun b u usr specs e => h2 ⟨b, u, usr, specs, e⟩)).updates
      exact ⟨F, [], hF, by rw [e]; simp⟩

theorem findUpdate_step (s : State) (op : Op) {b i : Nat} {u : Update} (h : findUpdate s b i = some u) :
    ∃ u', findUpdate (step s op).1 b i = some u' ∧ SameUpdate u u' := by
  obtain ⟨F, new, hF, e⟩ := updates_step s op
  refine ⟨F u, ?_, ?_⟩
  · unfold findUpdate at *
    rw [e]
    apply find?_map_append_some _ F _ _ _ _ h
    intro y; simp [(hF.fields y).1, (hF.fields y).2.1]
  · obtain ⟨a1, a2, a3, a4, a5, a6, a7, a8⟩ := hF.fields u
    exact ⟨a1, a2, a3, a4, a5, a6, a7, a8⟩

theorem findUpdate_run (ops : List Op) : ∀ (s : State) {b i : Nat} {u : Update}, findUpdate s b i = some u →
    ∃ u', findUpdate (ops.foldl (fun s op => (step s op).1) s) b i = some u' ∧ SameUpdate u u' := by
  induction ops with
  | nil => intro s b i u h; exact ⟨u, h, SameUpdate.refl u⟩
  | cons op rest ih =>
    intro s b i u h
    obtain ⟨u1, h1, e1⟩ := findUpdate_step s op h
    obtain ⟨u2, h2, e2⟩ := ih (step s op).1 h1
    exact ⟨u2, h2, e1.trans e2⟩

/-- an invariant of `init` preserved by every transaction holds after every history -/
theorem foldl_inv (P : State → Prop) (hstep : ∀ s op, P s → P (step s op).1) (ops : List Op) :
    ∀ s, P s → P (ops.foldl (fun s op => (step s op).1) s) := by
  induction ops with
  | nil => intro s h; exact h
  | cons op rest ih => intro s h; exact ih _ (hstep s op h)

/-! ## C08: parents precede, ids lie in the reserved range -/

/-- the acceptance property for one job row: every `job_parents` row of the job names an EXISTING job of the same batch
with a SMALLER id, and the job id lies in the range reserved by its update -/
def JobOK (s : State) (j : Job) : Prop :=
  (∀ e ∈ s.parents, e.1 = j.batch → e.2.1 = j.id → e.2.2 < j.id ∧ (findJob s j.batch e.2.2).isSome) ∧
  ∃ u ∈ findUpdate s j.batch j.update, u.startJob ≤ j.id ∧ j.id < u.startJob + u.nJobs

instance (s : State) (j : Job) : Decidable (JobOK s j) := by unfold JobOK; infer_instance

def AllJobsOK (s : State) : Prop := ∀ j ∈ s.jobs, JobOK s j

instance (s : State) : Decidable (AllJobsOK s) := by unfold AllJobsOK; infer_instance

/-- every `job_parents` row belongs to an existing job -/
def ParentsOwned (s : State) : Prop := ∀ e ∈ s.parents, (findJob s e.1 e.2.1).isSome

/-- what a correct client sends for one job of update `u` (bunch `specs`, database state `s`):
the in-update id lies in `1..n_jobs`; in-update parents have a smaller in-update id and are in this bunch or already
inserted; absolute parents lie before the update's range and exist -/
def SpecWF (s : State) (b : Nat) (u : Update) (specs : List JobSpec) (sp : JobSpec) : Prop :=
  1 ≤ sp.relId ∧ sp.relId ≤ u.nJobs ∧
  (∀ p ∈ sp.relParents, 1 ≤ p ∧ p < sp.relId ∧
    ((findJob s b (u.startJob + p - 1)).isSome ∨ p ∈ specs.map (·.relId))) ∧
  (∀ p ∈ sp.absParents, p < u.startJob ∧ (findJob s b p).isSome)

instance (s : State) (b : Nat) (u : Update) (specs : List JobSpec) (sp : JobSpec) : Decidable (SpecWF s b u specs sp) := by
  unfold SpecWF; infer_instance

def SpecsWF (s : State) (b : Nat) (u : Update) (specs : List JobSpec) : Prop := ∀ sp ∈ specs, SpecWF s b u specs sp

instance (s : State) (b : Nat) (u : Update) (specs : List JobSpec) : Decidable (SpecsWF s b u specs) := by
  unfold SpecsWF; infer_instance

/-- a request is well-formed in state `s`: job bunches satisfy `SpecsWF` w.r.t. the update row they address -/
def OpWF (s : State) : Op → Prop
  | .insertJobs b upd _ specs => ∀ u ∈ findUpdate s b upd, SpecsWF s b u specs
  | _ => True

instance (s : State) (op : Op) : Decidable (OpWF s op) := by
  cases op <;> unfold OpWF <;> infer_instance

/-- every request of the history is well-formed in the state it is applied to -/
def HistWF : State → List Op → Prop
  | _, [] => True
  | s, op :: rest => OpWF s op ∧ HistWF (step s op).1 rest

instance : ∀ (s : State) (ops : List Op), Decidable (HistWF s ops)
  | _, [] => isTrue trivial
  | s, op :: rest => by
    unfold HistWF
    have := instDecidableHistWF (step s op).1 rest
    infer_instance

theorem findJob_isSome_of_mem {s : State} {x : Job} (hx : x ∈ s.jobs) : (findJob s x.batch x.id).isSome := by
  unfold findJob
  rw [List.find?_isSome]
  exact ⟨x, hx, by simp⟩

theorem findJob_isSome_step (s : State) (op : Op) {b j : Nat} (h : (findJob s b j).isSome) :
    (findJob (step s op).1 b j).isSome := by
  obtain ⟨x, hx⟩ := Option.isSome_iff_exists.mp h
  obtain ⟨x', hx', -⟩ := findJob_shape (shape_step s op) b j x hx
  rw [hx']; rfl

theorem exists_findUpdate_step (s : State) (op : Op) {b i lo : Nat}
    (h : ∃ u ∈ findUpdate s b i, u.startJob ≤ lo ∧ lo < u.startJob + u.nJobs) :
    ∃ u ∈ findUpdate (step s op).1 b i, u.startJob ≤ lo ∧ lo < u.startJob + u.nJobs := by
  obtain ⟨u, hu, h1, h2⟩ := h
  obtain ⟨u', hu', -, -, -, a4, a5, -⟩ := findUpdate_step s op (Option.mem_def.mp hu)
  exact ⟨u', Option.mem_def.mpr hu', by omega, by omega⟩

/-- a transaction that adds no job and no parent row preserves both invariants -/
theorem c08_of_quietJobs (s : State) (op : Op)
    (hj : ∃ F, JobFrame F ∧ (step s op).1.jobs = s.jobs.map F) (hp : (step s op).1.parents = s.parents)
    (h : AllJobsOK s ∧ ParentsOwned s) : AllJobsOK (step s op).1 ∧ ParentsOwned (step s op).1 := by
  obtain ⟨F, hF, ej⟩ := hj
  refine ⟨?_, ?_⟩
  · intro j' hj'
    rw [ej, List.mem_map] at hj'
    obtain ⟨j, hjm, rfl⟩ := hj'
    obtain ⟨a1, a2, a3, -⟩ := hF j
    obtain ⟨h1, h2⟩ := h.1 j hjm
    refine ⟨?_, ?_⟩
    · intro e he hb hi
      rw [hp] at he
      rw [a1] at hb ⊢; rw [a2] at hi ⊢
      exact ⟨(h1 e he hb hi).1, findJob_isSome_step s op (h1 e he hb hi).2⟩
    · rw [a1, a2, a3]; exact exists_findUpdate_step s op h2
  · intro e he
    rw [hp] at he
    exact findJob_isSome_step s op (h.2 e he)

theorem createUpdate_jobs_parents (s : State) (b t nj ng u : Nat) :
    (createUpdate s b t nj ng u).1.jobs = s.jobs ∧ (createUpdate s b t nj ng u).1.parents = s.parents := by
  rcases createUpdate_cases s b t nj ng u with ⟨o, e, _⟩ | ⟨last, e, _⟩ <;> rw [e] <;> exact ⟨rfl, rfl⟩

theorem mem_parents_apply {s : State} {b upd : Nat} {u : Update} {specs : List JobSpec} {e : Nat × Nat × Nat}
    (he : e ∈ (insertJobsApply s b upd u specs).parents) :
    e ∈ s.parents ∨ ∃ sp ∈ specs, e.1 = b ∧ e.2.1 = sp.relId + u.startJob - 1 ∧ e.2.2 ∈ jobParents u sp := by
  simp only [insertJobsApply, List.mem_append, List.mem_flatMap, List.mem_map] at he
  rcases he with h | ⟨sp, hsp, p, hp, rfl⟩
  · exact Or.inl h
  · exact Or.inr ⟨sp, hsp, rfl, rfl, hp⟩

theorem findJob_isSome_apply_old {s : State} {b upd : Nat} {u : Update} {specs : List JobSpec} {b' j : Nat}
    (h : (findJob s b' j).isSome) : (findJob (insertJobsApply s b upd u specs) b' j).isSome := by
  unfold findJob at *
  simp only [insertJobsApply, List.find?_append, Option.isSome_or, h, Bool.true_or]

theorem findJob_isSome_apply_new {s : State} {b upd : Nat} {u : Update} {specs : List JobSpec} {sp : JobSpec}
    (hsp : sp ∈ specs) : (findJob (insertJobsApply s b upd u specs) b (sp.relId + u.startJob - 1)).isSome := by
  have : mkJob u b sp ∈ (insertJobsApply s b upd u specs).jobs := by
    simp only [insertJobsApply, List.mem_append, List.mem_map]; exact Or.inr ⟨sp, hsp, rfl⟩
  exact findJob_isSome_of_mem this

/-- an accepted, well-formed job bunch preserves both invariants -/
theorem c08_insertJobs (s : State) (b upd user : Nat) (specs : List JobSpec)
    (hwf : ∀ u ∈ findUpdate s b upd, SpecsWF s b u specs) (h : AllJobsOK s ∧ ParentsOwned s) :
    AllJobsOK (insertJobs s b upd user specs).1 ∧ ParentsOwned (insertJobs s b upd user specs).1 := by
  rcases insertJobs_cases s b upd user specs with ⟨o, e⟩ | ⟨first, rest, u, bt, hs, hu, hbt, hrej, e⟩
  · rw [e]; exact h
  · rw [e]
    have hwf' := hwf u (Option.mem_def.mpr hu)
    obtain ⟨hall, -, -⟩ := insertJobsReject_none hrej
    have huid : u.id = upd ∧ u.batch = b := by
      have := (mem_of_findUpdate hu); exact ⟨this.2.2, this.2.1⟩
    -- a parent row of a fresh job id cannot be an old row
    have hfresh : ∀ sp ∈ specs, findJob s b (sp.relId + u.startJob - 1) = none := fun sp hsp =>
      (hall (mkJob u b sp) (List.mem_map.mpr ⟨sp, hsp, rfl⟩)).2.2
    refine ⟨?_, ?_⟩
    · intro j hj
      simp only [insertJobsApply, List.mem_append, List.mem_map] at hj
      rcases hj with hj | ⟨sp, hsp, rfl⟩
      · -- an old job: its parent rows are old rows
        obtain ⟨h1, h2⟩ := h.1 j hj
        refine ⟨?_, h2⟩
        intro e he hb hi
        rcases mem_parents_apply he with he | ⟨sp, hsp, e1, e2, -⟩
        · exact ⟨(h1 e he hb hi).1, findJob_isSome_apply_old (h1 e he hb hi).2⟩
        · exfalso
          have := findJob_isSome_of_mem hj
          rw [← hb, ← hi, e1, e2, hfresh sp hsp] at this
          exact absurd this (by simp)
      · -- a new job
        obtain ⟨w1, w2, w3, w4⟩ := hwf' sp hsp
        refine ⟨?_, ⟨u, ?_, ?_, ?_⟩⟩
        · intro e he hb hi
          have hb' : e.1 = b := hb
          have hi' : e.2.1 = sp.relId + u.startJob - 1 := hi
          show e.2.2 < sp.relId + u.startJob - 1 ∧ (findJob _ b e.2.2).isSome
          rcases mem_parents_apply he with he | ⟨sp', hsp', -, e2, hp⟩
          · exfalso
            have := h.2 e he
            rw [hb', hi', hfresh sp hsp] at this
            exact absurd this (by simp)
          · obtain ⟨v1, v2, v3, v4⟩ := hwf' sp' hsp'
            have hrel : sp'.relId = sp.relId := by omega
            simp only [jobParents, List.mem_append, List.mem_map] at hp
            rcases hp with hp | ⟨q, hq, hqe⟩
            · exact ⟨by have := (v4 _ hp).1; omega, findJob_isSome_apply_old (v4 _ hp).2⟩
            · obtain ⟨q1, q2, q3⟩ := v3 q hq
              refine ⟨by omega, ?_⟩
              rw [← hqe]
              rcases q3 with q3 | q3
              · exact findJob_isSome_apply_old q3
              · rw [List.mem_map] at q3
                obtain ⟨sp'', hsp'', hq''⟩ := q3
                have : u.startJob + q - 1 = sp''.relId + u.startJob - 1 := by omega
                rw [this]
                exact findJob_isSome_apply_new hsp''
        · show u ∈ findUpdate _ b u.id
          rw [huid.1]; exact Option.mem_def.mpr hu
        · show u.startJob ≤ sp.relId + u.startJob - 1; omega
        · show sp.relId + u.startJob - 1 < u.startJob + u.nJobs; omega
    · intro e he
      rcases mem_parents_apply he with he | ⟨sp, hsp, e1, e2, -⟩
      · exact findJob_isSome_apply_old (h.2 e he)
      · rw [e1, e2]; exact findJob_isSome_apply_new hsp

theorem c08_step (s : State) (op : Op) (hwf : OpWF s op) (h : AllJobsOK s ∧ ParentsOwned s) :
    AllJobsOK (step s op).1 ∧ ParentsOwned (step s op).1 := by
  by_cases h1 : ∃ b t nj ng u, op = .createUpdate b t nj ng u
  · obtain ⟨b, t, nj, ng, u, rfl⟩ := h1
    obtain ⟨ej, ep⟩ := createUpdate_jobs_parents s b t nj ng u
    exact c08_of_quietJobs s _ ⟨id, JobFrame.id, by rw [List.map_id]; exact ej⟩ ep h
  · by_cases h2 : ∃ b u usr specs, op = .insertJobs b u usr specs
    · obtain ⟨b, u, usr, specs, rfl⟩ := h2
      exact c08_insertJobs s b u usr specs hwf h
    · have hq := quiet_step s op (fun b t nj ng u e => h1 ⟨b, t, nj, ng, u, e⟩)
        (fun b u usr specs e => h2 ⟨b, u, usr, specs, e⟩)
      exact c08_of_quietJobs s op hq.jobs hq.parents h

theorem c08_run (ops : List Op) : ∀ (s : State), HistWF s ops → AllJobsOK s ∧ ParentsOwned s →
    AllJobsOK (ops.foldl (fun s op => (step s op).1) s) ∧ ParentsOwned (ops.foldl (fun s op => (step s op).1) s) := by
  induction ops with
  | nil => intro s _ h; exact h
  | cons op rest ih => intro s hw h; exact ih _ hw.2 (c08_step s op hw.1 h)

/-! ## C06: the staging table and `n_jobs`

`job_groups_inst_coll_staging.n_jobs` is the part of the counter log with `sJobs` keys (`stagingLog`). -/

/-- `k` is a `job_groups_inst_coll_staging.n_jobs` cell -/
def isSJ : CKey → Bool
  | .sJobs _ _ _ _ => true
  | _ => false

/-- `k` is the `n_jobs` cell of (batch, update, group), any inst_coll -/
def isSJobs (b u g : Nat) : CKey → Bool
  | .sJobs b' u' g' _ => b' = b ∧ u' = u ∧ g' = g
  | _ => false

theorem isSJ_of_isSJobs {b u g : Nat} {k : CKey} (h : isSJobs b u g k = true) : isSJ k = true := by
  cases k <;> simp_all [isSJobs, isSJ]

def stagingLog (s : State) : List (CKey × Int) := s.ctr.filter fun e => isSJ e.1

/-- `SELECT SUM(n_jobs) FROM job_groups_inst_coll_staging WHERE batch_id = b AND update_id = u AND job_group_id = g` -/
def gsum (s : State) (b u g : Nat) : Int := ((s.ctr.filter fun e => isSJobs b u g e.1).map (·.2)).sum

/-- the (batch, update, group) has a staging row -/
def hasRow (s : State) (b u g : Nat) : Bool := s.ctr.any fun e => isSJobs b u g e.1

theorem gsum_eq_stagingLog (s : State) (b u g : Nat) :
    gsum s b u g = (((stagingLog s).filter fun e => isSJobs b u g e.1).map (·.2)).sum := by
  unfold gsum stagingLog
  rw [List.filter_filter]
  congr 2
  apply List.filter_congr
  intro e _
  cases h : isSJobs b u g e.1
  · simp
  · simp [isSJ_of_isSJobs h]

theorem hasRow_eq_stagingLog (s : State) (b u g : Nat) :
    hasRow s b u g = (stagingLog s).any fun e => isSJobs b u g e.1 := by
  unfold hasRow stagingLog
  rw [List.any_filter]
  congr 1
  funext e
  cases h : isSJobs b u g e.1
  · simp
  · simp [isSJ_of_isSJobs h]

theorem hasRow_of_gsum_ne {s : State} {b u g : Nat} (h : gsum s b u g ≠ 0) : hasRow s b u g = true := by
  unfold gsum at h
  unfold hasRow
  rw [List.any_eq_true]
  cases hf : s.ctr.filter fun e => isSJobs b u g e.1 with
  | nil => rw [hf] at h; simp at h
  | cons e l =>
    have : e ∈ s.ctr.filter fun e => isSJobs b u g e.1 := by rw [hf]; simp
    rw [List.mem_filter] at this
    exact ⟨e, this.1, this.2⟩

/-- transactions (and stages) that touch neither `job_groups` nor the staging `n_jobs` cells -/
structure Calm (s s' : State) : Prop where
  groups : s'.groups = s.groups
  staging : stagingLog s' = stagingLog s

theorem Calm.refl (s : State) : Calm s s := ⟨rfl, rfl⟩
theorem Calm.trans {a b c : State} (h1 : Calm a b) (h2 : Calm b c) : Calm a c :=
  ⟨h2.groups.trans h1.groups, h2.staging.trans h1.staging⟩
theorem Calm.of_eq {s s' : State} (hg : s'.groups = s.groups) (hc : s'.ctr = s.ctr) : Calm s s' :=
  ⟨hg, by unfold stagingLog; rw [hc]⟩

theorem stagingLog_addMany {s s' : State} {ds : List (CKey × Int)} (hc : s'.ctr = addMany ds s.ctr)
    (hd : ∀ e ∈ ds, isSJ e.1 = false) : stagingLog s' = stagingLog s := by
  unfold stagingLog
  rw [hc, addMany, List.filter_append]
  have : ds.filter (fun e => isSJ e.1) = [] := by
    rw [List.filter_eq_nil_iff]; intro e he; simp [hd e he]
  rw [this, List.nil_append]

theorem jobDeltas_noStaging (s : State) (o n : Job) : ∀ e ∈ jobDeltas s o n, isSJ e.1 = false := by
  intro e he
  unfold jobDeltas at he
  simp only [List.mem_append, List.mem_flatMap, List.mem_cons, List.not_mem_nil, or_false] at he
  rcases he with ⟨a, -, h⟩ | h
  · rcases h with h | h | h | h | h <;> rw [h] <;> rfl
  · rcases h with h | h | h | h | h | h | h | h <;> rw [h] <;> rfl

theorem calm_updateJobs (s : State) (p : Job → Bool) (f : Job → Job) : Calm s (updateJobs s p f) := by
  refine ⟨rfl, stagingLog_addMany (ds := (s.jobs.filter p).flatMap fun j => jobDeltas s j (f j)) rfl ?_⟩
  intro e he
  rw [List.mem_flatMap] at he
  obtain ⟨j, -, hj⟩ := he
  exact jobDeltas_noStaging s j (f j) e hj

theorem billingDeltas_noStaging (s : State) (d b j a : Nat) (diff : Int) :
    ∀ e ∈ billingDeltas s d b j a diff, isSJ e.1 = false := by
  intro e he
  unfold billingDeltas at he
  split_ifs at he
  · simp at he
  · simp only [List.mem_flatMap, List.mem_append, List.mem_cons, List.not_mem_nil, or_false, List.mem_map] at he
    obtain ⟨r, -, h | ⟨g, -, h⟩⟩ := he
    · rcases h with h | h | h <;> rw [h] <;> rfl
    · rw [← h]; rfl

theorem calm_updateAttempts (s : State) (d : Nat) (p : Attempt → Bool)
    (f : Generated.AttemptsTrigger.Row → Generated.AttemptsTrigger.Row) : Calm s (updateAttempts s d p f) := by
  refine ⟨rfl, ?_⟩
  unfold updateAttempts
  dsimp only
  apply stagingLog_addMany rfl
  intro e he
  rw [List.mem_flatMap] at he
  obtain ⟨a, -, ha⟩ := he
  exact billingDeltas_noStaging s d _ _ _ _ e ha

theorem calm_addAttempt (s : State) (b j : Nat) (a i : Option Nat) (c : Int) : Calm s (addAttempt s b j a i c).1 :=
  Calm.of_eq (by simp) (by simp)

theorem calm_freeAdd (s : State) (i : Option Nat) (d : Int) : Calm s (freeAdd s i d) := Calm.of_eq rfl rfl

theorem cancelDeltas_noStaging (s : State) (b g : Nat) : ∀ e ∈ cancelDeltas s b g, isSJ e.1 = false := by
  intro e he
  unfold cancelDeltas at he
  simp only [List.mem_append, List.mem_flatMap, List.mem_cons, List.not_mem_nil, or_false, List.mem_filter] at he
  rcases he with ⟨r, -, h⟩ | ⟨a, -, r, -, h⟩
  · rcases h with h | h | h | h | h | h | h | h <;> rw [h] <;> rfl
  · rcases h with h | h | h | h | h <;> rw [h] <;> rfl

theorem calm_cancelApply (s : State) (b g : Nat) : Calm s (cancelApply s b g) :=
  ⟨rfl, stagingLog_addMany (ds := cancelDeltas s b g) rfl (cancelDeltas_noStaging s b g)⟩

theorem calm_createUpdate (s : State) (b t nj ng u : Nat) : Calm s (createUpdate s b t nj ng u).1 := by
  rcases createUpdate_cases s b t nj ng u with ⟨o, e, _⟩ | ⟨last, e, _⟩ <;> rw [e] <;> exact Calm.of_eq rfl rfl

theorem calm_cancelGroup (s : State) (b g : Nat) : Calm s (cancelGroup s b g).1 := by
  unfold cancelGroup; split_ifs
  · exact Calm.refl s
  · exact Calm.refl s
  · exact calm_cancelApply s b g

theorem calm_deleteBatch (s : State) (b : Nat) : Calm s (deleteBatch s b).1 := by
  unfold deleteBatch; split
  · exact Calm.refl s
  · split_ifs
    · exact Calm.refl s
    · exact Calm.of_eq rfl rfl
    · exact (calm_cancelApply s b 0).trans (Calm.of_eq rfl rfl)

theorem calm_newInstance (s : State) (n : Nat) (c : Int) (p : Bool) : Calm s (newInstance s n c p).1 := by
  unfold newInstance; split_ifs <;> exact Calm.of_eq rfl rfl

theorem calm_activate (s : State) (n : Nat) : Calm s (activate s n).1 := by
  unfold activate; model_split <;> exact Calm.of_eq rfl rfl

theorem calm_markDeleted (s : State) (n : Nat) : Calm s (markDeleted s n).1 := by
  unfold markDeleted; model_split <;> exact Calm.of_eq rfl rfl

theorem calm_deactivate (s : State) (n : Nat) (r : String) (ts : Int) (d : Nat) : Calm s (deactivate s n r ts d).1 := by
  unfold deactivate
  split
  · exact Calm.refl s
  · split_ifs
    · exact Calm.refl s
    · unfold deactivateApply
      exact ((calm_updateAttempts s d _ _).trans (calm_updateJobs _ _ _)).trans (Calm.of_eq rfl rfl)

theorem calm_schedule (s : State) (b j a i : Nat) : Calm s (schedule s b j a i).1 := by
  unfold schedule
  split
  · exact Calm.refl s
  · split_ifs
    all_goals first
      | exact Calm.refl s
      | exact (calm_addAttempt s b j _ _ _).trans (calm_updateJobs _ _ _)
      | exact calm_addAttempt s b j _ _ _

theorem calm_startPrep (s : State) (b j a i : Nat) (ts : Int) (d : Nat) (job : Job) : Calm s (startPrep s b j a i ts d job) :=
  (calm_addAttempt s b j _ _ _).trans (calm_updateAttempts _ d _ _)

theorem calm_startLike (s : State) (b j a i : Nat) (ts : Int) (d : Nat) (need : IState) (ns : JState) :
    Calm s (startLike s b j a i ts d need ns).1 := by
  unfold startLike
  split
  · exact Calm.refl s
  · split_ifs
    all_goals first
      | exact Calm.refl s
      | exact (calm_startPrep s b j a i ts d _).trans (calm_updateJobs _ _ _)
      | exact calm_startPrep s b j a i ts d _

theorem calm_completePrep (s : State) (b j : Nat) (att inst : Option Nat) (st e : Option Int) (r : String) (d : Nat)
    (job : Job) : Calm s (completePrep s b j att inst st e r d job) := by
  unfold completePrep
  dsimp only
  have h1 := calm_addAttempt s b j att inst job.cores
  cases att with
  | none => dsimp only; split_ifs
            · exact h1.trans (calm_freeAdd _ _ _)
            · exact h1
  | some a => dsimp only; split_ifs
              · exact (h1.trans (calm_updateAttempts _ d _ _)).trans (calm_freeAdd _ _ _)
              · exact h1.trans (calm_updateAttempts _ d _ _)

theorem calm_unschedulePrep (s : State) (b j a i : Nat) (e : Int) (r : String) (d : Nat) (job : Job) :
    Calm s (unschedulePrep s b j a i e r d job) := by
  unfold unschedulePrep
  dsimp only
  split_ifs
  · exact (calm_updateAttempts s d _ _).trans (calm_freeAdd _ _ _)
  · exact calm_updateAttempts s d _ _

theorem calm_unschedule (s : State) (b j a i : Nat) (e : Int) (r : String) (d : Nat) :
    Calm s (unschedule s b j a i e r d).1 := by
  unfold unschedule
  split
  · exact Calm.refl s
  · split_ifs
    all_goals first
      | exact Calm.refl s
      | exact (calm_unschedulePrep s b j a i e r d _).trans (calm_updateJobs _ _ _)
      | exact calm_unschedulePrep s b j a i e r d _

theorem calm_addResources (s : State) (b j a : Nat) (res : List (Nat × Int)) (d : Nat) :
    Calm s (addResources s b j a res d).1 := by
  unfold addResources
  split_ifs
  · exact Calm.refl s
  · dsimp only
    refine ⟨rfl, stagingLog_addMany rfl ?_⟩
    intro e he
    split_ifs at he
    · simp at he
    · simp only [List.mem_flatMap, List.mem_append, List.mem_cons, List.not_mem_nil, or_false, List.mem_map] at he
      obtain ⟨r, -, h | ⟨g, -, h⟩⟩ := he
      · rcases h with h | h | h <;> rw [h] <;> rfl
      · rw [← h]; rfl

theorem calm_cleanupCancellable (s : State) : Calm s (cleanupCancellable s).1 := by
  refine ⟨rfl, ?_⟩
  unfold cleanupCancellable stagingLog
  dsimp only
  rw [List.filter_filter]
  apply List.filter_congr
  intro e _
  cases h : e.1 <;> simp [isSJ]

theorem staging_completeJob (s : State) (b j : Nat) (att : Option Nat) (ns : JState) (job : Job) :
    stagingLog (completeJob s b j att ns job) = stagingLog s := by
  unfold completeJob
  exact (calm_updateJobs s _ _).staging

/-- the staging `n_jobs` cells change only through `insertJobs`, `cleanupStaging` and `compact` -/
theorem staging_complete (s : State) (b j : Nat) (att inst : Option Nat) (ns : JState) (st e : Option Int) (r : String)
    (d : Nat) : stagingLog (complete s b j att inst ns st e r d).1 = stagingLog s := by
  unfold complete
  split
  · rfl
  · rename_i job _
    split_ifs
    all_goals first
      | rfl
      | exact (calm_completePrep s b j att inst st e r d job).staging
      | exact ((calm_updateJobs _ _ _).staging.trans (staging_completeJob _ b j att ns job)).trans
          (calm_completePrep s b j att inst st e r d job).staging

/-! ### what `commit_batch_update` does -/

def stagedIcs (s : State) (b upd : Nat) : List Nat :=
  (s.ctr.filterMap fun e => match e.1 with
      | .sJobs b' u' g' ic => if b' = b ∧ u' = upd ∧ g' = 0 then some ic else none
      | _ => none).eraseDups

def stagedRoot (s : State) (b upd : Nat) : Int := ((stagedIcs s b upd).map fun ic => get s.ctr (.sJobs b upd 0 ic)).sum

def commitGroup (s : State) (b upd : Nat) (g : Group) : Group :=
  if g.batch = b ∧ hasRow s b upd g.id then
    { g with state := if gsum s b upd g.id > 0 then .running else g.state, nJobs := g.nJobs + gsum s b upd g.id }
  else g

def commitBatch (b : Nat) (n : Nat) (x : Batch) : Batch :=
  if x.id = b then { x with state := .running, nJobs := x.nJobs + n } else x

theorem commitUpdate_effect (s : State) (b upd : Nat) (u : Update) (hu : findUpdate s b upd = some u)
    (hc : u.committed = false) :
    (stagedRoot s b upd ≠ u.nJobs → commitUpdate s b upd = (s, .ok 1)) ∧
    (stagedRoot s b upd = u.nJobs → (commitUpdate s b upd).2 = .ok 0 ∧
      (commitUpdate s b upd).1.updates = s.updates.map (markCommitted b upd) ∧
      (u.nJobs = 0 → (commitUpdate s b upd).1.groups = s.groups ∧ (commitUpdate s b upd).1.batches = s.batches ∧
        (commitUpdate s b upd).1.ctr = s.ctr ∧ (commitUpdate s b upd).1.jobs = s.jobs) ∧
      (u.nJobs ≠ 0 → (commitUpdate s b upd).1.groups = s.groups.map (commitGroup s b upd) ∧
        (commitUpdate s b upd).1.batches = s.batches.map (commitBatch b u.nJobs) ∧
        stagingLog (commitUpdate s b upd).1 = stagingLog s)) := by
  unfold commitUpdate
  rw [hu]
  dsimp only
  rw [if_neg (by simp [hc])]
  have hnoSt : ∀ (user : Nat) (ics : List Nat) (e : CKey × Int), e ∈ (ics.flatMap fun ic =>
      [(CKey.uReady user ic, get s.ctr (.sReady b upd 0 ic)),
       (CKey.uReadyCores user ic, get s.ctr (.sReadyCores b upd 0 ic))]) → isSJ e.1 = false := by
    intro user ics e he
    simp only [List.mem_flatMap, List.mem_cons, List.not_mem_nil, or_false] at he
    obtain ⟨ic, -, h | h⟩ := he <;> rw [h] <;> rfl
  split_ifs with h1 h2 h3
  · exact ⟨fun _ => rfl, fun he => absurd he h1⟩
  · refine ⟨fun hne => absurd hne h1, fun _ => ⟨rfl, rfl, fun _ => ⟨rfl, rfl, rfl, rfl⟩, fun hn => absurd h2 hn⟩⟩
  · refine ⟨fun hne => absurd hne h1, fun _ => ⟨rfl, rfl, fun h0 => absurd h0 h2, fun _ => ⟨rfl, rfl, ?_⟩⟩⟩
    exact stagingLog_addMany rfl (hnoSt _ _)
  · refine ⟨fun hne => absurd hne h1, fun _ => ⟨rfl, rfl, fun h0 => absurd h0 h2, fun _ => ⟨rfl, rfl, ?_⟩⟩⟩
    exact (calm_updateJobs _ _ _).staging.trans (stagingLog_addMany rfl (hnoSt _ _))

/-! ### group rows under every transaction -/

def tallyRow (b : Nat) (anc : List Nat) (ns : JState) (x : Group) : Group :=
  if x.batch = b ∧ anc.contains x.id then tally ns x else x

def markRow (b : Nat) (anc : List Nat) (x : Group) : Group :=
  if x.batch = b ∧ anc.contains x.id ∧ x.nCompleted = x.nJobs then { x with state := .complete } else x

theorem groupFrame_tallyRow (b : Nat) (anc : List Nat) (ns : JState) : GroupFrame (tallyRow b anc ns) := by
  intro x; unfold tallyRow; split_ifs
  · exact ⟨rfl, rfl, rfl, rfl⟩
  · exact ⟨rfl, rfl, rfl, rfl⟩

theorem ancestorsOf_of_groups_map {s s' : State} {F : Group → Group} (hF : GroupFrame F) (e : s'.groups = s.groups.map F)
    (b g : Nat) : ancestorsOf s' b g = ancestorsOf s b g := by
  unfold ancestorsOf findGroup
  rw [e]
  cases h : s.groups.find? (fun x => x.batch = b ∧ x.id = g) with
  | none =>
    have : (s.groups.map F).find? (fun x => x.batch = b ∧ x.id = g) = none := by
      rw [List.find?_eq_none] at h ⊢
      intro y hy
      rw [List.mem_map] at hy
      obtain ⟨x, hx, rfl⟩ := hy
      have := h x hx
      simpa [(hF x).1, (hF x).2.1] using this
    rw [this]
  | some x =>
    have := find?_map_append_some (fun x => decide (x.batch = b ∧ x.id = g)) F
      (by intro y; simp [(hF y).1, (hF y).2.1]) s.groups [] x h
    rw [List.append_nil] at this
    rw [this]
    exact (hF x).2.2.1

/-- the group rows after `mark_job_complete` took its main branch for a job of group `g` -/
theorem completeJob_groups (s : State) (b j : Nat) (att : Option Nat) (ns : JState) (job : Job) :
    (completeJob s b j att ns job).groups =
      (s.groups.map (tallyRow b (ancestorsOf s b job.group) ns)).map (markRow b (ancestorsOf s b job.group)) := by
  have h2 : ancestorsOf (completeBatchIfDone (tallyGroups (updateJobs s (isJob b j) (setStateAttempt ns att)) b job.group ns) b)
      b job.group = ancestorsOf s b job.group :=
    ancestorsOf_of_groups_map (s := s) (groupFrame_tallyRow b (ancestorsOf s b job.group) ns) rfl b job.group
  unfold completeJob markGroupsComplete
  dsimp only
  rw [h2]
  rfl

/-- `job_groups` after `mark_job_complete`: unchanged, or tallied and marked along the ancestors of the job's group -/
theorem complete_groups (s : State) (b j : Nat) (att inst : Option Nat) (ns : JState) (st e : Option Int) (r : String)
    (d : Nat) :
    (complete s b j att inst ns st e r d).1.groups = s.groups ∨
    ∃ g, (complete s b j att inst ns st e r d).1.groups =
      (s.groups.map (tallyRow b (ancestorsOf s b g) ns)).map (markRow b (ancestorsOf s b g)) := by
  unfold complete
  split
  · exact Or.inl rfl
  · rename_i job _
    have hp := (calm_completePrep s b j att inst st e r d job).groups
    split_ifs
    all_goals first
      | exact Or.inl rfl
      | exact Or.inl hp
      | skip
    right
    refine ⟨job.group, ?_⟩
    rw [updateJobs_groups, completeJob_groups]
    have ha : ancestorsOf (completePrep s b j att inst st e r d job) b job.group = ancestorsOf s b job.group := by
      unfold ancestorsOf findGroup; rw [hp]
    rw [ha, hp]

/-- where `job_groups` rows come from after one transaction -/
theorem groups_step (s : State) (op : Op) :
    (step s op).1.groups = s.groups ∨
    (∃ new, (step s op).1.groups = s.groups ++ new ∧ (∀ g ∈ new, g.nJobs = 0 ∧ g.state = .complete) ∧
      (AncOK s → ∀ g ∈ new, RowAncOK g) ∧
      ((∃ u bp t, op = .createBatch u bp t) ∨ (∃ b u usr specs, op = .insertGroups b u usr specs))) ∨
    (∃ b g ns, (step s op).1.groups = (s.groups.map (tallyRow b (ancestorsOf s b g) ns)).map (markRow b (ancestorsOf s b g))) ∨
    (∃ b upd u, op = .commitUpdate b upd ∧ findUpdate s b upd = some u ∧ u.committed = false ∧ u.nJobs ≠ 0 ∧
      stagedRoot s b upd = u.nJobs ∧ (step s op).1.groups = s.groups.map (commitGroup s b upd)) := by
  cases op with
  | createBatch u bp t =>
    simp only [step]
    unfold createBatch
    split
    · exact Or.inl rfl
    · exact Or.inr (Or.inl ⟨_, rfl, by intro g hg; rw [List.mem_singleton.mp hg]; exact ⟨rfl, rfl⟩,
        by intro _ g hg; rw [List.mem_singleton.mp hg]; exact ⟨by simp, by simp⟩, Or.inl ⟨u, bp, t, rfl⟩⟩)
  | createUpdate b t nj ng u => exact Or.inl (calm_createUpdate s b t nj ng u).groups
  | insertGroups b u usr specs =>
    simp only [step]
    rcases insertGroups_cases s b u usr specs with ⟨e, he⟩ | ⟨_, _, _, _, new, _, _, _, _, _, _, _, e, hn, _, hanc⟩
    · rw [he]; exact Or.inl rfl
    · rw [e]; exact Or.inr (Or.inl ⟨new, rfl, fun g hg => ⟨(hn g hg).2.2.2.1, (hn g hg).2.2.1⟩, hanc,
        Or.inr ⟨b, u, usr, specs, rfl⟩⟩)
  | insertJobs b u usr specs =>
    simp only [step]
    rcases insertJobs_cases s b u usr specs with ⟨o, e⟩ | ⟨_, _, _, _, _, _, _, _, e⟩ <;> rw [e] <;> exact Or.inl rfl
  | commitUpdate b upd =>
    simp only [step]
    rcases commitUpdate_cases s b upd with ⟨o, e, _⟩ | ⟨u, hu, hc, ho, _⟩
    · rw [e]; exact Or.inl rfl
    · obtain ⟨h1, h2⟩ := commitUpdate_effect s b upd u hu hc
      by_cases hst : stagedRoot s b upd = u.nJobs
      · obtain ⟨-, -, h0, hn⟩ := h2 hst
        by_cases hz : u.nJobs = 0
        · exact Or.inl (h0 hz).1
        · exact Or.inr (Or.inr (Or.inr ⟨b, upd, u, rfl, hu, hc, hz, hst, (hn hz).1⟩))
      · rw [h1 hst]; exact Or.inl rfl
  | cancelGroup b g => exact Or.inl (calm_cancelGroup s b g).groups
  | deleteBatch b => exact Or.inl (calm_deleteBatch s b).groups
  | newInstance n c p => exact Or.inl (calm_newInstance s n c p).groups
  | activate n => exact Or.inl (calm_activate s n).groups
  | deactivate n r ts d => exact Or.inl (calm_deactivate s n r ts d).groups
  | markDeleted n => exact Or.inl (calm_markDeleted s n).groups
  | schedule b j a i => exact Or.inl (calm_schedule s b j a i).groups
  | creating b j a i ts d => exact Or.inl (calm_startLike s b j a i ts d _ _).groups
  | started b j a i ts d => exact Or.inl (calm_startLike s b j a i ts d _ _).groups
  | complete b j a i ns st e r d =>
    rcases complete_groups s b j a i ns st e r d with h | ⟨g, h⟩
    · exact Or.inl h
    · exact Or.inr (Or.inr (Or.inl ⟨b, g, ns, h⟩))
  | unschedule b j a i e r d => exact Or.inl (calm_unschedule s b j a i e r d).groups
  | addResources b j a res d => exact Or.inl (calm_addResources s b j a res d).groups
  | heartbeat atts ts d => exact Or.inl rfl
  | cleanupStaging => exact Or.inl rfl
  | cleanupCancellable => exact Or.inl rfl
  | compact => exact Or.inl rfl

/-! ### the completion flag -/

/-- for a group that has jobs, `state = 'complete'` says exactly `n_completed = n_jobs` -/
def FlagOK (s : State) : Prop := ∀ g ∈ s.groups, g.nJobs > 0 → (g.state = .complete ↔ g.nCompleted = g.nJobs)

/-- no group has counted more completions than it has jobs -/
def TalliesBounded (s : State) : Prop := ∀ g ∈ s.groups, g.nCompleted ≤ g.nJobs

theorem flagOK_init : FlagOK init := by intro g hg; simp [init] at hg

theorem flagOK_step (s : State) (op : Op) (h : FlagOK s) (hb : TalliesBounded s) (hb' : TalliesBounded (step s op).1)
    (hg : ∀ b upd g, op = .commitUpdate b upd → updCommitted s b upd = false → 0 ≤ gsum s b upd g) :
    FlagOK (step s op).1 := by
  rcases groups_step s op with e | ⟨new, e, hn, -, -⟩ | ⟨b, g, ns, e⟩ | ⟨b, upd, u, hop, hu, hcu, -, -, e⟩
  · intro x hx; rw [e] at hx; exact h x hx
  · intro x hx hpos
    rw [e, List.mem_append] at hx
    rcases hx with hx | hx
    · exact h x hx hpos
    · rw [(hn x hx).1] at hpos; exact absurd hpos (by decide)
  · intro x' hx' hpos
    have hbx := hb' x' hx'
    rw [e, List.map_map, List.mem_map] at hx'
    obtain ⟨x, hx, rfl⟩ := hx'
    have hfx := h x hx
    have hbx0 := hb x hx
    simp only [Function.comp] at hpos hbx ⊢
    unfold markRow tallyRow at hpos hbx ⊢
    by_cases h1 : x.batch = b ∧ (ancestorsOf s b g).contains x.id = true
    · simp only [h1, and_self, if_true, tally, true_and] at hpos hbx ⊢
      by_cases h2 : x.nCompleted + 1 = x.nJobs
      · simp [h2]
      · simp only [h2, if_false] at hpos hbx ⊢
        have := hfx hpos
        constructor
        · intro hc; have := this.mp hc; omega
        · intro hc; first | exact absurd hc h2 | exact hc.elim
    · simp only [h1, if_false] at hpos hbx ⊢
      have h1' : ¬ (x.batch = b ∧ (ancestorsOf s b g).contains x.id = true ∧ x.nCompleted = x.nJobs) :=
        fun hh => h1 ⟨hh.1, hh.2.1⟩
      simp only [h1', if_false] at hpos ⊢
      exact hfx hpos
  · intro x' hx' hpos
    rw [e, List.mem_map] at hx'
    obtain ⟨x, hx, rfl⟩ := hx'
    have hfx := h x hx
    have hbx0 := hb x hx
    have hg0 := hg b upd x.id hop (by unfold updCommitted; rw [hu]; exact hcu)
    unfold commitGroup at hpos ⊢
    split_ifs at hpos ⊢ with h1 h2
    · dsimp only at hpos ⊢
      constructor
      · intro hc; cases hc
      · intro hc; omega
    · dsimp only at hpos ⊢
      have hz : gsum s b upd x.id = 0 := by omega
      rw [hz] at hpos ⊢
      simp only [Int.add_zero] at hpos ⊢
      exact hfx hpos
    · exact hfx hpos

/-! ### sums over the counter log -/

theorem nodup_eraseDups {α : Type} [BEq α] [LawfulBEq α] : ∀ (n : Nat) (l : List α), l.length ≤ n → l.eraseDups.Nodup := by
  intro n
  induction n with
  | zero => intro l hl; have : l = [] := List.length_eq_zero_iff.mp (by omega); subst this; simp
  | succ n ih =>
    intro l hl
    cases l with
    | nil => simp
    | cons a as =>
      rw [List.eraseDups_cons, List.nodup_cons]
      refine ⟨?_, ih _ ?_⟩
      · intro hm
        rw [List.mem_eraseDups, List.mem_filter] at hm
        simp at hm
      · have := List.length_filter_le (fun b => !b == a) as
        simp only [List.length_cons] at hl
        omega

/-- sum of the entries whose key satisfies `P` -/
def sumP (P : CKey → Bool) (m : List (CKey × Int)) : Int := ((m.filter fun e => P e.1).map (·.2)).sum

theorem sum_indicator (ks : List CKey) (hnd : ks.Nodup) (a : CKey) (c : Int) :
    (ks.map fun k => if a = k then c else 0).sum = if a ∈ ks then c else 0 := by
  induction ks with
  | nil => simp
  | cons k ks ih =>
    rw [List.nodup_cons] at hnd
    simp only [List.map_cons, List.sum_cons, ih hnd.2, List.mem_cons]
    by_cases h : a = k
    · subst h; simp [hnd.1]
    · simp [h]

theorem sum_map_add {α : Type} (l : List α) (f g : α → Int) :
    (l.map fun x => f x + g x).sum = (l.map f).sum + (l.map g).sum := by
  induction l with
  | nil => simp
  | cons x l ih => simp only [List.map_cons, List.sum_cons, ih]; omega

/-- regrouping a sum by key: summing `get m k` over a duplicate-free list of keys that covers the `P`-keys of `m` -/
theorem sumP_keys (P : CKey → Bool) (ks : List CKey) (hnd : ks.Nodup) : ∀ (m : List (CKey × Int)),
    (∀ e ∈ m, P e.1 = true → e.1 ∈ ks) → ((ks.filter P).map fun k => get m k).sum = sumP P m := by
  intro m
  induction m with
  | nil =>
    intro _
    have : ∀ l : List CKey, (l.map fun _ => (0:Int)).sum = 0 := by intro l; induction l <;> simp_all
    simp [sumP, get_nil, this]
  | cons e m ih =>
    intro hcov
    have ih' := ih (fun x hx => hcov x (List.mem_cons_of_mem _ hx))
    have hfun : (fun k => get (e :: m) k) = fun k => (if e.1 = k then e.2 else 0) + get m k := by
      funext k; exact get_cons e m k
    rw [hfun, sum_map_add, ih', sum_indicator _ (hnd.filter _)]
    unfold sumP
    by_cases hp : P e.1 = true
    · have : e.1 ∈ ks.filter P := List.mem_filter.mpr ⟨hcov e (by simp) hp, hp⟩
      simp [hp, this]
    · have : e.1 ∉ ks.filter P := fun h => hp (List.mem_filter.mp h).2
      simp [hp, this]

theorem sumP_compact (P : CKey → Bool) (s : State) : sumP P (compact s).1.ctr = sumP P s.ctr := by
  have hnd : ((s.ctr.map (·.1)).eraseDups).Nodup := nodup_eraseDups _ _ (Nat.le_refl _)
  rw [← sumP_keys P _ hnd s.ctr (by intro e he _; rw [List.mem_eraseDups]; exact List.mem_map.mpr ⟨e, he, rfl⟩)]
  unfold compact sumP
  dsimp only
  rw [List.filter_map, List.map_map]
  rfl

theorem gsum_eq_sumP (s : State) (b u g : Nat) : gsum s b u g = sumP (isSJobs b u g) s.ctr := rfl


theorem sumP_append (P : CKey → Bool) (a b : List (CKey × Int)) : sumP P (a ++ b) = sumP P a + sumP P b := by
  simp [sumP, List.filter_append, List.sum_append]

theorem sumP_flatMap {α : Type} (P : CKey → Bool) (l : List α) (f : α → List (CKey × Int)) :
    sumP P (l.flatMap f) = (l.map fun x => sumP P (f x)).sum := by
  induction l with
  | nil => simp [sumP]
  | cons x l ih => simp only [List.flatMap_cons, sumP_append, ih, List.map_cons, List.sum_cons]

theorem length_filter_eq_sum {α : Type} (l : List α) (p : α → Bool) :
    ((l.filter p).length : Int) = (l.map fun x => if p x then (1 : Int) else 0).sum := by
  induction l with
  | nil => simp
  | cons x l ih =>
    by_cases h : p x <;> simp [List.filter_cons, h, ih] <;> omega

theorem sum_indicator_nat (l : List Nat) (hnd : l.Nodup) (g : Nat) :
    (l.map fun a => if a = g then (1 : Int) else 0).sum = if l.contains g then 1 else 0 := by
  induction l with
  | nil => simp
  | cons a l ih =>
    rw [List.nodup_cons] at hnd
    simp only [List.map_cons, List.sum_cons, ih hnd.2, List.contains_cons]
    by_cases h : a = g
    · subst h
      simp [hnd.1]
    · have : (g == a) = false := by simpa using fun h' => h h'.symm
      simp [h, this]

/-! ### the staging invariant -/

/-- job `j` belongs to batch `b` and lies under group `g` (its group has `g` among its ancestors-or-self) -/
def under (s : State) (b g : Nat) (j : Job) : Bool := decide (j.batch = b) && (ancestorsOf s b j.group).contains g

/-- number of inserted jobs of update `(b, u)` under group `g` -/
def stagedCount (s : State) (b u g : Nat) : Int :=
  ((s.jobs.filter fun j => under s b g j && decide (j.update = u)).length : Int)

/-- **Staging invariant**: for every update that is not committed and every group, the staged `n_jobs` (summed over
inst_colls) is the number of job rows of that update under the group -/
def StagingExact (s : State) : Prop := ∀ b u g, updCommitted s b u = false → gsum s b u g = stagedCount s b u g

/-- every job's group row exists -/
def JobsGroupOK (s : State) : Prop := ∀ j ∈ s.jobs, (findGroup s j.batch j.group).isSome


theorem ancestorsOf_shape' {s s' : State} (h : Shape s s') {b g : Nat} (hx : (findGroup s b g).isSome) :
    ancestorsOf s' b g = ancestorsOf s b g := by
  obtain ⟨x, hx⟩ := Option.isSome_iff_exists.mp hx
  obtain ⟨x', hx', ha, -⟩ := findGroup_shape h b g x hx
  unfold ancestorsOf; rw [hx, hx']; exact ha

theorem findGroup_isSome_shape {s s' : State} (h : Shape s s') {b g : Nat} (hx : (findGroup s b g).isSome) :
    (findGroup s' b g).isSome := by
  obtain ⟨x, hx⟩ := Option.isSome_iff_exists.mp hx
  obtain ⟨x', hx', -⟩ := findGroup_shape h b g x hx
  rw [hx']; rfl

theorem stagedCount_of_mapped {s s' : State} (h : Shape s s') {F : Job → Job} (hF : JobFrame F)
    (e : s'.jobs = s.jobs.map F) (hg : JobsGroupOK s) (b u g : Nat) : stagedCount s' b u g = stagedCount s b u g := by
  unfold stagedCount
  rw [e, List.filter_map, List.length_map]
  congr 2
  apply List.filter_congr
  intro j hj
  obtain ⟨a1, -, a3, a4, -⟩ := hF j
  simp only [Function.comp, under, a1, a3, a4]
  by_cases hb : j.batch = b
  · have := hg j hj
    rw [hb] at this
    rw [ancestorsOf_shape' h this]
  · simp [hb]

theorem jobsGroupOK_of_mapped {s s' : State} (h : Shape s s') {F : Job → Job} (hF : JobFrame F)
    (e : s'.jobs = s.jobs.map F) (hg : JobsGroupOK s) : JobsGroupOK s' := by
  intro j' hj'
  rw [e, List.mem_map] at hj'
  obtain ⟨j, hj, rfl⟩ := hj'
  rw [(hF j).1, (hF j).2.2.2.1]
  exact findGroup_isSome_shape h (hg j hj)

theorem updCommitted_mono (s : State) (op : Op) (b u : Nat) (h : updCommitted (step s op).1 b u = false) :
    updCommitted s b u = false := by
  unfold updCommitted at *
  cases hf : findUpdate s b u with
  | none => rfl
  | some x =>
    obtain ⟨x', hx', hs⟩ := findUpdate_step s op hf
    rw [hx'] at h
    simp only at h ⊢
    cases hc : x.committed with
    | false => rfl
    | true => rw [hs.2.2.2.2.2.2.2 hc] at h; exact h

/-- job rows are rewritten in place by every transaction other than `insertJobs` -/
theorem jobsMapped_step (s : State) (op : Op) (h2 : ∀ b u usr specs, op ≠ .insertJobs b u usr specs) :
    ∃ F, JobFrame F ∧ (step s op).1.jobs = s.jobs.map F := by
  by_cases h1 : ∃ b t nj ng u, op = .createUpdate b t nj ng u
  · obtain ⟨b, t, nj, ng, u, rfl⟩ := h1
    exact ⟨id, JobFrame.id, by rw [List.map_id]; exact (createUpdate_jobs_parents s b t nj ng u).1⟩
  · exact (quiet_step s op (fun b t nj ng u e => h1 ⟨b, t, nj, ng, u, e⟩) h2).jobs

/-- the staging `n_jobs` cells change only through `insertJobs`, `cleanupStaging` and `compact` -/
theorem staging_step (s : State) (op : Op) (h1 : ∀ b u usr specs, op ≠ .insertJobs b u usr specs)
    (h2 : op ≠ .cleanupStaging) (h3 : op ≠ .compact) : stagingLog (step s op).1 = stagingLog s := by
  cases op with
  | createBatch u bp t =>
    simp only [step]; unfold createBatch; split <;> rfl
  | createUpdate b t nj ng u => exact (calm_createUpdate s b t nj ng u).staging
  | insertGroups b u usr specs =>
    simp only [step]
    rcases insertGroups_cases s b u usr specs with ⟨e, he⟩ | ⟨_, _, _, _, new, _, _, _, _, _, _, _, e, _⟩ <;> rw [‹insertGroups s b u usr specs = _›] <;> rfl
  | insertJobs b u usr specs => exact absurd rfl (h1 b u usr specs)
  | commitUpdate b upd =>
    simp only [step]
    rcases commitUpdate_cases s b upd with ⟨o, e, _⟩ | ⟨u, hu, hc, ho, _⟩
    · rw [e]
    · obtain ⟨h1, h2⟩ := commitUpdate_effect s b upd u hu hc
      by_cases hst : stagedRoot s b upd = u.nJobs
      · obtain ⟨-, -, h0, hn⟩ := h2 hst
        by_cases hz : u.nJobs = 0
        · unfold stagingLog; rw [(h0 hz).2.2.1]
        · exact (hn hz).2.2
      · rw [h1 hst]
  | cancelGroup b g => exact (calm_cancelGroup s b g).staging
  | deleteBatch b => exact (calm_deleteBatch s b).staging
  | newInstance n c p => exact (calm_newInstance s n c p).staging
  | activate n => exact (calm_activate s n).staging
  | deactivate n r ts d => exact (calm_deactivate s n r ts d).staging
  | markDeleted n => exact (calm_markDeleted s n).staging
  | schedule b j a i => exact (calm_schedule s b j a i).staging
  | creating b j a i ts d => exact (calm_startLike s b j a i ts d _ _).staging
  | started b j a i ts d => exact (calm_startLike s b j a i ts d _ _).staging
  | complete b j a i ns st e r d => exact staging_complete s b j a i ns st e r d
  | unschedule b j a i e r d => exact (calm_unschedule s b j a i e r d).staging
  | addResources b j a res d => exact (calm_addResources s b j a res d).staging
  | heartbeat atts ts d => simp only [step, heartbeat]; exact (calm_updateAttempts s d _ _).staging
  | cleanupStaging => exact absurd rfl h2
  | cleanupCancellable => exact (calm_cleanupCancellable s).staging
  | compact => exact absurd rfl h3

theorem groupFrame_markRow (b : Nat) (anc : List Nat) : GroupFrame (markRow b anc) := by
  intro x; unfold markRow; split_ifs <;> exact ⟨rfl, rfl, rfl, rfl⟩

theorem groupFrame_commitGroup (s : State) (b upd : Nat) : GroupFrame (commitGroup s b upd) := by
  intro x; unfold commitGroup; split_ifs <;> exact ⟨rfl, rfl, rfl, rfl⟩

theorem ancOK_of_map {s s' : State} {F : Group → Group} (hF : GroupFrame F) (e : s'.groups = s.groups.map F)
    (h : AncOK s) : AncOK s' := by
  intro g hg
  rw [e, List.mem_map] at hg
  obtain ⟨x, hx, rfl⟩ := hg
  unfold RowAncOK
  rw [(hF x).2.2.1, (hF x).2.1]
  exact h x hx

theorem ancOK_init : AncOK init := by intro g hg; simp [init] at hg

theorem ancOK_step (s : State) (op : Op) (h : AncOK s) : AncOK (step s op).1 := by
  rcases groups_step s op with e | ⟨new, e, -, hanc, -⟩ | ⟨b, g, ns, e⟩ | ⟨b, upd, u, -, -, -, -, -, e⟩
  · exact ancOK_of_map GroupFrame.id (by rw [e, List.map_id]) h
  · intro g hg
    rw [e, List.mem_append] at hg
    rcases hg with hg | hg
    · exact h g hg
    · exact hanc h g hg
  · rw [List.map_map] at e
    exact ancOK_of_map ((groupFrame_tallyRow b _ ns).comp (groupFrame_markRow b _)) e h
  · exact ancOK_of_map (groupFrame_commitGroup s b upd) e h

theorem stagingInv_other (s : State) (op : Op) (h1 : ∀ b u usr specs, op ≠ .insertJobs b u usr specs)
    (h2 : op ≠ .cleanupStaging) (h3 : op ≠ .compact) (h : StagingExact s) (hg : JobsGroupOK s) :
    StagingExact (step s op).1 ∧ JobsGroupOK (step s op).1 := by
  obtain ⟨F, hF, e⟩ := jobsMapped_step s op h1
  refine ⟨?_, jobsGroupOK_of_mapped (shape_step s op) hF e hg⟩
  intro b u g hc
  have hc0 := updCommitted_mono s op b u hc
  rw [gsum_eq_stagingLog, staging_step s op h1 h2 h3, ← gsum_eq_stagingLog,
    stagedCount_of_mapped (shape_step s op) hF e hg]
  exact h b u g hc0

theorem stagingInv_cleanup (s : State) (h : StagingExact s) : StagingExact (cleanupStaging s).1 := by
  intro b u g hc
  have hc0 : updCommitted s b u = false := hc
  have e1 : stagedCount (cleanupStaging s).1 b u g = stagedCount s b u g := rfl
  rw [e1, ← h b u g hc0]
  unfold gsum cleanupStaging
  dsimp only
  rw [List.filter_filter]
  congr 2
  apply List.filter_congr
  intro e _
  cases hk : e.1 <;> simp [isSJobs]
  rename_i b' u' g' ic
  intro hb hu _
  rw [hb, hu, hc0]

theorem stagingInv_compact (s : State) (h : StagingExact s) : StagingExact (compact s).1 := by
  intro b u g hc
  have hc0 : updCommitted s b u = false := hc
  have e1 : stagedCount (compact s).1 b u g = stagedCount s b u g := rfl
  rw [e1, ← h b u g hc0, gsum_eq_sumP, gsum_eq_sumP, sumP_compact]

/-- staging / cancellable rows `_create_jobs` writes for one job: one group of five cells per ancestor of its group -/
def jobStagingRows (s : State) (b upd : Nat) (j : Job) : List (CKey × Int) :=
  (ancestorsOf s b j.group).flatMap fun a =>
    [(CKey.sJobs b upd a j.ic, 1), (CKey.sReady b upd a j.ic, b2i (j.state = .Ready)),
     (CKey.sReadyCores b upd a j.ic, b2i (j.state = .Ready) * j.cores),
     (CKey.cReady b upd a j.ic, b2i (decide (j.state = .Ready) && !j.alwaysRun)),
     (CKey.cReadyCores b upd a j.ic, b2i (decide (j.state = .Ready) && !j.alwaysRun) * j.cores)]

theorem insertJobsApply_ctr (s : State) (b upd : Nat) (u : Update) (specs : List JobSpec) :
    (insertJobsApply s b upd u specs).ctr = (specs.map (mkJob u b)).flatMap (jobStagingRows s b upd) ++ s.ctr := rfl

theorem sumP_jobStagingRows (s : State) (ha : AncOK s) (b upd : Nat) (j : Job) (b' u' g : Nat) :
    sumP (isSJobs b' u' g) (jobStagingRows s b upd j) =
      if b = b' ∧ upd = u' ∧ (ancestorsOf s b j.group).contains g = true then 1 else 0 := by
  unfold jobStagingRows
  rw [sumP_flatMap]
  have hrow : ∀ a, sumP (isSJobs b' u' g)
      [(CKey.sJobs b upd a j.ic, 1), (CKey.sReady b upd a j.ic, b2i (j.state = .Ready)),
       (CKey.sReadyCores b upd a j.ic, b2i (j.state = .Ready) * j.cores),
       (CKey.cReady b upd a j.ic, b2i (decide (j.state = .Ready) && !j.alwaysRun)),
       (CKey.cReadyCores b upd a j.ic, b2i (decide (j.state = .Ready) && !j.alwaysRun) * j.cores)] =
      if b = b' ∧ upd = u' then (if a = g then 1 else 0) else 0 := by
    intro a
    by_cases h1 : b = b' ∧ upd = u'
    · by_cases h2 : a = g <;> simp [sumP, isSJobs, h1, h2]
    · have : ¬ (b = b' ∧ upd = u' ∧ a = g) := fun h => h1 ⟨h.1, h.2.1⟩
      simp [sumP, isSJobs, h1, this]
  simp only [hrow]
  by_cases h1 : b = b' ∧ upd = u'
  · obtain ⟨rfl, rfl⟩ := h1
    simp only [and_self, if_true, true_and]
    exact sum_indicator_nat _ (ancestorsOf_nodup ha b j.group) g
  · have : ¬ (b = b' ∧ upd = u' ∧ (ancestorsOf s b j.group).contains g = true) := fun h => h1 ⟨h.1, h.2.1⟩
    simp only [h1, this, if_false]
    induction (ancestorsOf s b j.group) <;> simp_all


theorem stagingInv_insertJobs (s : State) (b upd user : Nat) (specs : List JobSpec) (h : StagingExact s)
    (hg : JobsGroupOK s) (ha : AncOK s) :
    StagingExact (insertJobs s b upd user specs).1 ∧ JobsGroupOK (insertJobs s b upd user specs).1 := by
  rcases insertJobs_cases s b upd user specs with ⟨o, e⟩ | ⟨first, rest, u, bt, hs, hu, hbt, hrej, e⟩
  · rw [e]; exact ⟨h, hg⟩
  · rw [e]
    obtain ⟨hall, -, -⟩ := insertJobsReject_none hrej
    have huid : u.id = upd := (mem_of_findUpdate hu).2.2
    refine ⟨?_, ?_⟩
    · intro b' u' g hc
      have hc0 : updCommitted s b' u' = false := hc
      have e1 : gsum (insertJobsApply s b upd u specs) b' u' g =
          ((specs.map (mkJob u b)).map fun j => sumP (isSJobs b' u' g) (jobStagingRows s b upd j)).sum + gsum s b' u' g := by
        rw [gsum_eq_sumP, insertJobsApply_ctr, sumP_append, sumP_flatMap]; rfl
      have e2 : stagedCount (insertJobsApply s b upd u specs) b' u' g =
          (((specs.map (mkJob u b)).filter fun j => under s b' g j && decide (j.update = u')).length : Int) +
            stagedCount s b' u' g := by
        have : stagedCount (insertJobsApply s b upd u specs) b' u' g =
            (((s.jobs ++ specs.map (mkJob u b)).filter fun j => under s b' g j && decide (j.update = u')).length : Int) := rfl
        rw [this, List.filter_append, List.length_append]
        unfold stagedCount
        omega
      rw [e1, e2, h b' u' g hc0, length_filter_eq_sum]
      congr 2
      apply List.map_congr_left
      intro j hj
      rw [List.mem_map] at hj
      obtain ⟨sp, -, rfl⟩ := hj
      rw [sumP_jobStagingRows s ha]
      have hjb : (mkJob u b sp).batch = b := rfl
      have hju : (mkJob u b sp).update = upd := huid
      simp only [under, hjb, hju]
      by_cases h1 : b = b'
      · subst h1
        by_cases h2 : upd = u' <;> simp [h2]
      · simp [h1]
    · intro j hj
      simp only [insertJobsApply, List.mem_append] at hj
      rcases hj with hj | hj
      · exact hg j hj
      · have hjb : j.batch = b := by
          rw [List.mem_map] at hj; obtain ⟨sp, _, rfl⟩ := hj; rfl
        rw [hjb]; exact (hall j hj).2.1


/-- the staging invariant with the two structural invariants it needs -/
def StagingInv (s : State) : Prop := StagingExact s ∧ JobsGroupOK s ∧ AncOK s

theorem stagingInv_init : StagingInv init := by
  refine ⟨?_, ?_, ancOK_init⟩
  · intro b u g _; rfl
  · intro j hj; simp [init] at hj

theorem stagingInv_step (s : State) (op : Op) (h : StagingInv s) : StagingInv (step s op).1 := by
  obtain ⟨h1, h2, h3⟩ := h
  refine ⟨?_, ?_, ancOK_step s op h3⟩
  · by_cases c1 : ∃ b u usr specs, op = .insertJobs b u usr specs
    · obtain ⟨b, u, usr, specs, rfl⟩ := c1
      exact (stagingInv_insertJobs s b u usr specs h1 h2 h3).1
    · by_cases c2 : op = .cleanupStaging
      · subst c2; exact stagingInv_cleanup s h1
      · by_cases c3 : op = .compact
        · subst c3; exact stagingInv_compact s h1
        · exact (stagingInv_other s op (fun b u usr specs e => c1 ⟨b, u, usr, specs, e⟩) c2 c3 h1 h2).1
  · by_cases c1 : ∃ b u usr specs, op = .insertJobs b u usr specs
    · obtain ⟨b, u, usr, specs, rfl⟩ := c1
      exact (stagingInv_insertJobs s b u usr specs h1 h2 h3).2
    · obtain ⟨F, hF, e⟩ := jobsMapped_step s op (fun b u usr specs e => c1 ⟨b, u, usr, specs, e⟩)
      exact jobsGroupOK_of_mapped (shape_step s op) hF e h2

theorem stagedCount_nonneg (s : State) (b u g : Nat) : 0 ≤ stagedCount s b u g := by
  unfold stagedCount; omega

/-! ### `n_jobs` -/

/-- number of job rows of COMMITTED updates of batch `b` under group `g` -/
def committedCount (s : State) (b g : Nat) : Int :=
  ((s.jobs.filter fun j => under s b g j && updCommitted s b j.update).length : Int)

/-- `job_groups.n_jobs` is the number of committed jobs under the group -/
def NJobsExact (s : State) : Prop := ∀ g ∈ s.groups, g.nJobs = committedCount s g.batch g.id

theorem updCommitted_markCommitted {s s' : State} {b upd : Nat} {u : Update} (hu : findUpdate s b upd = some u)
    (e : s'.updates = s.updates.map (markCommitted b upd)) (b' u' : Nat) :
    updCommitted s' b' u' = (updCommitted s b' u' || (decide (b' = b) && decide (u' = upd))) := by
  by_cases hk : b' = b ∧ u' = upd
  · obtain ⟨rfl, rfl⟩ := hk
    unfold updCommitted
    rw [findUpdate_markCommitted hu e]
    simp
  · have : (decide (b' = b) && decide (u' = upd)) = false := by simpa using hk
    rw [this, Bool.or_false]
    unfold updCommitted findUpdate
    rw [e]
    cases hf : s.updates.find? (fun x => x.batch = b' ∧ x.id = u') with
    | none =>
      have : (s.updates.map (markCommitted b upd)).find? (fun x => x.batch = b' ∧ x.id = u') = none := by
        rw [List.find?_eq_none] at hf ⊢
        intro y hy
        rw [List.mem_map] at hy
        obtain ⟨x, hx, rfl⟩ := hy
        have := hf x hx
        simpa [(markCommitted_key b upd x).1, (markCommitted_key b upd x).2] using this
      rw [this]
    | some x =>
      have := find?_map_append_some (fun x => decide (x.batch = b' ∧ x.id = u')) (markCommitted b upd)
        (by intro y; simp [(markCommitted_key b upd y).1, (markCommitted_key b upd y).2]) s.updates [] x hf
      rw [List.append_nil] at this
      rw [this]
      have hkx := List.find?_some hf
      simp only [decide_eq_true_eq] at hkx
      have : ¬ (x.batch = b ∧ x.id = upd) := by rw [hkx.1, hkx.2]; exact hk
      simp [markCommitted, this]

/-- committing `(b, upd)` moves exactly the staged jobs of that update into the committed count -/
theorem committedCount_commit {s s' : State} {b upd : Nat} {u : Update} (hu : findUpdate s b upd = some u)
    (hc : u.committed = false) (hsh : Shape s s') {F : Job → Job} (hF : JobFrame F) (ej : s'.jobs = s.jobs.map F)
    (eu : s'.updates = s.updates.map (markCommitted b upd)) (hg : JobsGroupOK s) (b' g : Nat) :
    committedCount s' b' g = committedCount s b' g + if b' = b then stagedCount s b upd g else 0 := by
  have hnc : updCommitted s b upd = false := by unfold updCommitted; rw [hu]; exact hc
  unfold committedCount stagedCount
  rw [ej, List.filter_map, List.length_map, length_filter_eq_sum, length_filter_eq_sum]
  by_cases hb : b' = b
  · subst hb
    rw [if_pos rfl, length_filter_eq_sum, ← sum_map_add]
    congr 1
    apply List.map_congr_left
    intro j hj
    obtain ⟨a1, -, a3, a4, -⟩ := hF j
    have hu' : under s' b' g (F j) = under s b' g j := by
      simp only [under, a1, a4]
      by_cases hjb : j.batch = b'
      · have := hg j hj; rw [hjb] at this; rw [ancestorsOf_shape' hsh this]
      · simp [hjb]
    simp only [Function.comp, hu', a3, updCommitted_markCommitted hu eu]
    by_cases h1 : j.update = upd
    · subst h1; simp [hnc]
    · simp [h1]
  · rw [if_neg hb, Int.add_zero]
    congr 1
    apply List.map_congr_left
    intro j hj
    obtain ⟨a1, -, a3, a4, -⟩ := hF j
    have hu' : under s' b' g (F j) = under s b' g j := by
      simp only [under, a1, a4]
      by_cases hjb : j.batch = b'
      · have := hg j hj; rw [hjb] at this; rw [ancestorsOf_shape' hsh this]
      · simp [hjb]
    simp only [Function.comp, hu', a3, updCommitted_markCommitted hu eu]
    simp [hb]


/-- `commit_batch_update` keeps `n_jobs` exact (given the staging invariant).  The hypothesis `hz` covers the procedure's
early exit `IF expected_n_jobs > 0`: an update declared with zero jobs must have no job rows. -/
theorem njobsExact_commit (s : State) (b upd : Nat) (h : NJobsExact s) (hst : StagingExact s) (hg : JobsGroupOK s)
    (hz : ∀ u, findUpdate s b upd = some u → u.nJobs = 0 → ∀ g, stagedCount s b upd g = 0) :
    NJobsExact (commitUpdate s b upd).1 := by
  rcases commitUpdate_cases s b upd with ⟨o, e, _⟩ | ⟨u, hu, hc, ho, eu⟩
  · rw [e]; exact h
  · have hnc : updCommitted s b upd = false := by unfold updCommitted; rw [hu]; exact hc
    obtain ⟨F, hF, ej⟩ := (quiet_commitUpdate s b upd).jobs
    have hcc := fun b' g => committedCount_commit hu hc (shape_commitUpdate s b upd) hF ej eu hg b' g
    obtain ⟨h1, h2⟩ := commitUpdate_effect s b upd u hu hc
    have hst' : stagedRoot s b upd = u.nJobs := by
      by_cases hq : stagedRoot s b upd = u.nJobs
      · exact hq
      · rw [h1 hq] at ho; cases ho
    obtain ⟨-, -, h0, hn⟩ := h2 hst'
    by_cases hzz : u.nJobs = 0
    · intro g hgm
      rw [(h0 hzz).1] at hgm
      rw [hcc, h g hgm]
      split_ifs
      · rw [hz u hu hzz]; omega
      · omega
    · intro x' hx'
      rw [(hn hzz).1, List.mem_map] at hx'
      obtain ⟨x, hx, rfl⟩ := hx'
      obtain ⟨f1, f2, -, -⟩ := groupFrame_commitGroup s b upd x
      rw [f1, f2, hcc, ← h x hx]
      unfold commitGroup
      by_cases hk : x.batch = b ∧ hasRow s b upd x.id = true
      · rw [if_pos hk, if_pos hk.1]
        show x.nJobs + gsum s b upd x.id = _
        rw [hst b upd x.id hnc]
      · rw [if_neg hk]
        by_cases hb : x.batch = b
        · rw [if_pos hb]
          have hr : hasRow s b upd x.id = false := by
            cases hh : hasRow s b upd x.id
            · rfl
            · exact absurd ⟨hb, hh⟩ hk
          have : gsum s b upd x.id = 0 := by
            by_cases hq : gsum s b upd x.id = 0
            · exact hq
            · rw [hasRow_of_gsum_ne hq] at hr; cases hr
          rw [← hst b upd x.id hnc, this]; omega
        · rw [if_neg hb]; omega


/-- number of TERMINAL job rows of committed updates of batch `b` under group `g` -/
def terminalCount (s : State) (b g : Nat) : Int :=
  ((s.jobs.filter fun j => (under s b g j && updCommitted s b j.update) && j.state.terminal).length : Int)

theorem length_filter_and_le {α : Type} (l : List α) (p t : α → Bool) :
    (l.filter fun x => p x && t x).length ≤ (l.filter p).length := by
  induction l with
  | nil => simp
  | cons x l ih =>
    by_cases hp : p x <;> by_cases ht : t x <;> simp [List.filter_cons, hp, ht] <;> omega

theorem length_filter_and_eq_iff {α : Type} (l : List α) (p t : α → Bool) :
    (l.filter fun x => p x && t x).length = (l.filter p).length ↔ ∀ x ∈ l, p x = true → t x = true := by
  induction l with
  | nil => simp
  | cons x l ih =>
    have hle := length_filter_and_le l p t
    by_cases hp : p x <;> by_cases ht : t x <;> simp [List.filter_cons, hp, ht, ← ih] <;> omega

theorem terminalCount_le (s : State) (b g : Nat) : terminalCount s b g ≤ committedCount s b g := by
  unfold terminalCount committedCount
  have := length_filter_and_le s.jobs (fun j => under s b g j && updCommitted s b j.update) (fun j => j.state.terminal)
  omega

theorem terminalCount_eq_iff (s : State) (b g : Nat) :
    terminalCount s b g = committedCount s b g ↔
      ∀ j ∈ s.jobs, (under s b g j && updCommitted s b j.update) = true → j.state.terminal = true := by
  unfold terminalCount committedCount
  rw [← length_filter_and_eq_iff]
  omega

/-- an accepted job bunch belongs to an uncommitted update: no committed count changes -/
theorem njobsExact_insertJobs (s : State) (b upd user : Nat) (specs : List JobSpec) (h : NJobsExact s) :
    NJobsExact (insertJobs s b upd user specs).1 := by
  rcases insertJobs_cases s b upd user specs with ⟨o, e⟩ | ⟨first, rest, u, bt, hs, hu, hbt, hrej, e⟩
  · rw [e]; exact h
  · rw [e]
    obtain ⟨-, -, hc, -⟩ := insertJobsReject_none hrej
    have huid : u.id = upd := (mem_of_findUpdate hu).2.2
    have hnc : updCommitted s b upd = false := by unfold updCommitted; rw [hu]; exact hc
    intro g hg
    have hg' : g ∈ s.groups := hg
    rw [h g hg']
    have : committedCount (insertJobsApply s b upd u specs) g.batch g.id =
        (((s.jobs ++ specs.map (mkJob u b)).filter fun j => under s g.batch g.id j && updCommitted s g.batch j.update).length : Int) := rfl
    rw [this, List.filter_append, List.length_append]
    have hnil : ((specs.map (mkJob u b)).filter fun j => under s g.batch g.id j && updCommitted s g.batch j.update) = [] := by
      rw [List.filter_eq_nil_iff]
      intro j hj
      rw [List.mem_map] at hj
      obtain ⟨sp, -, rfl⟩ := hj
      have hjb : (mkJob u b sp).batch = b := rfl
      have hju : (mkJob u b sp).update = upd := huid
      simp only [under, hjb, hju]
      by_cases hb : b = g.batch
      · rw [← hb, hnc]; simp
      · simp [hb]
    rw [hnil]
    unfold committedCount
    simp

/-! ### which transactions touch `batch_updates`, `batches.id`, `nextBatch` -/

/-- the columns of the state that only `createBatch` / `createUpdate` / `commitUpdate` change -/
structure Still (s s' : State) : Prop where
  updates : s'.updates = s.updates
  batchIds : s'.batches.map (·.id) = s.batches.map (·.id)
  next : s'.nextBatch = s.nextBatch

theorem Still.refl (s : State) : Still s s := ⟨rfl, rfl, rfl⟩
theorem Still.trans {a b c : State} (h1 : Still a b) (h2 : Still b c) : Still a c :=
  ⟨h2.updates.trans h1.updates, h2.batchIds.trans h1.batchIds, h2.next.trans h1.next⟩
theorem Still.of_eq {s s' : State} (hu : s'.updates = s.updates) (hb : s'.batches = s.batches)
    (hn : s'.nextBatch = s.nextBatch) : Still s s' := ⟨hu, by rw [hb], hn⟩

theorem still_updateJobs (s : State) (p : Job → Bool) (f : Job → Job) : Still s (updateJobs s p f) := Still.of_eq rfl rfl rfl
theorem still_updateAttempts (s : State) (d : Nat) (p : Attempt → Bool)
    (f : Generated.AttemptsTrigger.Row → Generated.AttemptsTrigger.Row) : Still s (updateAttempts s d p f) :=
  Still.of_eq rfl rfl rfl
theorem still_addAttempt (s : State) (b j : Nat) (a i : Option Nat) (c : Int) : Still s (addAttempt s b j a i c).1 := by
  unfold addAttempt; repeat' split
  all_goals exact Still.of_eq rfl rfl rfl
theorem still_freeAdd (s : State) (i : Option Nat) (d : Int) : Still s (freeAdd s i d) := Still.of_eq rfl rfl rfl

theorem still_mapBatches (s : State) (F : Batch → Batch) (hF : ∀ x, (F x).id = x.id) :
    Still s { s with batches := s.batches.map F } :=
  ⟨rfl, by simp only [List.map_map]; apply List.map_congr_left; intro x _; exact hF x, rfl⟩

theorem still_completePrep (s : State) (b j : Nat) (att inst : Option Nat) (st e : Option Int) (r : String) (d : Nat)
    (job : Job) : Still s (completePrep s b j att inst st e r d job) := by
  unfold completePrep
  dsimp only
  have h1 := still_addAttempt s b j att inst job.cores
  cases att with
  | none => dsimp only; split_ifs
            · exact h1.trans (still_freeAdd _ _ _)
            · exact h1
  | some a => dsimp only; split_ifs
              · exact (h1.trans (still_updateAttempts _ d _ _)).trans (still_freeAdd _ _ _)
              · exact h1.trans (still_updateAttempts _ d _ _)

theorem map_id_ite (l : List Batch) (c : Batch → Prop) [DecidablePred c] (f : Batch → Batch) (hf : ∀ x, (f x).id = x.id) :
    (l.map fun x => if c x then f x else x).map (·.id) = l.map (·.id) := by
  simp only [List.map_map]; apply List.map_congr_left; intro x _
  simp only [Function.comp]; split_ifs
  · exact hf x
  · rfl

theorem still_completeJob (s : State) (b j : Nat) (att : Option Nat) (ns : JState) (job : Job) :
    Still s (completeJob s b j att ns job) := by
  refine ⟨rfl, ?_, rfl⟩
  exact map_id_ite s.batches _ (fun x => { x with state := .complete }) (fun _ => rfl)

theorem still_startPrep (s : State) (b j a i : Nat) (ts : Int) (d : Nat) (job : Job) : Still s (startPrep s b j a i ts d job) :=
  (still_addAttempt s b j _ _ _).trans (still_updateAttempts _ d _ _)

theorem still_unschedulePrep (s : State) (b j a i : Nat) (e : Int) (r : String) (d : Nat) (job : Job) :
    Still s (unschedulePrep s b j a i e r d job) := by
  unfold unschedulePrep
  dsimp only
  split_ifs
  · exact (still_updateAttempts s d _ _).trans (still_freeAdd _ _ _)
  · exact still_updateAttempts s d _ _

theorem still_startLike (s : State) (b j a i : Nat) (ts : Int) (d : Nat) (need : IState) (ns : JState) :
    Still s (startLike s b j a i ts d need ns).1 := by
  unfold startLike
  split
  · exact Still.refl s
  · split_ifs
    all_goals first
      | exact Still.refl s
      | exact (still_startPrep s b j a i ts d _).trans (still_updateJobs _ _ _)
      | exact still_startPrep s b j a i ts d _

theorem still_deactivateApply (s : State) (n : Nat) (r : String) (ts : Int) (d : Nat) :
    Still s (deactivateApply s n r ts d) :=
  Still.of_eq rfl rfl rfl

theorem still_deleteBatch (s : State) (b : Nat) : Still s (deleteBatch s b).1 := by
  unfold deleteBatch
  split
  · exact Still.refl s
  · split_ifs
    all_goals first
      | exact Still.refl s
      | exact ⟨rfl, map_id_ite s.batches _ (fun x => { x with deleted := true }) (fun _ => rfl), rfl⟩

theorem still_step (s : State) (op : Op) (h1 : ∀ u bp t, op ≠ .createBatch u bp t)
    (h2 : ∀ b t nj ng u, op ≠ .createUpdate b t nj ng u) (h3 : ∀ b u, op ≠ .commitUpdate b u) :
    Still s (step s op).1 := by
  cases op with
  | createBatch u bp t => exact absurd rfl (h1 u bp t)
  | createUpdate b t nj ng u => exact absurd rfl (h2 b t nj ng u)
  | insertGroups b u usr specs =>
    simp only [step]
    rcases insertGroups_cases s b u usr specs with ⟨e, he⟩ | ⟨_, _, _, _, new, _, _, _, _, _, _, _, e, _⟩
    · rw [he]; exact Still.refl s
    · rw [e]; exact Still.of_eq rfl rfl rfl
  | insertJobs b u usr specs =>
    simp only [step]
    rcases insertJobs_cases s b u usr specs with ⟨o, e⟩ | ⟨_, _, _, _, _, _, _, _, e⟩ <;> rw [e] <;>
      exact Still.of_eq rfl rfl rfl
  | commitUpdate b u => exact absurd rfl (h3 b u)
  | cancelGroup b g => simp only [step]; unfold cancelGroup; split_ifs <;> exact Still.of_eq rfl rfl rfl
  | deleteBatch b => exact still_deleteBatch s b
  | newInstance n c p => simp only [step]; unfold newInstance; split_ifs <;> exact Still.of_eq rfl rfl rfl
  | activate n => simp only [step]; unfold activate; model_split <;> exact Still.of_eq rfl rfl rfl
  | deactivate n r ts d =>
    simp only [step]; unfold deactivate; split
    · exact Still.refl s
    · split_ifs
      · exact Still.refl s
      · exact still_deactivateApply s n r ts d
  | markDeleted n => simp only [step]; unfold markDeleted; model_split <;> exact Still.of_eq rfl rfl rfl
  | schedule b j a i =>
    simp only [step]; unfold schedule; split
    · exact Still.refl s
    · split_ifs
      all_goals first
        | exact Still.refl s
        | exact (still_addAttempt s b j _ _ _).trans (still_updateJobs _ _ _)
        | exact still_addAttempt s b j _ _ _
  | creating b j a i ts d => exact still_startLike s b j a i ts d _ _
  | started b j a i ts d => exact still_startLike s b j a i ts d _ _
  | complete b j a i ns st e r d =>
    simp only [step]; unfold complete; split
    · exact Still.refl s
    · rename_i job _
      split_ifs
      all_goals first
        | exact Still.refl s
        | exact still_completePrep s b j a i st e r d job
        | exact ((still_completePrep s b j a i st e r d job).trans (still_completeJob _ b j a ns job)).trans
            (still_updateJobs _ _ _)
  | unschedule b j a i e r d =>
    simp only [step]; unfold unschedule; split
    · exact Still.refl s
    · split_ifs
      all_goals first
        | exact Still.refl s
        | exact (still_unschedulePrep s b j a i e r d _).trans (still_updateJobs _ _ _)
        | exact still_unschedulePrep s b j a i e r d _
  | addResources b j a res d => simp only [step]; unfold addResources; split_ifs <;> exact Still.of_eq rfl rfl rfl
  | heartbeat atts ts d => exact Still.of_eq rfl rfl rfl
  | cleanupStaging => exact Still.of_eq rfl rfl rfl
  | cleanupCancellable => exact Still.of_eq rfl rfl rfl
  | compact => exact Still.of_eq rfl rfl rfl


/-! ### fresh group rows have no job under them -/

/-- ancestor lists only name existing groups of the same batch -/
def AncClosed (s : State) : Prop := ∀ g ∈ s.groups, ∀ a ∈ g.ancestors, ∃ x ∈ s.groups, x.batch = g.batch ∧ x.id = a

/-- batch ids are below `nextBatch`, and every group row belongs to an existing batch -/
def BatchFresh (s : State) : Prop :=
  (∀ i ∈ s.batches.map (·.id), i < s.nextBatch) ∧ (∀ g ∈ s.groups, g.batch ∈ s.batches.map (·.id))

/-- the rows `new` appended to `job_groups` have fresh keys, and their ancestors exist -/
def NewRowsOK (s : State) (new : List Group) : Prop :=
  (∀ n ∈ new, ∀ x ∈ s.groups, ¬ (x.batch = n.batch ∧ x.id = n.id)) ∧
  (AncClosed s → ∀ n ∈ new, ∀ a ∈ n.ancestors, ∃ x ∈ s.groups ++ new, x.batch = n.batch ∧ x.id = a)

theorem mem_ancestorsOf {s : State} {b g a : Nat} (h : a ∈ ancestorsOf s b g) :
    ∃ x ∈ s.groups, x.batch = b ∧ x.id = g ∧ a ∈ x.ancestors := by
  unfold ancestorsOf at h
  cases hf : findGroup s b g with
  | none => rw [hf] at h; simp at h
  | some x =>
    rw [hf] at h
    unfold findGroup at hf
    have hk := List.find?_some hf
    simp only [decide_eq_true_eq] at hk
    exact ⟨x, List.mem_of_find?_eq_some hf, hk.1, hk.2, h⟩

theorem not_mem_of_findGroup_none {s : State} {b g : Nat} (h : findGroup s b g = none) :
    ∀ x ∈ s.groups, ¬ (x.batch = b ∧ x.id = g) := by
  unfold findGroup at h
  rw [List.find?_eq_none] at h
  intro x hx hk
  exact h x hx (by simpa using hk)

theorem foldGroups_newRowsOK (b upd : Nat) (u : Update) (specs : List GroupSpec) :
    ∀ (s s' : State), specs.foldl (groupSpecStep b upd u) (some s) = some s' →
      ∀ new, s'.groups = s.groups ++ new → NewRowsOK s new := by
  induction specs with
  | nil =>
    intro s s' h new e
    simp at h; subst h
    have : new = [] := by simpa using e
    subst this
    exact ⟨by simp, by simp⟩
  | cons sp rest ih =>
    intro s s' h new e
    simp only [List.foldl_cons] at h
    cases hmid : groupSpecStep b upd u (some s) sp with
    | none => rw [hmid, foldGroups_none] at h; exact absurd h (by simp)
    | some mid =>
      rw [hmid] at h
      obtain ⟨par, hpar⟩ : ∃ par, insertGroup s b upd (u.startGroup + sp.relId - 1) par = some mid :=
        ⟨_, by simpa [groupSpecStep] using hmid⟩
      obtain ⟨e1, -, hfresh, -⟩ := insertGroup_eq hpar
      obtain ⟨new', e2, -, -, -⟩ := foldGroups_eq b upd u rest mid s' h
      have hmidg : mid.groups = s.groups ++ [Group.mk b (u.startGroup + sp.relId - 1)
          ((u.startGroup + sp.relId - 1) :: ancestorsOf s b par) (some upd) .complete 0 0 0 0 0] := by rw [e1]
      have hs'g : s'.groups = mid.groups ++ new' := by rw [e2]
      have hnew : new = Group.mk b (u.startGroup + sp.relId - 1)
          ((u.startGroup + sp.relId - 1) :: ancestorsOf s b par) (some upd) .complete 0 0 0 0 0 :: new' := by
        rw [hs'g, hmidg, List.append_assoc] at e
        exact (List.append_cancel_left e).symm
      obtain ⟨ihf, ihc⟩ := ih mid s' h new' hs'g
      subst hnew
      refine ⟨?_, ?_⟩
      · intro n hn x hx
        rcases List.mem_cons.mp hn with rfl | hn
        · exact not_mem_of_findGroup_none hfresh x hx
        · exact ihf n hn x (by rw [hmidg]; exact List.mem_append_left _ hx)
      · intro hcl
        -- the first new row is closed in `mid`, hence `mid` is closed
        have hrow : ∀ a ∈ (u.startGroup + sp.relId - 1) :: ancestorsOf s b par,
            ∃ x ∈ mid.groups, x.batch = b ∧ x.id = a := by
          intro a ha
          rcases List.mem_cons.mp ha with rfl | ha
          · exact ⟨_, by rw [hmidg]; exact List.mem_append_right _ (List.mem_singleton.mpr rfl), rfl, rfl⟩
          · obtain ⟨y, hy, hyb, -, hya⟩ := mem_ancestorsOf ha
            obtain ⟨x, hx, hxb, hxi⟩ := hcl y hy a hya
            exact ⟨x, by rw [hmidg]; exact List.mem_append_left _ hx, by rw [hxb, hyb], hxi⟩
        have hclmid : AncClosed mid := by
          intro g hg a ha
          rw [hmidg] at hg
          rcases List.mem_append.mp hg with hg | hg
          · obtain ⟨x, hx, hk⟩ := hcl g hg a ha
            exact ⟨x, by rw [hmidg]; exact List.mem_append_left _ hx, hk⟩
          · rw [List.mem_singleton.mp hg] at ha ⊢
            exact hrow a ha
        intro n hn a ha
        rcases List.mem_cons.mp hn with rfl | hn
        · obtain ⟨x, hx, hk⟩ := hrow a ha
          refine ⟨x, ?_, hk⟩
          rw [hmidg] at hx
          rcases List.mem_append.mp hx with hx | hx
          · exact List.mem_append_left _ hx
          · exact List.mem_append_right _ (List.mem_cons.mpr (Or.inl (List.mem_singleton.mp hx)))
        · obtain ⟨x, hx, hk⟩ := ihc hclmid n hn a ha
          refine ⟨x, ?_, hk⟩
          rw [hmidg, List.append_assoc] at hx
          exact hx


theorem insertGroups_fold (s : State) (b upd user : Nat) (specs : List GroupSpec) :
    (insertGroups s b upd user specs).1 = s ∨
    ∃ u bt, findBatch s b = some bt ∧
      specs.foldl (groupSpecStep b upd u) (some s) = some (insertGroups s b upd user specs).1 := by
  unfold insertGroups
  split
  · exact Or.inl rfl
  · split
    · rename_i u bt _ hbt
      split_ifs
      · exact Or.inl rfl
      · exact Or.inl rfl
      · exact Or.inl rfl
      · dsimp only
        split
        · rename_i s' hr; exact Or.inr ⟨u, bt, hbt, hr⟩
        · exact Or.inl rfl
    · exact Or.inl rfl

theorem newRowsOK_nil (s : State) : NewRowsOK s [] := ⟨by simp, by simp⟩

theorem eq_nil_of_append_self {α : Type} {l new : List α} (e : l = l ++ new) : new = [] := by
  have := congrArg List.length e
  simpa using this

theorem findBatch_mem_ids {s : State} {b : Nat} {bt : Batch} (h : findBatch s b = some bt) : b ∈ s.batches.map (·.id) := by
  unfold findBatch at h
  have hk := List.find?_some h
  simp only [decide_eq_true_eq] at hk
  exact List.mem_map.mpr ⟨bt, List.mem_of_find?_eq_some h, hk⟩

/-- rows appended to `job_groups` by `createBatch` / `insertGroups`: fresh keys, ancestors exist, batch exists -/
theorem newRows_step (s : State) (op : Op) (hb : BatchFresh s) (new : List Group)
    (e : (step s op).1.groups = s.groups ++ new)
    (hop : (∃ u bp t, op = .createBatch u bp t) ∨ (∃ b u usr specs, op = .insertGroups b u usr specs)) :
    NewRowsOK s new ∧ ∀ n ∈ new, n.batch ∈ (step s op).1.batches.map (·.id) := by
  rcases hop with ⟨u, bp, t, rfl⟩ | ⟨b, u, usr, specs, rfl⟩
  · simp only [step] at e ⊢
    unfold createBatch at e ⊢
    split at e
    · have : new = [] := eq_nil_of_append_self e
      subst this; exact ⟨newRowsOK_nil s, by simp⟩
    · rename_i hfind
      have hnew : new = [Group.mk s.nextBatch 0 [0] none .complete 0 0 0 0 0] :=
        (List.append_cancel_left e).symm
      subst hnew
      refine ⟨⟨?_, ?_⟩, ?_⟩
      · intro n hn x hx hk
        rw [List.mem_singleton.mp hn] at hk
        have := hb.1 _ (hb.2 x hx)
        rw [hk.1] at this
        exact absurd this (Nat.lt_irrefl _)
      · intro _ n hn a ha
        rw [List.mem_singleton.mp hn] at ha ⊢
        have ha0 : a = 0 := by simpa using ha
        exact ⟨_, List.mem_append_right _ (List.mem_singleton.mpr rfl), rfl, ha0.symm⟩
      · intro n hn
        rw [List.mem_singleton.mp hn]
        simp
  · simp only [step] at e ⊢
    rcases insertGroups_fold s b u usr specs with h | ⟨ur, bt, hbt, hf⟩
    · rw [h] at e ⊢
      have : new = [] := eq_nil_of_append_self e
      subst this; exact ⟨newRowsOK_nil s, by simp⟩
    · refine ⟨foldGroups_newRowsOK b u ur specs s _ hf new e, ?_⟩
      obtain ⟨new', e', hn', -, -⟩ := foldGroups_eq b u ur specs s _ hf
      have hg : (insertGroups s b u usr specs).1.groups = s.groups ++ new' := by rw [e']
      have hbs : (insertGroups s b u usr specs).1.batches = s.batches := by rw [e']
      have : new = new' := List.append_cancel_left (e.symm.trans hg)
      subst this
      intro n hn
      rw [hbs, (hn' n hn).1]
      exact findBatch_mem_ids hbt


/-! ### `n_jobs` under the transactions other than `commitUpdate` / `insertJobs` -/

theorem updCommitted_append (s : State) (nu : Update) (hnc : nu.committed = false) (b u : Nat) :
    updCommitted { s with updates := s.updates ++ [nu] } b u = updCommitted s b u := by
  unfold updCommitted findUpdate
  simp only [List.find?_append]
  cases hf : s.updates.find? (fun x => x.batch = b ∧ x.id = u) with
  | some x => simp
  | none =>
    simp only [Option.none_or]
    by_cases hp : nu.batch = b ∧ nu.id = u
    · simp [List.find?_cons, hp, hnc]
    · simp [List.find?_cons, hp]

theorem updCommitted_step_eq (s : State) (op : Op) (h3 : ∀ b u, op ≠ .commitUpdate b u) (b u : Nat) :
    updCommitted (step s op).1 b u = updCommitted s b u := by
  by_cases h1 : ∃ usr bp t, op = .createBatch usr bp t
  · obtain ⟨usr, bp, t, rfl⟩ := h1
    have : (createBatch s usr bp t).1.updates = s.updates := by unfold createBatch; split <;> rfl
    show updCommitted (createBatch s usr bp t).1 b u = _
    unfold updCommitted findUpdate; rw [this]
  · by_cases h2 : ∃ b' t nj ng usr, op = .createUpdate b' t nj ng usr
    · obtain ⟨b', t, nj, ng, usr, rfl⟩ := h2
      show updCommitted (createUpdate s b' t nj ng usr).1 b u = _
      rcases createUpdate_cases s b' t nj ng usr with ⟨o, e, _⟩ | ⟨last, e, _⟩
      · rw [e]
      · rw [e]
        have hnc : (nextUpdate last b' t nj ng).committed = false := by cases last <;> rfl
        exact updCommitted_append s _ hnc b u
    · have := (still_step s op (fun u bp t e => h1 ⟨u, bp, t, e⟩) (fun b t nj ng u e => h2 ⟨b, t, nj, ng, u, e⟩) h3).updates
      unfold updCommitted findUpdate; rw [this]

theorem committedCount_step_eq (s : State) (op : Op) (h2 : ∀ b u usr specs, op ≠ .insertJobs b u usr specs)
    (h3 : ∀ b u, op ≠ .commitUpdate b u) (hg : JobsGroupOK s) (b g : Nat) :
    committedCount (step s op).1 b g = committedCount s b g := by
  obtain ⟨F, hF, e⟩ := jobsMapped_step s op h2
  unfold committedCount
  rw [e, List.filter_map, List.length_map]
  congr 2
  apply List.filter_congr
  intro j hj
  obtain ⟨a1, -, a3, a4, -⟩ := hF j
  simp only [Function.comp, under, a1, a3, a4, updCommitted_step_eq s op h3]
  by_cases hb : j.batch = b
  · have := hg j hj
    rw [hb] at this
    rw [ancestorsOf_shape' (shape_step s op) this]
  · simp [hb]

theorem commitUpdate_batchIds (s : State) (b upd : Nat) :
    (commitUpdate s b upd).1.batches.map (·.id) = s.batches.map (·.id) ∧ (commitUpdate s b upd).1.nextBatch = s.nextBatch := by
  unfold commitUpdate
  model_split
  all_goals first
    | exact ⟨rfl, rfl⟩
    | exact ⟨map_id_ite s.batches _ (fun x => { x with state := .running, nJobs := x.nJobs + _ }) (fun _ => rfl), rfl⟩

theorem batchFresh_init : BatchFresh init := ⟨by simp [init], by simp [init]⟩

theorem groups_batch_step (s : State) (op : Op) :
    ∀ g' ∈ (step s op).1.groups, (∃ g ∈ s.groups, g'.batch = g.batch) ∨
      ∃ new, (step s op).1.groups = s.groups ++ new ∧ g' ∈ new ∧
        ((∃ u bp t, op = .createBatch u bp t) ∨ (∃ b u usr specs, op = .insertGroups b u usr specs)) := by
  intro g' hg'
  rcases groups_step s op with e | ⟨new, e, -, -, hop⟩ | ⟨b, g, ns, e⟩ | ⟨b, upd, u, -, -, -, -, -, e⟩
  · rw [e] at hg'; exact Or.inl ⟨g', hg', rfl⟩
  · rw [e, List.mem_append] at hg'
    rcases hg' with h | h
    · exact Or.inl ⟨g', h, rfl⟩
    · exact Or.inr ⟨new, e, h, hop⟩
  · rw [e, List.map_map, List.mem_map] at hg'
    obtain ⟨x, hx, rfl⟩ := hg'
    exact Or.inl ⟨x, hx, (((groupFrame_tallyRow b _ ns).comp (groupFrame_markRow b _)) x).1⟩
  · rw [e, List.mem_map] at hg'
    obtain ⟨x, hx, rfl⟩ := hg'
    exact Or.inl ⟨x, hx, (groupFrame_commitGroup s b upd x).1⟩

theorem batchFresh_step (s : State) (op : Op) (h : BatchFresh s) : BatchFresh (step s op).1 := by
  -- batch ids and nextBatch
  have hids : (∀ i ∈ s.batches.map (·.id), i ∈ (step s op).1.batches.map (·.id)) ∧
      (∀ i ∈ (step s op).1.batches.map (·.id), i < (step s op).1.nextBatch) := by
    by_cases h1 : ∃ usr bp t, op = .createBatch usr bp t
    · obtain ⟨usr, bp, t, rfl⟩ := h1
      simp only [step]
      unfold createBatch
      split
      · exact ⟨fun i hi => hi, h.1⟩
      · refine ⟨fun i hi => by simp only [List.map_append, List.mem_append]; exact Or.inl hi, ?_⟩
        intro i hi
        simp only [List.map_append, List.mem_append, List.map_cons, List.map_nil, List.mem_singleton] at hi
        rcases hi with hi | hi
        · have := h.1 i hi; show i < s.nextBatch + 1; omega
        · show i < s.nextBatch + 1; omega
    · have hst : (step s op).1.batches.map (·.id) = s.batches.map (·.id) ∧ (step s op).1.nextBatch = s.nextBatch := by
        by_cases h2 : ∃ b' t nj ng usr, op = .createUpdate b' t nj ng usr
        · obtain ⟨b', t, nj, ng, usr, rfl⟩ := h2
          simp only [step]
          rcases createUpdate_cases s b' t nj ng usr with ⟨o, e, _⟩ | ⟨last, e, _⟩ <;> rw [e] <;> exact ⟨rfl, rfl⟩
        · by_cases h3 : ∃ b u, op = .commitUpdate b u
          · obtain ⟨b, u, rfl⟩ := h3
            exact commitUpdate_batchIds s b u
          · have := still_step s op (fun u bp t e => h1 ⟨u, bp, t, e⟩) (fun b t nj ng u e => h2 ⟨b, t, nj, ng, u, e⟩)
              (fun b u e => h3 ⟨b, u, e⟩)
            exact ⟨this.batchIds, this.next⟩
      rw [hst.1, hst.2]
      exact ⟨fun i hi => hi, h.1⟩
  refine ⟨hids.2, ?_⟩
  intro g' hg'
  rcases groups_batch_step s op g' hg' with ⟨g, hg, hb⟩ | ⟨new, e, hn, hop⟩
  · rw [hb]; exact hids.1 _ (h.2 g hg)
  · exact (newRows_step s op h new e hop).2 g' hn

theorem ancClosed_init : AncClosed init := by intro g hg; simp [init] at hg

theorem ancClosed_of_map {s s' : State} {F : Group → Group} (hF : GroupFrame F) (e : s'.groups = s.groups.map F)
    (h : AncClosed s) : AncClosed s' := by
  intro g' hg' a ha
  rw [e, List.mem_map] at hg'
  obtain ⟨g, hg, rfl⟩ := hg'
  rw [(hF g).2.2.1] at ha
  obtain ⟨x, hx, hxb, hxi⟩ := h g hg a ha
  exact ⟨F x, by rw [e]; exact List.mem_map.mpr ⟨x, hx, rfl⟩, by rw [(hF x).1, (hF g).1, hxb], by rw [(hF x).2.1, hxi]⟩

theorem ancClosed_step (s : State) (op : Op) (h : AncClosed s) (hb : BatchFresh s) : AncClosed (step s op).1 := by
  rcases groups_step s op with e | ⟨new, e, -, -, hop⟩ | ⟨b, g, ns, e⟩ | ⟨b, upd, u, -, -, -, -, -, e⟩
  · exact ancClosed_of_map GroupFrame.id (by rw [e, List.map_id]) h
  · obtain ⟨⟨-, hcl⟩, -⟩ := newRows_step s op hb new e hop
    intro g' hg' a ha
    rw [e] at hg' ⊢
    rcases List.mem_append.mp hg' with hg | hg
    · obtain ⟨x, hx, hk⟩ := h g' hg a ha
      exact ⟨x, List.mem_append_left _ hx, hk⟩
    · exact hcl h g' hg a ha
  · rw [List.map_map] at e
    exact ancClosed_of_map ((groupFrame_tallyRow b _ ns).comp (groupFrame_markRow b _)) e h
  · exact ancClosed_of_map (groupFrame_commitGroup s b upd) e h

/-- a group row with a fresh key has no job under it -/
theorem committedCount_fresh {s : State} (hg : JobsGroupOK s) (hcl : AncClosed s) (b g : Nat)
    (hfresh : ∀ x ∈ s.groups, ¬ (x.batch = b ∧ x.id = g)) : committedCount s b g = 0 := by
  unfold committedCount
  have : (s.jobs.filter fun j => under s b g j && updCommitted s b j.update) = [] := by
    rw [List.filter_eq_nil_iff]
    intro j hj hu
    simp only [Bool.and_eq_true, under, decide_eq_true_eq, List.contains_iff_mem] at hu
    obtain ⟨y, hy, hyb, -, hya⟩ := mem_ancestorsOf hu.1.2
    obtain ⟨x, hx, hxb, hxi⟩ := hcl y hy g hya
    exact hfresh x hx ⟨by rw [hxb, hyb], hxi⟩
  rw [this]; rfl

theorem njobsExact_other (s : State) (op : Op) (h2 : ∀ b u usr specs, op ≠ .insertJobs b u usr specs)
    (h3 : ∀ b u, op ≠ .commitUpdate b u) (h : NJobsExact s) (hg : JobsGroupOK s) (hcl : AncClosed s)
    (hb : BatchFresh s) : NJobsExact (step s op).1 := by
  have hcc := committedCount_step_eq s op h2 h3 hg
  rcases groups_step s op with e | ⟨new, e, hn, -, hop⟩ | ⟨b, g, ns, e⟩ | ⟨b, upd, u, hop, -⟩
  · intro x hx; rw [e] at hx; rw [hcc]; exact h x hx
  · intro x hx
    rw [e, List.mem_append] at hx
    rw [hcc]
    rcases hx with hx | hx
    · exact h x hx
    · obtain ⟨⟨hfresh, -⟩, -⟩ := newRows_step s op hb new e hop
      rw [(hn x hx).1, committedCount_fresh hg hcl x.batch x.id (hfresh x hx)]
  · intro x' hx'
    rw [e, List.map_map, List.mem_map] at hx'
    obtain ⟨x, hx, rfl⟩ := hx'
    obtain ⟨f1, f2, -, -⟩ := ((groupFrame_tallyRow b (ancestorsOf s b g) ns).comp (groupFrame_markRow b (ancestorsOf s b g))) x
    rw [f1, f2, hcc, ← h x hx]
    simp only [Function.comp, markRow, tallyRow]
    split_ifs <;> rfl
  · exact absurd hop (h3 b upd)


/-! ### the whole-history `n_jobs` invariant -/

/-- update `(b, upd)` has no job rows -/
def NoJobsOf (s : State) (b upd : Nat) : Prop := ∀ j ∈ s.jobs, ¬ (j.batch = b ∧ j.update = upd)

instance (s : State) (b upd : Nat) : Decidable (NoJobsOf s b upd) := by unfold NoJobsOf; infer_instance

/-- a commit of an update declared with ZERO jobs finds no job rows of that update (the procedure skips its group
bookkeeping when `expected_n_jobs = 0`; job ids outside the reserved range — C08 — are the only way to violate this) -/
def CommitOK (s : State) : Op → Prop
  | .commitUpdate b upd => ∀ u ∈ findUpdate s b upd, u.nJobs = 0 → NoJobsOf s b upd
  | _ => True

instance (s : State) (op : Op) : Decidable (CommitOK s op) := by cases op <;> unfold CommitOK <;> infer_instance

def HistCommitOK : State → List Op → Prop
  | _, [] => True
  | s, op :: rest => CommitOK s op ∧ HistCommitOK (step s op).1 rest

instance : ∀ (s : State) (ops : List Op), Decidable (HistCommitOK s ops)
  | _, [] => isTrue trivial
  | s, op :: rest => by
    unfold HistCommitOK
    have := instDecidableHistCommitOK (step s op).1 rest
    infer_instance

theorem stagedCount_of_noJobs {s : State} {b upd : Nat} (h : NoJobsOf s b upd) (g : Nat) : stagedCount s b upd g = 0 := by
  unfold stagedCount
  have : (s.jobs.filter fun j => under s b g j && decide (j.update = upd)) = [] := by
    rw [List.filter_eq_nil_iff]
    intro j hj hu
    simp only [Bool.and_eq_true, under, decide_eq_true_eq] at hu
    exact h j hj ⟨hu.1.1, hu.2⟩
  rw [this]; rfl

structure CountInv (s : State) : Prop where
  staging : StagingInv s
  njobs : NJobsExact s
  closed : AncClosed s
  fresh : BatchFresh s

theorem countInv_init : CountInv init :=
  ⟨stagingInv_init, by intro g hg; simp [init] at hg, ancClosed_init, batchFresh_init⟩

theorem countInv_step (s : State) (op : Op) (hok : CommitOK s op) (h : CountInv s) : CountInv (step s op).1 := by
  refine ⟨stagingInv_step s op h.staging, ?_, ancClosed_step s op h.closed h.fresh, batchFresh_step s op h.fresh⟩
  by_cases c2 : ∃ b u usr specs, op = .insertJobs b u usr specs
  · obtain ⟨b, u, usr, specs, rfl⟩ := c2
    exact njobsExact_insertJobs s b u usr specs h.njobs
  · by_cases c3 : ∃ b u, op = .commitUpdate b u
    · obtain ⟨b, upd, rfl⟩ := c3
      refine njobsExact_commit s b upd h.njobs h.staging.1 h.staging.2.1 ?_
      intro u hu hz g
      exact stagedCount_of_noJobs (hok u (Option.mem_def.mpr hu) hz) g
    · exact njobsExact_other s op (fun b u usr specs e => c2 ⟨b, u, usr, specs, e⟩) (fun b u e => c3 ⟨b, u, e⟩)
        h.njobs h.staging.2.1 h.closed h.fresh

theorem countInv_run (ops : List Op) : ∀ (s : State), HistCommitOK s ops → CountInv s →
    CountInv (ops.foldl (fun s op => (step s op).1) s) := by
  induction ops with
  | nil => intro s _ h; exact h
  | cons op rest ih => intro s hw h; exact ih _ hw.2 (countInv_step s op hw.1 h)


end HailVerif.BatchDB.Submission

import HailVerif.Proofs.BatchDBShape
import Mathlib.Tactic.SplitIfs
/-! `Shape s (step s op).1` for every transaction. -/
namespace HailVerif.BatchDB

/-- split every `match`/`if` of an unfolded model function, zeta-reducing the `let`s in between -/
macro "model_split" : tactic =>
  `(tactic| repeat' (first | split_ifs | split | (dsimp only)))

theorem shape_createBatch (s : State) (u bp t : Nat) : Shape s (createBatch s u bp t).1 := by
  unfold createBatch
  model_split
  · exact Shape.refl s
  · exact ⟨⟨id, _, GroupFrame.id, by simp; rfl, by simp⟩, ⟨[], by simp⟩, ⟨id, [], JobFrame.id, by simp⟩, JobsUnique.of_jobs_eq rfl⟩

theorem shape_createUpdate (s : State) (b t nj ng u : Nat) : Shape s (createUpdate s b t nj ng u).1 := by
  unfold createUpdate
  model_split
  all_goals first | exact Shape.refl s | exact Shape.of_eq rfl rfl rfl

theorem shape_insertGroup (s s' : State) (b upd gid parent : Nat) (h : insertGroup s b upd gid parent = some s') :
    Shape s s' := by
  unfold insertGroup at h
  split_ifs at h
  simp only [Option.some.injEq] at h; subst h
  exact ⟨⟨id, _, GroupFrame.id, by simp; rfl, by simp⟩, ⟨[], by simp⟩, ⟨id, [], JobFrame.id, by simp⟩, JobsUnique.of_jobs_eq rfl⟩

theorem foldGroups_none (b upd : Nat) (u : Update) (l : List GroupSpec) :
    l.foldl (groupSpecStep b upd u) none = none := by
  induction l with
  | nil => rfl
  | cons _ _ ih => simpa [groupSpecStep] using ih

theorem shape_foldGroups (b upd : Nat) (u : Update) (specs : List GroupSpec) :
    ∀ (s s' : State), specs.foldl (groupSpecStep b upd u) (some s) = some s' → Shape s s' := by
  induction specs with
  | nil => intro s s' h; simp at h; subst h; exact Shape.refl s
  | cons sp rest ih =>
    intro s s' h
    simp only [List.foldl_cons] at h
    cases hmid : groupSpecStep b upd u (some s) sp with
    | none => rw [hmid, foldGroups_none] at h; exact absurd h (by simp)
    | some mid =>
      rw [hmid] at h
      exact (shape_insertGroup s mid b upd _ _ (by simpa [groupSpecStep] using hmid)).trans (ih mid s' h)

theorem shape_insertGroups (s : State) (b upd user : Nat) (specs : List GroupSpec) :
    Shape s (insertGroups s b upd user specs).1 := by
  unfold insertGroups
  model_split
  all_goals first | exact Shape.refl s | skip
  next s' hr => exact shape_foldGroups b upd _ _ s s' hr

/-- the row-by-row outcome of the multi-row `INSERT INTO jobs` is `none` exactly for a clean bunch -/
theorem jobRowsOutcome_none (s : State) (b : Nat) : ∀ (js : List Job) (seen : List Nat),
    jobRowsOutcome s b js seen = none →
    (∀ j ∈ js, groupCancelled s b j.group = false ∧ (findGroup s b j.group).isSome ∧ findJob s b j.id = none ∧ j.id ∉ seen) ∧
      (js.map (·.id)).Nodup := by
  intro js
  induction js with
  | nil => intro seen _; simp
  | cons j rest ih =>
    intro seen h
    unfold jobRowsOutcome at h
    split_ifs at h with h1 h2 h3
    have h1' : groupCancelled s b j.group = false := by simpa using h1
    simp only [not_or, List.contains_iff_mem, Bool.not_eq_true] at h2
    have h2a : findJob s b j.id = none := by simpa using h2.1
    have h3' : (findGroup s b j.group).isSome := by
      simpa [Option.isSome_iff_ne_none] using h3
    obtain ⟨hall, hnd⟩ := ih (j.id :: seen) h
    refine ⟨?_, ?_⟩
    · intro x hx
      rcases List.mem_cons.mp hx with rfl | hx
      · exact ⟨h1', h3', h2a, by simpa using h2.2⟩
      · obtain ⟨a, b', c, d⟩ := hall x hx
        exact ⟨a, b', c, fun hm => d (List.mem_cons_of_mem _ hm)⟩
    · rw [List.map_cons, List.nodup_cons]
      refine ⟨?_, hnd⟩
      intro hm
      rw [List.mem_map] at hm
      obtain ⟨x, hx, hxe⟩ := hm
      exact (hall x hx).2.2.2 (by rw [hxe]; exact List.mem_cons_self)

/-- what an accepted bunch guarantees about the inserted rows -/
theorem insertJobsReject_none {s : State} {b user : Nat} {u : Update} {bt : Batch} {first : JobSpec} {specs : List JobSpec}
    (h : insertJobsReject s b user u bt first specs = none) :
    (∀ j ∈ specs.map (mkJob u b), groupCancelled s b j.group = false ∧ (findGroup s b j.group).isSome ∧
      findJob s b j.id = none) ∧ ((specs.map (mkJob u b)).map (·.id)).Nodup ∧ u.committed = false ∧
      bt.user = user ∧ bt.deleted = false := by
  unfold insertJobsReject at h
  dsimp only at h
  by_cases h1 : bt.user ≠ user ∨ bt.deleted = true
  · simp [h1] at h
  by_cases h2 : u.committed = true
  · simp [h1, h2] at h
  by_cases h3 : (specs.any fun sp => !specIdsOk u sp) = true
  · simp [h1, h2, h3] at h
  rw [if_neg h1, if_neg h2, if_neg h3] at h
  simp only [not_or, Decidable.not_not, Bool.not_eq_true] at h1
  cases hr : jobRowsOutcome s b (specs.map (mkJob u b)) [] with
  | some o => rw [hr] at h; simp at h
  | none =>
    obtain ⟨hall, hnd⟩ := jobRowsOutcome_none s b _ [] hr
    exact ⟨fun j hj => ⟨(hall j hj).1, (hall j hj).2.1, (hall j hj).2.2.1⟩, hnd, by simpa using h2, by simpa using h1.1,
      by simpa using h1.2⟩

/-- an accepted bunch passed the id checks of `_create_jobs`: every spec has its in-update id in `[1, n_jobs]`, in-update
parents in `[1, own in-update id)`, absolute parents in `[1, own absolute id)` -/
theorem insertJobsReject_ids {s : State} {b user : Nat} {u : Update} {bt : Batch} {first : JobSpec} {specs : List JobSpec}
    (h : insertJobsReject s b user u bt first specs = none) : ∀ sp ∈ specs, specIdsOk u sp = true := by
  unfold insertJobsReject at h
  dsimp only at h
  by_cases h1 : bt.user ≠ user ∨ bt.deleted = true
  · simp [h1] at h
  by_cases h2 : u.committed = true
  · simp [h1, h2] at h
  by_cases h3 : (specs.any fun sp => !specIdsOk u sp) = true
  · simp [h1, h2, h3] at h
  intro sp hsp
  cases hv : specIdsOk u sp with
  | true => rfl
  | false => exact absurd (List.any_eq_true.mpr ⟨sp, hsp, by simp [hv]⟩) h3

/-- a bunch with an id outside the checks is answered with an error, whatever else holds -/
theorem insertJobsReject_badIds (s : State) (b user : Nat) (u : Update) (bt : Batch) (first : JobSpec) (specs : List JobSpec)
    (hbad : ∃ sp ∈ specs, specIdsOk u sp = false) : ∃ e, insertJobsReject s b user u bt first specs = some (.err e) := by
  unfold insertJobsReject
  dsimp only
  by_cases h1 : bt.user ≠ user ∨ bt.deleted = true
  · exact ⟨_, by rw [if_pos h1]⟩
  by_cases h2 : u.committed = true
  · exact ⟨_, by rw [if_neg h1, if_pos h2]⟩
  obtain ⟨sp, hsp, hb⟩ := hbad
  have h3 : (specs.any fun sp => !specIdsOk u sp) = true := List.any_eq_true.mpr ⟨sp, hsp, by simp [hb]⟩
  exact ⟨_, by rw [if_neg h1, if_neg h2, if_pos h3]⟩

/-- ER_DUP_ENTRY early return: the bunch passes the id checks, its first row passes the trigger and already exists ⇒ `ok 0` -/
theorem insertJobsReject_dup (s : State) (b user : Nat) (first : JobSpec) (rest : List JobSpec) (u : Update) (bt : Batch)
    (h1 : bt.user = user) (h2 : bt.deleted = false) (h3 : u.committed = false)
    (hids : ∀ sp ∈ first :: rest, specIdsOk u sp = true)
    (hnc : groupCancelled s b (mkJob u b first).group = false)
    (hdup : (findJob s b (first.relId + u.startJob - 1)).isSome) :
    insertJobsReject s b user u bt first (first :: rest) = some (.ok 0) := by
  unfold insertJobsReject
  dsimp only
  have hany : ¬ ((first :: rest).any fun sp => !specIdsOk u sp) = true := by
    intro h
    obtain ⟨sp, hsp, hb⟩ := List.any_eq_true.mp h
    rw [hids sp hsp] at hb
    simp at hb
  rw [if_neg (by simp [h1, h2]), if_neg (by simp [h3]), if_neg hany]
  have : jobRowsOutcome s b ((first :: rest).map (mkJob u b)) [] = some (.ok 0) := by
    simp only [List.map_cons, jobRowsOutcome]
    rw [if_neg (by simp [hnc])]
    have hid : (mkJob u b first).id = first.relId + u.startJob - 1 := rfl
    rw [if_pos (Or.inl (by rw [hid]; exact hdup))]
  rw [this]

theorem shape_insertJobsApply (s : State) (b upd user : Nat) (u : Update) (bt : Batch) (first : JobSpec)
    (specs : List JobSpec) (h : insertJobsReject s b user u bt first specs = none) :
    Shape s (insertJobsApply s b upd u specs) := by
  obtain ⟨hall, hnd, -⟩ := insertJobsReject_none h
  refine ⟨⟨id, [], GroupFrame.id, by simp [insertJobsApply], by simp⟩, ⟨[], by simp [insertJobsApply]⟩,
    ⟨id, _, JobFrame.id, by simp [insertJobsApply]; rfl⟩, ?_⟩
  intro hu
  refine jobsUnique_append s b _ ?_ ?_ hnd hu
  · intro x hx; rw [List.mem_map] at hx; obtain ⟨sp, _, rfl⟩ := hx; rfl
  · intro x hx; exact (hall x hx).2.2

theorem shape_insertJobs (s : State) (b upd user : Nat) (specs : List JobSpec) :
    Shape s (insertJobs s b upd user specs).1 := by
  unfold insertJobs
  split
  · exact Shape.refl s
  · split
    · split
      · exact Shape.refl s
      · rename_i hrej
        exact shape_insertJobsApply s b upd user _ _ _ _ hrej
    · exact Shape.refl s

theorem shape_cancelApply (s : State) (b g : Nat) : Shape s (cancelApply s b g) :=
  ⟨⟨id, [], GroupFrame.id, by simp [cancelApply], by simp⟩, ⟨_, rfl⟩, ⟨id, [], JobFrame.id, by simp [cancelApply]⟩,
    JobsUnique.of_jobs_eq rfl⟩

theorem shape_cancelGroup (s : State) (b g : Nat) : Shape s (cancelGroup s b g).1 := by
  unfold cancelGroup
  split_ifs
  · exact Shape.refl s
  · exact Shape.refl s
  · exact shape_cancelApply s b g

theorem shape_deleteBatch (s : State) (b : Nat) : Shape s (deleteBatch s b).1 := by
  unfold deleteBatch
  split
  · exact Shape.refl s
  · split_ifs
    · exact Shape.refl s
    · exact Shape.of_eq rfl rfl rfl
    · exact (shape_cancelApply s b 0).trans (Shape.of_eq rfl rfl rfl)

theorem groupFrame_setStateJobs (p : Group → Prop) [DecidablePred p] (st : Group → GState) (n : Group → Int) :
    GroupFrame (fun g => if p g then { g with state := st g, nJobs := n g } else g) :=
  GroupFrame.ite p (F := fun g => { g with state := st g, nJobs := n g }) (fun _ => ⟨rfl, rfl, rfl, rfl⟩)

theorem shape_commitUpdate (s : State) (b upd : Nat) : Shape s (commitUpdate s b upd).1 := by
  unfold commitUpdate
  model_split
  all_goals first | exact Shape.refl s | exact Shape.of_eq rfl rfl rfl | skip
  · exact ⟨⟨_, [], groupFrame_setStateJobs _ _ _, by rw [List.append_nil], by simp⟩, ⟨[], by simp⟩, ⟨id, [], JobFrame.id, by simp⟩, JobsUnique.of_jobs_eq rfl⟩
  · refine Shape.trans (b := _) ?_ (shape_updateJobs _ _ _ ?_)
    · exact ⟨⟨_, [], groupFrame_setStateJobs _ _ _, by rw [List.append_nil], by simp⟩, ⟨[], by simp⟩, ⟨id, [], JobFrame.id, by simp⟩, JobsUnique.of_jobs_eq rfl⟩
    · intro x
      refine ⟨rfl, rfl, rfl, rfl, rfl, rfl, rfl, ?_⟩
      intro hx; dsimp only; split_ifs <;> simp_all

end HailVerif.BatchDB

namespace HailVerif.BatchDB

theorem jobFrame_setStateAttempt (st : JState) (a : Option Nat) : JobFrame (setStateAttempt st a) :=
  fun _ => ⟨rfl, rfl, rfl, rfl, rfl, rfl, rfl, fun h => h⟩

theorem jobFrame_childUpdate (ns : JState) : JobFrame (childUpdate ns) := by
  intro x
  refine ⟨rfl, rfl, rfl, rfl, rfl, rfl, rfl, ?_⟩
  intro hx; unfold childUpdate; dsimp only; split_ifs <;> simp_all

theorem shape_newInstance (s : State) (n : Nat) (c : Int) (p : Bool) : Shape s (newInstance s n c p).1 := by
  unfold newInstance; split_ifs
  · exact Shape.refl s
  · exact Shape.of_eq rfl rfl rfl

theorem shape_activate (s : State) (n : Nat) : Shape s (activate s n).1 := by
  unfold activate; model_split
  all_goals first | exact Shape.refl s | exact Shape.of_eq rfl rfl rfl

theorem shape_markDeleted (s : State) (n : Nat) : Shape s (markDeleted s n).1 := by
  unfold markDeleted; model_split
  all_goals first | exact Shape.refl s | exact Shape.of_eq rfl rfl rfl

theorem shape_endAttempts (s : State) (d : Nat) (p : Attempt → Bool) (ts : Int) (r : String) :
    Shape s (endAttempts s d p ts r) := shape_updateAttempts s d _ _

theorem shape_deactivateApply (s : State) (n : Nat) (r : String) (ts : Int) (d : Nat) :
    Shape s (deactivateApply s n r ts d) := by
  unfold deactivateApply
  exact ((shape_endAttempts s d _ ts r).trans (shape_updateJobs _ _ _ (jobFrame_setStateAttempt _ _))).trans
    (Shape.of_eq rfl rfl rfl)

theorem shape_deactivate (s : State) (n : Nat) (r : String) (ts : Int) (d : Nat) : Shape s (deactivate s n r ts d).1 := by
  unfold deactivate
  split
  · exact Shape.refl s
  · split_ifs
    · exact Shape.refl s
    · exact shape_deactivateApply s n r ts d

theorem shape_schedulePrep (s : State) (b j a i : Nat) (job : Job) : Shape s (schedulePrep s b j a i job) :=
  shape_addAttempt s b j _ _ _

theorem shape_schedule (s : State) (b j a i : Nat) : Shape s (schedule s b j a i).1 := by
  unfold schedule
  split
  · exact Shape.refl s
  · split_ifs
    · exact (shape_schedulePrep s b j a i _).trans (shape_updateJobs _ _ _ (jobFrame_setStateAttempt _ _))
    · exact shape_schedulePrep s b j a i _

theorem shape_startPrep (s : State) (b j a i : Nat) (ts : Int) (d : Nat) (job : Job) :
    Shape s (startPrep s b j a i ts d job) :=
  (shape_addAttempt s b j _ _ _).trans (shape_updateAttempts _ d _ _)

theorem shape_startLike (s : State) (b j a i : Nat) (ts : Int) (d : Nat) (need : IState) (ns : JState) :
    Shape s (startLike s b j a i ts d need ns).1 := by
  unfold startLike
  split
  · exact Shape.refl s
  · split_ifs
    · exact (shape_startPrep s b j a i ts d _).trans (shape_updateJobs _ _ _ (jobFrame_setStateAttempt _ _))
    · exact shape_startPrep s b j a i ts d _

theorem shape_markGroupsComplete (s : State) (b g : Nat) : Shape s (markGroupsComplete s b g) := by
  unfold markGroupsComplete
  exact ⟨⟨_, [], GroupFrame.ite _ (F := fun x => { x with state := .complete }) (fun _ => ⟨rfl, rfl, rfl, rfl⟩),
    by rw [List.append_nil], by simp⟩, ⟨[], by simp⟩, ⟨id, [], JobFrame.id, by simp⟩, JobsUnique.of_jobs_eq rfl⟩

theorem shape_completePrep (s : State) (b j : Nat) (att inst : Option Nat) (st e : Option Int) (r : String) (d : Nat)
    (job : Job) : Shape s (completePrep s b j att inst st e r d job) := by
  unfold completePrep
  dsimp only
  have h1 := shape_addAttempt s b j att inst job.cores
  cases att with
  | none => dsimp only; split_ifs
            · exact h1.trans (shape_freeAdd _ _ _)
            · exact h1
  | some a => dsimp only; split_ifs
              · exact (h1.trans (shape_updateAttempts _ d _ _)).trans (shape_freeAdd _ _ _)
              · exact h1.trans (shape_updateAttempts _ d _ _)

theorem groupFrame_tally (ns : JState) : GroupFrame (tally ns) := fun _ => ⟨rfl, rfl, rfl, rfl⟩

theorem shape_tallyGroups (s : State) (b g : Nat) (ns : JState) : Shape s (tallyGroups s b g ns) := by
  unfold tallyGroups
  exact ⟨⟨_, [], GroupFrame.ite _ (groupFrame_tally ns), by rw [List.append_nil], by simp⟩, ⟨[], by simp⟩, ⟨id, [], JobFrame.id, by simp⟩, JobsUnique.of_jobs_eq rfl⟩

theorem shape_completeBatchIfDone (s : State) (b : Nat) : Shape s (completeBatchIfDone s b) := Shape.of_eq rfl rfl rfl

theorem shape_completeJob (s : State) (b j : Nat) (att : Option Nat) (ns : JState) (job : Job) :
    Shape s (completeJob s b j att ns job) := by
  unfold completeJob
  exact (((shape_updateJobs s _ _ (jobFrame_setStateAttempt ns att)).trans (shape_tallyGroups _ b job.group ns)).trans
    (shape_completeBatchIfDone _ b)).trans (shape_markGroupsComplete _ b job.group)

theorem shape_complete (s : State) (b j : Nat) (att inst : Option Nat) (ns : JState) (st e : Option Int) (r : String)
    (d : Nat) : Shape s (complete s b j att inst ns st e r d).1 := by
  unfold complete
  split
  · exact Shape.refl s
  · split_ifs
    · exact shape_completePrep s b j att inst st e r d _
    · exact ((shape_completePrep s b j att inst st e r d _).trans (shape_completeJob _ b j att ns _)).trans
        (shape_updateJobs _ _ _ (jobFrame_childUpdate ns))
    · exact shape_completePrep s b j att inst st e r d _
    · exact shape_completePrep s b j att inst st e r d _

theorem shape_unschedulePrep (s : State) (b j a i : Nat) (e : Int) (r : String) (d : Nat) (job : Job) :
    Shape s (unschedulePrep s b j a i e r d job) := by
  unfold unschedulePrep
  dsimp only
  split_ifs
  · exact (shape_endAttempts s d _ e r).trans (shape_freeAdd _ _ _)
  · exact shape_endAttempts s d _ e r

theorem shape_unschedule (s : State) (b j a i : Nat) (e : Int) (r : String) (d : Nat) :
    Shape s (unschedule s b j a i e r d).1 := by
  unfold unschedule
  split
  · exact Shape.refl s
  · split_ifs
    · exact (shape_unschedulePrep s b j a i e r d _).trans (shape_updateJobs _ _ _ (jobFrame_setStateAttempt _ _))
    · exact shape_unschedulePrep s b j a i e r d _

theorem shape_addResources (s : State) (b j a : Nat) (res : List (Nat × Int)) (d : Nat) :
    Shape s (addResources s b j a res d).1 := by
  unfold addResources; split_ifs
  · exact Shape.refl s
  · exact Shape.of_eq rfl rfl rfl

theorem shape_heartbeat (s : State) (atts : List (Nat × Nat × Nat)) (ts : Int) (d : Nat) :
    Shape s (heartbeat s atts ts d).1 := by
  unfold heartbeat; exact Shape.of_eq rfl rfl rfl

end HailVerif.BatchDB

namespace HailVerif.BatchDB

theorem shape_step (s : State) (op : Op) : Shape s (step s op).1 := by
  cases op with
  | createBatch u bp t => exact shape_createBatch s u bp t
  | createUpdate b t nj ng u => exact shape_createUpdate s b t nj ng u
  | insertGroups b u usr specs => exact shape_insertGroups s b u usr specs
  | insertJobs b u usr specs => exact shape_insertJobs s b u usr specs
  | commitUpdate b u => exact shape_commitUpdate s b u
  | cancelGroup b g => exact shape_cancelGroup s b g
  | deleteBatch b => exact shape_deleteBatch s b
  | newInstance n c p => exact shape_newInstance s n c p
  | activate n => exact shape_activate s n
  | deactivate n r ts d => exact shape_deactivate s n r ts d
  | markDeleted n => exact shape_markDeleted s n
  | schedule b j a i => exact shape_schedule s b j a i
  | creating b j a i ts d => exact shape_startLike s b j a i ts d _ _
  | started b j a i ts d => exact shape_startLike s b j a i ts d _ _
  | complete b j a i st st' e r d => exact shape_complete s b j a i st st' e r d
  | unschedule b j a i e r d => exact shape_unschedule s b j a i e r d
  | addResources b j a res d => exact shape_addResources s b j a res d
  | heartbeat atts ts d => exact shape_heartbeat s atts ts d
  | cleanupStaging => exact Shape.of_eq rfl rfl rfl
  | cleanupCancellable => exact Shape.of_eq rfl rfl rfl
  | compact => exact Shape.of_eq rfl rfl rfl

end HailVerif.BatchDB
